(* C08 - an accepted schema's example validates against its generated OpenAPI schema.
   Decided by an independent JSON Schema validator on the implementation's own output (lib/props/c08.py).  The theorem
   is the soundness of the translation for the keywords with arithmetic content: Model/OasSem.v - what the converter
   emits for a scalar node with bound rules (tied by correspondence on the emitted keywords) and what JSON Schema
   means by them, on the decimal VALUES the texts denote. *)
From Coq Require Import List ZArith NArith Bool.
From JS Require Import Base.Res Spec.Decimal Model.AllOf Model.Number Model.EnumParse Model.RuleSem Model.OasSem Model.OasLeaf Model.OasTree
  Proofs.DigitArith Proofs.NumberCmp Proofs.NumberNorm Proofs.NumberScan Proofs.NumberMain Proofs.RuleProofs Proofs.OasProofs Proofs.OasLeafProofs Proofs.OasTreeProofs Model.OasRef Proofs.OasRefProofs.
Import ListNotations.

(* every value the checker accepts for a node (type + min/max with exclusivity, whatever the spelling of value and
   bounds) is valid against the Schema Object emitted for that node: type, minimum/exclusiveMinimum, maximum/exclusiveMaximum *)
Theorem C08_translation_sound : forall k rules v,
  existsb is_enum rules = false -> beq_bytes v w_null_lit = false -> exp_small v -> bounds_readable rules ->
  validate (Leaf k rules) None v = true -> js_valid (to_oas (Leaf k rules)) v.
Proof. exact oas_sound. Qed.
Print Assumptions C08_translation_sound.

Local Open Scope N_scope.
Example C08_example :
  to_oas (Leaf KFloat [RMin [45;49;48;48] true; RPrecision 2; RMax [53;46;48] false])
  = mk_oas (Some ONumber) (Some ([45;49;48;48], true)) (Some ([53;46;48], false)).
Proof. reflexivity. Qed.

(* ---- scalar nodes in full (Model/OasLeaf.v): type, minimum/maximum, minLength/maxLength (code points), multipleOf = 10^-precision,
   enum (incl. const and the null type), nullable.  ex is the example written in the schema; the first validate premise is
   what Check() established (the example satisfies its own rules), the second says v is a value those rules accept *)
Theorem C08_leaf_sound : forall ex k rules v,
  exp_small v -> bounds_readable rules ->
  (lit_kind v = KNull -> v = w_null_lit) -> (lit_kind ex = KNull -> ex = w_null_lit) ->
  validate (Leaf k rules) (Some ex) ex = true -> validate (Leaf k rules) (Some ex) v = true ->
  jx_valid (to_oasx ex (Leaf k rules)) v.
Proof. exact oasx_sound. Qed.
Print Assumptions C08_leaf_sound.

(* ---- whole schemas without references (Model/OasTree.v): literal nodes, scalar nodes with an `or` rule over built-in types
   and rule-sets (anyOf; `const` in an alternative = the carrier's example; a null example is a Null node), under arrays (items as anyOf, minItems/maxItems, an
   empty array closed with maxItems 0) and objects (properties, required, additionalProperties false / any / a type name);
   `inst n v`: v is a value the schema's own rules accept.  Every such value is valid against the converted schema ... *)
Theorem C08_tree_sound : forall n, accepted n -> forall v, inst n v -> tvalid (to_otree n) v.
Proof. exact tree_sound. Qed.
Print Assumptions C08_tree_sound.
(* ... in particular the schema's own example *)
Theorem C08_example_valid : forall n, accepted n -> tvalid (to_otree n) (example n).
Proof. exact example_valid. Qed.
Print Assumptions C08_example_valid.

(* ---- schemas with references (Model/OasRef.v): a value written as a type name, a type choice (@a | @b), a scalar with the rule
   type: "@name", type names among the alternatives of `or`, and additionalProperties naming a type are converted to $ref; an
   object with key shortcuts (`@name: value`) gets additionalProperties: {"anyOf": [what the rule names, the values of the shortcuts -
   and of every member whose quoted key begins with @, as the converter does]}; `types` are the registered types, the components are their conversions.  A reference accepts what the
   type accepts (insth h: by a derivation of height h - so recursive types are covered).  Every accepted value is valid
   against the converted schema with the references resolved in the components ... *)
Theorem C08_ref_sound : forall types, types_accepted types ->
  forall h n v, accepted_e types n -> insth types h n v -> tvalid_e types (to_otree n) v.
Proof. exact tree_sound_env. Qed.
Print Assumptions C08_ref_sound.
(* ... in particular the example, for schemas whose references are not recursive (the fuel suffices; the cut-off of the
   builder on recursive types is C06's model, Model/Recursion.v, and those examples are judged by the validator) *)
Theorem C08_ref_example_valid : forall types, types_accepted types ->
  forall fuel n v, accepted_e types n -> example_e types fuel n = Some v -> tvalid_e types (to_otree n) v.
Proof. exact example_e_valid. Qed.
Print Assumptions C08_ref_example_valid.
(* not vacuous: @node = {"v": 1, "next": @node // {optional: true, nullable: true}} is an accepted environment, the schema
   [@node] has the instance [{"v": 1, "next": {"v": 1}}] (height 5), and the example of {"n": @leaf} with @leaf = 1 is found *)
Example C08_ref_example :
  let node := SObj [([118], (false, SLeaf [49] (Leaf KInt []))); ([110;101;120;116], (true, SRef [110;111;100;101] true))] APFalse false in
  let types := [([110;111;100;101], node); ([108;101;97;102], SLeaf [49] (Leaf KInt []))] in
  to_otree (SArr [SRef [110;111;100;101] false] None None false) = OArr [ORef [110;111;100;101] false] None None false /\
  example_e types 5 (SObj [([110], (false, SRef [108;101;97;102] false))] APFalse false) = Some (JObj [([110], JLit [49])]) /\
  example_e types 50 (SRef [110;111;100;101] false) = None.
Proof. vm_compute. auto. Qed.

Example C08_tree_example :
  (* { "a": 0.25 // {precision: 2}, "b": [1, "x"] // {optional: true} } *)
  let n := SObj [([97], (false, SLeaf [48;46;50;53] (Leaf KFloat [RPrecision 2])));
                 ([98], (true, SArr [SLeaf [49] (Leaf KInt []); SLeaf [34;120;34] (Leaf KStr [])] None None false))] APFalse false in
  to_otree n =
  OObj [([97], OLeaf (mk_oasx (Some ONumber) None None None None (Some 2%Z) None false));
        ([98], OArr [OLeaf (mk_oasx (Some OInteger) None None None None None None false);
                     OLeaf (mk_oasx (Some OString) None None None None None None false)] None None false)] [[97]] APFalse false.
Proof. reflexivity. Qed.
