(* C08 - an accepted schema's example validates against its generated OpenAPI schema.
   Decided by an independent JSON Schema validator on the implementation's own output (lib/props/c08.py).  The theorem
   is the soundness of the translation for the keywords with arithmetic content: Model/OasSem.v - what the converter
   emits for a scalar node with bound rules (tied by correspondence on the emitted keywords) and what JSON Schema
   means by them, on the decimal VALUES the texts denote. *)
From Coq Require Import List ZArith NArith Bool.
From JS Require Import Base.Res Spec.Decimal Model.AllOf Model.Number Model.EnumParse Model.RuleSem Model.OasSem
  Proofs.DigitArith Proofs.NumberCmp Proofs.NumberNorm Proofs.NumberScan Proofs.NumberMain Proofs.RuleProofs Proofs.OasProofs.
Import ListNotations.

(* every value the checker accepts for a node (type + min/max with exclusivity, whatever the spelling of value and
   bounds) is valid against the Schema Object emitted for that node: type, minimum/exclusiveMinimum, maximum/exclusiveMaximum *)
Theorem C08_translation_sound : forall k rules v,
  existsb is_enum rules = false -> beq_bytes v w_null_lit = false -> exp_small v -> bounds_readable rules ->
  validate (Leaf k rules) None v = true -> js_valid (to_oas (Leaf k rules)) v.
Proof. exact oas_sound. Qed.
Print Assumptions C08_translation_sound.

Local Open Scope N_scope.
Example C08_example :
  to_oas (Leaf KFloat [RMin [45;49;48;48] true; RPrecision 2; RMax [53;46;48] false])
  = mk_oas (Some ONumber) (Some ([45;49;48;48], true)) (Some ([53;46;48], false)).
Proof. reflexivity. Qed.
