(* C11 - concurrent use.  What decides this property on the real code is the race detector plus the comparison
   with sequential results (level "other").  The model-level statements proved here:
   - ErrOnce/sync.Once: under any arrival order the function runs once and every caller gets its result;
   - a site that returns a pooled buffer's storage is overwritten under an interleaving (witness), which is
     why the site inventory of C10 (all sites copy) is a premise of race freedom for the pools.
   - the ownership invariant of Model/Conc.v for ALL schedules and all choices of buffers by Get: a buffer is held by
     at most one goroutine and never pooled while held, so a call that returns a copy returns its own output. *)
From Coq Require Import List NArith Bool.
From JS Require Import Model.Pools Model.Conc Proofs.ConcProofs Proofs.ConcInvariant Gen.PoolSites Proofs.PoolProofs.
Import ListNotations.

Theorem C11_once : forall V (f : unit -> V) (r : list (unit -> V)),
  oruns (fst (once_all once0 (f :: r))) = 1 /\ Forall (fun x => x = Some (f tt)) (snd (once_all once0 (f :: r))).
Proof. exact @once_runs_once. Qed.
Print Assumptions C11_once.

Theorem C11_alias_refuted :
  exists calls sched t v, final_value (crun (ginit calls) sched) t = Some v /\ v <> fst (nth t calls ([]%list, Copy)).
Proof. exact view_interleaving_refuted. Qed.
Print Assumptions C11_alias_refuted.

Theorem C11_sites_copy : forall s, In s pool_sites -> site_ok s = true.
Proof. exact sites_copy. Qed.
Print Assumptions C11_sites_copy.

(* every schedule, every choice of Get: exclusive ownership of buffers ... *)
Theorem C11_exclusive_ownership : forall calls sched t1 t2 th1 th2 i, t1 <> t2 ->
  nth_error (threads (crun (ginit calls) sched)) t1 = Some th1 -> nth_error (threads (crun (ginit calls) sched)) t2 = Some th2 ->
  held th1 = Some i -> held th2 <> Some i /\ ~ In i (gpool (crun (ginit calls) sched)).
Proof. exact exclusive_ownership. Qed.
Print Assumptions C11_exclusive_ownership.
(* ... hence a call that returns a copy (C11_sites_copy: all sites do) has the sequential result *)
Theorem C11_copy_calls_sequential : forall calls sched t th c,
  nth_error (threads (crun (ginit calls) sched)) t = Some th -> nth_error calls t = Some c -> snd c = Copy -> 3 <= pc th ->
  final_value (crun (ginit calls) sched) t = Some (fst c).
Proof. exact copy_calls_sequential. Qed.
Print Assumptions C11_copy_calls_sequential.
(* non-vacuity: the schedule that breaks a View (C11_alias_refuted) leaves Copy calls intact *)
Example C11_copy_example :
  final_value (crun (ginit [([1; 2]%N, Copy); ([9; 9]%N, Copy)])
                    [(0, None); (0, None); (0, None); (0, None); (1, Some 0); (1, None); (1, None)]) 0 = Some [1; 2]%N.
Proof. vm_compute. reflexivity. Qed.
