(* C11 - concurrent use.  What decides this property on the real code is the race detector plus the comparison
   with sequential results (level "other").  The model-level statements proved here:
   - ErrOnce/sync.Once: under any arrival order the function runs once and every caller gets its result;
   - a site that returns a pooled buffer's storage is overwritten under an interleaving (witness), which is
     why the site inventory of C10 (all sites copy) is a premise of race freedom for the pools.
   Not proved yet (stated in DESIGN): the ownership invariant of Model/Conc.v for all schedules. *)
From Coq Require Import List NArith Bool.
From JS Require Import Model.Pools Model.Conc Proofs.ConcProofs Gen.PoolSites Proofs.PoolProofs.
Import ListNotations.

Theorem C11_once : forall V (f : unit -> V) (r : list (unit -> V)),
  oruns (fst (once_all once0 (f :: r))) = 1 /\ Forall (fun x => x = Some (f tt)) (snd (once_all once0 (f :: r))).
Proof. exact @once_runs_once. Qed.
Print Assumptions C11_once.

Theorem C11_alias_refuted :
  exists calls sched t v, final_value (crun (ginit calls) sched) t = Some v /\ v <> fst (nth t calls ([]%list, Copy)).
Proof. exact view_interleaving_refuted. Qed.
Print Assumptions C11_alias_refuted.

Theorem C11_sites_copy : forall s, In s pool_sites -> site_ok s = true.
Proof. exact sites_copy. Qed.
Print Assumptions C11_sites_copy.
