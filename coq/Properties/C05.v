(* C05 - type references resolve exactly; UsedUserTypes() lists exactly the names used.
   Model/Refs.v: the collector (accumulator with an "already processed" set, traversal order of the Go code) and the
   names Check() can report as not found; tied to the code by correspondence on the ordered UsedUserTypes() list and
   on whether Check() says 1302 (the name in the message must be one of the model's).  Refers (Proofs/RefsProofs.v):
   one constructor per reference position. *)
From Coq Require Import List NArith Bool.
From JS Require Import Base.Res Model.AllOf Model.Refs Proofs.RefsProofs.
Import ListNotations.

(* UsedUserTypes(): without duplicates, precisely the names the schema refers to, in any position and depth *)
Theorem C05_used_exact : forall root, NoDup (used root) /\ forall t, In t (used root) <-> Refers root t.
Proof. exact used_exact. Qed.
Print Assumptions C05_used_exact.

(* the names Check() may report: not registered, and referred to by the root or by a registered type *)
Theorem C05_missing_exact : forall d root t,
  In t (missing d root) <-> registered d t = false /\ (Refers root t \/ exists r b, In (r, b) d /\ Refers b t).
Proof. exact missing_exact. Qed.
Print Assumptions C05_missing_exact.

(* if: an unregistered type reachable from the root through registered types is reported *)
Theorem C05_missing_if : forall d root t, Reach d root t -> registered d t = false -> In t (missing d root).
Proof. exact missing_if. Qed.
Print Assumptions C05_missing_if.

(* if and only if, when the registered types the root does not reach are valid (refer to registered types only);
   the code checks every registered type, so without that premise only C05_missing_exact holds *)
Theorem C05_missing_iff : forall d root t, closed_rest d root ->
  (forall r, {Reach d root r} + {~ Reach d root r}) ->
  (In t (missing d root) <-> Reach d root t /\ registered d t = false).
Proof. exact missing_iff. Qed.
Print Assumptions C05_missing_iff.

(* registering one more valid type that nothing refers to changes neither UsedUserTypes() nor what Check() reports *)
Theorem C05_unused_type_inert : forall d root x bx,
  (forall t, Refers bx t -> registered d t = true \/ t = x) ->
  ~ Refers root x -> (forall r b, In (r, b) d -> ~ Refers b x) -> ~ Refers bx x ->
  used root = used root /\ forall t, In t (missing (d ++ [(x, bx)]) root) <-> In t (missing d root).
Proof. exact unused_type_inert. Qed.
Print Assumptions C05_unused_type_inert.

(* non-vacuity: every reference position, one missing type two levels down *)
Local Open Scope N_scope.
Example C05_example :
  let root := RObj [4] (Some 2) [(Some 3, RLit (Some 1) [AName 2; ASet (Some 5)]); (None, RArr [RMix [1; 6]])] in
  used root = [4; 2; 3; 5; 1; 6] /\
  missing [(1, RLit None []); (2, RLit None []); (3, RLit None []); (4, RObj [] None []); (5, RMix [6]); (6, RMix [7])] root = [7].
Proof. vm_compute. split; reflexivity. Qed.
