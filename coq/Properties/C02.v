(* C02 - no input can crash, hang or panic any public entry point.
   Stack depth, memory and time belong to the runtime: they are observed by running every entry point, supervised, on
   mutated, oversized and self-referential inputs (lib/props/c02.py).  What a theorem can carry is TOTALITY of the
   logic: the models of the byte-level entry points - each tied to the code by the correspondence of its own property -
   answer with a value or an error for EVERY byte string, never with a panic. *)
From Coq Require Import String List ZArith NArith Bool.
From JS Require Import Base.Res Base.Lex Spec.Decimal Spec.JsonGrammar Model.Number Model.TypeGuess Model.JsonScan Model.RegexScan Model.LineCol Model.EnumParse
  Proofs.JsonClasses Proofs.JsonSound Proofs.JsonMain Proofs.RegexProofs Proofs.LineColProofs Proofs.EnumProofs Proofs.TotalProofs Proofs.NumberTotal.
From JS Require Import Model.SchemaText Proofs.SchemaLexTotal.
Import ListNotations.

(* JSON document scanner (Len / Check / NextLexeme, both option values): lexemes, or error 301/303 inside the text *)
Theorem C02_json_total : forall al s, all_bytes s ->
  match jlexemes al s with
  | (Ok _, _) => True
  | (Err e, i) => (e = 301%N \/ e = 303%N) /\ (0 <= i < Z.of_nat (length s))%Z
  | (Panic _, _) => False
  end.
Proof. exact lexemes_total. Qed.
Print Assumptions C02_json_total.

(* NewNumber: a number or an error; the exponent is never read past the end and never turned into an allocation beyond
   the limit (after the fix: commit for 1e4000000000) *)
Theorem C02_number_total : forall s, np (nscan s).
Proof. exact nscan_total. Qed.
Print Assumptions C02_number_total.

(* GuessSchemaType / json.Guess: a type name or the designed error *)
Theorem C02_guess_total : forall b, np (guess_schema b) /\ np (guess_json b).
Proof.
  intros b. pose proof (nscan_total b) as Hn.
  assert (Hi : np (g_is_integer b)). { unfold g_is_integer. destruct (dot_no_exp b); [exact I|]. destruct (nscan b); [exact I|exact I|destruct Hn]. }
  assert (Hf : np (g_is_float b)). { unfold g_is_float. destruct (dot_no_exp b); [exact I|]. destruct (nscan b); [exact I|exact I|destruct Hn]. }
  unfold guess_schema, guess_json.
  split; destruct (g_is_object b); try exact I; destruct (g_is_array b); try exact I; destruct (g_is_string b); try exact I;
    destruct (g_is_boolean b); try exact I; destruct (g_is_null b); try exact I;
    (apply bind_np; [exact Hi|]); intros [|]; try exact I; (apply bind_np; [exact Hf|]); intros [|]; try exact I.
  destruct (g_is_shortcut b); exact I.
Qed.
Print Assumptions C02_guess_total.

(* enum rule (Check / Values): accepted or refused *)
Theorem C02_enum_total : forall s, no_panic (eparse s).
Proof. exact eparse_total. Qed.
Print Assumptions C02_enum_total.

(* regex schema: accepted, or a positioned error (the empty text: code 202) *)
Theorem C02_regex_total : forall re_ok s, (exists p, fst (rcompile re_ok s) = Ok p) \/
  (s = [] /\ rcompile re_ok s = (Err 202, (-1)%Z)) \/
  (exists c i, rcompile re_ok s = (Err c, i) /\ (c = 1500 \/ c = 1501 \/ c = 1502)%N /\ (0 <= i < Z.of_nat (length s))%Z).
Proof. exact rcompile_reject. Qed.
Print Assumptions C02_regex_total.

(* rendering a diagnostic (Error()): the pointer line exists for every position inside the text *)
Theorem C02_render_total : forall s index, (0 <= index < Z.of_nat (length s))%Z -> exists p, pointer s index = Ok p /\ In 94%N p.
Proof. exact pointer_total. Qed.
Print Assumptions C02_render_total.

(* the schema lexer model (Model/SchemaText.v: blanks, punctuation, scalars, references, comments, inline and block
   annotations with their rule objects): with fuel above the length of the text it returns tokens or error 301 / 303 *)
Theorem C02_schema_lex_total : forall f s, (length s < f)%nat -> lex_res_ok (slex f s).
Proof. exact slex_total. Qed.
Print Assumptions C02_schema_lex_total.
