(* C17 - enum rule files: accepted texts and listed values.
   Model/EnumParse.v: a lexer and a parser for the language that the byte-by-byte state machine of rules/enum accepts
   (tied to the code by correspondence: verdict, literals, kinds on every concatenation of up to 4-5 tokens and on
   structured random texts).  The language, declaratively (Proofs/EnumProofs.v): EnumText s lits - blanks, then "[",
   then lexical items separated by blanks, newlines and annotations which are exactly the scalars lits separated by
   commas and the closing bracket; EnumScalar - RFC 8259 string, number without exponent, true, false, null
   (Spec/JsonGrammar.v). *)
From Coq Require Import List NArith Bool.
From JS Require Import Base.Res Spec.JsonGrammar Model.EnumParse Proofs.EnumProofs Proofs.JsonValueProofs Proofs.TotalProofs.
Import ListNotations.

(* whatever Check() accepts is an enum text; Values() lists its scalars in order; no two of them denote the same
   string or are the same literal *)
Theorem C17_sound : forall s lits, eparse s = Ok lits ->
  EnumText s lits /\
  forall l1 a l2 b l3, lits = l1 ++ a :: l2 ++ b :: l3 -> key_eqb (key_of a) (key_of b) = false.
Proof. exact eparse_sound. Qed.
Print Assumptions C17_sound.

(* the lexer alone: every token is a scalar of the grammar, annotations and blanks carry none *)
Theorem C17_lex_sound : forall fuel s ts, lex fuel s = Ok ts -> LexOf s ts.
Proof. exact lex_sound. Qed.
Print Assumptions C17_lex_sound.

Theorem C17_scalar : forall s lit rest, scalar s = Some (lit, rest) -> s = lit ++ rest /\ EnumScalar lit.
Proof. exact scalar_spec. Qed.
Print Assumptions C17_scalar.

(* the converse: every enum text whose scalars are pairwise different is accepted and listed back.  LexD is the grammar
   of LexOf with its two reading conventions explicit: a scalar is followed by something that cannot extend it (not a
   digit or a decimal point), a block annotation ends at its first closing mark *)
Theorem C17_complete : forall w r lits, ws w -> LexD r (toks_of lits) -> distinct (map key_of lits) = true ->
  eparse (w ++ 91%N :: r) = Ok lits.
Proof. exact eparse_complete. Qed.
Print Assumptions C17_complete.
(* and the parser answers for every byte string (C02) *)
Theorem C17_total : forall s, no_panic (eparse s).
Proof. exact eparse_total. Qed.

(* non-vacuity: numeric-looking strings, an escape equal to another entry is a duplicate, annotations *)
Local Open Scope N_scope.
Example C17_example_accept :
  eparse [32; 91; 49; 44; 32; 34; 49; 34; 32; 47; 47; 32; 99; 10; 44; 49; 46; 48; 93; 47; 42; 120; 42; 47]
  = Ok [[49]; [34; 49; 34]; [49; 46; 48]].                 (*  [1, "1" // c\n,1.0]/*x*/  *)
Proof. vm_compute. reflexivity. Qed.
Example C17_example_duplicate :
  eparse [91; 34; 97; 34; 44; 34; 92; 117; 48; 48; 54; 49; 34; 93] = Err 810.     (* ["a","a"] *)
Proof. vm_compute. reflexivity. Qed.
Example C17_example_exponent : eparse [91; 49; 101; 53; 93] = Err 301.            (* [1e5] *)
Proof. vm_compute. reflexivity. Qed.
