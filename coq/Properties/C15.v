(* C15 - Len() finds the end of the schema inside a larger text.
   For plain JSON (Model/JsonValue.v: jlen = where the parser stops) the statement is a theorem; for schemas with
   annotations and comments it is decided on the implementation itself (prefix, idempotence, trailers: lib/props/c15.py). *)
From Coq Require Import List NArith Bool.
From JS Require Import Base.Res Spec.JsonGrammar Model.EnumParse Model.JsonValue Proofs.EnumProofs Proofs.JsonValueProofs.
Import ListNotations.

(* the boundary is the end of the root value, whatever follows it (anything that cannot extend a number) *)
Theorem C15_boundary : forall v s w1 r, Renders v s -> ws w1 -> stop r -> jlen (w1 ++ s ++ r) = Some (length w1 + length s)%nat.
Proof. exact jlen_boundary. Qed.
Print Assumptions C15_boundary.
(* what follows never moves it *)
Theorem C15_trailer_free : forall v s w1 r1 r2, Renders v s -> ws w1 -> stop r1 -> stop r2 -> jlen (w1 ++ s ++ r1) = jlen (w1 ++ s ++ r2).
Proof. exact jlen_trailer_free. Qed.
Print Assumptions C15_trailer_free.
(* Len <= len, the prefix is the schema, and Len of the prefix is Len *)
Theorem C15_idempotent : forall v s w1 r n, Renders v s -> ws w1 -> stop r -> jlen (w1 ++ s ++ r) = Some n ->
  firstn n (w1 ++ s ++ r) = w1 ++ s /\ jlen (w1 ++ s) = Some n /\ (n <= length (w1 ++ s ++ r))%nat.
Proof. exact jlen_idempotent. Qed.
Print Assumptions C15_idempotent.
(* and the prefix is accepted with the same tree (C03) *)
Theorem C15_prefix_same_tree : forall v s w1, Renders v s -> ws w1 -> keys_ok (S (depth v)) v = true -> jparse (w1 ++ s) = Some v.
Proof. intros v s w1 Hr H1 Hk. rewrite <- (app_nil_r s). apply jparse_complete; [exact Hr|exact H1|constructor|exact Hk]. Qed.
Print Assumptions C15_prefix_same_tree.

Local Open Scope N_scope.
Example C15_example : jlen [32; 123; 34; 97; 34; 58; 49; 125; 32; 10; 71; 69; 84] = Some 8%nat.   (*  {"a":1} \nGET  *)
Proof. vm_compute. reflexivity. Qed.
