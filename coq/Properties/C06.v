(* C06 - no false recursion alarms; self-requiring roots are reported; Example() ends with JSON.
   Model/Recursion.v: recursionChecker (after the fix: commit) with nested type tables and the fallback to the
   checked schema's table; exampleBuilder's expansion with processedTypes; the bytes it writes.
   Spec/RefGraph.v: instantiability (least fixed point, height-indexed) and the "requires itself" relation. *)
From Coq Require Import List NArith Bool.
From JS Require Import Base.Res Model.Recursion Spec.RefGraph Spec.JsonGrammar Proofs.RecursionProofs Proofs.ExampleProofs.
Import ListNotations.

(* for every project, every table configuration and every amount of fuel: an "infinite recursion" verdict
   implies that the root schema has no finite instance *)
Theorem C06_no_false_alarm : forall rootname rootnode roott fuel,
  rec_check fuel rootname rootnode roott = Ok true -> ~ Inst rootname rootnode roott.
Proof. exact no_false_alarm. Qed.
Print Assumptions C06_no_false_alarm.

(* a root that requires itself through mandatory single-name links - of any length, with the intermediate
   types resolved in the enclosing type's table or in the root's - is reported whenever the check returns *)
Theorem C06_self_requiring : forall rootname rootnode roott fuel b,
  Req rootname roott [] roott rootnode -> rec_check fuel rootname rootnode roott = Ok b -> b = true.
Proof. exact self_requiring_reported. Qed.
Print Assumptions C06_self_requiring.

(* the example builder terminates: with fuel = size of the root + 2 * #types * (largest type + 1) it never runs
   out (every type is expanded at most twice on a path) ... *)
Theorem C06_example_terminates : forall roott M,
  Forall (fun te => match snd te with Entry r _ => sz r <= M end) roott ->
  forall rootnode, not_panic (build roott (sz rootnode + room roott [] * (M + 1)) [] rootnode).
Proof. exact example_terminates. Qed.
Print Assumptions C06_example_terminates.

(* ... and what it writes (separator before every written member except the first) is an RFC 8259 value *)
Theorem C06_example_json : forall n x, xsize x <= n -> JValue (render x).
Proof. exact render_is_json. Qed.
Print Assumptions C06_example_json.

(* partial: termination of the checker itself (fuel bound) is not proved; the correspondence runs it with fuel 4000
   on every generated graph and compares the verdict with the implementation *)
Example C06_example :
  (* @t0 {p: @t1}, @t1 {p: @t2}, @t2 {p: @t0}: reported;  with the last link optional: accepted *)
  let t l := [(1, Entry (NObj false false [NRef false false [2]]) []); (2, Entry (NObj false false [l]) [])]%N in
  rec_check 100 0%N (NObj false false [NRef false false [1%N]]) (t (NRef false false [0%N])) = Ok true /\
  rec_check 100 0%N (NObj false false [NRef false false [1%N]]) (t (NRef true false [0%N])) = Ok false.
Proof. vm_compute. auto. Qed.
