(* C06 - no false recursion alarms; self-requiring roots are reported; Example() ends with JSON.
   Model/Recursion.v: recursionChecker (after the fix: commit) with nested type tables and the fallback to the
   checked schema's table; exampleBuilder's expansion with processedTypes; the bytes it writes.
   Spec/RefGraph.v: instantiability (least fixed point, height-indexed) and the "requires itself" relation. *)
From Coq Require Import List NArith Bool.
From JS Require Import Base.Res Model.Recursion Spec.RefGraph Spec.JsonGrammar Proofs.RecursionProofs Proofs.RecursionTermination Proofs.ExampleProofs.
Import ListNotations.

(* for every project, every table configuration and every amount of fuel: an "infinite recursion" verdict
   implies that the root schema has no finite instance *)
Theorem C06_no_false_alarm : forall rootname rootnode roott fuel,
  rec_check fuel rootname rootnode roott = Ok true -> ~ Inst rootname rootnode roott.
Proof. exact no_false_alarm. Qed.
Print Assumptions C06_no_false_alarm.

(* a root that requires itself through mandatory single-name links - of any length, with the intermediate
   types resolved in the enclosing type's table or in the root's - is reported whenever the check returns *)
Theorem C06_self_requiring : forall rootname rootnode roott fuel b,
  Req rootname roott [] roott rootnode -> rec_check fuel rootname rootnode roott = Ok b -> b = true.
Proof. exact self_requiring_reported. Qed.
Print Assumptions C06_self_requiring.

(* the example builder terminates: with fuel = size of the root + 2 * #types * (largest type + 1) it never runs
   out (every type is expanded at most twice on a path) ... *)
Theorem C06_example_terminates : forall roott M,
  Forall (fun te => match snd te with Entry r _ => sz r <= M end) roott ->
  forall rootnode, not_panic (build roott (sz rootnode + room roott [] * (M + 1)) [] rootnode).
Proof. exact example_terminates. Qed.
Print Assumptions C06_example_terminates.

(* ... and what it writes (separator before every written member except the first) is an RFC 8259 value *)
Theorem C06_example_json : forall n x, xsize x <= n -> JValue (render x).
Proof. exact render_is_json. Qed.
Print Assumptions C06_example_json.

(* the checker terminates: check_fuel = size of the root + #names * (largest type + 1) is enough fuel (every followed
   reference adds a new name of the finite universe of the nested tables to `visited`); it never fails with a code;
   and more fuel never changes the verdict - so the model decides its question ... *)
Theorem C06_checker_terminates : forall rootname rootnode roott f, check_fuel rootnode roott <= f ->
  exists b, rec_check f rootname rootnode roott = Ok b.
Proof. exact check_terminates. Qed.
Print Assumptions C06_checker_terminates.
Theorem C06_checker_decides : forall rootname rootnode roott,
  exists b, forall f, check_fuel rootnode roott <= f -> rec_check f rootname rootnode roott = Ok b.
Proof. exact check_decides. Qed.
Print Assumptions C06_checker_decides.
(* ... and the two directions hold without "whenever the check returns": a root with a finite instance is accepted,
   a root that requires itself is reported *)
Theorem C06_instantiable_accepted : forall rootname rootnode roott f, check_fuel rootnode roott <= f ->
  Inst rootname rootnode roott -> rec_check f rootname rootnode roott = Ok false.
Proof. exact instantiable_is_accepted. Qed.
Print Assumptions C06_instantiable_accepted.
Theorem C06_self_requiring_reported : forall rootname rootnode roott f, check_fuel rootnode roott <= f ->
  Req rootname roott [] roott rootnode -> rec_check f rootname rootnode roott = Ok true.
Proof. exact self_requiring_is_reported. Qed.
Print Assumptions C06_self_requiring_reported.

Example C06_example :
  (* @t0 {p: @t1}, @t1 {p: @t2}, @t2 {p: @t0}: reported;  with the last link optional: accepted *)
  let t l := [(1, Entry (NObj false false [NRef false false [2]]) []); (2, Entry (NObj false false [l]) [])]%N in
  rec_check 100 0%N (NObj false false [NRef false false [1%N]]) (t (NRef false false [0%N])) = Ok true /\
  rec_check 100 0%N (NObj false false [NRef false false [1%N]]) (t (NRef true false [0%N])) = Ok false.
Proof. vm_compute. auto. Qed.
