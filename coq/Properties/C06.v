(* theorems land in the next commit *)
From JS Require Import Model.Recursion.
