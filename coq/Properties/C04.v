(* C04 - GetAST() reports exactly what the source says: structure, rules, notes, order.
   Model/SchemaText.v: lexer (tokens incl. whole annotations: rule object + note) and parser (tree with the
   annotations of every node in source order); tied to the code by correspondence on the AST dump (kinds, decoded keys
   and scalars, key shortcuts, reference texts, rule names in order with their values incl. nested lists and
   rule-sets, notes).  TR (Proofs/SchemaTextProofs.v): the token sequences a tree can be written as. *)
From Coq Require Import List NArith Bool.
From JS Require Import Base.Res Spec.JsonGrammar Model.EnumParse Model.SchemaText Proofs.SchemaTextProofs.
Import ListNotations.

(* homomorphism source -> tree: every way of writing a tree as tokens - each annotation after the token of the node it
   belongs to, or, for a scalar or a reference, after the comma that follows it - is parsed back to exactly that tree:
   same nodes in the same order, same keys, same literals, same annotations in the same order, nothing else *)
Theorem C04_tokens_to_tree : forall v tv, TR v tv -> sparse_toks tv = Some v.
Proof. exact sparse_toks_complete. Qed.
Print Assumptions C04_tokens_to_tree.

Theorem C04_parse_complete : forall v tv, TR v tv -> forall r f, after_value r -> (length tv <= f)%nat -> spvalue f (tv ++ r) = Some (v, r).
Proof. exact (proj1 sparse_complete). Qed.
Print Assumptions C04_parse_complete.

(* non-vacuity: rules in order, a 20-digit value kept as written, a note, a key shortcut, a nested or list *)
Local Open Scope N_scope.
Definition ex_text : bytes :=   (*  {\n  @t: 1, // {min: 0, maxLength: 12345678901234567890} - n\n  "k": [ // {or: [{type: "x"}, "@t"]}\n  ]\n}  *)
  [123;10;32;32;64;116;58;32;49;44;32;47;47;32;123;109;105;110;58;32;48;44;32;109;97;120;76;101;110;103;116;104;58;32;
   49;50;51;52;53;54;55;56;57;48;49;50;51;52;53;54;55;56;57;48;125;32;45;32;110;10;32;32;34;107;34;58;32;91;32;47;47;32;123;111;114;58;32;91;123;116;121;112;101;58;32;34;120;34;125;44;32;34;64;116;34;93;125;10;32;32;93;10;125].
Example C04_example :
  sparse ex_text = Some (SObj [] [
    (SKRef [64;116], SLit [49] [mk_ann [([109;105;110], RScal [48]); ([109;97;120;76;101;110;103;116;104], RScal [49;50;51;52;53;54;55;56;57;48;49;50;51;52;53;54;55;56;57;48])] [110]]);
    (SKStr [34;107;34], SArr [mk_ann [([111;114], RList [RObj [([116;121;112;101], RScal [34;120;34])]; RScal [34;64;116;34]])] []] [])]).
Proof. vm_compute. reflexivity. Qed.
