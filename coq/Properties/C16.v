(* C16 - every rejection is a well-formed, positioned diagnostic.
   Proved: line/column arithmetic against the spec for LF, CR and CR LF texts; when the pointer line renders;
   the error-format table (regenerated from /repo on every run): every F(...) call passes as many arguments as
   its format has verbs, only %q %s %d %v are used (no %w, which Sprintf cannot format), every code has a format,
   codes are distinct.  That each entry point only returns designed errors positioned inside the text is a theorem
   for the JSON document scanner (C12_total), the number scanner (C13) and the regex schema (C18); for the schema and
   enum scanners it is established by the correspondence/oracle only (partial, see DESIGN). *)
From Coq Require Import String List ZArith NArith Bool.
From JS Require Import Base.Res Spec.LineColSpec Model.LineCol Proofs.LineColProofs Gen.ErrFormats Proofs.ErrFormatProofs
  Proofs.JsonClasses Model.JsonScan Proofs.JsonMain.
Import ListNotations.
Local Open Scope Z_scope.

Theorem C16_linecol_lf : forall s i, uniform LF s = true -> (i < length s)%nat -> line_col s (Z.of_nat i) = spec_line_col LF s i.
Proof. exact line_col_lf. Qed.
Print Assumptions C16_linecol_lf.
Theorem C16_linecol_cr : forall s i, uniform CR s = true -> (i < length s)%nat -> line_col s (Z.of_nat i) = spec_line_col CR s i.
Proof. exact line_col_cr. Qed.
Print Assumptions C16_linecol_cr.
Theorem C16_linecol_crlf : forall s i, uniform CRLF s = true -> (i < length s)%nat -> line_col s (Z.of_nat i) = spec_line_col CRLF s i.
Proof. exact line_col_crlf. Qed.
Print Assumptions C16_linecol_crlf.

(* the line start exists and lies at or before the index; the pointer line renders for every index inside the text
   (a negative dash count is clamped; before the fix: commit it made Error() panic) *)
Theorem C16_line_begin : forall s index, 0 <= index < Z.of_nat (length s) -> exists b, line_begin s index = Ok b /\ 0 <= b <= index.
Proof. exact line_begin_ok. Qed.
Print Assumptions C16_line_begin.
Theorem C16_render_total : forall s index, 0 <= index < Z.of_nat (length s) -> exists p, pointer s index = Ok p /\ In 94%N p.
Proof. exact pointer_total. Qed.
Print Assumptions C16_render_total.

Theorem C16_format_calls : forall c, In c err_calls -> call_ok c = true.
Proof. exact calls_ok. Qed.
Print Assumptions C16_format_calls.
Theorem C16_format_verbs : forall f, In f err_formats -> format_ok f = true.
Proof. exact formats_ok. Qed.
Print Assumptions C16_format_verbs.
Theorem C16_codes_have_formats : forall c, In c err_codes -> code_has_format c = true.
Proof. exact codes_have_formats. Qed.
Print Assumptions C16_codes_have_formats.
Theorem C16_codes_distinct : nodupN (map snd err_codes) = true.
Proof. exact codes_distinct. Qed.
Print Assumptions C16_codes_distinct.

(* designed errors inside the text, for every byte string: the JSON document entry point *)
Theorem C16_jsondoc_designed : forall al s, all_bytes s ->
  match jlexemes al s with
  | (Ok _, _) => True
  | (Err e, i) => (e = 301%N \/ e = 303%N) /\ 0 <= i < Z.of_nat (length s)
  | (Panic _, _) => False
  end.
Proof. exact lexemes_total. Qed.
Print Assumptions C16_jsondoc_designed.

Example C16_example : line_col [97; 13; 10; 98; 99]%N 4 = (2, 2) /\ uniform CRLF [97; 13; 10; 98; 99]%N = true
  /\ pointer [32; 32; 120; 121]%N 3 = Ok [45; 94]%N /\ pointer [32; 32; 120]%N 0 = Ok [94]%N.
Proof. vm_compute. auto. Qed.
