(* C12 - JSON document scanner (formats/json).  Model: Model/JsonScan.v.  Spec: Spec/JsonGrammar.v (RFC 8259).
   Full statement of the property:   jcheck false s = Ok  <->  JText s   (and the trailing variant).
   Proved here: both directions for every byte string (C12_iff: accepted exactly when the text is an RFC 8259
   JSON text), the same with the trailing-characters option (sound: a value followed by anything; complete: every
   value followed by anything is accepted, except that a number is read as far as it goes, so what follows a number
   must not continue it), totality (no panic, no internal error code, every error positioned inside the text).
   Len() of a document (C12_len), proper nesting of the lexeme stream (C12_nested) and containment of every span
   (C12_spans) are theorems as well, and so is that literal and key lexemes cover exactly the literal's bytes
   (C12_literal_spans).  That the tree rebuilt from the stream equals an independent decoder's is covered by the
   correspondence (model = implementation on all short token strings) plus the independent decoder used as oracle. *)
From Coq Require Import List ZArith NArith Bool.
From JS Require Import Base.Res Base.Lex Spec.JsonGrammar Model.JsonScan Proofs.JsonClasses Proofs.JsonSound Proofs.JsonMain Proofs.JsonComplete Proofs.JsonLen Proofs.JsonStream Proofs.JsonLiteral.
Import ListNotations.
Local Open Scope Z_scope.

Theorem C12_sound : forall s i, all_bytes s -> jcheck false s = (Ok tt, i) -> JText s.
Proof. exact check_sound. Qed.
Print Assumptions C12_sound.

Theorem C12_trailing_sound : forall s i, all_bytes s -> jcheck true s = (Ok tt, i) ->
  exists w v rest, s = w ++ v ++ rest /\ ws w /\ JValue v.
Proof. exact check_trailing_sound. Qed.
Print Assumptions C12_trailing_sound.

(* for every byte string and both option values: lexemes, or error 301/303 at an index inside the text;
   never a panic, never an internal-failure code (1, 305, 306) *)
Theorem C12_total : forall al s, all_bytes s ->
  match jlexemes al s with
  | (Ok _, _) => True
  | (Err e, i) => (e = 301%N \/ e = 303%N) /\ 0 <= i < Z.of_nat (length s)
  | (Panic _, _) => False
  end.
Proof. exact lexemes_total. Qed.
Print Assumptions C12_total.

(* the invariant behind both: every reachable configuration is described by an abstract state whose
   residual language is closed under the step (one lemma per state and byte class) *)
Theorem C12_step : forall al a c b, byte b -> abs al a c -> step_ok al a c b.
Proof. exact step_sound. Qed.
Print Assumptions C12_step.

(* every RFC 8259 text is accepted: the abstract states form a deterministic pushdown automaton that the scanner
   model simulates step by step (sim_step) and that runs through every word of the grammar (grammar_run) *)
Theorem C12_complete : forall s, all_bytes s -> JText s -> exists i, jcheck false s = (Ok tt, i).
Proof. exact check_complete. Qed.
Print Assumptions C12_complete.

Theorem C12_iff : forall s, all_bytes s -> ((exists i, jcheck false s = (Ok tt, i)) <-> JText s).
Proof. exact check_iff. Qed.
Print Assumptions C12_iff.

(* trailing-characters option, complete direction.  The scanner is maximal-munch on numbers: "1.x" is an
   unfinished number, not the value 1 followed by ".x" - hence the side condition on what follows a number *)
Theorem C12_trailing_complete : forall w v rest, all_bytes (w ++ v ++ rest) -> ws w -> JValue v ->
  (JNumber v -> match rest with [] => True | b :: _ => num_cont b = false end) ->
  exists i, jcheck true (w ++ v ++ rest) = (Ok tt, i).
Proof. exact check_trailing_complete. Qed.
Print Assumptions C12_trailing_complete.
(* the side condition cannot be dropped: the excluded corner is rejected *)
Example C12_trailing_number_corner : fst (jcheck true [49; 46; 120]%N) = Err 301 /\ JValue [49]%N.
Proof.
  split; [vm_compute; reflexivity|]. apply jv_number. exists [], [49]%N, [], []. repeat split; auto.
  - right. exists 49%N, []. repeat split; constructor.
  - left; reflexivity.
  - left; reflexivity.
Qed.

(* Len(): for a document  blanks value blanks  (both option values) the length of the value without the blanks after it -
   the blanks before it count.  The last lexeme of the stream ends at the value's last byte: the closing bracket's own
   lexeme, or the literal's end lexeme produced by the byte after it or by the end of input *)
Theorem C12_len : forall al w1 v w2, all_bytes (w1 ++ v ++ w2) -> ws w1 -> JValue v -> ws w2 ->
  jlength al (w1 ++ v ++ w2) = Ok (Z.of_nat (length w1 + length v)).
Proof. exact length_of_text. Qed.
Print Assumptions C12_len.

(* the lexeme stream of an accepted document is properly nested: replayed on the types alone, every end lexeme closes
   the innermost open begin lexeme of its kind and nothing stays open ... *)
Theorem C12_nested : forall s i, all_bytes s -> jcheck false s = (Ok tt, i) ->
  exists ls j, jlexemes false s = (Ok ls, j) /\ replay [] (map ltype ls) = Some [].
Proof. exact accepted_nested. Qed.
Print Assumptions C12_nested.
(* ... and every span lies inside the text, begin <= end *)
Theorem C12_spans : forall s i, all_bytes s -> jcheck false s = (Ok tt, i) ->
  exists ls j, jlexemes false s = (Ok ls, j) /\
               Forall (fun x : lexeme => (0 <= snd (fst x) <= snd x /\ snd x < Z.of_nat (length s))%Z) ls.
Proof. exact accepted_spans. Qed.
Print Assumptions C12_spans.

(* ... and every literal lexeme covers exactly the literal's bytes: the slice of the text from the lexeme's begin to its
   end (inclusive) is a JSON scalar - string, number, true/false/null by the RFC 8259 grammar - and the slice of a key
   lexeme is a JSON string; nothing of the neighbourhood (blanks, the comma or bracket that ended a number) belongs to it *)
Theorem C12_literal_spans : forall s i, all_bytes s -> jcheck false s = (Ok tt, i) ->
  exists ls j, jlexemes false s = (Ok ls, j) /\
    Forall (fun x : lexeme => match ltype x with
                              | LiteralEnd => JScalar (slice s (snd (fst x)) (snd x + 1)%Z)
                              | ObjectKeyEnd => JString (slice s (snd (fst x)) (snd x + 1)%Z)
                              | _ => True
                              end) ls.
Proof. exact accepted_literals. Qed.
Print Assumptions C12_literal_spans.
Example C12_literal_spans_example :
  let s := [123; 34; 107; 34; 58; 32; 91; 45; 49; 46; 53; 101; 51; 44; 32; 34; 97; 92; 110; 34; 44; 32; 110; 117; 108; 108; 93; 125]%N in
  map (fun x : lexeme => (snd (fst x), snd x)) (filter (fun x => is_close (ltype x)) (match fst (jlexemes false s) with Ok ls => ls | _ => [] end))
  = [(1, 3); (7, 12); (15, 19); (22, 25)]%Z.
Proof. exact literal_spans_example. Qed.

(* non-vacuity: concrete texts on both sides *)
Example C12_accepts :
  fst (jcheck false [32; 123; 34; 97; 34; 58; 91; 49; 44; 45; 48; 46; 53; 101; 43; 50; 44; 110; 117; 108; 108; 93; 125; 10]%N) = Ok tt
  /\ fst (jcheck false [49; 46]%N) = Err 303 /\ fst (jcheck true [49; 50; 120]%N) = Ok tt.
Proof. vm_compute. auto. Qed.
