(* C12 - JSON document scanner (formats/json).  Model: Model/JsonScan.v.  Spec: Spec/JsonGrammar.v (RFC 8259).
   Full statement of the property:   jcheck false s = Ok  <->  JText s   (and the trailing variant).
   Proved here: the "only if" direction for every byte string and both option values (nothing outside the
   grammar is accepted), totality (no panic, no internal error code, every error positioned inside the text).
   NOT yet a theorem: the "if" direction (every RFC 8259 text is accepted) - C12_accepts_partial below states what
   is proved of it; the rest is covered by the correspondence (model = implementation on all short token strings)
   plus the independent decoder used as oracle. *)
From Coq Require Import List ZArith NArith Bool.
From JS Require Import Base.Res Base.Lex Spec.JsonGrammar Model.JsonScan Proofs.JsonClasses Proofs.JsonSound Proofs.JsonMain.
Import ListNotations.
Local Open Scope Z_scope.

Theorem C12_sound : forall s i, all_bytes s -> jcheck false s = (Ok tt, i) -> JText s.
Proof. exact check_sound. Qed.
Print Assumptions C12_sound.

Theorem C12_trailing_sound : forall s i, all_bytes s -> jcheck true s = (Ok tt, i) ->
  exists w v rest, s = w ++ v ++ rest /\ ws w /\ JValue v.
Proof. exact check_trailing_sound. Qed.
Print Assumptions C12_trailing_sound.

(* for every byte string and both option values: lexemes, or error 301/303 at an index inside the text;
   never a panic, never an internal-failure code (1, 305, 306) *)
Theorem C12_total : forall al s, all_bytes s ->
  match jlexemes al s with
  | (Ok _, _) => True
  | (Err e, i) => (e = 301%N \/ e = 303%N) /\ 0 <= i < Z.of_nat (length s)
  | (Panic _, _) => False
  end.
Proof. exact lexemes_total. Qed.
Print Assumptions C12_total.

(* the invariant behind both: every reachable configuration is described by an abstract state whose
   residual language is closed under the step (one lemma per state and byte class) *)
Theorem C12_step : forall al a c b, byte b -> abs al a c -> step_ok al a c b.
Proof. exact step_sound. Qed.
Print Assumptions C12_step.

(* partial: acceptance of concrete RFC 8259 texts (computation); the general "if" direction is open *)
Example C12_accepts_partial :
  fst (jcheck false [32; 123; 34; 97; 34; 58; 91; 49; 44; 45; 48; 46; 53; 101; 43; 50; 44; 110; 117; 108; 108; 93; 125; 10]%N) = Ok tt
  /\ fst (jcheck false [49; 46]%N) = Err 303 /\ fst (jcheck true [49; 50; 120]%N) = Ok tt.
Proof. vm_compute. auto. Qed.
