(* C09 - same input, same answer.  Sources of nondeterminism in Go code: iteration order of maps, printed heap
   addresses, registration order.  Gen/NondetSites.v (regenerated from /repo on every run with go/types) lists every
   `range` over a map with the syntactic class of its body, and every %p verb.  Each listed site must be one of the
   accounted sites, and each accounted class is order-free by one of the generic theorems below; a new map range, or
   an accounted loop whose body changes class (e.g. the sort after collecting is dropped), breaks C09_sites_accounted.
   A loop that stops at the first matching key is accounted for only while every key of its map literal (listed by the
   translator) belongs to the family of constraints a node carries at most one of (site_ok, exclusive_family).
   That a node carries at most one constraint of that family (one `type` rule per node) and that copied keys are
   distinct is argued in DESIGN and exercised by repetition, not proved from the compiler model. *)
From Coq Require Import String List NArith Bool Permutation.
From JS Require Import Model.Nondet Gen.NondetSites Spec.TypeVocab Proofs.NondetProofs.
Import ListNotations.

Theorem C09_sites_accounted : forall s, In s map_range_sites -> site_ok s = true.
Proof. exact sites_accounted. Qed.
Print Assumptions C09_sites_accounted.
Theorem C09_pointer_sites_accounted : forall s, In s pointer_format_sites -> smem s accounted_pointer_sites = true.
Proof. exact pointer_sites_accounted. Qed.
Print Assumptions C09_pointer_sites_accounted.

(* first key whose test succeeds: order-free when the keys that can succeed are mutually exclusive *)
Theorem C09_first_match_order_free : forall (K R : Type) (f : K -> option R) (o1 o2 : list K),
  Permutation o1 o2 -> (forall a b, In a o1 -> In b o1 -> f a <> None -> f b <> None -> a = b) ->
  first_match f o1 = first_match f o2.
Proof. exact @first_match_order_free. Qed.
Print Assumptions C09_first_match_order_free.
(* copying entries with distinct keys / clearing a map: same resulting map for every order *)
Theorem C09_copy_order_free : forall src o1 o2 dst, Permutation o1 o2 -> NoDup (map fst o1) ->
  forall x, copy_all src o1 dst x = copy_all src o2 dst x.
Proof. exact copy_all_order_free. Qed.
Print Assumptions C09_copy_order_free.
Theorem C09_copy_missing_order_free : forall (guard_is_dst : bool) g o1 o2 dst, Permutation o1 o2 -> NoDup (map fst o1) ->
  forall x, copy_missing guard_is_dst g o1 dst x = copy_missing guard_is_dst g o2 dst x.
Proof. exact copy_missing_order_free. Qed.
Print Assumptions C09_copy_missing_order_free.
Example C09_copy_missing_example :
  map (copy_missing true (fun _ => None) [(1, 10); (2, 20); (3, 30)]%N (fun x => if N.eqb x 2 then Some 7%N else None)) [1; 2; 3; 4]%N
  = [Some 10; Some 7; Some 30; None]%N.
Proof. vm_compute. reflexivity. Qed.
Theorem C09_delete_order_free : forall o1 o2 m, Permutation o1 o2 -> forall x, delete_all o1 m x = delete_all o2 m x.
Proof. exact delete_all_order_free. Qed.
Print Assumptions C09_delete_order_free.
(* collect, sort, walk: the walked order does not depend on the order the map yields its keys in *)
Theorem C09_sorted_walk_order_free : forall o1 o2, Permutation o1 o2 -> isort o1 = isort o2.
Proof. exact sorted_walk_order_free. Qed.
Print Assumptions C09_sorted_walk_order_free.

(* sorting with a comparison of the caller's: order-free when the comparison is a total order on the keys ... *)
Theorem C09_sorted_by_walk_order_free : forall (K : Type) (leb : K -> K -> bool),
  (forall x y, leb x y = true \/ leb y x = true) ->
  (forall x y, leb x y = true -> leb y x = true -> x = y) ->
  (forall x y z, leb x y = true -> leb y z = true -> leb x z = true) ->
  forall o1 o2, Permutation o1 o2 -> gsort K leb o1 = gsort K leb o2.
Proof. exact gsorted_walk_order_free. Qed.
Print Assumptions C09_sorted_by_walk_order_free.
(* ... which CheckRootSchema's typeCheckedBefore is (unnamed types by file and creation order, named ones by name) *)
Theorem C09_type_order_total : (forall a b, tk_leb a b = true \/ tk_leb b a = true) /\
  (forall a b, tk_ok a -> tk_ok b -> tk_leb a b = true -> tk_leb b a = true -> a = b) /\
  (forall a b c, tk_leb a b = true -> tk_leb b c = true -> tk_leb a c = true).
Proof. exact (conj tk_total (conj tk_antisym tk_trans)). Qed.
Print Assumptions C09_type_order_total.
