(* C01 - Check() verdict equals the rule semantics applied to the example values.
   Model/RuleSem.v: what the checker decides about a literal example - per rule (the Validate methods, on the texts: numbers
   through Model/Number.v as the code compares them, strings decoded as the code decodes them), per node (json type, the
   nullable short cut, conjunction), through references and `or` (the flattened alternatives of checker/list.go, any of
   which may accept; the json type has to be among theirs), arrays, and the whole project.  Tied to the code by
   correspondence on the verdict class.  The theorems say what these text-level checks MEAN. *)
From Coq Require Import List ZArith NArith Bool.
From JS Require Import Base.Res Spec.Decimal Model.AllOf Model.Number Model.EnumParse Model.RuleSem
  Proofs.DigitArith Proofs.NumberCmp Proofs.NumberNorm Proofs.NumberScan Proofs.NumberMain Proofs.RuleProofs Proofs.LeavesComplete.
Import ListNotations.

(* min / max: exact comparison of the decimal values the two texts denote - whatever their spelling (trailing zeros, -0,
   20-digit integers, long fractions); exclusive bounds are strict *)
Theorem C01_min : forall v b nv nb own, exp_small v -> exp_small b -> nscan v = Ok nv -> nscan b = Ok nb ->
  (validate_rule v own (RMin b false) = true <-> dcmp (value_of v) (value_of b) <> Lt) /\
  (validate_rule v own (RMin b true) = true <-> dcmp (value_of v) (value_of b) = Gt).
Proof. intros v b nv nb own Hv Hb Sv Sb. split; [eapply min_exact|eapply min_exclusive_exact]; eassumption. Qed.
Theorem C01_max : forall v b nv nb own, exp_small v -> exp_small b -> nscan v = Ok nv -> nscan b = Ok nb ->
  (validate_rule v own (RMax b false) = true <-> dcmp (value_of v) (value_of b) <> Gt) /\
  (validate_rule v own (RMax b true) = true <-> dcmp (value_of v) (value_of b) = Lt).
Proof. intros v b nv nb own Hv Hb Sv Sb. split; [eapply max_exact|eapply max_exclusive_exact]; eassumption. Qed.
Print Assumptions C01_min.
Print Assumptions C01_max.
(* precision p: at most p significant fraction digits (C13_fraclen says what frac_len is) *)
Theorem C01_precision : forall v nv own p, nscan v = Ok nv -> (validate_rule v own (RPrecision p) = true <-> (frac_len nv <= p)%Z).
Proof. intros. apply precision_exact; assumption. Qed.
Print Assumptions C01_precision.
(* minLength / maxLength: the number of characters of the decoded string; enum: some entry denotes the same string or
   is the same literal; const: the same as the example of the type the rule belongs to *)
Theorem C01_length : forall v own n, lit_kind v = KStr ->
  (validate_rule v own (RMinLength n) = true <-> (n <= str_chars v)%Z) /\
  (validate_rule v own (RMaxLength n) = true <-> (str_chars v <= n)%Z).
Proof. exact length_exact. Qed.
Theorem C01_enum : forall v own items,
  validate_rule v own (REnum items) = true <-> exists i, In i items /\ key_eqb (key_of v) (key_of i) = true.
Proof. exact enum_exact. Qed.
Theorem C01_const : forall v o, validate_rule v (Some o) RConst = true <-> key_eqb (key_of v) (key_of o) = true.
Proof. exact const_exact. Qed.
Print Assumptions C01_length.
Print Assumptions C01_enum.
(* a node: null is accepted when nullable; otherwise the example has the node's type (unless enum) and satisfies every rule *)
Theorem C01_nullable : forall k rules own, existsb is_nullable rules = true -> validate (Leaf k rules) own w_null_lit = true.
Proof. exact validate_null. Qed.
Theorem C01_node : forall k rules own v, beq_bytes v w_null_lit = false ->
  (validate (Leaf k rules) own v = true <->
   (existsb is_enum rules = true \/ lit_kind v = k) /\ forall r, In r rules -> validate_rule v own r = true).
Proof. exact validate_conj. Qed.
Print Assumptions C01_node.
(* references and `or`: the example's type is among the alternatives' and SOME alternative accepts it; the alternatives
   are the node's rule-sets and the named types, followed through types that refer on; `const` in a rule-set compares
   with the example of the node that carries the `or`, in a named type with that type's own example *)
Theorem C01_or : forall fuel d alts v, check_value fuel d (VRefs alts) v = true <->
  (exists lo, In lo (fst (leaves fuel d alts (Some v) [])) /\ kind_allowed v lo = true) /\
  (exists lo, In lo (fst (leaves fuel d alts (Some v) [])) /\ validate (fst lo) (snd lo) v = true).
Proof. exact refs_any. Qed.
Theorem C01_alternatives : forall d fuel alts own seen lo, In lo (fst (leaves fuel d alts own seen)) -> AltLeaf d alts own lo.
Proof. exact leaves_sound. Qed.
Print Assumptions C01_or.
Print Assumptions C01_alternatives.
(* ... and the list holds ALL of them once the fuel covers the walk (every type is expanded once; the result of the
   depth-first walk is closed under "is an alternative of"), which the fuel the model runs with does *)
Theorem C01_alternatives_exact : forall d fuel alts own lo, length alts + weight d [] < fuel ->
  (In lo (fst (leaves fuel d alts own [])) <-> AltLeaf d alts own lo).
Proof. exact leaves_exact. Qed.
Print Assumptions C01_alternatives_exact.
Theorem C01_fuel_enough : forall d root,
  (forall alts, snd root = VRefs alts -> length alts + weight d [] < proj_fuel d root) /\
  (forall t ex alts, In (t, (ex, VRefs alts)) d -> length alts + weight d [] < proj_fuel d root).
Proof. exact proj_fuel_enough. Qed.
Print Assumptions C01_fuel_enough.
Theorem C01_items : forall fuel d count mn mx v, check_value fuel d (VArr count mn mx) v = true <->
  (forall m, mn = Some m -> (m <= count)%Z) /\ (forall m, mx = Some m -> (count <= m)%Z).
Proof. exact items_exact. Qed.
(* the project: accepted exactly when the root's example and the example of every registered type pass *)
Theorem C01_project : forall fuel d root, check_project fuel d root = true <->
  check_value fuel d (snd root) (fst root) = true /\
  forall t ex n, In (t, (ex, n)) d -> check_value fuel d n ex = true.
Proof. exact project_all. Qed.
Print Assumptions C01_project.

(* non-vacuity: 5.00 meets min 5 but not exclusively; 0.10 has one significant fraction digit *)
Local Open Scope N_scope.
Example C01_example :
  validate (Leaf KFloat [RMin [53] false; RPrecision 1]) None [53; 46; 48; 48] = true /\
  validate (Leaf KFloat [RMin [53] true]) None [53; 46; 48; 48] = false /\
  validate (Leaf KFloat [RPrecision 1]) None [48; 46; 49; 48] = true.
Proof. vm_compute. auto. Qed.
