(* C10 - returned results stay intact; no dependence on history.
   Model/Pools.v: pools as process-wide state with sync.Pool's contract (Get may hand out ANY pooled buffer).
   Gen/PoolSites.v (regenerated from /repo on every run): every function that takes a buffer from a pool, whether
   each return hands out the buffer's storage or a copy, whether the Put is deferred; the loader's fields and the
   fields reset() assigns. *)
From Coq Require Import String List NArith Bool.
From JS Require Import Model.Pools Gen.PoolSites Spec.TypeVocab Proofs.PoolProofs Proofs.PoolBalance.
Import ListNotations.

(* for every history: if every site returns copies, every value returned so far reads the same after any
   continuation of the history, whatever buffers the pool hands out *)
Theorem C10_copy_immutable : forall h1 h2 s,
  Forall (fun c => snd c = Copy) h1 ->
  let (s1, rs) := run s h1 in let (s2, _) := run s1 h2 in Forall (fun r => observe s1 r = observe s2 r) rs.
Proof. exact copies_are_immutable. Qed.
Print Assumptions C10_copy_immutable.

(* every pool site of the repository returns copies and defers its Put *)
Theorem C10_sites_copy : forall s, In s pool_sites -> site_ok s = true.
Proof. exact sites_copy. Qed.
Print Assumptions C10_sites_copy.

(* the pooled loader: reset() assigns every field of the struct *)
Theorem C10_loader_reset_total : forall f, In f loader_fields -> smem f loader_reset_fields = true.
Proof. exact loader_reset_total. Qed.
Print Assumptions C10_loader_reset_total.

(* the model exhibits the failure when a site returns the buffer's storage (the defect repaired by the
   fix: commits for Example() and the OpenAPI marshalers) *)
Theorem C10_view_refuted :
  exists h1 h2, let (s1, rs) := run p0 h1 in let (s2, _) := run s1 h2 in
                exists r, In r rs /\ observe s1 r <> observe s2 r.
Proof. exact view_is_overwritten. Qed.
Print Assumptions C10_view_refuted.

(* nested users of one pool (Example() of nested objects and arrays): as long as every Put gives back a buffer the
   caller holds - one Put per Get - no Get ever hands out a buffer somebody else is still writing into *)
Theorem C10_get_exclusive : forall t c, disciplined o0 t = true ->
  forall i, snd (ostep (orun o0 t) (EGet c)) = Some i -> ~ In i (oheld (orun o0 t)).
Proof. exact get_exclusive. Qed.
Print Assumptions C10_get_exclusive.

Theorem C10_double_put_refuted : exists t c i, snd (ostep (orun o0 t) (EGet c)) = Some i /\ In i (oheld (orun o0 t)).
Proof. exact double_put_shares. Qed.
Print Assumptions C10_double_put_refuted.

(* every pool-using function of the repository contains exactly one Get and one Put (deferred: C10_sites_copy), and
   no other function touches a pool except the BufferPool wrapper *)
Theorem C10_sites_balanced : (forall b, In b pool_balance -> balance_ok b = true) /\
  map (fun s => fst (fst (fst s))) pool_sites = map (fun b => fst (fst b)) pool_balance /\
  pool_calls_elsewhere = ["internal/sync/pool.go|Get|Get"; "internal/sync/pool.go|Put|Put"]%string.
Proof. exact (conj sites_balanced (conj sites_same no_pool_calls_elsewhere)). Qed.
Print Assumptions C10_sites_balanced.
