(* C20 - type vocabulary helpers. Tables are regenerated from /repo on every run (Gen/TypeTables.v);
   the theorems over them are closed computations lifted to quantified statements over the finite domain. *)
From Coq Require Import String List NArith Bool.
From JS Require Import Base.Res Spec.Decimal Spec.TypeVocab Model.Number Model.TypeGuess Gen.TypeTables Proofs.TypeProofs Model.TypeSoft.
Import ListNotations.
Local Open Scope string_scope.

(* IsValidType: the key set of its map literal is exactly the documented names, no key twice ... *)
Theorem C20_valid_keys : same_set valid_keys documented_names = true /\ nodupb valid_keys = true.
Proof. exact valid_keys_documented. Qed.
Print Assumptions C20_valid_keys.
(* ... the declared constants are exactly the documented names plus the undefined type ... *)
Theorem C20_constants : same_set (filter (fun t => negb (String.eqb t "")) schema_types) documented_names = true
  /\ nodupb schema_types = true.
Proof. exact constants_documented. Qed.
Print Assumptions C20_constants.
(* ... and the compiled function answers "documented" on every probe (vocabulary + near misses). *)
Theorem C20_valid_exact : forall p, In p valid_probes -> snd p = smem (fst p) documented_names.
Proof. exact probes_exact. Qed.
Print Assumptions C20_valid_exact.
Theorem C20_probes_cover_vocabulary : forall t, In t schema_types -> In t (map fst valid_probes).
Proof. exact probes_cover. Qed.
Print Assumptions C20_probes_cover_vocabulary.

Theorem C20_soft_refl : forall t, In t schema_types -> t <> "" -> soft t t = true.
Proof. exact soft_refl. Qed.
Print Assumptions C20_soft_refl.
(* symmetric - outside the recorded finding F20a (null ~ array one-directional; pinned by the test suite) *)
Theorem C20_soft_sym : forall a b, In a schema_types -> In b schema_types -> known_F20a a b = false -> soft a b = soft b a.
Proof. exact soft_sym. Qed.
Print Assumptions C20_soft_sym.
Theorem C20_soft_families : forall a b, In a schema_types -> In b schema_types ->
  constrained a b = true -> known_F20a a b = false -> soft a b = family_rel a b.
Proof. exact soft_families. Qed.
Print Assumptions C20_soft_families.
Theorem C20_soft_undefined : forall b, In b schema_types -> soft "" b = false /\ soft b "" = false.
Proof. exact soft_undefined. Qed.
Print Assumptions C20_soft_undefined.
Theorem C20_soft_sym_refuted : soft "null" "array" = true /\ soft "array" "null" = false.
Proof. exact soft_sym_refuted. Qed.
Print Assumptions C20_soft_sym_refuted.

Theorem C20_token_agree : forall j, In j json_types -> (fst (fst (fst j)) <> 0)%N ->
  In (snd (fst (fst j))) schema_types /\ token_of_stype (snd (fst (fst j))) = snd (fst j).
Proof. exact token_agree. Qed.
Print Assumptions C20_token_agree.
Theorem C20_new_json_type : forall j, In j json_types ->
  match assoc (snd (fst (fst j))) new_json_type with
  | Some (Some v) => v = fst (fst (fst j))
  | Some None => snd (fst (fst j)) = "mixed"
  | None => fst (fst (fst j)) = 0%N
  end.
Proof. exact new_json_type_inverse. Qed.
Print Assumptions C20_new_json_type.

(* GuessSchemaType (a function of the bytes: one answer per input) agrees with the scanner's classifier
   json.Guess(..).JsonType() on EVERY byte string on which it answers, and conversely. *)
Theorem C20_guess_agrees : forall b t, guess_schema b = Ok t -> guess_json b = Ok t.
Proof. exact guess_agree. Qed.
Print Assumptions C20_guess_agrees.
Theorem C20_guess_agrees_conv : forall b t, guess_json b = Ok t -> t <> "mixed" -> guess_schema b = Ok t.
Proof. exact guess_agree_conv. Qed.
Print Assumptions C20_guess_agrees_conv.
Theorem C20_guess_answers : forall b t, guess_schema b = Ok t ->
  In t ["object"; "array"; "string"; "boolean"; "null"; "integer"; "float"].
Proof. exact guess_answers. Qed.
Print Assumptions C20_guess_answers.

Example C20_example : guess_schema [34; 97; 46; 98; 34]%N = Ok "string" /\ guess_schema [49; 46; 53]%N = Ok "float"
  /\ soft "decimal" "float" = true /\ soft "email" "date" = true /\ soft "integer" "float" = false.
Proof. vm_compute. auto. Qed.
