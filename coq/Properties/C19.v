(* C19 - the ordered containers behave like insertion-ordered maps.
   Only statements, each closed by `exact`, each followed by Print Assumptions. *)
From Coq Require Import List NArith.
From JS Require Import Base.Wire Spec.Dict Model.OMap Proofs.OMapProofs.
Import ListNotations.

(* Every history over the op alphabet (callbacks are arbitrary functions): every value returned by
   every operation - including Get/Has/Len and the iteration/marshal order, which are operations of
   the alphabet - equals what the plain insertion-ordered dictionary returns. *)
Theorem C19_refines : forall ops : list op, run_m ops = run_d ops.
Proof. exact omap_refines_dict. Qed.
Print Assumptions C19_refines.

(* MarshalJSON of every reachable state is the dictionary's text, for any key/value encoders ... *)
Theorem C19_marshal : forall enc_key enc_val ops,
  marshal_m enc_key enc_val (state_after step_m empty ops)
  = marshal_d enc_key enc_val (state_after step_d [] ops).
Proof. exact marshal_refines. Qed.
Print Assumptions C19_marshal.

(* ... which is '{' entries separated by single commas '}', one entry per dictionary item in order ... *)
Theorem C19_marshal_wf : forall enc_key enc_val (d : dict),
  marshal_d enc_key enc_val d =
  [123%N] ++ match d with
          | [] => []
          | _ => join [44%N] (map (fun kv => enc_key (fst kv) ++ [58%N] ++ enc_val (snd kv)) d)
          end ++ [125%N].
Proof.
  intros enc_key enc_val d. unfold marshal_d. f_equal. f_equal.
  exact (marshal_go_shape enc_key enc_val d true).
Qed.
Print Assumptions C19_marshal_wf.

(* ... and no key occurs twice. *)
Theorem C19_one_entry_per_key : forall ops, NoDup (dkeys (state_after step_d [] ops)).
Proof. exact dict_nodup. Qed.
Print Assumptions C19_one_entry_per_key.

(* string set: constructor + Add = the distinct arguments in order of first occurrence *)
Theorem C19_stringset : forall l,
  sorder (snew_m l) = snew l /\ slen_m (snew_m l) = length (snew l)
  /\ forall k, shas_m k (snew_m l) = memN k (snew l).
Proof. exact sset_refines. Qed.
Print Assumptions C19_stringset.

(* non-vacuity: a concrete history with deletes of absent keys and a rejecting filter *)
Example C19_example :
  run_m [OSet 0 5; OSet 1 6; OSet 2 7; ODelete 9; OFilter (fun k _ => N.eqb k 1); OItems; OLen]%N
  = [RUnit; RUnit; RUnit; RUnit; RUnit; RItems [(1, 6)]; RNat 1]%N.
Proof. reflexivity. Qed.
