(* C03 - plain JSON is a valid schema and is preserved by Example() and the AST.
   Model/JsonValue.v: the tree the loader builds from a JSON text (parser), what Example() prints (compact text, scalar
   literals verbatim, keys encoded again from what they denote) and the AST shape; tied to the code by correspondence
   on the verdict, the bytes of Example() and the shape of GetAST().  Renders (Proofs/JsonValueProofs.v): the texts a
   tree can be written as - RFC 8259 scalars without exponent (EnumScalar), any blank space between the tokens. *)
From Coq Require Import List NArith Bool.
From JS Require Import Base.Res Spec.JsonGrammar Model.EnumParse Model.JsonValue Proofs.EnumProofs Proofs.JsonValueProofs Proofs.JsonValueSound Proofs.EscapeProofs Proofs.ExampleRoundTrip.
Import ListNotations.

(* every JSON text without exponent numbers and duplicate keys is accepted, whatever its whitespace, and the tree built
   from it is the tree it renders: same members in the same order, same key texts, same scalar literals *)
Theorem C03_accepted_any_layout : forall v s w1 w2, Renders v s -> ws w1 -> ws w2 -> keys_ok (S (depth v)) v = true ->
  jparse (w1 ++ s ++ w2) = Some v.
Proof. exact jparse_complete. Qed.
Print Assumptions C03_accepted_any_layout.

(* and nothing else is accepted: a text the parser model accepts is such a rendering of the tree it returns, between
   blanks, without duplicate keys - so acceptance by the model and "is a JSON text of the statement" coincide *)
Theorem C03_accept_iff : forall s v, jparse s = Some v <->
  exists w1 s' w2, s = w1 ++ s' ++ w2 /\ ws w1 /\ ws w2 /\ Renders v s' /\ keys_ok (S (depth v)) v = true.
Proof. exact jparse_iff. Qed.
Print Assumptions C03_accept_iff.

(* the parser proper, with what may follow a value and an explicit fuel bound *)
Theorem C03_parse_complete : forall v s, Renders v s -> forall r f, stop r -> (2 * length s <= f)%nat -> pvalue f (s ++ r) = Some (v, r).
Proof. exact (proj1 parse_complete). Qed.
Print Assumptions C03_parse_complete.

(* a scalar is recognised the same way in every context that cannot extend it (not a digit, not a decimal point) *)
Theorem C03_scalar_rescan : forall lit, EnumScalar lit -> forall r, stop r -> scalar (lit ++ r) = Some (lit, r).
Proof. exact scalar_rescan. Qed.
Print Assumptions C03_scalar_rescan.

(* Example() of an accepted JSON text (a text of bytes) is accepted again, and the tree it gives (norm v: the keys
   written again by the encoder) has the same shape, the same literals in the same order, and keys that denote the
   same strings - so Example() denotes the same value *)
Theorem C03_example_roundtrip : forall v s, Renders v s -> Forall is_byte s -> keys_ok (S (depth v)) v = true ->
  jparse (example v) = Some (norm v) /\ veq (norm v) v.
Proof. exact example_roundtrip. Qed.
Print Assumptions C03_example_roundtrip.
(* the two halves behind it: the encoder's escapes are read back as the same characters, for every Unicode scalar
   value and whatever follows; and every character a JSON string of bytes denotes is a scalar value *)
Theorem C03_decode_escape : forall cps, Forall valid_cp cps -> forall f, (length cps <= f)%nat -> decode f (flat_map go_escape_cp cps) = cps.
Proof. exact decode_escape. Qed.
Theorem C03_decode_valid : forall f s, Forall is_byte s -> Forall valid_cp (decode f s).
Proof. exact decode_valid. Qed.
Print Assumptions C03_decode_escape.
Print Assumptions C03_decode_valid.

(* Example(): non-vacuity of the printer on a document with escaped keys, nested containers and tricky literals;
   (the general statement is C03_example_roundtrip) *)
Local Open Scope N_scope.
Example C03_example :
  let s := [123; 34; 92; 117; 48; 48; 54; 49; 34; 58; 32; 91; 49; 44; 10; 45; 48; 46; 53; 48; 93; 44; 34; 60; 34; 58; 110; 117; 108; 108; 125] in
  (* {"a": [1,\n-0.50],"<":null} *)
  option_map example (jparse s)
  = Some [123; 34; 97; 34; 58; 91; 49; 44; 45; 48; 46; 53; 48; 93; 44; 34; 92; 117; 48; 48; 51; 99; 34; 58; 110; 117; 108; 108; 125].
  (* {"a":[1,-0.50],"<":null} *)
Proof. vm_compute. reflexivity. Qed.
