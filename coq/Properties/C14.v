(* C14 - meaning is independent of layout: spacing, newlines, annotation style, comments.
   On the model of the schema text (Model/SchemaText.v, tied to the code by correspondence on the AST dump and, for the
   other observables, by comparing the implementation's results across layouts of the same model): the tree depends
   on the token sequence only, and the layout choices do not change the token sequence. *)
From Coq Require Import List NArith Bool.
From JS Require Import Base.Res Spec.JsonGrammar Model.EnumParse Model.SchemaText Proofs.SchemaTextProofs Proofs.AnnotationProofs.
Import ListNotations.
Local Open Scope N_scope.

(* any amount of blank space - spaces, tabs, LF, CR, CRLF, blank lines - before a token changes nothing *)
Theorem C14_blanks : forall w, ws w -> forall f s, slex (length w + f) (w ++ s) = slex f s.
Proof. exact slex_blanks. Qed.
Print Assumptions C14_blanks.
Theorem C14_newline_styles : is_blank 10 = true /\ is_blank 13 = true /\ is_blank 32 = true /\ is_blank 9 = true.
Proof. exact newline_styles. Qed.
(* a line ends with LF or with CR alike - for a `#` comment and for a `//` annotation *)
Theorem C14_line_end : forall c n r, Forall (fun x => is_nl x = false) c -> is_nl n = true -> take_line (c ++ n :: r) = (c, n :: r).
Proof. exact take_line_nl. Qed.
(* a `# ...` comment carries no token *)
Theorem C14_comment : forall c n r f, Forall (fun x => is_nl x = false) c -> is_nl n = true -> (forall c', c <> 35 :: 35 :: c') ->
  slex (S f) (35 :: c ++ n :: r) = slex f (n :: r).
Proof. exact slex_comment. Qed.
Print Assumptions C14_comment.
(* `// note` and `/* note */` are the same annotation *)
Theorem C14_note_styles : forall text n r f,
  Forall (fun x => is_nl x = false) text -> is_nl n = true ->
  (forall u v, text <> u ++ 42 :: 47 :: v) -> (forall u, text <> u ++ [42]) ->
  Forall (fun c => c <> 35) text -> (exists c t, trim_left text = c :: t /\ c <> 123) ->
  slex (S f) (47 :: 47 :: text ++ n :: r) = (do t <- slex f (n :: r); Ok (KAnn (mk_ann [] (trim text)) :: t)) /\
  slex (S f) (47 :: 42 :: text ++ 42 :: 47 :: r) = (do t <- slex f r; Ok (KAnn (mk_ann [] (trim text)) :: t)).
Proof. exact note_styles. Qed.
Print Assumptions C14_note_styles.
(* the annotation before or after the comma: both token sequences are writings of the same tree, so both give it *)
Theorem C14_comma_placement : forall l a r,
  sparse_toks (KLS :: KScal l :: map KAnn a ++ KComma :: KScal r :: [KRS]) = Some (SArr [] [SLit l a; SLit r []]) /\
  sparse_toks (KLS :: KScal l :: KComma :: map KAnn a ++ KScal r :: [KRS]) = Some (SArr [] [SLit l a; SLit r []]).
Proof.
  intros l a r. split; apply sparse_toks_complete.
  - assert (E : KLS :: KScal l :: map KAnn a ++ KComma :: KScal r :: [KRS] = KLS :: map KAnn [] ++ ((KScal l :: map KAnn a) ++ KComma :: map KAnn [] ++ [KScal r]) ++ [KRS]).
    { cbn [map app]. rewrite <- app_assoc. reflexivity. }
    rewrite E. apply (TR_arr [] [SLit l a; SLit r []]).
    apply (TRI_more (SLit l a) _ [] (SLit l a) [SLit r []] [KScal r]); [constructor|reflexivity|apply TRI_one; apply (TR_lit r [])].
  - assert (E : KLS :: KScal l :: KComma :: map KAnn a ++ KScal r :: [KRS] = KLS :: map KAnn [] ++ ([KScal l] ++ KComma :: map KAnn a ++ [KScal r]) ++ [KRS]).
    { cbn [map app]. rewrite <- app_assoc. reflexivity. }
    rewrite E. apply (TR_arr [] [SLit l a; SLit r []]).
    apply (TRI_more (SLit l []) [KScal l] a (SLit l a) [SLit r []] [KScal r]); [apply (TR_lit l [])|destruct a; reflexivity|apply TRI_one; apply (TR_lit r [])].
Qed.
Print Assumptions C14_comma_placement.

(* the whole statement on the model: SLay s ts - the text s is a layout of the token sequence ts (any blanks and line
   ends of any style, `#` comments, inline annotations ended by the line or the text, notes as blocks, references with
   any spacing around their bars, scalars followed by something that cannot extend them).  Every layout is read back
   as its token sequence, hence every layout of every writing of a tree gives that tree, and two layouts agree. *)
Theorem C14_lexer_layout : forall s ts, SLay s ts -> forall f, (length s < f)%nat -> slex f s = Ok ts.
Proof. exact slex_layout. Qed.
Print Assumptions C14_lexer_layout.
Theorem C14_layout_independent : forall v tv s1 s2, TR v tv -> SLay s1 tv -> SLay s2 tv ->
  sparse s1 = Some v /\ sparse s2 = Some v.
Proof. intros v tv s1 s2 Ht H1 H2. split; eapply sparse_layout; eassumption. Qed.
Print Assumptions C14_layout_independent.

(* ---- the inside of an annotation: RV rv s - the text s is a writing of the rule value rv (bare or quoted rule names,
   scalars, @names, lists, rule-sets, any blanks between the tokens).  Every writing is read back ... *)
Theorem C14_rule_object : forall v s, RV v s -> forall r f, vterm r \/ (exists ms, v = RObj ms) -> (2 * length s <= f)%nat ->
  prval f (s ++ r) = Some (v, r).
Proof. exact (proj1 prval_complete). Qed.
Print Assumptions C14_rule_object.
(* ... and so is the annotation around it: rule object, optional "- note", optional "# comment" on the line; or in a
   block, up to the closing mark (a closing mark inside a string of the rule object does not close it) *)
Theorem C14_annotation_rules : forall ms obj w0 w1 tail, RV (RObj ms) obj -> ws w0 -> ws w1 -> comment_tail tail ->
  parse_ann (w0 ++ obj ++ w1 ++ tail) = Some (mk_ann ms []).
Proof. exact ann_rules_complete. Qed.
Theorem C14_annotation_rules_note : forall ms obj w0 w1 note tail, RV (RObj ms) obj -> ws w0 -> ws w1 ->
  Forall (fun c => c <> 35) note -> comment_tail tail ->
  parse_ann (w0 ++ obj ++ w1 ++ 45 :: note ++ tail) = Some (mk_ann ms (trim note)).
Proof. exact ann_rules_note_complete. Qed.
Theorem C14_block_rules : forall ms obj w0 mid after, RV (RObj ms) obj -> ws w0 ->
  (forall u v, mid <> u ++ 42 :: 47 :: v) -> (forall u, mid <> u ++ [42]) ->
  block_ann (w0 ++ obj ++ mid ++ 42 :: 47 :: after) =
  match trim_left mid with [] => Some (mk_ann ms [], after) | 45 :: note => Some (mk_ann ms (trim note), after) | _ => None end.
Proof. exact block_rules_complete. Qed.
Print Assumptions C14_annotation_rules.
Print Assumptions C14_annotation_rules_note.
Print Assumptions C14_block_rules.
(* the same annotation written on the line or in a block is the same token of the layout *)
Theorem C14_rules_line_or_block : forall ms obj w0 w1 r1 r2 t, RV (RObj ms) obj -> ws w0 -> ws w1 ->
  no_nl_b (w0 ++ obj ++ w1 ++ []) -> line_end r1 -> SLay r1 t -> SLay r2 t ->
  exists s1 s2, SLay s1 (KAnn (mk_ann ms []) :: t) /\ SLay s2 (KAnn (mk_ann ms []) :: t) /\
                s1 = 47 :: 47 :: (w0 ++ obj ++ w1 ++ []) ++ r1 /\ s2 = 47 :: 42 :: w0 ++ obj ++ w1 ++ 42 :: 47 :: r2.
Proof. exact rules_line_or_block. Qed.
Print Assumptions C14_rules_line_or_block.
