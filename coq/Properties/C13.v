(* C13 - decimal numbers: grammar, exact comparison, String(), LengthOfFractionalPart().
   Model: Model/Number.v (json/scanner.go, json/number.go, bytes.ParseUint/ParseInt after the fix: commits).
   Spec: Spec/Decimal.v (decomposition of the text = RFC 8259 section 6; values m * 10^k compared in Z).
   Only statements closed by `exact`, each followed by Print Assumptions. *)
From Coq Require Import List ZArith NArith Bool.
From JS Require Import Base.Res Spec.Decimal Model.Number Proofs.DigitArith Proofs.NumberCmp Proofs.NumberNorm
  Proofs.NumberScan Proofs.NumberMain.
Import ListNotations.
Local Open Scope Z_scope.

(* Whatever NewNumber accepts is a JSON number (for EVERY byte string, no side condition). *)
Theorem C13_grammar_sound : forall s n, nscan s = Ok n -> json_number s = true /\ known_F13b s = false.
Proof. exact scan_sound. Qed.
Print Assumptions C13_grammar_sound.

(* Every JSON number is accepted - except the recorded, unrepaired finding F13b (integer part "0"
   directly followed by an exponent), for exponents up to 2^40 and texts up to 2^40 bytes (beyond that the
   Go code allocates |exponent| bytes / wraps int64: finding F13e, property C02) - and the result is in
   normal form and denotes the value of the text. *)
Theorem C13_grammar_complete : forall s,
  json_number s = true -> known_F13b s = false -> exp_small s ->
  exists n, nscan s = Ok n /\ normal n /\ deq (denote n) (value_of s).
Proof. exact scan_complete. Qed.
Print Assumptions C13_grammar_complete.

Theorem C13_value : forall s n, exp_small s -> nscan s = Ok n -> normal n /\ deq (denote n) (value_of s).
Proof. exact scan_value. Qed.
Print Assumptions C13_value.

(* Cmp on normal forms is the exact comparison of the denoted values ... *)
Theorem C13_cmp : forall a b, normal a -> normal b -> ncmp a b = cmp_to_Z (dcmp (denote a) (denote b)).
Proof. exact ncmp_exact. Qed.
Print Assumptions C13_cmp.

(* ... hence two accepted texts compare like the values they denote, however they are written
   (trailing zeros, exponent shifts, -0 vs 0). *)
Theorem C13_cmp_texts : forall s1 s2 n1 n2, exp_small s1 -> exp_small s2 ->
  nscan s1 = Ok n1 -> nscan s2 = Ok n2 -> ncmp n1 n2 = cmp_to_Z (dcmp (value_of s1) (value_of s2)).
Proof. exact cmp_texts. Qed.
Print Assumptions C13_cmp_texts.

Theorem C13_equal : forall a b, normal a -> normal b -> (n_equal a b = true <-> dcmp (denote a) (denote b) = Eq).
Proof. exact n_equal_exact. Qed.
Print Assumptions C13_equal.
Theorem C13_gt : forall a b, normal a -> normal b -> (n_gt a b = true <-> dcmp (denote a) (denote b) = Gt).
Proof. exact n_gt_exact. Qed.
Print Assumptions C13_gt.
Theorem C13_gte : forall a b, normal a -> normal b -> (n_gte a b = true <-> dcmp (denote a) (denote b) <> Lt).
Proof. exact n_gte_exact. Qed.
Print Assumptions C13_gte.
Theorem C13_lt : forall a b, normal a -> normal b -> (n_lt a b = true <-> dcmp (denote a) (denote b) = Lt).
Proof. exact n_lt_exact. Qed.
Print Assumptions C13_lt.
Theorem C13_lte : forall a b, normal a -> normal b -> (n_lte a b = true <-> dcmp (denote a) (denote b) <> Gt).
Proof. exact n_lte_exact. Qed.
Print Assumptions C13_lte.

(* String() is a JSON number that denotes the same value *)
Theorem C13_string : forall n, normal n ->
  json_number (to_string n) = true /\ known_F13b (to_string n) = false /\ deq (value_of (to_string n)) (denote n).
Proof. exact to_string_ok. Qed.
Print Assumptions C13_string.

(* LengthOfFractionalPart() = number of significant fraction digits: value * 10^k is an integer for
   k = frac_len (val (nnat n) itself) and for no smaller k *)
Theorem C13_fraclen : forall n, normal n ->
  0 <= frac_len n /\ forall k, 0 <= k < frac_len n -> ~ (10 ^ (frac_len n - k) | val (nnat n)).
Proof. exact frac_len_minimal. Qed.
Print Assumptions C13_fraclen.

(* the full grammar statement is false of the faithful model: witness for finding F13b ("0e5") *)
Theorem C13_grammar_full_refuted :
  exists s, json_number s = true /\ known_F13b s = true /\ nscan s = Err 1705.
Proof. exists [48; 101; 53]%N. vm_compute. auto. Qed.
Print Assumptions C13_grammar_full_refuted.

(* non-vacuity: the hypotheses are met by concrete texts, e.g. "-12.50e-1" and "1.250" *)
Example C13_example :
  json_number [45;49;50;46;53;48;101;45;49]%N = true /\ known_F13b [45;49;50;46;53;48;101;45;49]%N = false /\
  (exists n, nscan [45;49;50;46;53;48;101;45;49]%N = Ok n /\ to_string n = [45;49;46;50;53]%N /\ frac_len n = 2) /\
  (exists a b, nscan [49;46;50;53;48]%N = Ok a /\ nscan [49;50;53;48;101;45;51]%N = Ok b /\ ncmp a b = 0).
Proof. vm_compute. repeat split; eexists; repeat split; try eexists; repeat split. Qed.
