(* placeholder until the proofs land *)
From JS Require Import Model.Number.
