(* C18 - regex schemas.  Model: Model/RegexScan.v (regexp.Compile is the parameter re_ok; reggen and regexp.Match
   are outside the model and judged by the oracle on every explored case). *)
From Coq Require Import List ZArith NArith Bool.
From JS Require Import Base.Res Model.RegexScan Proofs.RegexProofs.
Import ListNotations.

(* accepted exactly when the text is "/" p "/" rest where that second "/" is the FIRST unescaped one
   (even number of backslashes directly before it) and p compiles; p may be empty *)
Theorem C18_accept : forall re_ok s p, fst (rcompile re_ok s) = Ok p <->
  exists rest, s = 47%N :: p ++ 47%N :: rest /\ first_unesc_slash (p ++ 47%N :: rest) (length p) /\ re_ok p = true.
Proof. exact rcompile_accept. Qed.
Print Assumptions C18_accept.

(* otherwise: code 1500/1501/1502 at an index inside the text; the empty text has no byte to point at and is
   rejected with code 202 without position (reading of "positioned ... including for empty texts": DESIGN C18) *)
Theorem C18_reject_positioned : forall re_ok s, (exists p, fst (rcompile re_ok s) = Ok p) \/
  (s = [] /\ rcompile re_ok s = (Err 202, (-1)%Z)) \/
  (exists c i, rcompile re_ok s = (Err c, i) /\ (c = 1500 \/ c = 1501 \/ c = 1502)%N /\ (0 <= i < Z.of_nat (length s))%Z).
Proof. exact rcompile_reject. Qed.
Print Assumptions C18_reject_positioned.

(* Len() is the delimited length, lies inside the text, and the AST value is exactly that prefix *)
Theorem C18_len_ast : forall re_ok s p, fst (rcompile re_ok s) = Ok p ->
  (rlen p <= Z.of_nat (length s))%Z /\ firstn (Z.to_nat (rlen p)) s = r_ast_value p.
Proof. exact rlen_prefix. Qed.
Print Assumptions C18_len_ast.

Theorem C18_openapi_pattern : forall p, r_openapi_pattern (r_ast_value p) = p.
Proof. exact openapi_pattern. Qed.
Print Assumptions C18_openapi_pattern.

Example C18_example : fst (rcompile (fun _ => true) [47; 97; 92; 47; 98; 47; 32]%N) = Ok [97; 92; 47; 98]%N
  /\ fst (rcompile (fun _ => true) [47; 47]%N) = Ok [] /\ rcompile (fun _ => true) [47; 97; 92; 47]%N = (Err 1501, 3%Z).
Proof. vm_compute. auto. Qed.
