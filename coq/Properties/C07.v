(* C07 - allOf inheritance yields exactly own + inherited properties, or a refusal.
   Model/AllOf.v: the compiler (extend / processType / CompileAllOf) as a fuelled function, tied to the code by
   correspondence on the verdict code and the compiled property list.  Spec/Inherit.v: what a merge IS, declaratively
   (Merged / Ext / Kids): no traversal order, no fuel, no error codes. *)
From Coq Require Import List NArith Bool.
From JS Require Import Base.Res Model.AllOf Spec.Inherit Proofs.AllOfProofs Proofs.AllOfTermination.
Import ListNotations.

(* the compiler accepts exactly the merges: what it returns is the merge ... *)
Theorem C07_sound : forall defs fuel st n r, cnode defs fuel st n = Ok r -> Merged defs st n r.
Proof. exact cnode_sound. Qed.
Print Assumptions C07_sound.

(* ... and every merge is returned, for every sufficiently large fuel (no false refusal) *)
Theorem C07_complete : forall defs st n r, Merged defs st n r -> exists f0, forall f, f0 <= f -> cnode defs f st n = Ok r.
Proof. intros defs. exact (proj1 (merged_complete defs)). Qed.
Print Assumptions C07_complete.

(* a refusal (any code) means that no merge exists *)
Theorem C07_refusal : forall defs f st n c, cnode defs f st n = Err c -> forall r, ~ Merged defs st n r.
Proof. exact refusal_means_no_merge. Qed.
Print Assumptions C07_refusal.

(* the shape of a merge: own properties, followed by those of each named type in the order of the rule - each named
   type being itself merged (transitively), an object, and not one of the types being expanded -, every inherited
   property marked with the type it came from and keeping its key and optionality; property names stay distinct *)
Theorem C07_shape : forall defs st props allof ap r, Merged defs st (TObj props allof ap) r ->
  exists props' ap' cts, r = TObj props' [] ap' /\ Forall2 (parent defs st) allof cts /\
    map sig props' = map sig props ++ inherited allof cts /\
    (NoDup (pkeys props) -> NoDup (pkeys props')).
Proof. exact merged_shape. Qed.
Print Assumptions C07_shape.

(* the five defects rule out a merge *)
Theorem C07_cyclic : forall defs st props allof ap name r, In name allof -> In name st -> ~ Merged defs st (TObj props allof ap) r.
Proof. exact no_merge_cyclic. Qed.
Theorem C07_missing : forall defs st props allof ap name r, In name allof -> tlookup name defs = None -> ~ Merged defs st (TObj props allof ap) r.
Proof. exact no_merge_missing. Qed.
Theorem C07_non_object : forall defs st props allof ap name r, In name allof -> tlookup name defs = Some TLeaf -> ~ Merged defs st (TObj props allof ap) r.
Proof. exact no_merge_non_object. Qed.
Theorem C07_duplicate : forall defs st props name rest ap r t cprops cap k,
  tlookup name defs = Some t -> Merged defs (name :: st) t (TObj cprops [] cap) ->
  In k (pkeys cprops) -> In k (pkeys props) -> ~ Merged defs st (TObj props (name :: rest) ap) r.
Proof. exact no_merge_duplicate. Qed.
Theorem C07_ap_conflict : forall defs st props name rest ap r t cprops cap,
  tlookup name defs = Some t -> Merged defs (name :: st) t (TObj cprops [] cap) ->
  ap <> 0%N -> cap <> 0%N -> ap <> cap -> ~ Merged defs st (TObj props (name :: rest) ap) r.
Proof. exact no_merge_ap_conflict. Qed.
Print Assumptions C07_cyclic.
Print Assumptions C07_missing.
Print Assumptions C07_non_object.
Print Assumptions C07_duplicate.
Print Assumptions C07_ap_conflict.

(* CompileAllOf as a whole: accepted -> the root and every registered type are merges; refused -> one of them is not *)
Theorem C07_compile_accepts : forall defs f root names r, compile_allof defs f root names = Ok r ->
  Merged defs [] root r /\ forall t, In t names -> exists n r', tlookup t defs = Some n /\ Merged defs [t] n r'.
Proof. exact compile_accepts. Qed.
Theorem C07_compile_refuses : forall defs f root names c, compile_allof defs f root names = Err c ->
  (forall r, ~ Merged defs [] root r) \/
  exists t, In t names /\ (tlookup t defs = None \/ exists n, tlookup t defs = Some n /\ forall r, ~ Merged defs [t] n r).
Proof. exact compile_refuses. Qed.
Print Assumptions C07_compile_accepts.
Print Assumptions C07_compile_refuses.

(* the compiler terminates: for every set of definitions, every stack and every node there is a fuel with which it
   answers - a compiled node or a refusal (and more fuel never changes the answer: AllOfProofs.cnode_mono).  The measure:
   the defined names not yet on the stack, then the structure of the node; inherited properties are already flat *)
Theorem C07_terminates : forall defs st n, exists f, (exists r, cnode defs f st n = Ok r) \/ (exists c, cnode defs f st n = Err c).
Proof. exact cnode_total. Qed.
Print Assumptions C07_terminates.
(* hence the compiler DECIDES inheritance: a merge exists exactly when some fuel returns it, otherwise some fuel refuses *)
Theorem C07_decides : forall defs st n, (exists r, Merged defs st n r) \/ (forall r, ~ Merged defs st n r).
Proof.
  intros defs st n. destruct (cnode_total defs st n) as [f [[r H]|[c H]]].
  - left. exists r. eapply cnode_sound. exact H.
  - right. eapply refusal_means_no_merge. exact H.
Qed.
Print Assumptions C07_decides.

(* non-vacuity: a diamond-free two-level inheritance is a merge with the expected property list *)
Example C07_example :
  let defs := [(1, TObj [(10, true, 0, TLeaf)] [2] 0); (2, TObj [(20, false, 0, TLeaf)] [] 1)]%N in
  cnode defs 10 [] (TObj [(5, false, 0, TLeaf)] [1] 0)%N
  = Ok (TObj [(5, false, 0, TLeaf); (10, true, 1, TLeaf); (20, false, 1, TLeaf)] [] 1)%N.
Proof. vm_compute. reflexivity. Qed.
