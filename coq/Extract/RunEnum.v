(* Wire glue: "enum <hex text>" -> "check=<ok|rej:code> values=<kind:hex,...|none|->" *)
From Coq Require Import String List ZArith NArith Bool.
From JS Require Import Base.Wire Base.Res Model.TypeGuess Model.EnumParse Extract.RunNum Extract.RunGuess Extract.RunAllOf.
Import ListNotations.

Definition show_value (lit : bytes) : bytes := show_guess (guess_schema lit) ++ [58%N] ++ hex lit.
Definition run_enum (ts : list bytes) : bytes :=
  match ts with
  | [h] =>
    match (if beqb h [45%N] then Some [] else unhex h) with
    | Some s =>
      match eparse s with
      | Ok lits => B"check=ok values=" ++ match lits with [] => B"none" | _ => join [44%N] (map show_value lits) end
      | Err c => B"check=rej:" ++ show_N c ++ B" values=-"
      | Panic k => B"check=panic:" ++ show_pkind k ++ B" values=-"
      end
    | None => bad_case
    end
  | _ => bad_case
  end.
