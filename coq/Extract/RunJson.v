(* Wire glue for the JSON document scanner model: "json <allow 0|1> <hex>" ->
   "L=<lexemes or err> C=<check> N=<len>" *)
From Coq Require Import String List ZArith NArith Bool.
From JS Require Import Base.Wire Base.Res Base.Lex Model.JsonScan Extract.RunNum.
Import ListNotations.

Definition show_lexeme (x : lexeme) : bytes :=
  let '(t, b, e) := x in show_N (lext_code t) ++ [58%N] ++ show_Z b ++ [58%N] ++ show_Z e.
Definition show_err {A} (r : res A) (i : Z) (ok : A -> bytes) : bytes :=
  match r with
  | Ok a => ok a
  | Err c => B"err:" ++ show_N c ++ [64%N] ++ show_Z i
  | Panic k => B"panic:" ++ show_pkind k
  end.

Definition run_json (ts : list bytes) : bytes :=
  match ts with
  | [a; h] =>
    match unhex h with
    | Some s =>
      let allow := beqb a [49%N] in
      let (l, li) := jlexemes allow s in
      let (c, ci) := jcheck allow s in
      B"L=" ++ show_err l li (fun ls => match ls with [] => [45%N] | _ => join [44%N] (map show_lexeme ls) end)
      ++ B" C=" ++ show_err c ci (fun _ => B"ok")
      ++ B" N=" ++ show_err (jlength allow s) 0%Z show_Z
    | None => bad_case
    end
  | _ => bad_case
  end.
