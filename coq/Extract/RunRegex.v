(* Wire glue for the regex schema model: "regex <hex>" -> "cand <hex p> <len> <hex ast> <hex oas>" when the
   delimiters are fine (regexp.Compile, the model's parameter, is then consulted by the check), else "err:c@i". *)
From Coq Require Import String List ZArith NArith Bool.
From JS Require Import Base.Wire Base.Res Model.RegexScan Extract.RunNum Extract.RunJson.
Import ListNotations.

Definition run_regex (ts : list bytes) : bytes :=
  match ts with
  | [h] =>
    match unhex h with
    | Some s =>
      let (r, i) := rcandidate s in
      show_err r i (fun p => B"cand " ++ hex p ++ [32%N] ++ show_Z (rlen p) ++ [32%N] ++ hex (r_ast_value p)
                             ++ [32%N] ++ hex (r_openapi_pattern (r_ast_value p)))
    | None => bad_case
    end
  | _ => bad_case
  end.
