(* Wire glue: "allof <tnode> ; <tname> <tnode> ; ... || ..."
   tnode ::= L | O <ap> <nallof> name* <nprops> (key opt tnode)*
   -> "check=<ok|code> keys=<k:opt:from,...>" *)
From Coq Require Import String List ZArith NArith Bool.
From JS Require Import Base.Wire Base.Res Model.AllOf Extract.RunNum Extract.RunRec.
Import ListNotations.

Fixpoint parse_tnode (fuel : nat) (ts : list bytes) : option (tnode * list bytes) :=
  match fuel with
  | O => None
  | S f =>
    match ts with
    | [76%N] :: r => Some (TLeaf, r)
    | [79%N] :: apt :: na :: r =>
      match dec apt, dec na with
      | Some ap, Some n =>
        match take_names (N.to_nat n) r with
        | Some (names, r1) =>
          match r1 with
          | np :: r2 =>
            match dec np with
            | Some m =>
              match (fix props (k : nat) (l : list bytes) : option (list (key * bool * tname * tnode) * list bytes) :=
                       match k with
                       | O => Some ([], l)
                       | S k' => match l with
                                 | kt :: ot :: l1 =>
                                   match dec kt, parse_tnode f l1 with
                                   | Some kk, Some (v, l2) =>
                                     match props k' l2 with
                                     | Some (ps, rest) => Some ((kk, beqb ot [49%N], 0%N, v) :: ps, rest)
                                     | None => None end
                                   | _, _ => None end
                                 | _ => None end
                       end) (N.to_nat m) r2 with
              | Some (ps, rest) => Some (TObj ps names ap, rest)
              | None => None
              end
            | None => None end
          | [] => None end
        | None => None end
      | _, _ => None end
    | _ => None
    end
  end.
Fixpoint parse_tdefs (fuel : nat) (ts : list bytes) : option tdefs :=
  match fuel with
  | O => None
  | S f =>
    match ts with
    | [] => Some []
    | t :: r =>
      if beqb t B"||" then Some []
      else if beqb t B";" then
        match r with
        | nm :: r' => match dec nm, parse_tnode (S (length r')) r' with
                      | Some n, Some (nd, rest) => match parse_tdefs f rest with Some l => Some ((n, nd) :: l) | None => None end
                      | _, _ => None end
        | [] => None end
      else None
    end
  end.
Definition show_prop (p : key * bool * tname * tnode) : bytes :=
  let '(k, o, fr, _) := p in show_N k ++ [58%N] ++ show_bool o ++ [58%N] ++ show_N fr.
Fixpoint isortN (l : list N) : list N :=
  match l with [] => [] | x :: r => (fix ins (y : N) (s : list N) : list N :=
                                       match s with [] => [y] | z :: t => if N.leb y z then y :: s else z :: ins y t end) x (isortN r) end.
Definition run_allof (ts : list bytes) : bytes :=
  match parse_tnode (S (length ts)) ts with
  | Some (root, rest) =>
    match parse_tdefs (S (length rest)) rest with
    | Some defs =>
      match compile_allof defs 200 root (isortN (map fst defs)) with
      | Ok (TObj ps _ _) => B"check=ok keys=" ++ match ps with [] => [45%N] | _ => join [44%N] (map show_prop ps) end
      | Ok TLeaf => B"check=ok keys=-"
      | Err c => B"check=" ++ show_N c ++ B" keys=-"
      | Panic k => B"check=panic:" ++ show_pkind k
      end
    | None => bad_case
    end
  | None => bad_case
  end.
