(* Wire glue for C20: "guess G <hex>" and "guess S <a> <b>" (soft equality both ways; "-" is the empty name),
   "guess V <hex>" (IsValidType through the regenerated key set). *)
From Coq Require Import String List ZArith NArith Bool.
From JS Require Import Base.Wire Base.Res Spec.TypeVocab Model.TypeGuess Gen.TypeTables Model.TypeSoft Extract.RunNum.
Import ListNotations.

Definition show_guess (r : res string) : bytes :=
  match r with
  | Ok t => b_of_string t
  | Err c => B"err" ++ show_N c
  | Panic k => B"panic:" ++ show_pkind k
  end.
Definition name_of (t : bytes) : string := if beqb t [45%N] then EmptyString else string_of_b t.

Definition run_guess (ts : list bytes) : bytes :=
  match ts with
  | [k; h] =>
    match unhex h with
    | Some s =>
      if beqb k B"G" then B"s=" ++ show_guess (guess_schema s) ++ B" j=" ++ show_guess (guess_json s)
      else if beqb k B"V" then show_bool (is_valid_type (string_of_b s))
      else bad_case
    | None => bad_case
    end
  | [k; a; b] =>
    if beqb k B"S" then show_bool (soft (name_of a) (name_of b)) ++ [32%N] ++ show_bool (soft (name_of b) (name_of a))
    else bad_case
  | _ => bad_case
  end.
