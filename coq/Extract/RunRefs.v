(* Wire glue: "refs <rnode> ; <tname> <rnode> ; ... || ..."   (the listed types are the REGISTERED ones)
   rnode ::= L <ty|-> <nalts> (N name | S <name|->)* | M <n> name* | A <n> rnode* | O <nallof> name* <ap|-> <nprops> (<key|-> rnode)*
   -> "used=<n,n,..|-> missing=<n,n,..|->" *)
From Coq Require Import String List ZArith NArith Bool.
From JS Require Import Base.Wire Base.Res Model.AllOf Model.Refs Extract.RunNum Extract.RunRec Extract.RunAllOf.
Import ListNotations.

Definition dec_opt (t : bytes) : option (option tname) :=
  if beqb t [45%N] then Some None else match dec t with Some v => Some (Some v) | None => None end.
Fixpoint take_alts (m : nat) (l : list bytes) : option (list alt * list bytes) :=
  match m with
  | O => Some ([], l)
  | S m' => match l with
            | k :: x :: l' =>
              match take_alts m' l' with
              | Some (as_, rest) =>
                if beqb k [78%N] then match dec x with Some v => Some (AName v :: as_, rest) | None => None end
                else if beqb k [83%N] then match dec_opt x with Some v => Some (ASet v :: as_, rest) | None => None end
                else None
              | None => None end
            | _ => None end
  end.
Fixpoint parse_rnode (fuel : nat) (ts : list bytes) : option (rnode * list bytes) :=
  match fuel with
  | O => None
  | S f =>
    match ts with
    | [76%N] :: ty :: na :: r =>
      match dec_opt ty, dec na with
      | Some t, Some n => match take_alts (N.to_nat n) r with Some (as_, rest) => Some (RLit t as_, rest) | None => None end
      | _, _ => None end
    | [77%N] :: cnt :: r =>
      match dec cnt with
      | Some n => match take_names (N.to_nat n) r with Some (ns, rest) => Some (RMix ns, rest) | None => None end
      | None => None end
    | [65%N] :: cnt :: r =>
      match dec cnt with
      | Some n =>
        match (fix kids (m : nat) (l : list bytes) : option (list rnode * list bytes) :=
                 match m with
                 | O => Some ([], l)
                 | S m' => match parse_rnode f l with
                           | Some (c, l') => match kids m' l' with Some (cs, rest) => Some (c :: cs, rest) | None => None end
                           | None => None end
                 end) (N.to_nat n) r with
        | Some (cs, rest) => Some (RArr cs, rest)
        | None => None end
      | None => None end
    | [79%N] :: na :: r =>
      match dec na with
      | Some n =>
        match take_names (N.to_nat n) r with
        | Some (allof, apt :: np :: r2) =>
          match dec_opt apt, dec np with
          | Some ap, Some m =>
            match (fix props (k : nat) (l : list bytes) : option (list (option tname * rnode) * list bytes) :=
                     match k with
                     | O => Some ([], l)
                     | S k' => match l with
                               | kt :: l1 =>
                                 match dec_opt kt, parse_rnode f l1 with
                                 | Some kk, Some (v, l2) =>
                                   match props k' l2 with Some (ps, rest) => Some ((kk, v) :: ps, rest) | None => None end
                                 | _, _ => None end
                               | [] => None end
                     end) (N.to_nat m) r2 with
            | Some (ps, rest) => Some (RObj allof ap ps, rest)
            | None => None end
          | _, _ => None end
        | _ => None end
      | None => None end
    | _ => None
    end
  end.
Fixpoint parse_rdefs (fuel : nat) (ts : list bytes) : option rdefs :=
  match fuel with
  | O => None
  | S f =>
    match ts with
    | [] => Some []
    | t :: r =>
      if beqb t B"||" then Some []
      else if beqb t B";" then
        match r with
        | nm :: r' => match dec nm, parse_rnode (S (length r')) r' with
                      | Some n, Some (nd, rest) => match parse_rdefs f rest with Some l => Some ((n, nd) :: l) | None => None end
                      | _, _ => None end
        | [] => None end
      else None
    end
  end.
Definition show_names (l : list tname) : bytes := match l with [] => [45%N] | _ => join [44%N] (map show_N l) end.
Definition run_refs (ts : list bytes) : bytes :=
  match parse_rnode (S (length ts)) ts with
  | Some (root, rest) =>
    match parse_rdefs (S (length rest)) rest with
    | Some defs => B"used=" ++ show_names (used root) ++ B" missing=" ++ show_names (isortN (missing defs root))
    | None => bad_case
    end
  | None => bad_case
  end.
