(* Wire glue: "linecol <hex content> <index>" -> "<line> <col> src=<hex|panic> ptr=<hex|panic>" *)
From Coq Require Import String List ZArith NArith Bool.
From JS Require Import Base.Wire Base.Res Model.LineCol Extract.RunNum.
Import ListNotations.

Definition show_rb (r : res bytes) : bytes :=
  match r with Ok b => hex b | Err c => B"err" ++ show_N c | Panic k => B"panic:" ++ show_pkind k end.
Definition run_linecol (ts : list bytes) : bytes :=
  match ts with
  | [h; i] =>
    match unhex h, dec i with
    | Some s, Some n =>
      let idx := Z.of_N n in
      let (l, c) := line_col s idx in
      show_Z l ++ [32%N] ++ show_Z c ++ B" src=" ++ show_rb (source_sub s idx) ++ B" ptr=" ++ show_rb (pointer s idx)
    | _, _ => bad_case
    end
  | _ => bad_case
  end.
