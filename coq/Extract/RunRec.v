(* Wire glue for the recursion checker / example model.
   "rec <rootname> <root|all> <node> ; <tname> <node> ; ... || ..." (what follows "||" is for the implementation)
   node ::= L<o><u> | A<o><u> <n> node*n | O<o><u> <n> node*n | R<o><u> <n> name*n       (o, u in {0,1})
   -> "check=<104|ok> ex=<shape|none|err>" *)
From Coq Require Import String List ZArith NArith Bool.
From JS Require Import Base.Wire Base.Res Model.Recursion Extract.RunNum.
Import ListNotations.

Definition flag (c : N) : bool := N.eqb c 49.
Fixpoint take_names (m : nat) (l : list bytes) : option (list tname * list bytes) :=
  match m with
  | O => Some ([], l)
  | S m' => match l with
            | x :: l' => match dec x, take_names m' l' with
                         | Some v, Some (vs, rest) => Some (v :: vs, rest) | _, _ => None end
            | [] => None end
  end.
Fixpoint parse_node (fuel : nat) (ts : list bytes) : option (node * list bytes) :=
  match fuel with
  | O => None
  | S f =>
    match ts with
    | [k; o; u] :: r =>
      if N.eqb k 76 then Some (NLit (flag o) (flag u), r)
      else match r with
           | cnt :: r' =>
             match dec cnt with
             | None => None
             | Some n =>
               if N.eqb k 82 then
                 match take_names (N.to_nat n) r' with
                 | Some (ns, rest) => Some (NRef (flag o) (flag u) ns, rest)
                 | None => None
                 end
               else
                 match (fix kids (m : nat) (l : list bytes) : option (list node * list bytes) :=
                          match m with
                          | O => Some ([], l)
                          | S m' => match parse_node f l with
                                    | Some (c, l') => match kids m' l' with
                                                      | Some (cs, rest) => Some (c :: cs, rest) | None => None end
                                    | None => None end
                          end) (N.to_nat n) r' with
                 | Some (cs, rest) => if N.eqb k 65 then Some (NArr (flag o) (flag u) cs, rest)
                                      else if N.eqb k 79 then Some (NObj (flag o) (flag u) cs, rest) else None
                 | None => None
                 end
             end
           | [] => None
           end
    | _ => None
    end
  end.

(* "; <tname> <node>" repeated until "||" or the end *)
Fixpoint parse_types (fuel : nat) (ts : list bytes) : option (list (tname * node)) :=
  match fuel with
  | O => None
  | S f =>
    match ts with
    | [] => Some []
    | t :: r =>
      if beqb t B"||" then Some []
      else if beqb t B";" then
        match r with
        | nm :: r' => match dec nm, parse_node (S (length r')) r' with
                      | Some n, Some (nd, rest) => match parse_types f rest with
                                                  | Some l => Some ((n, nd) :: l) | None => None end
                      | _, _ => None end
        | [] => None end
      else None
    end
  end.

Fixpoint show_ex (x : ex) : bytes :=
  match x with
  | XLit => [76%N]
  | XNull => [78%N]
  | XArr l => [91%N] ++ flat_map show_ex l ++ [93%N]
  | XObj l => [123%N] ++ flat_map show_ex l ++ [125%N]
  end.

Definition run_rec (ts : list bytes) : bytes :=
  match ts with
  | rn :: style :: rest =>
    match dec rn, parse_node (S (length rest)) rest with
    | Some rootname, Some (rootnode, rest') =>
      match parse_types (S (length rest')) rest' with
      | Some tys =>
        let leaf := map (fun tn => (fst tn, Entry (snd tn) [])) tys in
        let tb := if beqb style B"all" then map (fun tn => (fst tn, Entry (snd tn) leaf)) tys else leaf in
        let fuel := (check_fuel rootnode tb + 4000)%nat in
        let c := rec_check fuel rootname rootnode tb in
        B"check=" ++ match c with Ok true => B"104" | Ok false => B"ok" | Err e => B"err" ++ show_N e | Panic k => B"panic:" ++ show_pkind k end
        ++ B" ex=" ++ match c with
                      | Ok false => match build tb fuel [] rootnode with
                                    | Ok (Some x) => show_ex x | Ok None => B"none" | Err e => B"err" ++ show_N e
                                    | Panic k => B"panic:" ++ show_pkind k end
                      | _ => [45%N]
                      end
      | None => bad_case
      end
    | _, _ => bad_case
    end
  | _ => bad_case
  end.
