(* Wire glue for the container models: parses a case line into a history, runs the MODEL
   (never the spec) and renders the observations.  Case: ops as decimal tokens
   "S k v" "U k f" "D k" "F f" "M f" "I f" "E f" "G k" "H k" "L" "J". *)
From Coq Require Import String List NArith Bool.
From JS Require Import Base.Wire Spec.Dict Model.OMap.
Import ListNotations.
Local Open Scope N_scope.

(* the fixed finite callback families used by the harness (same numbering in implrun) *)
Definition cb_pred (n : N) : K -> V -> bool :=
  match n with
  | 0 => fun _ _ => false
  | 1 => fun _ _ => true
  | 2 => fun k _ => k =? 0
  | 3 => fun k _ => negb (k =? 1)
  | 4 => fun _ v => N.even v
  | _ => fun k _ => N.even k
  end.
Definition cb_upd (n : N) : V -> V :=
  match n with
  | 0 => fun v => v + 1
  | 1 => fun _ => 7
  | _ => fun v => 2 * v
  end.
Definition cb_map (n : N) : K -> V -> V + E :=
  match n with
  | 0 => fun _ v => inl (v + 1)
  | 1 => fun k v => if k =? 1 then inr 5 else inl (2 * v)
  | 2 => fun _ _ => inr 9
  | _ => fun k _ => inl k
  end.
Definition cb_each (n : N) : K -> V -> option E :=
  match n with
  | 0 => fun _ _ => None
  | 1 => fun k _ => if k =? 2 then Some 3 else None
  | _ => fun _ v => if N.even v then Some v else None
  end.

Definition tok1 (t : bytes) : N := match t with c :: _ => c | [] => 0 end.

Fixpoint parse_ops (fuel : nat) (ts : list bytes) : option (list op) :=
  match fuel with
  | O => None
  | S fuel =>
    match ts with
    | [] => Some []
    | t :: r =>
      let c := tok1 t in
      let arg1 (mk : N -> op) :=
          match r with
          | a :: r' => match dec a, parse_ops fuel r' with
                       | Some x, Some l => Some (mk x :: l) | _, _ => None end
          | _ => None end in
      if c =? 83 (* S *) then
        match r with
        | a :: b :: r' => match dec a, dec b, parse_ops fuel r' with
                          | Some k, Some v, Some l => Some (OSet k v :: l) | _, _, _ => None end
        | _ => None end
      else if c =? 85 (* U *) then
        match r with
        | a :: b :: r' => match dec a, dec b, parse_ops fuel r' with
                          | Some k, Some f, Some l => Some (OUpdate k (cb_upd f) :: l) | _, _, _ => None end
        | _ => None end
      else if c =? 68 then arg1 ODelete
      else if c =? 70 then arg1 (fun f => OFilter (cb_pred f))
      else if c =? 77 then arg1 (fun f => OMap (cb_map f))
      else if c =? 73 then arg1 (fun f => OFind (cb_pred f))
      else if c =? 69 then arg1 (fun f => OEach (cb_each f))
      else if c =? 71 then arg1 OGet
      else if c =? 72 then arg1 OHas
      else if c =? 76 then match parse_ops fuel r with Some l => Some (OLen :: l) | None => None end
      else if c =? 74 then match parse_ops fuel r with Some l => Some (OItems :: l) | None => None end
      else None
    end
  end.

Definition show_kv (kv : K * V) : bytes := show_N (fst kv) ++ [58] ++ show_N (snd kv).
Definition show_out (o : out) : bytes :=
  match o with
  | RUnit => [45]
  | RVal None => B"vN"
  | RVal (Some v) => 118 :: show_N v
  | RBool b => 98 :: show_bool b
  | RNat n => 110 :: show_nat n
  | RItem None => B"iN"
  | RItem (Some kv) => 105 :: show_kv kv
  | RErr None => B"eN"
  | RErr (Some e) => 101 :: show_N e
  | RItems l => 106 :: join [44] (map show_kv l)
  end.

Definition run_omap (ts : list bytes) : bytes :=
  match parse_ops (S (length ts)) ts with
  | Some ops => unwords (map show_out (run_m ops))
  | None => bad_case
  end.

(* string set: "<n> k1 .. kn" then ops "A k" "H k" "L" "D" *)
Fixpoint take_decs (n : nat) (ts : list bytes) : option (list N * list bytes) :=
  match n with
  | O => Some ([], ts)
  | S n' => match ts with
            | t :: r => match dec t, take_decs n' r with
                        | Some x, Some (l, rest) => Some (x :: l, rest) | _, _ => None end
            | [] => None end
  end.
Fixpoint sset_ops (fuel : nat) (s : sset) (ts : list bytes) : option (list bytes) :=
  match fuel with
  | O => None
  | S fuel =>
    match ts with
    | [] => Some []
    | t :: r =>
      let c := tok1 t in
      if c =? 65 then
        match r with a :: r' => match dec a with
                                | Some k => option_map (cons [45]) (sset_ops fuel (sadd_m k s) r')
                                | None => None end
                | [] => None end
      else if c =? 72 then
        match r with a :: r' => match dec a with
                                | Some k => option_map (cons (98 :: show_bool (shas_m k s))) (sset_ops fuel s r')
                                | None => None end
                | [] => None end
      else if c =? 76 then option_map (cons (110 :: show_nat (slen_m s))) (sset_ops fuel s r)
      else if c =? 68 then option_map (cons (100 :: join [44] (map show_N (sorder s)))) (sset_ops fuel s r)
      else None
    end
  end.
Definition run_sset (ts : list bytes) : bytes :=
  match ts with
  | n :: r =>
    match dec n with
    | Some n' => match take_decs (N.to_nat n') r with
                 | Some (l, rest) => match sset_ops (S (length rest)) (snew_m l) rest with
                                     | Some outs => unwords outs | None => bad_case end
                 | None => bad_case end
    | None => bad_case end
  | [] => bad_case
  end.
