(* Wire glue: "plain <hex text>" -> "ok ex=<hex> ast=<shape>" | "rej"
   shape ::= L<kind>:<hex value> | A[shape,...] | O{<hex key>=shape,...}    (strings and keys decoded, as UTF-8) *)
From Coq Require Import String List ZArith NArith Bool.
From JS Require Import Base.Wire Base.Res Model.TypeGuess Model.EnumParse Model.JsonValue Extract.RunNum Extract.RunGuess Extract.RunAllOf Extract.RunRules.
Import ListNotations.

Definition decoded_utf8 (lit : bytes) : bytes :=
  match lit with
  | 34%N :: r => flat_map utf8_enc (decode (S (length r)) (removelast r))
  | _ => lit
  end.
Definition hex_or_dash (b : bytes) : bytes := match b with [] => [45%N] | _ => hex b end.
Fixpoint shape (fuel : nat) (v : jv) : bytes :=
  match fuel with
  | O => B"?"
  | S f =>
    match v with
    | JLit l => B"L" ++ show_guess (guess_schema l) ++ [58%N] ++ hex_or_dash (decoded_utf8 l)
    | JArr items => B"A[" ++ join [44%N] (map (shape f) items) ++ B"]"
    | JObj ms => B"O{" ++ join [44%N] (map (fun m => hex_or_dash (decoded_utf8 (fst m)) ++ [61%N] ++ shape f (snd m)) ms) ++ B"}"
    end
  end.
Definition run_plain (ts : list bytes) : bytes :=
  match ts with
  | [h] =>
    match unhex_dash h with
    | Some s =>
      match jparse s with
      | Some v => B"ok ex=" ++ hex (example v) ++ B" ast=" ++ shape (S (depth v)) v
      | None => B"rej"
      end
    | None => bad_case
    end
  | _ => bad_case
  end.

Definition run_jlen (ts : list bytes) : bytes :=
  match ts with
  | [h] => match unhex_dash h with
           | Some s => match jlen s with Some n => B"len=" ++ show_N (N.of_nat n) | None => B"rej" end
           | None => bad_case end
  | _ => bad_case
  end.
