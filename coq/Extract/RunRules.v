(* Wire glue: "rules <node> ; <tname> <node> ; ... || ..."  -> "ok" | "value"
   node ::= <hex example> V <leaf> | <hex example> R <n> (N <name> | S <leaf>)* | x A <count> <min|-> <max|->
   leaf ::= Y | F <i|f|s|b|n> <nrules> rule*
   rule ::= m <hex> <0|1> | M <hex> <0|1> | p <n> | l <n> | L <n> | e <k> <hex>* | n | c *)
From Coq Require Import String List ZArith NArith Bool.
From JS Require Import Base.Wire Base.Res Model.AllOf Model.RuleSem Extract.RunNum Extract.RunRec Extract.RunAllOf.
Import ListNotations.

Definition unhex_dash (t : bytes) : option bytes := if beqb t [45%N] then Some [] else unhex t.
Fixpoint take_hex (m : nat) (l : list bytes) : option (list bytes * list bytes) :=
  match m with
  | O => Some ([], l)
  | S m' => match l with
            | x :: l' => match unhex_dash x, take_hex m' l' with
                         | Some v, Some (vs, rest) => Some (v :: vs, rest) | _, _ => None end
            | [] => None end
  end.
Definition kind_of_tok (t : bytes) : option jkind :=
  match t with
  | [105%N] => Some KInt | [102%N] => Some KFloat | [115%N] => Some KStr | [98%N] => Some KBool | [110%N] => Some KNull
  | _ => None end.
Fixpoint parse_rules (m : nat) (l : list bytes) : option (list rule * list bytes) :=
  match m with
  | O => Some ([], l)
  | S m' =>
    match l with
    | [109%N] :: h :: x :: r =>
      match unhex_dash h, parse_rules m' r with Some b, Some (rs, rest) => Some (RMin b (beqb x [49%N]) :: rs, rest) | _, _ => None end
    | [77%N] :: h :: x :: r =>
      match unhex_dash h, parse_rules m' r with Some b, Some (rs, rest) => Some (RMax b (beqb x [49%N]) :: rs, rest) | _, _ => None end
    | [112%N] :: n :: r =>
      match dec n, parse_rules m' r with Some v, Some (rs, rest) => Some (RPrecision (Z.of_N v) :: rs, rest) | _, _ => None end
    | [108%N] :: n :: r =>
      match dec n, parse_rules m' r with Some v, Some (rs, rest) => Some (RMinLength (Z.of_N v) :: rs, rest) | _, _ => None end
    | [76%N] :: n :: r =>
      match dec n, parse_rules m' r with Some v, Some (rs, rest) => Some (RMaxLength (Z.of_N v) :: rs, rest) | _, _ => None end
    | [101%N] :: k :: r =>
      match dec k with
      | Some kk => match take_hex (N.to_nat kk) r with
                   | Some (items, r') => match parse_rules m' r' with Some (rs, rest) => Some (REnum items :: rs, rest) | None => None end
                   | None => None end
      | None => None end
    | [110%N] :: r => match parse_rules m' r with Some (rs, rest) => Some (RNullable :: rs, rest) | None => None end
    | [99%N] :: r => match parse_rules m' r with Some (rs, rest) => Some (RConst :: rs, rest) | None => None end
    | _ => None
    end
  end.
Definition parse_leaf (l : list bytes) : option (leaf * list bytes) :=
  match l with
  | [89%N] :: r => Some (LAny, r)
  | [70%N] :: k :: n :: r =>
    match kind_of_tok k, dec n with
    | Some kk, Some nn => match parse_rules (N.to_nat nn) r with Some (rs, rest) => Some (Leaf kk rs, rest) | None => None end
    | _, _ => None end
  | _ => None
  end.
Fixpoint parse_alts (m : nat) (l : list bytes) : option (list valt * list bytes) :=
  match m with
  | O => Some ([], l)
  | S m' =>
    match l with
    | [78%N] :: n :: r => match dec n, parse_alts m' r with Some t, Some (as_, rest) => Some (VName t :: as_, rest) | _, _ => None end
    | [83%N] :: r => match parse_leaf r with
                     | Some (lf, r') => match parse_alts m' r' with Some (as_, rest) => Some (VSet lf :: as_, rest) | None => None end
                     | None => None end
    | _ => None
    end
  end.
Definition parse_vnode (l : list bytes) : option ((bytes * vnode) * list bytes) :=
  match l with
  | h :: [86%N] :: r =>
    match unhex_dash h, parse_leaf r with Some ex, Some (lf, rest) => Some ((ex, VLeaf lf), rest) | _, _ => None end
  | h :: [82%N] :: n :: r =>
    match unhex_dash h, dec n with
    | Some ex, Some nn => match parse_alts (N.to_nat nn) r with Some (as_, rest) => Some ((ex, VRefs as_), rest) | None => None end
    | _, _ => None end
  | h :: [65%N] :: c :: a :: b :: r =>
    let opt (t : bytes) := if beqb t [45%N] then Some None else match dec t with Some v => Some (Some (Z.of_N v)) | None => None end in
    match dec c, opt a, opt b with
    | Some cnt, Some mn, Some mx => Some ((h, VArr (Z.of_N cnt) mn mx), r)
    | _, _, _ => None end
  | _ => None
  end.
Fixpoint parse_vtypes (fuel : nat) (ts : list bytes) : option vtypes :=
  match fuel with
  | O => None
  | S f =>
    match ts with
    | [] => Some []
    | t :: r =>
      if beqb t B"||" then Some []
      else if beqb t B";" then
        match r with
        | nm :: r' => match dec nm, parse_vnode r' with
                      | Some n, Some (nd, rest) => match parse_vtypes f rest with Some l => Some ((n, nd) :: l) | None => None end
                      | _, _ => None end
        | [] => None end
      else None
    end
  end.
Definition run_rules (ts : list bytes) : bytes :=
  match parse_vnode ts with
  | Some (root, rest) =>
    match parse_vtypes (S (length rest)) rest with
    | Some d => if check_project (proj_fuel d root) d root then B"ok" else B"value"
    | None => bad_case
    end
  | None => bad_case
  end.

(* "oasleaf <leaf>" -> the keywords the converter emits for a scalar node: "type=.. minimum=.. exclusiveMinimum=true maximum=.. exclusiveMaximum=true" *)
From JS Require Import Model.OasSem.
Definition show_otype (t : otype) : bytes :=
  match t with OInteger => B"integer" | ONumber => B"number" | OString => B"string" | OBoolean => B"boolean" end.
Definition run_oasleaf (ts : list bytes) : bytes :=
  match parse_leaf ts with
  | Some (l, _) =>
    let o := to_oas l in
    join [32%N]
      ((match o_type o with Some t => [B"type=" ++ show_otype t] | None => [] end) ++
       (match o_min o with Some (b, e) => (B"minimum=" ++ b) :: (if e then [B"exclusiveMinimum=true"] else []) | None => [] end) ++
       (match o_max o with Some (b, e) => (B"maximum=" ++ b) :: (if e then [B"exclusiveMaximum=true"] else []) | None => [] end))
  | None => bad_case
  end.
