(* Wire glue for the tree model of the OpenAPI conversion.
   "oast <node>"   node ::= V <hex example> <leaf>
                          | R <hex example> <n> <0|1 nullable> alt^n            alt ::= L <leaf> | o | a
                          | A <n> <min|-> <max|-> <0|1 nullable> node^n
                          | O <n> <ap> <0|1 nullable> (<hex key> <0|1 optional> node)^n        ap ::= f | y | ti | tn | ts | tb | w<hex type name>
                          | F <hex type name without @> <0|1 nullable>
                          | K <n> <k> <ap> <0|1 nullable> (<hex key> <0|1 optional> node)^n (<hex type name of the key> <0|1 optional> node)^k
                          | C <n> <0|1 nullable> <hex type name>^n            (a type choice)
                          | T <hex example> <hex type name> <0|1 nullable>    (a scalar with type: "@name")
                        alt ::= .. | r <hex type name> <0|1 nullable>
   -> the Schema Object in a canonical spelling:
      L(<keywords of oasx, separated by ;>)   Y(nullable;[node,..])   A(mn=..;mx=..;nullable;[node,..])   O(req=[hexkey,..];ap=..;nullable;{hexkey:node,..})   F(nullable;hexname) *)
From Coq Require Import String List ZArith NArith Bool.
From JS Require Import Base.Wire Base.Res Model.RuleSem Model.OasSem Model.OasLeaf Model.OasTree Extract.RunNum Extract.RunRules.
Import ListNotations.

Definition opt_z (t : bytes) : option (option Z) :=
  if beqb t [45%N] then Some None else match dec t with Some v => Some (Some (Z.of_N v)) | None => None end.
Definition ap_of_tok (t : bytes) : option apmode :=
  if beqb t B"f" then Some APFalse else if beqb t B"y" then Some APAny
  else if beqb t B"ti" then Some (APType OInteger) else if beqb t B"tn" then Some (APType ONumber)
  else if beqb t B"ts" then Some (APType OString) else if beqb t B"tb" then Some (APType OBoolean)
  else match t with
       | 119%N :: h => match unhex_dash h with Some n => ap_of_name n | None => None end        (* w<hex type name> *)
       | _ => None
       end.

Fixpoint parse_snode (fuel : nat) (l : list bytes) : option (snode * list bytes) :=
  match fuel with
  | O => None
  | S f =>
    match l with
    | [86%N] :: h :: r =>
      match unhex_dash h, parse_leaf r with Some ex, Some (lf, rest) => Some (SLeaf ex lf, rest) | _, _ => None end
    | [82%N] :: h :: n :: nu :: r =>
      match unhex_dash h, dec n with
      | Some ex, Some cnt =>
        match (fix alts (k : nat) (l : list bytes) : option (list oralt * list bytes) :=
                 match k with
                 | O => Some ([], l)
                 | S k' =>
                   match l with
                   | [76%N] :: l1 => match parse_leaf l1 with
                                     | Some (lf, l2) => match alts k' l2 with Some (xs, l3) => Some (OALeaf lf :: xs, l3) | None => None end
                                     | None => None end
                   | [111%N] :: l1 => match alts k' l1 with Some (xs, l3) => Some (OAObject :: xs, l3) | None => None end
                   | [97%N] :: l1 => match alts k' l1 with Some (xs, l3) => Some (OAArray :: xs, l3) | None => None end
                   | [114%N] :: h :: rn :: l1 =>                                        (* r <hex type name> <0|1 nullable> *)
                     match unhex_dash h, alts k' l1 with
                     | Some name, Some (xs, l3) => Some (OARef name (beqb rn [49%N]) :: xs, l3)
                     | _, _ => None end
                   | _ => None
                   end
                 end) (N.to_nat cnt) r with
        | Some (xs, rest) => Some (SOr ex xs (beqb nu [49%N]), rest)
        | None => None end
      | _, _ => None end
    | [65%N] :: n :: a :: b :: nu :: r =>
      match dec n, opt_z a, opt_z b with
      | Some cnt, Some mn, Some mx =>
        match (fix items (k : nat) (l : list bytes) : option (list snode * list bytes) :=
                 match k with
                 | O => Some ([], l)
                 | S k' => match parse_snode f l with
                           | Some (x, l') => match items k' l' with Some (xs, l'') => Some (x :: xs, l'') | None => None end
                           | None => None end
                 end) (N.to_nat cnt) r with
        | Some (xs, rest) => Some (SArr xs mn mx (beqb nu [49%N]), rest)
        | None => None end
      | _, _, _ => None end
    | [79%N] :: n :: a :: nu :: r =>
      match dec n, ap_of_tok a with
      | Some cnt, Some ap =>
        match (fix mems (k : nat) (l : list bytes) : option (list (bytes * (bool * snode)) * list bytes) :=
                 match k with
                 | O => Some ([], l)
                 | S k' => match l with
                           | hk :: o :: l1 =>
                             match unhex_dash hk, parse_snode f l1 with
                             | Some key, Some (x, l') =>
                               match mems k' l' with Some (xs, l'') => Some ((key, (beqb o [49%N], x)) :: xs, l'') | None => None end
                             | _, _ => None end
                           | _ => None end
                 end) (N.to_nat cnt) r with
        | Some (ms, rest) => Some (SObj ms ap (beqb nu [49%N]), rest)
        | None => None end
      | _, _ => None end
    | [75%N] :: n :: k :: a :: nu :: r =>                                    (* K <n> <k> <ap> <nullable> member^n shortcut^k *)
      match dec n, dec k, ap_of_tok a with
      | Some cnt, Some kcnt, Some ap =>
        let mems := (fix mems (j : nat) (l : list bytes) : option (list (bytes * (bool * snode)) * list bytes) :=
                 match j with
                 | O => Some ([], l)
                 | S j' => match l with
                           | hk :: o :: l1 =>
                             match unhex_dash hk, parse_snode f l1 with
                             | Some key, Some (x, l') =>
                               match mems j' l' with Some (xs, l'') => Some ((key, (beqb o [49%N], x)) :: xs, l'') | None => None end
                             | _, _ => None end
                           | _ => None end
                 end) in
        match mems (N.to_nat cnt) r with
        | Some (ms, rest) =>
          match mems (N.to_nat kcnt) rest with
          | Some (ks, rest') => Some (SObjK ms ks ap (beqb nu [49%N]), rest')
          | None => None end
        | None => None end
      | _, _, _ => None end
    | [70%N] :: h :: nu :: r =>
      match unhex_dash h with Some name => Some (SRef name (beqb nu [49%N]), r) | None => None end
    | [67%N] :: n :: nu :: r =>                                                         (* C <n> <nullable> <hex name>^n *)
      match dec n with
      | Some cnt =>
        match (fix names (k : nat) (l : list bytes) : option (list bytes * list bytes) :=
                 match k with
                 | O => Some ([], l)
                 | S k' => match l with
                           | h :: l1 => match unhex_dash h, names k' l1 with Some x, Some (xs, l2) => Some (x :: xs, l2) | _, _ => None end
                           | [] => None end
                 end) (N.to_nat cnt) r with
        | Some (xs, rest) => Some (SChoice xs (beqb nu [49%N]), rest)
        | None => None end
      | None => None end
    | [84%N] :: hex :: h :: nu :: r =>                                                   (* T <hex example> <hex name> <nullable> *)
      match unhex_dash hex, unhex_dash h with
      | Some ex, Some name => Some (SRefLit ex name (beqb nu [49%N]), r)
      | _, _ => None end
    | _ => None
    end
  end.

Definition show_oasx (o : oasx) : bytes :=
  join [59%N]
    ((match x_type o with Some t => [B"type=" ++ show_otype t] | None => [] end) ++
     (match x_min o with Some (b, e) => (B"minimum=" ++ b) :: (if e then [B"exclusiveMinimum=true"] else []) | None => [] end) ++
     (match x_max o with Some (b, e) => (B"maximum=" ++ b) :: (if e then [B"exclusiveMaximum=true"] else []) | None => [] end) ++
     (match x_minlen o with Some n => [B"minLength=" ++ show_Z n] | None => [] end) ++
     (match x_maxlen o with Some n => [B"maxLength=" ++ show_Z n] | None => [] end) ++
     (match x_multiple o with Some p => [B"multipleOf=" ++ show_Z p] | None => [] end) ++
     (match x_enum o with Some items => [B"enum=" ++ join [44%N] (map hex items)] | None => [] end) ++
     (if x_nullable o then [B"nullable=true"] else [])).
Definition show_ap (a : apmode) : bytes :=
  match a with
  | APFalse => B"f" | APAny => B"y" | APType t => B"t:" ++ show_otype t
  | APNull => B"null" | APArray => B"array" | APObject => B"object" | APFormat f => B"t:string:" ++ f
  | APRef n => B"ref:" ++ hex n
  end.
Definition show_optz (name : bytes) (z : option Z) : list bytes := match z with Some v => [name ++ show_Z v] | None => [] end.
Fixpoint show_otree (t : otree) : bytes :=
  match t with
  | OLeaf o => B"L(" ++ show_oasx o ++ B")"
  | OAnyOf alts nu => B"Y(" ++ join [59%N] ((if nu then [B"nullable"] else []) ++ [B"[" ++ join [44%N] (map show_otree alts) ++ B"]"]) ++ B")"
  | OArr items mn mx nu =>
    B"A(" ++ join [59%N] (show_optz B"mn=" mn ++ show_optz B"mx=" mx ++ (if nu then [B"nullable"] else []) ++
                          [B"[" ++ join [44%N] (match items with
                                                 | [OChoice names false] => map (fun n => B"F(" ++ hex n ++ B")") names
                                                   (* items = {"anyOf": [refs]}: the same JSON as an array with these references as its items *)
                                                 | _ => map show_otree items
                                                 end) ++ B"]"]) ++ B")"
  | OObj props req ap nu =>
    B"O(" ++ join [59%N] ([B"req=[" ++ join [44%N] (map hex req) ++ B"]"; B"ap=" ++ show_ap ap] ++ (if nu then [B"nullable"] else []) ++
                          [B"{" ++ join [44%N] (map (fun p => hex (fst p) ++ B":" ++ show_otree (snd p)) props) ++ B"}"]) ++ B")"
  | ORef n nu => B"F(" ++ join [59%N] ((if nu then [B"nullable"] else []) ++ [hex n]) ++ B")"
  | OAp ap =>                                              (* the item written for the rule's type name, in the spelling of the other nodes *)
    match ap with
    | APType t => B"L(type=" ++ show_otype t ++ B")"
    | APFormat _ => B"L(type=string)"
    | APNull => B"L(enum=" ++ hex w_null_lit ++ B")"
    | APArray => B"A([])"
    | APObject => B"O(req=[];ap=f;{})"
    | APRef r => B"F(" ++ hex r ++ B")"
    | APFalse | APAny => B"?"
    end
  | OObjK props req extra nu =>
    B"O(" ++ join [59%N] ([B"req=[" ++ join [44%N] (map hex req) ++ B"]"; B"ap=anyOf[" ++ join [44%N] (map show_otree extra) ++ B"]"] ++
                          (if nu then [B"nullable"] else []) ++
                          [B"{" ++ join [44%N] (map (fun p => hex (fst p) ++ B":" ++ show_otree (snd p)) props) ++ B"}"]) ++ B")"
  | OChoice names nu => B"Y(" ++ join [59%N] ((if nu then [B"nullable"] else []) ++
                                               [B"[" ++ join [44%N] (map (fun n => B"F(" ++ hex n ++ B")") names) ++ B"]"]) ++ B")"
  end.

Definition run_oast (ts : list bytes) : bytes :=
  match parse_snode (S (length ts)) ts with
  | Some (n, _) => show_otree (to_otree n)
  | None => bad_case
  end.
