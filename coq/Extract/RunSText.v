(* Wire glue: "stext <hex schema text>" -> "ok ast=<dump>" | "rej"
   dump ::= L<v><ann> | R<hex text><ann> | A<ann>[dump,...] | O<ann>{<k|s><hex key>=dump,...}
   v ::= s<hex decoded string> | l<hex literal> ;  ann ::= {name=rv;...}<<hex note>>   (both parts always present)
   rv ::= s<hex> | l<hex> | [rv,...] | {name=rv;...} *)
From Coq Require Import String List ZArith NArith Bool.
From JS Require Import Base.Wire Base.Res Model.EnumParse Model.JsonValue Model.SchemaText Extract.RunNum Extract.RunAllOf Extract.RunRules Extract.RunPlain.
Import ListNotations.

Definition hexd (b : bytes) : bytes := match b with [] => [45%N] | _ => hex b end.
Definition dump_scal (l : bytes) : bytes :=
  match l with
  | 34%N :: _ => [115%N] ++ hexd (decoded_utf8 l)
  | 64%N :: _ => [115%N] ++ hexd l
  | _ => [108%N] ++ hexd l
  end.
Fixpoint dump_rval (fuel : nat) (v : rval) : bytes :=
  match fuel with
  | O => B"?"
  | S f =>
    match v with
    | RScal l => dump_scal l
    | RList items => B"[" ++ join [44%N] (map (dump_rval f) items) ++ B"]"
    | RObj ms => B"{" ++ join [59%N] (map (fun m => fst m ++ [61%N] ++ dump_rval f (snd m)) ms) ++ B"}"
    end
  end.
(* blanks and line breaks inside a note are compared as single spaces *)
Fixpoint squeeze (s : bytes) (in_blank : bool) : bytes :=
  match s with
  | [] => []
  | c :: r => if is_blank c then (if in_blank then squeeze r true else 32%N :: squeeze r true) else c :: squeeze r false
  end.
Definition last_note (l : list ann) : bytes :=
  fold_left (fun acc a => match a_note a with [] => acc | n => n end) l [].
Definition dump_ann (l : list ann) : bytes :=
  B"{" ++ join [59%N] (map (fun m => fst m ++ [61%N] ++ dump_rval 50 (snd m)) (flat_map a_rules l)) ++ B"}<" ++ hexd (squeeze (last_note l) false) ++ B">".
Definition dump_key (k : skey) : bytes :=
  match k with SKStr t => [107%N] ++ hexd (decoded_utf8 t) | SKRef n => [115%N] ++ hexd n end.
Definition join_names (ns : list bytes) : bytes := join (B" | ") ns.
Fixpoint dump_node (fuel : nat) (n : snode) : bytes :=
  match fuel with
  | O => B"?"
  | S f =>
    match n with
    | SLit l a => B"L" ++ dump_scal l ++ dump_ann a
    | SRef ns a => B"R" ++ hexd (join_names ns) ++ dump_ann a
    | SArr a items => B"A" ++ dump_ann a ++ B"[" ++ join [44%N] (map (dump_node f) items) ++ B"]"
    | SObj a ms => B"O" ++ dump_ann a ++ B"{" ++ join [44%N] (map (fun m => dump_key (fst m) ++ [61%N] ++ dump_node f (snd m)) ms) ++ B"}"
    end
  end.
Definition run_stext (ts : list bytes) : bytes :=
  match ts with
  | [h] =>
    match unhex_dash h with
    | Some s => match sparse s with Some v => B"ok ast=" ++ dump_node 200 v | None => B"rej" end
    | None => bad_case
    end
  | _ => bad_case
  end.
