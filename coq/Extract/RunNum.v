(* Wire glue for the number model.  "num N <hex>" -> "ok <hex String()> <fraclen>" | "err <code>" | "panic <kind>"
   "num P <hexA> <hexB>" -> "cmp <c> <eq> <gt> <gte> <lt> <lte>" (both must scan) *)
From Coq Require Import String List ZArith NArith Bool.
From JS Require Import Base.Wire Base.Res Model.Number.
Import ListNotations.

Definition show_pkind (k : pkind) : bytes :=
  match k with
  | IndexOutOfRange => B"IndexOutOfRange" | MakesliceRange => B"MakesliceRange"
  | NegativeRepeat => B"NegativeRepeat" | NilDeref => B"NilDeref" | OutOfFuel => B"OutOfFuel"
  | OtherPanic => B"other"
  end.
Definition show_res {A} (f : A -> bytes) (r : res A) : bytes :=
  match r with
  | Ok a => f a
  | Err c => B"err " ++ show_N c
  | Panic k => B"panic " ++ show_pkind k
  end.

Definition run_num (ts : list bytes) : bytes :=
  match ts with
  | [k; h] =>
    match unhex h with
    | Some s => show_res (fun n => B"ok " ++ hex (to_string n) ++ [32%N] ++ show_Z (frac_len n)) (nscan s)
    | None => bad_case
    end
  | [k; ha; hb] =>
    match unhex ha, unhex hb with
    | Some a, Some b =>
      match nscan a, nscan b with
      | Ok x, Ok y =>
        B"cmp " ++ unwords [show_Z (ncmp x y); show_bool (n_equal x y); show_bool (n_gt x y);
                            show_bool (n_gte x y); show_bool (n_lt x y); show_bool (n_lte x y)]
      | _, _ => B"notboth"
      end
    | _, _ => bad_case
    end
  | _ => bad_case
  end.
