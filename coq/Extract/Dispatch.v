From Coq Require Import String List NArith.
From JS Require Import Base.Wire Extract.RunOMap Extract.RunNum Extract.RunGuess Extract.RunJson Extract.RunRegex Extract.RunDiag Extract.RunRec Extract.RunAllOf Extract.RunRefs Extract.RunEnum Extract.RunRules Extract.RunOast Extract.RunPlain Extract.RunSText.
Import ListNotations.

(* one case line -> one result line; the first token names the model *)
Definition dispatch (line : bytes) : bytes :=
  match words line with
  | cmd :: args =>
    if beqb cmd B"omap" then run_omap args
    else if beqb cmd B"sset" then run_sset args
    else if beqb cmd B"num" then run_num args
    else if beqb cmd B"guess" then run_guess args
    else if beqb cmd B"json" then run_json args
    else if beqb cmd B"regex" then run_regex args
    else if beqb cmd B"linecol" then run_linecol args
    else if beqb cmd B"rec" then run_rec args
    else if beqb cmd B"allof" then run_allof args
    else if beqb cmd B"refs" then run_refs args
    else if beqb cmd B"enum" then run_enum args
    else if beqb cmd B"rules" then run_rules args
    else if beqb cmd B"oasleaf" then run_oasleaf args
    else if beqb cmd B"oast" then run_oast args
    else if beqb cmd B"plain" then run_plain args
    else if beqb cmd B"jlen" then run_jlen args
    else if beqb cmd B"stext" then run_stext args
    else bad_case
  | [] => bad_case
  end.
