From Coq Require Import List Arith ZArith NArith Bool Lia.
From JS Require Import Base.Res Spec.LineColSpec Model.LineCol.
Import ListNotations.
Local Open Scope Z_scope.

Lemma lc_scan_spec nl p : forall l c,
  lc_scan nl p l c = (l + count nl p, if has nl p then Z.of_nat (length (after_last nl p)) else c + Z.of_nat (length p)).
Proof.
  induction p as [|x r IH]; intros l c; cbn [lc_scan count has after_last length].
  - f_equal; try lia.
  - destruct (N.eqb x nl) eqn:E; rewrite IH; cbn [orb]; destruct (has nl r); f_equal; cbn [length]; try rewrite Nat2Z.inj_succ; lia.
Qed.

Lemma after_last_nohas t p : has t p = false -> after_last t p = p.
Proof.
  induction p as [|x r IH]; [reflexivity|]. cbn [has after_last]. intros H. apply orb_false_iff in H.
  destruct H as [H1 H2]. rewrite H2, H1. reflexivity.
Qed.

Lemma line_col_general s i : (i < length s)%nat ->
  line_col s (Z.of_nat i) =
  (1 + count (nl_symbol s) (firstn i s), 1 + Z.of_nat (length (after_last (nl_symbol s) (firstn i s)))).
Proof.
  intros Hi. unfold line_col.
  destruct (Z.eqb_spec (Z.of_nat (length s)) 0); [lia|]. destruct (Z.leb_spec (Z.of_nat (length s)) (Z.of_nat i)); [lia|].
  destruct (Z.ltb_spec (Z.of_nat i) 0); [lia|]. cbn [orb]. rewrite Nat2Z.id, lc_scan_spec.
  destruct (has (nl_symbol s) (firstn i s)) eqn:Hh; [f_equal; lia|].
  rewrite (after_last_nohas _ _ Hh). f_equal; lia.
Qed.

(* which byte NewLineSymbol picks *)
Lemma has_false_in t l : has t l = false -> forall c, In c l -> c <> t.
Proof.
  induction l as [|x r IH]; intros H c Hc; [inversion Hc|]. cbn [has] in H. apply orb_false_iff in H. destruct H as [H1 H2].
  destruct Hc as [->|Hc]; [apply N.eqb_neq; exact H1|apply IH; assumption].
Qed.
Lemma is_nl_cases c : is_nl c = true -> c = 10%N \/ c = 13%N.
Proof. unfold is_nl. rewrite orb_true_iff, !N.eqb_eq. tauto. Qed.

Lemma nl_scan_const t l : (forall c, In c l -> is_nl c = true -> c = t) -> forall found, nl_scan found t l = t.
Proof.
  induction l as [|c r IH]; intros H found; [reflexivity|]. cbn [nl_scan].
  assert (Hr : forall x, In x r -> is_nl x = true -> x = t) by (intros x Hx; apply H; right; exact Hx).
  destruct (is_nl c) eqn:E.
  - rewrite (H c (or_introl eq_refl) E). apply IH. exact Hr.
  - destruct found; [reflexivity|apply IH; exact Hr].
Qed.
Lemma nl_scan_first_cr nl l : has 10%N l = false -> has 13%N l = true -> nl_scan false nl l = 13%N.
Proof.
  induction l as [|c r IH]; intros H10 H13; [discriminate|]. cbn [has] in *. apply orb_false_iff in H10. destruct H10 as [Hc Hr].
  cbn [nl_scan]. unfold is_nl. rewrite Hc. cbn [orb]. destruct (N.eqb_spec c 13) as [->|Hne].
  - apply nl_scan_const. intros x Hx Hnl. destruct (is_nl_cases x Hnl) as [-> | ->]; [|reflexivity].
    exfalso. exact (has_false_in _ _ Hr _ Hx eq_refl).
  - cbn [orb] in H13. apply IH; assumption.
Qed.

Lemma has_firstn t i s : has t (firstn i s) = true -> has t s = true.
Proof.
  revert i. induction s as [|c r IH]; intros [|i]; cbn; try discriminate. intros H. apply orb_true_iff in H.
  destruct H as [H|H]; [rewrite H; reflexivity|rewrite (IH i H), orb_true_r; reflexivity].
Qed.
Lemma has_firstn_false t i s : has t s = false -> has t (firstn i s) = false.
Proof. intros H. destruct (has t (firstn i s)) eqn:E; [|reflexivity]. apply has_firstn in E. congruence. Qed.
Lemma count_nohas t p : has t p = false -> count t p = 0.
Proof.
  induction p as [|x r IH]; [reflexivity|]. cbn [has count]. intros H. apply orb_false_iff in H.
  destruct H as [H1 H2]. rewrite H1, (IH H2). reflexivity.
Qed.

Theorem line_col_lf s i : uniform LF s = true -> (i < length s)%nat -> line_col s (Z.of_nat i) = spec_line_col LF s i.
Proof.
  unfold uniform. intros Hu Hi. apply negb_true_iff in Hu. rewrite (line_col_general s i Hi). unfold spec_line_col.
  assert (Hn : nl_symbol s = 10%N).
  { apply nl_scan_const. intros c Hc Hnl. destruct (is_nl_cases c Hnl) as [-> | ->]; [reflexivity|].
    exfalso. exact (has_false_in _ _ Hu _ Hc eq_refl). }
  rewrite Hn. reflexivity.
Qed.

Theorem line_col_cr s i : uniform CR s = true -> (i < length s)%nat -> line_col s (Z.of_nat i) = spec_line_col CR s i.
Proof.
  unfold uniform. intros Hu Hi. apply negb_true_iff in Hu. rewrite (line_col_general s i Hi). unfold spec_line_col.
  destruct (has 13%N s) eqn:H13.
  - rewrite (nl_scan_first_cr 10%N s Hu H13 : nl_symbol s = 13%N). reflexivity.
  - (* no newline byte at all: the symbol stays at its default, and both readings count nothing *)
    assert (Hn : nl_symbol s = 10%N).
    { apply nl_scan_const. intros c Hc Hnl. destruct (is_nl_cases c Hnl) as [-> | ->]; [reflexivity|].
      exfalso. exact (has_false_in _ _ H13 _ Hc eq_refl). }
    rewrite Hn.
    rewrite (count_nohas _ _ (has_firstn_false 10%N i s Hu)), (after_last_nohas _ _ (has_firstn_false 10%N i s Hu)).
    rewrite (count_nohas _ _ (has_firstn_false 13%N i s H13)), (after_last_nohas _ _ (has_firstn_false 13%N i s H13)).
    reflexivity.
Qed.

(* CR LF texts *)
Lemma pairs_agree l : forall prev, cr_before_lf prev l = true ->
  count 10%N l = count_pairs prev l /\ has 10%N l = has_pair prev l /\ after_last 10%N l = after_last_pair prev l.
Proof.
  induction l as [|c r IH]; intros prev H; [auto|]. cbn [cr_before_lf] in H. apply andb_true_iff in H. destruct H as [H1 H2].
  destruct (IH _ H2) as (Ic & Ih & Ia). cbn [count count_pairs has has_pair after_last after_last_pair].
  rewrite Ic, Ih, Ia. destruct (N.eqb c 10) eqn:E.
  - rewrite H1. cbn [andb]. auto.
  - rewrite andb_false_r. cbn [orb]. auto.
Qed.
Lemma cbl_firstn l : forall prev n, cr_before_lf prev l = true -> cr_before_lf prev (firstn n l) = true.
Proof.
  induction l as [|c r IH]; intros prev [|n] H; try reflexivity. cbn [firstn cr_before_lf] in *.
  apply andb_true_iff in H. destruct H as [H1 H2]. rewrite H1, (IH _ n H2). reflexivity.
Qed.
Lemma nl_symbol_crlf : forall n l found, (length l <= n)%nat -> cr_before_lf false l = true -> lf_after_cr l = true ->
  nl_scan found 10%N l = 10%N.
Proof.
  induction n as [|n IH]; intros l found Hl H1 H2.
  - destruct l; [reflexivity|cbn in Hl; lia].
  - destruct l as [|c r]; [reflexivity|]. cbn [nl_scan]. cbn [cr_before_lf lf_after_cr] in H1, H2.
    apply andb_true_iff in H1. destruct H1 as [H1a H1b]. apply andb_true_iff in H2. destruct H2 as [H2a H2b].
    destruct (N.eqb_spec c 10) as [->|Hc10]; [discriminate|].
    destruct (N.eqb_spec c 13) as [->|Hc13].
    + (* CR must be followed by LF *)
      destruct r as [|d r']; [discriminate|]. apply N.eqb_eq in H2a. subst d.
      cbn [is_nl N.eqb Pos.eqb orb nl_scan]. cbn [cr_before_lf N.eqb Pos.eqb andb] in H1b.
      cbn [lf_after_cr N.eqb Pos.eqb andb] in H2b. apply IH; [cbn in Hl; lia|assumption|assumption].
    + unfold is_nl. apply N.eqb_neq in Hc10, Hc13. rewrite Hc10, Hc13. cbn [orb].
      destruct found; [reflexivity|]. apply IH; [cbn in Hl; lia|assumption|assumption].
Qed.

Theorem line_col_crlf s i : uniform CRLF s = true -> (i < length s)%nat -> line_col s (Z.of_nat i) = spec_line_col CRLF s i.
Proof.
  unfold uniform. intros Hu Hi. apply andb_true_iff in Hu. destruct Hu as [H1 H2].
  rewrite (line_col_general s i Hi). unfold spec_line_col.
  rewrite (nl_symbol_crlf (length s) s false (le_n _) H1 H2 : nl_symbol s = 10%N).
  destruct (pairs_agree (firstn i s) false (cbl_firstn s false i H1)) as (Hc & _ & Ha). rewrite Hc, Ha. reflexivity.
Qed.

(* ---------- rendering ---------- *)
(* lineBeginning: at most the index, at least 0, for an index inside the text *)
Lemma lb_walk_bounds fuel : forall s nl index i, 0 <= i <= index -> index < Z.of_nat (length s) -> (Z.to_nat i < fuel)%nat ->
  exists b, lb_walk fuel s nl index i = Ok b /\ 0 <= b <= index.
Proof.
  induction fuel as [|f IH]; intros s nl index i Hi Hlen Hf; [lia|]. cbn [lb_walk]. unfold byte_at.
  destruct (Z.ltb_spec i 0); [lia|].
  destruct (nth_error s (Z.to_nat i)) as [c|] eqn:E; [|apply nth_error_None in E; lia].
  destruct (N.eqb c nl && negb (i =? index)) eqn:Hc.
  - apply andb_true_iff in Hc. destruct Hc as [_ Hne]. apply negb_true_iff in Hne. apply Z.eqb_neq in Hne.
    exists (i + 1). split; [reflexivity|lia].
  - destruct (Z.eqb_spec i 0); [exists 0; split; [reflexivity|lia]|]. apply IH; lia.
Qed.
Lemma line_begin_ok s index : 0 <= index < Z.of_nat (length s) -> exists b, line_begin s index = Ok b /\ 0 <= b <= index.
Proof.
  intros H. unfold line_begin. destruct (Z.leb_spec (Z.of_nat (length s)) index); [lia|].
  apply lb_walk_bounds; lia.
Qed.

(* the pointer line renders for every index inside the text *)
Theorem pointer_total s index : 0 <= index < Z.of_nat (length s) -> exists p, pointer s index = Ok p /\ In 94%N p.
Proof.
  intros Hi. unfold pointer. destruct (line_begin_ok s index Hi) as (b & Hb & Hbb). rewrite Hb. cbn [bind].
  destruct (Z.ltb_spec b 0); [lia|]. destruct (Z.ltb_spec (Z.of_nat (length s)) b); [lia|]. cbn [orb bind].
  eexists. split; [reflexivity|]. apply in_or_app. right. left. reflexivity.
Qed.
