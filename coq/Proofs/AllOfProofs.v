From Coq Require Import List NArith Bool Arith Lia.
From JS Require Import Base.Res Model.AllOf Spec.Inherit.
Import ListNotations.

Lemma memn_In t l : memn t l = true <-> In t l.
Proof.
  induction l as [|x r IH]; cbn; [split; [discriminate|tauto]|].
  rewrite orb_true_iff, IH, N.eqb_eq. tauto.
Qed.
Lemma memn_nIn t l : memn t l = false <-> ~ In t l.
Proof. rewrite <- memn_In. destruct (memn t l); split; try congruence; intros H; exfalso; apply H; reflexivity. Qed.

Lemma pkeys_app a b : pkeys (a ++ b) = pkeys a ++ pkeys b.
Proof. apply map_app. Qed.

(* AddChild of every inherited property succeeds exactly when the names are new and distinct *)
Lemma add_children_ok from cs : forall acc acc',
  add_children from cs acc = Ok acc' <->
  acc' = acc ++ map (relabel from) cs /\ NoDup (pkeys cs) /\ disjoint (pkeys cs) (pkeys acc).
Proof.
  induction cs as [|[[[k o] fr] v] r IH]; intros acc acc'; cbn [add_children map pkeys].
  - rewrite app_nil_r. split.
    + intros H; inversion H; subst. repeat split; [constructor|intros k []].
    + intros (-> & _ & _). reflexivity.
  - destruct (memn k (pkeys acc)) eqn:Em.
    + split; [discriminate|]. intros (_ & _ & Hd). apply memn_In in Em. exfalso. apply (Hd k); [left; reflexivity|exact Em].
    + apply memn_nIn in Em. rewrite IH. fold (pkeys r). cbn [relabel]. rewrite <- app_assoc. cbn [app fst]. split.
      * intros (-> & Hnd & Hd). split; [reflexivity|]. split.
        -- constructor; [|exact Hnd]. intros Hin. apply (Hd k Hin). rewrite pkeys_app, in_app_iff. right. left. reflexivity.
        -- intros x [<-|Hx]; [exact Em|]. intros Hin. apply (Hd x Hx). rewrite pkeys_app, in_app_iff. left. exact Hin.
      * intros (-> & Hnd & Hd). inversion Hnd as [|? ? Hk Hr]; subst. split; [reflexivity|]. split; [exact Hr|].
        intros x Hx. rewrite pkeys_app, in_app_iff. cbn. intros [Hin|[<-|[]]]; [apply (Hd x); [right; exact Hx|exact Hin]|exact (Hk Hx)].
Qed.

Lemma ap_join_ok ap cap r : ap_join ap cap = Ok r <-> ap_compat ap cap r.
Proof.
  unfold ap_join, ap_compat. destruct (N.eqb_spec cap 0) as [->|Hc].
  - split; [intros H; inversion H; auto|]. intros [[_ ->]|[(H & _)|(H & _)]]; [reflexivity|congruence|congruence].
  - destruct (N.eqb_spec ap 0) as [->|Ha].
    + split; [intros H; inversion H; subst; right; left; auto|]. intros [[H _]|[(_ & _ & ->)|(_ & H & ->)]]; [congruence|reflexivity|congruence].
    + destruct (N.eqb_spec ap cap) as [->|Hac].
      * split; [intros H; inversion H; subst; right; right; auto|]. intros [[H _]|[(_ & H & _)|(_ & _ & ->)]]; [congruence|congruence|reflexivity].
      * split; [discriminate|]. intros [[H _]|[(_ & H & _)|(_ & H & _)]]; congruence.
Qed.

Section Proofs.
  Variable defs : tdefs.

  (* ---- soundness: whatever the compiler accepts is the merge ---- *)
  Lemma each_sound (rec : list tname -> tnode -> res tnode) :
    (forall st n r, rec st n = Ok r -> Merged defs st n r) ->
    forall st names acc ap all ap', each defs rec st names acc ap = Ok (all, ap') -> Ext defs st names acc ap all ap'.
  Proof.
    intros Hrec st names. induction names as [|name r IH]; intros acc ap all ap' H; cbn [each] in H.
    - inversion H; subst. constructor.
    - destruct (memn name st) eqn:Em; [discriminate|]. apply memn_nIn in Em.
      destruct (tlookup name defs) as [t|] eqn:El; [|discriminate].
      destruct (rec (name :: st) t) as [ct| |] eqn:Er; cbn [bind] in H; try discriminate.
      destruct ct as [|cprops cal cap]; [discriminate|].
      destruct (ap_join ap cap) as [ap1| |] eqn:Ea; cbn [bind] in H; try discriminate.
      destruct (add_children name cprops acc) as [acc1| |] eqn:Ec; cbn [bind] in H; try discriminate.
      apply ap_join_ok in Ea. apply add_children_ok in Ec. destruct Ec as (-> & Hnd & Hd).
      econstructor; eauto.
  Qed.
  Lemma kids_sound (rec : tnode -> res tnode) st :
    (forall n r, rec n = Ok r -> Merged defs st n r) ->
    forall ps ps', kids rec ps = Ok ps' -> Kids defs st ps ps'.
  Proof.
    intros Hrec ps. induction ps as [|[[[k o] fr] v] r IH]; intros ps' H; cbn [kids] in H.
    - inversion H. constructor.
    - destruct (rec v) as [v'| |] eqn:Ev; cbn [bind] in H; try discriminate.
      destruct (kids rec r) as [r'| |] eqn:Ek; cbn [bind] in H; try discriminate. inversion H; subst.
      constructor; auto.
  Qed.
  Theorem cnode_sound : forall fuel st n r, cnode defs fuel st n = Ok r -> Merged defs st n r.
  Proof.
    induction fuel as [|f IH]; intros st n r H; cbn [cnode] in H; [discriminate|].
    destruct n as [|props allof ap]; [inversion H; constructor|].
    destruct (each defs (cnode defs f) st allof props ap) as [[all ap']| |] eqn:Ee; cbn [bind fst snd] in H; try discriminate.
    destruct (kids (cnode defs f st) all) as [props'| |] eqn:Ek; cbn [bind] in H; try discriminate. inversion H; subst.
    econstructor; [apply (each_sound (cnode defs f)); [exact IH|exact Ee]|apply (kids_sound (cnode defs f st) st); [intros n0 r0 H0; apply (IH st); exact H0|exact Ek]].
  Qed.

  (* ---- completeness: every merge is accepted, with any sufficiently large fuel ---- *)
  Theorem merged_complete :
    (forall st n r, Merged defs st n r -> exists f0, forall f, f0 <= f -> cnode defs f st n = Ok r) /\
    (forall st names acc ap all ap', Ext defs st names acc ap all ap' ->
       exists f0, forall f, f0 <= f -> each defs (cnode defs f) st names acc ap = Ok (all, ap')) /\
    (forall st ps ps', Kids defs st ps ps' -> exists f0, forall f, f0 <= f -> kids (cnode defs f st) ps = Ok ps').
  Proof.
    apply merged_mutind.
    - intros st. exists 1. intros f Hf. destruct f; [lia|reflexivity].
    - intros st props allof ap all ap' props' _ [f1 H1] _ [f2 H2]. exists (S (max f1 f2)). intros f Hf.
      destruct f as [|f]; [lia|]. cbn [cnode]. rewrite H1 by lia. cbn [bind fst snd]. rewrite H2 by lia. reflexivity.
    - intros st acc ap. exists 0. reflexivity.
    - intros st name r acc ap t cprops cal cap ap1 all ap' Hn Hl _ [f1 H1] Ha Hnd Hd _ [f2 H2].
      exists (max f1 f2). intros f Hf. cbn [each]. apply memn_nIn in Hn. rewrite Hn, Hl, H1 by lia. cbn [bind].
      apply ap_join_ok in Ha. rewrite Ha. cbn [bind].
      assert (Hc : add_children name cprops acc = Ok (acc ++ map (relabel name) cprops)) by (apply add_children_ok; auto).
      rewrite Hc. cbn [bind]. apply H2. lia.
    - intros st. exists 0. reflexivity.
    - intros st k o fr v v' r r' _ [f1 H1] _ [f2 H2]. exists (max f1 f2). intros f Hf. cbn [kids].
      rewrite H1 by lia. cbn [bind]. rewrite H2 by lia. reflexivity.
  Qed.

  (* ---- more fuel never changes an answer ---- *)
  Definition settled {A} (r : res A) : Prop := match r with Panic _ => False | _ => True end.
  Lemma each_mono (rec1 rec2 : list tname -> tnode -> res tnode) :
    (forall st n, settled (rec1 st n) -> rec2 st n = rec1 st n) ->
    forall st names acc ap, settled (each defs rec1 st names acc ap) -> each defs rec2 st names acc ap = each defs rec1 st names acc ap.
  Proof.
    intros Hrec st names. induction names as [|name r IH]; intros acc ap H; cbn [each] in *; [reflexivity|].
    destruct (memn name st); [reflexivity|]. destruct (tlookup name defs) as [t|]; [|reflexivity].
    destruct (rec1 (name :: st) t) as [ct| |] eqn:Er; cbn [bind] in H.
    - rewrite (Hrec (name :: st) t) by (rewrite Er; exact I). rewrite Er. cbn [bind]. destruct ct as [|cprops cal cap]; [reflexivity|].
      destruct (ap_join ap cap); cbn [bind] in *; [|reflexivity|reflexivity].
      destruct (add_children name cprops acc); cbn [bind] in *; [|reflexivity|reflexivity]. apply IH. exact H.
    - rewrite (Hrec (name :: st) t) by (rewrite Er; exact I). rewrite Er. reflexivity.
    - destruct H.
  Qed.
  Lemma kids_mono (rec1 rec2 : tnode -> res tnode) :
    (forall n, settled (rec1 n) -> rec2 n = rec1 n) ->
    forall ps, settled (kids rec1 ps) -> kids rec2 ps = kids rec1 ps.
  Proof.
    intros Hrec ps. induction ps as [|[[[k o] fr] v] r IH]; intros H; cbn [kids] in *; [reflexivity|].
    destruct (rec1 v) as [v'| |] eqn:Ev; cbn [bind] in H.
    - rewrite (Hrec v) by (rewrite Ev; exact I). rewrite Ev. cbn [bind].
      destruct (kids rec1 r) as [r'| |] eqn:Ek; cbn [bind] in H.
      + rewrite IH by exact I. reflexivity.
      + rewrite IH by exact I. reflexivity.
      + destruct H.
    - rewrite (Hrec v) by (rewrite Ev; exact I). rewrite Ev. reflexivity.
    - destruct H.
  Qed.
  Lemma cnode_mono_S : forall f st n, settled (cnode defs f st n) -> cnode defs (S f) st n = cnode defs f st n.
  Proof.
    induction f as [|f IH]; intros st n H; [destruct H|].
    cbn [cnode] in H. change (cnode defs (S (S f)) st n) with
      (match n with TLeaf => Ok TLeaf | TObj props allof ap =>
         do ext <- each defs (cnode defs (S f)) st allof props ap; do props' <- kids (cnode defs (S f) st) (fst ext); Ok (TObj props' [] (snd ext)) end).
    cbn [cnode]. destruct n as [|props allof ap]; [reflexivity|].
    destruct (each defs (cnode defs f) st allof props ap) as [ext| |] eqn:Ee; cbn [bind] in H.
    - rewrite (each_mono (cnode defs f) (cnode defs (S f))) by (try (intros; apply IH; assumption); rewrite Ee; exact I).
      rewrite Ee. cbn [bind]. destruct (kids (cnode defs f st) (fst ext)) as [ps| |] eqn:Ek; cbn [bind] in H.
      + rewrite (kids_mono (cnode defs f st) (cnode defs (S f) st)) by (try (intros; apply IH; assumption); rewrite Ek; exact I). rewrite Ek. reflexivity.
      + rewrite (kids_mono (cnode defs f st) (cnode defs (S f) st)) by (try (intros; apply IH; assumption); rewrite Ek; exact I). rewrite Ek. reflexivity.
      + destruct H.
    - rewrite (each_mono (cnode defs f) (cnode defs (S f))) by (try (intros; apply IH; assumption); rewrite Ee; exact I). rewrite Ee. reflexivity.
    - destruct H.
  Qed.
  Lemma cnode_mono f st n : settled (cnode defs f st n) -> forall f', f <= f' -> cnode defs f' st n = cnode defs f st n.
  Proof.
    intros H f' Hle. induction Hle as [|m Hle IH]; [reflexivity|]. rewrite cnode_mono_S; [exact IH|rewrite IH; exact H].
  Qed.

  (* ---- a refusal means there is no merge: one of the conditions of the specification fails somewhere ---- *)
  Theorem refusal_means_no_merge f st n c : cnode defs f st n = Err c -> forall r, ~ Merged defs st n r.
  Proof.
    intros He r Hm. destruct (proj1 merged_complete st n r Hm) as [f0 H0].
    pose proof (cnode_mono f st n ltac:(rewrite He; exact I) (max f f0) ltac:(lia)) as H1.
    rewrite (H0 (max f f0)) in H1 by lia. congruence.
  Qed.
  (* the answer is unique *)
  Theorem merge_unique st n r1 r2 : Merged defs st n r1 -> Merged defs st n r2 -> r1 = r2.
  Proof.
    intros H1 H2. destruct (proj1 merged_complete _ _ _ H1) as [f1 E1]. destruct (proj1 merged_complete _ _ _ H2) as [f2 E2].
    specialize (E1 (max f1 f2) ltac:(lia)). specialize (E2 (max f1 f2) ltac:(lia)). congruence.
  Qed.
End Proofs.

(* ---- what a merge looks like: own properties first, then those of each named type, in the order of the rule,
        marked with the type they came from, optionality kept; all names distinct ---- *)
Definition sig (p : prop) : key * bool * tname := fst p.
Definition props_of (n : tnode) : list prop := match n with TObj ps _ _ => ps | TLeaf => [] end.
Definition inherited (names : list tname) (cts : list tnode) : list (key * bool * tname) :=
  flat_map (fun nc => map (fun p => (fst (fst (sig p)), snd (fst (sig p)), fst nc)) (props_of (snd nc))) (combine names cts).

Section Shape.
  Variable defs : tdefs.
  Definition parent st (name : tname) (ct : tnode) : Prop :=
    ~ In name st /\ exists t cprops cap, tlookup name defs = Some t /\ ct = TObj cprops [] cap /\ Merged defs (name :: st) t ct.

  Lemma merged_obj_shape st t cprops cal cap : Merged defs st t (TObj cprops cal cap) -> cal = [].
  Proof. intros H. inversion H; reflexivity. Qed.

  Lemma sig_relabel name ps : map sig (map (relabel name) ps) = map (fun p => (fst (fst (sig p)), snd (fst (sig p)), name)) ps.
  Proof. induction ps as [|[[[k o] fr] v] r IH]; cbn; [reflexivity|]. f_equal. exact IH. Qed.

  Lemma ext_shape st names acc ap all ap' : Ext defs st names acc ap all ap' ->
    exists cts, Forall2 (parent st) names cts /\ map sig all = map sig acc ++ inherited names cts.
  Proof.
    intros H. induction H as [st acc ap|st name r acc ap t cprops cal cap ap1 all ap' Hn Hl Hm Ha Hnd Hd _ IH].
    - exists []. split; [constructor|]. cbn. rewrite app_nil_r. reflexivity.
    - destruct IH as (cts & Hf & He). pose proof (merged_obj_shape _ _ _ _ _ Hm) as ->. exists (TObj cprops [] cap :: cts). split.
      + constructor; [|exact Hf]. split; [exact Hn|]. exists t, cprops, cap. auto.
      + rewrite He, map_app, sig_relabel, <- app_assoc. reflexivity.
  Qed.
  Lemma kids_shape st ps ps' : Kids defs st ps ps' -> map sig ps' = map sig ps.
  Proof. intros H. induction H as [|st k o fr v v' r r' _ _ IH]; cbn; [reflexivity|]. f_equal. exact IH. Qed.

  Lemma ext_nodup st names acc ap all ap' : Ext defs st names acc ap all ap' -> NoDup (pkeys acc) -> NoDup (pkeys all).
  Proof.
    intros H. induction H as [|st name r acc ap t cprops cal cap ap1 all ap' Hn Hl Hm Ha Hnd Hd _ IH]; intros Hacc; [exact Hacc|].
    apply IH. rewrite pkeys_app. assert (Hk : pkeys (map (relabel name) cprops) = pkeys cprops).
    { unfold pkeys. rewrite map_map. apply map_ext. intros [[[k o] fr] v]. reflexivity. }
    rewrite Hk. clear IH. induction (pkeys acc) as [|a l IHl]; cbn; [exact Hnd|]. inversion Hacc as [|? ? Ha' Hl']; subst.
    constructor.
    - rewrite in_app_iff. intros [Hin|Hin]; [exact (Ha' Hin)|]. apply (Hd a Hin). left. reflexivity.
    - apply IHl; [|exact Hl']. intros k Hk' Hin. apply (Hd k Hk'). right. exact Hin.
  Qed.
  Lemma pkeys_sig a b : map sig a = map sig b -> pkeys a = pkeys b.
  Proof.
    intros H. unfold pkeys. assert (E : forall l, map (fun p : prop => fst (fst (fst p))) l = map (fun s => fst (fst s)) (map sig l)).
    { intros l. rewrite map_map. reflexivity. } rewrite !E, H. reflexivity.
  Qed.

  Theorem merged_shape st props allof ap r : Merged defs st (TObj props allof ap) r ->
    exists props' ap' cts, r = TObj props' [] ap' /\ Forall2 (parent st) allof cts /\
      map sig props' = map sig props ++ inherited allof cts /\
      (NoDup (pkeys props) -> NoDup (pkeys props')).
  Proof.
    intros H. inversion H as [|st0 props0 allof0 ap0 all ap' props' He Hk]; subst.
    destruct (ext_shape _ _ _ _ _ _ He) as (cts & Hf & Hs). exists props', ap', cts. split; [reflexivity|]. split; [exact Hf|].
    pose proof (kids_shape _ _ _ Hk) as Hks. split; [rewrite Hks; exact Hs|].
    intros Hnd. rewrite (pkeys_sig _ _ Hks). eapply ext_nodup; eauto.
  Qed.

  (* the whole compilation: the root and every registered type *)
  Lemma each_type_ok f names : each_type defs f names = Ok tt ->
    forall t, In t names -> exists n r, tlookup t defs = Some n /\ Merged defs [t] n r.
  Proof.
    induction names as [|x r IH]; intros H t Ht; [destruct Ht|]. cbn [each_type] in H.
    destruct (tlookup x defs) as [n|] eqn:El; [|discriminate].
    destruct (cnode defs f [x] n) as [rn| |] eqn:Ec; cbn [bind] in H; try discriminate.
    destruct Ht as [<-|Ht]; [exists n, rn; split; [exact El|eapply cnode_sound; exact Ec]|auto].
  Qed.
  Lemma each_type_err f names c : each_type defs f names = Err c ->
    exists t, In t names /\ (tlookup t defs = None \/ exists n, tlookup t defs = Some n /\ forall r, ~ Merged defs [t] n r).
  Proof.
    induction names as [|x r IH]; intros H; [discriminate|]. cbn [each_type] in H.
    destruct (tlookup x defs) as [n|] eqn:El; [|exists x; split; [left; reflexivity|left; exact El]].
    destruct (cnode defs f [x] n) as [rn| |] eqn:Ec; cbn [bind] in H; try discriminate.
    - destruct (IH H) as (t & Ht & Hx). exists t. split; [right; exact Ht|exact Hx].
    - exists x. split; [left; reflexivity|]. right. exists n. split; [exact El|]. eapply refusal_means_no_merge; exact Ec.
  Qed.
  Theorem compile_accepts f root names r : compile_allof defs f root names = Ok r ->
    Merged defs [] root r /\ forall t, In t names -> exists n r', tlookup t defs = Some n /\ Merged defs [t] n r'.
  Proof.
    unfold compile_allof. intros H. destruct (cnode defs f [] root) as [rr| |] eqn:Ec; cbn [bind] in H; try discriminate.
    destruct (each_type defs f names) as [[]| |] eqn:Ee; cbn [bind] in H; try discriminate. inversion H; subst.
    split; [eapply cnode_sound; exact Ec|eapply each_type_ok; exact Ee].
  Qed.
  Theorem compile_refuses f root names c : compile_allof defs f root names = Err c ->
    (forall r, ~ Merged defs [] root r) \/
    exists t, In t names /\ (tlookup t defs = None \/ exists n, tlookup t defs = Some n /\ forall r, ~ Merged defs [t] n r).
  Proof.
    unfold compile_allof. intros H. destruct (cnode defs f [] root) as [rr| |] eqn:Ec; cbn [bind] in H; try discriminate.
    - destruct (each_type defs f names) as [[]| |] eqn:Ee; cbn [bind] in H; try discriminate. right. eapply each_type_err. exact Ee.
    - left. eapply refusal_means_no_merge. exact Ec.
  Qed.
End Shape.

(* ---- each of the five defects rules out a merge (so, by completeness's converse, the compiler refuses) ---- *)
Section Defects.
  Variable defs : tdefs.
  Lemma ext_in st names acc ap all ap' name : Ext defs st names acc ap all ap' -> In name names ->
    ~ In name st /\ exists t cprops cap, tlookup name defs = Some t /\ Merged defs (name :: st) t (TObj cprops [] cap).
  Proof.
    intros H. induction H as [|st n r acc ap t cprops cal cap ap1 all ap' Hn Hl Hm Ha Hnd Hd _ IH]; intros Hin; [destruct Hin|].
    destruct Hin as [<-|Hin]; [|auto]. split; [exact Hn|]. pose proof (merged_obj_shape _ _ _ _ _ _ Hm) as ->. eauto.
  Qed.
  Theorem no_merge_cyclic st props allof ap name r : In name allof -> In name st -> ~ Merged defs st (TObj props allof ap) r.
  Proof. intros Hin Hst H. inversion H; subst. match goal with He : Ext _ _ _ _ _ _ _ |- _ => destruct (ext_in _ _ _ _ _ _ name He Hin) as [Hn _] end. auto. Qed.
  Theorem no_merge_missing st props allof ap name r : In name allof -> tlookup name defs = None -> ~ Merged defs st (TObj props allof ap) r.
  Proof. intros Hin Hl H. inversion H; subst. match goal with He : Ext _ _ _ _ _ _ _ |- _ => destruct (ext_in _ _ _ _ _ _ name He Hin) as [_ (t & ? & ? & Ht & _)] end. congruence. Qed.
  Theorem no_merge_non_object st props allof ap name r : In name allof -> tlookup name defs = Some TLeaf -> ~ Merged defs st (TObj props allof ap) r.
  Proof.
    intros Hin Hl H. inversion H; subst.
    match goal with He : Ext _ _ _ _ _ _ _ |- _ => destruct (ext_in _ _ _ _ _ _ name He Hin) as [_ (t & ? & ? & Ht & Hm)] end.
    rewrite Hl in Ht. inversion Ht; subst. inversion Hm.
  Qed.
  (* a property name of the first named type that the heir already has; conflicting rules of heir and first named type *)
  Theorem no_merge_duplicate st props name rest ap r t cprops cap k :
    tlookup name defs = Some t -> Merged defs (name :: st) t (TObj cprops [] cap) ->
    In k (pkeys cprops) -> In k (pkeys props) -> ~ Merged defs st (TObj props (name :: rest) ap) r.
  Proof.
    intros Hl Hm Hk1 Hk2 H. inversion H; subst. match goal with He : Ext _ _ _ _ _ _ _ |- _ => inversion He; subst end.
    match goal with Hl2 : tlookup name defs = Some _ |- _ => rewrite Hl in Hl2; inversion Hl2; subst end.
    match goal with Hm2 : Merged _ (name :: st) _ (TObj ?c _ ?a) |- _ => pose proof (merge_unique _ _ _ _ _ Hm Hm2) as E; inversion E; subst end.
    match goal with Hd : disjoint _ _ |- _ => exact (Hd k Hk1 Hk2) end.
  Qed.
  Theorem no_merge_ap_conflict st props name rest ap r t cprops cap :
    tlookup name defs = Some t -> Merged defs (name :: st) t (TObj cprops [] cap) ->
    ap <> 0%N -> cap <> 0%N -> ap <> cap -> ~ Merged defs st (TObj props (name :: rest) ap) r.
  Proof.
    intros Hl Hm Ha Hc Hne H. inversion H; subst. match goal with He : Ext _ _ _ _ _ _ _ |- _ => inversion He; subst end.
    match goal with Hl2 : tlookup name defs = Some _ |- _ => rewrite Hl in Hl2; inversion Hl2; subst end.
    match goal with Hm2 : Merged _ (name :: st) _ (TObj ?c _ ?a) |- _ => pose proof (merge_unique _ _ _ _ _ Hm Hm2) as E; inversion E; subst end.
    match goal with Hc2 : ap_compat _ _ _ |- _ => destruct Hc2 as [[? ?]|[(? & ? & ?)|(? & ? & ?)]]; congruence end.
  Qed.
End Defects.
