(* The allOf compiler model terminates: for every set of definitions, every stack and every node there is a fuel with
   which it answers (a compiled node or a refusal); more fuel does not change the answer (AllOfProofs.cnode_mono). *)
From Coq Require Import List NArith Bool Arith Lia.
From JS Require Import Base.Res Model.AllOf Spec.Inherit Proofs.AllOfProofs.
Import ListNotations.

(* induction over nodes (nested property lists) *)
Section TInd.
  Variable P : tnode -> Prop.
  Hypothesis HL : P TLeaf.
  Hypothesis HO : forall props allof ap, Forall (fun p : prop => P (snd p)) props -> P (TObj props allof ap).
  Fixpoint tnode_ind' (n : tnode) : P n :=
    match n with
    | TLeaf => HL
    | TObj props allof ap =>
      HO props allof ap ((fix go (l : list prop) : Forall (fun p : prop => P (snd p)) l :=
                            match l with [] => Forall_nil _ | p :: r => Forall_cons _ (tnode_ind' (snd p)) (go r) end) props)
    end.
End TInd.

(* nodes without any allOf left *)
Inductive Flat : tnode -> Prop :=
| F_leaf : Flat TLeaf
| F_obj props ap : Forall (fun p : prop => Flat (snd p)) props -> Flat (TObj props [] ap).

Section Term.
  Variable defs : tdefs.
  Definition T (st : list tname) (n : tnode) : Prop := exists f, settled (cnode defs f st n).

  Lemma kids_ok_forall (rec : tnode -> res tnode) (P : tnode -> Prop) : (forall v v', rec v = Ok v' -> P v') ->
    forall ps ps', kids rec ps = Ok ps' -> Forall (fun p : prop => P (snd p)) ps'.
  Proof.
    intros Hrec ps. induction ps as [|[[[k o] fr] v] r IH]; intros ps' H; cbn [kids] in H; [inversion H; constructor|].
    destruct (rec v) as [v'| |] eqn:Ev; cbn [bind] in H; try discriminate.
    destruct (kids rec r) as [r'| |] eqn:Ek; cbn [bind] in H; try discriminate. inversion H; subst.
    constructor; [cbn [snd]; eapply Hrec; exact Ev|apply IH; reflexivity].
  Qed.
  Lemma result_flat : forall f st n r, cnode defs f st n = Ok r -> Flat r.
  Proof.
    induction f as [|f IH]; intros st n r H; cbn [cnode] in H; [discriminate|]. destruct n as [|props allof ap]; [inversion H; constructor|].
    destruct (each defs (cnode defs f) st allof props ap) as [ext| |]; cbn [bind] in H; try discriminate.
    destruct (kids (cnode defs f st) (fst ext)) as [ps| |] eqn:Ek; cbn [bind] in H; try discriminate. inversion H; subst.
    constructor. eapply kids_ok_forall; [|exact Ek]. intros v v' Hv. eapply IH; exact Hv.
  Qed.

  (* a flat node is its own compilation *)
  Lemma kids_id (rec : tnode -> res tnode) ps : Forall (fun p : prop => rec (snd p) = Ok (snd p)) ps -> kids rec ps = Ok ps.
  Proof.
    induction 1 as [|[[[k o] fr] v] r Hv _ IH]; cbn [kids]; [reflexivity|]. cbn [snd] in Hv. rewrite Hv. cbn [bind]. rewrite IH. reflexivity.
  Qed.
  Lemma flat_fix : forall n, Flat n -> forall st, exists f0, forall f, f0 <= f -> cnode defs f st n = Ok n.
  Proof.
    induction n as [|props allof ap IH] using tnode_ind'; intros Hf st.
    - exists 1. intros f Hle. destruct f; [lia|reflexivity].
    - inversion Hf as [|props0 ap0 Hps]; subst.
      assert (Hall : exists f0, forall f, f0 <= f -> Forall (fun p : prop => cnode defs f st (snd p) = Ok (snd p)) props).
      { clear Hf. induction props as [|p r IHr]; [exists 0; intros; constructor|].
        inversion IH as [|? ? Hp Hr]; subst. inversion Hps as [|? ? Fp Fr]; subst.
        destruct (Hp Fp st) as [f1 H1]. destruct (IHr Hr Fr) as [f2 H2]. exists (max f1 f2). intros f Hle.
        constructor; [apply H1; lia|apply H2; lia]. }
      destruct Hall as [f0 H0]. exists (S f0). intros f Hle. destruct f as [|f]; [lia|]. cbn [cnode each bind fst snd].
      rewrite (kids_id (cnode defs f st) props (H0 f ltac:(lia))). reflexivity.
  Qed.
  Lemma flat_T n st : Flat n -> T st n.
  Proof. intros H. destruct (flat_fix n H st) as [f0 H0]. exists f0. rewrite (H0 f0 (le_n _)). exact I. Qed.

  (* fuel can always be raised to a common value *)
  Lemma cnode_at f st n : settled (cnode defs f st n) -> forall f', f <= f' -> cnode defs f' st n = cnode defs f st n /\ settled (cnode defs f' st n).
  Proof. intros H f' Hle. pose proof (cnode_mono defs f st n H f' Hle) as E. split; [exact E|rewrite E; exact H]. Qed.

  (* the children *)
  Lemma kids_term st ps : Forall (fun p : prop => T st (snd p)) ps -> exists f, settled (kids (cnode defs f st) ps).
  Proof.
    induction 1 as [|[[[k o] fr] v] r [f1 H1] _ [f2 H2]]; [exists 0; exact I|]. cbn [snd] in H1.
    exists (max f1 f2). cbn [kids].
    destruct (cnode_at f1 st v H1 (max f1 f2) ltac:(lia)) as [E1 S1]. rewrite E1.
    destruct (cnode defs f1 st v) as [v'| |]; cbn [bind]; [|exact I|destruct H1].
    rewrite (kids_mono (cnode defs f2 st) (cnode defs (max f1 f2) st)) by (try (intros n Hn; apply (cnode_mono defs f2 st n Hn); lia); exact H2).
    destruct (kids (cnode defs f2 st) r); cbn [bind]; [exact I|exact I|destruct H2].
  Qed.

  Lemma ap_join_settled ap cap : settled (ap_join ap cap).
  Proof. unfold ap_join. destruct (N.eqb cap 0); [exact I|]. destruct (N.eqb ap 0); [exact I|]. destruct (N.eqb ap cap); exact I. Qed.
  Lemma add_children_settled name cs : forall acc, settled (add_children name cs acc).
  Proof. induction cs as [|[[[k o] fr] v] r IH]; intros acc; cbn [add_children]; [exact I|]. destruct (memn k (pkeys acc)); [exact I|apply IH]. Qed.

  (* extend: given that every named type that may be entered terminates *)
  Lemma each_term st : (forall name t, tlookup name defs = Some t -> ~ In name st -> T (name :: st) t) ->
    forall names acc ap, Forall (fun p : prop => T st (snd p)) acc ->
    exists f, settled (each defs (cnode defs f) st names acc ap) /\
              forall all ap', each defs (cnode defs f) st names acc ap = Ok (all, ap') -> Forall (fun p : prop => T st (snd p)) all.
  Proof.
    intros Hrec names. induction names as [|name r IH]; intros acc ap Hacc.
    - exists 0. cbn [each]. split; [exact I|]. intros all ap' H. inversion H; subst. exact Hacc.
    - cbn [each]. destruct (memn name st) eqn:Em; [exists 0; split; [exact I|discriminate]|]. apply memn_nIn in Em.
      destruct (tlookup name defs) as [t|] eqn:El; [|exists 0; split; [exact I|discriminate]].
      destruct (Hrec name t El Em) as [f1 H1].
      destruct (cnode defs f1 (name :: st) t) as [ct| |] eqn:Ec; [|exists f1; rewrite Ec; split; [exact I|discriminate]|destruct H1].
      destruct ct as [|cprops cal cap]; [exists f1; rewrite Ec; split; [exact I|discriminate]|].
      pose proof (ap_join_settled ap cap) as Sa.
      destruct (ap_join ap cap) as [ap1| |] eqn:Ea; [|exists f1; rewrite Ec; cbn [bind]; rewrite Ea; split; [exact I|discriminate]|destruct Sa].
      pose proof (add_children_settled name cprops acc) as Sd.
      destruct (add_children name cprops acc) as [acc1| |] eqn:Ead;
        [|exists f1; rewrite Ec; cbn [bind]; rewrite Ea; cbn [bind]; rewrite Ead; split; [exact I|discriminate]|destruct Sd].
      assert (Hacc1 : Forall (fun p : prop => T st (snd p)) acc1).
      { apply add_children_ok in Ead. destruct Ead as (-> & _ & _). apply Forall_app. split; [exact Hacc|].
        pose proof (result_flat f1 (name :: st) t _ Ec) as Hfl. inversion Hfl as [|? ? Hps]; subst.
        clear -Hps. induction Hps as [|[[[k o] fr] v] ps Hv _ IHp]; cbn [map]; constructor; [cbn [relabel snd] in *; apply flat_T; exact Hv|exact IHp]. }
      destruct (IH acc1 ap1 Hacc1) as (f2 & S2 & R2).
      exists (max f1 f2).
      assert (E1 : cnode defs (max f1 f2) (name :: st) t = Ok (TObj cprops cal cap)).
      { rewrite <- Ec. apply (cnode_mono defs f1 (name :: st) t); [rewrite Ec; exact I|lia]. }
      assert (E2 : each defs (cnode defs (max f1 f2)) st r acc1 ap1 = each defs (cnode defs f2) st r acc1 ap1).
      { apply each_mono; [|exact S2]. intros st' n' Hn. apply (cnode_mono defs f2 st' n' Hn). lia. }
      rewrite E1. cbn [bind]. rewrite Ea. cbn [bind]. rewrite Ead. cbn [bind]. rewrite E2. split; [exact S2|exact R2].
  Qed.

  (* the number of defined names not on the stack *)
  Definition free (st : list tname) : nat := length (filter (fun x => negb (memn x st)) (nodup N.eq_dec (map fst defs))).
  Lemma tlookup_in name t : tlookup name defs = Some t -> In name (map fst defs).
  Proof.
    induction defs as [|[n x] r IH]; cbn [tlookup map fst]; [discriminate|]. destruct (N.eqb_spec n name) as [->|]; [intros _; left; reflexivity|intros H; right; exact (IH H)].
  Qed.
  Lemma filter_drop (l : list tname) (st : list tname) name : NoDup l -> In name l -> ~ In name st ->
    length (filter (fun x => negb (memn x (name :: st))) l) < length (filter (fun x => negb (memn x st)) l).
  Proof.
    intros Hnd Hin Hst. induction l as [|x l IH]; [destruct Hin|]. inversion Hnd as [|? ? Hx Hl]; subst. cbn [filter memn].
    destruct Hin as [->|Hin].
    - rewrite N.eqb_refl. cbn [orb negb]. apply memn_nIn in Hst. rewrite Hst. cbn [negb length].
      assert (Hle : length (filter (fun x => negb (N.eqb name x || memn x st)) l) <= length (filter (fun x => negb (memn x st)) l)).
      { clear. induction l as [|y l IH]; [cbn; lia|]. cbn [filter]. destruct (N.eqb name y); cbn [orb negb]; destruct (memn y st); cbn [negb length]; lia. }
      lia.
    - specialize (IH Hl Hin). cbn [memn] in IH. destruct (N.eqb_spec name x) as [->|Hne]; [exfalso; exact (Hx Hin)|]. cbn [orb].
      destruct (memn x st); cbn [negb length]; lia.
  Qed.
  Lemma free_push name t st : tlookup name defs = Some t -> ~ In name st -> free (name :: st) < free st.
  Proof.
    intros Hl Hn. unfold free. apply filter_drop; [apply NoDup_nodup|apply nodup_In; eapply tlookup_in; exact Hl|exact Hn].
  Qed.

  Theorem cnode_terminates : forall k st, free st <= k -> forall n, T st n.
  Proof.
    induction k as [|k IHk]; intros st Hk n.
    - (* no definition can be entered any more *)
      induction n as [|props allof ap IH] using tnode_ind'; [exists 1; exact I|].
      destruct (each_term st ltac:(intros name t Hl Hn; pose proof (free_push name t st Hl Hn); lia) allof props ap IH) as (fA & SA & RA).
      destruct (each defs (cnode defs fA) st allof props ap) as [[all ap']| |] eqn:Ee; [|exists (S fA); cbn [cnode]; rewrite Ee; exact I|destruct SA].
      destruct (kids_term st all (RA all ap' eq_refl)) as [fB SB].
      exists (S (max fA fB)). cbn [cnode].
      rewrite (each_mono defs (cnode defs fA) (cnode defs (max fA fB))) by (try (intros st' n' Hn; apply (cnode_mono defs fA st' n' Hn); lia); rewrite Ee; exact I).
      rewrite Ee. cbn [bind fst snd].
      rewrite (kids_mono (cnode defs fB st) (cnode defs (max fA fB) st)) by (try (intros n' Hn; apply (cnode_mono defs fB st n' Hn); lia); exact SB).
      destruct (kids (cnode defs fB st) all); cbn [bind]; [exact I|exact I|destruct SB].
    - induction n as [|props allof ap IH] using tnode_ind'; [exists 1; exact I|].
      destruct (each_term st ltac:(intros name t Hl Hn; apply IHk; pose proof (free_push name t st Hl Hn); lia) allof props ap IH) as (fA & SA & RA).
      destruct (each defs (cnode defs fA) st allof props ap) as [[all ap']| |] eqn:Ee; [|exists (S fA); cbn [cnode]; rewrite Ee; exact I|destruct SA].
      destruct (kids_term st all (RA all ap' eq_refl)) as [fB SB].
      exists (S (max fA fB)). cbn [cnode].
      rewrite (each_mono defs (cnode defs fA) (cnode defs (max fA fB))) by (try (intros st' n' Hn; apply (cnode_mono defs fA st' n' Hn); lia); rewrite Ee; exact I).
      rewrite Ee. cbn [bind fst snd].
      rewrite (kids_mono (cnode defs fB st) (cnode defs (max fA fB) st)) by (try (intros n' Hn; apply (cnode_mono defs fB st n' Hn); lia); exact SB).
      destruct (kids (cnode defs fB st) all); cbn [bind]; [exact I|exact I|destruct SB].
  Qed.

  (* for every node: a compiled node or a refusal *)
  Theorem cnode_total st n : exists f, (exists r, cnode defs f st n = Ok r) \/ (exists c, cnode defs f st n = Err c).
  Proof.
    destruct (cnode_terminates (free st) st (le_n _) n) as [f Hf]. exists f. destruct (cnode defs f st n) as [r|c|]; [left; eauto|right; eauto|destruct Hf].
  Qed.
End Term.
