(* The scanner of json/scanner.go, characterised by the decomposition of the text. *)
From Coq Require Import List ZArith NArith Bool Lia.
From JS Require Import Base.Res Spec.Decimal Model.Number Proofs.DigitArith.
Import ListNotations.
Local Open Scope Z_scope.

(* ---------- byte classes ---------- *)
Lemma cls_spec c :
  match ncls_of c with
  | CMinus => c = 45%N
  | CPlus => c = 43%N
  | CZero => c = 48%N
  | CNz => (49 <= c <= 57)%N
  | CDot => c = 46%N
  | CE => is_e c = true /\ is_digit c = false
  | COther => is_digit c = false /\ c <> 45%N /\ c <> 43%N /\ c <> 46%N /\ is_e c = false
  end.
Proof.
  assert (ND : forall c, ~ (48 <= c <= 57)%N -> is_digit c = false).
  { intros x H. unfold is_digit. apply andb_false_iff. rewrite !N.leb_gt. lia. }
  unfold ncls_of, is_e.
  destruct (N.eqb_spec c 45); [assumption|]. destruct (N.eqb_spec c 43); [assumption|].
  destruct (N.eqb_spec c 48); [assumption|].
  destruct (N.leb_spec 49 c); cbn [andb].
  - destruct (N.leb_spec c 57); [cbv iota; lia|]. destruct (N.eqb_spec c 46); [lia|].
    destruct (N.eqb_spec c 101) as [->|]; [split; [reflexivity|apply ND; lia]|].
    destruct (N.eqb_spec c 69) as [->|]; [split; [reflexivity|apply ND; lia]|].
    cbn [orb]. repeat split; try assumption. apply ND. lia.
  - destruct (N.eqb_spec c 46); [assumption|]. destruct (N.eqb_spec c 101); [lia|].
    destruct (N.eqb_spec c 69); [lia|]. cbn [orb]. repeat split; try assumption. apply ND. lia.
Qed.

Lemma digit_cls c : is_digit c = true -> ncls_of c = CZero \/ ncls_of c = CNz.
Proof.
  intros H. pose proof (cls_spec c) as S. pose proof H as H'. unfold is_digit in H. apply andb_true_iff in H.
  rewrite !N.leb_le in H. destruct (ncls_of c); auto; exfalso; try lia.
  - destruct S as [_ S]. congruence.
  - destruct S as [S _]. congruence.
Qed.
Lemma nondigit_cls c : is_digit c = false -> ncls_of c <> CZero /\ ncls_of c <> CNz.
Proof.
  intros H. pose proof (cls_spec c) as S. destruct (ncls_of c); split; try discriminate.
  - subst. discriminate.
  - unfold is_digit in H. apply andb_false_iff in H. rewrite !N.leb_gt in H. lia.
Qed.

(* ---------- spans ---------- *)
Lemma span_spec l : let (d, r) := span_digits l in
  l = d ++ r /\ all_digits d /\ match r with c :: _ => is_digit c = false | [] => True end.
Proof.
  induction l as [|c l IH]; cbn [span_digits].
  - repeat split. constructor.
  - destruct (is_digit c) eqn:E.
    + destruct (span_digits l) as [d r]. destruct IH as (-> & Hd & Hr). repeat split; auto. constructor; auto.
    + repeat split; [constructor|exact E].
Qed.
Lemma span_of_digits d r : all_digits d -> match r with c :: _ => is_digit c = false | [] => True end ->
  span_digits (d ++ r) = (d, r).
Proof.
  induction 1 as [|c d Hc Hd IH]; intros Hr.
  - cbn [app]. destruct r as [|c r]; [reflexivity|]. cbn [span_digits]. rewrite Hr. reflexivity.
  - cbn [app span_digits]. rewrite Hc, (IH Hr). reflexivity.
Qed.

Definition fin_of (o : option nsc) : option (Z * Z * Z * bool) :=
  match o with
  | Some st => if finished st then Some (intLen st, fraLen st, expBegin st, negative st) else None
  | None => None
  end.

(* digits keep the machine in NInt / NFrac / NExpNum / NExp *)
Lemma run_int d : forall il fl eb ng i r, all_digits d ->
  nrun (mk_nsc NInt il fl eb true ng) i (d ++ r) = nrun (mk_nsc NInt (il + len d) fl eb true ng) (i + len d) r.
Proof.
  induction d as [|c d IH]; intros il fl eb ng i r Hd.
  - cbn [app]. change (len []) with 0. rewrite !Z.add_0_r. reflexivity.
  - inversion Hd as [|? ? Hc Hd']; subst. cbn [app nrun]. rewrite len_cons.
    destruct (digit_cls c Hc) as [E|E]; cbn [nstep]; rewrite E; rewrite (IH _ _ _ _ _ _ Hd'), <- !Z.add_assoc; reflexivity.
Qed.
Lemma run_frac d : forall il fl eb ng i r, all_digits d ->
  nrun (mk_nsc NFrac il fl eb true ng) i (d ++ r) = nrun (mk_nsc NFrac il (fl + len d) eb true ng) (i + len d) r.
Proof.
  induction d as [|c d IH]; intros il fl eb ng i r Hd.
  - cbn [app]. change (len []) with 0. rewrite !Z.add_0_r. reflexivity.
  - inversion Hd as [|? ? Hc Hd']; subst. cbn [app nrun]. rewrite len_cons.
    destruct (digit_cls c Hc) as [E|E]; cbn [nstep]; rewrite E; rewrite (IH _ _ _ _ _ _ Hd'), <- !Z.add_assoc; reflexivity.
Qed.
Lemma run_expnum d : forall il fl eb ng i r, all_digits d ->
  nrun (mk_nsc NExpNum il fl eb true ng) i (d ++ r) = nrun (mk_nsc NExpNum il fl eb true ng) (i + len d) r.
Proof.
  induction d as [|c d IH]; intros il fl eb ng i r Hd.
  - cbn [app]. change (len []) with 0. rewrite !Z.add_0_r. reflexivity.
  - inversion Hd as [|? ? Hc Hd']; subst. cbn [app nrun]. rewrite len_cons.
    destruct (digit_cls c Hc) as [E|E]; cbn [nstep]; rewrite E; rewrite (IH _ _ _ _ _ _ Hd'), <- !Z.add_assoc; reflexivity.
Qed.
(* in NExp with expBegin already set *)
Lemma run_exp_set d : forall il fl eb ng i r, all_digits d -> eb <> 0 ->
  nrun (mk_nsc NExp il fl eb true ng) i (d ++ r) = nrun (mk_nsc NExp il fl eb true ng) (i + len d) r.
Proof.
  induction d as [|c d IH]; intros il fl eb ng i r Hd Heb.
  - cbn [app]. change (len []) with 0. rewrite !Z.add_0_r. reflexivity.
  - inversion Hd as [|? ? Hc Hd']; subst. cbn [app nrun]. rewrite len_cons.
    assert (Hs : set_eb eb i = eb) by (unfold set_eb; destruct (Z.eqb_spec eb 0); [contradiction|reflexivity]).
    destruct (digit_cls c Hc) as [E|E]; cbn [nstep]; rewrite E, Hs; rewrite (IH _ _ _ _ _ _ Hd' Heb), <- !Z.add_assoc; reflexivity.
Qed.

Ltac nd_head Hc :=
  let S := fresh "S" in
  match type of Hc with is_digit ?c = false =>
    pose proof (cls_spec c) as S; pose proof (nondigit_cls c Hc) as [? ?] end.

(* ---------- stage: after the exponent letter ---------- *)
Definition expect_exp (il fl : Z) (ng : bool) (i0 : Z) (l : bytes) : option (Z * Z * Z * bool) :=
  let (d1, r1) := span_digits l in
  match r1 with
  | [] => if nonempty d1 then Some (il, fl, i0, ng) else None
  | s :: r2 =>
    if (N.eqb s 43 || N.eqb s 45)%bool then
      let (d2, r3) := span_digits r2 in
      if nonempty d2 && negb (nonempty r3) then
        Some (il, fl, (if nonempty d1 then i0 else if N.eqb s 45 then i0 else i0 + 1), ng)
      else None
    else None
  end.

Lemma sign_stage il fl eb ng i r2 : eb <> 0 ->
  fin_of (nrun (mk_nsc NExpSign il fl eb false ng) i r2) =
  let (d2, r3) := span_digits r2 in
  if nonempty d2 && negb (nonempty r3) then Some (il, fl, eb, ng) else None.
Proof.
  intros Heb. pose proof (span_spec r2) as Hs. destruct (span_digits r2) as [d2 r3].
  destruct Hs as (-> & Hd & Hr). destruct d2 as [|c d2].
  - cbn [app nonempty andb]. destruct r3 as [|c r3]; [reflexivity|].
    cbn [nrun]. nd_head Hr. cbn [nstep]. destruct (ncls_of c); try reflexivity; congruence.
  - inversion Hd as [|? ? Hc Hd']; subst. cbn [app nrun nonempty andb].
    assert (Hs : set_eb eb i = eb) by (unfold set_eb; destruct (Z.eqb_spec eb 0); [contradiction|reflexivity]).
    assert (Hstep : nstep (mk_nsc NExpSign il fl eb false ng) i c = Some (mk_nsc NExpNum il fl eb true ng)).
    { destruct (digit_cls c Hc) as [E|E]; cbn [nstep]; rewrite E, Hs; reflexivity. }
    rewrite Hstep, (run_expnum d2 _ _ _ _ _ _ Hd'). destruct r3 as [|c3 r3]; [reflexivity|].
    cbn [nrun nonempty negb]. nd_head Hr. cbn [nstep]. destruct (ncls_of c3); try reflexivity; congruence.
Qed.

Lemma exp_stage il fl ng i0 l : 0 < i0 ->
  fin_of (nrun (mk_nsc NExp il fl 0 false ng) i0 l) = expect_exp il fl ng i0 l.
Proof.
  intros Hi. unfold expect_exp. pose proof (span_spec l) as Hs. destruct (span_digits l) as [d1 r1].
  destruct Hs as (-> & Hd & Hr). destruct d1 as [|c d1].
  - cbn [app nonempty]. destruct r1 as [|s r2]; [reflexivity|].
    cbn [nrun]. nd_head Hr. cbn [nstep].
    destruct (ncls_of s) eqn:E; try congruence; cbn [fin_of].
    + (* minus *) subst s. cbn [N.eqb Pos.eqb orb]. unfold set_eb. cbn [Z.eqb].
      rewrite sign_stage by lia. destruct (span_digits r2) as [d2 r3]. reflexivity.
    + (* plus: expBegin stays 0 until the first digit *)
      subst s. cbn [N.eqb Pos.eqb orb].
      pose proof (span_spec r2) as Hs2. destruct (span_digits r2) as [d2 r3]. destruct Hs2 as (-> & Hd2 & Hr3).
      destruct d2 as [|c2 d2].
      * cbn [app nonempty andb]. destruct r3 as [|c3 r3]; [reflexivity|].
        cbn [nrun]. nd_head Hr3. cbn [nstep]. destruct (ncls_of c3); try reflexivity; congruence.
      * inversion Hd2 as [|? ? Hc2 Hd2']; subst. cbn [app nrun nonempty andb].
        assert (Hstep : nstep (mk_nsc NExpSign il fl 0 false ng) (i0 + 1) c2 = Some (mk_nsc NExpNum il fl (i0 + 1) true ng)).
        { destruct (digit_cls c2 Hc2) as [E2|E2]; cbn [nstep]; rewrite E2; reflexivity. }
        rewrite Hstep, (run_expnum d2 _ _ _ _ _ _ Hd2'). destruct r3 as [|c3 r3]; [reflexivity|].
        cbn [nrun nonempty negb]. nd_head Hr3. cbn [nstep]. destruct (ncls_of c3); try reflexivity; congruence.
    + (* dot *) subst s. reflexivity.
    + (* e *) destruct S as [Se _]. unfold is_e in Se. destruct (N.eqb_spec s 43); [subst; discriminate|].
      destruct (N.eqb_spec s 45); [subst; discriminate|]. reflexivity.
    + destruct S as (_ & S1 & S2 & _). destruct (N.eqb_spec s 43); [contradiction|].
      destruct (N.eqb_spec s 45); [contradiction|]. reflexivity.
  - inversion Hd as [|? ? Hc Hd']; subst. cbn [app nrun nonempty].
    assert (Hstep : nstep (mk_nsc NExp il fl 0 false ng) i0 c = Some (mk_nsc NExp il fl i0 true ng)).
    { destruct (digit_cls c Hc) as [E|E]; cbn [nstep]; rewrite E; reflexivity. }
    rewrite Hstep, (run_exp_set d1 _ _ _ _ _ _ Hd') by lia.
    destruct r1 as [|s r2]; [reflexivity|].
    cbn [nrun]. nd_head Hr. cbn [nstep].
    destruct (ncls_of s) eqn:E; try congruence; cbn [fin_of].
    + subst s. cbn [N.eqb Pos.eqb orb].
      assert (Hs : set_eb i0 (i0 + 1 + len d1) = i0) by (unfold set_eb; destruct (Z.eqb_spec i0 0); [lia|reflexivity]).
      rewrite Hs, sign_stage by lia. destruct (span_digits r2) as [d2 r3]. reflexivity.
    + subst s. cbn [N.eqb Pos.eqb orb]. rewrite sign_stage by lia. destruct (span_digits r2) as [d2 r3]. reflexivity.
    + subst s. reflexivity.
    + destruct S as [Se _]. unfold is_e in Se. destruct (N.eqb_spec s 43); [subst; discriminate|].
      destruct (N.eqb_spec s 45); [subst; discriminate|]. reflexivity.
    + destruct S as (_ & S1 & S2 & _). destruct (N.eqb_spec s 43); [contradiction|].
      destruct (N.eqb_spec s 45); [contradiction|]. reflexivity.
Qed.

(* ---------- stages before the exponent ---------- *)
Definition after_frac (il fl : Z) (ng : bool) (i : Z) (l : bytes) : option (Z * Z * Z * bool) :=
  match l with
  | [] => Some (il, fl, 0, ng)
  | c :: r => if is_e c then expect_exp il fl ng (i + 1) r else None
  end.
Lemma frac_stage il fl ng i l : 0 <= i -> match l with c :: _ => is_digit c = false | [] => True end ->
  fin_of (nrun (mk_nsc NFrac il fl 0 true ng) i l) = after_frac il fl ng i l.
Proof.
  intros Hi Hl. destruct l as [|c r]; [reflexivity|]. cbn [nrun after_frac]. nd_head Hl. cbn [nstep].
  destruct (ncls_of c) eqn:E; try congruence; cbn [fin_of].
  - subst c. reflexivity.
  - subst c. reflexivity.
  - subst c. reflexivity.
  - destruct S as [-> _]. apply exp_stage. lia.
  - destruct S as (_ & _ & _ & _ & ->). reflexivity.
Qed.

Definition after_point (il fl : Z) (ng : bool) (i : Z) (l : bytes) : option (Z * Z * Z * bool) :=
  let (d, r) := span_digits l in
  if nonempty d then after_frac il (fl + len d) ng (i + len d) r else None.
Lemma point_stage il fl ng i l : 0 <= i ->
  fin_of (nrun (mk_nsc NPoint il fl 0 false ng) i l) = after_point il fl ng i l.
Proof.
  intros Hi. unfold after_point. pose proof (span_spec l) as Hs. destruct (span_digits l) as [d r].
  destruct Hs as (-> & Hd & Hr). destruct d as [|c d].
  - cbn [app nonempty]. destruct r as [|c r]; [reflexivity|]. cbn [nrun]. nd_head Hr. cbn [nstep].
    destruct (ncls_of c); try reflexivity; congruence.
  - inversion Hd as [|? ? Hc Hd']; subst. cbn [app nrun nonempty].
    assert (Hstep : nstep (mk_nsc NPoint il fl 0 false ng) i c = Some (mk_nsc NFrac il (fl + 1) 0 true ng)).
    { destruct (digit_cls c Hc) as [E|E]; cbn [nstep]; rewrite E; reflexivity. }
    rewrite Hstep, (run_frac d _ _ _ _ _ _ Hd'), len_cons. pose proof (len_nonneg d).
    rewrite frac_stage by (auto; lia). f_equal; lia.
Qed.

Definition after_int (il fl : Z) (ng : bool) (i : Z) (l : bytes) : option (Z * Z * Z * bool) :=
  match l with
  | [] => Some (il, fl, 0, ng)
  | c :: r => if N.eqb c 46 then after_point il fl ng (i + 1) r
              else if is_e c then expect_exp il fl ng (i + 1) r else None
  end.
Lemma int_stage il fl ng i l : 0 <= i -> match l with c :: _ => is_digit c = false | [] => True end ->
  fin_of (nrun (mk_nsc NInt il fl 0 true ng) i l) = after_int il fl ng i l.
Proof.
  intros Hi Hl. destruct l as [|c r]; [reflexivity|]. cbn [nrun after_int]. nd_head Hl. cbn [nstep].
  destruct (ncls_of c) eqn:E; try congruence; cbn [fin_of].
  - subst c. reflexivity.
  - subst c. reflexivity.
  - subst c. cbn [N.eqb Pos.eqb]. apply point_stage. lia.
  - destruct S as [Se Sd]. destruct (N.eqb_spec c 46); [subst; discriminate|]. rewrite Se. apply exp_stage. lia.
  - destruct S as (_ & _ & _ & Sn & ->). destruct (N.eqb_spec c 46); [contradiction|]. reflexivity.
Qed.

Definition after_zero (il fl : Z) (ng : bool) (i : Z) (l : bytes) : option (Z * Z * Z * bool) :=
  match l with
  | [] => Some (il, fl, 0, ng)
  | c :: r => if N.eqb c 46 then after_point il fl ng (i + 1) r else None
  end.
Lemma zero_stage il fl ng i l : 0 <= i ->
  fin_of (nrun (mk_nsc NZero il fl 0 true ng) i l) = after_zero il fl ng i l.
Proof.
  intros Hi. destruct l as [|c r]; [reflexivity|]. cbn [nrun after_zero]. pose proof (cls_spec c) as S. cbn [nstep].
  destruct (ncls_of c) eqn:E; cbn [fin_of]; try (subst c; reflexivity).
  - destruct (N.eqb_spec c 46); [lia|reflexivity].
  - subst c. cbn [N.eqb Pos.eqb]. apply point_stage. lia.
  - destruct S as [Se Sd]. destruct (N.eqb_spec c 46); [subst; discriminate|]. reflexivity.
  - destruct S as (_ & _ & _ & Sn & _). destruct (N.eqb_spec c 46); [contradiction|]. reflexivity.
Qed.

(* from NStart (i = 0, not negative) or NMinus (i = 1, negative) *)
Definition unsigned_regs (ng : bool) (i : Z) (l : bytes) : option (Z * Z * Z * bool) :=
  let (ip, s2) := span_digits l in
  match ip with
  | [] => None
  | c :: ip' => if N.eqb c 48 then (if nonempty ip' then None else after_zero 1 0 ng (i + 1) s2)
                else after_int (len ip) 0 ng (i + len ip) s2
  end.
Lemma unsigned_stage (q : nstate) ng i l : 0 <= i ->
  (q = NStart /\ ng = false \/ q = NMinus /\ ng = true) ->
  (q = NStart -> match l with c :: _ => c <> 45%N | [] => True end) ->
  fin_of (nrun (mk_nsc q 0 0 0 false ng) i l) = unsigned_regs ng i l.
Proof.
  intros Hi Hq Hm. unfold unsigned_regs. pose proof (span_spec l) as Hs. destruct (span_digits l) as [ip s2].
  destruct Hs as (-> & Hd & Hr). destruct ip as [|c ip'].
  - cbn [app]. destruct s2 as [|c r]; [destruct Hq as [[-> ->]|[-> ->]]; reflexivity|].
    cbn [nrun]. nd_head Hr. pose proof (cls_spec c) as S'.
    destruct Hq as [[-> ->]|[-> ->]]; cbn [nstep]; destruct (ncls_of c) eqn:E; try reflexivity; try congruence.
    subst c. specialize (Hm eq_refl). cbn in Hm. congruence.
  - inversion Hd as [|? ? Hc Hd']; subst. cbn [app nrun].
    pose proof (cls_spec c) as S. destruct (digit_cls c Hc) as [E|E]; rewrite E in S.
    + (* leading zero *)
      subst c. cbn [N.eqb Pos.eqb].
      assert (Hstep : nstep (mk_nsc q 0 0 0 false ng) i 48%N = Some (mk_nsc NZero 1 0 0 true ng)).
      { destruct Hq as [[-> ->]|[-> ->]]; reflexivity. }
      rewrite Hstep. destruct ip' as [|c2 ip''].
      * cbn [app nonempty]. apply zero_stage. lia.
      * inversion Hd' as [|? ? Hc2 _]; subst. cbn [app nrun nonempty].
        destruct (digit_cls c2 Hc2) as [E2|E2]; cbn [nstep]; rewrite E2; reflexivity.
    + assert (Hne : N.eqb c 48 = false) by (apply N.eqb_neq; lia). rewrite Hne.
      assert (Hstep : nstep (mk_nsc q 0 0 0 false ng) i c = Some (mk_nsc NInt 1 0 0 true ng)).
      { destruct Hq as [[-> ->]|[-> ->]]; cbn [nstep]; rewrite E; reflexivity. }
      rewrite Hstep, (run_int ip' _ _ _ _ _ _ Hd'), len_cons. pose proof (len_nonneg ip').
      rewrite int_stage by (auto; lia). f_equal; lia.
Qed.

Definition final_regs (s : bytes) : option (Z * Z * Z * bool) := fin_of (nrun nsc0 0 s).
Definition scan_regs (s : bytes) : option (Z * Z * Z * bool) :=
  match s with
  | c :: r => if N.eqb c 45 then unsigned_regs true 1 r else unsigned_regs false 0 s
  | [] => None
  end.
Theorem final_regs_spec s : final_regs s = scan_regs s.
Proof.
  unfold final_regs, scan_regs, nsc0. destruct s as [|c r]; [reflexivity|].
  destruct (N.eqb_spec c 45) as [->|Hne].
  - cbn [nrun nstep ncls_of N.eqb Pos.eqb]. apply (unsigned_stage NMinus true 1 r); [lia|auto|discriminate].
  - apply (unsigned_stage NStart false 0 (c :: r)); [lia|auto|intros _; exact Hne].
Qed.

(* ---------- the same registers, read off the decomposition of the text ---------- *)
Definition loose_exp_ok (ep : option (bytes * option (bool * bytes))) : bool :=
  match ep with
  | None => true
  | Some (d1, None) => nonempty d1
  | Some (_, Some (_, d2)) => nonempty d2
  end.
Definition f13b_shape (ip : bytes) (fp : option bytes) (ep : option (bytes * option (bool * bytes))) : bool :=
  match ip, fp, ep with
  | [c], None, Some _ => N.eqb c 48
  | _, _, _ => false
  end.
Definition eb_of (i : Z) (ip : bytes) (fp : option bytes) (ep : option (bytes * option (bool * bytes))) : Z :=
  let base := i + len ip + (match fp with Some d => 1 + len d | None => 0 end) + 1 in
  match ep with
  | None => 0
  | Some (_, None) => base
  | Some (d1, Some (minus, _)) => if nonempty d1 then base else if minus then base else base + 1
  end.
Definition parts_regs (i : Z) (p : parts) : option (Z * Z * Z * bool) :=
  if int_ok (p_int p) && frac_ok (p_frac p) && loose_exp_ok (p_exp p) && negb (nonempty (p_rest p))
     && negb (f13b_shape (p_int p) (p_frac p) (p_exp p))
  then Some (len (p_int p), len (frac_digits (p_frac p)), eb_of i (p_int p) (p_frac p) (p_exp p), p_neg p)
  else None.

Definition decompose_u (neg : bool) (s1 : bytes) : parts :=
  let (ip, s2) := span_digits s1 in
  let (fp, s3) := match s2 with
                  | c :: r => if N.eqb c 46 then let (d, r') := span_digits r in (Some d, r') else (None, s2)
                  | [] => (None, [])
                  end in
  let (ep, s4) := split_exp s3 in
  mk_parts neg ip fp ep s4.
Lemma decompose_unfold s :
  decompose s = match s with
                | c :: r => if N.eqb c 45 then decompose_u true r else decompose_u false s
                | [] => decompose_u false []
                end.
Proof. destruct s as [|c r]; [reflexivity|]. unfold decompose. destruct (N.eqb c 45); reflexivity. Qed.

Lemma some4_eq (a a' b b' c c' : Z) (d d' : bool) :
  a = a' -> b = b' -> c = c' -> d = d' -> Some (a, b, c, d) = Some (a', b', c', d').
Proof. intros; subst; reflexivity. Qed.

Ltac simp := cbn [split_exp nonempty andb orb negb int_ok frac_ok loose_exp_ok f13b_shape eb_of frac_digits
                  p_int p_frac p_exp p_rest p_neg fst snd app].
Ltac simp0 := cbn [split_exp nonempty andb orb negb frac_ok loose_exp_ok eb_of frac_digits
                   p_int p_frac p_exp p_rest p_neg fst snd app].
Ltac fin :=
  repeat match goal with |- context [nonempty ?b] => is_var b; destruct b end;
  simp; rewrite ?andb_true_r, ?andb_false_r; simp;
  try reflexivity;
  try (apply some4_eq; rewrite ?len_cons; change (len []) with 0; try reflexivity; lia).

(* the exponent part, shared by all shapes: run side (expect_exp) against split_exp *)
Lemma exp_part_agree ng il fl i0 r (ipok fpok : bool) ip fp i :
  il = len ip -> fl = len (frac_digits fp) -> ipok = int_ok ip -> fpok = frac_ok fp ->
  i0 = i + len ip + (match fp with Some d => 1 + len d | None => 0 end) + 1 ->
  forall c0, is_e c0 = true -> f13b_shape ip fp (Some ([], None)) = false ->
  (if ipok && fpok then expect_exp il fl ng i0 r else None) =
  (let (ep, s4) := split_exp (c0 :: r) in
   if int_ok ip && frac_ok fp && loose_exp_ok ep && negb (nonempty s4) && negb (f13b_shape ip fp ep)
   then Some (len ip, len (frac_digits fp), eb_of i ip fp ep, ng) else None).
Proof.
  intros -> -> -> -> -> c0 He Hf. unfold expect_exp, split_exp. rewrite He.
  assert (Hf' : forall x, f13b_shape ip fp (Some x) = false).
  { intros x. unfold f13b_shape in *. destruct ip as [|a [|b t]]; try reflexivity. destruct fp; [reflexivity|exact Hf]. }
  destruct (span_digits r) as [d1 r1]. destruct r1 as [|s r0].
  - rewrite Hf'. simp. destruct (int_ok ip), (frac_ok fp); simp; fin.
  - destruct (N.eqb s 43) eqn:E43; [|destruct (N.eqb s 45) eqn:E45]; simp.
    + destruct (span_digits r0) as [d2 r3]. rewrite Hf'. simp.
      assert (N.eqb s 45 = false) as -> by (apply N.eqb_eq in E43; subst; reflexivity).
      destruct (int_ok ip), (frac_ok fp); simp; fin.
    + destruct (span_digits r0) as [d2 r3]. rewrite Hf'. simp.
      destruct (int_ok ip), (frac_ok fp); simp; fin.
    + rewrite Hf'. simp. destruct (int_ok ip), (frac_ok fp); simp; fin.
Qed.

Lemma unsigned_regs_parts ng i l : unsigned_regs ng i l = parts_regs i (decompose_u ng l).
Proof.
  unfold unsigned_regs, decompose_u, parts_regs.
  destruct (span_digits l) as [ip s2].
  destruct ip as [|c ip'].
  - (* no integer digits *)
    destruct s2 as [|c2 r2]; [reflexivity|].
    destruct (N.eqb c2 46); [destruct (span_digits r2) as [d r']|]; destruct (split_exp _) as [ep s4]; reflexivity.
  - destruct (N.eqb c 48) eqn:E48.
    + destruct ip' as [|c3 ip''].
      * (* "0" *)
        cbn [nonempty]. unfold after_zero, after_point, after_frac.
        destruct s2 as [|c2 r2]; [simp; rewrite E48; reflexivity|].
        destruct (N.eqb c2 46) eqn:E46.
        -- destruct (span_digits r2) as [d r']. destruct r' as [|c0 r].
           ++ simp. rewrite E48. simp. fin.
           ++ destruct (is_e c0) eqn:Ee.
              ** assert (H := exp_part_agree ng 1 (0 + len d) (i + 1 + 1 + len d + 1) r true (nonempty d) [c] (Some d) i
                              eq_refl eq_refl).
                 cbn [int_ok nonempty negb] in H. rewrite orb_true_r in H.
                 specialize (H eq_refl eq_refl ltac:(cbv beta iota; change (len [c]) with 1; lia) c0 Ee eq_refl).
                 destruct (split_exp (c0 :: r)) as [ep s4]. etransitivity; [exact H|].
                 simp. rewrite E48. simp. reflexivity.
              ** unfold split_exp. rewrite Ee. simp. rewrite E48. simp. fin.
        -- (* "0" followed by something else: rejected by the machine; F13b or trailing bytes in the spec *)
           unfold split_exp. destruct (is_e c2) eqn:Ee.
           ++ destruct (span_digits r2) as [d1 r1]. destruct r1 as [|s r0].
              ** simp. rewrite E48. simp. rewrite andb_false_r. reflexivity.
              ** destruct (N.eqb s 43 || N.eqb s 45)%bool.
                 --- destruct (span_digits r0) as [d2 r3]. simp. rewrite E48, andb_false_r. reflexivity.
                 --- simp. rewrite E48, andb_false_r. reflexivity.
           ++ simp. rewrite andb_false_r. reflexivity.
      * cbn [nonempty].
        destruct s2 as [|c2 r2]; [|destruct (N.eqb c2 46); [destruct (span_digits r2) as [d r']|]];
          try destruct (split_exp _) as [ep s4]; simp; rewrite E48; simp; reflexivity.
    + assert (Hip : int_ok (c :: ip') = true) by (cbn [int_ok]; rewrite E48; reflexivity).
      assert (Hnf : forall fp ep, f13b_shape (c :: ip') fp ep = false).
      { intros fp ep. unfold f13b_shape. destruct ip'; [|reflexivity]. destruct fp; [reflexivity|]. destruct ep; [exact E48|reflexivity]. }
      unfold after_int, after_point, after_frac.
      destruct s2 as [|c2 r2]; [simp0; rewrite Hip, Hnf; simp; fin|].
      destruct (N.eqb c2 46) eqn:E46.
      * destruct (span_digits r2) as [d r']. destruct r' as [|c0 r].
        -- simp0. rewrite Hip, Hnf. simp. fin.
        -- destruct (is_e c0) eqn:Ee.
           ++ assert (H := exp_part_agree ng (len (c :: ip')) (0 + len d) (i + len (c :: ip') + 1 + len d + 1) r true (nonempty d)
                            (c :: ip') (Some d) i eq_refl eq_refl (eq_sym Hip) eq_refl ltac:(cbv beta iota; change (len []) with 0; lia) c0 Ee (Hnf _ _)).
              destruct (split_exp (c0 :: r)) as [ep s4]. etransitivity; [exact H|].
              simp0. rewrite Hip. reflexivity.
           ++ unfold split_exp. rewrite Ee. simp0. rewrite Hip, Hnf. simp. fin.
      * destruct (is_e c2) eqn:Ee.
        -- assert (H := exp_part_agree ng (len (c :: ip')) 0 (i + len (c :: ip') + 1) r2 true true (c :: ip') None i
                         eq_refl eq_refl (eq_sym Hip) eq_refl ltac:(cbv beta iota; change (len []) with 0; lia) c2 Ee (Hnf _ _)).
           destruct (split_exp (c2 :: r2)) as [ep s4]. etransitivity; [exact H|].
           simp0. rewrite Hip. reflexivity.
        -- unfold split_exp. rewrite Ee. simp. rewrite andb_false_r. reflexivity.
Qed.

Theorem scan_regs_parts s :
  final_regs s = parts_regs (if p_neg (decompose s) then 1 else 0) (decompose s).
Proof.
  rewrite final_regs_spec, decompose_unfold. unfold scan_regs. destruct s as [|c r].
  - reflexivity.
  - destruct (N.eqb c 45).
    + rewrite unsigned_regs_parts. unfold decompose_u.
      destruct (span_digits r) as [ip s2].
      destruct (match s2 with [] => _ | _ :: _ => _ end) as [fp s3]. destruct (split_exp s3). reflexivity.
    + rewrite unsigned_regs_parts. unfold decompose_u.
      destruct (span_digits (c :: r)) as [ip s2].
      destruct (match s2 with [] => _ | _ :: _ => _ end) as [fp s3]. destruct (split_exp s3). reflexivity.
Qed.
