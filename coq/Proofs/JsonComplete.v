(* Completeness of the JSON scanner model: every RFC 8259 text is accepted.
   The abstract states of Proofs/JsonSound.v are made into a deterministic pushdown automaton `next` over byte
   classes (only the accepting transitions are listed).  Two halves:
     (A) every transition of `next` is a step of the scanner model that keeps the abstraction (forward simulation);
     (B) the automaton runs through every word of the grammar (induction on the derivation of JValue).
   Together with the treatment of the end of input this gives jcheck false s = Ok for every JText s. *)
From Coq Require Import List ZArith NArith Bool Lia.
From JS Require Import Base.Res Base.Lex Spec.JsonGrammar Model.JsonScan Proofs.JsonClasses Proofs.JsonSound Proofs.JsonMain.
Import ListNotations.
Local Open Scope N_scope.

(* ---------- the abstract automaton ---------- *)
Definition k_ws (k : jcls) : bool := match k with KBlank | KWs => true | _ => false end.
Definition k_e (k : jcls) : bool := match k with Ke | KE => true | _ => false end.

Definition vstart (Kv : list frame) (self : astate) (k : jcls) : option astate :=
  match k with
  | KBlank | KWs => Some self
  | KLBrace => Some (AKeyOrEmpty Kv)
  | KLBrack => Some (AItemOrEmpty Kv)
  | KQuote => Some (AStr SIn (PVal Kv))
  | KMinus => Some (ANum NNeg Kv)
  | KZero => Some (ANum NZero Kv)
  | KNz => Some (ANum NInt Kv)
  | Kt => Some (AKw [114; 117; 101] Kv)
  | Kf => Some (AKw [97; 108; 115; 101] Kv)
  | Kn => Some (AKw [117; 108; 108] Kv)
  | _ => None
  end.
(* the byte after a complete value whose context is K *)
Definition after (K : list frame) (k : jcls) : option astate :=
  match K with
  | [] => if k_ws k then Some AEndTop else None
  | FArr :: K' =>
    match k with
    | KBlank | KWs => Some (AAfterItem K') | KComma => Some (AItemBegin K') | KRBrack => Some (AEnd K' false)
    | _ => None
    end
  | FObj :: K' =>
    match k with
    | KBlank | KWs => Some (AAfterValue K') | KComma => Some (AKeyBegin K') | KRBrace => Some (AEnd K' false)
    | _ => None
    end
  end.
Definition after_key_next (K : list frame) (k : jcls) : option astate :=
  match k with KBlank | KWs => Some (AAfterKey K) | KColon => Some (AValueBegin K) | _ => None end.
Definition num_next (sub : numsub) (K : list frame) (k : jcls) : option astate :=
  match sub with
  | NNeg => match k with KZero => Some (ANum NZero K) | KNz => Some (ANum NInt K) | _ => None end
  | NInt => if k_digit k then Some (ANum NInt K) else
            match k with KDot => Some (ANum NDot K) | Ke | KE => Some (ANum NE K) | _ => after K k end
  | NZero => match k with KDot => Some (ANum NDot K) | Ke | KE => Some (ANum NE K) | _ => after K k end
  | NDot => if k_digit k then Some (ANum NFrac K) else None
  | NFrac => if k_digit k then Some (ANum NFrac K) else if k_e k then Some (ANum NE K) else after K k
  | NE => match k with KPlus | KMinus => Some (ANum NESign K) | _ => if k_digit k then Some (ANum NExp K) else None end
  | NESign => if k_digit k then Some (ANum NExp K) else None
  | NExp => if k_digit k then Some (ANum NExp K) else after K k
  end.
Definition str_next (sub : strsub) (p : spos) (k : jcls) : option astate :=
  match sub with
  | SIn =>
    match k with
    | KQuote => Some (match p with PVal K => AEnd K true | PKey K => AEndKey K end)
    | KBackslash => Some (AStr SEsc p)
    | KCtl | KWs => None
    | _ => Some (AStr SIn p)
    end
  | SEsc =>
    match k with
    | Kb | Kf | Kn | Kr | Kt | KBackslash | KSlash | KQuote => Some (AStr SIn p)
    | Ku => Some (AStr (SU 4) p)
    | _ => None
    end
  | SU 1 => if k_hex k then Some (AStr SIn p) else None
  | SU 2 => if k_hex k then Some (AStr (SU 1) p) else None
  | SU 3 => if k_hex k then Some (AStr (SU 2) p) else None
  | SU 4 => if k_hex k then Some (AStr (SU 3) p) else None
  | SU _ => None
  end.
Definition kw_next (rest : bytes) (K : list frame) (k : jcls) : option astate :=
  match rest with
  | [] => None
  | x :: r =>
    match kbyte k with
    | Some y => if y =? x then Some (match r with [] => AEnd K true | _ => AKw r K end) else None
    | None => None
    end
  end.

Definition next (a : astate) (k : jcls) : option astate :=
  match a with
  | ARoot => vstart [] ARoot k
  | AItemOrEmpty K => match k with KRBrack => Some (AEnd K false) | _ => vstart (FArr :: K) a k end
  | AItemBegin K => vstart (FArr :: K) a k
  | AValueBegin K => vstart (FObj :: K) a k
  | AKeyOrEmpty K =>
    match k with KBlank | KWs => Some a | KRBrace => Some (AEnd K false) | KQuote => Some (AStr SIn (PKey K)) | _ => None end
  | AKeyBegin K => match k with KBlank | KWs => Some a | KQuote => Some (AStr SIn (PKey K)) | _ => None end
  | AAfterKey K => after_key_next K k
  | AEndKey K => after_key_next K k
  | AAfterItem K => after (FArr :: K) k
  | AAfterValue K => after (FObj :: K) k
  | AEnd K _ => after K k
  | AEndTop => after [] k
  | AStr sub p => str_next sub p k
  | ANum sub K => num_next sub K k
  | AKw rest K => kw_next rest K k
  end.

Fixpoint nexts (a : astate) (s : bytes) : option astate :=
  match s with
  | [] => Some a
  | b :: r => match next a (jcls_of b) with Some a' => nexts a' r | None => None end
  end.
Lemma nexts_app a s1 s2 a1 : nexts a s1 = Some a1 -> nexts a (s1 ++ s2) = nexts a1 s2.
Proof.
  revert a; induction s1 as [|b r IH]; intros a H; cbn [nexts app] in *.
  - inversion H; reflexivity.
  - destruct (next a (jcls_of b)) as [a'|]; [apply IH; exact H|discriminate].
Qed.

Lemma nexts_cons a b r a1 : next a (jcls_of b) = Some a1 -> nexts a (b :: r) = nexts a1 r.
Proof. intros H. cbn [nexts]. rewrite H. reflexivity. Qed.

(* ---------- (A) forward simulation ---------- *)
Lemma shape_nil_inv st : shape [] st -> st = [].
Proof. intros H; inversion H; reflexivity. Qed.

Definition sim_ok (al : bool) (a a' : astate) (c : jcfg) (b : N) : Prop :=
  exists c' lx, jfeed c b = Ok (c', lx) /\ has_end_top lx = false /\ abs al a' c' /\
                (a = ARoot -> a' <> ARoot -> lx <> []).

Ltac sim_fin :=
  eexists; eexists; split; [reflexivity|]; split; [reflexivity|]; split;
  [ first [ solve [apply abs_str_val; eauto with js] | solve [apply abs_str_key; eauto with js]
          | solve [econstructor; eauto with js] ]
  | intros; try discriminate; try congruence ].

Lemma sim_step al a c b a' : abs al a c -> next a (jcls_of b) = Some a' -> sim_ok al a a' c b.
Proof.
  intros Ha Hn. unfold sim_ok, jfeed, has_end_top.
  destruct Ha as [i|K st b0 i Hs|K st b0 i Hs|K st b0 i Hs|K st b0 i Hs|K st b0 i Hs|K st b0 i Hs|K st b0 i Hs|K st b0 i Hs
                  |K st b0 i Hs|K st i Hs|K st b0 b2 i Hs|i|sub p st b0 b2 i stp Hs Hstp|sub K st b0 i Hs|stp rest K st b0 i Hs Hkw];
    cbn [jstp jret jstack jindex junf jallow].
  - (* root *) cbn [next] in Hn. destruct (jcls_of b); cbn in Hn; inversion Hn; subst; cbn; sim_fin.
  - (* item or empty *) cbn [next] in Hn. destruct (jcls_of b); cbn in Hn; inversion Hn; subst; cbn; sim_fin.
  - cbn [next] in Hn. destruct (jcls_of b); cbn in Hn; inversion Hn; subst; cbn; sim_fin.
  - (* after item *) cbn [next after] in Hn. destruct (jcls_of b); cbn in Hn; inversion Hn; subst; cbn; sim_fin.
  - cbn [next] in Hn. destruct (jcls_of b); cbn in Hn; inversion Hn; subst; cbn; sim_fin.
  - cbn [next] in Hn. destruct (jcls_of b); cbn in Hn; inversion Hn; subst; cbn; sim_fin.
  - cbn [next after_key_next] in Hn. destruct (jcls_of b); cbn in Hn; inversion Hn; subst; cbn; sim_fin.
  - cbn [next] in Hn. destruct (jcls_of b); cbn in Hn; inversion Hn; subst; cbn; sim_fin.
  - cbn [next after] in Hn. destruct (jcls_of b); cbn in Hn; inversion Hn; subst; cbn; sim_fin.
  - (* end, literal open *) cbn [next] in Hn. destruct Hs; cbn [after] in Hn; destruct (jcls_of b); cbn in Hn; inversion Hn; subst; cbn; sim_fin.
  - (* end, nothing open *) cbn [next] in Hn. destruct Hs; cbn [after] in Hn; destruct (jcls_of b); cbn in Hn; inversion Hn; subst; cbn; sim_fin.
  - (* end of key *) cbn [next after_key_next] in Hn. destruct (jcls_of b); cbn in Hn; inversion Hn; subst; cbn; sim_fin.
  - (* end top *) cbn [next after] in Hn. destruct (jcls_of b); cbn in Hn; inversion Hn; subst; cbn; sim_fin.
  - (* strings *) cbn [next] in Hn.
    destruct sub as [| |n]; [| |destruct n as [|[|[|[|[|n]]]]]]; cbn in Hstp; inversion Hstp; subst stp;
      destruct p as [K|K]; cbn [pos_ctx pos_stack pos_unf str_ret] in *;
      destruct (jcls_of b); cbn in Hn; inversion Hn; subst; cbn; sim_fin.
  - (* numbers *) cbn [next] in Hn.
    destruct sub; cbn [num_next] in Hn; destruct Hs; cbn [after] in Hn; destruct (jcls_of b); cbn in Hn; inversion Hn; subst; cbn; sim_fin.
  - (* keywords *) cbn [next] in Hn.
    destruct stp; cbn in Hkw; inversion Hkw; subst rest; destruct (jcls_of b); cbn in Hn; inversion Hn; subst; cbn; sim_fin.
Qed.

(* ---------- class facts for the grammar's predicates ---------- *)
Lemma cls_ws b : byte b -> is_ws b = true -> k_ws (jcls_of b) = true.
Proof. intros Hb H. rewrite (f_ws b Hb) in H. destruct (jcls_of b); cbn in *; congruence. Qed.
Lemma cls_digit b : byte b -> digit b = true -> k_digit (jcls_of b) = true.
Proof. intros Hb H. rewrite (f_digit b Hb) in H. exact H. Qed.
Lemma cls_digit19 b : byte b -> digit19 b = true -> jcls_of b = KNz.
Proof. intros Hb H. rewrite (f_digit19 b Hb) in H. destruct (jcls_of b); cbn in *; congruence. Qed.
Lemma cls_hex b : byte b -> hexdigit b = true -> k_hex (jcls_of b) = true.
Proof. intros Hb H. rewrite (f_hex b Hb) in H. exact H. Qed.
Lemma cls_e b : byte b -> is_e b = true -> k_e (jcls_of b) = true.
Proof. intros Hb H. rewrite (f_e b Hb) in H. destruct (jcls_of b); cbn in *; congruence. Qed.

Lemma all_bytes_app a b : all_bytes (a ++ b) -> all_bytes a /\ all_bytes b.
Proof. apply Forall_app. Qed.
Lemma all_bytes_cons a b : all_bytes (a :: b) -> byte a /\ all_bytes b.
Proof. intros H; inversion H; auto. Qed.
Ltac ab :=
  repeat match goal with
         | H : all_bytes (_ ++ _) |- _ => apply all_bytes_app in H; destruct H as [?Hby ?Hby]
         | H : all_bytes (_ :: _) |- _ => apply all_bytes_cons in H; destruct H as [?Hby ?Hby]
         end.

(* ---------- (B) the automaton runs through the grammar ---------- *)
(* states in which a value may begin, with the context the value will have *)
Inductive VS : astate -> list frame -> Prop :=
| vs_root : VS ARoot []
| vs_ioe K : VS (AItemOrEmpty K) (FArr :: K)
| vs_ib K : VS (AItemBegin K) (FArr :: K)
| vs_vb K : VS (AValueBegin K) (FObj :: K).
(* states after a complete value *)
Inductive Done : astate -> list frame -> Prop :=
| dn_end K lit : Done (AEnd K lit) K
| dn_num sub K : num_complete sub = true -> Done (ANum sub K) K.
Definition is_num (a : astate) : bool := match a with ANum _ _ => true | _ => false end.

Lemma vs_next a K k : VS a K -> k <> KRBrack -> next a k = vstart K a k.
Proof. intros H Hk; destruct H; cbn [next]; try reflexivity. destruct k; try reflexivity. congruence. Qed.
Lemma vstart_ws K a k : k_ws k = true -> vstart K a k = Some a.
Proof. destruct k; cbn; intros; congruence. Qed.

Lemma run_ws_self a w : all_bytes w -> ws w -> (forall k, k_ws k = true -> next a k = Some a) -> nexts a w = Some a.
Proof.
  intros Hb Hw Hself. induction Hw as [|c w Hc Hw IH]; [reflexivity|]. ab. cbn [nexts].
  rewrite (Hself _ (cls_ws c ltac:(assumption) Hc)). auto.
Qed.
Lemma vs_ws a K w : VS a K -> all_bytes w -> ws w -> nexts a w = Some a.
Proof.
  intros Hv Hb Hw. apply run_ws_self; auto. intros k Hk. rewrite (vs_next a K k Hv); [apply vstart_ws; exact Hk|].
  destruct k; cbn in Hk; congruence.
Qed.

(* after a value: blanks lead to (and stay in) the "after" state of the context *)
Definition AfterV (a : astate) (K : list frame) : Prop :=
  Done a K \/ match K with [] => a = AEndTop | FArr :: K' => a = AAfterItem K' | FObj :: K' => a = AAfterValue K' end.
Lemma afterv_next a K k : AfterV a K -> (k_ws k = true \/ k = KComma \/ k = KRBrack \/ k = KRBrace) -> next a k = after K k.
Proof.
  intros [H|H] Hk.
  - destruct H as [K lit|sub K Hc]; [reflexivity|]. cbn [next].
    destruct sub; try discriminate; cbn [num_next];
      destruct Hk as [Hk|[Hk|[Hk|Hk]]]; try (subst k; reflexivity); destruct k; cbn in Hk; try discriminate; reflexivity.
  - destruct K as [|[|] K']; subst a; reflexivity.
Qed.
Lemma afterv_ws_step a K k : AfterV a K -> k_ws k = true -> exists a', next a k = Some a' /\ AfterV a' K.
Proof.
  intros Ha Hk. rewrite (afterv_next a K k Ha (or_introl Hk)).
  destruct K as [|[|] K']; cbn [after]; [rewrite Hk|destruct k; try discriminate..]; eexists; split; try reflexivity; right; reflexivity.
Qed.
Lemma afterv_ws a K w : AfterV a K -> all_bytes w -> ws w -> exists a', nexts a w = Some a' /\ AfterV a' K.
Proof.
  intros Ha Hb Hw. revert a Ha. induction Hw as [|c w Hc Hw IH]; intros a Ha; [exists a; auto|]. ab. cbn [nexts].
  destruct (afterv_ws_step a K (jcls_of c) Ha (cls_ws c ltac:(assumption) Hc)) as (a1 & -> & Ha1). auto.
Qed.

(* strings *)
Lemma str_body_run p body : all_bytes body -> StrBody body -> nexts (AStr SIn p) body = Some (AStr SIn p).
Proof.
  intros Hb Hs. induction Hs as [|c r Hc Hr IH|e r He Hr IH|h1 h2 h3 h4 r H1 H2 H3 H4 Hr IH]; [reflexivity|..]; ab.
  - cbn [nexts next str_next]. pose proof (f_unesc c ltac:(assumption)) as F. rewrite Hc in F.
    destruct (jcls_of c); cbn in F; try discriminate; auto.
  - cbn [nexts next str_next]. change (jcls_of 92) with KBackslash. cbn iota.
    pose proof (f_esc e ltac:(assumption)) as F. rewrite He in F.
    destruct (jcls_of e); cbn in F; try discriminate; cbn [next str_next]; auto.
  - cbn [nexts]. change (jcls_of 92) with KBackslash. change (jcls_of 117) with Ku. cbn [next str_next].
    rewrite (cls_hex h1) by assumption. cbn [nexts next str_next]. rewrite (cls_hex h2) by assumption.
    cbn [nexts next str_next]. rewrite (cls_hex h3) by assumption. cbn [nexts next str_next].
    rewrite (cls_hex h4) by assumption. auto.
Qed.
Lemma string_run a p k s (a' : astate) : all_bytes s -> JString s ->
  next a KQuote = Some (AStr SIn p) -> a' = match p with PVal K => AEnd K true | PKey K => AEndKey K end ->
  k = tt -> nexts a s = Some a'.
Proof.
  intros Hb (body & -> & Hbody) Hq -> _. ab. cbn [nexts]. change (jcls_of 34) with KQuote. rewrite Hq.
  rewrite (nexts_app _ body [34] (AStr SIn p)); [|apply str_body_run; assumption]. reflexivity.
Qed.

(* numbers *)
Lemma digits_run sub K d : all_bytes d -> digits d ->
  (forall k, k_digit k = true -> next (ANum sub K) k = Some (ANum sub K)) -> nexts (ANum sub K) d = Some (ANum sub K).
Proof.
  intros Hb Hd Hself. induction Hd as [|c d Hc Hd IH]; [reflexivity|]. ab. cbn [nexts].
  rewrite (Hself _ (cls_digit c ltac:(assumption) Hc)). auto.
Qed.
Lemma self_int K k : k_digit k = true -> next (ANum NInt K) k = Some (ANum NInt K).
Proof. intros H; cbn [next num_next]; rewrite H; reflexivity. Qed.
Lemma self_frac K k : k_digit k = true -> next (ANum NFrac K) k = Some (ANum NFrac K).
Proof. intros H; cbn [next num_next]; rewrite H; reflexivity. Qed.
Lemma self_exp K k : k_digit k = true -> next (ANum NExp K) k = Some (ANum NExp K).
Proof. intros H; cbn [next num_next]; rewrite H; reflexivity. Qed.

Definition int_done (sub : numsub) : Prop := sub = NZero \/ sub = NInt.
Definition frac_done (sub : numsub) : Prop := sub = NZero \/ sub = NInt \/ sub = NFrac.

Lemma int_run a K i : all_bytes i -> JInt i ->
  next a KZero = Some (ANum NZero K) -> next a KNz = Some (ANum NInt K) ->
  exists sub, nexts a i = Some (ANum sub K) /\ int_done sub.
Proof.
  intros Hb [->|(c & d & -> & Hc & Hd)] Hz Hnz.
  - exists NZero. split; [|left; reflexivity]. cbn [nexts]. change (jcls_of 48) with KZero. rewrite Hz. reflexivity.
  - ab. exists NInt. split; [|right; reflexivity]. cbn [nexts]. rewrite (cls_digit19 c) by assumption. rewrite Hnz.
    apply digits_run; auto. apply self_int.
Qed.
Lemma frac_run K sub f : all_bytes f -> JFrac f -> int_done sub ->
  exists sub', nexts (ANum sub K) f = Some (ANum sub' K) /\ frac_done sub'.
Proof.
  intros Hb [->|(c & d & -> & Hc & Hd)] Hi.
  - exists sub. split; [reflexivity|]. destruct Hi; subst; [left|right; left]; reflexivity.
  - ab. exists NFrac. split; [|right; right; reflexivity]. cbn [nexts]. change (jcls_of 46) with KDot.
    assert (E : next (ANum sub K) KDot = Some (ANum NDot K)) by (destruct Hi; subst; reflexivity). rewrite E.
    cbn [next num_next]. rewrite (cls_digit c) by assumption. apply digits_run; auto. apply self_frac.
Qed.
Lemma exp_run K sub x : all_bytes x -> JExp x -> frac_done sub ->
  exists sub', nexts (ANum sub K) x = Some (ANum sub' K) /\ num_complete sub' = true.
Proof.
  intros Hb [->|(e & sg & c & d & -> & He & Hsg & Hc & Hd)] Hf.
  - exists sub. split; [reflexivity|]. destruct Hf as [->|[->| ->]]; reflexivity.
  - ab. exists NExp. split; [|reflexivity]. cbn [nexts].
    assert (E : next (ANum sub K) (jcls_of e) = Some (ANum NE K)).
    { pose proof (cls_e e ltac:(assumption) He) as Hk. destruct Hf as [->|[->| ->]]; cbn [next num_next]; destruct (jcls_of e); cbn in Hk; try discriminate; reflexivity. }
    rewrite E.
    assert (D : forall sub0, (sub0 = NE \/ sub0 = NESign) -> nexts (ANum sub0 K) (c :: d) = Some (ANum NExp K)).
    { intros sub0 Hsub0. cbn [nexts].
      assert (E2 : next (ANum sub0 K) (jcls_of c) = Some (ANum NExp K)).
      { pose proof (cls_digit c ltac:(assumption) Hc) as Hk. destruct Hsub0; subst sub0; cbn [next num_next]; [|rewrite Hk; reflexivity].
        destruct (jcls_of c); cbn in Hk; try discriminate; reflexivity. }
      rewrite E2. apply digits_run; auto. apply self_exp. }
    destruct Hsg as [->|[->| ->]]; cbn [app].
    + apply D; left; reflexivity.
    + rewrite (nexts_cons _ 43 _ (ANum NESign K)) by reflexivity. apply D; right; reflexivity.
    + rewrite (nexts_cons _ 45 _ (ANum NESign K)) by reflexivity. apply D; right; reflexivity.
Qed.
Lemma number_run a K n : all_bytes n -> JNumber n -> VS a K ->
  exists sub, nexts a n = Some (ANum sub K) /\ num_complete sub = true.
Proof.
  intros Hb (m & i & f & x & -> & Hm & Hi & Hf & Hx) Hv. ab.
  assert (HI : exists sub, nexts a (m ++ i) = Some (ANum sub K) /\ int_done sub).
  { destruct Hm as [->| ->]; cbn [app].
    - apply int_run; auto; rewrite (vs_next a K _ Hv) by discriminate; reflexivity.
    - cbn [nexts]. change (jcls_of 45) with KMinus. rewrite (vs_next a K _ Hv) by discriminate. cbn [vstart].
      apply int_run; auto. }
  destruct HI as (s1 & H1 & D1).
  destruct (frac_run K s1 f ltac:(assumption) Hf D1) as (s2 & H2 & D2).
  destruct (exp_run K s2 x ltac:(assumption) Hx D2) as (s3 & H3 & D3).
  exists s3. split; [|exact D3].
  rewrite app_assoc. rewrite (nexts_app _ _ _ _ H1). rewrite (nexts_app _ _ _ _ H2). exact H3.
Qed.

(* the three mutually recursive statements *)
Definition PV (v : bytes) : Prop := all_bytes v -> forall a K, VS a K ->
  exists a', nexts a v = Some a' /\ Done a' K /\ (is_num a' = true -> JNumber v).
Definition PE (els : bytes) : Prop := all_bytes els -> forall a K, (a = AItemOrEmpty K \/ a = AItemBegin K) ->
  exists a', nexts a els = Some a' /\ AfterV a' (FArr :: K).
Definition PM (ms : bytes) : Prop := all_bytes ms -> forall a K, (a = AKeyOrEmpty K \/ a = AKeyBegin K) ->
  exists a', nexts a ms = Some a' /\ AfterV a' (FObj :: K).

Lemma kw_run a K (c : N) rest k : VS a K -> jcls_of c = k -> k <> KRBrack -> vstart K a k = Some (AKw rest K) ->
  nexts (AKw rest K) rest = Some (AEnd K true) -> nexts a (c :: rest) = Some (AEnd K true).
Proof. intros Hv Hc Hk Hs Hr. cbn [nexts]. rewrite Hc, (vs_next a K k Hv Hk), Hs. exact Hr. Qed.

Lemma vs_of_els a K : a = AItemOrEmpty K \/ a = AItemBegin K -> VS a (FArr :: K).
Proof. intros [->| ->]; constructor. Qed.

Lemma value_then_ws a K v w : PV v -> all_bytes v -> all_bytes w -> ws w -> VS a K ->
  exists a', nexts a (v ++ w) = Some a' /\ AfterV a' K.
Proof.
  intros IH Hbv Hbw Hw Hv. destruct (IH Hbv a K Hv) as (a1 & H1 & D1 & _).
  destruct (afterv_ws a1 K w (or_introl D1) Hbw Hw) as (a2 & H2 & D2).
  exists a2. split; [|exact D2]. rewrite (nexts_app _ _ _ _ H1). exact H2.
Qed.

Lemma key_run a K k : all_bytes k -> JString k -> (a = AKeyOrEmpty K \/ a = AKeyBegin K) -> nexts a k = Some (AEndKey K).
Proof.
  intros Hb Hk Ha. apply (string_run a (PKey K) tt k); auto. destruct Ha as [->| ->]; reflexivity.
Qed.
Lemma member_run a K w1 k w2 w3 v w4 : PV v -> all_bytes (w1 ++ k ++ w2 ++ 58 :: w3 ++ v ++ w4) ->
  ws w1 -> JString k -> ws w2 -> ws w3 -> ws w4 -> (a = AKeyOrEmpty K \/ a = AKeyBegin K) ->
  exists a', nexts a (w1 ++ k ++ w2 ++ 58 :: w3 ++ v ++ w4) = Some a' /\ AfterV a' (FObj :: K).
Proof.
  intros IH Hb H1 Hk H2 H3 H4 Ha. ab.
  assert (S1 : nexts a w1 = Some a).
  { apply run_ws_self; auto. intros k0 Hk0. destruct Ha as [->| ->]; destruct k0; cbn in Hk0; try discriminate; reflexivity. }
  rewrite (nexts_app _ _ _ _ S1). rewrite (nexts_app _ _ _ _ (key_run a K k ltac:(assumption) Hk Ha)).
  (* blanks after the key *)
  assert (S2 : exists a2, nexts (AEndKey K) w2 = Some a2 /\ (a2 = AEndKey K \/ a2 = AAfterKey K)).
  { destruct H2 as [|c w Hc Hw]; [exists (AEndKey K); auto|]. ab. exists (AAfterKey K). split; [|auto]. cbn [nexts next after_key_next].
    pose proof (cls_ws c ltac:(assumption) Hc) as Hkc. destruct (jcls_of c) eqn:E; cbn in Hkc; try discriminate;
      (apply run_ws_self; auto; intros k0 Hk0; destruct k0; cbn in Hk0; try discriminate; reflexivity). }
  destruct S2 as (a2 & S2 & D2). rewrite (nexts_app _ _ _ _ S2). cbn [nexts]. change (jcls_of 58) with KColon.
  assert (E : next a2 KColon = Some (AValueBegin K)) by (destruct D2; subst; reflexivity). rewrite E.
  rewrite (nexts_app _ _ _ _ (vs_ws (AValueBegin K) (FObj :: K) w3 (vs_vb K) ltac:(assumption) H3)).
  apply value_then_ws; auto. constructor.
Qed.

Theorem grammar_run : (forall v, JValue v -> PV v) /\ (forall e, JElements e -> PE e) /\ (forall m, JMembers m -> PM m).
Proof.
  apply JValue_mutind.
  - (* true *) intros Hb a K Hv. exists (AEnd K true). split; [|split; [constructor|discriminate]].
    apply (kw_run a K 116 _ Kt Hv); try reflexivity; discriminate.
  - intros Hb a K Hv. exists (AEnd K true). split; [|split; [constructor|discriminate]].
    apply (kw_run a K 102 _ Kf Hv); try reflexivity; discriminate.
  - intros Hb a K Hv. exists (AEnd K true). split; [|split; [constructor|discriminate]].
    apply (kw_run a K 110 _ Kn Hv); try reflexivity; discriminate.
  - (* number *) intros n Hn Hb a K Hv. destruct (number_run a K n Hb Hn Hv) as (sub & H1 & H2).
    exists (ANum sub K). split; [exact H1|split; [constructor; exact H2|intros _; exact Hn]].
  - (* string *) intros s Hs Hb a K Hv. exists (AEnd K true). split; [|split; [constructor|discriminate]].
    apply (string_run a (PVal K) tt s); auto. rewrite (vs_next a K _ Hv) by discriminate. reflexivity.
  - (* empty array *) intros w Hw Hb a K Hv. ab. exists (AEnd K false). split; [|split; [constructor|discriminate]].
    cbn [nexts]. change (jcls_of 91) with KLBrack. rewrite (vs_next a K _ Hv) by discriminate. cbn [vstart].
    rewrite (nexts_app _ _ _ _ (vs_ws _ _ w (vs_ioe K) ltac:(assumption) Hw)). reflexivity.
  - (* array *) intros els Hels IH Hb a K Hv. ab. exists (AEnd K false). split; [|split; [constructor|discriminate]].
    cbn [nexts]. change (jcls_of 91) with KLBrack. rewrite (vs_next a K _ Hv) by discriminate. cbn [vstart].
    destruct (IH ltac:(assumption) (AItemOrEmpty K) K (or_introl eq_refl)) as (a1 & H1 & D1).
    rewrite (nexts_app _ _ _ _ H1). cbn [nexts]. change (jcls_of 93) with KRBrack.
    rewrite (afterv_next a1 _ KRBrack D1) by auto. reflexivity.
  - (* empty object *) intros w Hw Hb a K Hv. ab. exists (AEnd K false). split; [|split; [constructor|discriminate]].
    cbn [nexts]. change (jcls_of 123) with KLBrace. rewrite (vs_next a K _ Hv) by discriminate. cbn [vstart].
    assert (S1 : nexts (AKeyOrEmpty K) w = Some (AKeyOrEmpty K)).
    { apply run_ws_self; auto. intros k0 Hk0. destruct k0; cbn in Hk0; try discriminate; reflexivity. }
    rewrite (nexts_app _ _ _ _ S1). reflexivity.
  - (* object *) intros ms Hms IH Hb a K Hv. ab. exists (AEnd K false). split; [|split; [constructor|discriminate]].
    cbn [nexts]. change (jcls_of 123) with KLBrace. rewrite (vs_next a K _ Hv) by discriminate. cbn [vstart].
    destruct (IH ltac:(assumption) (AKeyOrEmpty K) K (or_introl eq_refl)) as (a1 & H1 & D1).
    rewrite (nexts_app _ _ _ _ H1). cbn [nexts]. change (jcls_of 125) with KRBrace.
    rewrite (afterv_next a1 _ KRBrace D1) by auto. reflexivity.
  - (* one element *) intros w1 v w2 H1 Hv IH H2 Hb a K Ha. ab.
    rewrite (nexts_app _ _ _ _ (vs_ws a _ w1 (vs_of_els a K Ha) ltac:(assumption) H1)).
    apply value_then_ws; auto. apply vs_of_els; exact Ha.
  - (* more elements *) intros w1 v w2 r H1 Hv IH H2 Hr IHr Hb a K Ha. ab.
    rewrite (nexts_app _ _ _ _ (vs_ws a _ w1 (vs_of_els a K Ha) ltac:(assumption) H1)).
    destruct (value_then_ws a (FArr :: K) v w2 IH ltac:(assumption) ltac:(assumption) H2 (vs_of_els a K Ha)) as (a1 & S1 & D1).
    rewrite app_assoc. rewrite (nexts_app _ _ _ _ S1). cbn [nexts]. change (jcls_of 44) with KComma.
    rewrite (afterv_next a1 _ KComma D1) by auto. cbn [after]. apply IHr; auto.
  - (* one member *) intros w1 k w2 w3 v w4 H1 Hk H2 H3 Hv IH H4 Hb a K Ha. apply member_run; auto.
  - (* more members *) intros w1 k w2 w3 v w4 r H1 Hk H2 H3 Hv IH H4 Hr IHr Hb a K Ha.
    replace (w1 ++ k ++ w2 ++ 58 :: w3 ++ v ++ w4 ++ 44 :: r) with ((w1 ++ k ++ w2 ++ 58 :: w3 ++ v ++ w4) ++ 44 :: r) in *
      by (repeat (rewrite <- ?app_assoc; cbn [app]); reflexivity).
    apply all_bytes_app in Hb. destruct Hb as [Hbm Hbr]. apply all_bytes_cons in Hbr. destruct Hbr as [_ Hbr].
    destruct (member_run a K w1 k w2 w3 v w4 IH Hbm H1 Hk H2 H3 H4 Ha) as (a1 & S1 & D1).
    rewrite (nexts_app _ _ _ _ S1). cbn [nexts]. change (jcls_of 44) with KComma.
    rewrite (afterv_next a1 _ KComma D1) by auto. cbn [after]. apply IHr; auto.
Qed.

(* ---------- the run of the scanner model along the automaton ---------- *)
Local Open Scope Z_scope.
Lemma filter_no_end_top lx : has_end_top lx = false -> filter not_end_top lx = lx.
Proof.
  unfold has_end_top. induction lx as [|x lx IH]; [reflexivity|]. cbn [existsb filter]. intros H.
  apply orb_false_iff in H. destruct H as [H1 H2]. unfold not_end_top. rewrite H1. cbn [negb]. f_equal. auto.
Qed.

Lemma run_nexts al : forall s a c a', all_bytes s -> abs al a c -> nexts a s = Some a' ->
  exists c' lx, abs al a' c' /\ (forall r acc, jrun c (s ++ r) acc = jrun c' r (acc ++ lx)) /\
                (a = ARoot -> a' <> ARoot -> filter not_end_top lx <> []).
Proof.
  induction s as [|b s IH]; intros a c a' Hb Ha Hn.
  - cbn [nexts] in Hn. inversion Hn; subst a'. exists c, []. split; [exact Ha|]. split; [|congruence].
    intros r acc. rewrite app_nil_r. reflexivity.
  - ab. cbn [nexts] in Hn. destruct (next a (jcls_of b)) as [a1|] eqn:E; [|discriminate].
    destruct (sim_step al a c b a1 Ha E) as (c1 & lx1 & Hf & Het & Ha1 & Hne).
    destruct (IH a1 c1 a' ltac:(assumption) Ha1 Hn) as (c' & lx & Ha' & Hrun & Hne').
    exists c', (lx1 ++ lx). split; [exact Ha'|]. split.
    + intros r acc. cbn [app jrun]. rewrite Hf. fold (has_end_top lx1). rewrite Het. rewrite Hrun, app_assoc. reflexivity.
    + intros Hroot Hnr. rewrite filter_app. rewrite (filter_no_end_top lx1 Het). intros X.
      apply app_eq_nil in X. destruct X as [X1 X2].
      assert (D : a1 = ARoot \/ a1 <> ARoot) by (destruct a1; try (right; discriminate); left; reflexivity).
      destruct D as [D|D]; [exact (Hne' D Hnr X2)|exact (Hne Hroot D X1)].
Qed.

(* end of input in a state after a top-level value *)
Lemma eof_accepts al a c : abs al a c -> AfterV a [] ->
  exists ls, jeof (S (S (length (jstack c)))) (jstack c) (jindex c) (junf c) = Ok ls.
Proof.
  intros Ha [Hd|Hd].
  - inversion Hd as [K lit|sub K Hc]; subst; inversion Ha; subst; cbn [jstack jindex junf];
      repeat match goal with H : shape [] _ |- _ => apply shape_nil_inv in H; subst end.
    + eexists; cbn; reflexivity.
    + eexists; cbn; reflexivity.
    + unfold num_unf. rewrite Hc. eexists; cbn; reflexivity.
  - subst a. inversion Ha; subst. eexists; cbn; reflexivity.
Qed.

Lemma jrun_acc : forall s c acc ls i, jrun c s acc = (Ok ls, i) -> exists tl, ls = acc ++ tl.
Proof.
  induction s as [|b s IH]; intros c acc ls i H; cbn [jrun] in H.
  - destruct (jeof _ _ _ _) as [l| |]; inversion H; subst. eexists; reflexivity.
  - destruct (jfeed c b) as [[c' lx]| |]; try discriminate.
    fold (has_end_top lx) in H. destruct (has_end_top lx).
    + inversion H; subst. eexists; reflexivity.
    + destruct (IH _ _ _ _ H) as (tl & ->). exists (lx ++ tl). rewrite app_assoc. reflexivity.
Qed.

Lemma root_moves a v K : nexts ARoot v = Some a -> Done a K -> a <> ARoot.
Proof. intros _ H; destruct H; discriminate. Qed.

(* C12, complete direction: every RFC 8259 text passes Check() *)
Theorem check_complete s : all_bytes s -> JText s -> exists i, jcheck false s = (Ok tt, i).
Proof.
  intros Hb (w1 & v & w2 & -> & H1 & Hv & H2). ab.
  destruct grammar_run as (GV & _ & _).
  pose proof (vs_ws ARoot [] w1 vs_root ltac:(assumption) H1) as S1.
  destruct (value_then_ws ARoot [] v w2 (GV v Hv) ltac:(assumption) ltac:(assumption) H2 vs_root) as (a2 & S2 & D2).
  assert (S : nexts ARoot (w1 ++ v ++ w2) = Some a2) by (rewrite (nexts_app _ _ _ _ S1); exact S2).
  assert (Hb' : all_bytes (w1 ++ v ++ w2)) by (apply Forall_app; split; [assumption|apply Forall_app; split; assumption]).
  destruct (run_nexts false _ ARoot (jcfg0 false) a2 Hb' (abs_root false 0) S) as (c' & lx & Ha' & Hrun & Hne).
  destruct (eof_accepts false a2 c' Ha' D2) as (ls & He).
  unfold jcheck, jlexemes. specialize (Hrun [] []). rewrite app_nil_r in Hrun. rewrite Hrun. cbn [jrun app]. rewrite He.
  assert (N2 : a2 <> ARoot) by (destruct D2 as [D|D]; [destruct D; discriminate|subst; discriminate]).
  specialize (Hne eq_refl N2). rewrite filter_app. destruct (filter not_end_top lx) as [|x l]; [congruence|].
  cbn [app]. eexists; reflexivity.
Qed.

(* ---------- the trailing-characters option ---------- *)
(* bytes that would continue a number: the scanner is maximal-munch, `1.x` is an unfinished number for it *)
Definition num_cont (b : N) : bool := (digit b || (b =? 46)%N || is_e b)%bool.
Definition rest_ok (a : astate) (rest : bytes) : Prop :=
  is_num a = true -> match rest with [] => True | b :: _ => num_cont b = false end.

Lemma end_top_step a c b : byte b -> abs true a c -> AfterV a [] -> k_ws (jcls_of b) = false ->
  (is_num a = true -> num_cont b = false) -> exists c' lx, jfeed c b = Ok (c', lx) /\ has_end_top lx = true.
Proof.
  intros Hb Ha Hd Hk Hn. unfold jfeed, has_end_top. destruct Hd as [Hd|Hd].
  - inversion Hd as [K lit|sub K Hc]; subst; inversion Ha; subst; cbn [jstp jret jstack jindex junf jallow];
      repeat match goal with H : shape [] _ |- _ => apply shape_nil_inv in H; subst end.
    + destruct (jcls_of b); cbn in Hk; try discriminate; cbn; eexists; eexists; split; reflexivity.
    + destruct (jcls_of b); cbn in Hk; try discriminate; cbn; eexists; eexists; split; reflexivity.
    + specialize (Hn eq_refl). unfold num_cont in Hn. apply orb_false_iff in Hn. destruct Hn as [Hn He].
      apply orb_false_iff in Hn. destruct Hn as [Hdg Hdot].
      rewrite (f_digit b Hb) in Hdg. rewrite (f_e b Hb) in He.
      assert (Hnd : jcls_of b <> KDot).
      { intros E. pose proof (f_byte b Hb 46%N) as F. rewrite E in F. specialize (F eq_refl). subst b. discriminate. }
      destruct sub; try discriminate; destruct (jcls_of b); cbn in Hk, Hdg, He; try discriminate; try congruence;
        cbn; eexists; eexists; split; reflexivity.
  - subst a. inversion Ha; subst. cbn [jstp jret jstack jindex junf jallow].
    destruct (jcls_of b); cbn in Hk; try discriminate; cbn; eexists; eexists; split; reflexivity.
Qed.

Lemma trailing_run : forall rest a c acc, all_bytes rest -> abs true a c -> AfterV a [] -> rest_ok a rest ->
  exists ls i, jrun c rest acc = (Ok ls, i).
Proof.
  induction rest as [|b r IH]; intros a c acc Hb Ha Hd Hn.
  - cbn [jrun]. destruct (eof_accepts true a c Ha Hd) as (ls & ->). eexists; eexists; reflexivity.
  - ab. cbn [jrun]. destruct (k_ws (jcls_of b)) eqn:Hk.
    + pose proof (afterv_next a [] (jcls_of b) Hd (or_introl Hk)) as E. cbn [after] in E. rewrite Hk in E.
      destruct (sim_step true a c b AEndTop Ha E) as (c1 & lx1 & -> & Het & Ha1 & _).
      fold (has_end_top lx1). rewrite Het. apply (IH AEndTop); auto; [right; reflexivity|intros X; discriminate X].
    + destruct (end_top_step a c b ltac:(assumption) Ha Hd Hk Hn) as (c1 & lx1 & -> & Het).
      fold (has_end_top lx1). rewrite Het. eexists; eexists; reflexivity.
Qed.

(* C12 with the trailing-characters option: a JSON value followed by anything is accepted - except that a
   number is read as far as it goes (maximal munch), so what follows a number must not continue it *)
Theorem check_trailing_complete w v rest : all_bytes (w ++ v ++ rest) -> ws w -> JValue v ->
  (JNumber v -> match rest with [] => True | b :: _ => num_cont b = false end) ->
  exists i, jcheck true (w ++ v ++ rest) = (Ok tt, i).
Proof.
  intros Hb H1 Hv Hrest. assert (Hb' := Hb). apply all_bytes_app in Hb'. destruct Hb' as [Hbw Hb']. apply all_bytes_app in Hb'.
  destruct Hb' as [Hbv Hbr].
  destruct grammar_run as (GV & _ & _).
  pose proof (vs_ws ARoot [] w vs_root Hbw H1) as S1.
  destruct (GV v Hv Hbv ARoot [] vs_root) as (a2 & S2 & D2 & N2).
  assert (S : nexts ARoot (w ++ v) = Some a2) by (rewrite (nexts_app _ _ _ _ S1); exact S2).
  assert (Hbwv : all_bytes (w ++ v)) by (apply Forall_app; split; assumption).
  destruct (run_nexts true _ ARoot (jcfg0 true) a2 Hbwv (abs_root true 0) S) as (c' & lx & Ha' & Hrun & Hne).
  destruct (trailing_run rest a2 c' ([] ++ lx) Hbr Ha' (or_introl D2) ltac:(intros X; apply Hrest; apply N2; exact X)) as (ls & i & Hr).
  unfold jcheck, jlexemes. rewrite app_assoc. rewrite Hrun, Hr.
  destruct (jrun_acc _ _ _ _ _ Hr) as (tl & ->).
  assert (Nr : a2 <> ARoot) by (destruct D2; discriminate).
  specialize (Hne eq_refl Nr). cbn [app]. rewrite filter_app. destruct (filter not_end_top lx) as [|x l]; [congruence|].
  cbn [app]. eexists; reflexivity.
Qed.

(* C12: accepted exactly when the text is an RFC 8259 JSON text *)
Theorem check_iff s : all_bytes s -> ((exists i, jcheck false s = (Ok tt, i)) <-> JText s).
Proof. intros Hs. split; [intros (i & H); exact (JsonMain.check_sound s i Hs H)|exact (check_complete s Hs)]. Qed.
