(* Comparison of normalised numbers is exact. *)
From Coq Require Import List ZArith NArith Bool Lia.
From JS Require Import Base.Res Spec.Decimal Model.Number Proofs.DigitArith.
Import ListNotations.
Local Open Scope Z_scope.

Definition cz (x y : Z) : Z := cmp_to_Z (x ?= y).
Lemma cz_lt x y : x < y -> cz x y = -1.
Proof. intros H. unfold cz. rewrite (proj2 (Z.compare_lt_iff x y) H). reflexivity. Qed.
Lemma cz_gt x y : y < x -> cz x y = 1.
Proof. intros H. unfold cz. rewrite (proj2 (Z.compare_gt_iff x y) H). reflexivity. Qed.
Lemma cz_eq x y : x = y -> cz x y = 0.
Proof. intros ->. unfold cz. rewrite Z.compare_refl. reflexivity. Qed.
Lemma cz_opp x y : cz (- x) (- y) = - cz x y.
Proof.
  destruct (Z.lt_trichotomy x y) as [H|[H|H]].
  - rewrite (cz_lt x y H), (cz_gt (-x) (-y)) by lia. reflexivity.
  - rewrite (cz_eq x y H), (cz_eq (-x) (-y)) by lia. reflexivity.
  - rewrite (cz_gt x y H), (cz_lt (-x) (-y)) by lia. reflexivity.
Qed.

Definition normal (n : number) : Prop :=
  all_digits (nnat n) /\ 0 <= nexp n <= len (nnat n) /\
  (forall c r, int_part n = c :: r -> c <> 48%N) /\
  (0 < nexp n -> exists l c, nnat n = l ++ [c] /\ c <> 48%N) /\
  (nnat n = [] -> nneg n = false).
Definition denote (n : number) : dval :=
  ((if nneg n then - val (nnat n) else val (nnat n)), - nexp n).

Lemma dig_lt a b : is_digit a = true -> is_digit b = true -> (N.ltb a b = (dig a <? dig b)).
Proof.
  intros _ _. unfold dig. destruct (N.ltb_spec a b), (Z.ltb_spec (Z.of_N a - 48) (Z.of_N b - 48)); lia.
Qed.

Lemma fra_vs_zero_ok x L : all_digits x -> len x <= L -> fra_vs_zero x = cz (sv L x) 0.
Proof.
  intros Hx. revert L. induction Hx as [|c x Hc Hx IH]; intros L HL.
  - reflexivity.
  - rewrite len_cons in HL. cbn [fra_vs_zero]. rewrite sv_cons by lia.
    pose proof (is_digit_dig c Hc) as Hd. pose proof (sv_bound (L - 1) x Hx ltac:(lia)) as Hb.
    pose proof (len_nonneg x). assert (0 < 10 ^ (L - 1)) by (apply Z.pow_pos_nonneg; lia).
    destruct (Z.ltb_spec (dig c) 0); [lia|].
    destruct (Z.gtb_spec (dig c) 0).
    + symmetry. apply cz_gt. nia.
    + assert (dig c = 0) as -> by lia. rewrite (IH (L - 1)) by lia. f_equal; lia.
Qed.
Lemma zero_vs_fra_ok y L : all_digits y -> len y <= L -> zero_vs_fra y = cz 0 (sv L y).
Proof.
  intros Hy. revert L. induction Hy as [|c y Hc Hy IH]; intros L HL.
  - reflexivity.
  - rewrite len_cons in HL. cbn [zero_vs_fra]. rewrite sv_cons by lia.
    pose proof (is_digit_dig c Hc) as Hd. pose proof (sv_bound (L - 1) y Hy ltac:(lia)) as Hb.
    pose proof (len_nonneg y). assert (0 < 10 ^ (L - 1)) by (apply Z.pow_pos_nonneg; lia).
    destruct (Z.ltb_spec 0 (dig c)).
    + symmetry. apply cz_lt. nia.
    + destruct (Z.gtb_spec 0 (dig c)); [lia|].
      assert (dig c = 0) as -> by lia. rewrite (IH (L - 1)) by lia. f_equal; lia.
Qed.

Lemma cmp_fra_ok x : forall y L, all_digits x -> all_digits y -> len x <= L -> len y <= L ->
  cmp_fra x y = cz (sv L x) (sv L y).
Proof.
  induction x as [|a x IH]; intros y L Hx Hy HLx HLy.
  - cbn [cmp_fra]. rewrite sv_nil. apply zero_vs_fra_ok; assumption.
  - destruct y as [|b y].
    + cbn [cmp_fra]. rewrite sv_nil. apply fra_vs_zero_ok; assumption.
    + cbn [cmp_fra]. inversion Hx as [|? ? Ha Hx']; subst. inversion Hy as [|? ? Hb Hy']; subst.
      rewrite len_cons in HLx, HLy. rewrite !sv_cons by lia.
      pose proof (is_digit_dig a Ha). pose proof (is_digit_dig b Hb).
      pose proof (sv_bound (L - 1) x Hx' ltac:(lia)). pose proof (sv_bound (L - 1) y Hy' ltac:(lia)).
      pose proof (len_nonneg x). assert (0 < 10 ^ (L - 1)) by (apply Z.pow_pos_nonneg; lia).
      destruct (Z.ltb_spec (dig a) (dig b)).
      * symmetry. apply cz_lt. nia.
      * destruct (Z.gtb_spec (dig a) (dig b)).
        -- symmetry. apply cz_gt. nia.
        -- assert (dig a = dig b) as -> by lia. rewrite (IH y (L - 1)) by (auto; lia).
           unfold cz. rewrite Z.add_compare_mono_l. reflexivity.
Qed.

Lemma cmp_lex_ok x : forall y, all_digits x -> all_digits y -> len x = len y ->
  cmp_lex x y = cz (val x) (val y).
Proof.
  induction x as [|a x IH]; intros y Hx Hy Hl.
  - destruct y; [reflexivity|]. rewrite len_cons in Hl. pose proof (len_nonneg y). change (len []) with 0 in Hl. lia.
  - destruct y as [|b y]; [rewrite len_cons in Hl; pose proof (len_nonneg x); change (len []) with 0 in Hl; lia|].
    inversion Hx as [|? ? Ha Hx']; subst. inversion Hy as [|? ? Hb Hy']; subst.
    rewrite !len_cons in Hl. cbn [cmp_lex]. rewrite !val_cons.
    rewrite (dig_lt a b Ha Hb), (dig_lt b a Hb Ha).
    assert (Hxy : len y = len x) by lia. rewrite Hxy.
    pose proof (val_bound x Hx'). pose proof (val_bound y Hy') as By. rewrite Hxy in By.
    pose proof (len_nonneg x). assert (0 < 10 ^ len x) by (apply Z.pow_pos_nonneg; lia).
    destruct (Z.ltb_spec (dig a) (dig b)).
    + symmetry. apply cz_lt. nia.
    + destruct (Z.ltb_spec (dig b) (dig a)).
      * symmetry. apply cz_gt. nia.
      * assert (dig a = dig b) as -> by lia. rewrite (IH y) by (auto; lia).
        unfold cz. rewrite Z.add_compare_mono_l. reflexivity.
Qed.

Definition no_lead_zero (x : bytes) : Prop := forall c r, x = c :: r -> c <> 48%N.

Lemma val_range x : all_digits x -> no_lead_zero x -> x <> [] -> 10 ^ (len x - 1) <= val x < 10 ^ len x.
Proof.
  intros Hx Hz Hne. destruct x as [|c r]; [congruence|].
  split; [|apply val_bound; assumption].
  rewrite len_cons. replace (1 + len r - 1) with (len r) by lia.
  apply val_lower; [assumption|]. apply (Hz c r eq_refl).
Qed.

Lemma cmp_int_ok x y : all_digits x -> all_digits y -> no_lead_zero x -> no_lead_zero y ->
  cmp_int x y = cz (val x) (val y).
Proof.
  intros Hx Hy Zx Zy. unfold cmp_int.
  destruct (Z.eqb_spec (len x) (len y)) as [He|Hne]; cbn [negb orb].
  - destruct (Z.eqb_spec (len x) 0) as [H0|H0].
    + rewrite He, Z.gtb_ltb, Z.ltb_irrefl.
      destruct x; [|rewrite len_cons in H0; pose proof (len_nonneg x); lia].
      destruct y; [reflexivity|rewrite len_cons in He; pose proof (len_nonneg y); change (len []) with 0 in He; lia].
    + apply cmp_lex_ok; assumption.
  - pose proof (len_nonneg x). pose proof (len_nonneg y).
    destruct (Z.ltb_spec (len x) (len y)).
    + symmetry. apply cz_lt. destruct y as [|c y]; [change (len []) with 0 in *; lia|].
      pose proof (val_range (c :: y) Hy Zy ltac:(discriminate)) as [Hlo _].
      pose proof (val_bound x Hx) as [_ Hhi].
      assert (10 ^ len x <= 10 ^ (len (c :: y) - 1)) by (apply Z.pow_le_mono_r; lia). lia.
    + destruct (Z.gtb_spec (len x) (len y)); [|lia].
      symmetry. apply cz_gt. destruct x as [|c x]; [change (len []) with 0 in *; lia|].
      pose proof (val_range (c :: x) Hx Zx ltac:(discriminate)) as [Hlo _].
      pose proof (val_bound y Hy) as [_ Hhi].
      assert (10 ^ len y <= 10 ^ (len (c :: x) - 1)) by (apply Z.pow_le_mono_r; lia). lia.
Qed.

(* structure of a normal number *)
Lemma parts_of n : 0 <= nexp n <= len (nnat n) ->
  nnat n = int_part n ++ fra_part n /\ len (fra_part n) = nexp n /\ len (int_part n) = len (nnat n) - nexp n.
Proof.
  intros H. unfold int_part, fra_part. split; [symmetry; apply firstn_skipn|].
  unfold len in *. rewrite skipn_length, firstn_length. lia.
Qed.

Lemma normal_parts n : normal n ->
  all_digits (int_part n) /\ all_digits (fra_part n) /\ no_lead_zero (int_part n).
Proof.
  intros (Hd & He & Hz & _). destruct (parts_of n He) as (Hs & _ & _).
  rewrite Hs in Hd. apply all_digits_app in Hd. destruct Hd. repeat split; auto.
Qed.

(* |n| scaled to L fraction digits *)
Definition mag (L : Z) (n : number) : Z := val (nnat n) * 10 ^ (L - nexp n).
Lemma mag_split L n : normal n -> nexp n <= L ->
  mag L n = val (int_part n) * 10 ^ L + sv L (fra_part n).
Proof.
  intros Hn HL. destruct Hn as (Hd & He & _). destruct (parts_of n He) as (Hs & Hf & Hi).
  unfold mag, sv. rewrite Hs at 1. rewrite val_app, Hf. rewrite Z.mul_add_distr_r, <- Z.mul_assoc, <- Z.pow_add_r by lia.
  replace (nexp n + (L - nexp n)) with L by lia. reflexivity.
Qed.

Lemma cmp_abs_ok a b L : normal a -> normal b -> nexp a <= L -> nexp b <= L ->
  cmp_abs a b = cz (mag L a) (mag L b).
Proof.
  intros Ha Hb HLa HLb. unfold cmp_abs.
  destruct (normal_parts a Ha) as (Hia & Hfa & Hza). destruct (normal_parts b Hb) as (Hib & Hfb & Hzb).
  rewrite (cmp_int_ok _ _ Hia Hib Hza Hzb).
  rewrite (mag_split L a Ha HLa), (mag_split L b Hb HLb).
  pose proof Ha as (_ & Hea & _). pose proof Hb as (_ & Heb & _).
  destruct (parts_of a Hea) as (_ & Hlfa & _). destruct (parts_of b Heb) as (_ & Hlfb & _).
  pose proof (sv_bound L (fra_part a) Hfa ltac:(lia)). pose proof (sv_bound L (fra_part b) Hfb ltac:(lia)).
  assert (0 < 10 ^ L) by (apply Z.pow_pos_nonneg; lia).
  destruct (Z.lt_trichotomy (val (int_part a)) (val (int_part b))) as [Hlt|[Heq|Hgt]].
  - rewrite (cz_lt _ _ Hlt). cbn. symmetry. apply cz_lt. nia.
  - rewrite (cz_eq _ _ Heq). cbn. rewrite (cmp_fra_ok _ _ L) by (auto; lia).
    rewrite Heq. unfold cz. rewrite Z.add_compare_mono_l. reflexivity.
  - rewrite (cz_gt _ _ Hgt). cbn. symmetry. apply cz_gt. nia.
Qed.

Lemma normal_pos n : normal n -> nnat n <> [] -> 0 < val (nnat n).
Proof.
  intros Hn Hne. pose proof Hn as (Hd & He & Hz & Hl & _).
  destruct (parts_of n He) as (Hs & Hf & Hi).
  destruct (Z.eq_dec (nexp n) 0) as [E0|E0].
  - (* integer: nat = int_part, nonempty, no leading zero *)
    assert (Hfr : fra_part n = []).
    { destruct (fra_part n); [reflexivity|]. rewrite len_cons in Hf. pose proof (len_nonneg b). lia. }
    rewrite Hfr, app_nil_r in Hs. destruct (int_part n) as [|c r] eqn:Ei; [congruence|].
    rewrite Hs. pose proof (val_lower c r) as Hlow. rewrite Hs in Hd.
    specialize (Hlow Hd (Hz c r eq_refl)). pose proof (len_nonneg r).
    assert (0 < 10 ^ len r) by (apply Z.pow_pos_nonneg; lia). lia.
  - destruct (Hl ltac:(lia)) as (l & c & Hlc & Hc). rewrite Hlc in *.
    apply all_digits_app in Hd. destruct Hd as [Hdl Hdc]. inversion Hdc as [|? ? Hcd _]; subst.
    rewrite val_app. change (len [c]) with 1. rewrite Z.pow_1_r.
    pose proof (val_bound l Hdl). change (val [c]) with (0 * 10 + dig c).
    pose proof (is_digit_dig c Hcd). assert (dig c <> 0) by (rewrite dig_zero; assumption). lia.
Qed.

Theorem ncmp_exact a b : normal a -> normal b -> ncmp a b = cmp_to_Z (dcmp (denote a) (denote b)).
Proof.
  intros Ha Hb. set (L := Z.max (nexp a) (nexp b)).
  assert (HLa : nexp a <= L) by lia. assert (HLb : nexp b <= L) by lia.
  assert (Hd : cmp_to_Z (dcmp (denote a) (denote b)) =
               cz ((if nneg a then - mag L a else mag L a)) ((if nneg b then - mag L b else mag L b))).
  { unfold dcmp, denote, cz, mag. cbn [fst snd].
    replace (Z.min (- nexp a) (- nexp b)) with (- L) by lia.
    replace (- nexp a - - L) with (L - nexp a) by lia. replace (- nexp b - - L) with (L - nexp b) by lia.
    destruct (nneg a), (nneg b); rewrite ?Z.mul_opp_l; reflexivity. }
  rewrite Hd. unfold ncmp. rewrite (cmp_abs_ok a b L Ha Hb HLa HLb).
  pose proof Ha as (_ & Hea & _ & _ & Hza). pose proof Hb as (_ & Heb & _ & _ & Hzb).
  assert (Hma : 0 <= mag L a).
  { unfold mag. destruct Ha as (Hda & _). pose proof (val_bound _ Hda). assert (0 < 10 ^ (L - nexp a)) by (apply Z.pow_pos_nonneg; lia). nia. }
  assert (Hmb : 0 <= mag L b).
  { unfold mag. destruct Hb as (Hdb & _). pose proof (val_bound _ Hdb). assert (0 < 10 ^ (L - nexp b)) by (apply Z.pow_pos_nonneg; lia). nia. }
  destruct (nneg a) eqn:Na, (nneg b) eqn:Nb; cbn [Bool.eqb].
  - rewrite cz_opp. reflexivity.
  - assert (nnat a <> []) by (intros E; specialize (Hza E); congruence).
    pose proof (normal_pos a Ha H). symmetry. apply cz_lt.
    assert (0 < mag L a) by (unfold mag; assert (0 < 10 ^ (L - nexp a)) by (apply Z.pow_pos_nonneg; lia); nia). lia.
  - assert (nnat b <> []) by (intros E; specialize (Hzb E); congruence).
    pose proof (normal_pos b Hb H). symmetry. apply cz_gt.
    assert (0 < mag L b) by (unfold mag; assert (0 < 10 ^ (L - nexp b)) by (apply Z.pow_pos_nonneg; lia); nia). lia.
  - reflexivity.
Qed.

(* the five predicates *)
Lemma n_equal_exact a b : normal a -> normal b -> n_equal a b = true <-> dcmp (denote a) (denote b) = Eq.
Proof. intros Ha Hb. unfold n_equal. rewrite (ncmp_exact a b Ha Hb), Z.eqb_eq. destruct (dcmp _ _); cbn; split; congruence || lia. Qed.
Lemma n_gt_exact a b : normal a -> normal b -> n_gt a b = true <-> dcmp (denote a) (denote b) = Gt.
Proof. intros Ha Hb. unfold n_gt. rewrite (ncmp_exact a b Ha Hb), Z.eqb_eq. destruct (dcmp _ _); cbn; split; congruence || lia. Qed.
Lemma n_lt_exact a b : normal a -> normal b -> n_lt a b = true <-> dcmp (denote a) (denote b) = Lt.
Proof. intros Ha Hb. unfold n_lt. rewrite (ncmp_exact a b Ha Hb), Z.eqb_eq. destruct (dcmp _ _); cbn; split; congruence || lia. Qed.
Lemma n_gte_exact a b : normal a -> normal b -> n_gte a b = true <-> dcmp (denote a) (denote b) <> Lt.
Proof. intros Ha Hb. unfold n_gte. rewrite (ncmp_exact a b Ha Hb), orb_true_iff, !Z.eqb_eq. destruct (dcmp _ _); cbn; split; try congruence; try lia; intros; auto. Qed.
Lemma n_lte_exact a b : normal a -> normal b -> n_lte a b = true <-> dcmp (denote a) (denote b) <> Gt.
Proof. intros Ha Hb. unfold n_lte. rewrite (ncmp_exact a b Ha Hb), orb_true_iff, !Z.eqb_eq. destruct (dcmp _ _); cbn; split; try congruence; try lia; intros; auto. Qed.
