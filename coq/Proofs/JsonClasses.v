(* Facts about the byte classes of the JSON scanner model, checked for all 256 byte values by computation. *)
From Coq Require Import List ZArith NArith Bool Lia.
From JS Require Import Base.Res Base.Lex Spec.JsonGrammar Model.JsonScan.
Import ListNotations.
Local Open Scope N_scope.

Definition byte (b : N) : Prop := b < 256.
Definition all_bytes (s : bytes) : Prop := Forall byte s.

Definition kcode (k : jcls) : N :=
  match k with
  | KBlank => 0 | KWs => 1 | KLBrace => 2 | KRBrace => 3 | KLBrack => 4 | KRBrack => 5 | KComma => 6 | KColon => 7
  | KQuote => 8 | KBackslash => 9 | KMinus => 10 | KPlus => 11 | KDot => 12 | KZero => 13 | KNz => 14 | Ke => 15
  | KE => 16 | Kt => 17 | Kr => 18 | Ku => 19 | Kf => 20 | Ka => 21 | Kl => 22 | Ks => 23 | Kn => 24 | Kb => 25
  | KSlash => 26 | KHex => 27 | KCtl => 28 | KOther => 29
  end.
Definition kin (k : jcls) (l : list jcls) : bool := existsb (fun x => kcode x =? kcode k) l.

(* the byte each single-byte class stands for *)
Definition kbyte (k : jcls) : option N :=
  match k with
  | KBlank => Some 32 | KLBrace => Some 123 | KRBrace => Some 125 | KLBrack => Some 91 | KRBrack => Some 93
  | KComma => Some 44 | KColon => Some 58 | KQuote => Some 34 | KBackslash => Some 92 | KMinus => Some 45
  | KPlus => Some 43 | KDot => Some 46 | KZero => Some 48 | Ke => Some 101 | KE => Some 69 | Kt => Some 116
  | Kr => Some 114 | Ku => Some 117 | Kf => Some 102 | Ka => Some 97 | Kl => Some 108 | Ks => Some 115
  | Kn => Some 110 | Kb => Some 98 | KSlash => Some 47
  | _ => None
  end.

Definition facts (b : N) : bool :=
  let k := jcls_of b in
  Bool.eqb (is_ws b) (kin k [KBlank; KWs]) &&
  Bool.eqb (digit b) (k_digit k) &&
  Bool.eqb (digit19 b) (kin k [KNz]) &&
  Bool.eqb (hexdigit b) (k_hex k) &&
  Bool.eqb (is_e b) (kin k [Ke; KE]) &&
  Bool.eqb (simple_escape b) (kin k [Kb; Kf; Kn; Kr; Kt; KBackslash; KSlash; KQuote]) &&
  Bool.eqb (unescaped b) (negb (kin k [KQuote; KBackslash; KCtl; KWs])) &&
  match kbyte k with Some x => b =? x | None => true end.

Fixpoint upto (n : nat) : list N := match n with O => [] | S m => upto m ++ [N.of_nat m] end.
Lemma upto_In n b : (N.to_nat b < n)%nat -> In b (upto n).
Proof.
  induction n as [|n IH]; intros H; [lia|]. cbn [upto]. apply in_or_app.
  destruct (Nat.eq_dec (N.to_nat b) n) as [E|E]; [right; left; subst n; apply N2Nat.id|left; apply IH; lia].
Qed.
Lemma facts_all : forallb facts (upto 256) = true.
Proof. vm_compute. reflexivity. Qed.
Lemma facts_byte b : byte b -> facts b = true.
Proof.
  intros H. pose proof facts_all as F. rewrite forallb_forall in F. apply F. apply upto_In. unfold byte in H. lia.
Qed.

Section Facts.
  Variable b : N.
  Hypothesis Hb : byte b.
  Let F := facts_byte b Hb.
  Lemma f_ws : is_ws b = kin (jcls_of b) [KBlank; KWs].
  Proof. pose proof F as H. unfold facts in H. repeat (apply andb_true_iff in H; destruct H as [H ?]). apply eqb_prop. assumption. Qed.
  Lemma f_digit : digit b = k_digit (jcls_of b).
  Proof. pose proof F as H. unfold facts in H. repeat (apply andb_true_iff in H; destruct H as [H ?]). apply eqb_prop. assumption. Qed.
  Lemma f_digit19 : digit19 b = kin (jcls_of b) [KNz].
  Proof. pose proof F as H. unfold facts in H. repeat (apply andb_true_iff in H; destruct H as [H ?]). apply eqb_prop. assumption. Qed.
  Lemma f_hex : hexdigit b = k_hex (jcls_of b).
  Proof. pose proof F as H. unfold facts in H. repeat (apply andb_true_iff in H; destruct H as [H ?]). apply eqb_prop. assumption. Qed.
  Lemma f_e : is_e b = kin (jcls_of b) [Ke; KE].
  Proof. pose proof F as H. unfold facts in H. repeat (apply andb_true_iff in H; destruct H as [H ?]). apply eqb_prop. assumption. Qed.
  Lemma f_esc : simple_escape b = kin (jcls_of b) [Kb; Kf; Kn; Kr; Kt; KBackslash; KSlash; KQuote].
  Proof. pose proof F as H. unfold facts in H. repeat (apply andb_true_iff in H; destruct H as [H ?]). apply eqb_prop. assumption. Qed.
  Lemma f_unesc : unescaped b = negb (kin (jcls_of b) [KQuote; KBackslash; KCtl; KWs]).
  Proof. pose proof F as H. unfold facts in H. repeat (apply andb_true_iff in H; destruct H as [H ?]). apply eqb_prop. assumption. Qed.
  Lemma f_byte x : kbyte (jcls_of b) = Some x -> b = x.
  Proof.
    pose proof F as H. unfold facts in H. apply andb_true_iff in H. destruct H as [_ H]. intros E. rewrite E in H.
    apply N.eqb_eq. exact H.
  Qed.
End Facts.
