From Coq Require Import List Arith NArith Bool Lia.
From JS Require Import Base.Res Model.Recursion Spec.JsonGrammar.
Import ListNotations.

(* ---------- the written example is RFC 8259 JSON ---------- *)
Fixpoint arr_items (first : bool) (l : list ex) : list N :=
  match l with [] => [] | m :: r => (if first then [] else [44%N]) ++ render m ++ arr_items false r end.
Fixpoint obj_members (first : bool) (l : list ex) : list N :=
  match l with [] => [] | m :: r => (if first then [] else [44%N]) ++ key_text ++ [58%N] ++ render m ++ obj_members false r end.
Lemma render_arr l : render (XArr l) = [91%N] ++ arr_items true l ++ [93%N].
Proof. reflexivity. Qed.
Lemma render_obj l : render (XObj l) = [123%N] ++ obj_members true l ++ [125%N].
Proof. reflexivity. Qed.

Fixpoint xsize (x : ex) : nat :=
  match x with XLit | XNull => 1 | XArr l | XObj l => S (fold_right (fun c a => xsize c + a) 0 l) end.

Lemma key_is_string : JString key_text.
Proof. exists [107%N]. split; [reflexivity|]. constructor; [reflexivity|constructor]. Qed.
Lemma one_is_value : JValue [49%N].
Proof.
  apply jv_number. exists [], [49%N], [], []. repeat split; auto.
  - right. exists 49%N, []. repeat split; auto. constructor.
  - left; reflexivity.
  - left; reflexivity.
Qed.

Lemma elements_of l : (forall m, In m l -> JValue (render m)) -> l <> [] -> JElements (arr_items true l).
Proof.
  intros Hv Hne. destruct l as [|m r]; [congruence|]. clear Hne. revert m Hv.
  induction r as [|m2 r IH]; intros m Hv.
  - cbn [arr_items app]. rewrite app_nil_r. change (render m) with ([] ++ render m ++ []) || idtac.
    replace (render m) with ([] ++ render m ++ []) by (cbn; rewrite app_nil_r; reflexivity).
    apply je_one; [constructor|apply Hv; left; reflexivity|constructor].
  - cbn [arr_items app]. specialize (IH m2 (fun x Hx => Hv x (or_intror Hx))). cbn [arr_items app] in IH.
    replace (render m ++ 44%N :: render m2 ++ arr_items false r) with ([] ++ render m ++ [] ++ 44%N :: (render m2 ++ arr_items false r)) by reflexivity.
    apply je_more; [constructor|apply Hv; left; reflexivity|constructor|exact IH].
Qed.
Lemma members_of l : (forall m, In m l -> JValue (render m)) -> l <> [] -> JMembers (obj_members true l).
Proof.
  intros Hv Hne. destruct l as [|m r]; [congruence|]. clear Hne. revert m Hv.
  induction r as [|m2 r IH]; intros m Hv.
  - cbn [obj_members app]. rewrite app_nil_r.
    replace (key_text ++ 58%N :: render m) with ([] ++ key_text ++ [] ++ 58%N :: [] ++ render m ++ []) by (cbn; rewrite app_nil_r; reflexivity).
    apply jm_one; [constructor|apply key_is_string|constructor|constructor|apply Hv; left; reflexivity|constructor].
  - cbn [obj_members app]. specialize (IH m2 (fun x Hx => Hv x (or_intror Hx))). cbn [obj_members app] in IH.
    replace (key_text ++ 58%N :: render m ++ 44%N :: key_text ++ 58%N :: render m2 ++ obj_members false r)
      with ([] ++ key_text ++ [] ++ 58%N :: [] ++ render m ++ [] ++ 44%N :: (key_text ++ 58%N :: render m2 ++ obj_members false r)) by reflexivity.
    apply jm_more; [constructor|apply key_is_string|constructor|constructor|apply Hv; left; reflexivity|constructor|exact IH].
Qed.

Theorem render_is_json : forall n x, xsize x <= n -> JValue (render x).
Proof.
  induction n as [|n IH]; intros x Hs; [destruct x; cbn in Hs; lia|].
  assert (Hkids : forall l, S (fold_right (fun c a => xsize c + a) 0 l) <= S n -> forall m, In m l -> JValue (render m)).
  { intros l Hl m Hm. apply IH. clear -Hl Hm. induction l as [|c r IHl]; [inversion Hm|]. cbn in Hl.
    destruct Hm as [->|Hm]; [lia|apply IHl; [lia|assumption]]. }
  destruct x as [| |l|l].
  - exact one_is_value.
  - exact jv_null.
  - rewrite render_arr. destruct l as [|m r].
    + cbn. apply (jv_empty_array []). constructor.
    + apply jv_array. apply elements_of; [apply Hkids; exact Hs|discriminate].
  - rewrite render_obj. destruct l as [|m r].
    + cbn. apply (jv_empty_object []). constructor.
    + apply jv_object. apply members_of; [apply Hkids; exact Hs|discriminate].
Qed.

(* ---------- the builder terminates: every type is entered at most twice on a path ---------- *)
Section Term.
  Variable roott : table.
  Variable M : nat.
  Hypothesis HM : Forall (fun te => match snd te with Entry r _ => sz r <= M end) roott.
  Notation build := (build roott).
  Definition keys := map fst roott.
  Definition room (p : list tname) : nat := fold_right (fun t a => (2 - count t p) + a) 0 keys.

  Lemma lookup_in t e : lookup t roott = Some e -> In t keys /\ match e with Entry r _ => sz r <= M end.
  Proof.
    unfold keys. clear -HM. induction roott as [|[n e'] r IH]; cbn [lookup]; [discriminate|].
    inversion HM as [|? ? H1 H2]; subst. destruct (N.eqb_spec n t) as [->|Hne].
    - intros H; inversion H; subst. split; [left; reflexivity|exact H1].
    - intros H. destruct (IH H2 H) as [Hi Hs]. split; [right; exact Hi|exact Hs].
  Qed.
  Lemma count_cons (x t : tname) p : count x (t :: p) = (if N.eqb t x then 1 else 0) + count x p.
  Proof. reflexivity. Qed.
  Lemma room_le t p ks :
    fold_right (fun t0 a => 2 - count t0 (t :: p) + a) 0 ks <= fold_right (fun t0 a => 2 - count t0 p + a) 0 ks.
  Proof.
    induction ks as [|x xs IHx]; [cbn; lia|]. cbn [fold_right]. rewrite count_cons. destruct (N.eqb t x); lia.
  Qed.
  Lemma room_enter t p : In t keys -> count t p <= 1 -> room (t :: p) < room p.
  Proof.
    unfold room. intros Hin Hc. induction keys as [|k ks IH]; [inversion Hin|]. cbn [fold_right].
    pose proof (room_le t p ks) as Hle. rewrite count_cons.
    destruct Hin as [->|Hin].
    - rewrite N.eqb_refl. lia.
    - specialize (IH Hin). destruct (N.eqb t k); lia.
  Qed.

  Definition not_panic {A} (r : res A) : Prop := match r with Panic _ => False | _ => True end.

  Fixpoint beach (f : nat) (p : list tname) (l : list node) : res (list ex) :=
    match l with
    | [] => Ok []
    | c :: r => do x <- build f p c; do xs <- beach f p r; Ok (match x with Some v => v :: xs | None => xs end)
    end.
  Fixpoint pick (f : nat) (p : list tname) (ns : list tname) : res (option ex) :=
    match ns with
    | [] => Ok None
    | t :: r =>
      if Nat.ltb 1 (count t p) then pick f p r
      else match lookup t roott with None => Err 1302 | Some (Entry rt _) => build f (t :: p) rt end
    end.
  Lemma pick_fix f p : forall l,
    (fix pick0 (ns : list tname) : res (option ex) :=
       match ns with
       | [] => Ok None
       | t :: r =>
         if Nat.ltb 1 (count t p) then pick0 r
         else match lookup t roott with None => Err 1302 | Some (Entry rt _) => Recursion.build roott f (t :: p) rt end
       end) l = pick f p l.
  Proof. induction l as [|t r IH]; [reflexivity|]. cbn [pick]. rewrite <- IH. reflexivity. Qed.
  Lemma build_unfold f p n :
    build (S f) p n =
    match n with
    | NLit _ _ => Ok (Some XLit)
    | NArr _ _ items => do xs <- beach f p items; Ok (Some (XArr xs))
    | NObj _ _ props => do xs <- beach f p props; Ok (Some (XObj xs))
    | NRef _ nul names =>
      match names with
      | [] => Err 1302
      | _ => do x <- pick f p names; Ok (match x with None => if nul then Some XNull else None | Some v => Some v end)
      end
    end.
  Proof.
    destruct n as [o u|o u items|o u props|o u names]; try reflexivity; cbn [Recursion.build].
    3: { destruct names as [|t0 r0]; [reflexivity|]. rewrite (pick_fix f p (t0 :: r0)). reflexivity. }
    - assert (E : forall l, (fix each (l : list node) : res (list ex) :=
                    match l with
                    | [] => Ok []
                    | c :: r => do x <- Recursion.build roott f p c; do xs <- each r;
                                Ok (match x with Some v => v :: xs | None => xs end)
                    end) l = beach f p l).
      { induction l as [|c r IH]; [reflexivity|]. cbn [beach]. rewrite IH. reflexivity. }
      rewrite E. reflexivity.
    - assert (E : forall l, (fix each (l : list node) : res (list ex) :=
                    match l with
                    | [] => Ok []
                    | c :: r => do x <- Recursion.build roott f p c; do xs <- each r;
                                Ok (match x with Some v => v :: xs | None => xs end)
                    end) l = beach f p l).
      { induction l as [|c r IH]; [reflexivity|]. cbn [beach]. rewrite IH. reflexivity. }
      rewrite E. reflexivity.
  Qed.

  Lemma beach_ok f p l : (forall c, In c l -> not_panic (build f p c)) -> not_panic (beach f p l).
  Proof.
    induction l as [|c r IH]; intros H; cbn [beach]; [exact I|].
    pose proof (H c (or_introl eq_refl)) as Hc. destruct (build f p c) as [x| |]; cbn [bind]; try exact I; [|contradiction].
    specialize (IH (fun d Hd => H d (or_intror Hd))). destruct (beach f p r); cbn [bind]; auto.
  Qed.
  Lemma sz_child c l : In c l -> sz c <= fold_right (fun c a => sz c + a) 0 l.
  Proof. induction l as [|x r IH]; intros H; [inversion H|]. cbn. destruct H as [->|H]; [lia|specialize (IH H); lia]. Qed.

  Lemma build_total : forall fuel p n, sz n + room p * (M + 1) <= fuel -> not_panic (build fuel p n).
  Proof.
    induction fuel as [|f IH]; intros p n Hb.
    - destruct n; cbn [sz] in Hb; lia.
    - rewrite build_unfold. destruct n as [o u|o u items|o u props|o u names].
      + exact I.
      + assert (H : not_panic (beach f p items)).
        { apply beach_ok. intros c Hc. apply IH. pose proof (sz_child c items Hc). cbn [sz] in Hb. lia. }
        destruct (beach f p items); cbn [bind]; auto.
      + assert (H : not_panic (beach f p props)).
        { apply beach_ok. intros c Hc. apply IH. pose proof (sz_child c props Hc). cbn [sz] in Hb. lia. }
        destruct (beach f p props); cbn [bind]; auto.
      + destruct names as [|t0 r0]; [exact I|]. generalize (t0 :: r0). intros l.
        assert (Hp : not_panic (pick f p l)); [|destruct (pick f p l) as [[x|]| |]; cbn [bind]; auto].
        induction l as [|t r IHl]; [exact I|]. cbn [pick]. destruct (Nat.ltb_spec 1 (count t p)); [exact IHl|].
        destruct (lookup t roott) as [[rt own]|] eqn:El; [|exact I].
        destruct (lookup_in t _ El) as [Hin Hs]. pose proof (room_enter t p Hin ltac:(lia)) as Hr.
        apply IH. cbn [sz] in Hb. nia.
  Qed.

  Theorem example_terminates rootnode :
    not_panic (build (sz rootnode + room [] * (M + 1)) [] rootnode).
  Proof. apply build_total. lia. Qed.
End Term.
