From Coq Require Import List NArith Bool Arith Lia.
From JS Require Import Base.Res Spec.JsonGrammar Model.EnumParse.
Import ListNotations.
Local Open Scope N_scope.

(* ---- the language, declaratively ---- *)
(* a JSON scalar without an exponent *)
Definition EnumScalar (lit : bytes) : Prop :=
  JString lit \/
  (exists m i f, lit = m ++ i ++ f /\ (m = [] \/ m = [45]) /\ JInt i /\ JFrac f) \/
  lit = w_true \/ lit = w_false \/ lit = w_null.
Definition no_nl (t : bytes) : Prop := Forall (fun c => is_nl c = false) t.
(* the text after the opening bracket as a sequence of lexical items; blanks, newlines, "// ..." up to the end of
   its line (or of the text) and "/* ... */" separate them and carry no item *)
Inductive LexOf : bytes -> list tok -> Prop :=
| lo_nil : LexOf [] []
| lo_ws c r t : is_ws c = true -> LexOf r t -> LexOf (c :: r) t
| lo_rb r t : LexOf r t -> LexOf (93 :: r) (TRB :: t)
| lo_comma r t : LexOf r t -> LexOf (44 :: r) (TComma :: t)
| lo_scalar lit r t : EnumScalar lit -> LexOf r t -> LexOf (lit ++ r) (TScalar lit :: t)
| lo_line_eof c : no_nl c -> LexOf (47 :: 47 :: c) []
| lo_line c n r t : no_nl c -> is_nl n = true -> LexOf r t -> LexOf (47 :: 47 :: c ++ n :: r) t
| lo_block c r t : LexOf r t -> LexOf (47 :: 42 :: c ++ 42 :: 47 :: r) t.
(* scalars separated by commas, then the closing bracket *)
Fixpoint toks_of (lits : list bytes) : list tok :=
  match lits with
  | [] => [TRB]
  | [l] => [TScalar l; TRB]
  | l :: r => TScalar l :: TComma :: toks_of r
  end.
Definition EnumText (s : bytes) (lits : list bytes) : Prop :=
  exists w r, s = w ++ 91 :: r /\ ws w /\ LexOf r (toks_of lits).

(* ---- scalars ---- *)
Lemma take_digits_spec s : forall d r, take_digits s = (d, r) -> s = d ++ r /\ digits d.
Proof.
  induction s as [|c s IH]; intros d r H; cbn [take_digits] in H.
  - inversion H. split; [reflexivity|constructor].
  - destruct (digit c) eqn:Ed.
    + destruct (take_digits s) as [d' r'] eqn:Et. inversion H; subst. destruct (IH d' r eq_refl) as [-> Hd].
      split; [reflexivity|constructor; assumption].
    + inversion H. split; [reflexivity|constructor].
Qed.

Lemma str_body_spec s : forall acc lit rest, str_body s acc = Some (lit, rest) ->
  exists body, s = body ++ 34 :: rest /\ StrBody body /\ lit = rev acc ++ body ++ [34].
Proof.
  induction s as [s IH] using (well_founded_induction (Wf_nat.well_founded_ltof _ (@length N))).
  intros acc lit rest H. destruct s as [|c r]; [discriminate|]. cbn [str_body] in H.
  destruct (N.eqb_spec c 34) as [->|Hq].
  - inversion H; subst. exists []. split; [reflexivity|]. split; [constructor|]. cbn [rev app]. rewrite <- ?app_assoc. reflexivity.
  - destruct (N.eqb_spec c 92) as [->|Hbs].
    + destruct r as [|e r1]; [discriminate|]. destruct (simple_escape e) eqn:Ee.
      * destruct (IH r1 ltac:(unfold ltof; cbn; lia) _ _ _ H) as (b & -> & Hb & ->). exists (92 :: e :: b).
        split; [reflexivity|]. split; [constructor; assumption|]. cbn [rev]. rewrite <- !app_assoc. reflexivity.
      * destruct (N.eqb_spec e 117) as [->|]; [|discriminate].
        destruct r1 as [|h1 [|h2 [|h3 [|h4 r2]]]]; try discriminate.
        destruct (hexdigit h1 && hexdigit h2 && hexdigit h3 && hexdigit h4) eqn:Eh; [|discriminate].
        apply andb_true_iff in Eh. destruct Eh as [Eh E4]. apply andb_true_iff in Eh. destruct Eh as [Eh E3]. apply andb_true_iff in Eh. destruct Eh as [E1 E2].
        destruct (IH r2 ltac:(unfold ltof; cbn; lia) _ _ _ H) as (b & -> & Hb & ->). exists (92 :: 117 :: h1 :: h2 :: h3 :: h4 :: b).
        split; [reflexivity|]. split; [constructor; assumption|]. cbn [rev]. rewrite <- !app_assoc. reflexivity.
    + destruct (32 <=? c) eqn:E32; [|discriminate].
      destruct (IH r ltac:(unfold ltof; cbn; lia) _ _ _ H) as (b & -> & Hb & ->). exists (c :: b).
      split; [reflexivity|]. split.
      * constructor; [|exact Hb]. unfold unescaped. rewrite E32. apply N.eqb_neq in Hq, Hbs. rewrite Hq, Hbs. reflexivity.
      * cbn [rev]. rewrite <- !app_assoc. reflexivity.
Qed.

Lemma num_body_spec s n rest : num_body s = Some (n, rest) ->
  s = n ++ rest /\ exists i f, n = i ++ f /\ JInt i /\ JFrac f.
Proof.
  unfold num_body. destruct s as [|c r]; [discriminate|].
  set (ir := if c =? 48 then Some ([48], r) else if digit19 c then let (d, r') := take_digits r in Some (c :: d, r') else None).
  assert (Hir : forall i r1, ir = Some (i, r1) -> c :: r = i ++ r1 /\ JInt i).
  { intros i r1. unfold ir. destruct (N.eqb_spec c 48) as [->|Hz].
    - intros H; inversion H; subst. split; [reflexivity|left; reflexivity].
    - destruct (digit19 c) eqn:E19; [|discriminate]. destruct (take_digits r) as [d r'] eqn:Et. intros H; inversion H; subst.
      destruct (take_digits_spec _ _ _ Et) as [-> Hd]. split; [reflexivity|right; eauto]. }
  destruct ir as [[i r1]|] eqn:Eir; [|discriminate]. destruct (Hir i r1 eq_refl) as [Hs Hi]. clear Hir.
  assert (Hplain : Some (i, r1) = Some (n, rest) -> c :: r = n ++ rest /\ exists i f, n = i ++ f /\ JInt i /\ JFrac f).
  { intros H; inversion H; subst. split; [exact Hs|]. exists n, []. rewrite app_nil_r. split; [reflexivity|]. split; [exact Hi|left; reflexivity]. }
  destruct r1 as [|c1 r2]; [exact Hplain|].
  destruct (N.eqb_spec c1 46) as [->|Hd]; [|destruct c1 as [|p]; try exact Hplain;
    repeat (destruct p as [p|p|]; try exact Hplain); exfalso; apply Hd; reflexivity].
  destruct (take_digits r2) as [d r3] eqn:Et. destruct (take_digits_spec _ _ _ Et) as [-> Hdg].
  destruct d as [|d0 d']; [exact Hplain|]. intros H; inversion H; subst. split; [rewrite Hs, <- app_assoc; reflexivity|].
  exists i, (46 :: d0 :: d'). split; [reflexivity|]. split; [exact Hi|]. right. exists d0, d'. inversion Hdg; subst. auto.
Qed.

Lemma strip_prefix_spec p : forall s r, strip_prefix p s = Some r -> s = p ++ r.
Proof.
  induction p as [|a p IH]; intros s r H; cbn [strip_prefix] in H; [inversion H; reflexivity|].
  destruct s as [|b s]; [discriminate|]. destruct (N.eqb_spec a b) as [->|]; [|discriminate]. rewrite (IH _ _ H). reflexivity.
Qed.

Lemma scalar_spec s lit rest : scalar s = Some (lit, rest) -> s = lit ++ rest /\ EnumScalar lit.
Proof.
  unfold scalar. destruct s as [|c r]; [discriminate|].
  assert (Hkw : match strip_prefix w_true (c :: r) with Some r0 => Some (w_true, r0) | None =>
                match strip_prefix w_false (c :: r) with Some r0 => Some (w_false, r0) | None =>
                match strip_prefix w_null (c :: r) with Some r0 => Some (w_null, r0) | None => None end end end = Some (lit, rest) ->
                c :: r = lit ++ rest /\ EnumScalar lit).
  { destruct (strip_prefix w_true (c :: r)) as [r0|] eqn:E1.
    - intros H; inversion H; subst. split; [apply strip_prefix_spec; exact E1|right; right; left; reflexivity].
    - destruct (strip_prefix w_false (c :: r)) as [r0|] eqn:E2.
      + intros H; inversion H; subst. split; [apply strip_prefix_spec; exact E2|right; right; right; left; reflexivity].
      + destruct (strip_prefix w_null (c :: r)) as [r0|] eqn:E3; [|discriminate].
        intros H; inversion H; subst. split; [apply strip_prefix_spec; exact E3|right; right; right; right; reflexivity]. }
  assert (Hnum : num_body (c :: r) = Some (lit, rest) -> c :: r = lit ++ rest /\ EnumScalar lit).
  { intros H. destruct (num_body_spec _ _ _ H) as (Hs & i & f & -> & Hi & Hf). split; [exact Hs|]. right; left. exists [], i, f. auto. }
  destruct (N.eqb_spec c 34) as [->|H34].
  - intros H. destruct (str_body_spec _ _ _ _ H) as (b & -> & Hb & ->). cbn [rev app]. split; [rewrite <- app_assoc; reflexivity|].
    left. exists b. split; [reflexivity|exact Hb].
  - destruct (N.eqb_spec c 45) as [->|H45].
    + destruct (num_body r) as [[n r']|] eqn:En; [|discriminate]. intros H; inversion H; subst.
      destruct (num_body_spec _ _ _ En) as (-> & i & f & -> & Hi & Hf). split; [reflexivity|]. right; left. exists [45], i, f. auto.
    + assert (Hgen : (if digit c then num_body (c :: r) else
                        match strip_prefix w_true (c :: r) with Some r0 => Some (w_true, r0) | None =>
                        match strip_prefix w_false (c :: r) with Some r0 => Some (w_false, r0) | None =>
                        match strip_prefix w_null (c :: r) with Some r0 => Some (w_null, r0) | None => None end end end) = Some (lit, rest) ->
                      c :: r = lit ++ rest /\ EnumScalar lit) by (destruct (digit c); assumption).
      destruct c as [|p]; [exact Hgen|].
      repeat (destruct p as [p|p|]; try exact Hgen); exfalso; (apply H34; reflexivity) || (apply H45; reflexivity).
Qed.

(* ---- annotations ---- *)
Lemma drop_line_spec s : (no_nl s /\ drop_line s = []) \/ exists c n, s = c ++ n :: drop_line s /\ no_nl c /\ is_nl n = true.
Proof.
  induction s as [|x s IH]; [left; split; [constructor|reflexivity]|]. cbn [drop_line]. destruct (is_nl x) eqn:En.
  - right. exists [], x. split; [reflexivity|]. split; [constructor|exact En].
  - destruct IH as [[Hn Hd]|(c & n & Hs & Hc & Hn)].
    + left. split; [constructor; assumption|exact Hd].
    + right. exists (x :: c), n. split; [cbn; f_equal; exact Hs|]. split; [constructor; assumption|exact Hn].
Qed.
Lemma close_block_spec s : forall r, close_block s = Some r -> exists c, s = c ++ 42 :: 47 :: r.
Proof.
  induction s as [|x s IH]; intros r H; [discriminate|].
  assert (Hrec : close_block s = Some r -> exists c, x :: s = c ++ 42 :: 47 :: r).
  { intros H'. destruct (IH _ H') as [c ->]. exists (x :: c). reflexivity. }
  cbn [close_block] in H. destruct (N.eqb_spec x 42) as [->|Hx].
  - destruct s as [|y s']; [exact (Hrec H)|]. destruct (N.eqb_spec y 47) as [->|Hy].
    + inversion H; subst. exists []. reflexivity.
    + destruct y as [|p]; [exact (Hrec H)|]. repeat (destruct p as [p|p|]; try exact (Hrec H)). exfalso; apply Hy; reflexivity.
  - destruct x as [|p]; [exact (Hrec H)|]. repeat (destruct p as [p|p|]; try exact (Hrec H)). exfalso; apply Hx; reflexivity.
Qed.

(* ---- the lexer is sound ---- *)
Theorem lex_sound : forall fuel s ts, lex fuel s = Ok ts -> LexOf s ts.
Proof.
  induction fuel as [|f IH]; intros s ts H; [discriminate|]. cbn [lex] in H. destruct s as [|c r]; [inversion H; constructor|].
  destruct (is_ws c) eqn:Ews; [apply lo_ws; [exact Ews|apply IH; exact H]|].
  destruct (N.eqb_spec c 91) as [->|H91]; [discriminate|].
  destruct (N.eqb_spec c 93) as [->|H93].
  { destruct (lex f r) as [t| |] eqn:El; cbn [bind] in H; try discriminate. inversion H; subst. apply lo_rb. apply IH; exact El. }
  destruct (N.eqb_spec c 44) as [->|H44].
  { destruct (lex f r) as [t| |] eqn:El; cbn [bind] in H; try discriminate. inversion H; subst. apply lo_comma. apply IH; exact El. }
  destruct (N.eqb_spec c 47) as [->|H47].
  { destruct r as [|c1 r']; [discriminate|].
    destruct (N.eqb_spec c1 47) as [->|Hs].
    - destruct (drop_line_spec r') as [[Hn Hd]|(cm & n & Hs & Hc & Hn)].
      + rewrite Hd in H. destruct f; [discriminate|]. cbn [lex] in H. inversion H; subst. apply lo_line_eof; exact Hn.
      + apply IH in H. rewrite Hs. exact (lo_line cm n _ _ Hc Hn H).
    - destruct (N.eqb_spec c1 42) as [->|Ha].
      + destruct (close_block r') as [r''|] eqn:Ec; [|discriminate]. destruct (close_block_spec _ _ Ec) as [cm ->]. apply lo_block. apply IH; exact H.
      + exfalso. destruct c1 as [|p]; [discriminate|]. repeat (destruct p as [p|p|]; try discriminate); (apply Hs; reflexivity) || (apply Ha; reflexivity). }
  destruct (scalar (c :: r)) as [[lit rest]|] eqn:Es; [|discriminate].
  destruct (lex f rest) as [t| |] eqn:El; cbn [bind] in H; try discriminate. inversion H; subst.
  destruct (scalar_spec _ _ _ Es) as [-> Hl]. apply lo_scalar; [exact Hl|apply IH; exact El].
Qed.

(* ---- the parser ---- *)
Lemma items_spec ts : forall lits, items ts = Ok lits -> lits <> [] /\ ts = toks_of lits.
Proof.
  induction ts as [ts IH] using (well_founded_induction (Wf_nat.well_founded_ltof _ (@length tok))).
  intros lits H. destruct ts as [|t0 r]; [discriminate|]. destruct t0; try discriminate. destruct r as [|t1 r']; [discriminate|].
  destruct t1; try discriminate.
  - destruct r'; [|discriminate]. inversion H; subst. split; [discriminate|reflexivity].
  - cbn [items] in H. destruct (items r') as [x| |] eqn:Ei; cbn [bind] in H; try discriminate. inversion H; subst.
    destruct (IH r' ltac:(unfold ltof; cbn; lia) _ Ei) as [Hne ->]. split; [discriminate|]. destruct x; [congruence|reflexivity].
Qed.
Lemma body_spec ts lits : body ts = Ok lits -> ts = toks_of lits.
Proof.
  unfold body. destruct ts as [|t0 r]; [discriminate|]. destruct t0.
  - intros H; discriminate.
  - destruct r; [intros H; inversion H; reflexivity|intros H; discriminate].
  - intros H; discriminate.
  - intros H. apply items_spec in H. apply H.
Qed.

(* ---- distinct ---- *)
Lemma distinct_spec ks : distinct ks = true ->
  forall l1 a l2 b l3, ks = l1 ++ a :: l2 ++ b :: l3 -> key_eqb a b = false.
Proof.
  induction ks as [|k r IH]; intros H l1 a l2 b l3 E; [destruct l1; discriminate|].
  cbn [distinct] in H. apply andb_true_iff in H. destruct H as [Hk Hr]. destruct l1 as [|x l1]; cbn [app] in E; inversion E; subst.
  - apply negb_true_iff in Hk. destruct (key_eqb a b) eqn:Eab; [|reflexivity].
    assert (existsb (key_eqb a) (l2 ++ b :: l3) = true) by (apply existsb_exists; exists b; split; [apply in_or_app; right; left; reflexivity|exact Eab]). congruence.
  - eapply IH; [exact Hr|reflexivity].
Qed.
Lemma skip_ws_spec s : exists w, s = w ++ skip_ws s /\ ws w.
Proof.
  induction s as [|c r IH]; [exists []; split; [reflexivity|constructor]|]. cbn [skip_ws]. destruct (is_ws c) eqn:E.
  - destruct IH as (w & Hs & Hw). exists (c :: w). split; [cbn; f_equal; exact Hs|constructor; assumption].
  - exists []. split; [reflexivity|constructor].
Qed.

(* ---- Check()/Values(): what is accepted is an enum text, the literals are the listed scalars, and no two of them
        denote the same string or are the same literal ---- *)
Theorem eparse_sound s lits : eparse s = Ok lits ->
  EnumText s lits /\
  forall l1 a l2 b l3, lits = l1 ++ a :: l2 ++ b :: l3 -> key_eqb (key_of a) (key_of b) = false.
Proof.
  unfold eparse. intros H. destruct (skip_ws_spec s) as (w & Hs & Hw). destruct (skip_ws s) as [|c r]; [discriminate|].
  destruct (N.eqb_spec c 91) as [->|Hc]; [|exfalso; destruct c as [|p]; [discriminate|]; repeat (destruct p as [p|p|]; try discriminate); apply Hc; reflexivity].
  destruct (lex (S (length r)) r) as [ts| |] eqn:El; cbn [bind] in H; try discriminate.
  destruct (body ts) as [ls| |] eqn:Eb; cbn [bind] in H; try discriminate.
  destruct (distinct (map key_of ls)) eqn:Ed; [|discriminate]. inversion H; subst.
  apply body_spec in Eb. subst ts. split.
  - exists w, r. split; [first [exact Hs|reflexivity]|]. split; [exact Hw|apply lex_sound with (fuel := S (length r)); exact El].
  - intros l1 a l2 b l3 E. apply (distinct_spec _ Ed (map key_of l1) (key_of a) (map key_of l2) (key_of b) (map key_of l3)).
    rewrite E, !map_app. cbn [map]. rewrite map_app. reflexivity.
Qed.
