From Coq Require Import List NArith Bool Arith Lia.
From JS Require Import Model.Pools Model.Conc.
Import ListNotations.

(* ---------- Once ---------- *)
Lemma once_all_done {V} (callers : list (unit -> V)) : forall o v, odone o = true -> oval o = Some v ->
  fst (once_all o callers) = o /\ Forall (fun x => x = Some v) (snd (once_all o callers)).
Proof.
  induction callers as [|f r IH]; intros o v Hd Hv; cbn [once_all]; [split; [reflexivity|constructor]|].
  unfold once_do. rewrite Hd. destruct (IH o v Hd Hv) as [H1 H2]. destruct (once_all o r) as [o2 vs]. cbn in *.
  split; [assumption|constructor; [assumption|assumption]].
Qed.
Theorem once_runs_once {V} (f : unit -> V) (r : list (unit -> V)) :
  oruns (fst (once_all once0 (f :: r))) = 1 /\ Forall (fun x => x = Some (f tt)) (snd (once_all once0 (f :: r))).
Proof.
  cbn [once_all]. unfold once_do. cbn [odone once0].
  match goal with |- context [once_all ?o r] => remember o as o1 eqn:Eo end.
  assert (Hd : odone o1 = true) by (subst; reflexivity). assert (Hv : oval o1 = Some (f tt)) by (subst; reflexivity).
  destruct (once_all_done r o1 (f tt) Hd Hv) as [H1 H2]. destruct (once_all o1 r) as [o2 vs]. cbn [fst snd] in *.
  subst o2. split; [subst o1; reflexivity|constructor; [reflexivity|assumption]].
Qed.

(* ---------- pools under interleaving ---------- *)
(* a View result can be overwritten by another goroutine: two threads, the second takes the first one's buffer
   after its Put *)
Theorem view_interleaving_refuted :
  exists calls sched t v, final_value (crun (ginit calls) sched) t = Some v /\ v <> fst (nth t calls ([]%list, Copy)).
Proof.
  exists [([1; 2]%N, View); ([9; 9]%N, View)],
         [(0, None); (0, None); (0, None); (0, None); (1, Some 0); (1, None)], 0, [9; 9]%N.
  vm_compute. split; [reflexivity|discriminate].
Qed.
