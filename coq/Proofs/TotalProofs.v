From Coq Require Import List NArith Bool Arith Lia.
From JS Require Import Base.Res Spec.JsonGrammar Model.EnumParse Proofs.EnumProofs Proofs.JsonValueProofs.
Import ListNotations.
Local Open Scope N_scope.

(* ---- the enum rule parser always answers: accepted or refused, for every byte string ---- *)
Definition no_panic {A} (r : res A) : Prop := match r with Panic _ => False | _ => True end.

Lemma drop_line_len s : (length (drop_line s) <= length s)%nat.
Proof. induction s as [|c s IH]; cbn [drop_line length]; [lia|]. destruct (is_nl c); lia. Qed.
Lemma close_block_len s r : close_block s = Some r -> (length r < length s)%nat.
Proof. intros H. destruct (close_block_spec s r H) as [c ->]. rewrite app_length. cbn [length]. lia. Qed.
Lemma scalar_len s lit rest : scalar s = Some (lit, rest) -> (length rest < length s)%nat.
Proof.
  intros H. destruct (scalar_spec s lit rest H) as [-> Hl]. destruct (scalar_head lit Hl) as (c & l' & -> & _).
  rewrite app_length. cbn [length]. lia.
Qed.
Lemma bind_no_panic {A B} (r : res A) (k : A -> res B) : no_panic r -> (forall a, no_panic (k a)) -> no_panic (bind r k).
Proof. destruct r; cbn; auto. Qed.

Theorem lex_total : forall f s, (length s < f)%nat -> no_panic (lex f s).
Proof.
  induction f as [|f IH]; intros s Hf; [lia|]. cbn [lex]. destruct s as [|c r]; [exact I|]. cbn [length] in Hf.
  destruct (is_ws c); [apply IH; lia|].
  destruct (c =? 91); [exact I|].
  destruct (c =? 93); [apply bind_no_panic; [apply IH; lia|intros; exact I]|].
  destruct (c =? 44); [apply bind_no_panic; [apply IH; lia|intros; exact I]|].
  destruct (c =? 47).
  - destruct r as [|c1 r']; [exact I|].
    assert (Hd : no_panic (lex f (drop_line r'))) by (apply IH; pose proof (drop_line_len r'); cbn [length] in Hf; lia).
    assert (Hb : no_panic (match close_block r' with Some r'' => lex f r'' | None => Err 303 end)).
    { destruct (close_block r') as [r''|] eqn:E; [|exact I]. apply IH. pose proof (close_block_len _ _ E). cbn [length] in Hf. lia. }
    destruct c1 as [|p]; [exact I|]. repeat (destruct p as [p|p|]; try exact I); assumption.
  - destruct (scalar (c :: r)) as [[lit rest]|] eqn:E; [|exact I].
    apply bind_no_panic; [apply IH; pose proof (scalar_len _ _ _ E) as H; cbn [length] in H; lia|intros; exact I].
Qed.
Lemma items_total ts : no_panic (items ts).
Proof.
  induction ts as [ts IH] using (well_founded_induction (Wf_nat.well_founded_ltof _ (@length tok))).
  destruct ts as [|t0 r]; [exact I|]. destruct t0; try exact I. destruct r as [|t1 r']; [exact I|]. destruct t1; try exact I.
  - destruct r'; exact I.
  - cbn [items]. apply bind_no_panic; [apply IH; unfold ltof; cbn; lia|intros; exact I].
Qed.
Theorem eparse_total s : no_panic (eparse s).
Proof.
  unfold eparse. destruct (skip_ws s) as [|c r]; [exact I|].
  assert (H : no_panic (do ts <- lex (S (length r)) r; do lits <- body ts; if distinct (map key_of lits) then Ok lits else Err 810)).
  { apply bind_no_panic; [apply lex_total; lia|]. intros ts. apply bind_no_panic.
    - unfold body. destruct ts as [|t0 r0]; [exact I|]. destruct t0; try apply items_total. destruct r0; [exact I|apply items_total].
    - intros lits. destruct (distinct (map key_of lits)); exact I. }
  destruct c as [|p]; [exact I|]. repeat (destruct p as [p|p|]; try exact I). exact H.
Qed.

(* ---- completeness of the enum parser: every text of the grammar is accepted ---- *)
(* the grammar with its two reading conventions made explicit: a scalar ends where it cannot be extended (so it is
   followed by a separator, not by a digit or a decimal point), and a block annotation ends at its first closing mark *)
Definition no_close (c : bytes) : Prop := (forall a b, c <> a ++ 42 :: 47 :: b) /\ (forall a, c <> a ++ [42]).
Inductive LexD : bytes -> list tok -> Prop :=
| ld_nil : LexD [] []
| ld_ws c r t : is_ws c = true -> LexD r t -> LexD (c :: r) t
| ld_rb r t : LexD r t -> LexD (93 :: r) (TRB :: t)
| ld_comma r t : LexD r t -> LexD (44 :: r) (TComma :: t)
| ld_scalar lit r t : EnumScalar lit -> stop r -> LexD r t -> LexD (lit ++ r) (TScalar lit :: t)
| ld_line_eof c : no_nl c -> LexD (47 :: 47 :: c) []
| ld_line c n r t : no_nl c -> is_nl n = true -> LexD r t -> LexD (47 :: 47 :: c ++ n :: r) t
| ld_block c r t : no_close c -> LexD r t -> LexD (47 :: 42 :: c ++ 42 :: 47 :: r) t.

Lemma drop_line_nl c n r : no_nl c -> is_nl n = true -> drop_line (c ++ n :: r) = r.
Proof. intros Hc Hn. induction Hc as [|x c Hx _ IH]; cbn [app drop_line]; [rewrite Hn; reflexivity|]. rewrite Hx. exact IH. Qed.
Lemma drop_line_eof c : no_nl c -> drop_line c = [].
Proof. induction 1 as [|x c Hx _ IH]; cbn [drop_line]; [reflexivity|]. rewrite Hx. exact IH. Qed.
Lemma close_block_first c r : no_close c -> close_block (c ++ 42 :: 47 :: r) = Some r.
Proof.
  intros [Hno Hedge]. induction c as [|x c IH]; cbn [app close_block]; [reflexivity|].
  assert (Hrec : close_block (c ++ 42 :: 47 :: r) = Some r).
  { apply IH; [intros a b E; apply (Hno (x :: a) b); rewrite E; reflexivity|intros a E; apply (Hedge (x :: a)); rewrite E; reflexivity]. }
  destruct (N.eqb_spec x 42) as [->|Hx].
  - destruct c as [|y c']; cbn [app].
    + exfalso. exact (Hedge [] eq_refl).
    + destruct (N.eqb_spec y 47) as [->|Hy]; [exfalso; exact (Hno [] c' eq_refl)|].
      cbn [app] in Hrec. destruct y as [|p]; [exact Hrec|]. repeat (destruct p as [p|p|]; try exact Hrec). congruence.
  - destruct x as [|p]; [exact Hrec|]. repeat (destruct p as [p|p|]; try exact Hrec). congruence.
Qed.

Lemma lex_scalar_step f lit r : EnumScalar lit -> stop r -> lex (S f) (lit ++ r) = (do t <- lex f r; Ok (TScalar lit :: t)).
Proof.
  intros Hl Hr. destruct (scalar_head lit Hl) as (c & l' & -> & Hw & H91 & _ & H93 & _).
  assert (Hc44 : c <> 44 /\ c <> 47).
  { destruct Hl as [(b & E & _)|[(m & i & fr & E & Hm & Hi & _)|[E|[E|E]]]]; try (inversion E; subst; split; discriminate).
    destruct Hm as [-> | ->]; cbn [app] in E.
    - destruct Hi as [-> |(d & ds & -> & Hd & _)]; cbn [app] in E; inversion E; subst; [split; discriminate|].
      unfold digit19 in Hd. apply andb_true_iff in Hd. destruct Hd as [H1 H2]. apply N.leb_le in H1, H2. split; lia.
    - inversion E; subst. split; discriminate. }
  destruct Hc44 as [H44 H47].
  pose proof (scalar_rescan (c :: l') Hl r Hr) as Hs. cbn [app] in *. cbn [lex]. rewrite Hw.
  apply N.eqb_neq in H91, H93, H44, H47. rewrite H91, H93, H44, H47, Hs. reflexivity.
Qed.

Theorem lex_complete s ts : LexD s ts -> forall f, (length s < f)%nat -> lex f s = Ok ts.
Proof.
  induction 1 as [|c r t Hc _ IH|r t _ IH|r t _ IH|lit r t Hl Hr _ IH|c Hc|c n r t Hc Hn _ IH|c r t Hc _ IH]; intros f Hf.
  - destruct f; [lia|reflexivity].
  - destruct f; [lia|]. cbn [lex]. rewrite Hc. apply IH. cbn [length] in Hf. lia.
  - destruct f; [lia|]. cbn [lex]. change (is_ws 93) with false. cbn [N.eqb Pos.eqb]. rewrite IH by (cbn [length] in Hf; lia). reflexivity.
  - destruct f; [lia|]. cbn [lex]. change (is_ws 44) with false. cbn [N.eqb Pos.eqb]. rewrite IH by (cbn [length] in Hf; lia). reflexivity.
  - destruct f; [lia|]. rewrite (lex_scalar_step f lit r Hl Hr). rewrite IH; [reflexivity|].
    destruct (scalar_head lit Hl) as (c & l' & -> & _). rewrite app_length in Hf. cbn [length] in Hf. lia.
  - destruct f; [lia|]. cbn [lex]. change (is_ws 47) with false. cbn [N.eqb Pos.eqb]. rewrite (drop_line_eof c Hc).
    destruct f; [cbn [length] in Hf; lia|reflexivity].
  - destruct f; [lia|]. cbn [lex]. change (is_ws 47) with false. cbn [N.eqb Pos.eqb]. rewrite (drop_line_nl c n r Hc Hn).
    apply IH. cbn [length] in Hf. rewrite app_length in Hf. cbn [length] in Hf. lia.
  - destruct f; [lia|]. cbn [lex]. change (is_ws 47) with false. cbn [N.eqb Pos.eqb]. rewrite (close_block_first c r Hc).
    apply IH. cbn [length] in Hf. rewrite app_length in Hf. cbn [length] in Hf. lia.
Qed.

Lemma items_toks lits : lits <> [] -> items (toks_of lits) = Ok lits.
Proof.
  induction lits as [|l r IH]; [congruence|]. intros _. destruct r as [|l2 r'].
  - reflexivity.
  - change (toks_of (l :: l2 :: r')) with (TScalar l :: TComma :: toks_of (l2 :: r')). cbn [items]. rewrite IH by discriminate. reflexivity.
Qed.
Lemma body_toks lits : body (toks_of lits) = Ok lits.
Proof.
  destruct lits as [|l r]; [reflexivity|]. unfold body.
  pose proof (items_toks (l :: r) ltac:(discriminate)) as H. destruct r; exact H.
Qed.
Lemma skip_ws_app w s : ws w -> skip_ws (w ++ s) = skip_ws s.
Proof. induction 1 as [|c w Hc _ IH]; cbn [app skip_ws]; [reflexivity|]. rewrite Hc. exact IH. Qed.

(* every enum text (blanks, "[", scalars separated by commas with blanks, newlines and annotations around them, "]") whose
   scalars are pairwise different is accepted, and Values() lists exactly those scalars *)
Theorem eparse_complete w r lits : ws w -> LexD r (toks_of lits) -> distinct (map key_of lits) = true ->
  eparse (w ++ 91 :: r) = Ok lits.
Proof.
  intros Hw Hl Hd. unfold eparse. rewrite (skip_ws_app w _ Hw). cbn [skip_ws]. change (is_ws 91) with false. cbn iota.
  rewrite (lex_complete r _ Hl (S (length r)) ltac:(lia)). cbn [bind]. rewrite body_toks. cbn [bind]. rewrite Hd. reflexivity.
Qed.
