From Coq Require Import List NArith Bool Arith Lia.
From JS Require Import Base.Res Spec.JsonGrammar Model.EnumParse Proofs.EnumProofs Proofs.JsonValueProofs.
Import ListNotations.
Local Open Scope N_scope.

(* ---- the enum rule parser always answers: accepted or refused, for every byte string ---- *)
Definition no_panic {A} (r : res A) : Prop := match r with Panic _ => False | _ => True end.

Lemma drop_line_len s : (length (drop_line s) <= length s)%nat.
Proof. induction s as [|c s IH]; cbn [drop_line length]; [lia|]. destruct (is_nl c); lia. Qed.
Lemma close_block_len s r : close_block s = Some r -> (length r < length s)%nat.
Proof. intros H. destruct (close_block_spec s r H) as [c ->]. rewrite app_length. cbn [length]. lia. Qed.
Lemma scalar_len s lit rest : scalar s = Some (lit, rest) -> (length rest < length s)%nat.
Proof.
  intros H. destruct (scalar_spec s lit rest H) as [-> Hl]. destruct (scalar_head lit Hl) as (c & l' & -> & _).
  rewrite app_length. cbn [length]. lia.
Qed.
Lemma bind_no_panic {A B} (r : res A) (k : A -> res B) : no_panic r -> (forall a, no_panic (k a)) -> no_panic (bind r k).
Proof. destruct r; cbn; auto. Qed.

Theorem lex_total : forall f s, (length s < f)%nat -> no_panic (lex f s).
Proof.
  induction f as [|f IH]; intros s Hf; [lia|]. cbn [lex]. destruct s as [|c r]; [exact I|]. cbn [length] in Hf.
  destruct (is_ws c); [apply IH; lia|].
  destruct (c =? 91); [exact I|].
  destruct (c =? 93); [apply bind_no_panic; [apply IH; lia|intros; exact I]|].
  destruct (c =? 44); [apply bind_no_panic; [apply IH; lia|intros; exact I]|].
  destruct (c =? 47).
  - destruct r as [|c1 r']; [exact I|].
    assert (Hd : no_panic (lex f (drop_line r'))) by (apply IH; pose proof (drop_line_len r'); cbn [length] in Hf; lia).
    assert (Hb : no_panic (match close_block r' with Some r'' => lex f r'' | None => Err 303 end)).
    { destruct (close_block r') as [r''|] eqn:E; [|exact I]. apply IH. pose proof (close_block_len _ _ E). cbn [length] in Hf. lia. }
    destruct c1 as [|p]; [exact I|]. repeat (destruct p as [p|p|]; try exact I); assumption.
  - destruct (scalar (c :: r)) as [[lit rest]|] eqn:E; [|exact I].
    apply bind_no_panic; [apply IH; pose proof (scalar_len _ _ _ E) as H; cbn [length] in H; lia|intros; exact I].
Qed.
Lemma items_total ts : no_panic (items ts).
Proof.
  induction ts as [ts IH] using (well_founded_induction (Wf_nat.well_founded_ltof _ (@length tok))).
  destruct ts as [|t0 r]; [exact I|]. destruct t0; try exact I. destruct r as [|t1 r']; [exact I|]. destruct t1; try exact I.
  - destruct r'; exact I.
  - cbn [items]. apply bind_no_panic; [apply IH; unfold ltof; cbn; lia|intros; exact I].
Qed.
Theorem eparse_total s : no_panic (eparse s).
Proof.
  unfold eparse. destruct (skip_ws s) as [|c r]; [exact I|].
  assert (H : no_panic (do ts <- lex (S (length r)) r; do lits <- body ts; if distinct (map key_of lits) then Ok lits else Err 810)).
  { apply bind_no_panic; [apply lex_total; lia|]. intros ts. apply bind_no_panic.
    - unfold body. destruct ts as [|t0 r0]; [exact I|]. destruct t0; try apply items_total. destruct r0; [exact I|apply items_total].
    - intros lits. destruct (distinct (map key_of lits)); exact I. }
  destruct c as [|p]; [exact I|]. repeat (destruct p as [p|p|]; try exact I). exact H.
Qed.
