(* Closed computations over the regenerated type tables + the guesser agreement. *)
From Coq Require Import String List NArith ZArith Bool.
From JS Require Import Base.Res Spec.Decimal Spec.TypeVocab Model.Number Model.TypeGuess Gen.TypeTables Model.TypeSoft.
Import ListNotations.
Local Open Scope string_scope.

Lemma forallb2_forall {A} (f : A -> A -> bool) (l : list A) :
  forallb (fun a => forallb (f a) l) l = true -> forall a b, In a l -> In b l -> f a b = true.
Proof.
  intros H a b Ha Hb. rewrite forallb_forall in H. specialize (H a Ha). rewrite forallb_forall in H. exact (H b Hb).
Qed.

(* vocabulary *)
Definition same_set (a b : list string) : bool :=
  forallb (fun x => smem x b) a && forallb (fun x => smem x a) b.
Fixpoint nodupb (l : list string) : bool :=
  match l with [] => true | x :: r => negb (smem x r) && nodupb r end.

Lemma valid_keys_documented : same_set valid_keys documented_names = true /\ nodupb valid_keys = true.
Proof. vm_compute. auto. Qed.
Lemma constants_documented : same_set (filter (fun t => negb (String.eqb t "")) schema_types) documented_names = true
  /\ nodupb schema_types = true.
Proof. vm_compute. auto. Qed.
Lemma probes_exact : forall p, In p valid_probes -> snd p = smem (fst p) documented_names.
Proof.
  assert (H : forallb (fun p => Bool.eqb (snd p) (smem (fst p) documented_names)) valid_probes = true) by (vm_compute; reflexivity).
  intros p Hp. rewrite forallb_forall in H. specialize (H p Hp). apply eqb_prop in H. exact H.
Qed.
Lemma probes_cover : forall t, In t schema_types -> In t (map fst valid_probes).
Proof.
  assert (H : forallb (fun t => smem t (map fst valid_probes)) schema_types = true) by (vm_compute; reflexivity).
  intros t Ht. rewrite forallb_forall in H. specialize (H t Ht). clear Ht.
  induction (map fst valid_probes) as [|x l IH]; [discriminate|]. cbn in H. apply orb_true_iff in H.
  destruct H as [H|H]; [left; apply String.eqb_eq; exact H|right; exact (IH H)].
Qed.

(* soft equality *)
Lemma soft_refl : forall t, In t schema_types -> t <> "" -> soft t t = true.
Proof.
  assert (H : forallb (fun t => String.eqb t "" || soft t t) schema_types = true) by (vm_compute; reflexivity).
  intros t Ht Hne. rewrite forallb_forall in H. specialize (H t Ht). apply orb_true_iff in H.
  destruct H as [H|H]; [apply String.eqb_eq in H; contradiction|exact H].
Qed.
Lemma soft_sym : forall a b, In a schema_types -> In b schema_types -> known_F20a a b = false -> soft a b = soft b a.
Proof.
  intros a b Ha Hb Hk.
  pose proof (forallb2_forall (fun a b => known_F20a a b || Bool.eqb (soft a b) (soft b a)) schema_types
                ltac:(vm_compute; reflexivity) a b Ha Hb) as H.
  cbv beta in H. rewrite Hk in H. cbn [orb] in H. apply eqb_prop in H. exact H.
Qed.
Lemma soft_families : forall a b, In a schema_types -> In b schema_types ->
  constrained a b = true -> known_F20a a b = false -> soft a b = family_rel a b.
Proof.
  intros a b Ha Hb Hc Hk.
  pose proof (forallb2_forall (fun a b => negb (constrained a b) || known_F20a a b || Bool.eqb (soft a b) (family_rel a b))
                schema_types ltac:(vm_compute; reflexivity) a b Ha Hb) as H.
  cbv beta in H. rewrite Hc, Hk in H. cbn [orb negb] in H. apply eqb_prop in H. exact H.
Qed.
Lemma soft_undefined : forall b, In b schema_types -> soft "" b = false /\ soft b "" = false.
Proof.
  assert (H : forallb (fun b => negb (soft "" b) && negb (soft b "")) schema_types = true) by (vm_compute; reflexivity).
  intros b Hb. rewrite forallb_forall in H. specialize (H b Hb). apply andb_true_iff in H.
  destruct H as [H1 H2]. apply negb_true_iff in H1, H2. auto.
Qed.
Lemma soft_sym_refuted : soft "null" "array" = true /\ soft "array" "null" = false.
Proof. vm_compute. auto. Qed.

(* token types: a JSON type and the schema type of the same name map to the same token type *)
Lemma token_agree : forall j, In j json_types -> (fst (fst (fst j)) <> 0)%N ->
  In (snd (fst (fst j))) schema_types /\ token_of_stype (snd (fst (fst j))) = snd (fst j).
Proof.
  assert (H : forallb (fun j : N * string * string * bool =>
                         N.eqb (fst (fst (fst j))) 0 ||
                         (smem (snd (fst (fst j))) schema_types && String.eqb (token_of_stype (snd (fst (fst j)))) (snd (fst j))))
                      json_types = true) by (vm_compute; reflexivity).
  intros j Hj Hn. rewrite forallb_forall in H. specialize (H j Hj). apply orb_true_iff in H.
  destruct H as [H|H]; [apply N.eqb_eq in H; contradiction|]. apply andb_true_iff in H. destruct H as [H1 H2].
  split; [|apply String.eqb_eq; exact H2].
  clear - H1. induction schema_types as [|x l IH]; [discriminate|]. cbn in H1. apply orb_true_iff in H1.
  destruct H1 as [H|H]; [left; apply String.eqb_eq; exact H|right; exact (IH H)].
Qed.
(* NewJsonType is defined exactly on the names of the non-mixed, defined JSON types and inverts String() *)
Lemma new_json_type_inverse : forall j, In j json_types ->
  match assoc (snd (fst (fst j))) new_json_type with
  | Some (Some v) => v = fst (fst (fst j))
  | Some None => snd (fst (fst j)) = "mixed"
  | None => fst (fst (fst j)) = 0%N
  end.
Proof.
  assert (H : forallb (fun j : N * string * string * bool =>
                 match assoc (snd (fst (fst j))) new_json_type with
                 | Some (Some v) => N.eqb v (fst (fst (fst j)))
                 | Some None => String.eqb (snd (fst (fst j))) "mixed"
                 | None => N.eqb (fst (fst (fst j))) 0
                 end) json_types = true) by (vm_compute; reflexivity).
  intros j Hj. rewrite forallb_forall in H. specialize (H j Hj).
  destruct (assoc _ new_json_type) as [[v|]|]; [apply N.eqb_eq|apply String.eqb_eq|apply N.eqb_eq]; exact H.
Qed.

(* the two classifiers *)
Lemma guess_agree b t : guess_schema b = Ok t -> guess_json b = Ok t.
Proof.
  unfold guess_schema, guess_json.
  destruct (g_is_object b); [auto|]. destruct (g_is_array b); [auto|]. destruct (g_is_string b); [auto|].
  destruct (g_is_boolean b); [auto|]. destruct (g_is_null b); [auto|].
  destruct (g_is_integer b) as [[|]| |]; cbn [bind]; auto; try discriminate.
  destruct (g_is_float b) as [[|]| |]; cbn [bind]; auto; discriminate.
Qed.
Lemma guess_agree_conv b t : guess_json b = Ok t -> t <> "mixed" -> guess_schema b = Ok t.
Proof.
  unfold guess_schema, guess_json.
  destruct (g_is_object b); [auto|]. destruct (g_is_array b); [auto|]. destruct (g_is_string b); [auto|].
  destruct (g_is_boolean b); [auto|]. destruct (g_is_null b); [auto|].
  destruct (g_is_integer b) as [[|]| |]; cbn [bind]; auto; try discriminate.
  destruct (g_is_float b) as [[|]| |]; cbn [bind]; auto; try discriminate.
  destruct (g_is_shortcut b); [|discriminate]. intros H Hn. inversion H; subst. contradiction.
Qed.
Lemma guess_answers b t : guess_schema b = Ok t ->
  In t ["object"; "array"; "string"; "boolean"; "null"; "integer"; "float"].
Proof.
  unfold guess_schema. intros H.
  assert (G : forall x, Ok x = Ok t -> In x ["object"; "array"; "string"; "boolean"; "null"; "integer"; "float"] ->
              In t ["object"; "array"; "string"; "boolean"; "null"; "integer"; "float"]).
  { intros x E Hin. inversion E; subst. exact Hin. }
  destruct (g_is_object b); [apply (G _ H); cbn; auto 10|]. destruct (g_is_array b); [apply (G _ H); cbn; auto 10|].
  destruct (g_is_string b); [apply (G _ H); cbn; auto 10|]. destruct (g_is_boolean b); [apply (G _ H); cbn; auto 10|].
  destruct (g_is_null b); [apply (G _ H); cbn; auto 10|].
  destruct (g_is_integer b) as [[|]| |]; cbn [bind] in H; try discriminate; [apply (G _ H); cbn; auto 10|].
  destruct (g_is_float b) as [[|]| |]; cbn [bind] in H; try discriminate. apply (G _ H); cbn; auto 10.
Qed.
