From Coq Require Import List ZArith NArith Bool Lia.
From JS Require Import Base.Res Spec.Decimal Model.AllOf Model.Number Model.EnumParse Model.RuleSem Model.OasSem
  Proofs.DigitArith Proofs.NumberCmp Proofs.NumberNorm Proofs.NumberScan Proofs.NumberMain Proofs.RuleProofs.
Import ListNotations.

Lemma first_min_in rules b e : first_min rules = Some (b, e) -> In (RMin b e) rules.
Proof. induction rules as [|r rs IH]; [discriminate|]. cbn [first_min]. destruct r; try (intros H; right; exact (IH H)). intros H; inversion H; subst. left; reflexivity. Qed.
Lemma first_max_in rules b e : first_max rules = Some (b, e) -> In (RMax b e) rules.
Proof. induction rules as [|r rs IH]; [discriminate|]. cbn [first_max]. destruct r; try (intros H; right; exact (IH H)). intros H; inversion H; subst. left; reflexivity. Qed.

(* the bound rules of the node are numbers the library can read (they were accepted when the schema was loaded) *)
Definition bounds_readable (rules : list rule) : Prop :=
  forall b e, In (RMin b e) rules \/ In (RMax b e) rules -> exp_small b /\ exists nb, nscan b = Ok nb.

(* translation soundness: what the checker accepts for a node is valid against the Schema Object emitted for it *)
Theorem oas_sound k rules v :
  existsb is_enum rules = false -> beq_bytes v w_null_lit = false -> exp_small v -> bounds_readable rules ->
  validate (Leaf k rules) None v = true -> js_valid (to_oas (Leaf k rules)) v.
Proof.
  intros He Hn Hv Hb H. apply (validate_conj k rules None v Hn) in H. destruct H as [[Hen|Hk] Hall]; [congruence|].
  unfold js_valid, to_oas. cbn [o_type o_min o_max]. split; [|split].
  - unfold js_type_ok, otype_of, is_number_lit. rewrite Hk. destruct k; reflexivity.
  - destruct (first_min rules) as [[b e]|] eqn:Em; [|exact I]. cbn [js_min_ok]. intros _.
    pose proof (first_min_in _ _ _ Em) as Hin. pose proof (Hall _ Hin) as Hr.
    destruct (Hb b e (or_introl Hin)) as (Hsb & nb & Sb).
    assert (Sv : exists nv, nscan v = Ok nv). { cbn [validate_rule] in Hr. destruct (nscan v) as [nv| |]; [eauto|discriminate|discriminate]. }
    destruct Sv as [nv Sv]. destruct e.
    + apply (min_exclusive_exact v b nv nb Hv Hsb Sv Sb None). exact Hr.
    + apply (min_exact v b nv nb Hv Hsb Sv Sb None). exact Hr.
  - destruct (first_max rules) as [[b e]|] eqn:Em; [|exact I]. cbn [js_max_ok]. intros _.
    pose proof (first_max_in _ _ _ Em) as Hin. pose proof (Hall _ Hin) as Hr.
    destruct (Hb b e (or_intror Hin)) as (Hsb & nb & Sb).
    assert (Sv : exists nv, nscan v = Ok nv). { cbn [validate_rule] in Hr. destruct (nscan v) as [nv| |]; [eauto|discriminate|discriminate]. }
    destruct Sv as [nv Sv]. destruct e.
    + apply (max_exclusive_exact v b nv nb Hv Hsb Sv Sb None). exact Hr.
    + apply (max_exact v b nv nb Hv Hsb Sv Sb None). exact Hr.
Qed.
