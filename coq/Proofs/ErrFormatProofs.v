(* Closed computations over the regenerated error-format table (Gen/ErrFormats.v). *)
From Coq Require Import String List NArith Bool.
From JS Require Import Gen.ErrFormats Spec.TypeVocab.
Import ListNotations.
Local Open Scope string_scope.

Fixpoint assoc3 (k : string) (l : list (string * N * list string)) : option (N * list string) :=
  match l with [] => None | (x, n, v) :: r => if String.eqb x k then Some (n, v) else assoc3 k r end.
Fixpoint nodupN (l : list N) : bool :=
  match l with [] => true | x :: r => negb (existsb (N.eqb x) r) && nodupN r end.

Definition allowed_verbs : list string := ["%q"; "%s"; "%d"; "%v"].
Definition call_ok (c : string * string * option N) : bool :=
  match assoc3 (snd (fst c)) err_formats, snd c with
  | Some (n, _), Some a => N.eqb n a
  | _, _ => false
  end.
Definition format_ok (f : string * N * list string) : bool := forallb (fun v => smem v allowed_verbs) (snd f).
Definition code_has_format (c : string * N) : bool := match assoc3 (fst c) err_formats with Some _ => true | None => false end.

Lemma calls_ok : forall c, In c err_calls -> call_ok c = true.
Proof. assert (H : forallb call_ok err_calls = true) by (vm_compute; reflexivity). intros c Hc. rewrite forallb_forall in H. auto. Qed.
Lemma formats_ok : forall f, In f err_formats -> format_ok f = true.
Proof. assert (H : forallb format_ok err_formats = true) by (vm_compute; reflexivity). intros c Hc. rewrite forallb_forall in H. auto. Qed.
Lemma codes_have_formats : forall c, In c err_codes -> code_has_format c = true.
Proof. assert (H : forallb code_has_format err_codes = true) by (vm_compute; reflexivity). intros c Hc. rewrite forallb_forall in H. auto. Qed.
Lemma codes_distinct : nodupN (map snd err_codes) = true.
Proof. vm_compute. reflexivity. Qed.
