(* The lexeme stream of an accepted JSON document (Model/JsonScan.v): properly nested, and every span lies inside the
   text with begin <= end.  Nesting is a property of the stack discipline of apply_lex/drain (replayed on the types
   alone); the spans need the positions recorded on the stack, followed along the automaton of Proofs/JsonComplete.v. *)
From Coq Require Import List ZArith NArith Bool Lia.
From JS Require Import Base.Res Base.Lex Spec.JsonGrammar Model.JsonScan Proofs.JsonClasses Proofs.JsonSound Proofs.JsonMain Proofs.JsonComplete Proofs.JsonLen.
Import ListNotations.
Local Open Scope Z_scope.

Definition ltype (x : lexeme) : lext := fst (fst x).

(* ---------- nesting: the types alone, replayed against a stack of open types ---------- *)
Definition replay1 (stack : list lext) (t : lext) : option (list lext) :=
  match t with
  | NewLine | EndTop => Some stack
  | _ =>
    if is_opening t then Some (t :: stack)
    else match stack with
         | [] => None
         | p :: rest => if is_nonscalar_pair p t || is_scalar_pair p t then Some rest else None
         end
  end.
Fixpoint replay (stack : list lext) (ts : list lext) : option (list lext) :=
  match ts with
  | [] => Some stack
  | t :: r => match replay1 stack t with Some st => replay st r | None => None end
  end.
Lemma replay_app st a b st1 : replay st a = Some st1 -> replay st (a ++ b) = replay st1 b.
Proof.
  revert st. induction a as [|t a IH]; intros st H; cbn [replay app] in *; [inversion H; reflexivity|].
  destruct (replay1 st t) as [s2|]; [exact (IH s2 H)|discriminate].
Qed.

Lemma apply_lex_replay st i t st' lx : apply_lex st i t = Ok (st', lx) ->
  ltype lx = t /\ replay1 (map fst st) t = Some (map fst st').
Proof.
  unfold apply_lex, replay1. destruct t; cbn [is_opening]; intros H;
    try (inversion H; subst; split; reflexivity);
    try (destruct st as [|[p b] rest]; [discriminate|]; cbn [map fst];
         destruct (is_nonscalar_pair p _) eqn:E1; [inversion H; subst; split; reflexivity|];
         destruct (is_scalar_pair p _) eqn:E2; [inversion H; subst; split; reflexivity|discriminate]).
Qed.
Lemma drain_replay : forall finds st i st' lxs, drain st i finds = Ok (st', lxs) ->
  map ltype lxs = finds /\ replay (map fst st) finds = Some (map fst st').
Proof.
  induction finds as [|t r IH]; intros st i st' lxs H; cbn [drain] in H; [inversion H; subst; split; reflexivity|].
  destruct (apply_lex st i t) as [[st1 lx]| |] eqn:E; cbn [bind] in H; try discriminate.
  destruct (drain st1 i r) as [[st2 lxs2]| |] eqn:E2; cbn [bind] in H; try discriminate. inversion H; subst.
  destruct (apply_lex_replay _ _ _ _ _ E) as [Ht Hr]. destruct (IH _ _ _ _ E2) as [Hm Hr2].
  split; [cbn [map]; rewrite Ht, Hm; reflexivity|]. cbn [replay]. rewrite Hr. exact Hr2.
Qed.
Lemma feed_replay c b c' lxs : jfeed c b = Ok (c', lxs) ->
  replay (map fst (jstack c)) (map ltype lxs) = Some (map fst (jstack c')).
Proof.
  unfold jfeed. destruct (jstep_fn _ _) as [d| |]; cbn [bind]; try discriminate.
  destruct (drain _ _ _) as [[st lx]| |] eqn:E; cbn [bind]; try discriminate. intros H; inversion H; subst. cbn [jstack] in *.
  destruct (drain_replay _ _ _ _ _ E) as [Hm Hr]. rewrite Hm. exact Hr.
Qed.
Lemma eof_replay : forall fuel st idx unf ls, jeof fuel st idx unf = Ok ls -> replay (map fst st) (map ltype ls) = Some [].
Proof.
  induction fuel as [|f IH]; intros st idx unf ls H; [discriminate|]. cbn [jeof] in H.
  destruct st as [|[t b] rest]; [inversion H; reflexivity|].
  destruct t; try discriminate.
  - destruct unf; [discriminate|]. destruct (apply_lex ((LiteralBegin, b) :: rest) idx LiteralEnd) as [[st1 lx]| |] eqn:E; cbn [bind] in H; try discriminate.
    destruct (jeof f st1 (idx + 1) false) as [r| |] eqn:E2; cbn [bind] in H; try discriminate. inversion H; subst.
    destruct (apply_lex_replay _ _ _ _ _ E) as [Ht Hr]. cbn [map replay fst]. rewrite Ht. cbn [map fst] in Hr. rewrite Hr. exact (IH _ _ _ _ E2).
Qed.

(* whatever the scanner model delivers as a complete stream without the trailing-characters option is properly nested:
   every end lexeme closes the innermost open begin lexeme of its kind, and nothing stays open *)
Lemma run_nested : forall s c acc ls i, jallow c = false -> jrun c s acc = (Ok ls, i) ->
  exists tl, ls = acc ++ tl /\ (has_end_top tl = false -> replay (map fst (jstack c)) (map ltype tl) = Some []).
Proof.
  induction s as [|b s IH]; intros c acc ls i Hal H; cbn [jrun] in H.
  - destruct (jeof _ _ _ _) as [l| |] eqn:E; inversion H; subst. exists l. split; [reflexivity|]. intros _. exact (eof_replay _ _ _ _ _ E).
  - destruct (jfeed c b) as [[c' lx]| |] eqn:Ef; try discriminate. fold (has_end_top lx) in H.
    pose proof (feed_replay _ _ _ _ Ef) as Hr.
    assert (Hal' : jallow c' = false).
    { unfold jfeed in Ef. destruct (jstep_fn _ _) as [d| |]; cbn [bind] in Ef; try discriminate.
      destruct (drain _ _ _) as [[st l]| |]; cbn [bind] in Ef; try discriminate. inversion Ef; subst. exact Hal. }
    destruct (has_end_top lx) eqn:Het.
    + inversion H; subst. exists lx. split; [reflexivity|]. intros X. congruence.
    + destruct (IH c' (acc ++ lx) ls i Hal' H) as (tl & -> & Hrep). exists (lx ++ tl). split; [rewrite app_assoc; reflexivity|].
      intros X. assert (X' : has_end_top lx || has_end_top tl = false) by (unfold has_end_top in *; rewrite <- existsb_app; exact X).
      apply orb_false_iff in X'. destruct X' as [_ X'].
      rewrite map_app. rewrite (replay_app _ _ _ _ Hr). exact (Hrep X').
Qed.

(* ---------- accepted documents: no EndTop without the option, nothing left open ---------- *)
Lemma has_end_top_app a b : has_end_top (a ++ b) = has_end_top a || has_end_top b.
Proof. unfold has_end_top. apply existsb_app. Qed.
Lemma run_noet al : forall s a c a', all_bytes s -> abs al a c -> nexts a s = Some a' ->
  exists c' lx, abs al a' c' /\ (forall r acc, jrun c (s ++ r) acc = jrun c' r (acc ++ lx)) /\ has_end_top lx = false.
Proof.
  induction s as [|b s IH]; intros a c a' Hb Ha Hn.
  - cbn [nexts] in Hn. inversion Hn; subst a'. exists c, []. split; [exact Ha|]. split; [|reflexivity].
    intros r acc. rewrite app_nil_r. reflexivity.
  - ab. cbn [nexts] in Hn. destruct (next a (jcls_of b)) as [a1|] eqn:E; [|discriminate].
    destruct (sim_step al a c b a1 Ha E) as (c1 & lx1 & Hf & Het & Ha1 & _).
    destruct (IH a1 c1 a' ltac:(assumption) Ha1 Hn) as (c' & lx & Ha' & Hrun & Het').
    exists c', (lx1 ++ lx). split; [exact Ha'|]. split.
    + intros r acc. cbn [app jrun]. rewrite Hf. fold (has_end_top lx1). rewrite Het. rewrite Hrun, app_assoc. reflexivity.
    + rewrite has_end_top_app, Het, Het'. reflexivity.
Qed.

Lemma text_stream_noet w1 v w2 : all_bytes (w1 ++ v ++ w2) -> ws w1 -> JValue v -> ws w2 ->
  exists ls i, jlexemes false (w1 ++ v ++ w2) = (Ok ls, i) /\ has_end_top ls = false.
Proof.
  intros Hb H1 Hv H2. assert (Hb' := Hb). apply all_bytes_app in Hb'. destruct Hb' as [Hbw Hb']. apply all_bytes_app in Hb'. destruct Hb' as [Hbv Hbw2].
  destruct grammar_run as (GV & _ & _).
  pose proof (vs_ws ARoot [] w1 vs_root Hbw H1) as S1.
  destruct (value_then_ws ARoot [] v w2 (GV v Hv) Hbv Hbw2 H2 vs_root) as (a2 & S2 & D2).
  assert (S : nexts ARoot (w1 ++ v ++ w2) = Some a2) by (rewrite (nexts_app _ _ _ _ S1); exact S2).
  destruct (run_noet false _ ARoot (jcfg0 false) a2 Hb (abs_root false 0) S) as (c' & lx & Ha' & Hrun & Het).
  unfold jlexemes. specialize (Hrun [] []). rewrite app_nil_r in Hrun. rewrite Hrun. cbn [app].
  destruct D2 as [D|D].
  - destruct (eof_after_value false a2 c' lx Ha' D) as [[_ Hr]|[_ (b0 & Hr)]]; rewrite Hr; eexists; eexists; (split; [reflexivity|]).
    + exact Het.
    + rewrite has_end_top_app, Het. reflexivity.
  - subst a2. rewrite (eof_top false c' lx Ha'). eexists; eexists; split; [reflexivity|exact Het].
Qed.

(* C12: the lexeme stream of an accepted document is properly nested *)
Theorem accepted_nested s i : all_bytes s -> jcheck false s = (Ok tt, i) ->
  exists ls j, jlexemes false s = (Ok ls, j) /\ replay [] (map ltype ls) = Some [].
Proof.
  intros Hb Hc. destruct (check_sound s i Hb Hc) as (w1 & v & w2 & -> & H1 & Hv & H2).
  destruct (text_stream_noet w1 v w2 Hb H1 Hv H2) as (ls & j & Hl & Het). exists ls, j. split; [exact Hl|].
  unfold jlexemes in Hl. destruct (run_nested _ (jcfg0 false) [] ls j eq_refl Hl) as (tl & E & Hrep). cbn [app] in E. subst tl.
  exact (Hrep Het).
Qed.

(* ---------- spans: positions on the stack are earlier than the current byte; every span is well formed ---------- *)
Definition pos_ok (c : jcfg) : Prop := 0 <= jindex c /\ Forall (fun tb : lext * Z => 0 <= snd tb < jindex c) (jstack c).
Definition lex_ok (p : Z) (x : lexeme) : Prop := 0 <= snd (fst x) <= snd x /\ snd x <= p.

Lemma forall_mono (st : list (lext * Z)) i j : i <= j -> Forall (fun tb : lext * Z => 0 <= snd tb < i) st -> Forall (fun tb : lext * Z => 0 <= snd tb < j) st.
Proof. intros Hij H. eapply Forall_impl; [|exact H]. cbv beta. intros tb Htb. lia. Qed.

Ltac pos_fin :=
  eexists; eexists; split; [reflexivity|]; split;
  [ unfold pos_ok in *; cbn [jindex jstack] in *;
    match goal with Hp : _ /\ Forall _ _ |- _ => destruct Hp as [?Hi ?Hst] end; split; [lia|];
    repeat match goal with H : Forall _ (_ :: _) |- _ => inversion H; clear H; subst end; cbn [snd] in *;
    repeat (apply Forall_cons; [cbn [snd]; lia|]);
    first [ apply Forall_nil | eapply forall_mono; [|eassumption]; lia ]
  | unfold pos_ok in *; cbn [jindex jstack] in *;
    match goal with Hp : _ /\ Forall _ _ |- _ => destruct Hp as [?Hi ?Hst] end;
    repeat match goal with H : Forall _ (_ :: _) |- _ => inversion H; clear H; subst end; cbn [snd] in *;
    repeat (apply Forall_cons; [unfold lex_ok; cbn [fst snd]; lia|]); apply Forall_nil ].

Lemma step_pos al a c b a' : abs al a c -> next a (jcls_of b) = Some a' -> pos_ok c ->
  exists c' lx, jfeed c b = Ok (c', lx) /\ pos_ok c' /\ Forall (lex_ok (jindex c)) lx.
Proof.
  intros Ha Hn Hp. unfold jfeed.
  destruct Ha as [i|K st b0 i Hs|K st b0 i Hs|K st b0 i Hs|K st b0 i Hs|K st b0 i Hs|K st b0 i Hs|K st b0 i Hs|K st b0 i Hs
                  |K st b0 i Hs|K st i Hs|K st b0 b2 i Hs|i|sub p st b0 b2 i stp Hs Hstp|sub K st b0 i Hs|stp rest K st b0 i Hs Hkw];
    cbn [jstp jret jstack jindex junf jallow].
  - cbn [next] in Hn. destruct (jcls_of b); cbn in Hn; inversion Hn; subst; cbn; pos_fin.
  - cbn [next] in Hn. destruct (jcls_of b); cbn in Hn; inversion Hn; subst; cbn; pos_fin.
  - cbn [next] in Hn. destruct (jcls_of b); cbn in Hn; inversion Hn; subst; cbn; pos_fin.
  - cbn [next after] in Hn. destruct (jcls_of b); cbn in Hn; inversion Hn; subst; cbn; pos_fin.
  - cbn [next] in Hn. destruct (jcls_of b); cbn in Hn; inversion Hn; subst; cbn; pos_fin.
  - cbn [next] in Hn. destruct (jcls_of b); cbn in Hn; inversion Hn; subst; cbn; pos_fin.
  - cbn [next after_key_next] in Hn. destruct (jcls_of b); cbn in Hn; inversion Hn; subst; cbn; pos_fin.
  - cbn [next] in Hn. destruct (jcls_of b); cbn in Hn; inversion Hn; subst; cbn; pos_fin.
  - cbn [next after] in Hn. destruct (jcls_of b); cbn in Hn; inversion Hn; subst; cbn; pos_fin.
  - cbn [next] in Hn. destruct Hs; cbn [after] in Hn; destruct (jcls_of b); cbn in Hn; inversion Hn; subst; cbn; pos_fin.
  - cbn [next] in Hn. destruct Hs; cbn [after] in Hn; destruct (jcls_of b); cbn in Hn; inversion Hn; subst; cbn; pos_fin.
  - cbn [next after_key_next] in Hn. destruct (jcls_of b); cbn in Hn; inversion Hn; subst; cbn; pos_fin.
  - cbn [next after] in Hn. destruct (jcls_of b); cbn in Hn; inversion Hn; subst; cbn; pos_fin.
  - cbn [next] in Hn.
    destruct sub as [| |n]; [| |destruct n as [|[|[|[|[|n]]]]]]; cbn in Hstp; inversion Hstp; subst stp;
      destruct p as [K|K]; cbn [pos_ctx pos_stack pos_unf str_ret] in *;
      destruct (jcls_of b); cbn in Hn; inversion Hn; subst; cbn; pos_fin.
  - cbn [next] in Hn.
    destruct sub; cbn [num_next] in Hn; destruct Hs; cbn [after] in Hn; destruct (jcls_of b); cbn in Hn; inversion Hn; subst; cbn; pos_fin.
  - cbn [next] in Hn.
    destruct stp; cbn in Hkw; inversion Hkw; subst rest; destruct (jcls_of b); cbn in Hn; inversion Hn; subst; cbn; pos_fin.
Qed.

Lemma lex_ok_mono p q x : p <= q -> lex_ok p x -> lex_ok q x.
Proof. unfold lex_ok. lia. Qed.

Lemma run_pos al : forall s a c a', all_bytes s -> abs al a c -> pos_ok c -> nexts a s = Some a' ->
  exists c' lx, abs al a' c' /\ pos_ok c' /\ (forall r acc, jrun c (s ++ r) acc = jrun c' r (acc ++ lx)) /\
                jindex c' = jindex c + Z.of_nat (length s) /\ Forall (lex_ok (jindex c' - 1)) lx.
Proof.
  induction s as [|b s IH]; intros a c a' Hb Ha Hp Hn.
  - cbn [nexts] in Hn. inversion Hn; subst a'. exists c, []. split; [exact Ha|]. split; [exact Hp|]. split; [|split; [cbn; lia|constructor]].
    intros r acc. rewrite app_nil_r. reflexivity.
  - ab. cbn [nexts] in Hn. destruct (next a (jcls_of b)) as [a1|] eqn:E; [|discriminate].
    destruct (sim_step al a c b a1 Ha E) as (c1 & lx1 & Hf & Het & Ha1 & _).
    destruct (step_pos al a c b a1 Ha E Hp) as (c1' & lx1' & Hf' & Hp1 & Hl1). rewrite Hf in Hf'. inversion Hf'; subst c1' lx1'.
    pose proof (feed_index _ _ _ _ Hf) as Hi1.
    destruct (IH a1 c1 a' ltac:(assumption) Ha1 Hp1 Hn) as (c' & lx & Ha' & Hp' & Hrun & Hix & Hl).
    exists c', (lx1 ++ lx). split; [exact Ha'|]. split; [exact Hp'|]. split; [|split].
    + intros r acc. cbn [app jrun]. rewrite Hf. fold (has_end_top lx1). rewrite Het. rewrite Hrun, app_assoc. reflexivity.
    + rewrite Hix, Hi1. cbn [length]. lia.
    + apply Forall_app. split; [|exact Hl]. eapply Forall_impl; [|exact Hl1]. intros x Hx. apply (lex_ok_mono (jindex c)); [lia|exact Hx].
Qed.

(* C12: every lexeme span of an accepted document lies inside the text, begin <= end *)
Theorem accepted_spans s i : all_bytes s -> jcheck false s = (Ok tt, i) ->
  exists ls j, jlexemes false s = (Ok ls, j) /\
               Forall (fun x : lexeme => 0 <= snd (fst x) <= snd x /\ snd x < Z.of_nat (length s)) ls.
Proof.
  intros Hb Hc. destruct (check_sound s i Hb Hc) as (w1 & v & w2 & -> & H1 & Hv & H2).
  assert (Hb' := Hb). apply all_bytes_app in Hb'. destruct Hb' as [Hbw Hb']. apply all_bytes_app in Hb'. destruct Hb' as [Hbv Hbw2].
  destruct grammar_run as (GV & _ & _).
  pose proof (vs_ws ARoot [] w1 vs_root Hbw H1) as S1.
  destruct (value_then_ws ARoot [] v w2 (GV v Hv) Hbv Hbw2 H2 vs_root) as (a2 & S2 & D2).
  assert (S : nexts ARoot (w1 ++ v ++ w2) = Some a2) by (rewrite (nexts_app _ _ _ _ S1); exact S2).
  assert (Hp0 : pos_ok (jcfg0 false)) by (split; [cbn; lia|constructor]).
  destruct (run_pos false _ ARoot (jcfg0 false) a2 Hb (abs_root false 0) Hp0 S) as (c' & lx & Ha' & Hp' & Hrun & Hix & Hl).
  cbn [jcfg0 jindex] in Hix.
  assert (Hconv : forall q x, lex_ok q x -> q <= jindex c' - 1 -> 0 <= snd (fst x) <= snd x /\ snd x < Z.of_nat (length (w1 ++ v ++ w2))).
  { intros q x Hx Hq. unfold lex_ok in Hx. lia. }
  unfold jlexemes. specialize (Hrun [] []). rewrite app_nil_r in Hrun. rewrite Hrun. cbn [app].
  assert (Hlx : Forall (fun x : lexeme => 0 <= snd (fst x) <= snd x /\ snd x < Z.of_nat (length (w1 ++ v ++ w2))) lx).
  { eapply Forall_impl; [|exact Hl]. intros x Hx. apply (Hconv (jindex c' - 1)); [exact Hx|lia]. }
  destruct D2 as [D|D].
  - destruct (eof_after_value false a2 c' lx Ha' D) as [[_ Hr]|[Hne (b0 & Hr)]]; rewrite Hr; eexists; eexists; (split; [reflexivity|]); [exact Hlx|].
    apply Forall_app. split; [exact Hlx|]. constructor; [|constructor]. cbn [fst snd].
    (* the literal's begin is on the stack, before the current index *)
    assert (Hb0 : 0 <= b0 < jindex c').
    { inversion D as [K lit|sub K Hcn]; subst; inversion Ha'; subst; destruct Hp' as [_ Hst]; cbn [jstack jindex] in *;
        repeat match goal with H : shape [] _ |- _ => apply shape_nil_inv in H; subst end.
      - cbn in Hr. inversion Hr as [Hx]. apply app_inv_head in Hx. inversion Hx; subst.
        inversion Hst as [|? ? Hh _]; subst. cbn [snd] in Hh. exact Hh.
      - congruence.
      - cbn [jrun jstack jindex junf] in Hr. unfold num_unf in Hr. rewrite Hcn in Hr. cbn in Hr. inversion Hr as [Hx]. apply app_inv_head in Hx. inversion Hx; subst.
        inversion Hst as [|? ? Hh _]; subst. cbn [snd] in Hh. exact Hh. }
    lia.
  - subst a2. rewrite (eof_top false c' lx Ha'). eexists; eexists; split; [reflexivity|exact Hlx].
Qed.
