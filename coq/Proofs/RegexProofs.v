From Coq Require Import List Arith ZArith NArith Bool Lia.
From JS Require Import Base.Res Model.RegexScan.
Import ListNotations.

(* Spec: position i of r holds an unescaped '/' when r[i] = '/' and the run of backslashes that ends
   just before i has even length. *)
Fixpoint bs_run_rev (rev_prefix : bytes) : nat :=
  match rev_prefix with c :: r => if N.eqb c 92 then S (bs_run_rev r) else 0 | [] => 0 end.
Definition bs_run (r : bytes) (i : nat) : nat := bs_run_rev (rev (firstn i r)).
Definition unesc_slash_at (r : bytes) (i : nat) : Prop :=
  nth_error r i = Some 47%N /\ Nat.even (bs_run r i) = true.
Definition first_unesc_slash (r : bytes) (i : nat) : Prop :=
  unesc_slash_at r i /\ forall j, j < i -> ~ unesc_slash_at r j.

Lemma firstn_pre (pre l : bytes) : firstn (length pre) (pre ++ l) = pre.
Proof. rewrite firstn_app, Nat.sub_diag, firstn_all. cbn. apply app_nil_r. Qed.
Lemma nth_pre (pre : bytes) c r : nth_error (pre ++ c :: r) (length pre) = Some c.
Proof. rewrite nth_error_app2 by lia. rewrite Nat.sub_diag. reflexivity. Qed.
Lemma bs_run_at (pre l : bytes) : bs_run (pre ++ l) (length pre) = bs_run_rev (rev pre).
Proof. unfold bs_run. rewrite firstn_pre. reflexivity. Qed.

Lemma extend_none (pre : bytes) c r :
  (forall j, j < length pre -> ~ unesc_slash_at (pre ++ c :: r) j) ->
  ~ unesc_slash_at (pre ++ c :: r) (length pre) ->
  forall j, j < length (pre ++ [c]) -> ~ unesc_slash_at ((pre ++ [c]) ++ r) j.
Proof.
  intros H1 H2 j Hj. rewrite <- app_assoc. cbn [app]. rewrite app_length in Hj. cbn in Hj.
  destruct (Nat.eq_dec j (length pre)) as [->|Hne]; [exact H2|apply H1; lia].
Qed.

Lemma weaken (o : option nat) (P : nat -> Prop) (Q : Prop) n m :
  match o with Some i => P i /\ S n <= i < m | None => Q end ->
  match o with Some i => P i /\ n <= i < m | None => Q end.
Proof. destruct o; [intros [H1 H2]; split; [assumption|lia]|auto]. Qed.

(* loop invariant: pre is what has been scanned, escaped = parity of its trailing backslashes *)
Lemma find_close_spec l : forall pre escaped,
  escaped = Nat.odd (bs_run_rev (rev pre)) ->
  (forall j, j < length pre -> ~ unesc_slash_at (pre ++ l) j) ->
  match find_close escaped l (length pre) with
  | Some i => first_unesc_slash (pre ++ l) i /\ length pre <= i < length (pre ++ l)
  | None => forall j, ~ unesc_slash_at (pre ++ l) j
  end.
Proof.
  induction l as [|c r IH]; intros pre escaped Hesc Hnone.
  - cbn [find_close]. intros j [Hn He].
    destruct (Nat.lt_ge_cases j (length pre)) as [H|H]; [apply (Hnone j H); split; assumption|].
    rewrite app_nil_r in Hn. apply nth_error_None in H. congruence.
  - cbn [find_close].
    assert (Hlen : length (pre ++ [c]) = S (length pre)) by (rewrite app_length; cbn; lia).
    assert (Hrev : rev (pre ++ [c]) = c :: rev pre) by (rewrite rev_app_distr; reflexivity).
    assert (Heq : (pre ++ [c]) ++ r = pre ++ c :: r) by (rewrite <- app_assoc; reflexivity).
    destruct (N.eqb_spec c 92) as [->|Hc92].
    + specialize (IH (pre ++ [92%N]) (negb escaped)). rewrite Hlen, Heq in IH. apply weaken, IH.
      * rewrite Hrev. cbn [bs_run_rev N.eqb Pos.eqb]. rewrite Nat.odd_succ, Hesc, Nat.negb_odd. reflexivity.
      * rewrite <- Heq, <- Hlen. apply extend_none; [exact Hnone|]. intros [Hn _]. rewrite nth_pre in Hn. discriminate.
    + destruct (N.eqb_spec c 47) as [->|Hc47].
      * destruct escaped eqn:Ees.
        -- specialize (IH (pre ++ [47%N]) false). rewrite Hlen, Heq in IH. apply weaken, IH.
           ++ rewrite Hrev. reflexivity.
           ++ rewrite <- Heq, <- Hlen. apply extend_none; [exact Hnone|]. intros [_ He]. rewrite bs_run_at in He.
              rewrite <- Nat.negb_odd, <- Hesc in He. discriminate.
        -- split; [split; [split|exact Hnone]|].
           ++ apply nth_pre.
           ++ rewrite bs_run_at, <- Nat.negb_odd, <- Hesc. reflexivity.
           ++ rewrite app_length. cbn. lia.
      * specialize (IH (pre ++ [c]) false). rewrite Hlen, Heq in IH. apply weaken, IH.
        -- rewrite Hrev. cbn [bs_run_rev]. apply N.eqb_neq in Hc92. rewrite Hc92. reflexivity.
        -- rewrite <- Heq, <- Hlen. apply extend_none; [exact Hnone|]. intros [Hn _]. rewrite nth_pre in Hn. congruence.
Qed.

Lemma find_close_first r :
  match find_close false r 0 with
  | Some i => first_unesc_slash r i /\ i < length r
  | None => forall j, ~ unesc_slash_at r j
  end.
Proof.
  pose proof (find_close_spec r [] false eq_refl ltac:(intros j Hj; inversion Hj)) as H. cbn [app length] in H.
  destruct (find_close false r 0); [destruct H; split; [assumption|lia]|assumption].
Qed.

Section Regex.
  Variable re_ok : bytes -> bool.

  (* accepted exactly when the text is '/' p '/' rest, the second '/' being the first unescaped one, and p compiles *)
  Theorem rcompile_accept s p : fst (rcompile re_ok s) = Ok p <->
    exists rest, s = 47%N :: p ++ 47%N :: rest /\ first_unesc_slash (p ++ 47%N :: rest) (length p) /\ re_ok p = true.
  Proof.
    unfold rcompile. destruct s as [|c r].
    - split; [discriminate|intros (rest & H & _); discriminate].
    - destruct (N.eqb_spec c 47) as [->|Hc]; cbn [negb].
      + pose proof (find_close_first r) as Hf. destruct (find_close false r 0) as [k|].
        * destruct Hf as [Hfirst Hk]. split.
          -- destruct (re_ok (firstn k r)) eqn:Hre; cbn [fst]; [|discriminate]. intros H. inversion H; subst p.
             destruct Hfirst as [[Hn He] Hmin].
             destruct (nth_error_split r k Hn) as (l1 & l2 & Hr & Hl1). subst k.
             assert (Hf1 : firstn (length l1) r = l1) by (rewrite Hr; apply firstn_pre).
             rewrite Hf1 in *. exists l2. split; [f_equal; exact Hr|].
             replace (l1 ++ 47%N :: l2) with r by exact Hr. split; [split; [split; assumption|assumption]|exact Hre].
          -- intros (rest & Hs & Hfu & Hre). injection Hs as Hr.
             assert (k = length p).
             { destruct Hfirst as [Hk1 Hk2]. destruct Hfu as [Hp1 Hp2]. rewrite <- Hr in Hp1, Hp2.
               destruct (Nat.lt_trichotomy k (length p)) as [Hlt|[Heq|Hgt]]; [exfalso; exact (Hp2 k Hlt Hk1)|exact Heq|exfalso; exact (Hk2 _ Hgt Hp1)]. }
             subst k. rewrite Hr, firstn_pre, Hre. reflexivity.
        * split; [discriminate|]. intros (rest & Hs & [Hfu _] & _). injection Hs as Hr. exfalso. apply (Hf (length p)).
          rewrite Hr. exact Hfu.
      + split; [discriminate|intros (rest & H & _); inversion H; congruence].
  Qed.

  (* otherwise it is rejected with one of the three regex codes at an index inside the text; the empty text
     (no byte to point at) is rejected with "Empty schema" and carries no position *)
  Theorem rcompile_reject s : (exists p, fst (rcompile re_ok s) = Ok p) \/
    (s = [] /\ rcompile re_ok s = (Err 202, (-1)%Z)) \/
    (exists c i, rcompile re_ok s = (Err c, i) /\ (c = 1500 \/ c = 1501 \/ c = 1502)%N /\ (0 <= i < Z.of_nat (length s))%Z).
  Proof.
    unfold rcompile. destruct s as [|c r]; [right; left; auto|].
    assert (Hl : (0 < Z.of_nat (length (c :: r)))%Z) by (cbn [length]; lia).
    destruct (N.eqb c 47); cbn [negb].
    - destruct (find_close false r 0) as [k|].
      + destruct (re_ok (firstn k r)); [left; eexists; reflexivity|].
        right; right. exists 1502%N, 0%Z. split; [reflexivity|]. split; [auto|lia].
      + right; right. exists 1501%N, (Z.of_nat (length (c :: r)) - 1)%Z. split; [reflexivity|]. split; [auto|lia].
    - right; right. exists 1500%N, 0%Z. split; [reflexivity|]. split; [auto|lia].
  Qed.

  (* Len is the delimited length and lies inside the text; AST value and OpenAPI pattern carry the pattern *)
  Theorem rlen_prefix s p : fst (rcompile re_ok s) = Ok p ->
    (rlen p <= Z.of_nat (length s))%Z /\ firstn (Z.to_nat (rlen p)) s = r_ast_value p.
  Proof.
    intros H. apply rcompile_accept in H. destruct H as (rest & -> & _ & _). unfold rlen, r_ast_value. split.
    - cbn [length]. rewrite app_length. cbn [length]. lia.
    - replace (Z.to_nat (Z.of_nat (length p) + 2)) with (S (length p + 1)) by lia. cbn [firstn]. f_equal.
      replace (p ++ 47%N :: rest) with ((p ++ [47%N]) ++ rest) by (rewrite <- app_assoc; reflexivity).
      replace (length p + 1) with (length (p ++ [47%N])) by (rewrite app_length; reflexivity).
      apply firstn_pre.
  Qed.
End Regex.

Theorem openapi_pattern p : r_openapi_pattern (r_ast_value p) = p.
Proof.
  unfold r_openapi_pattern, r_ast_value, trim_suffix_slash.
  replace (rev (47%N :: p ++ [47%N])) with (47%N :: rev (47%N :: p)).
  - cbn [N.eqb Pos.eqb]. rewrite rev_involutive. reflexivity.
  - cbn [rev]. rewrite rev_app_distr. reflexivity.
Qed.
