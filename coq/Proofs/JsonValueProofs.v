From Coq Require Import List NArith Bool Arith Lia.
From JS Require Import Base.Res Spec.JsonGrammar Model.EnumParse Model.JsonValue Proofs.EnumProofs.
Import ListNotations.
Local Open Scope N_scope.

(* ---- scalars are recognised the same way in every context that cannot extend them ---- *)
(* what may follow a scalar without changing where it ends: not a digit and not a decimal point *)
Definition stop (r : bytes) : Prop := match r with [] => True | c :: _ => digit c = false /\ c <> 46 end.

Lemma str_body_complete body : StrBody body -> forall acc r, str_body (body ++ 34 :: r) acc = Some (rev acc ++ body ++ [34], r).
Proof.
  induction 1 as [|c b Hc _ IH|e b He _ IH|h1 h2 h3 h4 b H1 H2 H3 H4 _ IH]; intros acc r.
  - cbn [app str_body]. rewrite N.eqb_refl. cbn [rev app]. rewrite <- ?app_assoc. reflexivity.
  - cbn [app str_body]. unfold unescaped in Hc. apply andb_true_iff in Hc. destruct Hc as [Hc H92]. apply andb_true_iff in Hc. destruct Hc as [H32 H34].
    apply negb_true_iff in H92, H34. rewrite H34, H92, H32, IH. cbn [rev]. rewrite <- !app_assoc. reflexivity.
  - cbn [app str_body]. rewrite He, IH. cbn [rev]. rewrite <- !app_assoc. reflexivity.
  - cbn [app str_body]. rewrite H1, H2, H3, H4. cbn [andb].
    assert (Hs : simple_escape 117 = false) by reflexivity. rewrite Hs, IH. cbn [rev]. rewrite <- !app_assoc. reflexivity.
Qed.

Lemma take_digits_app d : digits d -> forall r, match r with [] => True | c :: _ => digit c = false end -> take_digits (d ++ r) = (d, r).
Proof.
  induction 1 as [|c d Hc _ IH]; intros r Hr; cbn [app take_digits].
  - destruct r as [|c r]; [reflexivity|]. cbn [take_digits]. rewrite Hr. reflexivity.
  - rewrite Hc, (IH r Hr). reflexivity.
Qed.
Lemma stop_digit r : stop r -> match r with [] => True | c :: _ => digit c = false end.
Proof. destruct r; [auto|intros [H _]; exact H]. Qed.

Lemma num_body_complete i f r : JInt i -> JFrac f -> stop r -> num_body (i ++ f ++ r) = Some (i ++ f, r).
Proof.
  intros Hi Hf Hr. unfold num_body.
  assert (Hfr : match f ++ r with [] => True | c :: _ => digit c = false end).
  { destruct Hf as [->|(c & d & -> & _ & _)]; [exact (stop_digit r Hr)|reflexivity]. }
  assert (Hint : forall rest, match rest with [] => True | c :: _ => digit c = false end ->
            match i ++ rest with
            | c :: r0 => (if c =? 48 then Some ([48], r0) else if digit19 c then let (d, r') := take_digits r0 in Some (c :: d, r') else None) = Some (i, rest)
            | [] => False end).
  { intros rest Hrest. destruct Hi as [->|(c & d & -> & Hc & Hd)]; cbn [app].
    - reflexivity.
    - assert (Hz : (c =? 48) = false). { unfold digit19 in Hc. apply andb_true_iff in Hc. destruct Hc as [H1 _]. apply N.leb_le in H1. apply N.eqb_neq. lia. }
      rewrite Hz, Hc, (take_digits_app d Hd rest Hrest). reflexivity. }
  specialize (Hint (f ++ r) Hfr). destruct (i ++ f ++ r) as [|c r0] eqn:E; [destruct Hint|]. rewrite Hint.
  destruct Hf as [->|(c1 & d & -> & Hc1 & Hd)].
  - cbn [app]. rewrite app_nil_r. destruct r as [|x r']; [reflexivity|]. destruct Hr as [_ Hx].
    destruct (N.eqb_spec x 46) as [->|Hne]; [congruence|].
    destruct x as [|p]; [reflexivity|]. repeat (destruct p as [p|p|]; try reflexivity). congruence.
  - cbn [app]. assert (Ht : take_digits (c1 :: d ++ r) = (c1 :: d, r)).
    { apply (take_digits_app (c1 :: d)); [constructor; assumption|exact (stop_digit r Hr)]. }
    rewrite Ht. rewrite <- ?app_assoc. reflexivity.
Qed.

Lemma strip_prefix_app p r : strip_prefix p (p ++ r) = Some r.
Proof. induction p as [|a p IH]; cbn; [reflexivity|]. rewrite N.eqb_refl. exact IH. Qed.

Theorem scalar_rescan lit : EnumScalar lit -> forall r, stop r -> scalar (lit ++ r) = Some (lit, r).
Proof.
  intros [(body & -> & Hb)|[(m & i & f & -> & Hm & Hi & Hf)|[-> |[-> | ->]]]] r Hr.
  - cbn [app scalar]. rewrite <- app_assoc. cbn [app]. rewrite (str_body_complete body Hb [34] r). reflexivity.
  - destruct Hm as [->| ->]; cbn [app].
    + pose proof (num_body_complete i f r Hi Hf Hr) as Hn. rewrite <- app_assoc.
      destruct Hi as [->|(c & d & -> & Hc & Hd)]; cbn [app scalar] in *.
      * exact Hn.
      * assert (Hd19 : digit c = true). { unfold digit19 in Hc. unfold digit. apply andb_true_iff in Hc. destruct Hc as [H1 H2]. apply N.leb_le in H1, H2. apply andb_true_iff. split; apply N.leb_le; lia. }
        assert (H34 : c <> 34 /\ c <> 45). { unfold digit19 in Hc. apply andb_true_iff in Hc. destruct Hc as [H1 H2]. apply N.leb_le in H1, H2. lia. }
        destruct c as [|p]; [discriminate|]. rewrite Hd19 in *.
        repeat (destruct p as [p|p|]; try exact Hn); exfalso; destruct H34; congruence.
    + rewrite <- !app_assoc. cbn [app scalar]. rewrite (num_body_complete i f r Hi Hf Hr). reflexivity.
  - reflexivity.
  - reflexivity.
  - reflexivity.
Qed.

(* ---- renderings of a tree: any blank space between the tokens ---- *)
Inductive Renders : jv -> bytes -> Prop :=
| R_lit l : EnumScalar l -> Renders (JLit l) l
| R_arr0 w : ws w -> Renders (JArr []) (91 :: w ++ [93])
| R_arr items body : RItems items body -> Renders (JArr items) (91 :: body ++ [93])
| R_obj0 w : ws w -> Renders (JObj []) (123 :: w ++ [125])
| R_obj ms body : RMembers ms body -> Renders (JObj ms) (123 :: body ++ [125])
with RItems : list jv -> bytes -> Prop :=
| RI_one v w1 s w2 : ws w1 -> Renders v s -> ws w2 -> RItems [v] (w1 ++ s ++ w2)
| RI_more v w1 s w2 rest body : ws w1 -> Renders v s -> ws w2 -> RItems rest body ->
    RItems (v :: rest) (w1 ++ s ++ w2 ++ 44 :: body)
with RMembers : list (bytes * jv) -> bytes -> Prop :=
| RM_one k v w1 w2 w3 s w4 : ws w1 -> JString k -> ws w2 -> ws w3 -> Renders v s -> ws w4 ->
    RMembers [(k, v)] (w1 ++ k ++ w2 ++ 58 :: w3 ++ s ++ w4)
| RM_more k v w1 w2 w3 s w4 rest body : ws w1 -> JString k -> ws w2 -> ws w3 -> Renders v s -> ws w4 -> RMembers rest body ->
    RMembers ((k, v) :: rest) (w1 ++ k ++ w2 ++ 58 :: w3 ++ s ++ w4 ++ 44 :: body).
Scheme Renders_m := Induction for Renders Sort Prop
  with RItems_m := Induction for RItems Sort Prop
  with RMembers_m := Induction for RMembers Sort Prop.
Combined Scheme renders_mutind from Renders_m, RItems_m, RMembers_m.

Lemma skipws_app w s : ws w -> skipws (w ++ s) = skipws s.
Proof. induction 1 as [|c w Hc _ IH]; cbn [app]; [reflexivity|]. unfold skipws in *. cbn [skip_ws]. rewrite Hc. exact IH. Qed.
Lemma skipws_id c s : is_ws c = false -> skipws (c :: s) = c :: s.
Proof. intros H. unfold skipws. cbn [skip_ws]. rewrite H. reflexivity. Qed.

Lemma is_ws_cases c : is_ws c = true -> c = 32 \/ c = 9 \/ c = 10 \/ c = 13.
Proof. destruct c as [|p]; [discriminate|]. repeat (destruct p as [p|p|]; try discriminate); auto. Qed.

Lemma scalar_head l : EnumScalar l -> exists c l', l = c :: l' /\ is_ws c = false /\ c <> 91 /\ c <> 123 /\ c <> 93 /\ c <> 125.
Proof.
  intros [(body & -> & _)|[(m & i & f & -> & Hm & Hi & _)|[-> |[-> | ->]]]].
  - exists 34, (body ++ [34]). repeat split; discriminate.
  - destruct Hm as [-> | ->].
    + destruct Hi as [-> |(c & d & -> & Hc & _)].
      * exists 48, f. repeat split; discriminate.
      * exists c, (d ++ f). unfold digit19 in Hc. apply andb_true_iff in Hc. destruct Hc as [H1 H2]. apply N.leb_le in H1, H2.
        split; [reflexivity|]. split; [|lia]. destruct (is_ws c) eqn:E; [|reflexivity]. exfalso. apply is_ws_cases in E. lia.
    + exists 45, (i ++ f). repeat split; discriminate.
  - exists 116, [114; 117; 101]. repeat split; discriminate.
  - exists 102, [97; 108; 115; 101]. repeat split; discriminate.
  - exists 110, [117; 108; 108]. repeat split; discriminate.
Qed.

Lemma pvalue_scalar f c s lit rest : is_ws c = false -> c <> 91 -> c <> 123 -> scalar (c :: s) = Some (lit, rest) ->
  pvalue (S f) (c :: s) = Some (JLit lit, rest).
Proof.
  intros Hw H91 H123 Hs. cbn [pvalue]. rewrite (skipws_id c s Hw).
  assert (Hgoal : match scalar (c :: s) with Some (l, r) => Some (JLit l, r) | None => None end = Some (JLit lit, rest)) by (rewrite Hs; reflexivity).
  destruct c as [|p]; [exact Hgoal|]. repeat (destruct p as [p|p|]; try exact Hgoal); congruence.
Qed.

Lemma stop_ws w c r : ws w -> (c = 44 \/ c = 93 \/ c = 125) -> stop (w ++ c :: r).
Proof.
  intros Hw Hc. destruct Hw as [|x w Hx _]; cbn [app stop].
  - destruct Hc as [-> |[-> | ->]]; split; [reflexivity|discriminate|reflexivity|discriminate|reflexivity|discriminate].
  - destruct x as [|p]; [discriminate|]. repeat (destruct p as [p|p|]; try discriminate); split; try reflexivity; discriminate.
Qed.

Lemma renders_nonempty v s : Renders v s -> (1 <= length s)%nat.
Proof. intros H. destruct H as [l Hl| | | |]; [destruct (scalar_head l Hl) as (c & l' & -> & _)|..]; cbn [length]; lia. Qed.

(* every rendering is parsed back to its tree, whatever follows a complete value (fuel: twice the length suffices) *)
Ltac norm_len H := rewrite ?app_length in H; cbn [length] in H; rewrite ?app_length in H; cbn [length] in H; rewrite ?app_length in H; cbn [length] in H.

Theorem parse_complete :
  (forall v s, Renders v s -> forall r f, stop r -> (2 * length s <= f)%nat -> pvalue f (s ++ r) = Some (v, r)) /\
  (forall items s, RItems items s -> forall r f acc, (2 * length s + 1 <= f)%nat ->
     pitems f (s ++ 93 :: r) acc = Some (JArr (rev acc ++ items), r)) /\
  (forall ms s, RMembers ms s -> forall r f acc, (2 * length s + 1 <= f)%nat ->
     pmembers f (s ++ 125 :: r) acc = Some (JObj (rev acc ++ ms), r)).
Proof.
  apply renders_mutind.
  - intros l Hl r f Hr Hf. destruct (scalar_head l Hl) as (c & l' & -> & Hw & H91 & H123 & _ & _). destruct f as [|f]; [cbn in Hf; lia|].
    cbn [app]. apply pvalue_scalar; try assumption. apply (scalar_rescan (c :: l') Hl r Hr).
  - intros w Hw r f _ Hf. destruct f as [|f]; [cbn in Hf; lia|]. cbn [app pvalue]. rewrite (skipws_id 91) by reflexivity.
    rewrite <- app_assoc. rewrite (skipws_app w _ Hw). cbn [app]. rewrite (skipws_id 93) by reflexivity. reflexivity.
  - intros items body Hb IH r f _ Hf. destruct f as [|f]; [cbn in Hf; lia|]. cbn [app pvalue]. rewrite (skipws_id 91) by reflexivity.
    rewrite <- app_assoc. cbn [app].
    assert (Hne : match skipws (body ++ 93 :: r) with 93 :: _ => False | _ => True end).
    { clear IH. destruct Hb as [v w1 s w2 Hw1 Hv Hw2|v w1 s w2 rest body' Hw1 Hv Hw2 Hrest]; rewrite <- !app_assoc; rewrite (skipws_app w1 _ Hw1);
        (destruct Hv as [l Hl|w Hw|? ? ?|w Hw|? ? ?]; [destruct (scalar_head l Hl) as (c & l' & -> & Hc & _ & _ & H93 & _); cbn [app]; rewrite (skipws_id c _ Hc);
           destruct c as [|p]; [exact I|]; repeat (destruct p as [p|p|]; try exact I); congruence| | | |]; cbn [app]; rewrite skipws_id by reflexivity; exact I). }
    specialize (IH r f [] ltac:(cbn [length] in Hf; rewrite app_length in Hf; cbn [length] in Hf; lia)). cbn [rev app] in IH.
    destruct (skipws (body ++ 93 :: r)) as [|c0 r0] eqn:E; [exact IH|].
    destruct c0 as [|p]; [exact IH|]. repeat (destruct p as [p|p|]; try exact IH). destruct Hne.
  - intros w Hw r f _ Hf. destruct f as [|f]; [cbn in Hf; lia|]. cbn [app pvalue]. rewrite (skipws_id 123) by reflexivity.
    rewrite <- app_assoc. rewrite (skipws_app w _ Hw). cbn [app]. rewrite (skipws_id 125) by reflexivity. reflexivity.
  - intros ms body Hb IH r f _ Hf. destruct f as [|f]; [cbn in Hf; lia|]. cbn [app pvalue]. rewrite (skipws_id 123) by reflexivity.
    rewrite <- app_assoc. cbn [app].
    assert (Hne : match skipws (body ++ 125 :: r) with 125 :: _ => False | _ => True end).
    { clear IH. destruct Hb as [k v w1 w2 w3 s w4 Hw1 Hk|k v w1 w2 w3 s w4 rest body' Hw1 Hk]; rewrite <- !app_assoc; rewrite (skipws_app w1 _ Hw1);
        destruct Hk as (kb & -> & _); cbn [app]; rewrite skipws_id by reflexivity; exact I. }
    specialize (IH r f [] ltac:(cbn [length] in Hf; rewrite app_length in Hf; cbn [length] in Hf; lia)). cbn [rev app] in IH.
    destruct (skipws (body ++ 125 :: r)) as [|c0 r0] eqn:E; [exact IH|].
    destruct c0 as [|p]; [exact IH|]. repeat (destruct p as [p|p|]; try exact IH). destruct Hne.
  - intros v w1 s w2 Hw1 Hv IHv Hw2 r f acc Hf. destruct f as [|f]; [lia|]. cbn [pitems].
    norm_len Hf. rewrite <- !app_assoc.
    assert (Hpv : pvalue f (w1 ++ s ++ w2 ++ 93 :: r) = Some (v, w2 ++ 93 :: r)).
    { pose proof (renders_nonempty _ _ Hv) as Hne. destruct f as [|f]; [lia|].
      cbn [pvalue]. rewrite (skipws_app w1 _ Hw1). specialize (IHv (w2 ++ 93 :: r) (S f) (stop_ws w2 93 r Hw2 ltac:(auto)) ltac:(lia)).
      cbn [pvalue] in IHv. exact IHv. }
    rewrite Hpv. rewrite (skipws_app w2 _ Hw2), (skipws_id 93) by reflexivity. cbn [rev]. rewrite <- ?app_assoc. reflexivity.
  - intros v w1 s w2 rest body Hw1 Hv IHv Hw2 Hrest IHr r f acc Hf. destruct f as [|f]; [lia|]. cbn [pitems].
    norm_len Hf. repeat (rewrite <- ?app_assoc; cbn [app]).
    assert (Hpv : pvalue f (w1 ++ s ++ w2 ++ 44 :: body ++ 93 :: r) = Some (v, w2 ++ 44 :: body ++ 93 :: r)).
    { pose proof (renders_nonempty _ _ Hv) as Hne. destruct f as [|f]; [lia|].
      cbn [pvalue]. rewrite (skipws_app w1 _ Hw1). specialize (IHv (w2 ++ 44 :: body ++ 93 :: r) (S f) (stop_ws w2 44 _ Hw2 ltac:(auto)) ltac:(lia)).
      cbn [pvalue] in IHv. exact IHv. }
    rewrite Hpv. rewrite (skipws_app w2 _ Hw2), (skipws_id 44) by reflexivity.
    rewrite (IHr r f (v :: acc) ltac:(lia)). cbn [rev]. rewrite <- ?app_assoc. reflexivity.
  - intros k v w1 w2 w3 s w4 Hw1 Hk Hw2 Hw3 Hv IHv Hw4 r f acc Hf. destruct f as [|f]; [lia|]. cbn [pmembers].
    norm_len Hf. repeat (rewrite <- ?app_assoc; cbn [app]).
    rewrite (skipws_app w1 _ Hw1). destruct Hk as (kb & -> & Hkb). cbn [app]. rewrite (skipws_id 34) by reflexivity.
    rewrite <- app_assoc. cbn [app]. rewrite (str_body_complete kb Hkb [34]). cbn [rev app].
    rewrite (skipws_app w2 _ Hw2), (skipws_id 58) by reflexivity.
    assert (Hpv : pvalue f (w3 ++ s ++ w4 ++ 125 :: r) = Some (v, w4 ++ 125 :: r)).
    { pose proof (renders_nonempty _ _ Hv) as Hne. destruct f as [|f]; [cbn [length] in Hf; lia|].
      cbn [pvalue]. rewrite (skipws_app w3 _ Hw3). specialize (IHv (w4 ++ 125 :: r) (S f) (stop_ws w4 125 r Hw4 ltac:(auto)) ltac:(cbn [length] in Hf; lia)).
      cbn [pvalue] in IHv. exact IHv. }
    rewrite Hpv. rewrite (skipws_app w4 _ Hw4), (skipws_id 125) by reflexivity. cbn [rev]. rewrite <- ?app_assoc. reflexivity.
  - intros k v w1 w2 w3 s w4 rest body Hw1 Hk Hw2 Hw3 Hv IHv Hw4 Hrest IHr r f acc Hf. destruct f as [|f]; [lia|]. cbn [pmembers].
    norm_len Hf.
    repeat (rewrite <- ?app_assoc; cbn [app]).
    rewrite (skipws_app w1 _ Hw1). destruct Hk as (kb & -> & Hkb). cbn [app]. rewrite (skipws_id 34) by reflexivity.
    rewrite <- app_assoc. cbn [app]. rewrite (str_body_complete kb Hkb [34]). cbn [rev app].
    rewrite (skipws_app w2 _ Hw2), (skipws_id 58) by reflexivity.
    assert (Hpv : pvalue f (w3 ++ s ++ w4 ++ 44 :: body ++ 125 :: r) = Some (v, w4 ++ 44 :: body ++ 125 :: r)).
    { pose proof (renders_nonempty _ _ Hv) as Hne. destruct f as [|f]; [cbn [length] in Hf; lia|].
      cbn [pvalue]. rewrite (skipws_app w3 _ Hw3). specialize (IHv (w4 ++ 44 :: body ++ 125 :: r) (S f) (stop_ws w4 44 _ Hw4 ltac:(auto)) ltac:(cbn [length] in Hf; lia)).
      cbn [pvalue] in IHv. exact IHv. }
    rewrite Hpv. rewrite (skipws_app w4 _ Hw4), (skipws_id 44) by reflexivity.
    rewrite IHr by (cbn [length] in Hf; lia). cbn [rev]. rewrite <- ?app_assoc. reflexivity.
Qed.

Lemma pvalue_skip f w x : ws w -> pvalue (S f) (w ++ x) = pvalue (S f) x.
Proof. intros Hw. cbn [pvalue]. rewrite (skipws_app w x Hw). reflexivity. Qed.
Lemma skipws_all w : ws w -> skipws w = [].
Proof. intros Hw. rewrite <- (app_nil_r w), (skipws_app w [] Hw). reflexivity. Qed.
Lemma stop_of_ws w : ws w -> stop w.
Proof. intros Hw. pose proof (stop_ws w 44 [] Hw ltac:(auto)) as H. destruct Hw; cbn [app stop] in *; [exact I|exact H]. Qed.

(* a JSON text - any rendering of a tree of scalars without exponents, with any blank space around and inside it -
   whose objects have no two keys denoting the same string is accepted, and the tree that is built is that tree *)
Theorem jparse_complete v s w1 w2 : Renders v s -> ws w1 -> ws w2 -> keys_ok (S (depth v)) v = true ->
  jparse (w1 ++ s ++ w2) = Some v.
Proof.
  intros Hr H1 H2 Hk. unfold jparse. rewrite (pvalue_skip _ w1 _ H1).
  assert (Hf : (2 * length s <= S (2 * length (w1 ++ s ++ w2)))%nat) by (rewrite !app_length; lia).
  rewrite (proj1 parse_complete v s Hr w2 _ (stop_of_ws w2 H2) Hf).
  rewrite (skipws_all w2 H2), Hk. reflexivity.
Qed.

(* ---- Len(): the end of the root value does not depend on what follows it ---- *)
Lemma pvalue_fuel_any v s : Renders v s -> forall r f, stop r -> (2 * length s <= f)%nat -> pvalue f (s ++ r) = Some (v, r).
Proof. exact (proj1 parse_complete v s). Qed.

Theorem jlen_boundary v s w1 r : Renders v s -> ws w1 -> stop r -> jlen (w1 ++ s ++ r) = Some (length w1 + length s)%nat.
Proof.
  intros Hr H1 Hs. unfold jlen. rewrite (pvalue_skip _ w1 _ H1).
  assert (Hf : (2 * length s <= S (2 * length (w1 ++ s ++ r)))%nat) by (rewrite !app_length; lia).
  rewrite (pvalue_fuel_any v s Hr r _ Hs Hf). f_equal. rewrite !app_length. lia.
Qed.
(* hence: any two continuations give the same length, the prefix up to the length has the same length (idempotent),
   and the length never exceeds the text *)
Corollary jlen_trailer_free v s w1 r1 r2 : Renders v s -> ws w1 -> stop r1 -> stop r2 -> jlen (w1 ++ s ++ r1) = jlen (w1 ++ s ++ r2).
Proof. intros. rewrite !(jlen_boundary v s w1) by assumption. reflexivity. Qed.
Corollary jlen_idempotent v s w1 r n : Renders v s -> ws w1 -> stop r -> jlen (w1 ++ s ++ r) = Some n ->
  firstn n (w1 ++ s ++ r) = w1 ++ s /\ jlen (w1 ++ s) = Some n /\ (n <= length (w1 ++ s ++ r))%nat.
Proof.
  intros Hr H1 Hs Hn. rewrite (jlen_boundary v s w1 r Hr H1 Hs) in Hn. inversion Hn; subst. split; [|split].
  - rewrite app_assoc, <- app_length. rewrite firstn_app, Nat.sub_diag, firstn_all. cbn. apply app_nil_r.
  - rewrite <- (app_nil_r s) at 1. apply (jlen_boundary v s w1 [] Hr H1 I).
  - rewrite !app_length. lia.
Qed.
