From Coq Require Import String List NArith Bool Permutation Lia.
From JS Require Import Model.Nondet Gen.NondetSites Spec.TypeVocab.
Import ListNotations.

(* first match: independent of the order when at most one key can succeed *)
Lemma first_match_unique {K R} (f : K -> option R) (order : list K) k x :
  In k order -> f k = Some x -> (forall k', In k' order -> f k' <> None -> k' = k) -> first_match f order = Some x.
Proof.
  induction order as [|a r IH]; intros Hin Hf Hex; [inversion Hin|]. cbn [first_match].
  destruct (f a) eqn:Ea.
  - assert (a = k) by (apply Hex; [left; reflexivity|congruence]). subst. congruence.
  - destruct Hin as [->|Hin]; [congruence|]. apply IH; auto. intros k' Hk'. apply Hex. right; assumption.
Qed.
Lemma first_match_none {K R} (f : K -> option R) order : (forall k, In k order -> f k = None) -> first_match f order = None.
Proof.
  induction order as [|a r IH]; intros H; [reflexivity|]. cbn. rewrite (H a (or_introl eq_refl)). apply IH.
  intros k Hk. apply H. right; assumption.
Qed.
Theorem first_match_order_free {K R} (f : K -> option R) (o1 o2 : list K) :
  Permutation o1 o2 -> (forall a b, In a o1 -> In b o1 -> f a <> None -> f b <> None -> a = b) ->
  first_match f o1 = first_match f o2.
Proof.
  intros Hp Hex. destruct (first_match f o1) eqn:E1.
  - (* some key succeeded: it is the only one, in both orders *)
    assert (exists k, In k o1 /\ f k = Some r).
    { clear -E1. induction o1 as [|a l IH]; [discriminate|]. cbn in E1. destruct (f a) eqn:Ea.
      - inversion E1; subst. exists a. split; [left; reflexivity|assumption].
      - destruct (IH E1) as (k & Hk & Hf). exists k. split; [right; assumption|assumption]. }
    destruct H as (k & Hk & Hf). symmetry. apply (first_match_unique f o2 k r).
    + apply (Permutation_in _ Hp Hk).
    + exact Hf.
    + intros k' Hk' Hn. apply Hex; [apply (Permutation_in _ (Permutation_sym Hp) Hk')|assumption|assumption|congruence].
  - symmetry. apply first_match_none. intros k Hk.
    assert (Hk1 : In k o1) by (apply (Permutation_in _ (Permutation_sym Hp) Hk)).
    clear -E1 Hk1. induction o1 as [|a l IH]; [inversion Hk1|]. cbn in E1. destruct (f a) eqn:Ea; [discriminate|].
    destruct Hk1 as [->|H]; [assumption|apply IH; assumption].
Qed.

(* copying / deleting all entries: the resulting map is the same for every order (distinct keys) *)
Lemma sset_comm s k1 v1 k2 v2 : k1 <> k2 -> forall x, sset (sset s k1 v1) k2 v2 x = sset (sset s k2 v2) k1 v1 x.
Proof. intros H x. unfold sset. destruct (N.eqb_spec x k2), (N.eqb_spec x k1); congruence. Qed.
Lemma copy_ext order : forall d d', (forall x, d x = d' x) ->
  forall x, fold_left (fun d kv => sset d (fst kv) (snd kv)) order d x = fold_left (fun d kv => sset d (fst kv) (snd kv)) order d' x.
Proof.
  induction order as [|kv r IH]; intros d d' H x; cbn; [apply H|]. apply IH. intros y. unfold sset. rewrite H. reflexivity.
Qed.
Theorem copy_all_order_free src o1 o2 dst : Permutation o1 o2 -> NoDup (map fst o1) ->
  forall x, copy_all src o1 dst x = copy_all src o2 dst x.
Proof.
  unfold copy_all. intros Hp. revert dst. induction Hp as [|a l l' Hp IH|a b l|l1 l2 l3 H1 IH1 H2 IH2]; intros dst Hnd x.
  - reflexivity.
  - cbn. inversion Hnd; subst. apply IH. assumption.
  - cbn. inversion Hnd as [|? ? Hb Hr]; subst. apply copy_ext. intros y. apply sset_comm. intros E. apply Hb. left. cbn. congruence.
  - rewrite IH1 by assumption. apply IH2. apply (Permutation_NoDup (Permutation_map fst H1) Hnd).
Qed.
(* copying the entries the destination (or another map) does not have yet: each step looks up and writes its own key only *)
Lemma cm_step_ext gd g d d' kv : (forall x, d x = d' x) -> forall x, copy_missing_step gd g d kv x = copy_missing_step gd g d' kv x.
Proof.
  intros H x. unfold copy_missing_step. destruct gd.
  - rewrite <- (H (fst kv)). destruct (d (fst kv)); [apply H|]. unfold sset. rewrite H. reflexivity.
  - destruct (g (fst kv)); [apply H|]. unfold sset. rewrite H. reflexivity.
Qed.
Lemma cm_ext gd g order : forall d d', (forall x, d x = d' x) ->
  forall x, fold_left (copy_missing_step gd g) order d x = fold_left (copy_missing_step gd g) order d' x.
Proof.
  induction order as [|kv r IH]; intros d d' H x; cbn [fold_left]; [apply H|]. apply IH. intros y. apply cm_step_ext. exact H.
Qed.
Lemma cm_step_comm gd g d a b : fst a <> fst b ->
  forall x, copy_missing_step gd g (copy_missing_step gd g d a) b x = copy_missing_step gd g (copy_missing_step gd g d b) a x.
Proof.
  intros Hne x. unfold copy_missing_step. destruct gd.
  - assert (Hab : N.eqb (fst a) (fst b) = false) by (apply N.eqb_neq; exact Hne).
    assert (Hba : N.eqb (fst b) (fst a) = false) by (apply N.eqb_neq; congruence).
    destruct (d (fst a)) eqn:Ea, (d (fst b)) eqn:Eb; unfold sset; cbn beta iota;
      rewrite ?Hab, ?Hba, ?Ea, ?Eb; cbn beta iota; rewrite ?Hab, ?Hba, ?Ea, ?Eb; try reflexivity.
    destruct (N.eqb_spec x (fst b)), (N.eqb_spec x (fst a)); congruence.
  - destruct (g (fst a)), (g (fst b)); try reflexivity. apply sset_comm. congruence.
Qed.
Theorem copy_missing_order_free gd g o1 o2 dst : Permutation o1 o2 -> NoDup (map fst o1) ->
  forall x, copy_missing gd g o1 dst x = copy_missing gd g o2 dst x.
Proof.
  unfold copy_missing. intros Hp. revert dst. induction Hp as [|a l l' Hp IH|a b l|l1 l2 l3 H1 IH1 H2 IH2]; intros dst Hnd x.
  - reflexivity.
  - cbn [fold_left]. inversion Hnd; subst. apply IH. assumption.
  - cbn [fold_left]. inversion Hnd as [|? ? Hb Hr]; subst. apply cm_ext. intros y. apply cm_step_comm.
    intros E. apply Hb. left. cbn. congruence.
  - rewrite IH1 by assumption. apply IH2. apply (Permutation_NoDup (Permutation_map fst H1) Hnd).
Qed.
Lemma sdel_comm s k1 k2 : forall x, sdel (sdel s k1) k2 x = sdel (sdel s k2) k1 x.
Proof. intros x. unfold sdel. destruct (N.eqb x k2), (N.eqb x k1); reflexivity. Qed.
Lemma del_ext order : forall d d', (forall x, d x = d' x) -> forall x, fold_left sdel order d x = fold_left sdel order d' x.
Proof. induction order as [|k r IH]; intros d d' H x; cbn; [apply H|]. apply IH. intros y. unfold sdel. rewrite H. reflexivity. Qed.
Theorem delete_all_order_free o1 o2 m : Permutation o1 o2 -> forall x, delete_all o1 m x = delete_all o2 m x.
Proof.
  unfold delete_all. intros Hp. revert m. induction Hp as [|a l l' Hp IH|a b l|l1 l2 l3 H1 IH1 H2 IH2]; intros m x.
  - reflexivity.
  - cbn. apply IH.
  - cbn. apply del_ext. intros y. apply sdel_comm.
  - rewrite IH1. apply IH2.
Qed.

(* collect + sort: the walked order is the same whatever order the map yields its keys in *)
Lemma insert_comm x y l : insert x (insert y l) = insert y (insert x l).
Proof.
  induction l as [|z r IH]; cbn.
  - destruct (N.leb_spec x y), (N.leb_spec y x); try reflexivity; [f_equal; f_equal; lia|lia].
  - destruct (N.leb_spec y z), (N.leb_spec x z); cbn.
    + destruct (N.leb_spec x y), (N.leb_spec y x); cbn; try reflexivity.
      * assert (x = y) by lia. subst. reflexivity.
      * destruct (N.leb_spec y z); [reflexivity|lia].
      * destruct (N.leb_spec x z); [reflexivity|lia].
      * lia.
    + destruct (N.leb_spec x y); [lia|]. destruct (N.leb_spec y z); [|lia]. destruct (N.leb_spec x z); [lia|reflexivity].
    + destruct (N.leb_spec y x); [lia|]. destruct (N.leb_spec x z); [|lia]. destruct (N.leb_spec y z); [lia|reflexivity].
    + destruct (N.leb_spec y z); [lia|]. destruct (N.leb_spec x z); [lia|]. f_equal. exact IH.
Qed.
Theorem sorted_walk_order_free o1 o2 : Permutation o1 o2 -> isort o1 = isort o2.
Proof.
  induction 1 as [|a l l' Hp IH|a b l|l1 l2 l3 H1 IH1 H2 IH2]; cbn; [reflexivity|f_equal; exact IH|apply insert_comm|congruence].
Qed.

(* collect + sort with a comparison of the caller's: still order-free when the comparison is a total order on the keys *)
Section GenSort.
  Variable K : Type.
  Variable leb : K -> K -> bool.
  Hypothesis total : forall x y, leb x y = true \/ leb y x = true.
  Hypothesis antisym : forall x y, leb x y = true -> leb y x = true -> x = y.
  Hypothesis trans : forall x y z, leb x y = true -> leb y z = true -> leb x z = true.
  Fixpoint ginsert (x : K) (l : list K) : list K :=
    match l with [] => [x] | z :: r => if leb x z then x :: l else z :: ginsert x r end.
  Fixpoint gsort (l : list K) : list K := match l with [] => [] | x :: r => ginsert x (gsort r) end.
  Lemma two x y : (if leb x y then [x; y] else [y; x]) = (if leb y x then [y; x] else [x; y]).
  Proof.
    destruct (leb x y) eqn:Exy, (leb y x) eqn:Eyx; try reflexivity.
    - rewrite (antisym x y Exy Eyx). reflexivity.
    - destruct (total x y); congruence.
  Qed.
  Lemma ginsert_comm x y l : ginsert x (ginsert y l) = ginsert y (ginsert x l).
  Proof.
    induction l as [|z r IH]; cbn [ginsert].
    - exact (two x y).
    - destruct (leb y z) eqn:Eyz, (leb x z) eqn:Exz; cbn [ginsert]; rewrite ?Eyz, ?Exz.
      + destruct (leb x y) eqn:Exy, (leb y x) eqn:Eyx; rewrite ?Exz, ?Eyz; try reflexivity.
        * rewrite (antisym x y Exy Eyx). reflexivity.
        * destruct (total x y); congruence.
      + destruct (leb x y) eqn:Exy; [rewrite (trans x y z Exy Eyz) in Exz; discriminate|]. rewrite ?Exz. reflexivity.
      + destruct (leb y x) eqn:Eyx; [rewrite (trans y x z Eyx Exz) in Eyz; discriminate|]. rewrite ?Eyz. reflexivity.
      + f_equal. exact IH.
  Qed.
  Theorem gsorted_walk_order_free o1 o2 : Permutation o1 o2 -> gsort o1 = gsort o2.
  Proof.
    induction 1 as [|a l l' Hp IH|a b l|l1 l2 l3 H1 IH1 H2 IH2]; cbn [gsort]; [reflexivity|f_equal; exact IH|apply ginsert_comm|congruence].
  Qed.
End GenSort.

(* CheckRootSchema's comparison (typeCheckedBefore): unnamed types first, by file, then by order of creation, then -
   and for named types only - by name.  Keys: (named?, file, seq, name), compared lexicographically; the name comes
   last, so distinct names never tie. *)
Definition tkey := (bool * N * N * N)%type.
Definition tk_leb (a b : tkey) : bool :=
  let '(ua, fa, sa, na) := a in let '(ub, fb, sb, nb) := b in
  if Bool.eqb ua ub then
    if ua then N.leb na nb     (* named: by name only *)
    else if N.eqb fa fb then (if N.eqb sa sb then N.leb na nb else N.ltb sa sb) else N.ltb fa fb
  else negb ua.
(* named keys carry no file/seq in the comparison, so they are normalised to 0 *)
Definition tk_norm (a : tkey) : tkey := let '(u, f, s, n) := a in if u then (u, 0%N, 0%N, n) else a.
Definition tk_ok (a : tkey) : Prop := tk_norm a = a.
Lemma tk_total a b : tk_leb a b = true \/ tk_leb b a = true.
Proof.
  destruct a as [[[ua fa] sa] na], b as [[[ub fb] sb] nb]. unfold tk_leb.
  destruct ua, ub; cbn [Bool.eqb negb]; auto.
  - destruct (N.leb_spec na nb), (N.leb_spec nb na); auto; lia.
  - rewrite (N.eqb_sym fb fa), (N.eqb_sym sb sa). destruct (N.eqb_spec fa fb); [destruct (N.eqb_spec sa sb)|].
    + destruct (N.leb_spec na nb), (N.leb_spec nb na); auto; lia.
    + destruct (N.ltb_spec sa sb), (N.ltb_spec sb sa); auto; lia.
    + destruct (N.ltb_spec fa fb), (N.ltb_spec fb fa); auto; lia.
Qed.
Lemma tk_antisym a b : tk_ok a -> tk_ok b -> tk_leb a b = true -> tk_leb b a = true -> a = b.
Proof.
  destruct a as [[[ua fa] sa] na], b as [[[ub fb] sb] nb]. unfold tk_leb, tk_ok, tk_norm.
  destruct ua, ub; cbn [Bool.eqb negb]; try discriminate.
  - intros Ha Hb H1 H2. inversion Ha; inversion Hb; subst. apply N.leb_le in H1, H2. f_equal. lia.
  - intros _ _. rewrite (N.eqb_sym fb fa), (N.eqb_sym sb sa). destruct (N.eqb_spec fa fb); [destruct (N.eqb_spec sa sb)|]; intros H1 H2.
    + apply N.leb_le in H1, H2. subst. f_equal. lia.
    + apply N.ltb_lt in H1, H2. lia.
    + apply N.ltb_lt in H1, H2. lia.
Qed.
Lemma tk_trans a b c : tk_leb a b = true -> tk_leb b c = true -> tk_leb a c = true.
Proof.
  destruct a as [[[ua fa] sa] na], b as [[[ub fb] sb] nb], c as [[[uc fc] sc] nc]. unfold tk_leb.
  destruct ua, ub, uc; cbn [Bool.eqb negb]; try discriminate; auto.
  - intros H1 H2. apply N.leb_le in H1, H2. apply N.leb_le. lia.
  - destruct (N.eqb_spec fa fb), (N.eqb_spec fb fc), (N.eqb_spec fa fc); try lia;
      try (destruct (N.eqb_spec sa sb), (N.eqb_spec sb sc), (N.eqb_spec sa sc); try lia);
      rewrite ?N.leb_le, ?N.ltb_lt; try lia.
Qed.

Local Open Scope string_scope.
(* every map range of the repository (regenerated on every run) is accounted for.
   Three shapes are order-free wherever they stand, by the generic theorems alone (the translator gives these classes only
   to loops whose single statement uses the loop's own key/value variables and computes nothing):
     collect-sorted  keys or values appended to a slice that is then sorted with sort.Strings/Ints/Float64s and walked
                     (sorted_walk_order_free);
     delete          delete(m, key) for every key (delete_all_order_free);
     copy-entries    dst[key] = value for every entry: distinct keys (copy_all_order_free); also m(key, value) when the callee,
                     resolved through the type checker, does nothing but recv.field[p0] = p1 (ISchema.AddType).
     copy-missing-entries  `if _, ok := g[key]; !ok { <copy-entries statement> }` with the loop's own key in the look-up: every
                     step reads and writes the entry of its own key only, whether g is the destination or another map
                     (copy_missing_order_free).
   So a loop of these shapes may be renamed, moved or added without a new argument. *)
Definition generic_classes : list string := ["collect-sorted"; "delete"; "copy-entries"; "copy-missing-entries"].
(* shapes whose order-freeness rests on something particular: identified by file|function|class (the text of the ranged
   expression is not part of the identity, so renaming a local changes nothing) *)
Definition accounted_sites : list string := [
  (* collected, sorted with typeCheckedBefore (a total order: tk_total/tk_antisym/tk_trans), walked: gsorted_walk_order_free *)
  "notations/jschema/checker/check_schema.go|CheckRootSchema|collect-sorted-by:sort.Slice:typeCheckedBefore"
].
(* loops that stop at the first key that matches (first_match_order_free): the translator lists the keys of the map
   literal; the loop is accounted for when it is at one of these places AND every key belongs to one family of
   constraints of which a node can carry at most one - those that its single `type` rule turns into *)
Definition first_match_places : list string := [
  "notations/jschema/checker/validate_literal_value.go|checkJsonType|stringBasedTypes";
  "notations/jschema/ischema/base_node.go|baseNode.SchemaType|constraintToSchemaTypeMap";
  "notations/jschema/loader/compiler_basic.go|schemaCompiler.allowedConstraintCheck|bannedConstraints"
].
Definition exclusive_family : list string := [
  "constraint.AnyConstraintType"; "constraint.DateConstraintType"; "constraint.DateTimeConstraintType";
  "constraint.EmailConstraintType"; "constraint.UriConstraintType"; "constraint.UuidConstraintType"
].

Fixpoint split_at (sep : Ascii.ascii) (s cur : string) : list string :=
  match s with
  | EmptyString => [cur]
  | String c r => if Ascii.eqb c sep then cur :: split_at sep r EmptyString else split_at sep r (cur ++ String c EmptyString)
  end.
Definition fm_prefix : string := "first-match:".
Definition site_ok (s : string) : bool :=
  match split_at (Ascii.ascii_of_nat 124) s EmptyString with
  | [file; fn; expr; class] =>
    smem class generic_classes || smem (file ++ "|" ++ fn ++ "|" ++ class) accounted_sites ||
    String.prefix fm_prefix class &&
    smem (file ++ "|" ++ fn ++ "|" ++ expr) first_match_places &&
    forallb (fun k => smem k exclusive_family)
            (split_at (Ascii.ascii_of_nat 44) (substring (String.length fm_prefix) (String.length class) class) EmptyString)
  | _ => false
  end.

(* unnamed types are named after a heap address; the name must never reach an observable *)
Definition accounted_pointer_sites : list string := ["notations/jschema/ischema/ischema.go|ISchema.AddUnnamedType"].

Lemma sites_accounted : forall s, In s map_range_sites -> site_ok s = true.
Proof.
  assert (H : forallb site_ok map_range_sites = true) by (vm_compute; reflexivity).
  intros s Hs. rewrite forallb_forall in H. auto.
Qed.
Lemma pointer_sites_accounted : forall s, In s pointer_format_sites -> smem s accounted_pointer_sites = true.
Proof.
  assert (H : forallb (fun s => smem s accounted_pointer_sites) pointer_format_sites = true) by (vm_compute; reflexivity).
  intros s Hs. rewrite forallb_forall in H. auto.
Qed.
