(* Termination of the recursion checker model: an explicit fuel bound, and fuel monotonicity (with enough fuel the
   verdict no longer depends on it).  Every followed reference adds a new name to `visited`; the names come from
   the finite universe of names in the (nested) type tables; between two references the node shrinks. *)
From Coq Require Import List Arith NArith Bool Lia.
From JS Require Import Base.Res Model.Recursion Spec.RefGraph Proofs.RecursionProofs.
Import ListNotations.

(* ---------- the universe of names and the largest root, over nested tables ---------- *)
Lemma e_names_eq r own : e_names (Entry r own) = t_names own.
Proof. cbn [e_names]. induction own as [|[n e] rest IH]; [reflexivity|]. cbn [t_names]. rewrite <- IH. reflexivity. Qed.
Lemma e_max_eq r own : e_max (Entry r own) = Nat.max (sz r) (t_max own).
Proof. reflexivity. Qed.

(* what the checker relies on, stated about a table: every entry found in it (at any depth) has a name of U,
   a root of size <= M, and an own table with the same property *)
Inductive wf_table (M : nat) (U : list tname) : table -> Prop :=
| wf_nil : wf_table M U []
| wf_cons n r own rest : In n U -> sz r <= M -> wf_table M U own -> wf_table M U rest ->
    wf_table M U ((n, Entry r own) :: rest).

Lemma wf_weaken M U M' U' tb : wf_table M U tb -> M <= M' -> incl U U' -> wf_table M' U' tb.
Proof. intros H HM HU. induction H; constructor; auto; lia. Qed.

Lemma wf_lookup M U tb t r own : wf_table M U tb -> lookup t tb = Some (Entry r own) ->
  In t U /\ sz r <= M /\ wf_table M U own.
Proof.
  induction 1 as [|n r0 own0 rest Hn Hs Ho _ Hr IH]; cbn [lookup]; [discriminate|].
  destruct (N.eqb_spec n t) as [->|Hne]; [|exact IH]. intros H; inversion H; subst. auto.
Qed.

(* the bounds computed from the table satisfy it *)
Section Computed.
  Fixpoint entry_depth (e : entry) : nat :=
    match e with
    | Entry _ own => S ((fix go (l : table) : nat := match l with [] => 0 | (_, e') :: r => Nat.max (entry_depth e') (go r) end) own)
    end.
  Fixpoint table_depth (tb : table) : nat := match tb with [] => 0 | (_, e) :: r => Nat.max (entry_depth e) (table_depth r) end.
  Lemma entry_depth_eq r own : entry_depth (Entry r own) = S (table_depth own).
  Proof. reflexivity. Qed.

  Lemma wf_computed_depth : forall d tb, table_depth tb <= d -> wf_table (t_max tb) (t_names tb) tb.
  Proof.
    induction d as [|d IH]; intros tb Hd.
    - destruct tb as [|[n [r own]] rest]; [constructor|]. cbn [table_depth] in Hd. rewrite entry_depth_eq in Hd. lia.
    - induction tb as [|[n [r own]] rest IHt]; [constructor|]. cbn [table_depth] in Hd. rewrite entry_depth_eq in Hd.
      cbn [t_max t_names]. rewrite e_max_eq, e_names_eq. constructor.
      + left; reflexivity.
      + lia.
      + apply (wf_weaken (t_max own) (t_names own)); [apply IH; lia|lia|].
        intros x Hx. right. apply in_or_app. left. exact Hx.
      + apply (wf_weaken (t_max rest) (t_names rest)); [apply IHt; lia|lia|].
        intros x Hx. right. apply in_or_app. right. exact Hx.
  Qed.
  Theorem wf_computed tb : wf_table (t_max tb) (t_names tb) tb.
  Proof. apply (wf_computed_depth (table_depth tb)). lia. Qed.
End Computed.

(* ---------- how many names are still unvisited ---------- *)
Definition fresh (U vis : list tname) : nat := length (filter (fun u => negb (memt u vis)) (nodup N.eq_dec U)).

Lemma memt_In t l : memt t l = true <-> In t l.
Proof.
  induction l as [|x r IH]; cbn [memt In]; [split; [discriminate|tauto]|].
  rewrite orb_true_iff, IH, N.eqb_eq. tauto.
Qed.
Lemma filter_drop t vis : forall l, NoDup l -> In t l -> memt t vis = false ->
  S (length (filter (fun u => negb (memt u (t :: vis))) l)) = length (filter (fun u => negb (memt u vis)) l).
Proof.
  induction l as [|x r IH]; intros Hnd Hin Hv; [inversion Hin|]. inversion Hnd as [|? ? Hx Hr]; subst.
  cbn [filter memt]. destruct Hin as [->|Hin].
  - rewrite N.eqb_refl, Hv. cbn [orb negb length]. f_equal.
    (* t does not occur in r: the two filters agree there *)
    clear IH Hr Hnd. induction r as [|y r IH]; [reflexivity|]. cbn [filter memt].
    assert (y <> t) by (intros ->; apply Hx; left; reflexivity).
    destruct (N.eqb_spec t y) as [E|_]; [congruence|]. cbn [orb].
    assert (Hx' : ~ In t r) by (intros X; apply Hx; right; exact X).
    destruct (negb (memt y vis)); cbn [length]; rewrite (IH Hx'); reflexivity.
  - assert (x <> t) by (intros ->; contradiction).
    destruct (N.eqb_spec t x) as [E|_]; [congruence|]. cbn [orb].
    destruct (negb (memt x vis)); cbn [length]; rewrite <- (IH Hr Hin Hv); reflexivity.
Qed.
Lemma fresh_drop U vis t : In t U -> memt t vis = false -> S (fresh U (t :: vis)) = fresh U vis.
Proof.
  intros Hin Hv. unfold fresh. apply filter_drop; [apply NoDup_nodup|apply nodup_In; exact Hin|exact Hv].
Qed.

(* ---------- enough fuel: no panic ---------- *)
Section Term.
  Variable rootname : tname.
  Variable roott : table.
  Variable M : nat.
  Variable U : list tname.
  Hypothesis Hroot : wf_table M U roott.
  Notation chk := (chk rootname roott).

  Definition np {A} (r : res A) : Prop := match r with Panic _ => False | _ => True end.

  Lemma chk_enough : forall f vis n cur, wf_table M U cur -> sz n + fresh U vis * S M <= f -> np (chk f vis n cur).
  Proof.
    induction f as [|f IH]; intros vis n cur Hcur Hf.
    - destruct n; cbn [sz] in Hf; lia.
    - rewrite chk_unfold. destruct (skippable n); [exact I|].
      destruct n as [o u|o u items|o u props|o u names]; try exact I.
      + (* object: every property is smaller *)
        cbn [sz] in Hf.
        assert (Hps : forall p, In p props -> sz p + fresh U vis * S M <= f).
        { intros p Hp. assert (sz p <= fold_right (fun c a => sz c + a) 0 props).
          { clear -Hp. induction props as [|q r IHp]; [inversion Hp|]. cbn [fold_right]. destruct Hp as [->|Hp]; [lia|specialize (IHp Hp); lia]. }
          lia. }
        clear Hf. induction props as [|p r IHp]; [exact I|]. cbn [each].
        pose proof (IH vis p cur Hcur (Hps p (or_introl eq_refl))) as Hp.
        destruct (chk f vis p cur) as [[|]| |]; cbn [bind]; try exact I; [|contradiction].
        apply IHp. intros q Hq. apply Hps. right; exact Hq.
      + (* reference: every alternative either answers at once or is followed with one name less to visit *)
        cbn [sz] in Hf.
        assert (Ha : forall t, np (alt rootname roott f vis cur t)).
        { intros t. unfold alt. destruct (N.eqb t rootname); [exact I|]. destruct (memt t vis) eqn:Hv; [exact I|].
          unfold resolve. destruct (lookup t cur) as [[r own]|] eqn:E1.
          - destruct (wf_lookup M U cur t r own Hcur E1) as (Hin & Hs & Hown).
            apply IH; [exact Hown|]. pose proof (fresh_drop U vis t Hin Hv). nia.
          - destruct (lookup t roott) as [[r own]|] eqn:E2; [|exact I].
            destruct (wf_lookup M U roott t r own Hroot E2) as (Hin & Hs & Hown).
            apply IH; [exact Hown|]. pose proof (fresh_drop U vis t Hin Hv). nia. }
        assert (Hal : forall ns, np (alts rootname roott f vis cur ns)).
        { induction ns as [|t r IHn]; [exact I|]. cbn [alts]. specialize (Ha t).
          destruct (alt rootname roott f vis cur t) as [e| |]; cbn [bind]; try exact I; [|contradiction].
          destruct (alts rootname roott f vis cur r) as [k| |]; cbn [bind]; try exact I. exact IHn. }
        specialize (Hal names). destruct (alts rootname roott f vis cur names) as [k| |]; cbn [bind]; try exact I. exact Hal.
  Qed.

  (* more fuel never changes a verdict *)
  Lemma chk_mono : forall f vis n cur b, chk f vis n cur = Ok b -> forall f', f <= f' -> chk f' vis n cur = Ok b.
  Proof.
    induction f as [|f IH]; intros vis n cur b H f' Hle; [discriminate|].
    destruct f' as [|f']; [lia|]. assert (Hle' : f <= f') by lia. rewrite chk_unfold in *.
    destruct (skippable n); [exact H|]. destruct n as [o u|o u items|o u props|o u names]; try exact H.
    - revert H. induction props as [|p r IHp]; [auto|]. cbn [each].
      destruct (chk f vis p cur) as [e| |] eqn:E; cbn [bind]; try discriminate.
      rewrite (IH _ _ _ _ E f' Hle'). cbn [bind]. destruct e; auto.
    - assert (Ha : forall t e, alt rootname roott f vis cur t = Ok e -> alt rootname roott f' vis cur t = Ok e).
      { intros t e. unfold alt. destruct (N.eqb t rootname); [auto|]. destruct (memt t vis); [auto|].
        destruct (resolve roott cur t) as [[r own]|]; [|auto]. intros E. exact (IH _ _ _ _ E f' Hle'). }
      assert (Hal : forall ns k, alts rootname roott f vis cur ns = Ok k -> alts rootname roott f' vis cur ns = Ok k).
      { induction ns as [|t r IHn]; [auto|]. cbn [alts]. intros k.
        destruct (alt rootname roott f vis cur t) as [e| |] eqn:E; cbn [bind]; try discriminate.
        rewrite (Ha t e E). cbn [bind].
        destruct (alts rootname roott f vis cur r) as [k'| |] eqn:E2; cbn [bind]; try discriminate.
        rewrite (IHn k' eq_refl). cbn [bind]. auto. }
      destruct (alts rootname roott f vis cur names) as [k| |] eqn:E; cbn [bind] in H; try discriminate.
      rewrite (Hal names k E). exact H.
  Qed.
End Term.

(* ---------- the statements about rec_check ---------- *)
Lemma fresh_nil U : fresh U [] = length (nodup N.eq_dec U).
Proof.
  unfold fresh. assert (H : forall l, filter (fun u : tname => negb (memt u [])) l = l) by (induction l as [|x l IHl]; [reflexivity|]; cbn [filter memt negb]; f_equal; exact IHl).
  rewrite H. reflexivity.
Qed.

(* the checker never runs out of fuel once it has check_fuel of it: no error code, no panic, a verdict *)
Theorem check_terminates rootname rootnode roott f : check_fuel rootnode roott <= f ->
  exists b, rec_check f rootname rootnode roott = Ok b.
Proof.
  intros Hf. unfold rec_check.
  pose proof (chk_enough rootname roott (t_max roott) (t_names roott) (wf_computed roott) f [] rootnode roott (wf_computed roott)) as H.
  rewrite fresh_nil in H. specialize (H Hf).
  assert (Hne : forall f vis n cur c, chk rootname roott f vis n cur <> Err c).
  { clear. induction f as [|f IH]; intros vis n cur c; [discriminate|]. rewrite chk_unfold.
    destruct (skippable n); [discriminate|]. destruct n as [o u|o u items|o u props|o u names]; try discriminate.
    - induction props as [|p r IHp]; [discriminate|]. cbn [each]. specialize (IH vis p cur).
      destruct (chk rootname roott f vis p cur) as [[|]|c'|]; cbn [bind]; try discriminate; [exact IHp|]. intros X. inversion X; subst. exact (IH c eq_refl).
    - assert (Ha : forall t c, alt rootname roott f vis cur t <> Err c).
      { intros t c0. unfold alt. destruct (N.eqb t rootname); [discriminate|]. destruct (memt t vis); [discriminate|].
        destruct (resolve roott cur t) as [[r own]|]; [apply IH|discriminate]. }
      assert (Hal : forall ns c, alts rootname roott f vis cur ns <> Err c).
      { induction ns as [|t r IHn]; [discriminate|]. cbn [alts]. intros c0. specialize (Ha t).
        destruct (alt rootname roott f vis cur t) as [e|c'|]; cbn [bind]; try discriminate.
        - destruct (alts rootname roott f vis cur r) as [k|c'|]; cbn [bind]; try discriminate. intros X; inversion X; subst. exact (IHn c0 eq_refl).
        - intros X; inversion X; subst. exact (Ha c0 eq_refl). }
      destruct (alts rootname roott f vis cur names) as [k|c'|] eqn:E; cbn [bind]; try discriminate.
      intros X; inversion X; subst. exact (Hal names c E). }
  destruct (chk rootname roott f [] rootnode roott) as [b|c|] eqn:E; [exists b; reflexivity|exfalso; exact (Hne _ _ _ _ _ E)|contradiction].
Qed.

(* ... and the verdict is the same for every larger amount of fuel: the checker model decides its question *)
Theorem check_decides rootname rootnode roott :
  exists b, forall f, check_fuel rootnode roott <= f -> rec_check f rootname rootnode roott = Ok b.
Proof.
  destruct (check_terminates rootname rootnode roott (check_fuel rootnode roott) (le_n _)) as (b & Hb).
  exists b. intros f Hf. unfold rec_check in *. exact (chk_mono rootname roott _ _ _ _ _ Hb f Hf).
Qed.

(* with the fuel bound the two directions of C06 lose their "whenever the check returns" clause *)
Theorem self_requiring_is_reported rootname rootnode roott f : check_fuel rootnode roott <= f ->
  Req rootname roott [] roott rootnode -> rec_check f rootname rootnode roott = Ok true.
Proof.
  intros Hf Hreq. destruct (check_terminates rootname rootnode roott f Hf) as (b & Hb).
  rewrite Hb. f_equal. exact (self_requiring_reported rootname rootnode roott f b Hreq Hb).
Qed.
Theorem instantiable_is_accepted rootname rootnode roott f : check_fuel rootnode roott <= f ->
  Inst rootname rootnode roott -> rec_check f rootname rootnode roott = Ok false.
Proof.
  intros Hf Hi. destruct (check_terminates rootname rootnode roott f Hf) as ([|] & Hb); [|exact Hb].
  exfalso. exact (no_false_alarm rootname rootnode roott f Hb Hi).
Qed.
