(* Get/Put balance of the pool sites (regenerated counts): obligations of C10 only - kept apart so that a change
   that breaks them does not stop the file the C11 theorems build on. *)
From Coq Require Import String List NArith Bool Arith Lia.
From JS Require Import Model.Pools Gen.PoolSites Spec.TypeVocab Proofs.PoolProofs.
Import ListNotations.

(* every site of the repository: one Get, one Put, and the Put deferred - so each invocation gives back exactly
   the buffer it holds, exactly once, when it is done with it (the discipline above) *)
Definition balance_ok (b : string * nat * nat) : bool := Nat.eqb (snd (fst b)) 1 && Nat.eqb (snd b) 1.
Lemma sites_balanced : forall b, In b pool_balance -> balance_ok b = true.
Proof. assert (H : forallb balance_ok pool_balance = true) by (vm_compute; reflexivity). intros b Hb. rewrite forallb_forall in H. auto. Qed.
Lemma sites_same : map (fun s => fst (fst (fst s))) pool_sites = map (fun b => fst (fst b)) pool_balance.
Proof. vm_compute. reflexivity. Qed.
Lemma no_pool_calls_elsewhere : pool_calls_elsewhere = ["internal/sync/pool.go|Get|Get"; "internal/sync/pool.go|Put|Put"]%string.
Proof. vm_compute. reflexivity. Qed.
