From Coq Require Import List ZArith NArith Bool Lia.
From JS Require Import Base.Res Spec.Decimal Model.AllOf Model.Number Model.EnumParse Model.RuleSem
  Proofs.DigitArith Proofs.NumberCmp Proofs.NumberNorm Proofs.NumberScan Proofs.NumberMain.
Import ListNotations.

(* ---- numbers: the text-level comparison of the validators is the exact comparison of the denoted values ---- *)
Lemma dcmp_antisym a b : dcmp b a = CompOpp (dcmp a b).
Proof. unfold dcmp. rewrite (Z.min_comm (snd b) (snd a)). apply Z.compare_antisym. Qed.

Section Bounds.
  Variables (v b : Spec.Decimal.bytes) (nv nb : number).
  Hypothesis Hv : exp_small v.
  Hypothesis Hb : exp_small b.
  Hypothesis Sv : nscan v = Ok nv.
  Hypothesis Sb : nscan b = Ok nb.

  Lemma cmp_bv : dcmp (denote nb) (denote nv) = dcmp (value_of b) (value_of v).
  Proof.
    destruct (scan_value v nv Hv Sv) as [_ Dv]. destruct (scan_value b nb Hb Sb) as [_ Db]. apply dcmp_compat; assumption.
  Qed.
  Lemma norm_v : normal nv. Proof. exact (proj1 (scan_value v nv Hv Sv)). Qed.
  Lemma norm_b : normal nb. Proof. exact (proj1 (scan_value b nb Hb Sb)). Qed.

  (* min: value >= bound; exclusive: value > bound *)
  Theorem min_exact own : validate_rule v own (RMin b false) = true <-> dcmp (value_of v) (value_of b) <> Lt.
  Proof.
    cbn [validate_rule]. rewrite Sv, Sb, negb_true_iff. rewrite <- not_true_iff_false, (n_gt_exact nb nv norm_b norm_v), cmp_bv.
    rewrite (dcmp_antisym (value_of v) (value_of b)). destruct (dcmp (value_of v) (value_of b)); cbn; split; congruence.
  Qed.
  Theorem min_exclusive_exact own : validate_rule v own (RMin b true) = true <-> dcmp (value_of v) (value_of b) = Gt.
  Proof.
    cbn [validate_rule]. rewrite Sv, Sb, negb_true_iff. rewrite <- not_true_iff_false, (n_gte_exact nb nv norm_b norm_v), cmp_bv.
    rewrite (dcmp_antisym (value_of v) (value_of b)). destruct (dcmp (value_of v) (value_of b)); cbn; split; try congruence; intros H; exfalso; apply H; congruence.
  Qed.
  (* max: value <= bound; exclusive: value < bound *)
  Theorem max_exact own : validate_rule v own (RMax b false) = true <-> dcmp (value_of v) (value_of b) <> Gt.
  Proof.
    cbn [validate_rule]. rewrite Sv, Sb, negb_true_iff. rewrite <- not_true_iff_false, (n_lt_exact nb nv norm_b norm_v), cmp_bv.
    rewrite (dcmp_antisym (value_of v) (value_of b)). destruct (dcmp (value_of v) (value_of b)); cbn; split; congruence.
  Qed.
  Theorem max_exclusive_exact own : validate_rule v own (RMax b true) = true <-> dcmp (value_of v) (value_of b) = Lt.
  Proof.
    cbn [validate_rule]. rewrite Sv, Sb, negb_true_iff. rewrite <- not_true_iff_false, (n_lte_exact nb nv norm_b norm_v), cmp_bv.
    rewrite (dcmp_antisym (value_of v) (value_of b)). destruct (dcmp (value_of v) (value_of b)); cbn; split; try congruence; intros H; exfalso; apply H; congruence.
  Qed.
  (* precision p: at most p significant fraction digits (frac_len: C13_fraclen) *)
  Theorem precision_exact own p : validate_rule v own (RPrecision p) = true <-> (frac_len nv <= p)%Z.
  Proof. cbn [validate_rule]. rewrite Sv. apply Z.leb_le. Qed.
End Bounds.

(* ---- the other rules ---- *)
Theorem enum_exact v own items : validate_rule v own (REnum items) = true <-> exists i, In i items /\ key_eqb (key_of v) (key_of i) = true.
Proof.
  cbn [validate_rule]. rewrite existsb_exists. split.
  - intros (k & Hk & He). apply in_map_iff in Hk. destruct Hk as (i & <- & Hi). eauto.
  - intros (i & Hi & He). exists (key_of i). split; [apply in_map; exact Hi|exact He].
Qed.
Theorem length_exact v own n : lit_kind v = KStr ->
  (validate_rule v own (RMinLength n) = true <-> (n <= str_chars v)%Z) /\
  (validate_rule v own (RMaxLength n) = true <-> (str_chars v <= n)%Z).
Proof. intros Hk. cbn [validate_rule]. unfold is_kind_str. rewrite Hk. cbn [andb]. split; apply Z.leb_le. Qed.
Theorem const_exact v o : validate_rule v (Some o) RConst = true <-> key_eqb (key_of v) (key_of o) = true.
Proof. reflexivity. Qed.

(* ---- a leaf: type, nullable, conjunction of the rules ---- *)
Theorem validate_null k rules own : existsb is_nullable rules = true -> validate (Leaf k rules) own w_null_lit = true.
Proof. intros H. cbn [validate]. rewrite H. cbn. rewrite orb_true_r. reflexivity. Qed.
Theorem validate_conj k rules own v : beq_bytes v w_null_lit = false ->
  (validate (Leaf k rules) own v = true <->
   (existsb is_enum rules = true \/ lit_kind v = k) /\ forall r, In r rules -> validate_rule v own r = true).
Proof.
  intros Hn. cbn [validate]. rewrite Hn, !andb_false_r, !andb_false_l, !orb_false_r. cbn [orb]. rewrite andb_true_iff, orb_true_iff, forallb_forall.
  assert (Hk : jkind_eqb (lit_kind v) k = true <-> lit_kind v = k) by (destruct (lit_kind v), k; cbn; split; congruence). rewrite Hk. tauto.
Qed.

(* ---- references and `or`: some alternative accepts the value ---- *)
Theorem refs_any fuel d alts v : check_value fuel d (VRefs alts) v = true <->
  (exists lo, In lo (fst (leaves fuel d alts (Some v) [])) /\ kind_allowed v lo = true) /\
  (exists lo, In lo (fst (leaves fuel d alts (Some v) [])) /\ validate (fst lo) (snd lo) v = true).
Proof. cbn [check_value]. rewrite andb_true_iff, !existsb_exists. tauto. Qed.

(* the alternatives are rule-sets of the node and named types, followed through types that refer on; a named type
   brings its own example along (what `const` compares with) *)
Inductive AltLeaf (d : vtypes) : list valt -> option Spec.JsonGrammar.bytes -> leaf * option Spec.JsonGrammar.bytes -> Prop :=
| al_set alts own l : In (VSet l) alts -> AltLeaf d alts own (l, own)
| al_type alts own t ex l : In (VName t) alts -> vlookup t d = Some (ex, VLeaf l) -> AltLeaf d alts own (l, Some ex)
| al_via alts own t ex inner lo : In (VName t) alts -> vlookup t d = Some (ex, VRefs inner) -> AltLeaf d inner (Some ex) lo -> AltLeaf d alts own lo.
Theorem leaves_sound d : forall fuel alts own seen lo, In lo (fst (leaves fuel d alts own seen)) -> AltLeaf d alts own lo.
Proof.
  induction fuel as [|f IH]; intros alts own seen lo H; [destruct H|]. cbn [leaves] in H. destruct alts as [|a r]; [destruct H|].
  assert (Hr : forall s, In lo (fst (leaves f d r own s)) -> AltLeaf d (a :: r) own lo).
  { intros s Hs. apply IH in Hs. inversion Hs; subst; [apply al_set; right; assumption|eapply al_type; [right; eassumption|eassumption]|eapply al_via; [right; eassumption|eassumption|assumption]]. }
  destruct a as [t|l].
  - destruct (memn t seen); [exact (Hr _ H)|]. destruct (vlookup t d) as [[ex [l|inner|cnt mn mx]]|] eqn:El.
    + destruct (leaves f d r own (t :: seen)) as [ls s'] eqn:E. cbn [fst] in H. destruct H as [<-|H]; [eapply al_type; [left; reflexivity|exact El]|].
      apply (Hr (t :: seen)). rewrite E. exact H.
    + destruct (leaves f d inner (Some ex) (t :: seen)) as [l1 s1] eqn:E1. destruct (leaves f d r own s1) as [l2 s2] eqn:E2. cbn [fst] in H.
      apply in_app_or in H. destruct H as [H|H].
      * eapply al_via; [left; reflexivity|exact El|]. apply (IH inner (Some ex) (t :: seen)). rewrite E1. exact H.
      * apply (Hr s1). rewrite E2. exact H.
    + exact (Hr _ H).
    + exact (Hr _ H).
  - destruct (leaves f d r own seen) as [ls s'] eqn:E. cbn [fst] in H. destruct H as [<-|H]; [apply al_set; left; reflexivity|].
    apply (Hr seen). rewrite E. exact H.
Qed.

(* ---- the project: the root's example and the example of every registered type ---- *)
Theorem project_all fuel d root : check_project fuel d root = true <->
  check_value fuel d (snd root) (fst root) = true /\
  forall t ex n, In (t, (ex, n)) d -> check_value fuel d n ex = true.
Proof.
  unfold check_project. rewrite andb_true_iff, forallb_forall. split; intros [H1 H2]; (split; [exact H1|]).
  - intros t ex n Hin. exact (H2 _ Hin).
  - intros [t [ex n]] Hin. exact (H2 t ex n Hin).
Qed.

(* arrays: minItems <= number of items <= maxItems *)
Theorem items_exact fuel d count mn mx v : check_value fuel d (VArr count mn mx) v = true <->
  (forall m, mn = Some m -> (m <= count)%Z) /\ (forall m, mx = Some m -> (count <= m)%Z).
Proof.
  cbn [check_value]. rewrite andb_true_iff. destruct mn as [a|], mx as [b|]; rewrite ?Z.leb_le; split.
  - intros [H1 H2]. split; intros m E; inversion E; subst; assumption.
  - intros [H1 H2]. split; [apply H1|apply H2]; reflexivity.
  - intros [H1 _]. split; intros m E; inversion E; subst; assumption.
  - intros [H1 _]. split; [apply H1; reflexivity|reflexivity].
  - intros [_ H2]. split; intros m E; inversion E; subst; assumption.
  - intros [_ H2]. split; [reflexivity|apply H2; reflexivity].
  - intros _. split; intros m E; discriminate.
  - intros _. split; reflexivity.
Qed.
