(* Completeness of the flattening of alternatives (Model/RuleSem.v: leaves = checker/list.go): with enough fuel the
   list contains EVERY alternative the declarative relation AltLeaf gives - the rule-sets of the node, the named
   types, and everything reached through types that refer on - although every type name is expanded once only.
   The proof does not follow paths: the result of the depth-first walk is CLOSED (every alternative of the start
   list is covered, and so is every alternative of every type the walk has expanded), and a closed set contains
   whatever is derivable.  Fuel: one unit per alternative looked at; `weight` bounds it. *)
From Coq Require Import List ZArith NArith Bool Lia.
From JS Require Import Base.Res Spec.JsonGrammar Model.AllOf Model.Number Model.EnumParse Model.RuleSem Proofs.RuleProofs.
Import ListNotations.

Section D.
  Variable d : vtypes.

  (* ---------- fuel ---------- *)
  Definition subset (s1 s2 : list tname) : Prop := forall x, memn x s1 = true -> memn x s2 = true.

  Lemma weight_mono dd s1 s2 : subset s1 s2 -> weight dd s2 <= weight dd s1.
  Proof.
    intros Hs. induction dd as [|[t [ex n]] r IH]; [cbn; lia|]. cbn [weight].
    destruct (memn t s1) eqn:E1; [rewrite (Hs t E1); lia|]. destruct (memn t s2); lia.
  Qed.
  Lemma subset_cons t s : subset s (t :: s).
  Proof. intros x H. cbn [memn]. rewrite H. apply orb_true_r. Qed.
  Lemma subset_refl s : subset s s. Proof. intros x H; exact H. Qed.
  Lemma subset_trans a b c : subset a b -> subset b c -> subset a c.
  Proof. intros H1 H2 x H. apply H2, H1, H. Qed.

  Lemma weight_enter dd t ex n seen : vlookup t dd = Some (ex, n) -> memn t seen = false ->
    weight dd (t :: seen) + S (node_size n) <= weight dd seen.
  Proof.
    induction dd as [|[t' [ex' n']] r IH]; intros Hl Hs; [discriminate|]. cbn [vlookup] in Hl. cbn [weight memn].
    destruct (N.eqb_spec t' t) as [->|Hne].
    - inversion Hl; subst ex' n'. rewrite N.eqb_refl. cbn [orb]. rewrite Hs.
      pose proof (weight_mono r seen (t :: seen) (subset_cons t seen)). lia.
    - assert (E : (t =? t')%N = false) by (apply N.eqb_neq; congruence). rewrite E. cbn [orb].
      specialize (IH Hl Hs). destruct (memn t' seen); lia.
  Qed.

  (* ---------- closure ---------- *)
  Definition explored (u : tname) (ls : list (leaf * option Spec.JsonGrammar.bytes)) (S : list tname) : Prop :=
    match vlookup u d with
    | Some (ex, VLeaf l) => In (l, Some ex) ls
    | Some (ex, VRefs inner) => (forall l, In (VSet l) inner -> In (l, Some ex) ls) /\ (forall t, In (VName t) inner -> memn t S = true)
    | _ => True
    end.
  Lemma explored_mono u ls S ls2 S2 : explored u ls S -> incl ls ls2 -> subset S S2 -> explored u ls2 S2.
  Proof.
    unfold explored. destruct (vlookup u d) as [[ex [l|inner|c mn mx]]|]; auto.
    intros [H1 H2] Hl Hs. split; [intros l Hin; apply Hl, H1, Hin|intros t Hin; apply Hs, H2, Hin].
  Qed.

  Lemma dfs_closed : forall fuel alts own seen ls seen',
    length alts + weight d seen < fuel -> leaves fuel d alts own seen = (ls, seen') ->
    subset seen seen' /\
    (forall l, In (VSet l) alts -> In (l, own) ls) /\
    (forall t, In (VName t) alts -> memn t seen' = true) /\
    (forall u, memn u seen' = true -> memn u seen = false -> explored u ls seen').
  Proof.
    induction fuel as [|f IH]; intros alts own seen ls seen' Hf H; [lia|].
    cbn [leaves] in H. destruct alts as [|a r].
    - inversion H; subst. split; [apply subset_refl|]. split; [intros l []|]. split; [intros t []|]. intros u H1 H2. congruence.
    - cbn [length] in Hf. destruct a as [t|l].
      + destruct (memn t seen) eqn:Ms.
        * (* already seen *)
          destruct (IH r own seen ls seen' ltac:(lia) H) as (S1 & S2 & S3 & S4).
          split; [exact S1|]. split; [intros l [X|X]; [discriminate|auto]|].
          split; [intros u [X|X]; [inversion X; subst; apply S1; exact Ms|auto]|exact S4].
        * destruct (vlookup t d) as [[ex [l|inner|c mn mx]]|] eqn:El.
          -- (* a type with rules of its own *)
             destruct (leaves f d r own (t :: seen)) as [ls1 s1] eqn:E1. inversion H; subst.
             pose proof (weight_enter d t ex (VLeaf l) seen El Ms) as Hw. cbn [node_size] in Hw.
             destruct (IH r own (t :: seen) ls1 seen' ltac:(lia) E1) as (S1 & S2 & S3 & S4).
             assert (Hts : memn t seen' = true) by (apply S1; cbn [memn]; rewrite N.eqb_refl; reflexivity).
             split; [apply (subset_trans _ (t :: seen)); [apply subset_cons|exact S1]|].
             split; [intros l0 [X|X]; [discriminate|right; auto]|].
             split; [intros u [X|X]; [inversion X; subst; exact Hts|auto]|].
             intros u Hu1 Hu2. destruct (N.eqb_spec t u) as [->|Hne].
             ++ unfold explored. rewrite El. left; reflexivity.
             ++ apply (explored_mono u ls1 seen'); [|intros x Hx; right; exact Hx|apply subset_refl].
                apply S4; [exact Hu1|]. cbn [memn]. rewrite Hu2. apply orb_false_iff. split; [apply N.eqb_neq; exact Hne|reflexivity].
          -- (* a type that refers on *)
             destruct (leaves f d inner (Some ex) (t :: seen)) as [l1 s1] eqn:E1.
             destruct (leaves f d r own s1) as [l2 s2] eqn:E2. inversion H; subst.
             pose proof (weight_enter d t ex (VRefs inner) seen El Ms) as Hw. cbn [node_size] in Hw.
             destruct (IH inner (Some ex) (t :: seen) l1 s1 ltac:(lia) E1) as (A1 & A2 & A3 & A4).
             assert (Hw2 : weight d s1 <= weight d (t :: seen)) by (apply weight_mono; exact A1).
             destruct (IH r own s1 l2 seen' ltac:(lia) E2) as (B1 & B2 & B3 & B4).
             assert (Hts1 : memn t s1 = true) by (apply A1; cbn [memn]; rewrite N.eqb_refl; reflexivity).
             split; [apply (subset_trans _ (t :: seen)); [apply subset_cons|apply (subset_trans _ s1); assumption]|].
             split; [intros l0 [X|X]; [discriminate|apply in_or_app; right; auto]|].
             split; [intros u [X|X]; [inversion X; subst; apply B1; exact Hts1|auto]|].
             intros u Hu1 Hu2. destruct (N.eqb_spec t u) as [->|Hne].
             ++ unfold explored. rewrite El. split; [intros l0 Hl0; apply in_or_app; left; apply A2; exact Hl0|intros t0 Ht0; apply B1, A3, Ht0].
             ++ destruct (memn u s1) eqn:Mu1.
                ** apply (explored_mono u l1 s1); [|intros x Hx; apply in_or_app; left; exact Hx|exact B1].
                   apply A4; [exact Mu1|]. cbn [memn]. rewrite Hu2. apply orb_false_iff. split; [apply N.eqb_neq; exact Hne|reflexivity].
                ** apply (explored_mono u l2 seen'); [|intros x Hx; apply in_or_app; right; exact Hx|apply subset_refl].
                   apply B4; assumption.
          -- (* an array type: no rules for a literal *)
             pose proof (weight_enter d t ex (VArr c mn mx) seen El Ms) as Hw. cbn [node_size] in Hw.
             destruct (IH r own (t :: seen) ls seen' ltac:(lia) H) as (S1 & S2 & S3 & S4).
             assert (Hts : memn t seen' = true) by (apply S1; cbn [memn]; rewrite N.eqb_refl; reflexivity).
             split; [apply (subset_trans _ (t :: seen)); [apply subset_cons|exact S1]|].
             split; [intros l0 [X|X]; [discriminate|auto]|].
             split; [intros u [X|X]; [inversion X; subst; exact Hts|auto]|].
             intros u Hu1 Hu2. destruct (N.eqb_spec t u) as [->|Hne].
             ++ unfold explored. rewrite El. exact I.
             ++ apply S4; [exact Hu1|]. cbn [memn]. rewrite Hu2. apply orb_false_iff. split; [apply N.eqb_neq; exact Hne|reflexivity].
          -- (* a name that is not registered *)
             assert (Hw : weight d (t :: seen) <= weight d seen) by (apply weight_mono, subset_cons).
             destruct (IH r own (t :: seen) ls seen' ltac:(lia) H) as (S1 & S2 & S3 & S4).
             assert (Hts : memn t seen' = true) by (apply S1; cbn [memn]; rewrite N.eqb_refl; reflexivity).
             split; [apply (subset_trans _ (t :: seen)); [apply subset_cons|exact S1]|].
             split; [intros l0 [X|X]; [discriminate|auto]|].
             split; [intros u [X|X]; [inversion X; subst; exact Hts|auto]|].
             intros u Hu1 Hu2. destruct (N.eqb_spec t u) as [->|Hne].
             ++ unfold explored. rewrite El. exact I.
             ++ apply S4; [exact Hu1|]. cbn [memn]. rewrite Hu2. apply orb_false_iff. split; [apply N.eqb_neq; exact Hne|reflexivity].
      + (* a rule-set *)
        destruct (leaves f d r own seen) as [ls1 s1] eqn:E1. inversion H; subst.
        destruct (IH r own seen ls1 seen' ltac:(lia) E1) as (S1 & S2 & S3 & S4).
        split; [exact S1|]. split; [intros l0 [X|X]; [inversion X; subst; left; reflexivity|right; auto]|].
        split; [intros u [X|X]; [discriminate|auto]|].
        intros u Hu1 Hu2. apply (explored_mono u ls1 seen'); [apply S4; assumption|intros x Hx; right; exact Hx|apply subset_refl].
  Qed.

  (* ---------- a closed set contains whatever is derivable ---------- *)
  Lemma closed_contains ls S :
    (forall u, memn u S = true -> explored u ls S) ->
    forall alts own lo, AltLeaf d alts own lo ->
      (forall l, In (VSet l) alts -> In (l, own) ls) -> (forall t, In (VName t) alts -> memn t S = true) -> In lo ls.
  Proof.
    intros Hex alts own lo H. induction H as [alts own l Hin|alts own t ex l Hin Hl|alts own t ex inner lo Hin Hl Hd IH]; intros Hsets Hnames.
    - exact (Hsets l Hin).
    - pose proof (Hex t (Hnames t Hin)) as E. unfold explored in E. rewrite Hl in E. exact E.
    - pose proof (Hex t (Hnames t Hin)) as E. unfold explored in E. rewrite Hl in E. destruct E as [E1 E2]. exact (IH E1 E2).
  Qed.

  (* C01: the flattened list is exactly the set of alternatives (every alternative once the fuel covers the walk) *)
  Theorem leaves_complete fuel alts own lo : length alts + weight d [] < fuel ->
    AltLeaf d alts own lo -> In lo (fst (leaves fuel d alts own [])).
  Proof.
    intros Hf H. destruct (leaves fuel d alts own []) as [ls seen'] eqn:E. cbn [fst].
    destruct (dfs_closed fuel alts own [] ls seen' Hf E) as (_ & S2 & S3 & S4).
    apply (closed_contains ls seen' ltac:(intros u Hu; apply S4; [exact Hu|reflexivity]) alts own lo H S2 S3).
  Qed.
  Theorem leaves_exact fuel alts own lo : length alts + weight d [] < fuel ->
    (In lo (fst (leaves fuel d alts own [])) <-> AltLeaf d alts own lo).
  Proof. intros Hf. split; [apply leaves_sound|apply leaves_complete; exact Hf]. Qed.
End D.

(* the fuel the model runs with covers the walk from the root and from every registered type *)
Lemma node_size_le_weight d : forall t ex n, In (t, (ex, n)) d -> node_size n <= weight d [].
Proof.
  induction d as [|[t' [ex' n']] r IH]; intros t ex n H; [inversion H|]. cbn [weight memn]. destruct H as [E|H].
  - inversion E; subst. lia.
  - specialize (IH t ex n H). lia.
Qed.
Theorem proj_fuel_enough d root : (forall alts, snd root = VRefs alts -> length alts + weight d [] < proj_fuel d root) /\
  (forall t ex alts, In (t, (ex, VRefs alts)) d -> length alts + weight d [] < proj_fuel d root).
Proof.
  unfold proj_fuel. split.
  - intros alts E. rewrite E. cbn [node_size]. lia.
  - intros t ex alts H. pose proof (node_size_le_weight d t ex (VRefs alts) H) as Hn. cbn [node_size] in Hn. lia.
Qed.
