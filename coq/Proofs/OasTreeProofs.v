(* C08 for whole schemas without references: the example of an accepted schema - and every value the schema's own
   rules accept - is a valid instance of the Schema Object the converter builds. *)
From Coq Require Import List ZArith NArith Bool Lia.
From JS Require Import Base.Res Spec.Decimal Model.AllOf Model.Number Model.EnumParse Model.RuleSem Model.OasSem Model.OasLeaf Model.OasTree
  Proofs.NumberMain Proofs.RuleProofs Proofs.OasProofs Proofs.OasLeafProofs.
Import ListNotations.
Local Open Scope Z_scope.

(* a strong induction principle for the nested schema type *)
Section SnodeInd.
  Variable P : snode -> Prop.
  Hypothesis Hleaf : forall ex l, P (SLeaf ex l).
  Hypothesis Hor : forall ex alts nu, P (SOr ex alts nu).
  Hypothesis Harr : forall items mn mx nu, Forall P items -> P (SArr items mn mx nu).
  Hypothesis Hobj : forall ms ap nu, Forall (fun m => P (snd (snd m))) ms -> P (SObj ms ap nu).
  Hypothesis Hobjk : forall ms ks ap nu, Forall (fun m => P (snd (snd m))) ms -> Forall (fun m => P (snd (snd m))) ks -> P (SObjK ms ks ap nu).
  Hypothesis Href : forall name nu, P (SRef name nu).
  Hypothesis Hchoice : forall names nu, P (SChoice names nu).
  Hypothesis Hreflit : forall ex name nu, P (SRefLit ex name nu).
  Fixpoint snode_ind' (n : snode) : P n :=
    match n with
    | SLeaf ex l => Hleaf ex l
    | SOr ex alts nu => Hor ex alts nu
    | SArr items mn mx nu =>
      Harr items mn mx nu ((fix go (l : list snode) : Forall P l :=
                              match l with [] => Forall_nil P | x :: r => Forall_cons x (snode_ind' x) (go r) end) items)
    | SObj ms ap nu =>
      Hobj ms ap nu ((fix go (l : list (bytes * (bool * snode))) : Forall (fun m => P (snd (snd m))) l :=
                        match l with
                        | [] => Forall_nil _
                        | x :: r => Forall_cons x (snode_ind' (snd (snd x))) (go r)
                        end) ms)
    | SObjK ms ks ap nu =>
      let go := (fix go (l : list (bytes * (bool * snode))) : Forall (fun m => P (snd (snd m))) l :=
                   match l with
                   | [] => Forall_nil _
                   | x :: r => Forall_cons x (snode_ind' (snd (snd x))) (go r)
                   end) in
      Hobjk ms ks ap nu (go ms) (go ks)
    | SRef name nu => Href name nu
    | SChoice names nu => Hchoice names nu
    | SRefLit ex name nu => Hreflit ex name nu
    end.
End SnodeInd.

(* what a value must look like to be judged by the leaf theorem *)
Definition lit_ok (v : bytes) : Prop := exp_small v /\ (lit_kind v = KNull -> v = w_null_lit).
Definition leaf_rules_ok (l : leaf) : Prop := match l with LAny => True | Leaf _ rules => bounds_readable rules end.

(* the loader admits an enum rule only in an alternative of type "enum" *)
Definition alt_wf (l : leaf) : Prop := match l with Leaf KNull rules => existsb is_enum rules = false | _ => True end.

(* what Check() has established for the schema: every example satisfies the rules next to it, item counts are within
   minItems/maxItems, keys are distinct; refok: the type names that may be referred to (none in this file, the registered
   ones in Proofs/OasRefProofs.v) *)
Section Accepted.
Variable refok : bytes -> Prop.
(* refacc r v: the type named r accepts the value v (nothing without registered types) *)
Variable refacc : bytes -> jval -> Prop.
Fixpoint accepted_g (n : snode) : Prop :=
  match n with
  | SLeaf ex l => validate l (Some ex) ex = true /\ lit_ok ex /\ leaf_rules_ok l
  | SOr ex alts nu =>
    lit_ok ex /\ (forall l, In (OALeaf l) alts -> leaf_rules_ok l /\ alt_wf l) /\
    (forall r rn, In (OARef r rn) alts -> refok r) /\
    ((nu = true /\ ex = w_null_lit) \/ (exists l, In (OALeaf l) alts /\ validate l (Some ex) ex = true) \/
     (exists r rn, In (OARef r rn) alts /\ refacc r (JLit ex)))
  | SArr items mn mx _ =>
    (forall m, mn = Some m -> m <= Z.of_nat (length items)) /\ (forall m, mx = Some m -> Z.of_nat (length items) <= m) /\
    (fix all (l : list snode) : Prop := match l with [] => True | x :: r => accepted_g x /\ all r end) items
  | SObj ms ap _ =>
    (NoDup (map fst ms) /\ match ap with APRef r => refok r | _ => True end) /\
    (fix all (l : list (bytes * (bool * snode))) : Prop := match l with [] => True | x :: r => accepted_g (snd (snd x)) /\ all r end) ms
  | SObjK ms ks ap _ =>
    (ks <> [] /\ forall k, In k ks -> refok (fst k)) /\
    (NoDup (map fst ms) /\ match ap with APRef r => refok r | _ => True end) /\
    (fix all (l : list (bytes * (bool * snode))) : Prop := match l with [] => True | x :: r => accepted_g (snd (snd x)) /\ all r end) ms /\
    (fix all (l : list (bytes * (bool * snode))) : Prop := match l with [] => True | x :: r => accepted_g (snd (snd x)) /\ all r end) ks
  | SRef r _ => refok r
  | SChoice names _ => names <> [] /\ forall r, In r names -> refok r
  | SRefLit ex r nu => refok r /\ lit_ok ex /\ ((nu = true /\ ex = w_null_lit) \/ refacc r (JLit ex))
  end.
Lemma accepted_items items : (fix all (l : list snode) : Prop := match l with [] => True | x :: r => accepted_g x /\ all r end) items ->
  forall x, In x items -> accepted_g x.
Proof. induction items as [|y r IH]; intros H x Hx; [inversion Hx|]. destruct H as [H1 H2]. destruct Hx as [->|Hx]; auto. Qed.
Lemma accepted_members ms :
  (fix all (l : list (bytes * (bool * snode))) : Prop := match l with [] => True | x :: r => accepted_g (snd (snd x)) /\ all r end) ms ->
  forall m, In m ms -> accepted_g (snd (snd m)).
Proof. induction ms as [|y r IH]; intros H x Hx; [inversion Hx|]. destruct H as [H1 H2]. destruct Hx as [->|Hx]; auto. Qed.
End Accepted.
(* without registered types no reference is acceptable *)
Definition accepted := accepted_g (fun _ => False) (fun _ _ => False).

(* the values the schema's own rules accept (the documented meaning of a JSight schema without references):
   a literal node accepts what its rules accept; an array any sequence, within the item counts, of values accepted by
   one of its item schemas; an object the values of its listed keys, all mandatory ones present, others as
   additionalProperties says; null where nullable *)
Inductive inst : snode -> jval -> Prop :=
| in_leaf ex l v : validate l (Some ex) v = true -> lit_ok v -> inst (SLeaf ex l) (JLit v)
| in_or_null ex alts : inst (SOr ex alts true) (JLit w_null_lit)
| in_or ex alts nu l v : In (OALeaf l) alts -> validate l (Some ex) v = true -> lit_ok v -> inst (SOr ex alts nu) (JLit v)
| in_arr_null items mn mx : inst (SArr items mn mx true) (JLit w_null_lit)
| in_obj_null ms ap : inst (SObj ms ap true) (JLit w_null_lit)
| in_arr items mn mx nu vs :
    (forall m, mn = Some m -> m <= Z.of_nat (length vs)) -> (forall m, mx = Some m -> Z.of_nat (length vs) <= m) ->
    (items = [] -> vs = []) ->
    (forall v, In v vs -> exists it, In it items /\ inst it v) -> inst (SArr items mn mx nu) (JArr vs)
| in_obj ms ap nu vs :
    (forall k o n, In (k, (o, n)) ms -> o = false -> exists v, In (k, v) vs) ->
    (forall k v, In (k, v) vs -> (exists o n, plookup k ms = Some (o, n) /\ inst n v) \/ (plookup k ms = None /\ ap_ok ap v)) ->
    inst (SObj ms ap nu) (JObj vs).

Lemma plookup_map {A B} (f : A -> B) k (l : list (bytes * A)) :
  plookup k (map (fun m => (fst m, f (snd m))) l) = option_map f (plookup k l).
Proof. induction l as [|[k' x] r IH]; [reflexivity|]. cbn [map plookup fst snd]. destruct (list_eqb k' k); [reflexivity|exact IH]. Qed.
Lemma list_eqb_refl a : list_eqb a a = true.
Proof. induction a as [|x a IH]; [reflexivity|]. cbn [list_eqb]. rewrite N.eqb_refl. exact IH. Qed.
Lemma plookup_nodup {A} k (x : A) l : NoDup (map fst l) -> In (k, x) l -> plookup k l = Some x.
Proof.
  induction l as [|[k' y] r IH]; intros Hnd Hin; [inversion Hin|]. cbn [map fst] in Hnd. inversion Hnd as [|? ? Hn Hr]; subst.
  cbn [plookup]. destruct Hin as [E|Hin].
  - inversion E; subst. rewrite list_eqb_refl. reflexivity.
  - destruct (list_eqb k' k) eqn:E; [|exact (IH Hr Hin)]. apply list_eqb_eq in E. subst k'. exfalso. apply Hn.
    apply in_map_iff. exists (k, x). auto.
Qed.

(* the translation is sound for every value the schema accepts *)
Theorem tree_sound : forall n, accepted n -> forall v, inst n v -> tvalid (to_otree n) v.
Proof.
  induction n as [ex l|ex alts nu|items mn mx nu IH|ms ap nu IH|ms ks ap nu IH IHk|name nu|names nu|ex name nu] using snode_ind'; intros Hacc v Hi;
    [| | | |inversion Hi|destruct Hacc|destruct Hacc as [Hne Hall]; destruct names as [|r0 rs]; [congruence|destruct (Hall r0 (or_introl eq_refl))]|destruct Hacc as [[] _]].
  - inversion Hi as [? ? v0 Hv [Hs Hn]| | | | | |]; subst. cbn [to_otree]. constructor.
    destruct Hacc as (Hex & [Hes Hen] & Hr). destruct l as [k rules|].
    + exact (oasx_sound ex k rules v0 Hs Hr Hn Hen Hex Hv).
    + right. cbn. repeat split; try exact I; intros; discriminate.
  - cbn [to_otree]. destruct Hacc as (_ & Halts & _).
    assert (Hnullnode : forall v0, tvalid (OLeaf (mk_oasx None None None None None None None nu)) (JLit v0))
      by (intros v0; constructor; right; cbn; repeat split; try exact I; intros; discriminate).
    inversion Hi as [|? ?|? ? ? l v0 Hin Hv [Hs Hn]| | | |]; subst.
    { destruct (lit_kind ex); try apply tv_any_null; apply Hnullnode. }
    destruct (lit_kind ex) eqn:Kex; try apply Hnullnode.
    all: apply (tv_any _ _ (OLeaf (to_oasx_alt ex l))).
    all: try (apply in_map_iff; exists (OALeaf l); split; [reflexivity|exact Hin]).
    all: (constructor; destruct (Halts l Hin) as [Hr Hwf]; destruct l as [k rules|];
          [apply (oasx_alt_sound ex k rules v0 Hs Hr Hn Hv); intros ->; exact Hwf
          |right; cbn; repeat split; try exact I; intros; discriminate]).
  - cbn [to_otree]. inversion Hi as [| | |? ? ?| |? ? ? ? vs Hmn Hmx Hempty Hall|]; subst; [constructor|].
    destruct Hacc as (_ & _ & Hitems).
    apply tv_arr.
    + intros m Hm. apply int64_opt_some in Hm. exact (Hmn m Hm).
    + intros m Hm. destruct items as [|i0 ir]; [inversion Hm; subst; rewrite (Hempty eq_refl); cbn; lia|]. apply int64_opt_some in Hm. exact (Hmx m Hm).
    + intros x Hx. right. destruct (Hall x Hx) as (it & Hit & Hinst). exists (to_otree it). split; [apply in_map; exact Hit|].
      rewrite Forall_forall in IH. exact (IH it Hit (accepted_items _ _ items Hitems it Hit) x Hinst).
  - cbn [to_otree]. inversion Hi as [| | | |? ?| |? ? ? vs Hreq Hall]; subst; [constructor|].
    destruct Hacc as ((Hnd & _) & Hms).
    apply tv_obj.
    + intros k Hk. apply in_map_iff in Hk. destruct Hk as ([k' [o n]] & Hk' & Hf). cbn [fst] in Hk'. subst k'.
      apply filter_In in Hf. destruct Hf as [Hin Ho]. cbn [fst snd] in Ho. apply negb_true_iff in Ho. exact (Hreq k o n Hin Ho).
    + intros k x Hx. destruct (Hall k x Hx) as [(o & n & Hl & Hinst)|[Hl Hap]].
      * left. exists (to_otree n). split.
        -- change (fun m : bytes * (bool * snode) => (fst m, to_otree (snd (snd m)))) with (fun m : bytes * (bool * snode) => (fst m, (fun y => to_otree (snd y)) (snd m))).
           rewrite (plookup_map (fun y : bool * snode => to_otree (snd y))). rewrite Hl. reflexivity.
        -- rewrite Forall_forall in IH.
           assert (Hin : In (k, (o, n)) ms).
           { clear -Hl. induction ms as [|[k' y] r IHm]; [discriminate|]. cbn [plookup] in Hl. destruct (list_eqb k' k) eqn:E.
             - apply list_eqb_eq in E. subst k'. inversion Hl; subst. left; reflexivity.
             - right. exact (IHm Hl). }
           exact (IH (k, (o, n)) Hin (accepted_members _ _ ms Hms _ Hin) x Hinst).
      * right. split; [|exact Hap].
        change (fun m : bytes * (bool * snode) => (fst m, to_otree (snd (snd m)))) with (fun m : bytes * (bool * snode) => (fst m, (fun y => to_otree (snd y)) (snd m))).
        rewrite (plookup_map (fun y : bool * snode => to_otree (snd y))). rewrite Hl. reflexivity.
Qed.

(* the schema's own example is one of the values it accepts ... *)
Theorem example_inst : forall n, accepted n -> inst n (example n).
Proof.
  induction n as [ex l|ex alts nu|items mn mx nu IH|ms ap nu IH|ms ks ap nu IH IHk|name nu|names nu|ex name nu] using snode_ind'; intros Hacc; cbn [example];
    [| | | |destruct Hacc as [[Hne Hall] _]; destruct ks as [|k0 kr]; [congruence|destruct (Hall k0 (or_introl eq_refl))]
     |destruct Hacc|destruct Hacc as [Hne Hall]; destruct names as [|r0 rs]; [congruence|destruct (Hall r0 (or_introl eq_refl))]|destruct Hacc as [[] _]].
  - destruct Hacc as (Hex & Hlit & _). constructor; assumption.
  - destruct Hacc as (Hlit & _ & _ & [[-> ->]|[(l & Hin & Hv)|(r & rn & _ & [])]]); [apply in_or_null|exact (in_or ex alts nu l ex Hin Hv Hlit)].
  - destruct Hacc as (Hmn & Hmx & Hitems). apply in_arr.
    + intros m Hm. rewrite map_length. exact (Hmn m Hm).
    + intros m Hm. rewrite map_length. exact (Hmx m Hm).
    + intros ->. reflexivity.
    + intros v Hv. apply in_map_iff in Hv. destruct Hv as (it & <- & Hit). exists it. split; [exact Hit|].
      rewrite Forall_forall in IH. exact (IH it Hit (accepted_items _ _ items Hitems it Hit)).
  - destruct Hacc as ((Hnd & _) & Hms). apply in_obj.
    + intros k o n Hin _. exists (example n). apply in_map_iff. exists (k, (o, n)). split; [reflexivity|exact Hin].
    + intros k v Hv. apply in_map_iff in Hv. destruct Hv as ([k' [o n]] & E & Hin). cbn [fst snd] in E. inversion E; subst k' v.
      left. exists o, n. split; [exact (plookup_nodup k (o, n) ms Hnd Hin)|].
      rewrite Forall_forall in IH. exact (IH (k, (o, n)) Hin (accepted_members _ _ ms Hms _ Hin)).
Qed.
(* ... hence valid against the generated Schema Object: C08 for schemas without references *)
Theorem example_valid n : accepted n -> tvalid (to_otree n) (example n).
Proof. intros H. exact (tree_sound n H (example n) (example_inst n H)). Qed.
