From Coq Require Import List Arith NArith Bool Lia Wf_nat.
From JS Require Import Base.Res Model.Recursion Spec.RefGraph.
Import ListNotations.

Section P.
  Variable rootname : tname.
  Variable rootnode : node.
  Variable roott : table.
  Notation chk := (chk rootname roott).
  Notation InstN := (InstN rootname rootnode roott).
  Notation InstTN := (InstTN rootname rootnode roott).

  (* the two inner loops of chk, named *)
  Fixpoint each (f : nat) (vis : list tname) (cur : table) (ps : list node) : res bool :=
    match ps with
    | [] => Ok false
    | p :: r => do e <- chk f vis p cur; if e then Ok true else each f vis cur r
    end.
  Definition alt (f : nat) (vis : list tname) (cur : table) (t : tname) : res bool :=
    if N.eqb t rootname then Ok true
    else if memt t vis then Ok false
    else match resolve roott cur t with
         | None => Ok false
         | Some (Entry r own) => chk f (t :: vis) r own
         end.
  Fixpoint alts (f : nat) (vis : list tname) (cur : table) (ts : list tname) : res nat :=
    match ts with
    | [] => Ok 0
    | t :: r => do e <- alt f vis cur t; do k <- alts f vis cur r; Ok (if e then S k else k)
    end.

  Lemma chk_unfold f vis n cur :
    chk (S f) vis n cur =
    if skippable n then Ok false else
    match n with
    | NLit _ _ | NArr _ _ _ => Ok false
    | NObj _ _ props => each f vis cur props
    | NRef _ _ names => do errs <- alts f vis cur names; Ok (negb (Nat.eqb (length names) 0) && Nat.eqb errs (length names))
    end.
  Proof.
    cbn [Recursion.chk]. destruct (skippable n); [reflexivity|]. destruct n as [o u|o u items|o u props|o u names]; try reflexivity.
    - induction props as [|p r IH]; [reflexivity|]. cbn [each]. destruct (Recursion.chk rootname roott f vis p cur) as [[|]| |]; cbn [bind]; auto.
    - f_equal. induction names as [|t r IH]; [reflexivity|]. cbn [alts]. unfold alt, resolve. rewrite <- IH. reflexivity.
  Qed.

  Lemma each_true f vis cur ps : each f vis cur ps = Ok true -> exists p, In p ps /\ chk f vis p cur = Ok true.
  Proof.
    induction ps as [|p r IH]; cbn [each]; [discriminate|]. destruct (chk f vis p cur) as [[|]| |] eqn:E; cbn [bind]; try discriminate.
    - intros _. exists p. split; [left; reflexivity|assumption].
    - intros H. destruct (IH H) as (q & Hq & Hc). exists q. split; [right; assumption|assumption].
  Qed.
  Lemma alts_bound f vis cur ts k : alts f vis cur ts = Ok k -> k <= length ts.
  Proof.
    revert k. induction ts as [|t r IH]; cbn [alts]; intros k H; [inversion H; cbn; lia|].
    destruct (alt f vis cur t) as [e| |]; cbn [bind] in H; try discriminate.
    destruct (alts f vis cur r) as [k'| |]; cbn [bind] in H; try discriminate. inversion H; subst.
    specialize (IH k' eq_refl). cbn [length]. destruct e; lia.
  Qed.
  Lemma alts_all f vis cur ts : alts f vis cur ts = Ok (length ts) -> forall t, In t ts -> alt f vis cur t = Ok true.
  Proof.
    induction ts as [|t r IH]; cbn [alts]; intros H x Hx; [inversion Hx|].
    destruct (alt f vis cur t) as [e| |] eqn:Ea; cbn [bind] in H; try discriminate.
    destruct (alts f vis cur r) as [k'| |] eqn:Ek; cbn [bind] in H; try discriminate. inversion H as [Hk]. cbn [length] in Hk.
    pose proof (alts_bound _ _ _ _ _ Ek). destruct e; [|lia]. assert (k' = length r) by lia. subst k'.
    destruct Hx as [->|Hx]; [assumption|apply IH; auto].
  Qed.

  (* an error at a node turns every derivation of "the node has a finite instance" into a strictly smaller
     derivation for the root itself *)
  Lemma error_descends : forall f vis n cur h, chk f vis n cur = Ok true -> InstN h cur n ->
    exists h', h' < h /\ InstN h' roott rootnode.
  Proof.
    induction f as [|f IH]; intros vis n cur h Hc Hi; [discriminate|]. rewrite chk_unfold in Hc.
    destruct (skippable n) eqn:Hs; [discriminate|].
    destruct n as [o u|o u items|o u props|o u names]; try discriminate.
    - (* object *)
      apply each_true in Hc. destruct Hc as (p & Hp & Hcp).
      inversion Hi as [? ? ? Hsk| | |h0 ? ? ? ? Hall| |]; subst; [congruence|].
      rewrite Forall_forall in Hall. destruct (IH vis p cur h0 Hcp (Hall p Hp)) as (h' & Hlt & Hr). exists h'. split; [lia|assumption].
    - (* reference *)
      destruct (alts f vis cur names) as [k| |] eqn:Ek; cbn [bind] in Hc; try discriminate.
      inversion Hc as [Hb]. apply andb_true_iff in Hb. destruct Hb as [Hne Hk]. apply Nat.eqb_eq in Hk. subst k.
      inversion Hi as [? ? ? Hsk| | | |? ? ? ?|h0 ? ? ? ? t Hin Ht]; subst; [congruence|discriminate|].
      pose proof (alts_all _ _ _ _ Ek t Hin) as Ha. unfold alt in Ha.
      destruct (N.eqb_spec t rootname) as [->|Hnr].
      + inversion Ht as [h1 ? Hroot| |]; subst; try congruence. exists h1. split; [lia|assumption].
      + destruct (memt t vis); [discriminate|].
        inversion Ht as [|? ? ? ? Hres|h1 ? ? r own ? Hres Hir]; subst; try congruence.
        * rewrite Hres in Ha. discriminate.
        * rewrite Hres in Ha. destruct (IH _ _ _ h1 Ha Hir) as (h' & Hlt & Hr). exists h'. split; [lia|assumption].
  Qed.

  Theorem no_false_alarm fuel : rec_check fuel rootname rootnode roott = Ok true -> ~ Inst rootname rootnode roott.
  Proof.
    intros Hc [h Hi]. unfold rec_check in Hc. revert Hi. induction h as [h IHh] using lt_wf_ind. intros Hi.
    destruct (error_descends fuel [] rootnode roott h Hc Hi) as (h' & Hlt & Hr). exact (IHh h' Hlt Hr).
  Qed.

  (* a root that requires itself is reported whenever the check delivers a verdict *)
  Lemma req_reported : forall vis cur n, Req rootname roott vis cur n -> forall f b, chk f vis n cur = Ok b -> b = true.
  Proof.
    induction 1 as [vis cur props p Hin Hreq IH|vis cur|vis cur t r own Hnr Hvis Hres Hreq IH]; intros f b Hc;
      (destruct f as [|f]; [discriminate|]); rewrite chk_unfold in Hc; cbn [skippable orb] in Hc.
    - revert Hc. induction props as [|q rest IHp]; [inversion Hin|]. cbn [each].
      destruct (chk f vis q cur) as [e| |] eqn:Eq; cbn [bind]; try discriminate.
      destruct e; [intros H; inversion H; reflexivity|]. intros H. destruct Hin as [->|Hin].
      + specialize (IH f false Eq). discriminate.
      + apply IHp; assumption.
    - cbn [alts] in Hc. unfold alt in Hc. rewrite N.eqb_refl in Hc. cbn in Hc. inversion Hc. reflexivity.
    - cbn [alts] in Hc. unfold alt in Hc. destruct (N.eqb_spec t rootname); [contradiction|]. rewrite Hvis, Hres in Hc.
      destruct (chk f (t :: vis) r own) as [e| |] eqn:Ee; cbn [bind] in Hc; try discriminate.
      specialize (IH f e Ee). subst e. cbn in Hc. inversion Hc. reflexivity.
  Qed.
  Theorem self_requiring_reported fuel b : Req rootname roott [] roott rootnode ->
    rec_check fuel rootname rootnode roott = Ok b -> b = true.
  Proof. intros H. unfold rec_check. apply req_reported. exact H. Qed.
End P.
