(* C08 with references: every value a schema accepts - where a reference accepts what the registered type accepts - is a
   valid instance of the Schema Object the converter builds, the $ref resolved in the components (= the conversions of
   the registered types).  Recursive types are covered: acceptance is a finite derivation (height h), the proof is an
   induction on it.  The example of a schema whose references are not recursive is such a value. *)
From Coq Require Import List ZArith NArith Bool Lia.
From JS Require Import Base.Res Spec.Decimal Model.AllOf Model.Number Model.EnumParse Model.RuleSem Model.OasSem Model.OasLeaf Model.OasTree Model.OasRef
  Proofs.NumberMain Proofs.RuleProofs Proofs.OasProofs Proofs.OasLeafProofs Proofs.OasTreeProofs.
Import ListNotations.
Local Open Scope Z_scope.

Section Env.
Variable types : list (bytes * snode).
Definition known (r : bytes) : Prop := exists t, plookup r types = Some t.
(* the values a schema accepts, by derivations of height at most h *)
Inductive insth : nat -> snode -> jval -> Prop :=
| ih_leaf h ex l v : validate l (Some ex) v = true -> lit_ok v -> insth h (SLeaf ex l) (JLit v)
| ih_or_null h ex alts : insth h (SOr ex alts true) (JLit w_null_lit)
| ih_or h ex alts nu l v : In (OALeaf l) alts -> validate l (Some ex) v = true -> lit_ok v -> insth h (SOr ex alts nu) (JLit v)
| ih_arr_null h items mn mx : insth h (SArr items mn mx true) (JLit w_null_lit)
| ih_obj_null h ms ap : insth h (SObj ms ap true) (JLit w_null_lit)
| ih_or_ref_null h ex alts nu r : In (OARef r true) alts -> insth h (SOr ex alts nu) (JLit w_null_lit)
| ih_or_ref h ex alts nu r rn t v : In (OARef r rn) alts -> plookup r types = Some t -> insth h t v -> insth (S h) (SOr ex alts nu) v
| ih_choice_null h names : insth h (SChoice names true) (JLit w_null_lit)
| ih_choice h names nu r t v : In r names -> plookup r types = Some t -> insth h t v -> insth (S h) (SChoice names nu) v
| ih_reflit_null h ex r : insth h (SRefLit ex r true) (JLit w_null_lit)
| ih_reflit h ex r nu t v : plookup r types = Some t -> insth h t v -> insth (S h) (SRefLit ex r nu) v
| ih_ref_null h r : insth h (SRef r true) (JLit w_null_lit)
| ih_ref h r nu t v : plookup r types = Some t -> insth h t v -> insth (S h) (SRef r nu) v
| ih_arr h items mn mx nu vs :
    (forall m, mn = Some m -> m <= Z.of_nat (length vs)) -> (forall m, mx = Some m -> Z.of_nat (length vs) <= m) ->
    (items = [] -> vs = []) ->
    (forall v, In v vs -> exists it, In it items /\ insth h it v) -> insth (S h) (SArr items mn mx nu) (JArr vs)
| ih_obj h ms ap nu vs :
    (forall k o n, In (k, (o, n)) ms -> o = false -> exists v, In (k, v) vs) ->
    (forall k v, In (k, v) vs ->
       (exists o n, plookup k ms = Some (o, n) /\ insth h n v) \/
       (plookup k ms = None /\ ap_ok ap v) \/
       (plookup k ms = None /\ exists r t, ap = APRef r /\ plookup r types = Some t /\ insth h t v)) ->
    insth (S h) (SObj ms ap nu) (JObj vs)
| ih_objk_null h ms ks ap : insth h (SObjK ms ks ap true) (JLit w_null_lit)
| ih_objk h ms ks ap nu vs :
    (forall k o n, In (k, (o, n)) ms -> o = false -> exists v, In (k, v) vs) ->
    (forall k v, In (k, v) vs ->
       (exists o n, plookup k ms = Some (o, n) /\ insth h n v) \/
       (plookup k ms = None /\ ap_ok ap v) \/
       (plookup k ms = None /\ exists r t, ap = APRef r /\ plookup r types = Some t /\ insth h t v) \/
       (* a member under a key shortcut: its key is a value of the key's type (not looked at here: more values, a stronger theorem) *)
       (plookup k ms = None /\ exists kk, In kk ks /\ insth h (snd (snd kk)) v)) ->
    insth (S h) (SObjK ms ks ap nu) (JObj vs).
Definition inst_e (n : snode) (v : jval) : Prop := exists h, insth h n v.
(* the type named r accepts v *)
Definition refacc (r : bytes) (v : jval) : Prop := exists t, plookup r types = Some t /\ inst_e t v.
(* Check() of the schema and of every registered type *)
Definition accepted_e (n : snode) : Prop := accepted_g known refacc n.
Definition types_accepted : Prop := forall r t, plookup r types = Some t -> accepted_e t.

Lemma comps_lookup r t : plookup r types = Some t -> plookup r (comps types) = Some (to_otree t).
Proof.
  unfold comps. intros H.
  change (fun m : bytes * snode => (fst m, to_otree (snd m))) with (fun m : bytes * snode => (fst m, (fun y => to_otree y) (snd m))).
  rewrite (plookup_map (fun y : snode => to_otree y)). rewrite H. reflexivity.
Qed.

Lemma plookup_in {A} k (x : A) l : plookup k l = Some x -> In (k, x) l.
Proof.
  induction l as [|[k' y] r IH]; [discriminate|]. cbn [plookup]. destruct (list_eqb k' k) eqn:E.
  - apply list_eqb_eq in E. subst k'. intros H; inversion H; subst. left; reflexivity.
  - intros H. right. exact (IH H).
Qed.

Theorem tree_sound_env : types_accepted -> forall h n v, accepted_e n -> insth h n v -> tvalid_e types (to_otree n) v.
Proof.
  intros Hty. induction h as [|h IH]; intros n v Hacc Hi.
  all: inversion Hi as [? ex l v0 Hv [Hs Hn]|? ex alts|? ex alts nu l v0 Hin Hv [Hs Hn]|? items mn mx|? ms ap
                        |? ex alts nu r Hinr|h0 ex alts nu r rn t v0 Hinr Hl Ht|? names|h0 names nu r t v0 Hinr Hl Ht
                        |? ex r|h0 ex r nu t v0 Hl Ht|? r
                        |h0 r nu t v0 Hl Ht|h0 items mn mx nu vs Hmn Hmx Hempty Hall|h0 ms ap nu vs Hreq Hall
                        |? ms ks ap|h0 ms ks ap nu vs Hreq Hall]; subst; cbn [to_otree].
  (* the cases that do not look below: the same for h = 0 and h = S h *)
  all: try solve [constructor].
  all: try solve [destruct ap; constructor].        (* an object with key shortcuts, null *)
  all: try solve [ (* leaf *)
    constructor; destruct Hacc as (Hex & [Hes Hen] & Hr); destruct l as [k rules|];
    [exact (oasx_sound ex k rules v0 Hs Hr Hn Hen Hex Hv)|right; cbn; repeat split; try exact I; intros; discriminate] ].
  all: try solve [ (* or, null *)
    destruct (lit_kind ex); try apply te_any_null; apply te_empty ].
  all: try solve [ (* or, a scalar alternative *)
    destruct Hacc as (_ & Halts & _);
    destruct (lit_kind ex) eqn:Kex; try apply te_empty;
    apply (te_any _ _ _ (OLeaf (to_oasx_alt ex l)));
    try (apply in_map_iff; exists (OALeaf l); split; [reflexivity|exact Hin]);
    (constructor; destruct (Halts l Hin) as [Hr Hwf]; destruct l as [k rules|];
     [apply (oasx_alt_sound ex k rules v0 Hs Hr Hn Hv); intros ->; exact Hwf
     |right; cbn; repeat split; try exact I; intros; discriminate]) ].
  all: try solve [ (* or, null through a nullable type alternative *)
    destruct (lit_kind ex); try apply te_empty;
    (apply (te_any _ _ _ (ORef r true)); [apply in_map_iff; exists (OARef r true); split; [reflexivity|exact Hinr]|apply te_ref_null]) ].
  - (* or, a type alternative *)
    destruct (lit_kind ex); try apply te_empty.
    all: apply (te_any _ _ _ (ORef r rn)); [apply in_map_iff; exists (OARef r rn); split; [reflexivity|exact Hinr]|].
    all: apply (te_ref types r rn (to_otree t) v); [exact (comps_lookup r t Hl)|exact (IH t v (Hty r t Hl) Ht)].
  - (* type choice *)
    apply (te_choice types names nu r (to_otree t) v Hinr); [exact (comps_lookup r t Hl)|exact (IH t v (Hty r t Hl) Ht)].
  - (* a literal with type: "@r" *)
    apply (te_ref types r nu (to_otree t) v); [exact (comps_lookup r t Hl)|exact (IH t v (Hty r t Hl) Ht)].
  - (* reference *)
    apply (te_ref types r nu (to_otree t) v); [exact (comps_lookup r t Hl)|]. exact (IH t v (Hty r t Hl) Ht).
  - (* array *)
    destruct Hacc as (_ & _ & Hitems). apply te_arr.
    + intros m Hm. apply int64_opt_some in Hm. exact (Hmn m Hm).
    + intros m Hm. destruct items as [|i0 ir]; [inversion Hm; subst; rewrite (Hempty eq_refl); cbn; lia|]. apply int64_opt_some in Hm. exact (Hmx m Hm).
    + intros x Hx. right. destruct (Hall x Hx) as (it & Hit & Hinst). exists (to_otree it). split; [apply in_map; exact Hit|].
      exact (IH it x (accepted_items _ _ items Hitems it Hit) Hinst).
  - (* object *)
    destruct Hacc as ((Hnd & Hap) & Hms). apply te_obj.
    + intros k Hk. apply in_map_iff in Hk. destruct Hk as ([k' [o n0]] & Hk' & Hf). cbn [fst] in Hk'. subst k'.
      apply filter_In in Hf. destruct Hf as [Hin Ho]. cbn [fst snd] in Ho. apply negb_true_iff in Ho. exact (Hreq k o n0 Hin Ho).
    + intros k x Hx.
      assert (Hlk : forall y, plookup k ms = y ->
                plookup k (map (fun m : bytes * (bool * snode) => (fst m, to_otree (snd (snd m)))) ms) = option_map (fun z : bool * snode => to_otree (snd z)) y).
      { intros y <-.
        change (fun m : bytes * (bool * snode) => (fst m, to_otree (snd (snd m)))) with (fun m : bytes * (bool * snode) => (fst m, (fun z => to_otree (snd z)) (snd m))).
        apply (plookup_map (fun z : bool * snode => to_otree (snd z))). }
      destruct (Hall k x Hx) as [(o & n0 & Hl & Hinst)|[[Hl Hap']|(Hl & r & t & -> & Hr & Hinst)]].
      * left. exists (to_otree n0). split; [rewrite (Hlk _ Hl); reflexivity|].
        pose proof (plookup_in k (o, n0) ms Hl) as Hin.
        exact (IH n0 x (accepted_members _ _ ms Hms _ Hin) Hinst).
      * right; left. split; [rewrite (Hlk _ Hl); reflexivity|exact Hap'].
      * right; right. split; [rewrite (Hlk _ Hl); reflexivity|]. exists r, (to_otree t). split; [reflexivity|]. split; [exact (comps_lookup r t Hr)|].
        exact (IH t x (Hty r t Hr) Hinst).
  - (* an object with key shortcuts *)
    destruct Hacc as (_ & (Hnd & Hap) & Hms & Hks).
    assert (Hlk : forall k y, plookup k ms = y ->
              plookup k (map (fun m : bytes * (bool * snode) => (fst m, to_otree (snd (snd m)))) ms) = option_map (fun z : bool * snode => to_otree (snd z)) y).
    { intros k y <-.
      change (fun m : bytes * (bool * snode) => (fst m, to_otree (snd (snd m)))) with (fun m : bytes * (bool * snode) => (fst m, (fun z => to_otree (snd z)) (snd m))).
      apply (plookup_map (fun z : bool * snode => to_otree (snd z))). }
    assert (Hreq' : forall k, In k (map fst (filter (fun m : bytes * (bool * snode) => negb (fst (snd m))) ms)) -> exists v, In (k, v) vs).
    { intros k Hk. apply in_map_iff in Hk. destruct Hk as ([k' [o n0]] & Hk' & Hf). cbn [fst] in Hk'. subst k'.
      apply filter_In in Hf. destruct Hf as [Hin Ho]. cbn [fst snd] in Ho. apply negb_true_iff in Ho. exact (Hreq k o n0 Hin Ho). }
    assert (Hprop : forall k x o n0, plookup k ms = Some (o, n0) -> insth h n0 x -> tvalid_e types (to_otree n0) x).
    { intros k x o n0 Hl Hinst. pose proof (plookup_in k (o, n0) ms Hl) as Hin. exact (IH n0 x (accepted_members _ _ ms Hms _ Hin) Hinst). }
    assert (Hkk : forall kk x, In kk ks -> insth h (snd (snd kk)) x -> tvalid_e types (to_otree (snd (snd kk))) x).
    { intros kk x Hin Hinst. exact (IH _ x (accepted_members _ _ ks Hks _ Hin) Hinst). }
    destruct ap as [| |ty| | | |f|r0]; cbv iota.
    all: try (apply te_objk; [exact Hreq'|]; intros k x Hx;
              destruct (Hall k x Hx) as [(o & n0 & Hl & Hinst)|[[Hl Hok]|[(Hl & r & t & E & Hr & Hinst)|(Hl & kk & Hin & Hinst)]]];
              [ left; exists (to_otree n0); split; [rewrite (Hlk _ _ Hl); reflexivity|exact (Hprop k x o n0 Hl Hinst)]
              | right; split; [rewrite (Hlk _ _ Hl); reflexivity|];
                first [ solve [destruct Hok]
                      | (match goal with |- context [OAp ?a] => exists (OAp a) end; split; [apply in_or_app; left; left; reflexivity|apply te_ap; exact Hok]) ]
              | right; split; [rewrite (Hlk _ _ Hl); reflexivity|];
                first [ discriminate E
                      | (inversion E; subst;
                         match goal with Hr' : plookup ?rr types = Some t |- _ =>
                           exists (OAp (APRef rr)); split;
                           [apply in_or_app; left; left; reflexivity|exact (te_ap_ref types rr (to_otree t) x (comps_lookup rr t Hr') (IH t x (Hty rr t Hr') Hinst))]
                         end) ]
              | right; split; [rewrite (Hlk _ _ Hl); reflexivity|]; exists (to_otree (snd (snd kk))); split;
                [apply in_or_app; right; apply in_or_app; right; apply in_map_iff; exists kk; split; [reflexivity|exact Hin]|exact (Hkk kk x Hin Hinst)] ]).
    (* additionalProperties that admit everything: no additionalProperties in the Schema Object *)
    apply te_obj; [exact Hreq'|]. intros k x Hx.
    destruct (Hall k x Hx) as [(o & n0 & Hl & Hinst)|[[Hl _]|[(Hl & _)|(Hl & _)]]].
    + left. exists (to_otree n0). split; [rewrite (Hlk _ _ Hl); reflexivity|exact (Hprop k x o n0 Hl Hinst)].
    + right; left. split; [rewrite (Hlk _ _ Hl); reflexivity|exact I].
    + right; left. split; [rewrite (Hlk _ _ Hl); reflexivity|exact I].
    + right; left. split; [rewrite (Hlk _ _ Hl); reflexivity|exact I].
Qed.

(* ---------- the example ---------- *)
Lemma insth_mono : forall h n v, insth h n v -> forall h', (h <= h')%nat -> insth h' n v.
Proof.
  induction h as [|h IH]; intros n v Hi h' Hle.
  - inversion Hi; subst; solve [econstructor; eassumption].
  - inversion Hi as [| | | | | |h0 ex alts nu r rn t v0 Hinr Hl Ht| |h0 names nu r t v0 Hinr Hl Ht| |h0 ex r nu t v0 Hl Ht|
                     |h0 r nu t v0 Hl Ht|h0 items mn mx nu vs Hmn Hmx Hempty Hall|h0 ms ap nu vs Hreq Hall
                     | |h0 ms ks ap nu vs Hreq Hall]; subst;
      try solve [econstructor; eassumption].
    + destruct h' as [|h']; [lia|]. apply (ih_or_ref h' ex alts nu r rn t v Hinr Hl). apply (IH t v Ht). lia.
    + destruct h' as [|h']; [lia|]. apply (ih_choice h' names nu r t v Hinr Hl). apply (IH t v Ht). lia.
    + destruct h' as [|h']; [lia|]. apply (ih_reflit h' ex r nu t v Hl). apply (IH t v Ht). lia.
    + destruct h' as [|h']; [lia|]. apply (ih_ref h' r nu t v Hl). apply (IH t v Ht). lia.
    + destruct h' as [|h']; [lia|]. apply ih_arr; auto. intros x Hx. destruct (Hall x Hx) as (it & Hit & Hinst). exists it. split; [exact Hit|]. apply (IH it x Hinst). lia.
    + destruct h' as [|h']; [lia|]. apply ih_obj; auto. intros k x Hx.
      destruct (Hall k x Hx) as [(o & n0 & Hl & Hinst)|[H|(Hl & r & t & E & Hr & Hinst)]].
      * left. exists o, n0. split; [exact Hl|]. apply (IH n0 x Hinst). lia.
      * right; left. exact H.
      * right; right. split; [exact Hl|]. exists r, t. split; [exact E|]. split; [exact Hr|]. apply (IH t x Hinst). lia.
    + destruct h' as [|h']; [lia|]. apply ih_objk; auto. intros k x Hx.
      destruct (Hall k x Hx) as [(o & n0 & Hl & Hinst)|[H|[(Hl & r & t & E & Hr & Hinst)|(Hl & kk & Hin & Hinst)]]].
      * left. exists o, n0. split; [exact Hl|]. apply (IH n0 x Hinst). lia.
      * right; left. exact H.
      * right; right; left. split; [exact Hl|]. exists r, t. split; [exact E|]. split; [exact Hr|]. apply (IH t x Hinst). lia.
      * right; right; right. split; [exact Hl|]. exists kk. split; [exact Hin|]. apply (IH _ x Hinst). lia.
Qed.

Lemma all_some_map {A B} (f : A -> option B) l vs : all_some (map f l) = Some vs -> length vs = length l /\ forall v, In v vs -> exists x, In x l /\ f x = Some v.
Proof.
  revert vs. induction l as [|x r IH]; intros vs H; cbn [map all_some] in H.
  - inversion H; subst. split; [reflexivity|intros v []].
  - destruct (f x) as [y|] eqn:E; [|discriminate]. destruct (all_some (map f r)) as [ys|] eqn:E2; [|discriminate]. inversion H; subst.
    destruct (IH ys eq_refl) as [Hlen Hin]. split; [cbn; rewrite Hlen; reflexivity|].
    intros v [->|Hv]; [exists x; split; [left; reflexivity|exact E]|]. destruct (Hin v Hv) as (x' & Hx' & Hf). exists x'. split; [right; exact Hx'|exact Hf].
Qed.
Lemma all_some_cover {A B} (f : A -> option B) l vs : all_some (map f l) = Some vs -> forall x, In x l -> exists v, In v vs /\ f x = Some v.
Proof.
  revert vs. induction l as [|y r IH]; intros vs H x Hx; [inversion Hx|]. cbn [map all_some] in H.
  destruct (f y) as [w|] eqn:E; [|discriminate]. destruct (all_some (map f r)) as [ys|] eqn:E2; [|discriminate]. inversion H; subst.
  destruct Hx as [->|Hx]; [exists w; split; [left; reflexivity|exact E]|].
  destruct (IH ys eq_refl x Hx) as (v & Hv & Hf). exists v. split; [right; exact Hv|exact Hf].
Qed.

(* derivations of the members of a finite list fit under one height *)
Lemma common_height {A} (P : nat -> A -> Prop) (l : list A) :
  (forall h h' x, (h <= h')%nat -> P h x -> P h' x) -> (forall x, In x l -> exists h, P h x) -> exists H, forall x, In x l -> P H x.
Proof.
  intros Hmono. induction l as [|y r IH]; intros Hall; [exists 0%nat; intros x []|].
  destruct (Hall y (or_introl eq_refl)) as [h1 H1]. destruct (IH (fun x Hx => Hall x (or_intror Hx))) as [h2 H2].
  exists (Nat.max h1 h2). intros x [->|Hx]; [apply (Hmono h1); [lia|exact H1]|apply (Hmono h2); [lia|exact (H2 x Hx)]].
Qed.

(* the example of an accepted schema (references not recursive: the fuel suffices) is a value the schema accepts *)
Theorem example_e_inst : types_accepted -> forall fuel n v, accepted_e n -> example_e types fuel n = Some v -> inst_e n v.
Proof.
  intros Hty. induction fuel as [|f IH]; intros n v Hacc He; [discriminate|]. cbn [example_e] in He.
  destruct n as [ex l|ex alts nu|items mn mx nu|ms ap nu|ms ks ap nu|r nu|names nu|ex r nu]; [| | | |discriminate He| | |].
  - inversion He; subst. destruct Hacc as (Hex & Hlit & _). exists 0%nat. constructor; assumption.
  - inversion He; subst. destruct Hacc as (Hlit & _ & _ & [[-> ->]|[(l & Hin & Hv)|(r & rn & Hin & t & Hl & h & Ht)]]).
    + exists 0%nat. apply ih_or_null.
    + exists 0%nat. exact (ih_or _ ex alts nu l ex Hin Hv Hlit).
    + exists (S h). exact (ih_or_ref h ex alts nu r rn t (JLit ex) Hin Hl Ht).
  - destruct (all_some (map (example_e types f) items)) as [vs|] eqn:E; [|discriminate]. inversion He; subst.
    destruct Hacc as (Hmn & Hmx & Hitems). destruct (all_some_map _ _ _ E) as [Hlen Hin].
    destruct (common_height (fun h x => exists it, In it items /\ insth h it x) vs) as [H HH].
    { intros h h' x Hle (it & Hit & Hi). exists it. split; [exact Hit|exact (insth_mono h it x Hi h' Hle)]. }
    { intros x Hx. destruct (Hin x Hx) as (it & Hit & Hf). destruct (IH it x (accepted_items _ _ items Hitems it Hit) Hf) as [h Hh].
      exists h, it. split; assumption. }
    exists (S H). apply ih_arr.
    + intros m Hm. rewrite Hlen. exact (Hmn m Hm).
    + intros m Hm. rewrite Hlen. exact (Hmx m Hm).
    + intros ->. cbn in E. inversion E; reflexivity.
    + exact HH.
  - destruct (all_some (map (fun m : bytes * (bool * snode) => option_map (fun v0 => (fst m, v0)) (example_e types f (snd (snd m)))) ms)) as [vs|] eqn:E; [|discriminate].
    inversion He; subst. destruct Hacc as ((Hnd & _) & Hms).
    destruct (common_height (fun h (kx : bytes * jval) => exists o n0, plookup (fst kx) ms = Some (o, n0) /\ insth h n0 (snd kx)) vs) as [H HH].
    { intros h h' x Hle (o & n0 & Hl & Hi). exists o, n0. split; [exact Hl|exact (insth_mono h n0 _ Hi h' Hle)]. }
    { intros [k x] Hx. destruct (all_some_map _ _ _ E) as [_ Hin]. destruct (Hin (k, x) Hx) as ([k' [o n0]] & Hm & Hf). cbn [fst snd] in Hf.
      destruct (example_e types f n0) as [w|] eqn:Ew; [|discriminate]. cbn in Hf. inversion Hf; subst k' w.
      destruct (IH n0 x (accepted_members _ _ ms Hms _ Hm) Ew) as [h Hh].
      exists h, o, n0. split; [exact (plookup_nodup k (o, n0) ms Hnd Hm)|exact Hh]. }
    exists (S H). apply ih_obj.
    + intros k o n0 Hin _. destruct (all_some_cover _ _ _ E (k, (o, n0)) Hin) as (kv & Hkv & Hf). cbn [fst snd] in Hf.
      destruct (example_e types f n0) as [w|]; [|discriminate]. cbn in Hf. inversion Hf; subst. exists w. exact Hkv.
    + intros k x Hx. left. destruct (HH (k, x) Hx) as (o & n0 & Hl & Hi). exists o, n0. split; assumption.
  - destruct (plookup r types) as [t|] eqn:El; [|discriminate]. destruct (IH t v (Hty r t El) He) as [h Hh].
    exists (S h). exact (ih_ref h r nu t v El Hh).
  - destruct names as [|r rs]; [discriminate|]. destruct (plookup r types) as [t|] eqn:El; [|discriminate].
    destruct (IH t v (Hty r t El) He) as [h Hh]. exists (S h). exact (ih_choice h (r :: rs) nu r t v (or_introl eq_refl) El Hh).
  - inversion He; subst. destruct Hacc as (_ & Hlit & [[-> ->]|(t & Hl & h & Ht)]).
    + exists 0%nat. apply ih_reflit_null.
    + exists (S h). exact (ih_reflit h ex r nu t (JLit ex) Hl Ht).
Qed.

(* C08 with references *)
Theorem example_e_valid : types_accepted -> forall fuel n v, accepted_e n -> example_e types fuel n = Some v -> tvalid_e types (to_otree n) v.
Proof. intros Hty fuel n v Hacc He. destruct (example_e_inst Hty fuel n v Hacc He) as [h Hh]. exact (tree_sound_env Hty h n v Hacc Hh). Qed.
End Env.
