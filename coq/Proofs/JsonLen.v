(* Len() of the JSON document scanner model: for a JSON text  w1 ++ v ++ w2  (blanks, value, blanks)
   jlength = |w1| + |v| - the length of the value without the trailing blanks; with the trailing-characters option the
   same for  w ++ v ++ rest  (rest not continuing a number).
   The run follows the automaton of Proofs/JsonComplete.v; what is needed beyond it is where the LAST lexeme of the
   stream ends: at the value's last byte (the closing bracket's own lexeme, or the literal's end lexeme that the byte
   after it - or the end of input - produces). *)
From Coq Require Import List ZArith NArith Bool Lia.
From JS Require Import Base.Res Base.Lex Spec.JsonGrammar Model.JsonScan Proofs.JsonClasses Proofs.JsonSound Proofs.JsonMain Proofs.JsonComplete.
Import ListNotations.
Local Open Scope Z_scope.

(* ---------- what a step emits, as far as Len needs it ---------- *)
Definition lex_spec (a a' : astate) (p : Z) (lx : list lexeme) : Prop :=
  match a' with
  | AEnd [] false => exists lx' t b0, lx = lx' ++ [(t, b0, p)] /\ (t = ObjectEnd \/ t = ArrayEnd)
  | AEndTop =>
    match a with
    | AEndTop | AEnd [] false => lx = []
    | _ => exists b0, lx = [(LiteralEnd, b0, p - 1)]
    end
  | _ => True
  end.

Ltac kcase := repeat match goal with |- context [match ?K with [] => _ | _ :: _ => _ end] => is_var K; destruct K end.
Ltac lex_fin :=
  eexists; eexists; split; [reflexivity|]; split;
  [ first [ solve [apply abs_str_val; eauto with js] | solve [apply abs_str_key; eauto with js] | solve [econstructor; eauto with js] ]
  | unfold lex_spec; kcase; try exact I; try reflexivity;
    first [ solve [eexists; f_equal; f_equal; lia]
          | solve [exists []; eexists; eexists; split; [cbn [app]; f_equal; f_equal; lia|auto]]
          | solve [eexists [_]; eexists; eexists; split; [cbn [app]; f_equal; f_equal; f_equal; lia|auto]]
          | solve [eexists [_; _]; eexists; eexists; split; [cbn [app]; f_equal; f_equal; f_equal; f_equal; lia|auto]]
          | idtac ] ].

Lemma step_lex al a c b a' : abs al a c -> next a (jcls_of b) = Some a' ->
  exists c' lx, jfeed c b = Ok (c', lx) /\ abs al a' c' /\ lex_spec a a' (jindex c) lx.
Proof.
  intros Ha Hn. unfold jfeed.
  destruct Ha as [i|K st b0 i Hs|K st b0 i Hs|K st b0 i Hs|K st b0 i Hs|K st b0 i Hs|K st b0 i Hs|K st b0 i Hs|K st b0 i Hs
                  |K st b0 i Hs|K st i Hs|K st b0 b2 i Hs|i|sub p st b0 b2 i stp Hs Hstp|sub K st b0 i Hs|stp rest K st b0 i Hs Hkw];
    cbn [jstp jret jstack jindex junf jallow].
  - cbn [next] in Hn. destruct (jcls_of b); cbn in Hn; inversion Hn; subst; cbn; lex_fin.
  - cbn [next] in Hn. destruct (jcls_of b); cbn in Hn; inversion Hn; subst; cbn; lex_fin.
  - cbn [next] in Hn. destruct (jcls_of b); cbn in Hn; inversion Hn; subst; cbn; lex_fin.
  - cbn [next after] in Hn. destruct (jcls_of b); cbn in Hn; inversion Hn; subst; cbn; lex_fin.
  - cbn [next] in Hn. destruct (jcls_of b); cbn in Hn; inversion Hn; subst; cbn; lex_fin.
  - cbn [next] in Hn. destruct (jcls_of b); cbn in Hn; inversion Hn; subst; cbn; lex_fin.
  - cbn [next after_key_next] in Hn. destruct (jcls_of b); cbn in Hn; inversion Hn; subst; cbn; lex_fin.
  - cbn [next] in Hn. destruct (jcls_of b); cbn in Hn; inversion Hn; subst; cbn; lex_fin.
  - cbn [next after] in Hn. destruct (jcls_of b); cbn in Hn; inversion Hn; subst; cbn; lex_fin.
  - cbn [next] in Hn. destruct Hs; cbn [after] in Hn; destruct (jcls_of b); cbn in Hn; inversion Hn; subst; cbn; lex_fin.
  - cbn [next] in Hn. destruct Hs; cbn [after] in Hn; destruct (jcls_of b); cbn in Hn; inversion Hn; subst; cbn; lex_fin.
  - cbn [next after_key_next] in Hn. destruct (jcls_of b); cbn in Hn; inversion Hn; subst; cbn; lex_fin.
  - cbn [next after] in Hn. destruct (jcls_of b); cbn in Hn; inversion Hn; subst; cbn; lex_fin.
  - cbn [next] in Hn.
    destruct sub as [| |n]; [| |destruct n as [|[|[|[|[|n]]]]]]; cbn in Hstp; inversion Hstp; subst stp;
      destruct p as [K|K]; cbn [pos_ctx pos_stack pos_unf str_ret] in *;
      destruct (jcls_of b); cbn in Hn; inversion Hn; subst; cbn; lex_fin.
  - cbn [next] in Hn.
    destruct sub; cbn [num_next] in Hn; destruct Hs; cbn [after] in Hn; destruct (jcls_of b); cbn in Hn; inversion Hn; subst; cbn; lex_fin.
  - cbn [next] in Hn.
    destruct stp; cbn in Hkw; inversion Hkw; subst rest; destruct (jcls_of b); cbn in Hn; inversion Hn; subst; cbn; lex_fin.
Qed.

(* ---------- runs with the index ---------- *)
Lemma run_ix al : forall s a c a', all_bytes s -> abs al a c -> nexts a s = Some a' ->
  exists c' lx, abs al a' c' /\ (forall r acc, jrun c (s ++ r) acc = jrun c' r (acc ++ lx)) /\
                jindex c' = jindex c + Z.of_nat (length s).
Proof.
  induction s as [|b s IH]; intros a c a' Hb Ha Hn.
  - cbn [nexts] in Hn. inversion Hn; subst a'. exists c, []. split; [exact Ha|]. split; [|cbn; lia].
    intros r acc. rewrite app_nil_r. reflexivity.
  - ab. cbn [nexts] in Hn. destruct (next a (jcls_of b)) as [a1|] eqn:E; [|discriminate].
    destruct (sim_step al a c b a1 Ha E) as (c1 & lx1 & Hf & Het & Ha1 & _).
    destruct (IH a1 c1 a' ltac:(assumption) Ha1 Hn) as (c' & lx & Ha' & Hrun & Hix).
    exists c', (lx1 ++ lx). split; [exact Ha'|]. split.
    + intros r acc. cbn [app jrun]. rewrite Hf. fold (has_end_top lx1). rewrite Het. rewrite Hrun, app_assoc. reflexivity.
    + rewrite Hix, (feed_index _ _ _ _ Hf). cbn [length]. lia.
Qed.

Lemma nexts_snoc a s b a2 : nexts a (s ++ [b]) = Some a2 -> exists a1, nexts a s = Some a1 /\ next a1 (jcls_of b) = Some a2.
Proof.
  revert a. induction s as [|x s IH]; intros a H; cbn [app nexts] in H.
  - destruct (next a (jcls_of b)) as [a1|] eqn:E; [|discriminate]. inversion H; subst. exists a. split; [reflexivity|exact E].
  - destruct (next a (jcls_of x)) as [a1|] eqn:E; [|discriminate]. destruct (IH a1 H) as (a3 & H1 & H2).
    exists a3. split; [cbn [nexts]; rewrite E; exact H1|exact H2].
Qed.

(* one step of the run, in the shape of run_ix *)
Lemma run_step al a c b a' : byte b -> abs al a c -> next a (jcls_of b) = Some a' ->
  exists c' lx, abs al a' c' /\ (forall r acc, jrun c (b :: r) acc = jrun c' r (acc ++ lx)) /\ jindex c' = jindex c + 1 /\
                lex_spec a a' (jindex c) lx.
Proof.
  intros Hb Ha Hn. destruct (step_lex al a c b a' Ha Hn) as (c' & lx & Hf & Ha' & Hspec).
  destruct (sim_step al a c b a' Ha Hn) as (c2 & lx2 & Hf2 & Het & _). rewrite Hf in Hf2. inversion Hf2; subst c2 lx2.
  exists c', lx. split; [exact Ha'|]. split; [|split; [exact (feed_index _ _ _ _ Hf)|exact Hspec]].
  intros r acc. cbn [jrun]. rewrite Hf. fold (has_end_top lx). rewrite Het. reflexivity.
Qed.

(* blanks after the value at top level: nothing more is emitted *)
Lemma trailing_blanks al : forall w c acc, all_bytes w -> ws w -> abs al AEndTop c ->
  exists c', abs al AEndTop c' /\ jrun c w acc = jrun c' [] acc.
Proof.
  induction w as [|b w IH]; intros c acc Hb Hw Ha; [exists c; auto|]. ab. inversion Hw as [|? ? Hc Hw']; subst.
  assert (Hn : next AEndTop (jcls_of b) = Some AEndTop) by (cbn [next after]; rewrite (cls_ws b ltac:(assumption) Hc); reflexivity).
  destruct (run_step al AEndTop c b AEndTop ltac:(assumption) Ha Hn) as (c1 & lx & Ha1 & Hrun & _ & Hspec).
  cbn [lex_spec] in Hspec. subst lx. rewrite Hrun, app_nil_r. apply IH; assumption.
Qed.

Lemma eof_top al c acc : abs al AEndTop c -> jrun c [] acc = (Ok acc, jindex c).
Proof. intros Ha. inversion Ha; subst. cbn. rewrite app_nil_r. reflexivity. Qed.

(* ---------- the value's last byte is not a blank ---------- *)
Definition last_byte (s : bytes) : N := last s 0%N.
Lemma last_app_single (s : bytes) c : last_byte (s ++ [c]) = c.
Proof. unfold last_byte. induction s as [|x s IH]; [reflexivity|]. cbn [app]. destruct (s ++ [c]) eqn:E; [destruct s; discriminate|]. exact IH. Qed.
Lemma last_cons_ne x (s : bytes) : s <> [] -> last_byte (x :: s) = last_byte s.
Proof. unfold last_byte. destruct s; [congruence|reflexivity]. Qed.
Lemma last_app_ne (a b : bytes) : b <> [] -> last_byte (a ++ b) = last_byte b.
Proof.
  intros Hb. induction a as [|x a IH]; [reflexivity|]. cbn [app]. rewrite last_cons_ne; [exact IH|]. destruct a; cbn; [exact Hb|discriminate].
Qed.
Lemma digits_last d : digits d -> d <> [] -> digit (last_byte d) = true.
Proof.
  induction 1 as [|c d Hc Hd IH]; [congruence|]. intros _. destruct d as [|c' d']; [exact Hc|]. rewrite last_cons_ne by discriminate. apply IH. discriminate.
Qed.
Lemma digit_not_ws c : digit c = true -> is_ws c = false.
Proof.
  unfold digit. intros H. apply andb_true_iff in H. destruct H as [H1 H2]. apply N.leb_le in H1, H2.
  destruct (is_ws c) eqn:E; [|reflexivity]. exfalso. unfold is_ws in E.
  destruct c as [|p]; [discriminate|]. do 7 (try destruct p as [p|p|]); try discriminate; lia.
Qed.
Lemma number_last n : JNumber n -> is_ws (last_byte n) = false.
Proof.
  intros (m & i & f & x & -> & Hm & Hi & Hf & Hx).
  assert (Hi' : i <> [] /\ digit (last_byte i) = true).
  { destruct Hi as [->|(c & d & -> & Hc & Hd)]; [split; [discriminate|reflexivity]|]. split; [discriminate|].
    destruct d as [|c' d']; [unfold digit19 in Hc; unfold digit, last_byte; cbn; apply andb_true_iff in Hc; destruct Hc as [H1 H2]; apply N.leb_le in H1, H2; apply andb_true_iff; split; apply N.leb_le; lia|].
    rewrite last_cons_ne by discriminate. apply digits_last; [exact Hd|discriminate]. }
  destruct Hi' as [Hine Hil].
  destruct Hx as [->|(e & sg & c & d & -> & He & Hsg & Hc & Hd)].
  - rewrite app_nil_r. destruct Hf as [->|(c & d & -> & Hc & Hd)].
    + rewrite app_nil_r. rewrite last_app_ne by exact Hine. apply digit_not_ws. exact Hil.
    + rewrite app_assoc. rewrite last_app_ne by discriminate. apply digit_not_ws.
      destruct d as [|c' d']; [unfold last_byte; cbn; exact Hc|]. rewrite !last_cons_ne by discriminate. apply digits_last; [exact Hd|discriminate].
  - rewrite !app_assoc. rewrite last_app_ne by discriminate. rewrite last_cons_ne by (destruct sg; discriminate).
    apply digit_not_ws.
    assert (Hcd : digit (last_byte (c :: d)) = true).
    { destruct d as [|c' d']; [unfold last_byte; cbn; exact Hc|]. rewrite last_cons_ne by discriminate. apply digits_last; [exact Hd|discriminate]. }
    rewrite last_app_ne by discriminate. exact Hcd.
Qed.
Lemma value_last v : JValue v -> v <> [] /\ is_ws (last_byte v) = false.
Proof.
  intros H. destruct H as [ | | |n Hn|s (body & -> & _)|w _|els _|w _|ms _].
  - split; [discriminate|reflexivity].
  - split; [discriminate|reflexivity].
  - split; [discriminate|reflexivity].
  - split; [|exact (number_last n Hn)]. destruct Hn as (m & i & f & x & -> & _ & Hi & _). destruct Hi as [->|(c & d & -> & _)]; destruct m; discriminate.
  - split; [discriminate|]. change (34%N :: body ++ [34%N]) with ((34%N :: body) ++ [34%N]). rewrite last_app_single. reflexivity.
  - split; [discriminate|]. change (91%N :: w ++ [93%N]) with ((91%N :: w) ++ [93%N]). rewrite last_app_single. reflexivity.
  - split; [discriminate|]. change (91%N :: els ++ [93%N]) with ((91%N :: els) ++ [93%N]). rewrite last_app_single. reflexivity.
  - split; [discriminate|]. change (123%N :: w ++ [125%N]) with ((123%N :: w) ++ [125%N]). rewrite last_app_single. reflexivity.
  - split; [discriminate|]. change (123%N :: ms ++ [125%N]) with ((123%N :: ms) ++ [125%N]). rewrite last_app_single. reflexivity.
Qed.

(* ---------- scanner.Length on a stream whose last lexeme ends at the value's last byte ---------- *)
Lemma rtrim_stops pre n : pre <> [] -> is_blank (last_byte pre) = false -> rtrim_len (rev pre) n = n.
Proof.
  intros Hne Hl. destruct (exists_last Hne) as (p & c & ->). rewrite rev_app_distr. cbn [rev app rtrim_len].
  rewrite last_app_single in Hl. rewrite Hl. reflexivity.
Qed.
Lemma is_blank_ws c : is_blank c = is_ws c.
Proof. reflexivity. Qed.

Lemma length_of_stream al s pre rest ls t b0 x :
  s = pre ++ rest -> pre <> [] -> is_ws (last_byte pre) = false ->
  jlexemes al s = (Ok (ls ++ [(t, b0, Z.of_nat (length pre) - 1)]), x) -> lext_eqb t EndTop = false ->
  jlength al s = Ok (Z.of_nat (length pre)).
Proof.
  intros Hs Hne Hl Hlex Ht. unfold jlength. rewrite Hlex. rewrite rev_app_distr. cbn [rev app]. rewrite Ht.
  replace (Z.of_nat (length pre) - 1 + 1) with (Z.of_nat (length pre)) by lia. rewrite Nat2Z.id.
  rewrite Hs, firstn_app, Nat.sub_diag, firstn_all. cbn [firstn]. rewrite app_nil_r.
  rewrite rtrim_stops; [reflexivity|exact Hne|rewrite is_blank_ws; exact Hl].
Qed.

(* ---------- end of input right after the value ---------- *)
Lemma eof_after_value al a c acc : abs al a c -> Done a [] ->
  (a = AEnd [] false /\ jrun c [] acc = (Ok acc, jindex c)) \/
  (a <> AEnd [] false /\ exists b0, jrun c [] acc = (Ok (acc ++ [(LiteralEnd, b0, jindex c - 1)]), jindex c)).
Proof.
  intros Ha Hd. inversion Hd as [K lit|sub K Hc]; subst; inversion Ha; subst;
    repeat match goal with H : shape [] _ |- _ => apply shape_nil_inv in H; subst end.
  - right. split; [discriminate|]. eexists. cbn. replace (i + 1 - 1) with i by lia. reflexivity.
  - left. split; [reflexivity|]. cbn. rewrite app_nil_r. reflexivity.
  - right. split; [discriminate|]. eexists. cbn [jrun jstack jindex junf]. unfold num_unf. rewrite Hc. cbn. reflexivity.
Qed.

(* the stream of a document: value, then blanks *)
Lemma stream_of_text al w1 v w2 : all_bytes (w1 ++ v ++ w2) -> ws w1 -> JValue v -> ws w2 ->
  exists ls t b0 x, jlexemes al (w1 ++ v ++ w2) = (Ok (ls ++ [(t, b0, Z.of_nat (length (w1 ++ v)) - 1)]), x) /\ lext_eqb t EndTop = false.
Proof.
  intros Hb H1 Hv H2. assert (Hb' := Hb). apply all_bytes_app in Hb'. destruct Hb' as [Hbw Hb']. apply all_bytes_app in Hb'. destruct Hb' as [Hbv Hbw2].
  destruct grammar_run as (GV & _ & _).
  pose proof (vs_ws ARoot [] w1 vs_root Hbw H1) as S1.
  destruct (GV v Hv Hbv ARoot [] vs_root) as (a2 & S2 & D2 & _).
  assert (S : nexts ARoot (w1 ++ v) = Some a2) by (rewrite (nexts_app _ _ _ _ S1); exact S2).
  destruct (value_last v Hv) as [Hvne _].
  assert (Hpne : w1 ++ v <> []) by (destruct w1; [exact Hvne|discriminate]).
  destruct (exists_last Hpne) as (pre' & b & Epre). rewrite Epre in S.
  destruct (nexts_snoc _ _ _ _ S) as (a1 & S' & Sb).
  assert (Hbpre : all_bytes (pre' ++ [b])) by (rewrite <- Epre; apply Forall_app; split; assumption).
  apply all_bytes_app in Hbpre. destruct Hbpre as [Hbp' Hbb]. apply all_bytes_cons in Hbb. destruct Hbb as [Hbyte _].
  destruct (run_ix al pre' ARoot (jcfg0 al) a1 Hbp' (abs_root al 0) S') as (c1 & lx1 & Ha1 & Hrun1 & Hix1).
  destruct (run_step al a1 c1 b a2 Hbyte Ha1 Sb) as (c2 & lx2 & Ha2 & Hrun2 & Hix2 & Hspec).
  cbn [jcfg0 jindex] in Hix1.
  assert (Hlen : Z.of_nat (length (w1 ++ v)) - 1 = jindex c1) by (rewrite Epre, app_length; cbn [length]; lia).
  assert (Hlen2 : jindex c2 - 1 = jindex c1) by lia.
  unfold jlexemes. rewrite Hlen. rewrite app_assoc, Epre, <- app_assoc. cbn [app]. rewrite Hrun1, Hrun2. cbn [app].
  destruct w2 as [|cw w2'].
  - (* the text ends with the value *)
    destruct (eof_after_value al a2 c2 (lx1 ++ lx2) Ha2 D2) as [[-> Hr]|[Hne (b0 & Hr)]].
    + cbn [lex_spec] in Hspec. destruct Hspec as (lx' & t & b0 & -> & Ht). rewrite Hr.
      exists (lx1 ++ lx'), t, b0, (jindex c2). split; [rewrite app_assoc; reflexivity|destruct Ht as [-> | ->]; reflexivity].
    + rewrite Hr, Hlen2. exists (lx1 ++ lx2), LiteralEnd, b0, (jindex c2). split; [reflexivity|reflexivity].
  - (* blanks follow *)
    apply all_bytes_cons in Hbw2. destruct Hbw2 as [Hbc Hbw2']. inversion H2 as [|? ? Hcw Hw2']; subst.
    assert (Hn : next a2 (jcls_of cw) = Some AEndTop).
    { rewrite (afterv_next a2 [] (jcls_of cw) (or_introl D2) (or_introl (cls_ws cw Hbc Hcw))). cbn [after]. rewrite (cls_ws cw Hbc Hcw). reflexivity. }
    destruct (run_step al a2 c2 cw AEndTop Hbc Ha2 Hn) as (c3 & lx3 & Ha3 & Hrun3 & _ & Hspec3).
    rewrite Hrun3. destruct (trailing_blanks al w2' c3 ((lx1 ++ lx2) ++ lx3) Hbw2' Hw2' Ha3) as (c4 & Ha4 & Hr4). rewrite Hr4, (eof_top al c4 _ Ha4).
    inversion D2 as [K lit|sub K Hc]; subst.
    + destruct lit.
      * cbn [lex_spec] in Hspec3. destruct Hspec3 as (b0 & ->). rewrite Hix2. replace (jindex c1 + 1 - 1) with (jindex c1) by lia.
        exists (lx1 ++ lx2), LiteralEnd, b0, (jindex c4). split; [reflexivity|reflexivity].
      * cbn [lex_spec] in Hspec3, Hspec. subst lx3. destruct Hspec as (lx' & t & b0 & -> & Ht). rewrite app_nil_r.
        exists (lx1 ++ lx'), t, b0, (jindex c4). split; [rewrite app_assoc; reflexivity|destruct Ht as [-> | ->]; reflexivity].
    + cbn [lex_spec] in Hspec3. destruct Hspec3 as (b0 & ->). rewrite Hix2. replace (jindex c1 + 1 - 1) with (jindex c1) by lia.
      exists (lx1 ++ lx2), LiteralEnd, b0, (jindex c4). split; [reflexivity|reflexivity].
Qed.

(* C12, Len(): the length of the value without the blanks after it (the blanks before it count) *)
Theorem length_of_text al w1 v w2 : all_bytes (w1 ++ v ++ w2) -> ws w1 -> JValue v -> ws w2 ->
  jlength al (w1 ++ v ++ w2) = Ok (Z.of_nat (length w1 + length v)).
Proof.
  intros Hb H1 Hv H2. destruct (stream_of_text al w1 v w2 Hb H1 Hv H2) as (ls & t & b0 & x & Hlex & Ht).
  destruct (value_last v Hv) as [Hvne Hvl].
  rewrite <- app_length.
  apply (length_of_stream al (w1 ++ v ++ w2) (w1 ++ v) w2 ls t b0 x); auto.
  - rewrite app_assoc. reflexivity.
  - destruct w1; [exact Hvne|discriminate].
  - rewrite last_app_ne by exact Hvne. exact Hvl.
Qed.
