(* decode (what a JSON string denotes, Model/EnumParse.v) undoes go_escape_cp (encoding/json's string encoder,
   Model/JsonValue.v) on every Unicode scalar value. *)
From Coq Require Import List NArith ZArith Bool Arith Lia ZifyN ZifyBool.
From JS Require Import Base.Res Spec.JsonGrammar Model.EnumParse Model.JsonValue.
Import ListNotations.
Local Open Scope N_scope.
Ltac Zify.zify_post_hook ::= Z.div_mod_to_equations.

Definition valid_cp (c : N) : Prop := c < 55296 \/ (57344 <= c /\ c < 1114112).

(* one step of decode on a byte that does not start an escape *)
Lemma decode_raw f c r : c <> 92 -> decode (S f) (c :: r) = (let (cp, r') := utf8_head c r in cp :: decode f r').
Proof.
  intros Hc. cbn [decode]. destruct c as [|p]; [reflexivity|]. repeat (destruct p as [p|p|]; try reflexivity). congruence.
Qed.
(* one step on a simple escape *)
Lemma decode_simple f e r : e <> 117 ->
  decode (S f) (92 :: e :: r) = (match e with 98 => 8 | 102 => 12 | 110 => 10 | 114 => 13 | 116 => 9 | _ => e end) :: decode f r.
Proof.
  intros He. cbn [decode]. destruct e as [|p]; [reflexivity|]. repeat (destruct p as [p|p|]; try reflexivity). congruence.
Qed.
(* one step on \uXXXX outside the surrogate range *)
Lemma decode_u f h1 h2 h3 h4 r : let u := u4 h1 h2 h3 h4 in (u < 55296 \/ 57344 <= u) ->
  decode (S f) (92 :: 117 :: h1 :: h2 :: h3 :: h4 :: r) = u :: decode f r.
Proof.
  intros u Hu. cbn [decode]. fold u.
  destruct ((55296 <=? u) && (u <=? 56319)) eqn:E1; [exfalso; lia|].
  destruct ((56320 <=? u) && (u <=? 57343)) eqn:E2; [exfalso; lia|]. reflexivity.
Qed.

Lemma hexval_hexdig n : n < 16 -> hexval (hexdig n) = n.
Proof.
  intros H. unfold hexdig, hexval, digit. destruct (n <? 10) eqn:E.
  - assert (H1 : (48 <=? 48 + n) && (48 + n <=? 57) = true) by lia. rewrite H1. lia.
  - assert (H1 : (48 <=? 87 + n) && (87 + n <=? 57) = false) by lia. rewrite H1.
    assert (H2 : (97 <=? 87 + n) = true) by lia. rewrite H2. lia.
Qed.
Lemma u4_escape c : c < 65536 -> u4 (hexdig (c / 4096)) (hexdig ((c / 256) mod 16)) (hexdig ((c / 16) mod 16)) (hexdig (c mod 16)) = c.
Proof.
  intros H. unfold u4. rewrite !hexval_hexdig by lia. lia.
Qed.
Lemma decode_u_escape f c r : c < 65536 -> (c < 55296 \/ 57344 <= c) -> decode (S f) (u_escape c ++ r) = c :: decode f r.
Proof.
  intros H1 H2. unfold u_escape. cbn [app]. rewrite decode_u; rewrite (u4_escape c H1); [reflexivity|exact H2].
Qed.

(* UTF-8: the decoder reads back what the encoder wrote *)
Lemma utf8_roundtrip c r : valid_cp c -> 128 <= c ->
  match utf8_enc c with
  | b :: bs => b <> 92 /\ utf8_head b (bs ++ r) = (c, r)
  | [] => False
  end.
Proof.
  intros Hv H128. unfold utf8_enc.
  destruct (c <? 128) eqn:E0; [lia|].
  destruct (c <? 2048) eqn:E1.
  - split; [lia|]. unfold utf8_head, is_cont. cbn [app].
    assert (A : (192 + c / 64 <? 128) = false) by lia. rewrite A.
    assert (B : (194 <=? 192 + c / 64) && (192 + c / 64 <=? 223) = true) by lia. rewrite B.
    assert (C : (128 <=? 128 + c mod 64) && (128 + c mod 64 <=? 191) = true) by lia. rewrite C. f_equal. lia.
  - destruct (c <? 65536) eqn:E2.
    + split; [lia|]. unfold utf8_head, is_cont. cbn [app].
      assert (A : (224 + c / 4096 <? 128) = false) by lia. rewrite A.
      assert (B : (194 <=? 224 + c / 4096) && (224 + c / 4096 <=? 223) = false) by lia. rewrite B.
      assert (C : (224 <=? 224 + c / 4096) && (224 + c / 4096 <=? 239) = true) by lia. rewrite C.
      destruct Hv as [Hv|Hv].
      * assert (D : ((if 224 + c / 4096 =? 224 then 160 else 128) <=? 128 + (c / 64) mod 64) &&
                    (128 + (c / 64) mod 64 <=? (if 224 + c / 4096 =? 237 then 159 else 191)) &&
                    ((128 <=? 128 + c mod 64) && (128 + c mod 64 <=? 191)) = true).
        { destruct (224 + c / 4096 =? 224) eqn:X1; destruct (224 + c / 4096 =? 237) eqn:X2; lia. }
        rewrite D. f_equal. lia.
      * assert (D : ((if 224 + c / 4096 =? 224 then 160 else 128) <=? 128 + (c / 64) mod 64) &&
                    (128 + (c / 64) mod 64 <=? (if 224 + c / 4096 =? 237 then 159 else 191)) &&
                    ((128 <=? 128 + c mod 64) && (128 + c mod 64 <=? 191)) = true).
        { destruct (224 + c / 4096 =? 224) eqn:X1; destruct (224 + c / 4096 =? 237) eqn:X2; lia. }
        rewrite D. f_equal. lia.
    + assert (Hc : 65536 <= c /\ c < 1114112) by (destruct Hv; lia). split; [lia|]. unfold utf8_head, is_cont. cbn [app].
      assert (A : (240 + c / 262144 <? 128) = false) by lia. rewrite A.
      assert (B : (194 <=? 240 + c / 262144) && (240 + c / 262144 <=? 223) = false) by lia. rewrite B.
      assert (C : (224 <=? 240 + c / 262144) && (240 + c / 262144 <=? 239) = false) by lia. rewrite C.
      assert (C2 : (240 <=? 240 + c / 262144) && (240 + c / 262144 <=? 244) = true) by lia. rewrite C2.
      assert (D : ((if 240 + c / 262144 =? 240 then 144 else 128) <=? 128 + (c / 4096) mod 64) &&
                  (128 + (c / 4096) mod 64 <=? (if 240 + c / 262144 =? 244 then 143 else 191)) &&
                  ((128 <=? 128 + (c / 64) mod 64) && (128 + (c / 64) mod 64 <=? 191)) &&
                  ((128 <=? 128 + c mod 64) && (128 + c mod 64 <=? 191)) = true).
      { destruct (240 + c / 262144 =? 240) eqn:X1; destruct (240 + c / 262144 =? 244) eqn:X2; lia. }
      rewrite D. f_equal. lia.
Qed.

(* the encoder's output for one scalar value is read back as that value, whatever follows *)
Theorem decode_escape_cp f c r : valid_cp c -> decode (S f) (go_escape_cp c ++ r) = c :: decode f r.
Proof.
  intros Hv. unfold go_escape_cp.
  destruct (N.eqb_spec c 34) as [->|H34]; [reflexivity|].
  destruct (N.eqb_spec c 92) as [->|H92]; [reflexivity|].
  destruct (N.eqb_spec c 8) as [->|H8]; [reflexivity|].
  destruct (N.eqb_spec c 12) as [->|H12]; [reflexivity|].
  destruct (N.eqb_spec c 10) as [->|H10]; [reflexivity|].
  destruct (N.eqb_spec c 13) as [->|H13]; [reflexivity|].
  destruct (N.eqb_spec c 9) as [->|H9]; [reflexivity|].
  destruct (c <? 32) eqn:E32; [apply decode_u_escape; lia|].
  destruct ((c =? 60) || (c =? 62) || (c =? 38)) eqn:Eh; [apply decode_u_escape; lia|].
  destruct ((c =? 8232) || (c =? 8233)) eqn:El; [apply decode_u_escape; lia|].
  destruct (c <? 128) eqn:E128.
  - unfold utf8_enc. rewrite E128. cbn [app]. rewrite (decode_raw f c r H92). unfold utf8_head. rewrite E128. reflexivity.
  - pose proof (utf8_roundtrip c r Hv ltac:(lia)) as H. destruct (utf8_enc c) as [|b bs]; [destruct H|]. destruct H as [Hb Hh].
    cbn [app]. rewrite (decode_raw f b (bs ++ r) Hb), Hh. reflexivity.
Qed.

Theorem decode_escape cps : Forall valid_cp cps -> forall f, (length cps <= f)%nat -> decode f (flat_map go_escape_cp cps) = cps.
Proof.
  induction 1 as [|c cps Hc _ IH]; intros f Hf; cbn [flat_map].
  - destruct f; reflexivity.
  - destruct f as [|f]; [cbn [length] in Hf; lia|]. rewrite (decode_escape_cp f c _ Hc). f_equal. apply IH. cbn [length] in Hf. lia.
Qed.

(* ---- every code point decode produces is a Unicode scalar value (for texts of bytes) ---- *)
Definition is_byte (c : N) : Prop := c < 256.
Lemma hexval_bound c : is_byte c -> hexval c <= 168.
Proof. unfold is_byte, hexval, digit. intros H. destruct ((48 <=? c) && (c <=? 57)) eqn:E; [lia|]. destruct (97 <=? c) eqn:E2; lia. Qed.
Lemma u4_bound h1 h2 h3 h4 : is_byte h1 -> is_byte h2 -> is_byte h3 -> is_byte h4 -> u4 h1 h2 h3 h4 < 1114112.
Proof. intros A B C D. unfold u4. pose proof (hexval_bound _ A). pose proof (hexval_bound _ B). pose proof (hexval_bound _ C). pose proof (hexval_bound _ D). lia. Qed.

Lemma utf8_head_valid c r : is_byte c -> Forall is_byte r -> valid_cp (fst (utf8_head c r)) /\ Forall is_byte (snd (utf8_head c r)) /\ (length (snd (utf8_head c r)) <= length r)%nat.
Proof.
  intros Hc Hr. unfold utf8_head, is_cont, valid_cp, is_byte in *.
  assert (Hbad : (65533 < 55296 \/ 57344 <= 65533 /\ 65533 < 1114112) /\ Forall (fun x => x < 256) r /\ (length r <= length r)%nat) by (split; [lia|split; [exact Hr|lia]]).
  destruct (c <? 128) eqn:E0; [cbn [fst snd]; split; [lia|split; [exact Hr|lia]]|].
  destruct ((194 <=? c) && (c <=? 223)) eqn:E1.
  - destruct r as [|c1 r1]; [exact Hbad|]. inversion Hr as [|? ? H1 Hr1]; subst.
    destruct ((128 <=? c1) && (c1 <=? 191)) eqn:E; [|exact Hbad]. cbn [fst snd length]. split; [lia|split; [exact Hr1|lia]].
  - destruct ((224 <=? c) && (c <=? 239)) eqn:E2.
    + destruct r as [|c1 [|c2 r2]]; try exact Hbad. inversion Hr as [|? ? H1 Hr1]; subst. inversion Hr1 as [|? ? H2 Hr2]; subst.
      destruct (((if c =? 224 then 160 else 128) <=? c1) && (c1 <=? (if c =? 237 then 159 else 191)) && ((128 <=? c2) && (c2 <=? 191))) eqn:E; [|exact Hbad].
      cbn [fst snd length]. split; [|split; [exact Hr2|lia]].
      destruct (c =? 224) eqn:X1; destruct (c =? 237) eqn:X2; lia.
    + destruct ((240 <=? c) && (c <=? 244)) eqn:E3; [|exact Hbad].
      destruct r as [|c1 [|c2 [|c3 r3]]]; try exact Hbad.
      inversion Hr as [|? ? H1 Hr1]; subst. inversion Hr1 as [|? ? H2 Hr2]; subst. inversion Hr2 as [|? ? H3 Hr3]; subst.
      destruct (((if c =? 240 then 144 else 128) <=? c1) && (c1 <=? (if c =? 244 then 143 else 191)) && ((128 <=? c2) && (c2 <=? 191)) && ((128 <=? c3) && (c3 <=? 191))) eqn:E; [|exact Hbad].
      cbn [fst snd length]. split; [|split; [exact Hr3|lia]].
      destruct (c =? 240) eqn:X1; destruct (c =? 244) eqn:X2; lia.
Qed.

(* decode, one step at a time, as a function of the first bytes (no pattern matching on numerals left) *)
Lemma decode_cases f s :
  decode (S f) s =
  match s with
  | [] => []
  | c :: r =>
    if negb (c =? 92) then (let (cp, r') := utf8_head c r in cp :: decode f r')
    else match r with
         | [] => 92 :: decode f []
         | e :: r1 =>
           if negb (e =? 117) then (match e with 98 => 8 | 102 => 12 | 110 => 10 | 114 => 13 | 116 => 9 | _ => e end) :: decode f r1
           else match r1 with
                | h1 :: h2 :: h3 :: h4 :: r2 =>
                  let u := u4 h1 h2 h3 h4 in
                  if (55296 <=? u) && (u <=? 56319) then
                    match r2 with
                    | b1 :: b2 :: g1 :: g2 :: g3 :: g4 :: r' =>
                      let v := u4 g1 g2 g3 g4 in
                      if (b1 =? 92) && (b2 =? 117) && ((56320 <=? v) && (v <=? 57343)) then (65536 + (u - 55296) * 1024 + (v - 56320)) :: decode f r'
                      else 65533 :: decode f r2
                    | _ => 65533 :: decode f r2
                    end
                  else if (56320 <=? u) && (u <=? 57343) then 65533 :: decode f r2
                  else u :: decode f r2
                | _ => 117 :: decode f r1
                end
         end
  end.
Proof.
  destruct s as [|c r]; [reflexivity|]. destruct (N.eqb_spec c 92) as [->|Hc]; cbn [negb].
  - destruct r as [|e r1]; [reflexivity|]. destruct (N.eqb_spec e 117) as [->|He]; cbn [negb].
    + destruct r1 as [|h1 [|h2 [|h3 [|h4 r2]]]]; try reflexivity.
      cbn [decode]. cbv zeta. destruct ((55296 <=? u4 h1 h2 h3 h4) && (u4 h1 h2 h3 h4 <=? 56319)); [|reflexivity].
      destruct r2 as [|b1 r3]; [reflexivity|].
      destruct (N.eqb_spec b1 92) as [->|Hb1].
      * destruct r3 as [|b2 r4]; [reflexivity|]. destruct (N.eqb_spec b2 117) as [->|Hb2].
        -- destruct r4 as [|g1 [|g2 [|g3 [|g4 r']]]]; reflexivity.
        -- destruct r4 as [|g1 [|g2 [|g3 [|g4 r']]]]; (destruct b2 as [|p]; [reflexivity|]; repeat (destruct p as [p|p|]; try reflexivity); congruence).
      * destruct r3 as [|b2 [|g1 [|g2 [|g3 [|g4 r']]]]]; (destruct b1 as [|p]; [reflexivity|]; repeat (destruct p as [p|p|]; try reflexivity); congruence).
    + apply decode_simple. exact He.
  - apply decode_raw. exact Hc.
Qed.

Theorem decode_valid : forall f s, Forall is_byte s -> Forall valid_cp (decode f s).
Proof.
  induction f as [|f IH]; intros s Hs; [constructor|]. rewrite decode_cases. destruct s as [|c r]; [constructor|].
  inversion Hs as [|? ? Hc Hr]; subst.
  assert (V65533 : valid_cp 65533) by (unfold valid_cp; lia).
  destruct (negb (c =? 92)) eqn:E92.
  - destruct (utf8_head_valid c r Hc Hr) as (Hv & Hb & _). destruct (utf8_head c r) as [cp r']. cbn [fst snd] in *. constructor; [exact Hv|apply IH; exact Hb].
  - destruct r as [|e r1]; [constructor; [unfold valid_cp; lia|apply IH; constructor]|].
    inversion Hr as [|? ? He Hr1]; subst.
    destruct (negb (e =? 117)) eqn:E117.
    + constructor; [|apply IH; exact Hr1]. unfold valid_cp, is_byte in *.
      destruct e as [|p]; [lia|]. repeat (destruct p as [p|p|]; try lia).
    + destruct r1 as [|h1 [|h2 [|h3 [|h4 r2]]]]; try (constructor; [unfold valid_cp; lia|apply IH; exact Hr1]).
      inversion Hr1 as [|? ? H1 T1]; subst. inversion T1 as [|? ? H2 T2]; subst. inversion T2 as [|? ? H3 T3]; subst. inversion T3 as [|? ? H4 T4]; subst.
      pose proof (u4_bound _ _ _ _ H1 H2 H3 H4) as Hu. cbv zeta.
      destruct ((55296 <=? u4 h1 h2 h3 h4) && (u4 h1 h2 h3 h4 <=? 56319)) eqn:Ehi.
      * assert (Hdef : Forall valid_cp (65533 :: decode f r2)) by (constructor; [exact V65533|apply IH; exact T4]).
        destruct r2 as [|b1 [|b2 [|g1 [|g2 [|g3 [|g4 r']]]]]]; try exact Hdef.
        destruct ((b1 =? 92) && (b2 =? 117) && ((56320 <=? u4 g1 g2 g3 g4) && (u4 g1 g2 g3 g4 <=? 57343))) eqn:Elo; [|exact Hdef].
        constructor; [unfold valid_cp; lia|]. apply IH.
        inversion T4 as [|? ? _ U1]; subst. inversion U1 as [|? ? _ U2]; subst. inversion U2 as [|? ? _ U3]; subst. inversion U3 as [|? ? _ U4]; subst.
        inversion U4 as [|? ? _ U5]; subst. inversion U5 as [|? ? _ U6]; subst. exact U6.
      * destruct ((56320 <=? u4 h1 h2 h3 h4) && (u4 h1 h2 h3 h4 <=? 57343)) eqn:Elo.
        -- constructor; [exact V65533|apply IH; exact T4].
        -- constructor; [unfold valid_cp; lia|apply IH; exact T4].
Qed.
