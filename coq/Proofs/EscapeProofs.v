(* decode (what a JSON string denotes, Model/EnumParse.v) undoes go_escape_cp (encoding/json's string encoder,
   Model/JsonValue.v) on every Unicode scalar value. *)
From Coq Require Import List NArith ZArith Bool Arith Lia ZifyN ZifyBool.
From JS Require Import Base.Res Spec.JsonGrammar Model.EnumParse Model.JsonValue.
Import ListNotations.
Local Open Scope N_scope.
Ltac Zify.zify_post_hook ::= Z.div_mod_to_equations.

Definition valid_cp (c : N) : Prop := c < 55296 \/ (57344 <= c /\ c < 1114112).

(* one step of decode on a byte that does not start an escape *)
Lemma decode_raw f c r : c <> 92 -> decode (S f) (c :: r) = (let (cp, r') := utf8_head c r in cp :: decode f r').
Proof.
  intros Hc. cbn [decode]. destruct c as [|p]; [reflexivity|]. repeat (destruct p as [p|p|]; try reflexivity). congruence.
Qed.
(* one step on a simple escape *)
Lemma decode_simple f e r : e <> 117 ->
  decode (S f) (92 :: e :: r) = (match e with 98 => 8 | 102 => 12 | 110 => 10 | 114 => 13 | 116 => 9 | _ => e end) :: decode f r.
Proof.
  intros He. cbn [decode]. destruct e as [|p]; [reflexivity|]. repeat (destruct p as [p|p|]; try reflexivity). congruence.
Qed.
(* one step on \uXXXX outside the surrogate range *)
Lemma decode_u f h1 h2 h3 h4 r : let u := u4 h1 h2 h3 h4 in (u < 55296 \/ 57344 <= u) ->
  decode (S f) (92 :: 117 :: h1 :: h2 :: h3 :: h4 :: r) = u :: decode f r.
Proof.
  intros u Hu. cbn [decode]. fold u.
  destruct ((55296 <=? u) && (u <=? 56319)) eqn:E1; [exfalso; lia|].
  destruct ((56320 <=? u) && (u <=? 57343)) eqn:E2; [exfalso; lia|]. reflexivity.
Qed.

Lemma hexval_hexdig n : n < 16 -> hexval (hexdig n) = n.
Proof.
  intros H. unfold hexdig, hexval, digit. destruct (n <? 10) eqn:E.
  - assert (H1 : (48 <=? 48 + n) && (48 + n <=? 57) = true) by lia. rewrite H1. lia.
  - assert (H1 : (48 <=? 87 + n) && (87 + n <=? 57) = false) by lia. rewrite H1.
    assert (H2 : (97 <=? 87 + n) = true) by lia. rewrite H2. lia.
Qed.
Lemma u4_escape c : c < 65536 -> u4 (hexdig (c / 4096)) (hexdig ((c / 256) mod 16)) (hexdig ((c / 16) mod 16)) (hexdig (c mod 16)) = c.
Proof.
  intros H. unfold u4. rewrite !hexval_hexdig by lia. lia.
Qed.
Lemma decode_u_escape f c r : c < 65536 -> (c < 55296 \/ 57344 <= c) -> decode (S f) (u_escape c ++ r) = c :: decode f r.
Proof.
  intros H1 H2. unfold u_escape. cbn [app]. rewrite decode_u; rewrite (u4_escape c H1); [reflexivity|exact H2].
Qed.

(* UTF-8: the decoder reads back what the encoder wrote *)
Lemma utf8_roundtrip c r : valid_cp c -> 128 <= c ->
  match utf8_enc c with
  | b :: bs => b <> 92 /\ utf8_head b (bs ++ r) = (c, r)
  | [] => False
  end.
Proof.
  intros Hv H128. unfold utf8_enc.
  destruct (c <? 128) eqn:E0; [lia|].
  destruct (c <? 2048) eqn:E1.
  - split; [lia|]. unfold utf8_head, is_cont. cbn [app].
    assert (A : (192 + c / 64 <? 128) = false) by lia. rewrite A.
    assert (B : (194 <=? 192 + c / 64) && (192 + c / 64 <=? 223) = true) by lia. rewrite B.
    assert (C : (128 <=? 128 + c mod 64) && (128 + c mod 64 <=? 191) = true) by lia. rewrite C. f_equal. lia.
  - destruct (c <? 65536) eqn:E2.
    + split; [lia|]. unfold utf8_head, is_cont. cbn [app].
      assert (A : (224 + c / 4096 <? 128) = false) by lia. rewrite A.
      assert (B : (194 <=? 224 + c / 4096) && (224 + c / 4096 <=? 223) = false) by lia. rewrite B.
      assert (C : (224 <=? 224 + c / 4096) && (224 + c / 4096 <=? 239) = true) by lia. rewrite C.
      destruct Hv as [Hv|Hv].
      * assert (D : ((if 224 + c / 4096 =? 224 then 160 else 128) <=? 128 + (c / 64) mod 64) &&
                    (128 + (c / 64) mod 64 <=? (if 224 + c / 4096 =? 237 then 159 else 191)) &&
                    ((128 <=? 128 + c mod 64) && (128 + c mod 64 <=? 191)) = true).
        { destruct (224 + c / 4096 =? 224) eqn:X1; destruct (224 + c / 4096 =? 237) eqn:X2; lia. }
        rewrite D. f_equal. lia.
      * assert (D : ((if 224 + c / 4096 =? 224 then 160 else 128) <=? 128 + (c / 64) mod 64) &&
                    (128 + (c / 64) mod 64 <=? (if 224 + c / 4096 =? 237 then 159 else 191)) &&
                    ((128 <=? 128 + c mod 64) && (128 + c mod 64 <=? 191)) = true).
        { destruct (224 + c / 4096 =? 224) eqn:X1; destruct (224 + c / 4096 =? 237) eqn:X2; lia. }
        rewrite D. f_equal. lia.
    + assert (Hc : 65536 <= c /\ c < 1114112) by (destruct Hv; lia). split; [lia|]. unfold utf8_head, is_cont. cbn [app].
      assert (A : (240 + c / 262144 <? 128) = false) by lia. rewrite A.
      assert (B : (194 <=? 240 + c / 262144) && (240 + c / 262144 <=? 223) = false) by lia. rewrite B.
      assert (C : (224 <=? 240 + c / 262144) && (240 + c / 262144 <=? 239) = false) by lia. rewrite C.
      assert (C2 : (240 <=? 240 + c / 262144) && (240 + c / 262144 <=? 244) = true) by lia. rewrite C2.
      assert (D : ((if 240 + c / 262144 =? 240 then 144 else 128) <=? 128 + (c / 4096) mod 64) &&
                  (128 + (c / 4096) mod 64 <=? (if 240 + c / 262144 =? 244 then 143 else 191)) &&
                  ((128 <=? 128 + (c / 64) mod 64) && (128 + (c / 64) mod 64 <=? 191)) &&
                  ((128 <=? 128 + c mod 64) && (128 + c mod 64 <=? 191)) = true).
      { destruct (240 + c / 262144 =? 240) eqn:X1; destruct (240 + c / 262144 =? 244) eqn:X2; lia. }
      rewrite D. f_equal. lia.
Qed.

(* the encoder's output for one scalar value is read back as that value, whatever follows *)
Theorem decode_escape_cp f c r : valid_cp c -> decode (S f) (go_escape_cp c ++ r) = c :: decode f r.
Proof.
  intros Hv. unfold go_escape_cp.
  destruct (N.eqb_spec c 34) as [->|H34]; [reflexivity|].
  destruct (N.eqb_spec c 92) as [->|H92]; [reflexivity|].
  destruct (N.eqb_spec c 8) as [->|H8]; [reflexivity|].
  destruct (N.eqb_spec c 12) as [->|H12]; [reflexivity|].
  destruct (N.eqb_spec c 10) as [->|H10]; [reflexivity|].
  destruct (N.eqb_spec c 13) as [->|H13]; [reflexivity|].
  destruct (N.eqb_spec c 9) as [->|H9]; [reflexivity|].
  destruct (c <? 32) eqn:E32; [apply decode_u_escape; lia|].
  destruct ((c =? 60) || (c =? 62) || (c =? 38)) eqn:Eh; [apply decode_u_escape; lia|].
  destruct ((c =? 8232) || (c =? 8233)) eqn:El; [apply decode_u_escape; lia|].
  destruct (c <? 128) eqn:E128.
  - unfold utf8_enc. rewrite E128. cbn [app]. rewrite (decode_raw f c r H92). unfold utf8_head. rewrite E128. reflexivity.
  - pose proof (utf8_roundtrip c r Hv ltac:(lia)) as H. destruct (utf8_enc c) as [|b bs]; [destruct H|]. destruct H as [Hb Hh].
    cbn [app]. rewrite (decode_raw f b (bs ++ r) Hb), Hh. reflexivity.
Qed.

Theorem decode_escape cps : Forall valid_cp cps -> forall f, (length cps <= f)%nat -> decode f (flat_map go_escape_cp cps) = cps.
Proof.
  induction 1 as [|c cps Hc _ IH]; intros f Hf; cbn [flat_map].
  - destruct f; reflexivity.
  - destruct f as [|f]; [cbn [length] in Hf; lia|]. rewrite (decode_escape_cp f c _ Hc). f_equal. apply IH. cbn [length] in Hf. lia.
Qed.
