(* NewNumber as a whole: grammar, value, normal form; String(); LengthOfFractionalPart(). *)
From Coq Require Import List ZArith NArith Bool Lia.
From JS Require Import Base.Res Spec.Decimal Model.Number Proofs.DigitArith Proofs.NumberCmp Proofs.NumberNorm Proofs.NumberScan.
Import ListNotations.
Local Open Scope Z_scope.

(* ---------- nscan in terms of the final registers ---------- *)
Definition post (value : bytes) (il0 fl0 eb : Z) (ng : bool) : res number :=
  do ie <- (if eb =? 0 then Ok (il0, fl0)
            else do e <- parse_int (skipn (Z.to_nat eb) value); Ok (wrap (il0 + e), wrap (fl0 - e)));
  let '(il, fl) := ie in
  do natexp <-
    (if il <? 0 then do _ <- make_bytes fl; Ok (zeros (- il) ++ append_digits value, fl)
     else if fl <? 0 then do _ <- make_bytes il; Ok (append_digits value ++ zeros (- fl), 0)
     else do _ <- make_bytes (wrap (il + fl)); Ok (append_digits value, fl));
  let '(nat, exp) := natexp in
  normalise ng nat exp.

Lemma nscan_unfold s :
  nscan s = match final_regs s with
            | None => Err 1705
            | Some (il, fl, eb, ng) => post s il fl eb ng
            end.
Proof.
  unfold nscan, final_regs, fin_of. destruct (nrun nsc0 0 s) as [st|]; [|reflexivity].
  destruct (finished st); reflexivity.
Qed.

(* ---------- shape of the text ---------- *)
Definition exp_text (ep : option (bytes * option (bool * bytes))) (ec : N) : bytes :=
  match ep with
  | None => []
  | Some (d1, None) => ec :: d1
  | Some (d1, Some (m, d2)) => ec :: d1 ++ (if m then 45%N else 43%N) :: d2
  end.
Definition exp_digits_ok (ep : option (bytes * option (bool * bytes))) : Prop :=
  match ep with
  | None => True
  | Some (d1, None) => all_digits d1
  | Some (d1, Some (_, d2)) => all_digits d1 /\ all_digits d2
  end.
Definition frac_text (fp : option bytes) : bytes := match fp with Some d => 46%N :: d | None => [] end.

Lemma split_exp_shape l : let (ep, r) := split_exp l in
  exists ec, (ep <> None -> is_e ec = true) /\ l = exp_text ep ec ++ r /\ exp_digits_ok ep.
Proof.
  unfold split_exp. destruct l as [|c l]; [exists 0%N; repeat split; auto; congruence|].
  destruct (is_e c) eqn:Ee; [|exists 0%N; repeat split; auto; congruence].
  pose proof (span_spec l) as H1. destruct (span_digits l) as [d1 r1]. destruct H1 as (-> & Hd1 & Hr1).
  destruct r1 as [|s r2].
  - exists c. cbn [exp_text exp_digits_ok]. rewrite !app_nil_r. auto.
  - destruct (N.eqb s 43) eqn:E43; [|destruct (N.eqb s 45) eqn:E45]; cbn [orb].
    + pose proof (span_spec r2) as H2. destruct (span_digits r2) as [d2 r3]. destruct H2 as (-> & Hd2 & _).
      exists c. apply N.eqb_eq in E43. subst s. cbn [N.eqb Pos.eqb exp_text exp_digits_ok].
      repeat split; auto; try (cbn [app]; rewrite <- ?app_assoc; reflexivity).
    + pose proof (span_spec r2) as H2. destruct (span_digits r2) as [d2 r3]. destruct H2 as (-> & Hd2 & _).
      exists c. apply N.eqb_eq in E45. subst s. cbn [exp_text exp_digits_ok].
      repeat split; auto; try (cbn [app]; rewrite <- ?app_assoc; reflexivity).
    + exists c. cbn [exp_text exp_digits_ok]. repeat split; auto.
Qed.

Lemma decompose_shape s : let p := decompose s in
  exists ec, (p_exp p <> None -> is_e ec = true) /\
  s = (if p_neg p then [45%N] else []) ++ p_int p ++ frac_text (p_frac p) ++ exp_text (p_exp p) ec ++ p_rest p /\
  all_digits (p_int p) /\ all_digits (frac_digits (p_frac p)) /\ exp_digits_ok (p_exp p).
Proof.
  rewrite decompose_unfold.
  assert (U : forall neg l, let p := decompose_u neg l in
            exists ec, (p_exp p <> None -> is_e ec = true) /\
            l = p_int p ++ frac_text (p_frac p) ++ exp_text (p_exp p) ec ++ p_rest p /\
            all_digits (p_int p) /\ all_digits (frac_digits (p_frac p)) /\ exp_digits_ok (p_exp p) /\ p_neg p = neg).
  { intros neg l. unfold decompose_u. pose proof (span_spec l) as H1. destruct (span_digits l) as [ip s2].
    destruct H1 as (-> & Hip & _).
    destruct s2 as [|c r].
    - cbn [split_exp]. exists 0%N. cbn. rewrite !app_nil_r. repeat split; auto; try congruence; try constructor.
    - destruct (N.eqb c 46) eqn:E46.
      + pose proof (span_spec r) as H2. destruct (span_digits r) as [d r']. destruct H2 as (-> & Hd & _).
        pose proof (split_exp_shape r') as H3. destruct (split_exp r') as [ep s4]. destruct H3 as (ec & He & -> & Hx).
        exists ec. apply N.eqb_eq in E46. subst c. cbn [p_int p_frac p_exp p_rest p_neg frac_text frac_digits].
        repeat split; auto; try (cbn [app]; rewrite <- ?app_assoc; reflexivity).
      + pose proof (split_exp_shape (c :: r)) as H3. destruct (split_exp (c :: r)) as [ep s4]. destruct H3 as (ec & He & -> & Hx).
        exists ec. cbn [p_int p_frac p_exp p_rest p_neg frac_text frac_digits app].
        repeat split; auto; try constructor. }
  destruct s as [|c r].
  - destruct (U false []) as (ec & H1 & H2 & H3 & H4 & H5 & H6). exists ec. rewrite H6. cbn [app]. auto.
  - destruct (N.eqb c 45) eqn:E.
    + destruct (U true r) as (ec & H1 & H2 & H3 & H4 & H5 & H6). exists ec. rewrite H6.
      apply N.eqb_eq in E. subst c. cbn [app]. repeat split; auto. f_equal. exact H2.
    + destruct (U false (c :: r)) as (ec & H1 & H2 & H3 & H4 & H5 & H6). exists ec. rewrite H6. cbn [app]. auto.
Qed.

(* ---------- ParseUint / ParseInt ---------- *)
Lemma parse_uint_go_ok d : forall u, all_digits d -> 0 <= u -> u * 10 ^ len d + val d <= max_uint ->
  parse_uint_go u d = Ok (u * 10 ^ len d + val d).
Proof.
  induction d as [|c d IH]; intros u Hd Hu Hb.
  - cbn [parse_uint_go]. change (len []) with 0. change (val []) with 0. f_equal. lia.
  - inversion Hd as [|? ? Hc Hd']; subst. cbn [parse_uint_go]. rewrite Hc.
    pose proof (is_digit_dig c Hc) as Hdc. fold (dig c).
    pose proof (len_nonneg d) as Hl. pose proof (val_bound d Hd') as Hv.
    assert (HP : 0 < 10 ^ len d) by (apply Z.pow_pos_nonneg; lia).
    assert (E1 : 10 ^ len (c :: d) = 10 * 10 ^ len d).
    { rewrite len_cons, Z.pow_add_r, Z.pow_1_r by lia. reflexivity. }
    rewrite E1, val_cons in *. remember (10 ^ len d) as P eqn:EP. remember (val d) as v eqn:Ev.
    assert (Hb' : (u * 10 + dig c) * P + v <= max_uint) by (rewrite Z.mul_add_distr_r; lia).
    assert (Hle : u * 10 + dig c <= max_uint).
    { assert ((u * 10 + dig c) * 1 <= (u * 10 + dig c) * P) by (apply Z.mul_le_mono_nonneg_l; lia). lia. }
    destruct (Z.gtb_spec u ((max_uint - dig c) / 10)) as [Hgt|Hle'].
    + exfalso. assert (u <= (max_uint - dig c) / 10) by (apply Z.div_le_lower_bound; lia). lia.
    + rewrite IH; [|assumption|lia|subst P v; exact Hb']. subst P v. f_equal. ring.
Qed.

Lemma parse_uint_go_bad d : forall u c r, all_digits d -> is_digit c = false ->
  is_ok (parse_uint_go u (d ++ c :: r)) = false.
Proof.
  induction d as [|a d IH]; intros u c r Hd Hc.
  - cbn [app parse_uint_go]. rewrite Hc. reflexivity.
  - inversion Hd as [|? ? Ha Hd']; subst. cbn [app parse_uint_go]. rewrite Ha.
    destruct (_ >? _); [reflexivity|]. apply IH; assumption.
Qed.

Definition small (z : Z) : Prop := Z.abs z <= 2 ^ 22.

Lemma parse_int_digits d : all_digits d -> d <> [] -> val d <= 2 ^ 22 -> parse_int d = Ok (val d).
Proof.
  intros Hd Hne Hs. destruct d as [|c d]; [congruence|]. unfold parse_int.
  inversion Hd as [|? ? Hc _]; subst.
  assert (N.eqb c 45 = false) as -> by (apply N.eqb_neq; unfold is_digit in Hc; apply andb_true_iff in Hc; rewrite !N.leb_le in Hc; lia).
  unfold parse_uint. rewrite (parse_uint_go_ok (c :: d) 0 Hd ltac:(lia)) by (unfold max_uint; lia).
  cbn [bind]. replace (0 * 10 ^ len (c :: d) + val (c :: d)) with (val (c :: d)) by lia.
  destruct (Z.gtb_spec (val (c :: d)) max_int); [unfold max_int in *; lia|reflexivity].
Qed.
Lemma parse_int_minus d : all_digits d -> d <> [] -> val d <= 2 ^ 22 -> parse_int (45%N :: d) = Ok (- val d).
Proof.
  intros Hd Hne Hs. unfold parse_int. cbn [N.eqb Pos.eqb]. unfold parse_uint.
  destruct d as [|c d]; [congruence|].
  rewrite (parse_uint_go_ok (c :: d) 0 Hd ltac:(lia)) by (unfold max_uint; lia).
  cbn [bind]. replace (0 * 10 ^ len (c :: d) + val (c :: d)) with (val (c :: d)) by lia.
  destruct (Z.gtb_spec (val (c :: d)) max_int); [unfold max_int in *; lia|reflexivity].
Qed.
Lemma parse_int_bad d1 c r : all_digits d1 -> d1 <> [] -> is_digit c = false ->
  is_ok (parse_int (d1 ++ c :: r)) = false.
Proof.
  intros Hd Hne Hc. destruct d1 as [|a d1]; [congruence|]. inversion Hd as [|? ? Ha Hd']; subst.
  unfold parse_int. cbn [app].
  assert (N.eqb a 45 = false) as -> by (apply N.eqb_neq; unfold is_digit in Ha; apply andb_true_iff in Ha; rewrite !N.leb_le in Ha; lia).
  unfold parse_uint. pose proof (parse_uint_go_bad (a :: d1) 0 c r Hd Hc) as H. cbn [app] in H.
  destruct (parse_uint_go 0 (a :: d1 ++ c :: r)); cbn [bind is_ok] in *; congruence.
Qed.

(* ---------- appendDigits ---------- *)
Lemma append_digits_app d r : all_digits d -> append_digits (d ++ r) = d ++ append_digits r.
Proof.
  induction 1 as [|c d Hc Hd IH]; [reflexivity|]. cbn [app append_digits].
  assert (N.eqb c 45 = false) as -> by (apply N.eqb_neq; unfold is_digit in Hc; apply andb_true_iff in Hc; rewrite !N.leb_le in Hc; lia).
  assert (N.eqb c 46 = false) as -> by (apply N.eqb_neq; unfold is_digit in Hc; apply andb_true_iff in Hc; rewrite !N.leb_le in Hc; lia).
  cbn [orb]. rewrite Hc, IH. reflexivity.
Qed.
Lemma append_digits_stop c r : is_e c = true -> append_digits (c :: r) = [].
Proof.
  intros He. cbn [append_digits]. unfold is_e in He.
  assert (is_digit c = false) as Hd.
  { unfold is_digit. apply orb_true_iff in He. rewrite !N.eqb_eq in He. apply andb_false_iff. rewrite !N.leb_gt. lia. }
  assert (N.eqb c 45 = false) as -> by (apply N.eqb_neq; apply orb_true_iff in He; rewrite !N.eqb_eq in He; lia).
  assert (N.eqb c 46 = false) as -> by (apply N.eqb_neq; apply orb_true_iff in He; rewrite !N.eqb_eq in He; lia).
  cbn [orb]. rewrite Hd. reflexivity.
Qed.

Lemma append_digits_text (neg : bool) ip fp ep ec : all_digits ip -> all_digits (frac_digits fp) ->
  (ep <> None -> is_e ec = true) ->
  append_digits ((if neg then [45%N] else []) ++ ip ++ frac_text fp ++ exp_text ep ec ++ []) = ip ++ frac_digits fp.
Proof.
  intros Hip Hfp He.
  assert (Htail : append_digits (exp_text ep ec ++ []) = []).
  { destruct ep as [[d1 [[m d2]|]]|]; cbn [exp_text app]; try reflexivity; apply append_digits_stop, He; congruence. }
  assert (Hmid : append_digits (ip ++ frac_text fp ++ exp_text ep ec ++ []) = ip ++ frac_digits fp).
  { rewrite append_digits_app by assumption. f_equal. destruct fp as [d|]; cbn [frac_text frac_digits app].
    - cbn [append_digits N.eqb Pos.eqb orb]. rewrite append_digits_app by assumption. rewrite Htail, app_nil_r. reflexivity.
    - exact Htail. }
  destruct neg; [|exact Hmid]. cbn [app append_digits N.eqb Pos.eqb orb]. exact Hmid.
Qed.

(* ---------- decimal values ---------- *)
Lemma deq_shift (a b : dval) K : K <= Z.min (snd a) (snd b) ->
  (deq a b <-> fst a * 10 ^ (snd a - K) = fst b * 10 ^ (snd b - K)).
Proof.
  intros HK. unfold deq, dcmp. rewrite Z.compare_eq_iff.
  set (k := Z.min (snd a) (snd b)).
  assert (Ha : 10 ^ (snd a - K) = 10 ^ (snd a - k) * 10 ^ (k - K)) by (rewrite <- Z.pow_add_r by lia; f_equal; lia).
  assert (Hb : 10 ^ (snd b - K) = 10 ^ (snd b - k) * 10 ^ (k - K)) by (rewrite <- Z.pow_add_r by lia; f_equal; lia).
  rewrite Ha, Hb, !Z.mul_assoc.
  assert (0 < 10 ^ (k - K)) by (apply Z.pow_pos_nonneg; lia).
  split; intros H0; [rewrite H0; reflexivity|]. apply Z.mul_reg_r in H0; [exact H0|lia].
Qed.
Lemma deq_refl a : deq a a.
Proof. unfold deq, dcmp. apply Z.compare_refl. Qed.
Lemma deq_trans a b c : deq a b -> deq b c -> deq a c.
Proof.
  intros H1 H2. set (K := Z.min (snd a) (Z.min (snd b) (snd c))).
  apply (deq_shift a b K) in H1; [|lia]. apply (deq_shift b c K) in H2; [|lia].
  apply (deq_shift a c K); [lia|]. congruence.
Qed.

Lemma wrap_small z : - 2 ^ 62 <= z <= 2 ^ 62 -> wrap z = z.
Proof.
  intros H. unfold wrap. rewrite Z.mod_small; [lia|]. split; [lia|].
  assert (2 ^ 62 < 2 ^ 63) by (apply Z.pow_lt_mono_r; lia).
  assert (2 ^ 63 + 2 ^ 63 = 2 ^ 64) by (change 64 with (63 + 1); rewrite Z.pow_add_r by lia; lia). lia.
Qed.

Lemma skipn_len_app (pre tail : bytes) : skipn (Z.to_nat (len pre)) (pre ++ tail) = tail.
Proof.
  unfold len. rewrite Nat2Z.id. induction pre as [|c pre IH]; [reflexivity|exact IH].
Qed.

(* the final part of Scan (getNatural + the two trims), given the adjusted lengths *)
Lemma natural_ok (ng : bool) ip fd e :
  all_digits ip -> all_digits fd -> small e -> len ip <= 2 ^ 22 -> len fd <= 2 ^ 22 ->
  let il := len ip + e in let fl := len fd - e in
  exists n,
    (do natexp <-
       (if il <? 0 then do _ <- make_bytes fl; Ok (zeros (- il) ++ (ip ++ fd), fl)
        else if fl <? 0 then do _ <- make_bytes il; Ok ((ip ++ fd) ++ zeros (- fl), 0)
        else do _ <- make_bytes (wrap (il + fl)); Ok (ip ++ fd, fl));
     let '(nat, exp) := natexp in normalise ng nat exp) = Ok n
    /\ normal n /\ deq (denote n) ((if ng then - val (ip ++ fd) else val (ip ++ fd)), e - len fd).
Proof.
  intros Hip Hfd He Hli Hlf il fl. unfold small in He.
  pose proof (len_nonneg ip). pose proof (len_nonneg fd).
  assert (P40 : 2 ^ 22 < 2 ^ 24) by (apply Z.pow_lt_mono_r; lia).
  assert (P45 : 2 ^ 24 < 2 ^ 47) by (apply Z.pow_lt_mono_r; lia).
  assert (P23 : 3 * 2 ^ 22 <= 2 ^ 24) by (vm_compute; discriminate).
  assert (P47 : 2 ^ 47 < 2 ^ 62) by (apply Z.pow_lt_mono_r; lia).
  assert (Hd : all_digits (ip ++ fd)) by (apply all_digits_app; auto).
  assert (MB : forall z, 0 <= z <= 2 ^ 24 -> make_bytes z = Ok tt).
  { intros z Hz. unfold make_bytes, max_cap. destruct (Z.ltb_spec z 0); [lia|].
    destruct (Z.gtb_spec z (2 ^ 24)); [lia|]. reflexivity. }
  destruct (Z.ltb_spec il 0) as [Hil|Hil].
  - (* leading zeros *)
    rewrite MB by (subst il fl; lia). cbn [bind].
    destruct (normalise_ok ng (zeros (- il) ++ (ip ++ fd)) fl) as (n & Hn & Hnorm & Hv).
    + apply all_digits_app. split; [apply all_digits_zeros|assumption].
    + unfold zeros. rewrite len_app, len_repeat, len_app. subst il fl. lia.
    + exists n. split; [exact Hn|split; [exact Hnorm|]].
      eapply deq_trans; [exact Hv|]. unfold raw_denote, zeros. rewrite val_app, val_zeros, Z.mul_0_l, Z.add_0_l.
      replace (- fl) with (e - len fd) by (subst fl; lia). apply deq_refl.
  - destruct (Z.ltb_spec fl 0) as [Hfl|Hfl].
    + (* trailing zeros *)
      rewrite MB by (subst il fl; lia). cbn [bind].
      destruct (normalise_ok ng ((ip ++ fd) ++ zeros (- fl)) 0) as (n & Hn & Hnorm & Hv).
      * apply all_digits_app. split; [assumption|apply all_digits_zeros].
      * pose proof (len_nonneg ((ip ++ fd) ++ zeros (- fl))). lia.
      * exists n. split; [exact Hn|split; [exact Hnorm|]].
        eapply deq_trans; [exact Hv|]. unfold raw_denote, zeros.
        apply (deq_shift _ _ 0); cbn [fst snd]; [subst fl; lia|].
        rewrite val_app, val_zeros, len_repeat, Z.add_0_r, Z.sub_0_r, Z.pow_0_r, Z.mul_1_r.
        replace (Z.of_nat (Z.to_nat (- fl))) with (e - len fd - 0) by (subst fl; lia).
        destruct ng; ring.
    + rewrite wrap_small by (subst il fl; lia). rewrite MB by (subst il fl; lia). cbn [bind].
      destruct (normalise_ok ng (ip ++ fd) fl) as (n & Hn & Hnorm & Hv).
      * assumption.
      * rewrite len_app. subst il fl. lia.
      * exists n. split; [exact Hn|split; [exact Hnorm|]].
        eapply deq_trans; [exact Hv|]. unfold raw_denote.
        replace (- fl) with (e - len fd) by (subst fl; lia). apply deq_refl.
Qed.

(* ---------- main theorems ---------- *)
Definition exp_small (s : bytes) : Prop :=
  small (exp_value (p_exp (decompose s))) /\ len s <= 2 ^ 22.

Lemma exp_value_small_parts ep : exp_digits_ok ep -> small (exp_value ep) ->
  match ep with
  | None => True
  | Some (d1, None) => val d1 <= 2 ^ 22
  | Some (_, Some (_, d2)) => val d2 <= 2 ^ 22
  end.
Proof.
  unfold small. destruct ep as [[d1 [[m d2]|]]|]; cbn [exp_value exp_digits_ok]; auto.
  - intros [_ H2] H. pose proof (val_bound d2 H2). destruct m; lia.
  - intros H1 H. pose proof (val_bound d1 H1). lia.
Qed.

Lemma len_parts_le (neg : bool) ip ft et : len ((if neg then [45%N] else []) ++ ip ++ ft ++ et) <= 2 ^ 22 ->
  len ip <= 2 ^ 22 /\ len ft <= 2 ^ 22.
Proof.
  rewrite !len_app. intros H.
  pose proof (len_nonneg ip). pose proof (len_nonneg ft). pose proof (len_nonneg et).
  destruct neg; [change (len [45%N]) with 1 in H|change (len []) with 0 in H]; split; lia.
Qed.

Theorem scan_complete s :
  json_number s = true -> known_F13b s = false -> exp_small s ->
  exists n, nscan s = Ok n /\ normal n /\ deq (denote n) (value_of s).
Proof.
  intros Hj Hk [Hs Hlen]. unfold json_number in Hj. unfold known_F13b in Hk. unfold value_of.
  destruct (decompose_shape s) as (ec & Hec & Hshape & Hip & Hfd & Hed).
  rewrite nscan_unfold, scan_regs_parts. unfold parts_regs.
  set (p := decompose s) in *. destruct p as [neg ip fp ep rest]. cbn [p_neg p_int p_frac p_exp p_rest] in *.
  apply andb_true_iff in Hj. destruct Hj as [Hj Hrest]. apply andb_true_iff in Hj. destruct Hj as [Hj Hexp].
  apply andb_true_iff in Hj. destruct Hj as [Hint Hfrac].
  destruct rest; [|discriminate]. clear Hrest.
  assert (Hloose : loose_exp_ok ep = true).
  { destruct ep as [[d1 [[m d2]|]]|]; cbn in *; auto. apply andb_true_iff in Hexp. tauto. }
  assert (Hf13 : f13b_shape ip fp ep = false) by exact Hk.
  rewrite Hint, Hfrac, Hloose, Hf13. cbn [andb negb nonempty].
  pose proof (exp_value_small_parts ep Hed Hs) as Hsm.
  assert (Hlens : len ip <= 2 ^ 22 /\ len (frac_digits fp) <= 2 ^ 22).
  { rewrite Hshape in Hlen. apply len_parts_le in Hlen. destruct Hlen as [H1 H2]. split; [exact H1|].
    destruct fp; cbn [frac_text frac_digits] in *; [rewrite len_cons in H2; lia|change (len []) with 0; lia]. }
  destruct Hlens as [Hli Hlf].
  (* the exponent *)
  assert (Hie : (if eb_of (if neg then 1 else 0) ip fp ep =? 0 then Ok (len ip, len (frac_digits fp))
                 else do e <- parse_int (skipn (Z.to_nat (eb_of (if neg then 1 else 0) ip fp ep)) s);
                      Ok (wrap (len ip + e), wrap (len (frac_digits fp) - e)))
                = Ok (len ip + exp_value ep, len (frac_digits fp) - exp_value ep)).
  { pose proof (len_nonneg ip). pose proof (len_nonneg (frac_digits fp)).
    assert (P40 : 2 ^ 22 < 2 ^ 62) by (apply Z.pow_lt_mono_r; lia). unfold small in Hs.
    destruct ep as [[d1 [[m d2]|]]|].
    - (* sign + digits *)
      cbn [exp_ok] in Hexp. apply andb_true_iff in Hexp. destruct Hexp as [Hd1 Hd2].
      destruct d1; [|discriminate]. destruct Hed as [_ Hed2].
      set (pre := (if neg then [45%N] else []) ++ ip ++ frac_text fp ++ [ec]).
      assert (Hpre : len pre = (if neg then 1 else 0) + len ip + match fp with Some d => 1 + len d | None => 0 end + 1).
      { unfold pre. rewrite !len_app. destruct neg, fp; cbn [frac_text]; rewrite ?len_cons; change (len []) with 0; lia. }
      assert (Hpos : 0 < len pre).
      { rewrite Hpre. destruct neg, fp; pose proof (len_nonneg ip); try pose proof (len_nonneg b); lia. }
      cbn [eb_of nonempty exp_value]. rewrite <- Hpre.
      assert (Hs' : s = pre ++ (if m then 45%N else 43%N) :: d2).
      { rewrite Hshape. unfold pre. cbn [exp_text app]. rewrite <- !app_assoc. cbn [app]. rewrite app_nil_r. reflexivity. }
      assert (Hne2 : d2 <> []) by (destruct d2; [discriminate|congruence]).
      cbn beta iota in Hsm. destruct m.
      + destruct (Z.eqb_spec (len pre) 0); [lia|]. rewrite Hs' at 1. rewrite skipn_len_app.
        rewrite (parse_int_minus d2 Hed2 Hne2 Hsm). cbn [bind].
        rewrite !wrap_small by (pose proof (val_bound d2 Hed2); cbn [exp_value] in Hs; lia). reflexivity.
      + destruct (Z.eqb_spec (len pre + 1) 0); [lia|].
        assert (Hs'' : s = (pre ++ [43%N]) ++ d2) by (rewrite Hs', <- app_assoc; reflexivity).
        replace (len pre + 1) with (len (pre ++ [43%N])) by (rewrite len_app; reflexivity).
        rewrite Hs'' at 1. rewrite skipn_len_app.
        rewrite (parse_int_digits d2 Hed2 Hne2 Hsm). cbn [bind].
        rewrite !wrap_small by (pose proof (val_bound d2 Hed2); cbn [exp_value] in Hs; lia). reflexivity.
    - (* digits *)
      cbn [exp_ok] in Hexp.
      set (pre := (if neg then [45%N] else []) ++ ip ++ frac_text fp ++ [ec]).
      assert (Hpre : len pre = (if neg then 1 else 0) + len ip + match fp with Some d => 1 + len d | None => 0 end + 1).
      { unfold pre. rewrite !len_app. destruct neg, fp; cbn [frac_text]; rewrite ?len_cons; change (len []) with 0; lia. }
      assert (Hpos : 0 < len pre).
      { rewrite Hpre. destruct neg, fp; pose proof (len_nonneg ip); try pose proof (len_nonneg b); lia. }
      cbn [eb_of exp_value]. rewrite <- Hpre.
      assert (Hs' : s = pre ++ d1).
      { rewrite Hshape. unfold pre. cbn [exp_text app]. rewrite <- !app_assoc. cbn [app]. rewrite app_nil_r. reflexivity. }
      destruct (Z.eqb_spec (len pre) 0); [lia|].
      rewrite Hs' at 1. rewrite skipn_len_app.
      cbn [exp_digits_ok] in Hed. assert (Hne1 : d1 <> []) by (destruct d1; [discriminate|congruence]).
      cbn beta iota in Hsm. rewrite (parse_int_digits d1 Hed Hne1 Hsm). cbn [bind].
      rewrite !wrap_small by (pose proof (val_bound d1 Hed); cbn [exp_value] in Hs; lia). reflexivity.
    - cbn [eb_of exp_value Z.eqb]. rewrite Z.add_0_r, Z.sub_0_r. reflexivity. }
  unfold post. rewrite Hie. cbn [bind].
  assert (Had : append_digits s = ip ++ frac_digits fp).
  { rewrite Hshape. apply append_digits_text; assumption. }
  rewrite Had.
  exact (natural_ok neg ip (frac_digits fp) (exp_value ep) Hip Hfd Hs Hli Hlf).
Qed.

Lemma post_needs_exp s il fl eb ng n : post s il fl eb ng = Ok n -> eb <> 0 ->
  is_ok (parse_int (skipn (Z.to_nat eb) s)) = true.
Proof.
  unfold post. intros H Heb. destruct (Z.eqb_spec eb 0); [contradiction|].
  destruct (parse_int (skipn (Z.to_nat eb) s)); [reflexivity|discriminate|discriminate].
Qed.

Theorem scan_sound s n : nscan s = Ok n -> json_number s = true /\ known_F13b s = false.
Proof.
  intros H. rewrite nscan_unfold, scan_regs_parts in H. unfold parts_regs in H.
  destruct (decompose_shape s) as (ec & Hec & Hshape & Hip & Hfd & Hed).
  unfold json_number, known_F13b.
  set (p := decompose s) in *. destruct p as [neg ip fp ep rest]. cbn [p_neg p_int p_frac p_exp p_rest] in *.
  destruct (int_ok ip) eqn:Hint; [|discriminate]. destruct (frac_ok fp) eqn:Hfrac; [|discriminate].
  destruct (loose_exp_ok ep) eqn:Hloose; [|discriminate]. destruct rest; [|discriminate].
  cbn [andb negb nonempty] in *.
  destruct (f13b_shape ip fp ep) eqn:Hf; [discriminate|]. cbn [negb] in H.
  split; [|exact Hf]. rewrite andb_true_r.
  destruct ep as [[d1 [[m d2]|]]|]; cbn [exp_ok loose_exp_ok] in *; try assumption; try reflexivity.
  (* digits, sign, digits: the machine lets it pass, ParseInt does not *)
  rewrite Hloose, andb_true_r. destruct d1 as [|a d1]; [reflexivity|exfalso].
  cbn [eb_of nonempty] in H. destruct Hed as [Hd1 Hd2].
  set (pre := (if neg then [45%N] else []) ++ ip ++ frac_text fp ++ [ec]) in *.
  assert (Hpre : len pre = (if neg then 1 else 0) + len ip + match fp with Some d => 1 + len d | None => 0 end + 1).
  { unfold pre. rewrite !len_app. destruct neg, fp; cbn [frac_text]; rewrite ?len_cons; change (len []) with 0; lia. }
  assert (Hpos : 0 < len pre).
  { rewrite Hpre. destruct neg, fp; pose proof (len_nonneg ip); try pose proof (len_nonneg b); lia. }
  rewrite <- Hpre in H.
  assert (Hs' : s = pre ++ (a :: d1) ++ (if m then 45%N else 43%N) :: d2).
  { rewrite Hshape. unfold pre. cbn [exp_text app]. rewrite <- !app_assoc. cbn [app]. rewrite app_nil_r. reflexivity. }
  apply post_needs_exp in H; [|lia]. rewrite Hs' in H at 1. rewrite skipn_len_app in H.
  rewrite parse_int_bad in H; [discriminate|assumption|discriminate|destruct m; reflexivity].
Qed.

(* ---------- String() and LengthOfFractionalPart() ---------- *)
Lemma decompose_plain (neg : bool) Ip F : all_digits Ip -> Ip <> [] -> all_digits F ->
  decompose ((if neg then [45%N] else []) ++ Ip ++ match F with [] => [] | _ => 46%N :: F end)
  = mk_parts neg Ip (match F with [] => None | _ => Some F end) None [].
Proof.
  intros HIp Hne HF. rewrite decompose_unfold.
  assert (U : decompose_u neg (Ip ++ match F with [] => [] | _ => 46%N :: F end)
              = mk_parts neg Ip (match F with [] => None | _ => Some F end) None []).
  { unfold decompose_u. destruct F as [|f F].
    - rewrite app_nil_r. rewrite <- (app_nil_r Ip) at 1. rewrite (span_of_digits Ip [] HIp I). reflexivity.
    - rewrite (span_of_digits Ip (46%N :: f :: F) HIp eq_refl). cbn [N.eqb Pos.eqb].
      rewrite <- (app_nil_r (f :: F)) at 1. rewrite (span_of_digits (f :: F) [] HF I). reflexivity. }
  destruct Ip as [|c Ip']; [congruence|]. inversion HIp as [|? ? Hc _]; subst.
  assert (Hc45 : N.eqb c 45 = false) by (apply N.eqb_neq; unfold is_digit in Hc; apply andb_true_iff in Hc; rewrite !N.leb_le in Hc; lia).
  destruct neg; cbn [app].
  - cbn [N.eqb Pos.eqb]. exact U.
  - rewrite Hc45. exact U.
Qed.

Theorem to_string_ok n : normal n ->
  json_number (to_string n) = true /\ known_F13b (to_string n) = false /\ deq (value_of (to_string n)) (denote n).
Proof.
  intros Hn. pose proof Hn as (Hd & He & Hz & Hl & Hneg).
  destruct (normal_parts n Hn) as (Hi & Hf & Hzi). destruct (parts_of n He) as (Hs & Hlf & Hli).
  set (Ip := match int_part n with [] => [48%N] | _ :: _ => int_part n end).
  assert (HIp : all_digits Ip) by (unfold Ip; destruct (int_part n); [repeat constructor|assumption]).
  assert (HIpne : Ip <> []) by (unfold Ip; destruct (int_part n); discriminate).
  assert (HvIp : val Ip = val (int_part n)) by (unfold Ip; destruct (int_part n); reflexivity).
  assert (Hok : int_ok Ip = true).
  { unfold Ip. destruct (int_part n) as [|c r] eqn:E; [reflexivity|]. cbn [int_ok].
    specialize (Hzi c r eq_refl). apply N.eqb_neq in Hzi. rewrite Hzi. reflexivity. }
  assert (Hdec := decompose_plain (nneg n) Ip (fra_part n) HIp HIpne Hf).
  assert (Heq : to_string n
                = (if nneg n then [45%N] else []) ++ Ip ++ match fra_part n with [] => [] | _ :: _ => 46%N :: fra_part n end).
  { unfold to_string, Ip. destruct (int_part n), (fra_part n); reflexivity. }
  rewrite Heq. unfold json_number, known_F13b, value_of. rewrite Hdec. cbn [p_neg p_int p_frac p_exp p_rest].
  split; [|split].
  - rewrite Hok. destruct (fra_part n); reflexivity.
  - destruct Ip as [|a [|b t]]; try reflexivity. destruct (fra_part n); reflexivity.
  - unfold denote. cbn [exp_value].
    assert (Hfd : frac_digits (match fra_part n with [] => None | _ :: _ => Some (fra_part n) end) = fra_part n)
      by (destruct (fra_part n); reflexivity).
    rewrite Hfd. replace (0 - Z.of_nat (length (fra_part n))) with (- nexp n) by (unfold len in Hlf; lia).
    rewrite val_app, HvIp.
    assert (Hv : val (nnat n) = val (int_part n) * 10 ^ len (fra_part n) + val (fra_part n)) by (rewrite Hs at 1; apply val_app).
    rewrite Hv. apply deq_refl.
Qed.

(* LengthOfFractionalPart is the number of significant fraction digits:
   value * 10^k is an integer exactly for k >= nexp n *)
Theorem frac_len_minimal n : normal n ->
  0 <= frac_len n /\ forall k, 0 <= k < frac_len n -> ~ (10 ^ (frac_len n - k) | val (nnat n)).
Proof.
  intros (Hd & He & _ & Hl & _). unfold frac_len. split; [lia|]. intros k Hk Hdiv.
  destruct (Hl ltac:(lia)) as (l & c & Hlc & Hc). rewrite Hlc in Hd, Hdiv.
  apply all_digits_app in Hd. destruct Hd as [Hdl Hdc]. inversion Hdc as [|? ? Hcd _]; subst.
  rewrite val_app in Hdiv. change (len [c]) with 1 in Hdiv. rewrite Z.pow_1_r in Hdiv.
  change (val [c]) with (0 * 10 + dig c) in Hdiv.
  pose proof (is_digit_dig c Hcd). assert (dig c <> 0) by (rewrite dig_zero; assumption).
  assert (H10 : (10 | 10 ^ (nexp n - k))).
  { replace (nexp n - k) with (1 + (nexp n - k - 1)) by lia. rewrite Z.pow_add_r, Z.pow_1_r by lia. apply Z.divide_factor_l. }
  pose proof (Z.divide_trans _ _ _ H10 Hdiv) as [q Hq]. lia.
Qed.

(* ---------- end to end: comparison of two accepted texts ---------- *)
Lemma dcmp_shift (a b : dval) K : K <= Z.min (snd a) (snd b) ->
  dcmp a b = (fst a * 10 ^ (snd a - K) ?= fst b * 10 ^ (snd b - K)).
Proof.
  intros HK. unfold dcmp. set (k := Z.min (snd a) (snd b)).
  assert (Ha : 10 ^ (snd a - K) = 10 ^ (snd a - k) * 10 ^ (k - K)) by (rewrite <- Z.pow_add_r by lia; f_equal; lia).
  assert (Hb : 10 ^ (snd b - K) = 10 ^ (snd b - k) * 10 ^ (k - K)) by (rewrite <- Z.pow_add_r by lia; f_equal; lia).
  rewrite Ha, Hb, !Z.mul_assoc.
  assert (0 < 10 ^ (k - K)) by (apply Z.pow_pos_nonneg; lia).
  apply Zmult_compare_compat_r. lia.
Qed.
Lemma dcmp_compat a a' b b' : deq a a' -> deq b b' -> dcmp a b = dcmp a' b'.
Proof.
  intros Ha Hb. set (K := Z.min (Z.min (snd a) (snd a')) (Z.min (snd b) (snd b'))).
  rewrite (dcmp_shift a b K), (dcmp_shift a' b' K) by lia.
  apply (deq_shift a a' K) in Ha; [|lia]. apply (deq_shift b b' K) in Hb; [|lia].
  rewrite Ha, Hb. reflexivity.
Qed.

Theorem scan_value s n : exp_small s -> nscan s = Ok n -> normal n /\ deq (denote n) (value_of s).
Proof.
  intros Hs H. destruct (scan_sound s n H) as [Hj Hk].
  destruct (scan_complete s Hj Hk Hs) as (n' & Hn' & Hnorm & Hv). rewrite H in Hn'. inversion Hn'; subst. auto.
Qed.

Theorem cmp_texts s1 s2 n1 n2 : exp_small s1 -> exp_small s2 -> nscan s1 = Ok n1 -> nscan s2 = Ok n2 ->
  ncmp n1 n2 = cmp_to_Z (dcmp (value_of s1) (value_of s2)).
Proof.
  intros E1 E2 H1 H2. destruct (scan_value s1 n1 E1 H1) as [N1 V1]. destruct (scan_value s2 n2 E2 H2) as [N2 V2].
  rewrite (ncmp_exact n1 n2 N1 N2). f_equal. apply dcmp_compat; assumption.
Qed.
