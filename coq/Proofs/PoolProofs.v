From Coq Require Import String List NArith Bool.
From JS Require Import Model.Pools Gen.PoolSites Spec.TypeVocab.
Import ListNotations.

(* If every site returns a copy, whatever was returned reads the same after any further history. *)
Lemma observe_copy s s' b : observe s (RCopy b) = observe s' (RCopy b).
Proof. reflexivity. Qed.

Lemma run_all_copy : forall h s, Forall (fun c => snd c = Copy) h ->
  Forall (fun r => exists b, r = RCopy b) (snd (run s h)).
Proof.
  induction h as [|[[c o] k] h IH]; intros s Hall; cbn [run]; [constructor|].
  inversion Hall as [|? ? Hk Hr]; subst. cbn in Hk. subst k.
  destruct (call s c o Copy) as [s1 x] eqn:Ec. specialize (IH s1 Hr). destruct (run s1 h) as [s2 xs]. cbn [snd] in *.
  constructor; [|exact IH]. unfold call in Ec.
  destruct (match c with Some i => _ | None => _ end) as [i s0]. inversion Ec; subst. eauto.
Qed.

Theorem copies_are_immutable h1 h2 s :
  Forall (fun c => snd c = Copy) h1 ->
  let (s1, rs) := run s h1 in
  let (s2, _) := run s1 h2 in
  Forall (fun r => observe s1 r = observe s2 r) rs.
Proof.
  intros Hall. pose proof (run_all_copy h1 s Hall) as H. destruct (run s h1) as [s1 rs]. cbn [snd] in H.
  destruct (run s1 h2) as [s2 xs]. apply Forall_forall. intros r Hr. rewrite Forall_forall in H.
  destruct (H r Hr) as [b ->]. reflexivity.
Qed.

(* ... and a single View site is enough to break it: two calls, the second reuses the buffer *)
Theorem view_is_overwritten :
  exists h1 h2, let (s1, rs) := run p0 h1 in let (s2, _) := run s1 h2 in
                exists r, In r rs /\ observe s1 r <> observe s2 r.
Proof.
  exists [(None, [1; 2; 3]%N, View)], [(Some 0, [9; 9; 9]%N, View)]. cbn. eexists. split; [left; reflexivity|]. cbn. discriminate.
Qed.

(* the sites of the repository, regenerated on every run *)
Definition site_ok (s : string * string * list bool * bool) : bool :=
  forallb negb (snd (fst s)) && snd s.
Lemma sites_copy : forall s, In s pool_sites -> site_ok s = true.
Proof. assert (H : forallb site_ok pool_sites = true) by (vm_compute; reflexivity). intros s Hs. rewrite forallb_forall in H. auto. Qed.
Lemma loader_reset_total : forall f, In f loader_fields -> smem f loader_reset_fields = true.
Proof.
  assert (H : forallb (fun f => smem f loader_reset_fields) loader_fields = true) by (vm_compute; reflexivity).
  intros f Hf. rewrite forallb_forall in H. auto.
Qed.

(* --- ownership --- *)
From Coq Require Import Arith Lia.
Definition OInv (s : ostate) : Prop := NoDup (opool s ++ oheld s) /\ forall i, In i (opool s ++ oheld s) -> i < onext s.

Lemma existsb_In i l : existsb (Nat.eqb i) l = true <-> In i l.
Proof. rewrite existsb_exists. split; [intros (x & Hx & He); apply Nat.eqb_eq in He; subst; exact Hx|intros H; exists i; split; [exact H|apply Nat.eqb_refl]]. Qed.
Lemma remove1_In i j l : In j (remove1 i l) -> In j l.
Proof. induction l as [|k r IH]; cbn; [auto|]. destruct (Nat.eqb i k); [auto|]. intros [H|H]; auto. Qed.
Lemma remove1_NoDup i l : NoDup l -> NoDup (remove1 i l) /\ ~ In i (remove1 i l).
Proof.
  induction l as [|k r IH]; cbn; intros H; [split; [constructor|auto]|].
  inversion H as [|? ? Hk Hr]; subst. destruct (Nat.eqb_spec i k) as [->|Hne]; [split; assumption|].
  destruct (IH Hr) as [H1 H2]. split.
  - constructor; [intros Hin; apply Hk; eapply remove1_In; exact Hin|exact H1].
  - intros [Heq|Hin]; [congruence|auto].
Qed.
Lemma NoDup_app_l {A} (l1 l2 : list A) : NoDup (l1 ++ l2) -> NoDup l1.
Proof. induction l1 as [|a l IH]; cbn; intros H; [constructor|]. inversion H; subst. constructor; [rewrite in_app_iff in *; tauto|auto]. Qed.
Lemma NoDup_app_r {A} (l1 l2 : list A) : NoDup (l1 ++ l2) -> NoDup l2.
Proof. induction l1 as [|a l IH]; cbn; intros H; [exact H|]. inversion H; auto. Qed.
Lemma NoDup_app_disj {A} (l1 l2 : list A) x : NoDup (l1 ++ l2) -> In x l1 -> In x l2 -> False.
Proof.
  induction l1 as [|a l IH]; cbn; intros H H1 H2; [auto|]. inversion H as [|? ? Ha Hl]; subst.
  destruct H1 as [->|H1]; [apply Ha; rewrite in_app_iff; auto|eauto].
Qed.
Lemma NoDup_app_build {A} (l1 l2 : list A) : NoDup l1 -> NoDup l2 -> (forall x, In x l1 -> In x l2 -> False) -> NoDup (l1 ++ l2).
Proof.
  induction l1 as [|a l IH]; cbn; intros H1 H2 Hd; [exact H2|]. inversion H1; subst.
  constructor; [rewrite in_app_iff; intros [H|H]; [auto|eapply Hd; [left; reflexivity|exact H]]|apply IH; auto].
  intros x Hx; apply Hd; right; exact Hx.
Qed.

(* one step keeps the invariant, provided a Put gives back a held buffer *)
Lemma ostep_inv s e : OInv s ->
  (match e with EPut i => existsb (Nat.eqb i) (oheld s) | EGet _ => true end) = true -> OInv (fst (ostep s e)).
Proof.
  intros [Hnd Hlt] Hd. pose proof (NoDup_app_l _ _ Hnd) as Hp. pose proof (NoDup_app_r _ _ Hnd) as Hh.
  destruct e as [c|i]; cbn [ostep].
  - destruct (match c with Some i => _ | None => None end) as [i|] eqn:Ec; cbn [fst opool oheld onext].
    + assert (Hi : In i (opool s)).
      { destruct c as [j|]; [|discriminate]. destruct (existsb (Nat.eqb j) (opool s)) eqn:E; [|discriminate]. inversion Ec; subst. apply existsb_In; exact E. }
      destruct (remove1_NoDup i _ Hp) as [Hr1 Hr2]. split.
      * apply NoDup_app_build; [exact Hr1| |].
        -- constructor; [intros Hin; exact (NoDup_app_disj _ _ i Hnd Hi Hin)|exact Hh].
        -- intros x Hx [<-|Hx2]; [auto|]. apply (NoDup_app_disj _ _ x Hnd); [eapply remove1_In; exact Hx|exact Hx2].
      * intros x Hx. apply Hlt. rewrite in_app_iff in *. destruct Hx as [Hx|[<-|Hx]]; [left; eapply remove1_In; exact Hx|left; exact Hi|right; exact Hx].
    + split.
      * apply NoDup_app_build; [exact Hp| |].
        -- constructor; [intros Hin; assert (onext s < onext s) by (apply Hlt; rewrite in_app_iff; auto); lia|exact Hh].
        -- intros x Hx [<-|Hx2]; [assert (onext s < onext s) by (apply Hlt; rewrite in_app_iff; auto); lia|exact (NoDup_app_disj _ _ x Hnd Hx Hx2)].
      * cbn [opool oheld onext]. intros x Hx. rewrite in_app_iff in Hx. destruct Hx as [Hx|[<-|Hx]]; [| lia |]; (assert (x < onext s) by (apply Hlt; rewrite in_app_iff; auto); lia).
  - cbn [fst opool oheld onext]. apply existsb_In in Hd. destruct (remove1_NoDup i _ Hh) as [Hr1 Hr2]. split.
    + cbn [app]. constructor.
      * rewrite in_app_iff. intros [Hin|Hin]; [exact (NoDup_app_disj _ _ i Hnd Hin Hd)|auto].
      * apply NoDup_app_build; [exact Hp|exact Hr1|]. intros x Hx Hx2. apply (NoDup_app_disj _ _ x Hnd Hx). eapply remove1_In; exact Hx2.
    + intros x Hx. apply Hlt. cbn [app] in Hx. apply in_or_app. destruct Hx as [<-|Hx]; [right; exact Hd|]. apply in_app_or in Hx. destruct Hx as [Hx|Hx]; [left; exact Hx|right; eapply remove1_In; exact Hx].
Qed.

Lemma o0_inv : OInv o0.
Proof. split; [constructor|intros i []]. Qed.

Lemma orun_inv t : forall s, OInv s -> disciplined s t = true -> OInv (orun s t).
Proof.
  induction t as [|e r IH]; intros s Hs Hd; cbn [orun]; [exact Hs|]. cbn [disciplined] in Hd. apply andb_true_iff in Hd. destruct Hd as [H1 H2].
  apply IH; [apply ostep_inv; assumption|exact H2].
Qed.

(* exclusive ownership: under the discipline no Get ever hands out a buffer somebody still holds *)
Theorem get_exclusive t c :
  disciplined o0 t = true ->
  forall i, snd (ostep (orun o0 t) (EGet c)) = Some i -> ~ In i (oheld (orun o0 t)).
Proof.
  intros Hd i Hget. pose proof (orun_inv t o0 o0_inv Hd) as [Hnd Hlt]. set (s := orun o0 t) in *. cbn [ostep] in Hget.
  destruct (match c with Some i => _ | None => None end) as [j|] eqn:Ec; cbn [snd] in Hget; inversion Hget; subst.
  - destruct c as [k|]; [|discriminate]. destruct (existsb (Nat.eqb k) (opool s)) eqn:E; [|discriminate]. inversion Ec; subst.
    apply existsb_In in E. intros Hin. exact (NoDup_app_disj _ _ i Hnd E Hin).
  - intros Hin. assert (onext s < onext s) by (apply Hlt; rewrite in_app_iff; auto). lia.
Qed.

(* ... and one extra Put is enough to break it: the same buffer is handed to two holders *)
Theorem double_put_shares :
  exists t c i, snd (ostep (orun o0 t) (EGet c)) = Some i /\ In i (oheld (orun o0 t)).
Proof. exists [EGet None; EPut 0; EPut 0; EGet (Some 0)], (Some 0), 0. cbn. auto. Qed.
