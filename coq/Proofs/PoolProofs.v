From Coq Require Import String List NArith Bool.
From JS Require Import Model.Pools Gen.PoolSites Spec.TypeVocab.
Import ListNotations.

(* If every site returns a copy, whatever was returned reads the same after any further history. *)
Lemma observe_copy s s' b : observe s (RCopy b) = observe s' (RCopy b).
Proof. reflexivity. Qed.

Lemma run_all_copy : forall h s, Forall (fun c => snd c = Copy) h ->
  Forall (fun r => exists b, r = RCopy b) (snd (run s h)).
Proof.
  induction h as [|[[c o] k] h IH]; intros s Hall; cbn [run]; [constructor|].
  inversion Hall as [|? ? Hk Hr]; subst. cbn in Hk. subst k.
  destruct (call s c o Copy) as [s1 x] eqn:Ec. specialize (IH s1 Hr). destruct (run s1 h) as [s2 xs]. cbn [snd] in *.
  constructor; [|exact IH]. unfold call in Ec.
  destruct (match c with Some i => _ | None => _ end) as [i s0]. inversion Ec; subst. eauto.
Qed.

Theorem copies_are_immutable h1 h2 s :
  Forall (fun c => snd c = Copy) h1 ->
  let (s1, rs) := run s h1 in
  let (s2, _) := run s1 h2 in
  Forall (fun r => observe s1 r = observe s2 r) rs.
Proof.
  intros Hall. pose proof (run_all_copy h1 s Hall) as H. destruct (run s h1) as [s1 rs]. cbn [snd] in H.
  destruct (run s1 h2) as [s2 xs]. apply Forall_forall. intros r Hr. rewrite Forall_forall in H.
  destruct (H r Hr) as [b ->]. reflexivity.
Qed.

(* ... and a single View site is enough to break it: two calls, the second reuses the buffer *)
Theorem view_is_overwritten :
  exists h1 h2, let (s1, rs) := run p0 h1 in let (s2, _) := run s1 h2 in
                exists r, In r rs /\ observe s1 r <> observe s2 r.
Proof.
  exists [(None, [1; 2; 3]%N, View)], [(Some 0, [9; 9; 9]%N, View)]. cbn. eexists. split; [left; reflexivity|]. cbn. discriminate.
Qed.

(* the sites of the repository, regenerated on every run *)
Definition site_ok (s : string * string * list bool * bool) : bool :=
  forallb negb (snd (fst s)) && snd s.
Lemma sites_copy : forall s, In s pool_sites -> site_ok s = true.
Proof. assert (H : forallb site_ok pool_sites = true) by (vm_compute; reflexivity). intros s Hs. rewrite forallb_forall in H. auto. Qed.
Lemma loader_reset_total : forall f, In f loader_fields -> smem f loader_reset_fields = true.
Proof.
  assert (H : forallb (fun f => smem f loader_reset_fields) loader_fields = true) by (vm_compute; reflexivity).
  intros f Hf. rewrite forallb_forall in H. auto.
Qed.
