From Coq Require Import List ZArith NArith Bool Lia.
From JS Require Import Base.Res Spec.Decimal Model.Number Proofs.DigitArith Proofs.NumberCmp Proofs.NumberNorm Proofs.NumberScan Proofs.NumberMain.
Import ListNotations.
Local Open Scope Z_scope.

Definition np {A} (r : res A) : Prop := match r with Panic _ => False | _ => True end.
Lemma bind_np {A B} (r : res A) (k : A -> res B) : np r -> (forall a, np (k a)) -> np (bind r k).
Proof. destruct r; cbn; auto. Qed.

Lemma parse_uint_go_np l : forall u, np (parse_uint_go u l).
Proof. induction l as [|c r IH]; intros u; cbn [parse_uint_go]; [exact I|]. destruct (is_digit c); [|exact I]. destruct (_ >? _); [exact I|apply IH]. Qed.
Lemma parse_uint_np l : np (parse_uint l).
Proof. unfold parse_uint. destruct l; [exact I|apply parse_uint_go_np]. Qed.
Lemma parse_int_np l : l <> [] -> np (parse_int l).
Proof.
  intros Hl. unfold parse_int. destruct l as [|c r]; [congruence|].
  apply bind_np; [destruct (N.eqb c 45); apply parse_uint_np|]. intros u. destruct (u >? max_int); exact I.
Qed.
Lemma make_bytes_np n : np (make_bytes n).
Proof. unfold make_bytes. destruct (_ || _); exact I. Qed.
Lemma normalise_np ng nat exp : np (normalise ng nat exp).
Proof.
  unfold normalise. destruct (_ || _); [exact I|]. destruct (_ || _); [exact I|].
  destruct (trim_trail_rev _ _). exact I.
Qed.
Lemma post_np s il fl eb ng : (eb <> 0 -> skipn (Z.to_nat eb) s <> []) -> np (post s il fl eb ng).
Proof.
  intros H. unfold post. apply bind_np.
  - destruct (Z.eqb_spec eb 0); [exact I|]. apply bind_np; [apply parse_int_np; auto|intros; exact I].
  - intros [il' fl']. apply bind_np.
    + destruct (il' <? 0); [apply bind_np; [apply make_bytes_np|intros; exact I]|].
      destruct (fl' <? 0); apply bind_np; try apply make_bytes_np; intros; exact I.
    + intros [nat exp]. apply normalise_np.
Qed.

(* NewNumber always answers - a number or an error - for every byte string: no index out of range in the exponent,
   no allocation beyond the limit *)
Theorem nscan_total s : np (nscan s).
Proof.
  rewrite nscan_unfold, scan_regs_parts. unfold parts_regs.
  destruct (decompose_shape s) as (ec & Hec & Hshape & _).
  set (p := decompose s) in *. destruct p as [neg ip fp ep rest]. cbn [p_neg p_int p_frac p_exp p_rest] in *.
  destruct (int_ok ip && frac_ok fp && loose_exp_ok ep && negb (nonempty rest) && negb (f13b_shape ip fp ep)) eqn:Ec; [|exact I].
  apply andb_true_iff in Ec. destruct Ec as [Ec _]. apply andb_true_iff in Ec. destruct Ec as [Ec Hrest].
  apply andb_true_iff in Ec. destruct Ec as [_ Hloose].
  destruct rest; [|discriminate]. rewrite app_nil_r in Hshape.
  apply post_np. intros Heb.
  set (i := if neg then 1 else 0) in *.
  set (pre := (if neg then [45%N] else []) ++ ip ++ frac_text fp).
  assert (Hpre : len pre = i + len ip + match fp with Some d => 1 + len d | None => 0 end).
  { unfold pre, i. rewrite !len_app. destruct neg, fp; cbn [frac_text]; rewrite ?len_cons; change (len []) with 0; lia. }
  assert (Hs : s = pre ++ exp_text ep ec) by (unfold pre; rewrite <- !app_assoc; exact Hshape).
  pose proof (len_nonneg pre) as Hp0.
  destruct ep as [[d1 [[m d2]|]]|]; cbn [eb_of exp_text loose_exp_ok] in *.
  - (* e d1 sign d2 *)
    destruct (nonempty d1) eqn:En.
    + replace (i + len ip + match fp with Some d => 1 + len d | None => 0 end + 1) with (len (pre ++ [ec])) by (rewrite len_app, len_cons; change (len []) with 0; lia).
      rewrite Hs. replace (pre ++ ec :: d1 ++ (if m then 45%N else 43%N) :: d2) with ((pre ++ [ec]) ++ d1 ++ (if m then 45%N else 43%N) :: d2) by (rewrite <- app_assoc; reflexivity).
      rewrite skipn_len_app. destruct d1; [discriminate|discriminate].
    + destruct d1; [|discriminate]. cbn [app] in Hs. destruct m.
      * replace (i + len ip + match fp with Some d => 1 + len d | None => 0 end + 1) with (len (pre ++ [ec])) by (rewrite len_app, len_cons; change (len []) with 0; lia).
        rewrite Hs. replace (pre ++ ec :: 45%N :: d2) with ((pre ++ [ec]) ++ 45%N :: d2) by (rewrite <- app_assoc; reflexivity).
        rewrite skipn_len_app. discriminate.
      * replace (i + len ip + match fp with Some d => 1 + len d | None => 0 end + 1 + 1) with (len (pre ++ [ec; 43%N])) by (rewrite len_app, !len_cons; change (len []) with 0; lia).
        rewrite Hs. replace (pre ++ ec :: 43%N :: d2) with ((pre ++ [ec; 43%N]) ++ d2) by (rewrite <- app_assoc; reflexivity).
        rewrite skipn_len_app. destruct d2; [discriminate|discriminate].
  - (* e d1 *)
    replace (i + len ip + match fp with Some d => 1 + len d | None => 0 end + 1) with (len (pre ++ [ec])) by (rewrite len_app, len_cons; change (len []) with 0; lia).
    rewrite Hs. replace (pre ++ ec :: d1) with ((pre ++ [ec]) ++ d1) by (rewrite <- app_assoc; reflexivity).
    rewrite skipn_len_app. destruct d1; [discriminate|discriminate].
  - congruence.
Qed.
