From Coq Require Import List NArith Bool Arith Lia.
From JS Require Import Base.Res Spec.JsonGrammar Model.EnumParse Model.SchemaText.
Import ListNotations.
Local Open Scope N_scope.

(* ---- the token sequences a tree can be written as: every annotation right after the token of the node it belongs
        to (the value, or the bracket that opens the container); for a scalar or a reference some of them may come
        after the comma that follows it ---- *)
Definition is_leaf (n : snode) : bool := match n with SLit _ _ | SRef _ _ => true | _ => false end.
Inductive key_toks : skey -> list stok -> Prop :=
| KT_str k : key_toks (SKStr (34 :: k)) [KScal (34 :: k)]
| KT_ref nm : key_toks (SKRef nm) [KRef [nm]].
Inductive TR : snode -> list stok -> Prop :=
| TR_lit l a : TR (SLit l a) (KScal l :: map KAnn a)
| TR_ref ns a : TR (SRef ns a) (KRef ns :: map KAnn a)
| TR_arr0 a : TR (SArr a []) (KLS :: map KAnn a ++ [KRS])
| TR_arr a items body : TRI items body -> TR (SArr a items) (KLS :: map KAnn a ++ body ++ [KRS])
| TR_obj0 a : TR (SObj a []) (KLB :: map KAnn a ++ [KRB])
| TR_obj a ms body : TRM ms body -> TR (SObj a ms) (KLB :: map KAnn a ++ body ++ [KRB])
with TRI : list snode -> list stok -> Prop :=
| TRI_one v tv : TR v tv -> TRI [v] tv
| TRI_more v tv more v' rest body : TR v tv -> add_anns v more = Some v' -> TRI rest body ->
    TRI (v' :: rest) (tv ++ KComma :: map KAnn more ++ body)
with TRM : list (skey * snode) -> list stok -> Prop :=
| TRM_one k tk v tv : key_toks k tk -> TR v tv -> TRM [(k, v)] (tk ++ KColon :: tv)
| TRM_more k tk v tv more v' rest body : key_toks k tk -> TR v tv -> add_anns v more = Some v' -> TRM rest body ->
    TRM ((k, v') :: rest) (tk ++ KColon :: tv ++ KComma :: map KAnn more ++ body).
Scheme TR_m := Induction for TR Sort Prop
  with TRI_m := Induction for TRI Sort Prop
  with TRM_m := Induction for TRM Sort Prop.
Combined Scheme tr_mutind from TR_m, TRI_m, TRM_m.

Definition not_ann (ts : list stok) : Prop := match ts with KAnn _ :: _ => False | _ => True end.
Lemma take_anns_app a r : not_ann r -> take_anns (map KAnn a ++ r) = (a, r).
Proof.
  intros Hr. induction a as [|x a IH]; cbn [map app take_anns].
  - destruct r as [|t r]; [reflexivity|]. destruct t; try reflexivity. destruct Hr.
  - rewrite IH. reflexivity.
Qed.

Lemma tr_head v tv : TR v tv -> exists t r, tv = t :: r /\ match t with KScal _ | KRef _ | KLS | KLB => True | _ => False end.
Proof. intros H. destruct H; eexists; eexists; (split; [reflexivity|exact I]). Qed.
Lemma tri_head items body : TRI items body -> exists t r, body = t :: r /\ match t with KScal _ | KRef _ | KLS | KLB => True | _ => False end.
Proof.
  intros H. destruct H as [v tv Hv|v tv more v' rest body Hv _ _]; destruct (tr_head _ _ Hv) as (t & r & -> & Ht); cbn [app]; eexists; eexists; (split; [reflexivity|exact Ht]).
Qed.
Lemma trm_head ms body : TRM ms body -> exists t r, body = t :: r /\ match t with KScal _ | KRef _ => True | _ => False end.
Proof.
  intros H. destruct H as [k tk v tv Hk _|k tk v tv more v' rest body Hk _ _ _]; destruct Hk; cbn [app]; eexists; eexists; (split; [reflexivity|exact I]).
Qed.

(* what may follow a complete value: a comma, a closing bracket, or the end *)
Definition after_value (r : list stok) : Prop := match r with [] | KComma :: _ | KRS :: _ | KRB :: _ => True | _ => False end.
Lemma after_not_ann r : after_value r -> not_ann r.
Proof. destruct r as [|t r]; [exact (fun _ => I)|]. destruct t; cbn; auto. Qed.

Ltac nlen H := repeat first [rewrite app_length in H | rewrite map_length in H | progress (cbn [length] in H)].

(* every such token sequence is parsed back to its tree *)
Theorem sparse_complete :
  (forall v tv, TR v tv -> forall r f, after_value r -> (length tv <= f)%nat -> spvalue f (tv ++ r) = Some (v, r)) /\
  (forall items body, TRI items body -> forall r f a acc, (length body + 1 <= f)%nat ->
     spitems f (body ++ KRS :: r) a acc = Some (SArr a (rev acc ++ items), r)) /\
  (forall ms body, TRM ms body -> forall r f a acc, (length body + 1 <= f)%nat ->
     spmembers f (body ++ KRB :: r) a acc = Some (SObj a (rev acc ++ ms), r)).
Proof.
  apply tr_mutind.
  - intros l a r f Hr Hf. destruct f as [|f]; [cbn in Hf; lia|]. cbn [app spvalue]. rewrite (take_anns_app a r (after_not_ann r Hr)). reflexivity.
  - intros ns a r f Hr Hf. destruct f as [|f]; [cbn in Hf; lia|]. cbn [app spvalue]. rewrite (take_anns_app a r (after_not_ann r Hr)). reflexivity.
  - intros a r f _ Hf. destruct f as [|f]; [cbn in Hf; lia|]. cbn [app spvalue]. rewrite <- app_assoc. rewrite (take_anns_app a ([KRS] ++ r) I). reflexivity.
  - intros a items body Hb IH r f _ Hf. destruct f as [|f]; [cbn in Hf; lia|]. cbn [app spvalue]. rewrite <- !app_assoc.
    destruct (tri_head _ _ Hb) as (t & rb & Eb & Ht).
    rewrite (take_anns_app a (body ++ [KRS] ++ r)) by (rewrite Eb; cbn [app]; destruct t; try exact I; destruct Ht).
    nlen Hf. specialize (IH r f a [] ltac:(lia)). cbn [rev app] in IH. cbn [app].
    rewrite Eb in *. cbn [app] in *. destruct t; try destruct Ht; exact IH.
  - intros a r f _ Hf. destruct f as [|f]; [cbn in Hf; lia|]. cbn [app spvalue]. rewrite <- app_assoc. rewrite (take_anns_app a ([KRB] ++ r) I). reflexivity.
  - intros a ms body Hb IH r f _ Hf. destruct f as [|f]; [cbn in Hf; lia|]. cbn [app spvalue]. rewrite <- !app_assoc.
    destruct (trm_head _ _ Hb) as (t & rb & Eb & Ht).
    rewrite (take_anns_app a (body ++ [KRB] ++ r)) by (rewrite Eb; cbn [app]; destruct t; try exact I; destruct Ht).
    nlen Hf. specialize (IH r f a [] ltac:(lia)). cbn [rev app] in IH. cbn [app].
    rewrite Eb in *. cbn [app] in *. destruct t; try destruct Ht; exact IH.
  - intros v tv Hv IHv r f a acc Hf. destruct f as [|f]; [lia|]. cbn [spitems]. rewrite (IHv (KRS :: r) f I ltac:(lia)). cbn [rev]. rewrite <- ?app_assoc. reflexivity.
  - intros v tv more v' rest body Hv IHv Hadd Hrest IHr r f a acc Hf. destruct f as [|f]; [lia|]. cbn [spitems]. nlen Hf.
    repeat (rewrite <- ?app_assoc; cbn [app]). rewrite (IHv (KComma :: map KAnn more ++ body ++ KRS :: r) f I ltac:(lia)).
    destruct (tri_head _ _ Hrest) as (t & rb & Eb & Ht).
    rewrite (take_anns_app more (body ++ KRS :: r)) by (rewrite Eb; cbn [app]; destruct t; try exact I; destruct Ht).
    rewrite Hadd. rewrite (IHr r f a (v' :: acc) ltac:(lia)). cbn [rev]. rewrite <- ?app_assoc. reflexivity.
  - intros k tk v tv Hk Hv IHv r f a acc Hf. destruct f as [|f]; [lia|]. nlen Hf. destruct Hk as [kk|nm]; cbn [app spmembers].
    + rewrite <- ?app_assoc. rewrite (IHv (KRB :: r) f I ltac:(cbn [length] in Hf; lia)). cbn [rev]. rewrite <- ?app_assoc. reflexivity.
    + rewrite <- ?app_assoc. rewrite (IHv (KRB :: r) f I ltac:(cbn [length] in Hf; lia)). cbn [rev]. rewrite <- ?app_assoc. reflexivity.
  - intros k tk v tv more v' rest body Hk Hv IHv Hadd Hrest IHr r f a acc Hf. destruct f as [|f]; [lia|]. nlen Hf.
    destruct (trm_head _ _ Hrest) as (t & rb & Eb & Ht).
    assert (Hta : take_anns (map KAnn more ++ body ++ KRB :: r) = (more, body ++ KRB :: r)).
    { apply take_anns_app. rewrite Eb. cbn [app]. destruct t; try exact I; destruct Ht. }
    destruct Hk as [kk|nm]; cbn [app spmembers]; repeat (rewrite <- ?app_assoc; cbn [app]);
      rewrite (IHv (KComma :: map KAnn more ++ body ++ KRB :: r) f I ltac:(cbn [length] in Hf; lia)); rewrite Hta, Hadd;
      rewrite (IHr r f a _ ltac:(cbn [length] in Hf; lia)); cbn [rev]; rewrite <- ?app_assoc; reflexivity.
Qed.

Corollary sparse_toks_complete v tv : TR v tv -> sparse_toks tv = Some v.
Proof.
  intros H. unfold sparse_toks. pose proof (proj1 sparse_complete v tv H [] (S (length tv)) I (le_S _ _ (le_n _))) as H'.
  rewrite app_nil_r in H'. rewrite H'. reflexivity.
Qed.

(* ---- layout: blanks, line ends and user comments carry no token ---- *)
Lemma slex_blanks w : ws w -> forall f s, slex (length w + f) (w ++ s) = slex f s.
Proof. induction 1 as [|c w Hc _ IH]; intros f s; cbn [length app plus]; [reflexivity|]. cbn [slex]. unfold is_blank. rewrite Hc. apply IH. Qed.
(* LF, CR and CRLF are the same separator: all three are blanks between tokens ... *)
Lemma newline_styles : is_blank 10 = true /\ is_blank 13 = true /\ is_blank 32 = true /\ is_blank 9 = true.
Proof. repeat split. Qed.
(* ... and end a `#` comment and a `//` annotation alike *)
Lemma take_line_nl c n r : Forall (fun x => is_nl x = false) c -> is_nl n = true -> take_line (c ++ n :: r) = (c, n :: r).
Proof.
  intros Hc Hn. induction Hc as [|x c Hx _ IH]; cbn [app take_line].
  - rewrite Hn. reflexivity.
  - rewrite Hx, IH. reflexivity.
Qed.
Lemma take_line_eof c : Forall (fun x => is_nl x = false) c -> take_line c = (c, []).
Proof. induction 1 as [|x c Hx _ IH]; cbn [take_line]; [reflexivity|]. rewrite Hx, IH. reflexivity. Qed.
Lemma match_not_hh {A} (r : bytes) (X : bytes -> A) (Y : A) : (forall r', r <> 35 :: 35 :: r') ->
  match r with 35 :: 35 :: r' => X r' | _ => Y end = Y.
Proof.
  intros H. destruct r as [|a r]; [reflexivity|]. destruct (N.eqb_spec a 35) as [->|Ha].
  - destruct r as [|b r]; [reflexivity|]. destruct (N.eqb_spec b 35) as [->|Hb]; [exfalso; exact (H r eq_refl)|].
    destruct b as [|p]; [reflexivity|]. repeat (destruct p as [p|p|]; try reflexivity). congruence.
  - destruct a as [|p]; [reflexivity|]. repeat (destruct p as [p|p|]; try reflexivity). congruence.
Qed.
(* a `# ...` comment up to the end of its line carries no token *)
Theorem slex_comment c n r f : Forall (fun x => is_nl x = false) c -> is_nl n = true ->
  (forall c', c <> 35 :: 35 :: c') ->
  slex (S f) (35 :: c ++ n :: r) = slex f (n :: r).
Proof.
  intros Hc Hn Hnb. cbn [slex]. change (is_blank 35) with false. cbn [N.eqb Pos.eqb].
  rewrite match_not_hh.
  - rewrite (take_line_nl c n r Hc Hn). reflexivity.
  - intros r' E. destruct c as [|c1 c]; cbn [app] in E.
    + inversion E; subst. discriminate Hn.
    + destruct c as [|c2 c]; cbn [app] in E; inversion E; subst; [discriminate Hn|exact (Hnb c eq_refl)].
Qed.

(* ---- annotation style: a note written as `// note` up to the end of the line and as `/* note */` is the same token ---- *)
Lemma take_until2_app x y t r : (forall a b, t <> a ++ x :: y :: b) -> (forall a, t <> a ++ [x]) \/ x <> y ->
  take_until2 x y (t ++ x :: y :: r) = Some (t, r).
Proof.
  intros Hno Hedge. induction t as [|c t IH]; cbn [app take_until2].
  - rewrite !N.eqb_refl. reflexivity.
  - assert (Hc : (c =? x) && (match t ++ x :: y :: r with b :: _ => b =? y | [] => false end) = false).
    { destruct (N.eqb_spec c x) as [->|]; [|reflexivity]. cbn [andb]. destruct t as [|d t']; cbn [app].
      - destruct Hedge as [He|He]; [exfalso; exact (He [] eq_refl)|]. apply N.eqb_neq. exact He.
      - destruct (N.eqb_spec d y) as [->|]; [|reflexivity]. exfalso. exact (Hno [] t' eq_refl). }
    destruct (t ++ x :: y :: r) as [|b rest] eqn:E; [destruct t; discriminate|]. cbn [andb] in Hc. rewrite Hc.
    rewrite IH; [reflexivity| |].
    + intros a b' Eab. apply (Hno (c :: a) b'). rewrite Eab. reflexivity.
    + destruct Hedge as [He|He]; [left; intros a Ea; apply (He (c :: a)); rewrite Ea; reflexivity|right; exact He].
Qed.

Lemma trim_left_idem x : trim_left (trim_left x) = trim_left x.
Proof. induction x as [|c x IH]; [reflexivity|]. cbn [trim_left]. destruct (is_blank c) eqn:E; [exact IH|]. cbn [trim_left]. rewrite E. reflexivity. Qed.
Lemma cut_hash_none x : Forall (fun c => c <> 35) x -> cut_hash x = x.
Proof. induction 1 as [|c x Hc _ IH]; [reflexivity|]. cbn [cut_hash]. apply N.eqb_neq in Hc. rewrite Hc, IH. reflexivity. Qed.
Lemma trim_left_forall (P : N -> Prop) x : Forall P x -> Forall P (trim_left x).
Proof. induction 1 as [|c x Hc Hx IH]; [constructor|]. cbn [trim_left]. destruct (is_blank c); [exact IH|constructor; assumption]. Qed.
Lemma note_eq text : Forall (fun c => c <> 35) text -> trim (cut_hash (trim_left text)) = trim text.
Proof. intros H. rewrite (cut_hash_none _ (trim_left_forall _ _ H)). unfold trim. rewrite trim_left_idem. reflexivity. Qed.
Lemma trim_left_app_nb text r : match trim_left text with [] => False | _ => True end -> trim_left (text ++ r) = trim_left text ++ r.
Proof. induction text as [|c t IH]; cbn [app trim_left]; [intros []|]. destruct (is_blank c); [exact IH|reflexivity]. Qed.

(* `// note` up to the end of its line, and `/* note */`: the same annotation *)
Theorem note_styles text n r f :
  Forall (fun x => is_nl x = false) text -> is_nl n = true ->
  (forall u v, text <> u ++ 42 :: 47 :: v) -> (forall u, text <> u ++ [42]) ->          (* no closing mark inside *)
  Forall (fun c => c <> 35) text ->                                                     (* no user comment inside *)
  (exists c t, trim_left text = c :: t /\ c <> 123) ->                                  (* a note, not a rule object *)
  slex (S f) (47 :: 47 :: text ++ n :: r) = (do t <- slex f (n :: r); Ok (KAnn (mk_ann [] (trim text)) :: t)) /\
  slex (S f) (47 :: 42 :: text ++ 42 :: 47 :: r) = (do t <- slex f r; Ok (KAnn (mk_ann [] (trim text)) :: t)).
Proof.
  intros Hnl Hn Hno Hedge Hhash (c0 & t0 & Et & Hc0).
  assert (Hpa : parse_ann text = Some (mk_ann [] (trim text))).
  { unfold parse_ann. rewrite <- (note_eq text Hhash). rewrite Et. destruct c0 as [|p]; [reflexivity|]. repeat (destruct p as [p|p|]; try reflexivity). congruence. }
  split.
  - cbn [slex]. change (is_blank 47) with false. cbn [N.eqb Pos.eqb]. rewrite (take_line_nl text n r Hnl Hn), Hpa. reflexivity.
  - cbn [slex]. change (is_blank 47) with false. cbn [N.eqb Pos.eqb]. unfold block_ann.
    rewrite (trim_left_app_nb text (42 :: 47 :: r)) by (rewrite Et; exact I). rewrite Et. cbn [app].
    rewrite (take_until2_app 42 47 text r Hno (or_introl Hedge)).
    destruct c0 as [|p]; [reflexivity|]. repeat (destruct p as [p|p|]; try reflexivity). congruence.
Qed.

(* ---- rule names: bare and quoted ---- *)
Lemma take_while_app (p : N -> bool) nm c r : Forall (fun x => p x = true) nm -> p c = false -> take_while p (nm ++ c :: r) = (nm, c :: r).
Proof.
  intros Hn Hc. induction Hn as [|x nm Hx _ IH]; cbn [app take_while]; [rewrite Hc; reflexivity|]. rewrite Hx, IH. reflexivity.
Qed.
