From Coq Require Import List NArith Bool Arith Lia.
From JS Require Import Base.Res Spec.JsonGrammar Model.EnumParse Model.SchemaText.
Import ListNotations.
Local Open Scope N_scope.

(* ---- the token sequences a tree can be written as: every annotation right after the token of the node it belongs
        to (the value, or the bracket that opens the container); for a scalar or a reference some of them may come
        after the comma that follows it ---- *)
Definition is_leaf (n : snode) : bool := match n with SLit _ _ | SRef _ _ => true | _ => false end.
Inductive key_toks : skey -> list stok -> Prop :=
| KT_str k : key_toks (SKStr (34 :: k)) [KScal (34 :: k)]
| KT_ref nm : key_toks (SKRef nm) [KRef [nm]].
Inductive TR : snode -> list stok -> Prop :=
| TR_lit l a : TR (SLit l a) (KScal l :: map KAnn a)
| TR_ref ns a : TR (SRef ns a) (KRef ns :: map KAnn a)
| TR_arr0 a : TR (SArr a []) (KLS :: map KAnn a ++ [KRS])
| TR_arr a items body : TRI items body -> TR (SArr a items) (KLS :: map KAnn a ++ body ++ [KRS])
| TR_obj0 a : TR (SObj a []) (KLB :: map KAnn a ++ [KRB])
| TR_obj a ms body : TRM ms body -> TR (SObj a ms) (KLB :: map KAnn a ++ body ++ [KRB])
with TRI : list snode -> list stok -> Prop :=
| TRI_one v tv : TR v tv -> TRI [v] tv
| TRI_more v tv more v' rest body : TR v tv -> add_anns v more = Some v' -> TRI rest body ->
    TRI (v' :: rest) (tv ++ KComma :: map KAnn more ++ body)
with TRM : list (skey * snode) -> list stok -> Prop :=
| TRM_one k tk v tv : key_toks k tk -> TR v tv -> TRM [(k, v)] (tk ++ KColon :: tv)
| TRM_more k tk v tv more v' rest body : key_toks k tk -> TR v tv -> add_anns v more = Some v' -> TRM rest body ->
    TRM ((k, v') :: rest) (tk ++ KColon :: tv ++ KComma :: map KAnn more ++ body).
Scheme TR_m := Induction for TR Sort Prop
  with TRI_m := Induction for TRI Sort Prop
  with TRM_m := Induction for TRM Sort Prop.
Combined Scheme tr_mutind from TR_m, TRI_m, TRM_m.

Definition not_ann (ts : list stok) : Prop := match ts with KAnn _ :: _ => False | _ => True end.
Lemma take_anns_app a r : not_ann r -> take_anns (map KAnn a ++ r) = (a, r).
Proof.
  intros Hr. induction a as [|x a IH]; cbn [map app take_anns].
  - destruct r as [|t r]; [reflexivity|]. destruct t; try reflexivity. destruct Hr.
  - rewrite IH. reflexivity.
Qed.

Lemma tr_head v tv : TR v tv -> exists t r, tv = t :: r /\ match t with KScal _ | KRef _ | KLS | KLB => True | _ => False end.
Proof. intros H. destruct H; eexists; eexists; (split; [reflexivity|exact I]). Qed.
Lemma tri_head items body : TRI items body -> exists t r, body = t :: r /\ match t with KScal _ | KRef _ | KLS | KLB => True | _ => False end.
Proof.
  intros H. destruct H as [v tv Hv|v tv more v' rest body Hv _ _]; destruct (tr_head _ _ Hv) as (t & r & -> & Ht); cbn [app]; eexists; eexists; (split; [reflexivity|exact Ht]).
Qed.
Lemma trm_head ms body : TRM ms body -> exists t r, body = t :: r /\ match t with KScal _ | KRef _ => True | _ => False end.
Proof.
  intros H. destruct H as [k tk v tv Hk _|k tk v tv more v' rest body Hk _ _ _]; destruct Hk; cbn [app]; eexists; eexists; (split; [reflexivity|exact I]).
Qed.

(* what may follow a complete value: a comma, a closing bracket, or the end *)
Definition after_value (r : list stok) : Prop := match r with [] | KComma :: _ | KRS :: _ | KRB :: _ => True | _ => False end.
Lemma after_not_ann r : after_value r -> not_ann r.
Proof. destruct r as [|t r]; [exact (fun _ => I)|]. destruct t; cbn; auto. Qed.

Ltac nlen H := repeat first [rewrite app_length in H | rewrite map_length in H | progress (cbn [length] in H)].

(* every such token sequence is parsed back to its tree *)
Theorem sparse_complete :
  (forall v tv, TR v tv -> forall r f, after_value r -> (length tv <= f)%nat -> spvalue f (tv ++ r) = Some (v, r)) /\
  (forall items body, TRI items body -> forall r f a acc, (length body + 1 <= f)%nat ->
     spitems f (body ++ KRS :: r) a acc = Some (SArr a (rev acc ++ items), r)) /\
  (forall ms body, TRM ms body -> forall r f a acc, (length body + 1 <= f)%nat ->
     spmembers f (body ++ KRB :: r) a acc = Some (SObj a (rev acc ++ ms), r)).
Proof.
  apply tr_mutind.
  - intros l a r f Hr Hf. destruct f as [|f]; [cbn in Hf; lia|]. cbn [app spvalue]. rewrite (take_anns_app a r (after_not_ann r Hr)). reflexivity.
  - intros ns a r f Hr Hf. destruct f as [|f]; [cbn in Hf; lia|]. cbn [app spvalue]. rewrite (take_anns_app a r (after_not_ann r Hr)). reflexivity.
  - intros a r f Hr Hf. destruct f as [|f]; [cbn in Hf; lia|]. cbn [app spvalue]. rewrite <- app_assoc. rewrite (take_anns_app a ([KRS] ++ r) I).
    cbn [app]. destruct a; [|reflexivity]. pose proof (take_anns_app [] r (after_not_ann r Hr)) as E. cbn [map app] in E. rewrite E. reflexivity.
  - intros a items body Hb IH r f _ Hf. destruct f as [|f]; [cbn in Hf; lia|]. cbn [app spvalue]. rewrite <- !app_assoc.
    destruct (tri_head _ _ Hb) as (t & rb & Eb & Ht).
    rewrite (take_anns_app a (body ++ [KRS] ++ r)) by (rewrite Eb; cbn [app]; destruct t; try exact I; destruct Ht).
    nlen Hf. specialize (IH r f a [] ltac:(lia)). cbn [rev app] in IH. cbn [app].
    rewrite Eb in *. cbn [app] in *. destruct t; try destruct Ht; exact IH.
  - intros a r f Hr Hf. destruct f as [|f]; [cbn in Hf; lia|]. cbn [app spvalue]. rewrite <- app_assoc. rewrite (take_anns_app a ([KRB] ++ r) I).
    cbn [app]. destruct a; [|reflexivity]. pose proof (take_anns_app [] r (after_not_ann r Hr)) as E. cbn [map app] in E. rewrite E. reflexivity.
  - intros a ms body Hb IH r f _ Hf. destruct f as [|f]; [cbn in Hf; lia|]. cbn [app spvalue]. rewrite <- !app_assoc.
    destruct (trm_head _ _ Hb) as (t & rb & Eb & Ht).
    rewrite (take_anns_app a (body ++ [KRB] ++ r)) by (rewrite Eb; cbn [app]; destruct t; try exact I; destruct Ht).
    nlen Hf. specialize (IH r f a [] ltac:(lia)). cbn [rev app] in IH. cbn [app].
    rewrite Eb in *. cbn [app] in *. destruct t; try destruct Ht; exact IH.
  - intros v tv Hv IHv r f a acc Hf. destruct f as [|f]; [lia|]. cbn [spitems]. rewrite (IHv (KRS :: r) f I ltac:(lia)). cbn [rev]. rewrite <- ?app_assoc. reflexivity.
  - intros v tv more v' rest body Hv IHv Hadd Hrest IHr r f a acc Hf. destruct f as [|f]; [lia|]. cbn [spitems]. nlen Hf.
    repeat (rewrite <- ?app_assoc; cbn [app]). rewrite (IHv (KComma :: map KAnn more ++ body ++ KRS :: r) f I ltac:(lia)).
    destruct (tri_head _ _ Hrest) as (t & rb & Eb & Ht).
    rewrite (take_anns_app more (body ++ KRS :: r)) by (rewrite Eb; cbn [app]; destruct t; try exact I; destruct Ht).
    rewrite Hadd. rewrite (IHr r f a (v' :: acc) ltac:(lia)). cbn [rev]. rewrite <- ?app_assoc. reflexivity.
  - intros k tk v tv Hk Hv IHv r f a acc Hf. destruct f as [|f]; [lia|]. nlen Hf. destruct Hk as [kk|nm]; cbn [app spmembers].
    + rewrite <- ?app_assoc. rewrite (IHv (KRB :: r) f I ltac:(cbn [length] in Hf; lia)). cbn [rev]. rewrite <- ?app_assoc. reflexivity.
    + rewrite <- ?app_assoc. rewrite (IHv (KRB :: r) f I ltac:(cbn [length] in Hf; lia)). cbn [rev]. rewrite <- ?app_assoc. reflexivity.
  - intros k tk v tv more v' rest body Hk Hv IHv Hadd Hrest IHr r f a acc Hf. destruct f as [|f]; [lia|]. nlen Hf.
    destruct (trm_head _ _ Hrest) as (t & rb & Eb & Ht).
    assert (Hta : take_anns (map KAnn more ++ body ++ KRB :: r) = (more, body ++ KRB :: r)).
    { apply take_anns_app. rewrite Eb. cbn [app]. destruct t; try exact I; destruct Ht. }
    destruct Hk as [kk|nm]; cbn [app spmembers]; repeat (rewrite <- ?app_assoc; cbn [app]);
      rewrite (IHv (KComma :: map KAnn more ++ body ++ KRB :: r) f I ltac:(cbn [length] in Hf; lia)); rewrite Hta, Hadd;
      rewrite (IHr r f a _ ltac:(cbn [length] in Hf; lia)); cbn [rev]; rewrite <- ?app_assoc; reflexivity.
Qed.

Corollary sparse_toks_complete v tv : TR v tv -> sparse_toks tv = Some v.
Proof.
  intros H. unfold sparse_toks. pose proof (proj1 sparse_complete v tv H [] (S (length tv)) I (le_S _ _ (le_n _))) as H'.
  rewrite app_nil_r in H'. rewrite H'. reflexivity.
Qed.

(* ---- layout: blanks, line ends and user comments carry no token ---- *)
Lemma slex_blanks w : ws w -> forall f s, slex (length w + f) (w ++ s) = slex f s.
Proof. induction 1 as [|c w Hc _ IH]; intros f s; cbn [length app plus]; [reflexivity|]. cbn [slex]. unfold is_blank. rewrite Hc. apply IH. Qed.
(* LF, CR and CRLF are the same separator: all three are blanks between tokens ... *)
Lemma newline_styles : is_blank 10 = true /\ is_blank 13 = true /\ is_blank 32 = true /\ is_blank 9 = true.
Proof. repeat split. Qed.
(* ... and end a `#` comment and a `//` annotation alike *)
Lemma take_line_nl c n r : Forall (fun x => is_nl x = false) c -> is_nl n = true -> take_line (c ++ n :: r) = (c, n :: r).
Proof.
  intros Hc Hn. induction Hc as [|x c Hx _ IH]; cbn [app take_line].
  - rewrite Hn. reflexivity.
  - rewrite Hx, IH. reflexivity.
Qed.
Lemma take_line_eof c : Forall (fun x => is_nl x = false) c -> take_line c = (c, []).
Proof. induction 1 as [|x c Hx _ IH]; cbn [take_line]; [reflexivity|]. rewrite Hx, IH. reflexivity. Qed.
Lemma match_not_hh {A} (r : bytes) (X : bytes -> A) (Y : A) : (forall r', r <> 35 :: 35 :: r') ->
  match r with 35 :: 35 :: r' => X r' | _ => Y end = Y.
Proof.
  intros H. destruct r as [|a r]; [reflexivity|]. destruct (N.eqb_spec a 35) as [->|Ha].
  - destruct r as [|b r]; [reflexivity|]. destruct (N.eqb_spec b 35) as [->|Hb]; [exfalso; exact (H r eq_refl)|].
    destruct b as [|p]; [reflexivity|]. repeat (destruct p as [p|p|]; try reflexivity). congruence.
  - destruct a as [|p]; [reflexivity|]. repeat (destruct p as [p|p|]; try reflexivity). congruence.
Qed.
(* a `# ...` comment up to the end of its line carries no token *)
Theorem slex_comment c n r f : Forall (fun x => is_nl x = false) c -> is_nl n = true ->
  (forall c', c <> 35 :: 35 :: c') ->
  slex (S f) (35 :: c ++ n :: r) = slex f (n :: r).
Proof.
  intros Hc Hn Hnb. cbn [slex]. change (is_blank 35) with false. cbn [N.eqb Pos.eqb].
  rewrite match_not_hh.
  - rewrite (take_line_nl c n r Hc Hn). reflexivity.
  - intros r' E. destruct c as [|c1 c]; cbn [app] in E.
    + inversion E; subst. discriminate Hn.
    + destruct c as [|c2 c]; cbn [app] in E; inversion E; subst; [discriminate Hn|exact (Hnb c eq_refl)].
Qed.

(* ---- annotation style: a note written as `// note` up to the end of the line and as `/* note */` is the same token ---- *)
Lemma take_until2_app x y t r : (forall a b, t <> a ++ x :: y :: b) -> (forall a, t <> a ++ [x]) \/ x <> y ->
  take_until2 x y (t ++ x :: y :: r) = Some (t, r).
Proof.
  intros Hno Hedge. induction t as [|c t IH]; cbn [app take_until2].
  - rewrite !N.eqb_refl. reflexivity.
  - assert (Hc : (c =? x) && (match t ++ x :: y :: r with b :: _ => b =? y | [] => false end) = false).
    { destruct (N.eqb_spec c x) as [->|]; [|reflexivity]. cbn [andb]. destruct t as [|d t']; cbn [app].
      - destruct Hedge as [He|He]; [exfalso; exact (He [] eq_refl)|]. apply N.eqb_neq. exact He.
      - destruct (N.eqb_spec d y) as [->|]; [|reflexivity]. exfalso. exact (Hno [] t' eq_refl). }
    destruct (t ++ x :: y :: r) as [|b rest] eqn:E; [destruct t; discriminate|]. cbn [andb] in Hc. rewrite Hc.
    rewrite IH; [reflexivity| |].
    + intros a b' Eab. apply (Hno (c :: a) b'). rewrite Eab. reflexivity.
    + destruct Hedge as [He|He]; [left; intros a Ea; apply (He (c :: a)); rewrite Ea; reflexivity|right; exact He].
Qed.

Lemma trim_left_idem x : trim_left (trim_left x) = trim_left x.
Proof. induction x as [|c x IH]; [reflexivity|]. cbn [trim_left]. destruct (is_blank c) eqn:E; [exact IH|]. cbn [trim_left]. rewrite E. reflexivity. Qed.
Lemma cut_hash_none x : Forall (fun c => c <> 35) x -> cut_hash x = x.
Proof. induction 1 as [|c x Hc _ IH]; [reflexivity|]. cbn [cut_hash]. apply N.eqb_neq in Hc. rewrite Hc, IH. reflexivity. Qed.
Lemma trim_left_forall (P : N -> Prop) x : Forall P x -> Forall P (trim_left x).
Proof. induction 1 as [|c x Hc Hx IH]; [constructor|]. cbn [trim_left]. destruct (is_blank c); [exact IH|constructor; assumption]. Qed.
Lemma note_eq text : Forall (fun c => c <> 35) text -> trim (cut_hash (trim_left text)) = trim text.
Proof. intros H. rewrite (cut_hash_none _ (trim_left_forall _ _ H)). unfold trim. rewrite trim_left_idem. reflexivity. Qed.
Lemma trim_left_app_nb text r : match trim_left text with [] => False | _ => True end -> trim_left (text ++ r) = trim_left text ++ r.
Proof. induction text as [|c t IH]; cbn [app trim_left]; [intros []|]. destruct (is_blank c); [exact IH|reflexivity]. Qed.

(* `// note` up to the end of its line, and `/* note */`: the same annotation *)
Theorem note_styles text n r f :
  Forall (fun x => is_nl x = false) text -> is_nl n = true ->
  (forall u v, text <> u ++ 42 :: 47 :: v) -> (forall u, text <> u ++ [42]) ->          (* no closing mark inside *)
  Forall (fun c => c <> 35) text ->                                                     (* no user comment inside *)
  (exists c t, trim_left text = c :: t /\ c <> 123) ->                                  (* a note, not a rule object *)
  slex (S f) (47 :: 47 :: text ++ n :: r) = (do t <- slex f (n :: r); Ok (KAnn (mk_ann [] (trim text)) :: t)) /\
  slex (S f) (47 :: 42 :: text ++ 42 :: 47 :: r) = (do t <- slex f r; Ok (KAnn (mk_ann [] (trim text)) :: t)).
Proof.
  intros Hnl Hn Hno Hedge Hhash (c0 & t0 & Et & Hc0).
  assert (Hpa : parse_ann text = Some (mk_ann [] (trim text))).
  { unfold parse_ann. rewrite <- (note_eq text Hhash). rewrite Et. destruct c0 as [|p]; [reflexivity|]. repeat (destruct p as [p|p|]; try reflexivity). congruence. }
  split.
  - cbn [slex]. change (is_blank 47) with false. cbn [N.eqb Pos.eqb]. rewrite (take_line_nl text n r Hnl Hn), Hpa. reflexivity.
  - cbn [slex]. change (is_blank 47) with false. cbn [N.eqb Pos.eqb]. unfold block_ann.
    rewrite (trim_left_app_nb text (42 :: 47 :: r)) by (rewrite Et; exact I). rewrite Et. cbn [app].
    rewrite (take_until2_app 42 47 text r Hno (or_introl Hedge)).
    destruct c0 as [|p]; [reflexivity|]. repeat (destruct p as [p|p|]; try reflexivity). congruence.
Qed.

(* ---- rule names: bare and quoted ---- *)
Lemma take_while_app (p : N -> bool) nm c r : Forall (fun x => p x = true) nm -> p c = false -> take_while p (nm ++ c :: r) = (nm, c :: r).
Proof.
  intros Hn Hc. induction Hn as [|x nm Hx _ IH]; cbn [app take_while]; [rewrite Hc; reflexivity|]. rewrite Hx, IH. reflexivity.
Qed.

(* ---- the lexer as a whole: every layout of a token sequence is read back as that sequence ---- *)
From JS Require Import Proofs.EnumProofs Proofs.JsonValueProofs.

Definition punct (c : N) : option stok :=
  if c =? 123 then Some KLB else if c =? 125 then Some KRB else if c =? 91 then Some KLS else if c =? 93 then Some KRS
  else if c =? 44 then Some KComma else if c =? 58 then Some KColon else None.
Definition no_nl_b (c : bytes) : Prop := Forall (fun x => is_nl x = false) c.
Definition line_end (r : bytes) : Prop := r = [] \/ exists n r', r = n :: r' /\ is_nl n = true.
Definition name_bytes (nm : bytes) : Prop := Forall (fun c => name_byte c = true) nm.
Definition name_stop (r : bytes) : Prop := match r with [] => True | c :: _ => name_byte c = false end.

(* the text of a reference: @a, or @a | @b | ... with any blanks around the bars.  RefTail: the names after the first
   one together with the text that follows the first name *)
Inductive RefTail : list bytes -> bytes -> Prop :=
| rtl_nil : RefTail [] []
| rtl_more w1 w2 nm ns tail : ws w1 -> ws w2 -> name_bytes nm -> RefTail ns tail ->
    RefTail ((64 :: nm) :: ns) (w1 ++ 124 :: w2 ++ 64 :: nm ++ tail).
Definition RefText (ns : list bytes) (s : bytes) : Prop :=
  exists nm rest tail, ns = (64 :: nm) :: rest /\ s = 64 :: nm ++ tail /\ name_bytes nm /\ RefTail rest tail.

(* SLay s ts: the text s is a layout of the token sequence ts *)
Inductive SLay : bytes -> list stok -> Prop :=
| sl_nil : SLay [] []
| sl_blank c r t : is_blank c = true -> SLay r t -> SLay (c :: r) t
| sl_punct c k r t : punct c = Some k -> SLay r t -> SLay (c :: r) (k :: t)
| sl_scal lit r t : EnumScalar lit -> stop r -> SLay r t -> SLay (lit ++ r) (KScal lit :: t)
| sl_ref ns s r t : RefText ns s -> name_stop r -> (match trim_left r with 124 :: _ => False | _ => True end) -> SLay r t ->
    SLay (s ++ r) (KRef ns :: t)
| sl_comment c r t : no_nl_b c -> (forall c', c <> 35 :: 35 :: c') -> line_end r -> SLay r t -> SLay (35 :: c ++ r) t
| sl_ann_line text a r t : no_nl_b text -> parse_ann text = Some a -> line_end r -> SLay r t -> SLay (47 :: 47 :: text ++ r) (KAnn a :: t)
| sl_note_block text r t : (forall u v, text <> u ++ 42 :: 47 :: v) -> (forall u, text <> u ++ [42]) ->
    (exists c x, trim_left text = c :: x /\ c <> 123) -> SLay r t ->
    SLay (47 :: 42 :: text ++ 42 :: 47 :: r) (KAnn (mk_ann [] (trim text)) :: t)
(* a block annotation in general (Proofs/AnnotationProofs.v says which texts are read as which annotation) *)
| sl_block x a r t : block_ann x = Some (a, r) -> (length r <= length x)%nat -> SLay r t -> SLay (47 :: 42 :: x) (KAnn a :: t).

Lemma take_line_end c r : no_nl_b c -> line_end r -> take_line (c ++ r) = (c, r).
Proof.
  intros Hc [-> |(n & r' & -> & Hn)]; [rewrite app_nil_r; apply take_line_eof; exact Hc|apply take_line_nl; assumption].
Qed.
Lemma slex_punct f c k r : punct c = Some k -> slex (S f) (c :: r) = (do t <- slex f r; Ok (k :: t)).
Proof.
  unfold punct. intros H. cbn [slex].
  destruct (N.eqb_spec c 123) as [->|H1]; [inversion H; reflexivity|].
  destruct (N.eqb_spec c 125) as [->|H2]; [inversion H; reflexivity|].
  destruct (N.eqb_spec c 91) as [->|H3]; [inversion H; reflexivity|].
  destruct (N.eqb_spec c 93) as [->|H4]; [inversion H; reflexivity|].
  destruct (N.eqb_spec c 44) as [->|H5]; [inversion H; reflexivity|].
  destruct (N.eqb_spec c 58) as [->|H6]; [inversion H; reflexivity|discriminate].
Qed.

Lemma scalar_first lit : EnumScalar lit -> exists c l', lit = c :: l' /\ is_blank c = false /\ punct c = None /\ c <> 35 /\ c <> 47 /\ c <> 64.
Proof.
  intros Hl. destruct (scalar_head lit Hl) as (c & l' & -> & Hw & H91 & H123 & H93 & H125). exists c, l'. split; [reflexivity|]. split; [exact Hw|].
  assert (Hx : c <> 44 /\ c <> 58 /\ c <> 35 /\ c <> 47 /\ c <> 64).
  { destruct Hl as [(b & E & _)|[(m & i & fr & E & Hm & Hi & _)|[E|[E|E]]]]; try (inversion E; subst; repeat split; discriminate).
    destruct Hm as [-> | ->]; cbn [app] in E.
    - destruct Hi as [-> |(d & ds & -> & Hd & _)]; cbn [app] in E; inversion E; subst; [repeat split; discriminate|].
      unfold digit19 in Hd. apply andb_true_iff in Hd. destruct Hd as [A B]. apply N.leb_le in A, B. repeat split; lia.
    - inversion E; subst. repeat split; discriminate. }
  destruct Hx as (H44 & H58 & H35 & H47 & H64). split; [|auto].
  unfold punct. apply N.eqb_neq in H123, H125, H91, H93, H44, H58. rewrite H123, H125, H91, H93, H44, H58. reflexivity.
Qed.
Lemma slex_scal f lit r : EnumScalar lit -> stop r -> slex (S f) (lit ++ r) = (do t <- slex f r; Ok (KScal lit :: t)).
Proof.
  intros Hl Hr. destruct (scalar_first lit Hl) as (c & l' & -> & Hb & Hp & H35 & H47 & H64).
  pose proof (scalar_rescan (c :: l') Hl r Hr) as Hs. cbn [app] in *. cbn [slex]. rewrite Hb.
  unfold punct in Hp.
  destruct (c =? 123); [discriminate|]. destruct (c =? 125); [discriminate|]. destruct (c =? 91); [discriminate|].
  destruct (c =? 93); [discriminate|]. destruct (c =? 44); [discriminate|]. destruct (c =? 58); [discriminate|].
  apply N.eqb_neq in H35, H47, H64. rewrite H35, H47, H64, Hs. reflexivity.
Qed.

(* references *)
Lemma trim_left_ws w s : ws w -> trim_left (w ++ s) = trim_left s.
Proof. induction 1 as [|c w Hc _ IH]; cbn [app trim_left]; [reflexivity|]. unfold is_blank. rewrite Hc. exact IH. Qed.
Lemma ref_names_stop f r acc : (match trim_left r with 124 :: _ => False | _ => True end) -> ref_names f r acc = (rev acc, r).
Proof.
  intros H. destruct f; [reflexivity|]. cbn [ref_names]. destruct (trim_left r) as [|c t]; [reflexivity|].
  destruct c as [|p]; [reflexivity|]. repeat (destruct p as [p|p|]; try reflexivity). destruct H.
Qed.
Lemma take_while_all (p : N -> bool) nm : Forall (fun x => p x = true) nm -> take_while p nm = (nm, []).
Proof. induction 1 as [|x nm Hx _ IH]; cbn [take_while]; [reflexivity|]. rewrite Hx, IH. reflexivity. Qed.
Lemma tail_first_stop ns tail r : RefTail ns tail -> name_stop r -> name_stop (tail ++ r).
Proof.
  intros Ht Hr. destruct Ht as [|w1 w2 nm ns tail Hw1 _ _ _]; [exact Hr|].
  destruct w1 as [|c w1']; cbn [app name_stop]; [reflexivity|]. inversion Hw1 as [|? ? Hc _]; subst.
  apply is_ws_cases in Hc. destruct Hc as [-> |[-> |[-> | ->]]]; reflexivity.
Qed.
Lemma take_name nm x : name_bytes nm -> name_stop x -> take_while name_byte (nm ++ x) = (nm, x).
Proof.
  intros Hn Hx. destruct x as [|c x']; [rewrite app_nil_r; apply take_while_all; exact Hn|apply take_while_app; assumption].
Qed.
Lemma reftail_names ns tail : RefTail ns tail -> forall r acc f, name_stop r -> (match trim_left r with 124 :: _ => False | _ => True end) ->
  (length tail <= f)%nat -> ref_names f (tail ++ r) acc = (rev acc ++ ns, r).
Proof.
  induction 1 as [|w1 w2 nm ns tail Hw1 Hw2 Hnm Hrest IH]; intros r acc f Hstop Hbar Hf.
  - cbn [app]. rewrite (ref_names_stop f r acc Hbar). rewrite app_nil_r. reflexivity.
  - destruct f as [|f]; [rewrite !app_length in Hf; cbn [length] in Hf; lia|]. cbn [ref_names].
    repeat (rewrite <- ?app_assoc; cbn [app]).
    rewrite (trim_left_ws w1 _ Hw1). cbn [trim_left]. change (is_blank 124) with false. cbn iota.
    rewrite (trim_left_ws w2 _ Hw2). cbn [trim_left]. change (is_blank 64) with false. cbn iota.
    rewrite (take_name nm (tail ++ r) Hnm (tail_first_stop ns tail r Hrest Hstop)).
    rewrite (IH r ((64 :: nm) :: acc) f Hstop Hbar); [cbn [rev]; rewrite <- app_assoc; reflexivity|].
    rewrite !app_length in Hf. cbn [length] in Hf. rewrite !app_length in Hf. cbn [length] in Hf. rewrite !app_length in Hf. lia.
Qed.
Lemma slex_ref f ns s r : RefText ns s -> name_stop r -> (match trim_left r with 124 :: _ => False | _ => True end) ->
  slex (S f) (s ++ r) = (do t <- slex f r; Ok (KRef ns :: t)).
Proof.
  intros (nm & rest & tail & -> & -> & Hnm & Htail) Hstop Hbar. cbn [app slex]. change (is_blank 64) with false. cbn [N.eqb Pos.eqb].
  rewrite <- app_assoc. rewrite (take_name nm (tail ++ r) Hnm (tail_first_stop rest tail r Htail Hstop)).
  rewrite (reftail_names rest tail Htail r [64 :: nm] (length (tail ++ r)) Hstop Hbar ltac:(rewrite app_length; lia)). reflexivity.
Qed.

Lemma slex_comment_end c r f : no_nl_b c -> (forall c', c <> 35 :: 35 :: c') -> line_end r -> slex (S f) (35 :: c ++ r) = slex f r.
Proof.
  intros Hc Hnb Hr. cbn [slex]. change (is_blank 35) with false. cbn [N.eqb Pos.eqb].
  rewrite match_not_hh.
  - rewrite (take_line_end c r Hc Hr). reflexivity.
  - intros r' E. destruct c as [|c1 c]; cbn [app] in E.
    + destruct Hr as [-> |(n & r0 & -> & Hn)]; [discriminate|]. inversion E; subst. discriminate Hn.
    + destruct c as [|c2 c]; cbn [app] in E.
      * destruct Hr as [-> |(n & r0 & -> & Hn)]; [discriminate|]. inversion E; subst. discriminate Hn.
      * inversion E; subst. exact (Hnb c eq_refl).
Qed.
Lemma slex_ann_line text a r f : no_nl_b text -> parse_ann text = Some a -> line_end r ->
  slex (S f) (47 :: 47 :: text ++ r) = (do t <- slex f r; Ok (KAnn a :: t)).
Proof.
  intros Ht Hp Hr. cbn [slex]. change (is_blank 47) with false. cbn [N.eqb Pos.eqb]. rewrite (take_line_end text r Ht Hr), Hp. reflexivity.
Qed.
Lemma slex_note_block text r f : (forall u v, text <> u ++ 42 :: 47 :: v) -> (forall u, text <> u ++ [42]) ->
  (exists c x, trim_left text = c :: x /\ c <> 123) ->
  slex (S f) (47 :: 42 :: text ++ 42 :: 47 :: r) = (do t <- slex f r; Ok (KAnn (mk_ann [] (trim text)) :: t)).
Proof.
  intros Hno Hedge (c0 & t0 & Et & Hc0). cbn [slex]. change (is_blank 47) with false. cbn [N.eqb Pos.eqb]. unfold block_ann.
  rewrite (trim_left_app_nb text (42 :: 47 :: r)) by (rewrite Et; exact I). rewrite Et. cbn [app].
  rewrite (take_until2_app 42 47 text r Hno (or_introl Hedge)).
  destruct c0 as [|p]; [reflexivity|]. repeat (destruct p as [p|p|]; try reflexivity). congruence.
Qed.

(* every layout of a token sequence is read back as that token sequence *)
Theorem slex_layout s ts : SLay s ts -> forall f, (length s < f)%nat -> slex f s = Ok ts.
Proof.
  induction 1 as [|c r t Hc _ IH|c k r t Hk _ IH|lit r t Hl Hr _ IH|ns s r t Hs Hstop Hbar _ IH|c r t Hc Hnb Hr _ IH|text a r t Ht Hp Hr _ IH|text r t Hno Hedge Hnote _ IH|x a r t Hb Hlen _ IH];
    intros f Hf.
  - destruct f; [lia|reflexivity].
  - destruct f; [lia|]. cbn [slex]. rewrite Hc. apply IH. cbn [length] in Hf. lia.
  - destruct f; [lia|]. rewrite (slex_punct f c k r Hk). rewrite IH by (cbn [length] in Hf; lia). reflexivity.
  - destruct f; [lia|]. rewrite (slex_scal f lit r Hl Hr). rewrite IH; [reflexivity|].
    destruct (scalar_first lit Hl) as (c & l' & -> & _). rewrite app_length in Hf. cbn [length] in Hf. lia.
  - destruct f; [lia|]. rewrite (slex_ref f ns s r Hs Hstop Hbar). rewrite IH; [reflexivity|].
    destruct Hs as (nm & rest & tail & _ & -> & _). rewrite app_length in Hf. cbn [length] in Hf. lia.
  - destruct f; [lia|]. rewrite (slex_comment_end c r f Hc Hnb Hr). apply IH. cbn [length] in Hf. rewrite app_length in Hf. lia.
  - destruct f; [lia|]. rewrite (slex_ann_line text a r f Ht Hp Hr). rewrite IH; [reflexivity|]. cbn [length] in Hf. rewrite app_length in Hf. lia.
  - destruct f; [lia|]. rewrite (slex_note_block text r f Hno Hedge Hnote). rewrite IH; [reflexivity|].
    cbn [length] in Hf. rewrite app_length in Hf. cbn [length] in Hf. lia.
  - destruct f; [lia|]. cbn [slex]. change (is_blank 47) with false. cbn [N.eqb Pos.eqb]. rewrite Hb.
    rewrite IH; [reflexivity|]. cbn [length] in Hf. lia.
Qed.

(* layout independence of the model, in one statement: whatever the layout of a writing of a tree, the tree is that tree *)
Corollary sparse_layout v tv s : TR v tv -> SLay s tv -> sparse s = Some v.
Proof. intros Ht Hs. unfold sparse. rewrite (slex_layout s tv Hs (S (length s)) ltac:(lia)). apply sparse_toks_complete. exact Ht. Qed.
Corollary two_layouts v tv s1 s2 : TR v tv -> SLay s1 tv -> SLay s2 tv -> sparse s1 = sparse s2.
Proof. intros Ht H1 H2. rewrite (sparse_layout v tv s1 Ht H1), (sparse_layout v tv s2 Ht H2). reflexivity. Qed.
