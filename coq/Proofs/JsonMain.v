(* Whole-run theorems for the JSON document scanner model. *)
From Coq Require Import List ZArith NArith Bool Lia.
From JS Require Import Base.Res Base.Lex Spec.JsonGrammar Model.JsonScan Proofs.JsonClasses Proofs.JsonSound.
Import ListNotations.
Local Open Scope Z_scope.

Lemma eof_ok al a c : abs al a c ->
  match jeof (S (S (length (jstack c)))) (jstack c) (jindex c) (junf c) with
  | Ok ls => (a = ARoot /\ ls = []) \/ L al a []
  | Err e => e = 303%N
  | Panic _ => False
  end.
Proof.
  intros Ha. destruct Ha; cbn [jstack jindex junf];
  try match goal with H : shape _ _ |- _ => destruct H end;
  try (destruct p; cbn [pos_stack pos_unf pos_ctx] in *);
  try match goal with H : shape _ _ |- _ => destruct H end;
  try (destruct sub; cbn [num_unf num_complete negb]);
  cbn -[L Tail]; try reflexivity; try (left; split; reflexivity); right.
  all: try apply tail_top_nil.
  all: try (apply num_done; [reflexivity|apply tail_top_nil]).
Qed.


Lemma run_sound al : forall s a c acc, all_bytes s -> abs al a c -> (a = ARoot -> acc = []) ->
  forall ls i, jrun c s acc = (Ok ls, i) -> L al a s \/ filter not_end_top ls = [].
Proof.
  induction s as [|b r IH]; intros a c acc Hs Ha Hacc ls i Hrun.
  - cbn [jrun] in Hrun. pose proof (eof_ok al a c Ha) as He.
    destruct (jeof _ _ _ _) as [ls'| |]; inversion Hrun; subst.
    destruct He as [[-> ->]|He]; [right; rewrite (Hacc eq_refl); reflexivity|left; exact He].
  - inversion Hs as [|? ? Hb Hr]; subst. cbn [jrun] in Hrun.
    pose proof (step_sound al a c b Hb Ha) as Hst. unfold step_ok in Hst.
    destruct (jfeed c b) as [[c' lx]| |]; [|inversion Hrun|inversion Hrun].
    fold (has_end_top lx) in Hrun. destruct (has_end_top lx).
    + left. apply Hst.
    + destruct Hst as (a' & Ha' & Hcl & Hroot).
      destruct (IH a' c' (acc ++ lx) Hr Ha') with (ls := ls) (i := i) as [H|H]; auto.
      intros E. destruct (Hroot E) as [E2 ->]. rewrite (Hacc E2). reflexivity.
Qed.

(* C12, sound direction: what Check() accepts is a JSON text (value surrounded by optional whitespace) ... *)
Theorem check_sound s i : all_bytes s -> jcheck false s = (Ok tt, i) -> JText s.
Proof.
  intros Hs H. unfold jcheck, jlexemes in H.
  destruct (jrun (jcfg0 false) s []) as [[ls| |] j] eqn:Hr; try discriminate.
  destruct (run_sound false s ARoot (jcfg0 false) [] Hs (abs_root false 0) (fun _ => eq_refl) ls j Hr) as [HL|HF].
  - destruct HL as (w & v & t & -> & Hw & Hv & Ht). exists w, v, t. auto.
  - rewrite HF in H. discriminate.
Qed.
(* ... and with the trailing-characters option: a JSON value followed by anything *)
Theorem check_trailing_sound s i : all_bytes s -> jcheck true s = (Ok tt, i) ->
  exists w v rest, s = w ++ v ++ rest /\ ws w /\ JValue v.
Proof.
  intros Hs H. unfold jcheck, jlexemes in H.
  destruct (jrun (jcfg0 true) s []) as [[ls| |] j] eqn:Hr; try discriminate.
  destruct (run_sound true s ARoot (jcfg0 true) [] Hs (abs_root true 0) (fun _ => eq_refl) ls j Hr) as [HL|HF].
  - destruct HL as (w & v & t & -> & Hw & Hv & Ht). exists w, v, t. auto.
  - rewrite HF in H. discriminate.
Qed.

(* no panic, no internal failure code, and every error position lies inside the text *)
Lemma feed_index c b c' lx : jfeed c b = Ok (c', lx) -> jindex c' = jindex c + 1.
Proof.
  unfold jfeed. destruct (jstep_fn _ _) as [d| |]; cbn [bind]; try discriminate.
  destruct (drain _ _ _) as [[st lxs]| |]; cbn [bind]; try discriminate. intros H; inversion H; reflexivity.
Qed.

Lemma run_errors al : forall s a c acc, all_bytes s -> abs al a c -> 0 <= jindex c -> (jstack c = [] \/ 1 <= jindex c) ->
  match jrun c s acc with
  | (Ok _, _) => True
  | (Err e, i) => (e = 301%N \/ e = 303%N) /\ 0 <= i < jindex c + Z.of_nat (length s)
  | (Panic _, _) => False
  end.
Proof.
  induction s as [|b r IH]; intros a c acc Hs Ha Hpos Hst0.
  - cbn [jrun]. pose proof (eof_ok al a c Ha) as He.
    destruct (jeof _ _ _ _) as [ls'|e|] eqn:Hj; auto. subst e. split; [auto|]. cbn [length].
    destruct Hst0 as [Hnil|H1]; [|lia]. rewrite Hnil in Hj. cbn in Hj. discriminate.
  - inversion Hs as [|? ? Hb Hr]; subst. cbn [jrun].
    pose proof (step_sound al a c b Hb Ha) as Hst. unfold step_ok in Hst.
    destruct (jfeed c b) as [[c' lx]|e|] eqn:Hf.
    + fold (has_end_top lx). destruct (has_end_top lx); [exact I|].
      destruct Hst as (a' & Ha' & _). pose proof (feed_index _ _ _ _ Hf) as Hi.
      specialize (IH a' c' (acc ++ lx) Hr Ha' ltac:(lia) ltac:(right; lia)). rewrite Hi in IH. cbn [length].
      destruct (jrun c' r (acc ++ lx)) as [[ls|e|] j]; auto.
      destruct IH as [He Hj]. split; [exact He|lia].
    + subst e. split; [auto|]. cbn [length]. lia.
    + exact Hst.
Qed.

(* C12/C02/C16 for this entry point: for every byte string and both option values the scanner returns
   lexemes or a designed error (301 invalid character, 303 unexpected end) positioned inside the text *)
Theorem lexemes_total al s : all_bytes s ->
  match jlexemes al s with
  | (Ok _, _) => True
  | (Err e, i) => (e = 301%N \/ e = 303%N) /\ 0 <= i < Z.of_nat (length s)
  | (Panic _, _) => False
  end.
Proof.
  intros Hs. unfold jlexemes.
  exact (run_errors al s ARoot (jcfg0 al) [] Hs (abs_root al 0) ltac:(cbn; lia) ltac:(left; reflexivity)).
Qed.
