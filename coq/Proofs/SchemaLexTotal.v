(* Totality of the schema lexer model (Model/SchemaText.v): with fuel above the length of the text, slex returns tokens or
   one of two designed error codes (301 invalid character, 303 unexpected end) - it never runs out of fuel, because every
   helper hands back a remainder that is no longer than what it was given. *)
From Coq Require Import List NArith Bool Lia.
From JS Require Import Base.Res Spec.JsonGrammar Model.EnumParse Model.SchemaText Proofs.EnumProofs Proofs.JsonValueProofs Proofs.SchemaTextProofs Proofs.AnnotationProofs.
Import ListNotations.
Local Open Scope N_scope.

Ltac dhead c := destruct c as [|?p]; [|do 7 (try match goal with p : positive |- _ => destruct p as [p|p|] end)].

Lemma trim_left_len s : (length (trim_left s) <= length s)%nat.
Proof. induction s as [|c r IH]; [cbn; lia|]. cbn [trim_left]. destruct (is_blank c); cbn [length]; lia. Qed.
Lemma take_while_len p s : (length (snd (take_while p s)) <= length s)%nat.
Proof. induction s as [|c r IH]; [cbn; lia|]. cbn [take_while]. destruct (p c); [destruct (take_while p r); cbn [snd length] in *; lia|cbn; lia]. Qed.
Lemma take_line_len s : (length (snd (take_line s)) <= length s)%nat.
Proof. induction s as [|c r IH]; [cbn; lia|]. cbn [take_line]. destruct (is_nl c); [cbn; lia|destruct (take_line r); cbn [snd length] in *; lia]. Qed.
Lemma take_until2_len x y : forall s u v, take_until2 x y s = Some (u, v) -> (length v <= length s)%nat.
Proof.
  induction s as [|a t IH]; intros u v H; [discriminate|]. cbn [take_until2] in H. destruct t as [|b r]; [discriminate|].
  destruct ((a =? x) && (b =? y)); [inversion H; subst; cbn [length]; lia|].
  destruct (take_until2 x y (b :: r)) as [[u' v']|] eqn:E; [|discriminate]. inversion H; subst. specialize (IH u' v eq_refl). cbn [length] in *. lia.
Qed.
Lemma take_until3_len x : forall s u v, take_until3 x s = Some (u, v) -> (length v <= length s)%nat.
Proof.
  induction s as [|a t IH]; intros u v H; [discriminate|]. cbn [take_until3] in H. destruct t as [|b [|c r]]; try discriminate.
  destruct ((a =? x) && (b =? x) && (c =? x)); [inversion H; subst; cbn [length]; lia|].
  destruct (take_until3 x (b :: c :: r)) as [[u' v']|] eqn:E; [|discriminate]. inversion H; subst. specialize (IH u' v eq_refl). cbn [length] in *. lia.
Qed.
Lemma scalar_len s lit rest : scalar s = Some (lit, rest) -> (length rest <= length s)%nat.
Proof. intros H. apply scalar_spec in H. destruct H as [-> _]. rewrite app_length. lia. Qed.
Lemma str_body_len s acc k r : str_body s acc = Some (k, r) -> (length r <= length s)%nat.
Proof. intros H. destruct (str_body_spec s acc k r H) as (b & -> & _). rewrite app_length. cbn [length]. lia. Qed.

(* the rule-object reader hands back a suffix *)
Lemma prval_len : forall f,
  (forall s v r, prval f s = Some (v, r) -> (length r <= length s)%nat) /\
  (forall s acc v r, pritems f s acc = Some (v, r) -> (length r <= length s)%nat) /\
  (forall s acc v r, prmembers f s acc = Some (v, r) -> (length r <= length s)%nat).
Proof.
  induction f as [|f (IHV & IHI & IHM)]; [repeat split; intros; discriminate|].
  assert (HV : forall s v r, prval (S f) s = Some (v, r) -> (length r <= length s)%nat).
  { intros s v r H. pose proof (trim_left_len s) as Ht. rewrite prval_eq in H. destruct (trim_left s) as [|c t] eqn:Es.
    - destruct (scalar []) as [[l rest]|] eqn:Sc; [|discriminate]. inversion H; subst. apply scalar_len in Sc. cbn [length] in *. lia.
    - pose proof (trim_left_len t) as Ht2. cbn [length] in Ht.
      destruct (c =? 91).
      { destruct (trim_left t) as [|c' r'] eqn:Et; [apply IHI in H; lia|].
        destruct (c' =? 93); [inversion H; subst; cbn [length] in *; lia|apply IHI in H; lia]. }
      destruct (c =? 123).
      { destruct (trim_left t) as [|c' r'] eqn:Et; [apply IHM in H; lia|].
        destruct (c' =? 125); [inversion H; subst; cbn [length] in *; lia|apply IHM in H; lia]. }
      destruct (c =? 64).
      { pose proof (take_while_len name_byte t) as X. destruct (take_while name_byte t) as [nm r'] eqn:Ew. inversion H; subst. cbn [snd] in X. lia. }
      destruct (scalar (c :: t)) as [[l rest]|] eqn:Sc; [|discriminate]. inversion H; subst. apply scalar_len in Sc. cbn [length] in Sc. lia. }
  assert (HI : forall s acc v r, pritems (S f) s acc = Some (v, r) -> (length r <= length s)%nat).
  { intros s acc v r H. rewrite pritems_eq in H. destruct (prval f s) as [[v1 r1]|] eqn:Ep; [|discriminate]. apply IHV in Ep.
    pose proof (trim_left_len r1) as Ht. destruct (trim_left r1) as [|c r'] eqn:Et; [discriminate|]. cbn [length] in Ht.
    destruct (c =? 44); [apply IHI in H; lia|]. destruct (c =? 93); [inversion H; subst; lia|discriminate]. }
  assert (HM : forall s acc v r, prmembers (S f) s acc = Some (v, r) -> (length r <= length s)%nat).
  { intros s acc v r H. rewrite prmembers_eq in H. pose proof (trim_left_len s) as Ht0.
    assert (Hkey : forall k r1, key_of_text (trim_left s) = Some (k, r1) -> (length r1 <= length s)%nat).
    { intros k r1 Hk. unfold key_of_text, bare_key in Hk. destruct (trim_left s) as [|c t] eqn:Es; [cbn in Hk; discriminate|].
      cbn [length] in Ht0. destruct (c =? 34).
      - destruct (str_body t [34]) as [[k0 r0]|] eqn:Eb; [|discriminate]. inversion Hk; subst. apply str_body_len in Eb. lia.
      - pose proof (take_while_len name_byte (c :: t)) as L. destruct (take_while name_byte (c :: t)) as [nm r2]. destruct nm; [discriminate|]. inversion Hk; subst. cbn [snd length] in L. lia. }
    destruct (key_of_text (trim_left s)) as [[k r1]|]; [|discriminate]. specialize (Hkey k r1 eq_refl).
    pose proof (trim_left_len r1) as Ht1. destruct (trim_left r1) as [|c1 r2] eqn:E1; [discriminate|]. cbn [length] in Ht1.
    destruct (c1 =? 58); [|discriminate].
    destruct (prval f r2) as [[v1 r3]|] eqn:Ep; [|discriminate]. apply IHV in Ep.
    pose proof (trim_left_len r3) as Ht3. destruct (trim_left r3) as [|c3 r4] eqn:E3; [discriminate|]. cbn [length] in Ht3.
    destruct (c3 =? 44); [apply IHM in H; lia|]. destruct (c3 =? 125); [inversion H; subst; lia|discriminate]. }
  auto.
Qed.

Lemma block_ann_len s a rest : block_ann s = Some (a, rest) -> (length rest <= length s)%nat.
Proof.
  unfold block_ann. intros H.
  assert (Hnote : match take_until2 42 47 s with Some (text, after) => Some (mk_ann [] (trim text), after) | None => None end = Some (a, rest) -> (length rest <= length s)%nat).
  { intros X. destruct (take_until2 42 47 s) as [[u v]|] eqn:E; [|discriminate]. inversion X; subst. exact (take_until2_len _ _ _ _ _ E). }
  destruct (trim_left s) as [|c t]; [exact (Hnote H)|].
  dhead c; try exact (Hnote H).
  destruct (prval (S (2 * length s)) s) as [[v r0]|] eqn:Ep; [|discriminate].
  pose proof (proj1 (prval_len _) _ _ _ Ep) as L0.
  destruct v as [l|items|ms]; try discriminate.
  destruct (take_until2 42 47 r0) as [[tail after]|] eqn:E; [|discriminate]. pose proof (take_until2_len _ _ _ _ _ E) as L1.
  destruct (trim_left tail) as [|c' note]; [inversion H; subst; lia|].
  dhead c'; try discriminate. inversion H; subst. lia.
Qed.

Lemma ref_names_len : forall f s acc, (length (snd (ref_names f s acc)) <= length s)%nat.
Proof.
  induction f as [|f IH]; intros s acc; [cbn; lia|]. cbn [ref_names]. pose proof (trim_left_len s) as Ht.
  destruct (trim_left s) as [|c r]; [cbn; lia|].
  assert (Hd : (length (snd (rev acc, s)) <= length s)%nat) by (cbn; lia).
  dhead c; try exact Hd.
  pose proof (trim_left_len r) as Ht2. destruct (trim_left r) as [|c' r']; [exact Hd|].
  dhead c'; try exact Hd.
  pose proof (take_while_len name_byte r') as L. destruct (take_while name_byte r') as [nm r''] eqn:E. cbn [snd] in L.
  specialize (IH r'' ((64 :: nm) :: acc)). cbn [length] in *. lia.
Qed.

Definition lex_res_ok (r : res (list stok)) : Prop :=
  match r with Ok _ => True | Err c => c = 301 \/ c = 303 | Panic _ => False end.
Lemma bind_ok (r : res (list stok)) k : lex_res_ok r -> lex_res_ok (do t <- r; Ok (k :: t)).
Proof. destruct r; cbn; auto. Qed.

(* C02 / C16 for the schema lexer model *)
Theorem slex_total : forall f s, (length s < f)%nat -> lex_res_ok (slex f s).
Proof.
  induction f as [|f IH]; intros s Hf; [lia|]. destruct s as [|c r]; [exact I|]. cbn [length] in Hf. cbn [slex].
  destruct (is_blank c); [apply IH; lia|].
  destruct (c =? 123); [apply bind_ok, IH; lia|]. destruct (c =? 125); [apply bind_ok, IH; lia|].
  destruct (c =? 91); [apply bind_ok, IH; lia|]. destruct (c =? 93); [apply bind_ok, IH; lia|].
  destruct (c =? 44); [apply bind_ok, IH; lia|]. destruct (c =? 58); [apply bind_ok, IH; lia|].
  destruct (c =? 35).
  { assert (Hl : lex_res_ok (slex f (snd (take_line r)))) by (apply IH; pose proof (take_line_len r); lia).
    destruct r as [|c1 r1]; [exact Hl|]. dhead c1; try exact Hl.
    destruct r1 as [|c2 r2]; [exact Hl|]. dhead c2; try exact Hl.
    destruct (take_until3 35 r2) as [[u v]|] eqn:E; [|right; reflexivity]. apply IH. pose proof (take_until3_len _ _ _ _ E). cbn [length] in *. lia. }
  destruct (c =? 47).
  { destruct r as [|c1 r1]; [left; reflexivity|].
    destruct (N.eq_dec c1 42) as [->|N42].
    { (* block *) destruct (block_ann r1) as [[a rest]|] eqn:E; [|left; reflexivity]. apply bind_ok, IH. pose proof (block_ann_len _ _ _ E). cbn [length] in *. lia. }
    destruct (N.eq_dec c1 47) as [->|N47].
    { (* line *) pose proof (take_line_len r1) as L. destruct (take_line r1) as [text rest]. cbn [snd] in L.
      destruct (parse_ann text); [|left; reflexivity]. apply bind_ok, IH. cbn [length] in *. lia. }
    dhead c1; try (left; reflexivity); congruence. }
  destruct (c =? 64).
  { pose proof (take_while_len name_byte r) as L1. destruct (take_while name_byte r) as [nm r'] eqn:E. cbn [snd] in L1.
    pose proof (ref_names_len (length r') r' [64 :: nm]) as L2. destruct (ref_names (length r') r' [64 :: nm]) as [names rest]. cbn [snd] in L2.
    apply bind_ok, IH. lia. }
  destruct (scalar (c :: r)) as [[lit rest]|] eqn:E; [|left; reflexivity].
  apply bind_ok, IH. apply scalar_spec in E. destruct E as [E Hl].
  destruct (scalar_head lit Hl) as (c0 & l' & -> & _). cbn [app] in E. inversion E; subst. rewrite app_length in Hf. lia.
Qed.
