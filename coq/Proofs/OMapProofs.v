From Coq Require Import List Arith NArith Bool Lia.
From JS Require Import Base.Wire Spec.Dict Model.OMap.
Import ListNotations.
Local Open Scope N_scope.

Definition items d ks : list (K * V) := map (fun k => (k, getd k d)) ks.
Definition Inv (m : omap) : Prop :=
  NoDup (order m) /\ NoDup (map fst (data m)) /\ (forall k, In k (order m) <-> In k (map fst (data m))).
Definition abs (m : omap) : dict := items (data m) (order m).

Lemma mget_In d k : (exists v, mget k d = Some v) <-> In k (map fst d).
Proof.
  induction d as [|[k' v'] d IH]; cbn.
  - split; [intros [v H]; discriminate | tauto].
  - destruct (N.eqb_spec k' k) as [->|Hne].
    + split; [auto | intros _; eauto].
    + rewrite IH. split; [auto | intros [H|H]; [congruence | auto]].
Qed.
Lemma mhas_In d k : mhas k d = true <-> In k (map fst d).
Proof.
  rewrite <- mget_In. unfold mhas. destruct (mget k d); split; intros H; eauto; try discriminate.
  destruct H; discriminate.
Qed.
Lemma mhas_false d k : mhas k d = false <-> ~ In k (map fst d).
Proof. rewrite <- mhas_In. destruct (mhas k d); split; congruence. Qed.
Lemma mget_none d k : ~ In k (map fst d) -> mget k d = None.
Proof.
  intros H. destruct (mget k d) eqn:E; [|reflexivity]. exfalso. apply H, mget_In. eauto.
Qed.

Lemma mget_mput d k v k' : mget k' (mput k v d) = if k =? k' then Some v else mget k' d.
Proof.
  induction d as [|[a b] d IH]; cbn.
  - destruct (N.eqb_spec k k'); reflexivity.
  - destruct (N.eqb_spec a k) as [->|Hak]; cbn.
    + destruct (N.eqb_spec k k'); reflexivity.
    + destruct (N.eqb_spec a k') as [->|Hak'].
      * destruct (N.eqb_spec k k'); [congruence|reflexivity].
      * apply IH.
Qed.
Lemma getd_mput d k v k' : getd k' (mput k v d) = if k =? k' then v else getd k' d.
Proof. unfold getd. rewrite mget_mput. destruct (k =? k'); reflexivity. Qed.
Lemma keys_mput d k v :
  map fst (mput k v d) = if mhas k d then map fst d else map fst d ++ [k].
Proof.
  induction d as [|[a b] d IH]; cbn; [reflexivity|].
  unfold mhas in *; cbn. destruct (N.eqb_spec a k) as [->|Hak]; cbn; [reflexivity|].
  rewrite IH. destruct (mget k d); reflexivity.
Qed.
Lemma mget_mdel d k k' : mget k' (mdel k d) = if k =? k' then None else mget k' d.
Proof.
  induction d as [|[a b] d IH]; cbn.
  - destruct (k =? k'); reflexivity.
  - fold (mdel k d). destruct (N.eqb_spec a k) as [->|Hak]; cbn.
    + rewrite IH. destruct (N.eqb_spec k k'); reflexivity.
    + destruct (N.eqb_spec a k') as [->|Hak'].
      * destruct (N.eqb_spec k k'); [congruence|reflexivity].
      * apply IH.
Qed.
Lemma getd_mdel d k k' : k <> k' -> getd k' (mdel k d) = getd k' d.
Proof. intros H. unfold getd. rewrite mget_mdel. destruct (N.eqb_spec k k'); [congruence|reflexivity]. Qed.
Lemma keys_mdel d k : map fst (mdel k d) = filter (fun x => negb (x =? k)) (map fst d).
Proof.
  unfold mdel. induction d as [|[a b] d IH]; cbn; [reflexivity|].
  destruct (a =? k); cbn; rewrite IH; reflexivity.
Qed.

Lemma filter_all_id {A} (f : A -> bool) l : (forall x, In x l -> f x = true) -> filter f l = l.
Proof.
  induction l as [|x l IH]; intros H; cbn; [reflexivity|].
  rewrite (H x) by (left; reflexivity). f_equal. apply IH. intros y Hy. apply H. right; assumption.
Qed.

Lemma NoDup_snoc {A} (l : list A) k : NoDup l -> ~ In k l -> NoDup (l ++ [k]).
Proof.
  intros Hl Hk. rewrite <- (rev_involutive (l ++ [k])). apply NoDup_rev. rewrite rev_app_distr; cbn.
  constructor; [rewrite <- in_rev; assumption | apply NoDup_rev; assumption].
Qed.

Lemma cut_first_filter k l : NoDup l -> cut_first k l = filter (fun x => negb (x =? k)) l.
Proof.
  induction l as [|x l IH]; intros Hnd; cbn; [reflexivity|].
  inversion Hnd as [|? ? Hx Hl]; subst.
  destruct (N.eqb_spec x k) as [->|Hne]; cbn.
  - symmetry. apply filter_all_id. intros y Hy.
    destruct (N.eqb_spec y k); [subst; contradiction|reflexivity].
  - f_equal. auto.
Qed.

Lemma items_ext d d' ks : (forall k, In k ks -> getd k d = getd k d') -> items d ks = items d' ks.
Proof. intros H. apply map_ext_in. intros k Hk. rewrite H; auto. Qed.

Lemma dget_items d ks k : dget k (items d ks) = if memN k ks then Some (getd k d) else None.
Proof.
  induction ks as [|x ks IH]; cbn; [reflexivity|].
  destruct (N.eqb_spec x k) as [->|Hne]; cbn; [reflexivity|apply IH].
Qed.
Lemma memN_In k l : memN k l = true <-> In k l.
Proof.
  induction l as [|x l IH]; cbn; [split; [discriminate|tauto]|].
  rewrite orb_true_iff, IH, N.eqb_eq. tauto.
Qed.
Lemma memN_false k l : memN k l = false <-> ~ In k l.
Proof. rewrite <- memN_In. destruct (memN k l); split; congruence. Qed.

Lemma dget_abs m k : Inv m -> dget k (abs m) = mget k (data m).
Proof.
  intros (_ & _ & Hk). unfold abs. rewrite dget_items.
  destruct (memN k (order m)) eqn:E.
  - apply memN_In, Hk, mget_In in E. destruct E as [v Hv]. unfold getd. rewrite Hv. reflexivity.
  - apply memN_false in E. rewrite mget_none; [reflexivity|]. rewrite <- Hk. assumption.
Qed.
Lemma dhas_abs m k : Inv m -> dhas k (abs m) = mhas k (data m).
Proof. intros H. unfold dhas, mhas. rewrite dget_abs by assumption. reflexivity. Qed.

Lemma len_abs m : Inv m -> length (abs m) = length (data m).
Proof.
  intros (Ho & Hd & Hk). unfold abs, items. rewrite map_length.
  rewrite <- (map_length fst (data m)).
  apply Nat.le_antisymm; apply NoDup_incl_length; auto; intros k; apply Hk.
Qed.

Lemma drepl_items d ks k f :
  drepl k f (items d ks) = map (fun x => (x, if x =? k then f (getd x d) else getd x d)) ks.
Proof.
  unfold drepl, items. rewrite map_map. apply map_ext. intros x; cbn.
  destruct (x =? k); reflexivity.
Qed.

(* --- per-operation refinement --- *)
Lemma set_ok m k v : Inv m -> abs (set_m k v m) = dset k v (abs m) /\ Inv (set_m k v m).
Proof.
  intros HI. pose proof HI as (Ho & Hd & Hk).
  unfold dset. rewrite dhas_abs by assumption. unfold abs, set_m, Inv; cbn.
  rewrite keys_mput. destruct (mhas k (data m)) eqn:E.
  - split.
    + rewrite drepl_items. apply map_ext. intros x. rewrite getd_mput.
      rewrite N.eqb_sym. reflexivity.
    + auto.
  - apply mhas_false in E. assert (Hnk : ~ In k (order m)) by (rewrite Hk; assumption). split.
    + unfold items. rewrite map_app; cbn. rewrite getd_mput, N.eqb_refl. f_equal.
      apply map_ext_in. intros x Hx. rewrite getd_mput.
      destruct (N.eqb_spec k x); [subst; contradiction|reflexivity].
    + split; [|split].
      * apply NoDup_snoc; assumption.
      * apply NoDup_snoc; assumption.
      * intros x. rewrite !in_app_iff, Hk. tauto.
Qed.

Lemma update_ok m k f : Inv m -> abs (update_m k f m) = dupdate k f (abs m) /\ Inv (update_m k f m).
Proof.
  intros HI. pose proof HI as (Ho & Hd & Hk).
  unfold dupdate, update_m. destruct (mhas k (data m)) eqn:E.
  - unfold abs, Inv; cbn. rewrite keys_mput, E. split; [|auto].
    rewrite drepl_items. apply map_ext. intros x. rewrite getd_mput.
    destruct (N.eqb_spec k x) as [->|Hne]; [rewrite N.eqb_refl; reflexivity|].
    destruct (N.eqb_spec x k); [congruence|reflexivity].
  - split; [|assumption]. apply mhas_false in E. unfold abs. rewrite drepl_items.
    apply map_ext_in. intros x Hx. destruct (N.eqb_spec x k); [|reflexivity].
    subst. exfalso. apply E, Hk, Hx.
Qed.

Lemma ddelete_items d ks k :
  ddelete k (items d ks) = items d (filter (fun x => negb (x =? k)) ks).
Proof.
  unfold ddelete, items. induction ks as [|x ks IH]; cbn; [reflexivity|].
  destruct (x =? k); cbn; rewrite IH; reflexivity.
Qed.

Lemma delete_ok m k : Inv m -> abs (delete_m k m) = ddelete k (abs m) /\ Inv (delete_m k m).
Proof.
  intros HI. pose proof HI as (Ho & Hd & Hk).
  unfold delete_m. destruct (mhas k (data m)) eqn:E.
  - unfold abs, Inv; cbn. rewrite cut_first_filter by assumption. rewrite keys_mdel. split.
    + rewrite ddelete_items. apply items_ext. intros x Hx. apply filter_In in Hx. destruct Hx as [_ Hx].
      apply getd_mdel. destruct (N.eqb_spec x k); [discriminate|congruence].
    + split; [apply NoDup_filter; assumption|split; [apply NoDup_filter; assumption|]].
      intros x. rewrite !filter_In, Hk. tauto.
  - split; [|assumption]. apply mhas_false in E. unfold abs. rewrite ddelete_items. f_equal.
    symmetry. apply filter_all_id. intros x Hx.
    destruct (N.eqb_spec x k); [subst; exfalso; apply E, Hk, Hx|reflexivity].
Qed.

Lemma filter_filter {A} (f g : A -> bool) l : filter g (filter f l) = filter (fun x => f x && g x) l.
Proof.
  induction l as [|x l IH]; cbn; [reflexivity|].
  destruct (f x); cbn; [destruct (g x); rewrite IH; reflexivity | assumption].
Qed.

Lemma filter_step m k (f : K -> V -> bool) : Inv m ->
  let m1 := if f k (getd k (data m)) then m else delete_m k m in
  abs m1 = filter (fun kv => negb (fst kv =? k) || f (fst kv) (snd kv)) (abs m) /\ Inv m1.
Proof.
  intros HI; cbn. destruct (f k (getd k (data m))) eqn:E.
  - split; [|assumption]. symmetry. apply filter_all_id.
    intros [x v] Hx; cbn. unfold abs, items in Hx. apply in_map_iff in Hx. destruct Hx as (y & Hy & _).
    inversion Hy; subst. destruct (N.eqb_spec x k); [subst; rewrite E; reflexivity|reflexivity].
  - destruct (delete_ok m k HI) as [Ha Hi]. split; [|assumption]. rewrite Ha. unfold ddelete.
    apply filter_ext_in. intros [x v] Hx; cbn. unfold abs, items in Hx. apply in_map_iff in Hx.
    destruct Hx as (y & Hy & _). inversion Hy; subst.
    destruct (N.eqb_spec x k); [subst; rewrite E; reflexivity|reflexivity].
Qed.

Lemma filter_fold (f : K -> V -> bool) ks : forall m, Inv m ->
  let m' := fold_left (fun m k => if f k (getd k (data m)) then m else delete_m k m) ks m in
  abs m' = filter (fun kv => negb (memN (fst kv) ks) || f (fst kv) (snd kv)) (abs m) /\ Inv m'.
Proof.
  induction ks as [|k ks IH]; intros m HI; cbn.
  - split; [|assumption]. symmetry. apply filter_all_id. reflexivity.
  - destruct (filter_step m k f HI) as [Ha Hi]. cbn in Ha, Hi.
    destruct (IH _ Hi) as [Ha' Hi']. cbn in Ha', Hi'. split; [|assumption].
    rewrite Ha', Ha, filter_filter. apply filter_ext. intros [x v]; cbn.
    rewrite N.eqb_sym.
    destruct (k =? x), (memN x ks), (f x v); reflexivity.
Qed.

Lemma filter_ok m f : Inv m -> abs (filter_m f m) = dfilter f (abs m) /\ Inv (filter_m f m).
Proof.
  intros HI. destruct (filter_fold f (order m) m HI) as [Ha Hi]. cbn in *. split; [|assumption].
  unfold filter_m. rewrite Ha. unfold dfilter. apply filter_ext_in. intros [x v] Hx; cbn.
  unfold abs, items in Hx. apply in_map_iff in Hx. destruct Hx as (y & Hy & Hin). inversion Hy; subst.
  apply memN_In in Hin. rewrite Hin. reflexivity.
Qed.

Lemma find_ok d ks f : dfind f (items d ks) = find_go f d ks.
Proof.
  unfold dfind. induction ks as [|k ks IH]; cbn; [reflexivity|].
  destruct (f k (getd k d)); [reflexivity|assumption].
Qed.
Lemma each_ok d ks f : deach f (items d ks) = each_go f d ks.
Proof.
  induction ks as [|k ks IH]; cbn; [reflexivity|].
  destruct (f k (getd k d)); [reflexivity|assumption].
Qed.

Lemma map_go_ok f ks : forall d pre, NoDup ks ->
  (forall k, In k ks -> In k (map fst d)) ->
  let (d', e) := map_go f d ks in
  dmap f (items d ks) = (items d' ks, e) /\ map fst d' = map fst d /\
  (forall k, ~ In k ks -> getd k d' = getd k d) /\ (pre = pre :> list K).
Proof.
  unfold items. induction ks as [|k ks IH]; intros d pre Hnd Hin; cbn.
  - repeat split; reflexivity.
  - inversion Hnd as [|? ? Hk Hks]; subst.
    destruct (f k (getd k d)) as [v|e] eqn:E.
    + specialize (IH (mput k v d) pre Hks).
      assert (Hhas : mhas k d = true) by (apply mhas_In, Hin; left; reflexivity).
      assert (Hin' : forall x, In x ks -> In x (map fst (mput k v d))).
      { intros x Hx. rewrite keys_mput, Hhas. apply Hin. right; assumption. }
      specialize (IH Hin'). destruct (map_go f (mput k v d) ks) as [d' e'].
      destruct IH as (H1 & H2 & H3 & _).
      assert (Hit : map (fun k0 => (k0, getd k0 (mput k v d))) ks = map (fun k0 => (k0, getd k0 d)) ks).
      { apply map_ext_in. intros x Hx. rewrite getd_mput. destruct (N.eqb_spec k x); [subst; contradiction|reflexivity]. }
      rewrite Hit in H1. rewrite H1. repeat split.
      * rewrite (H3 k Hk), getd_mput, N.eqb_refl. reflexivity.
      * rewrite H2, keys_mput, Hhas. reflexivity.
      * intros x Hx. rewrite H3 by tauto. rewrite getd_mput.
        destruct (N.eqb_spec k x); [subst; exfalso; apply Hx; left; reflexivity|reflexivity].
    + repeat split; reflexivity.
Qed.

Lemma map_ok m f : Inv m ->
  let (m', e) := map_m f m in dmap f (abs m) = (abs m', e) /\ Inv m'.
Proof.
  intros HI. pose proof HI as (Ho & Hd & Hk). unfold map_m.
  pose proof (map_go_ok f (order m) (data m) [] Ho (fun k H => proj1 (Hk k) H)) as H.
  destruct (map_go f (data m) (order m)) as [d' e]. destruct H as (H1 & H2 & _ & _).
  split; [exact H1|]. unfold Inv; cbn. rewrite H2. auto.
Qed.

Lemma step_refines m o : Inv m ->
  let (m', x) := step_m m o in step_d (abs m) o = (abs m', x) /\ Inv m'.
Proof.
  intros HI. destruct o; cbn [step_m step_d].
  - destruct (set_ok m k v HI) as [-> ?]; auto.
  - destruct (update_ok m k f HI) as [-> ?]; auto.
  - destruct (delete_ok m k HI) as [-> ?]; auto.
  - destruct (filter_ok m f HI) as [-> ?]; auto.
  - pose proof (map_ok m f HI) as H. destruct (map_m f m) as [m' e]. destruct H as [-> ?]; auto.
  - unfold find_m, abs. rewrite find_ok; auto.
  - unfold each_m, abs. rewrite each_ok; auto.
  - unfold get_m. rewrite dget_abs by assumption; auto.
  - unfold has_m. rewrite dhas_abs by assumption; auto.
  - unfold len_m. rewrite len_abs by assumption; auto.
  - auto.
Qed.

Lemma Inv_empty : Inv empty.
Proof. unfold Inv, empty; cbn. repeat split; try constructor; tauto. Qed.

Theorem omap_refines_dict : forall ops, run_m ops = run_d ops.
Proof.
  unfold run_m, run_d. change ([] : dict) with (abs empty).
  generalize Inv_empty. generalize empty.
  intros m HI ops; revert m HI. induction ops as [|o ops IH]; intros m HI; cbn; [reflexivity|].
  pose proof (step_refines m o HI) as H. destruct (step_m m o) as [m' x].
  destruct H as [-> HI']. f_equal. apply IH, HI'.
Qed.

(* every reachable state satisfies the invariant and marshals like the dictionary *)
Fixpoint state_after {S} (step : S -> op -> S * out) (s : S) (ops : list op) : S :=
  match ops with [] => s | o :: r => state_after step (fst (step s o)) r end.

Lemma reach_abs : forall ops m, Inv m ->
  abs (state_after step_m m ops) = state_after step_d (abs m) ops /\ Inv (state_after step_m m ops).
Proof.
  induction ops as [|o ops IH]; intros m HI; cbn; [auto|].
  pose proof (step_refines m o HI) as H. destruct (step_m m o) as [m' x]. destruct H as [-> HI'].
  cbn. apply IH, HI'.
Qed.

Theorem marshal_refines enc_key enc_val ops :
  marshal_m enc_key enc_val (state_after step_m empty ops)
  = marshal_d enc_key enc_val (state_after step_d [] ops).
Proof.
  destruct (reach_abs ops empty Inv_empty) as [H _]. unfold marshal_m, marshal_d.
  change (items_m (state_after step_m empty ops)) with (abs (state_after step_m empty ops)).
  rewrite H. reflexivity.
Qed.

(* the dictionary never holds a key twice (so "one entry per key") *)
Lemma dict_nodup ops : NoDup (dkeys (state_after step_d [] ops)).
Proof.
  destruct (reach_abs ops empty Inv_empty) as [H (Ho & _)]. change ([] : dict) with (abs empty).
  rewrite <- H. unfold dkeys, abs, items. rewrite map_map; cbn. rewrite map_id. exact Ho.
Qed.

(* marshalled text: '{' entries separated by single commas '}' *)
Lemma marshal_go_shape enc_key enc_val its first :
  marshal_go enc_key enc_val first its =
  match its with
  | [] => []
  | _ => (if first then [] else [44]) ++
         join [44] (map (fun kv => enc_key (fst kv) ++ [58] ++ enc_val (snd kv)) its)
  end.
Proof.
  revert first. induction its as [|[k v] its IH]; intros first; [reflexivity|].
  cbn [marshal_go map fst snd]. rewrite IH. destruct its as [|kv its].
  - cbn. rewrite ?app_nil_r. reflexivity.
  - cbn [join map fst snd]. rewrite <- ?app_assoc. cbn. reflexivity.
Qed.

(* string set *)
Lemma sset_refines l :
  sorder (snew_m l) = snew l /\ slen_m (snew_m l) = length (snew l)
  /\ forall k, shas_m k (snew_m l) = memN k (snew l).
Proof.
  unfold snew_m, snew.
  assert (G : forall l s t, sorder s = t -> length (sdata s) = length t ->
            (forall k, memN k (sdata s) = memN k t) ->
            let s' := fold_left (fun s k => sadd_m k s) l s in
            let t' := fold_left (fun s k => sadd k s) l t in
            sorder s' = t' /\ length (sdata s') = length t' /\ forall k, memN k (sdata s') = memN k t').
  { clear l. induction l as [|x l IH]; intros s t H1 H2 H3; cbn; [auto|].
    apply IH.
    - unfold sadd_m, sadd; cbn. rewrite H3, H1. destruct (memN x t); reflexivity.
    - unfold sadd_m, sadd; cbn. rewrite H3. destruct (memN x t); [assumption|].
      cbn. rewrite app_length; cbn. lia.
    - intros k. unfold sadd_m, sadd; cbn. rewrite H3. destruct (memN x t) eqn:E; [apply H3|].
      cbn. rewrite H3. clear. induction t as [|y t IH]; cbn; [rewrite orb_false_r; reflexivity|].
      rewrite <- IH. destruct (y =? k), (x =? k); reflexivity. }
  apply (G l {| sdata := []; sorder := [] |} []); reflexivity.
Qed.
