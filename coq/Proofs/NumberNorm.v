(* The two trimming loops produce the normal form and keep the value. *)
From Coq Require Import List ZArith NArith Bool Lia.
From JS Require Import Base.Res Spec.Decimal Model.Number Proofs.DigitArith Proofs.NumberCmp.
Import ListNotations.
Local Open Scope Z_scope.

Lemma trim_lead_spec k : forall l, exists j, (j <= k)%nat /\ l = repeat 48%N j ++ trim_lead k l /\
  ((j < k)%nat -> forall c r, trim_lead k l = c :: r -> c <> 48%N).
Proof.
  induction k as [|k IH]; intros l.
  - exists 0%nat. cbn. repeat split; [lia|lia].
  - destruct l as [|c r].
    + exists 0%nat. cbn. repeat split; [lia|]. intros _ c r H. discriminate.
    + cbn [trim_lead]. destruct (N.eqb_spec c 48) as [->|Hne].
      * destruct (IH r) as (j & Hj & Hl & Hz). exists (S j). repeat split; [lia| |].
        -- cbn [repeat app]. f_equal. exact Hl.
        -- intros Hlt. apply Hz. lia.
      * exists 0%nat. repeat split; [lia|]. intros _ c' r' H. inversion H; subst. exact Hne.
Qed.

Lemma trim_trail_spec e : forall l,
  exists t, e = (fst (trim_trail_rev e l) + t)%nat /\ l = repeat 48%N t ++ snd (trim_trail_rev e l) /\
  ((0 < fst (trim_trail_rev e l))%nat -> forall c r, snd (trim_trail_rev e l) = c :: r -> c <> 48%N).
Proof.
  induction e as [|e IH]; intros l.
  - exists 0%nat. cbn. repeat split. intros H; lia.
  - destruct l as [|c r].
    + exists 0%nat. cbn. repeat split; [lia|]. intros _ c r H; discriminate.
    + cbn [trim_trail_rev]. destruct (N.eqb_spec c 48) as [->|Hne].
      * destruct (IH r) as (t & Ht & Hl & Hz). exists (S t). repeat split; [lia| |exact Hz].
        cbn [repeat app]. f_equal. exact Hl.
      * exists 0%nat. cbn. repeat split; [lia|]. intros _ c' r' H. inversion H; subst. exact Hne.
Qed.

Lemma repeat_rev {A} (x : A) n : rev (repeat x n) = repeat x n.
Proof.
  induction n as [|n IH]; [reflexivity|]. cbn [repeat rev]. rewrite IH.
  clear IH. induction n as [|n IH]; [reflexivity|]. cbn [repeat app]. f_equal. exact IH.
Qed.

Lemma len_repeat c n : len (repeat c n) = Z.of_nat n.
Proof. unfold len. rewrite repeat_length. reflexivity. Qed.
Lemma len_rev l : len (rev l) = len l.
Proof. unfold len. rewrite rev_length. reflexivity. Qed.
Lemma all_digits_rev l : all_digits (rev l) <-> all_digits l.
Proof. unfold all_digits. rewrite !Forall_forall. split; intros H x Hx; apply H; [rewrite <- in_rev|rewrite in_rev]; assumption. Qed.

Definition raw_denote (neg : bool) (nat : bytes) (exp : Z) : dval :=
  ((if neg then - val nat else val nat), - exp).

Lemma frev_rev l : frev l = rev l.
Proof. unfold frev. symmetry. apply rev_alt. Qed.

Theorem normalise_ok neg nat exp : all_digits nat -> 0 <= exp <= len nat ->
  exists n, normalise neg nat exp = Ok n /\ normal n /\ deq (denote n) (raw_denote neg nat exp).
Proof.
  intros Hd He. unfold normalise. rewrite !frev_rev.
  destruct (Z.ltb_spec exp 0); [lia|]. destruct (Z.gtb_spec exp (len nat)); [lia|]. cbn [orb].
  set (k := Z.to_nat (len nat - exp)).
  destruct (trim_lead_spec k nat) as (j & Hj & Hnat & Hz).
  set (nat1 := trim_lead k nat) in *.
  assert (Hl1 : len nat = Z.of_nat j + len nat1) by (rewrite Hnat at 1; rewrite len_app, len_repeat; reflexivity).
  assert (Hd1 : all_digits nat1) by (rewrite Hnat in Hd; apply all_digits_app in Hd; tauto).
  assert (Hv1 : val nat = val nat1).
  { rewrite Hnat at 1. rewrite val_app, val_zeros. lia. }
  assert (Hk : Z.of_nat k = len nat - exp) by (unfold k; lia).
  destruct (Z.gtb_spec exp (len nat1)); [lia|]. cbn [orb].
  destruct (trim_trail_spec (Z.to_nat exp) (rev nat1)) as (t & Ht & Hr & Hzt).
  destruct (trim_trail_rev (Z.to_nat exp) (rev nat1)) as [e2 r] eqn:Et. cbn [fst snd] in *.
  rewrite !frev_rev. set (nat2 := rev r).
  assert (Hn1 : nat1 = nat2 ++ repeat 48%N t).
  { rewrite <- (rev_involutive nat1), Hr, rev_app_distr, repeat_rev. reflexivity. }
  assert (Hd2 : all_digits nat2) by (rewrite Hn1 in Hd1; apply all_digits_app in Hd1; tauto).
  assert (Hl2 : len nat1 = len nat2 + Z.of_nat t) by (rewrite Hn1, len_app, len_repeat; reflexivity).
  assert (He2 : exp = Z.of_nat e2 + Z.of_nat t) by lia.
  eexists. split; [reflexivity|]. split.
  - (* normal *)
    unfold normal; cbn [nnat nexp nneg]. split; [exact Hd2|]. split; [lia|]. split; [|split].
    + (* integer part has no leading zero *)
      unfold int_part; cbn [nnat nexp]. intros c r' Hc.
      assert (Hlen : (Z.to_nat (len nat2 - Z.of_nat e2) = k - j)%nat) by lia.
      rewrite Hlen in Hc.
      assert (Hpos : (j < k)%nat).
      { destruct (Nat.lt_ge_cases j k); [assumption|]. replace (k - j)%nat with 0%nat in Hc by lia. discriminate. }
      (* the first byte of nat2's prefix is the first byte of nat1 *)
      destruct nat2 as [|c2 r2] eqn:E2; [rewrite firstn_nil in Hc; discriminate|].
      destruct (k - j)%nat; [discriminate|]. cbn [firstn] in Hc. inversion Hc; subst c2.
      apply (Hz Hpos c (r2 ++ repeat 48%N t)). rewrite Hn1. reflexivity.
    + (* last fraction digit is not zero *)
      intros Hpos. assert (He2pos : (0 < e2)%nat) by lia. specialize (Hzt He2pos).
      destruct r as [|c r'] eqn:Er.
      * exfalso. unfold nat2 in Hl2. cbn in Hl2. change (len []) with 0 in Hl2. lia.
      * exists (rev r'), c. split; [unfold nat2; reflexivity|]. apply (Hzt c r' eq_refl).
    + destruct nat2; [reflexivity|discriminate].
  - (* value *)
    unfold deq, dcmp, denote, raw_denote; cbn [nnat nexp nneg fst snd].
    replace (Z.min (- Z.of_nat e2) (- exp)) with (- exp) by lia.
    replace (- Z.of_nat e2 - - exp) with (Z.of_nat t) by lia. replace (- exp - - exp) with 0 by lia.
    rewrite Z.pow_0_r, Z.mul_1_r. apply Z.compare_eq_iff.
    assert (Hv2 : val nat = val nat2 * 10 ^ Z.of_nat t).
    { rewrite Hv1, Hn1, val_app, val_zeros, len_repeat. lia. }
    destruct nat2 as [|c2 r2] eqn:E2.
    + rewrite Hv2. change (val []) with 0. destruct neg; lia.
    + rewrite Hv2. destruct neg; lia.
Qed.
