From Coq Require Import List NArith Bool Arith Lia.
From JS Require Import Base.Res Model.AllOf Model.Refs Proofs.AllOfProofs.
Import ListNotations.

(* ---- what "the schema refers to type t" means: one constructor per reference position ---- *)
Inductive Refers : rnode -> tname -> Prop :=
| RF_type t ors : Refers (RLit (Some t) ors) t                                   (* type: "@t" *)
| RF_or ty ors a t : In a ors -> alt_name a = Some t -> Refers (RLit ty ors) t   (* or: ["@t", {type: "@t", ...}] *)
| RF_mix names t : In t names -> Refers (RMix names) t                           (* @t, @a | @t *)
| RF_item items c t : In c items -> Refers c t -> Refers (RArr items) t
| RF_allof allof ap props t : In t allof -> Refers (RObj allof ap props) t
| RF_ap allof t props : Refers (RObj allof (Some t) props) t                     (* additionalProperties: "@t" *)
| RF_key allof ap props t c : In (Some t, c) props -> Refers (RObj allof ap props) t   (* @t: value *)
| RF_prop allof ap props k c t : In (k, c) props -> Refers c t -> Refers (RObj allof ap props) t.

(* induction over nodes (nested lists) *)
Section Ind.
  Variable P : rnode -> Prop.
  Hypothesis HL : forall ty ors, P (RLit ty ors).
  Hypothesis HM : forall ns, P (RMix ns).
  Hypothesis HA : forall items, Forall P items -> P (RArr items).
  Hypothesis HO : forall allof ap props, Forall (fun kc => P (snd kc)) props -> P (RObj allof ap props).
  Fixpoint rnode_ind' (n : rnode) : P n :=
    match n with
    | RLit ty ors => HL ty ors
    | RMix ns => HM ns
    | RArr items => HA items ((fix go (l : list rnode) : Forall P l :=
                                 match l with [] => Forall_nil _ | c :: r => Forall_cons _ (rnode_ind' c) (go r) end) items)
    | RObj a ap props => HO a ap props ((fix go (l : list (option tname * rnode)) : Forall (fun kc => P (snd kc)) l :=
                                           match l with [] => Forall_nil _ | kc :: r => Forall_cons _ (rnode_ind' (snd kc)) (go r) end) props)
    end.
End Ind.

(* ---- the accumulator ---- *)
Definition Good (acc acc' : list tname) (S : tname -> Prop) : Prop :=
  NoDup acc' /\ forall x, In x acc' <-> In x acc \/ S x.

Lemma NoDup_app_build {A} (l1 l2 : list A) : NoDup l1 -> NoDup l2 -> (forall x, In x l1 -> In x l2 -> False) -> NoDup (l1 ++ l2).
Proof.
  induction l1 as [|a l IH]; cbn; intros H1 H2 Hd; [exact H2|]. inversion H1; subst.
  constructor; [rewrite in_app_iff; intros [H|H]; [auto|eapply Hd; [left; reflexivity|exact H]]|apply IH; auto].
  intros x Hx; apply Hd; right; exact Hx.
Qed.

Lemma add_good acc t : NoDup acc -> Good acc (add acc t) (fun x => x = t).
Proof.
  intros Hnd. unfold add. destruct (memn t acc) eqn:Em.
  - apply memn_In in Em. split; [exact Hnd|]. intros x. split; [auto|]. intros [H| ->]; assumption.
  - apply memn_nIn in Em. split.
    + apply NoDup_app_build; [exact Hnd|constructor; [intros []|constructor]|]. intros x Hx [<-|[]]. exact (Em Hx).
    + intros x. rewrite in_app_iff. cbn. split; [intros [H|[H|[]]]; auto|intros [H|H]; auto].
Qed.
Lemma add_opt_good acc t : NoDup acc -> Good acc (add_opt acc t) (fun x => t = Some x).
Proof.
  intros Hnd. destruct t as [t|]; cbn [add_opt].
  - destruct (add_good acc t Hnd) as [H1 H2]. split; [exact H1|]. intros x. rewrite H2. split; intros [H|H]; auto; [right; congruence|right; congruence].
  - split; [exact Hnd|]. intros x. split; [auto|intros [H|H]; [exact H|discriminate]].
Qed.
Lemma good_trans a b c (S1 S2 : tname -> Prop) : Good a b S1 -> Good b c S2 -> Good a c (fun x => S1 x \/ S2 x).
Proof. intros [_ H1] [N2 H2]. split; [exact N2|]. intros x. rewrite H2, H1. tauto. Qed.
Lemma good_ext a b (S1 S2 : tname -> Prop) : (forall x, S1 x <-> S2 x) -> Good a b S1 -> Good a b S2.
Proof. intros He [N H]. split; [exact N|]. intros x. rewrite H, He. tauto. Qed.
Lemma good_nodup a b S : Good a b S -> NoDup b.
Proof. intros [H _]; exact H. Qed.

Lemma fold_add_good names : forall acc, NoDup acc -> Good acc (fold_left add names acc) (fun x => In x names).
Proof.
  induction names as [|t r IH]; intros acc Hnd; cbn [fold_left].
  - split; [exact Hnd|]. intros x. cbn. tauto.
  - pose proof (add_good acc t Hnd) as G1. pose proof (IH _ (good_nodup _ _ _ G1)) as G2.
    eapply good_ext; [|exact (good_trans _ _ _ _ _ G1 G2)]. intros x. cbn. split; [intros [->|H]; auto|intros [->|H]; auto].
Qed.
Lemma fold_alts_good ors : forall acc, NoDup acc ->
  Good acc (fold_left (fun a x => add_opt a (alt_name x)) ors acc) (fun x => exists a, In a ors /\ alt_name a = Some x).
Proof.
  induction ors as [|a r IH]; intros acc Hnd; cbn [fold_left].
  - split; [exact Hnd|]. intros x. split; [auto|intros [H|(a & [] & _)]; exact H].
  - pose proof (add_opt_good acc (alt_name a) Hnd) as G1. pose proof (IH _ (good_nodup _ _ _ G1)) as G2.
    eapply good_ext; [|exact (good_trans _ _ _ _ _ G1 G2)]. intros x. split.
    + intros [H|(b & Hb & He)]; [exists a; split; [left; reflexivity|exact H]|exists b; split; [right; exact Hb|exact He]].
    + intros (b & [<-|Hb] & He); [left; exact He|right; exists b; auto].
Qed.

(* ---- the collector lists exactly the referred names, each once ---- *)
Theorem collect_good : forall n acc, NoDup acc -> Good acc (collect n acc) (Refers n).
Proof.
  induction n as [ty ors|names|items IH|allof ap props IH] using rnode_ind'; intros acc Hnd.
  - cbn [collect]. pose proof (fold_alts_good ors acc Hnd) as G1. pose proof (add_opt_good _ ty (good_nodup _ _ _ G1)) as G2.
    eapply good_ext; [|exact (good_trans _ _ _ _ _ G1 G2)]. intros x. split.
    + intros [(a & Ha & He)| ->]; [eapply RF_or; eauto|constructor].
    + intros H. inversion H; subst; [right; reflexivity|left; eauto].
  - cbn [collect]. eapply good_ext; [|exact (fold_add_good names acc Hnd)]. intros x. split; [intros H; constructor; exact H|intros H; inversion H; assumption].
  - cbn [collect]. revert acc Hnd. induction IH as [|c r Hc _ IHr]; intros acc Hnd.
    + split; [exact Hnd|]. intros x. split; [auto|intros [H|H]; [exact H|inversion H; subst; match goal with Hi : In _ [] |- _ => destruct Hi end]].
    + pose proof (Hc acc Hnd) as G1. pose proof (IHr _ (good_nodup _ _ _ G1)) as G2.
      eapply good_ext; [|exact (good_trans _ _ _ _ _ G1 G2)]. intros x. split.
      * intros [H|H]; [eapply RF_item; [left; reflexivity|exact H]|inversion H; subst; eapply RF_item; [right; eassumption|assumption]].
      * intros H. inversion H as [| | |? c0 ? Hin Hr| | | |]; subst. destruct Hin as [<-|Hin]; [left; exact Hr|right; eapply RF_item; eauto].
  - cbn [collect]. pose proof (fold_add_good allof acc Hnd) as G1. pose proof (add_opt_good _ ap (good_nodup _ _ _ G1)) as G2.
    pose proof (good_trans _ _ _ _ _ G1 G2) as G12. clear G1 G2.
    set (a1 := add_opt (fold_left add allof acc) ap) in *.
    assert (G3 : forall a, NoDup a ->
      Good a ((fix go (l : list (option tname * rnode)) (a : list tname) : list tname :=
                 match l with [] => a | (k, c) :: r => go r (collect c (add_opt a k)) end) props a)
             (fun x => exists k c, In (k, c) props /\ (k = Some x \/ Refers c x))).
    { clear G12 a1 acc Hnd. induction IH as [|[k c] r Hc _ IHr]; intros a Ha.
      - split; [exact Ha|]. intros x. split; [auto|intros [H|(k & c & [] & _)]; exact H].
      - pose proof (add_opt_good a k Ha) as Gk. pose proof (Hc _ (good_nodup _ _ _ Gk)) as Gc. cbn [snd] in Gc.
        pose proof (IHr _ (good_nodup _ _ _ Gc)) as Gr.
        eapply good_ext; [|exact (good_trans _ _ _ _ _ (good_trans _ _ _ _ _ Gk Gc) Gr)]. intros x. split.
        + intros [[H|H]|(k' & c' & Hin & H)].
          * exists k, c. split; [left; reflexivity|left; exact H].
          * exists k, c. split; [left; reflexivity|right; exact H].
          * exists k', c'. split; [right; exact Hin|exact H].
        + intros (k' & c' & [Heq|Hin] & H).
          * inversion Heq; subst. left. destruct H; [left|right]; assumption.
          * right. exists k', c'. auto. }
    pose proof (G3 a1 (good_nodup _ _ _ G12)) as G4.
    eapply good_ext; [|exact (good_trans _ _ _ _ _ G12 G4)]. intros x. split.
    + intros [[H|H]|(k & c & Hin & [->|H])]; [apply RF_allof; exact H|subst ap; apply RF_ap|eapply RF_key; exact Hin|eapply RF_prop; eauto].
    + intros H. inversion H; subst.
      * left. left. assumption.
      * left. right. reflexivity.
      * right. eauto.
      * right. eauto.
Qed.

Theorem used_exact root : NoDup (used root) /\ forall t, In t (used root) <-> Refers root t.
Proof.
  destruct (collect_good root [] (NoDup_nil _)) as [H1 H2]. split; [exact H1|]. intros t. rewrite (H2 t). cbn. tauto.
Qed.

(* ---- which names Check() can report as not found ---- *)
Lemma fold_collect_good (d : rdefs) : forall acc, NoDup acc ->
  Good acc (fold_left (fun a b => collect (snd b) a) d acc) (fun x => exists r b, In (r, b) d /\ Refers b x).
Proof.
  induction d as [|[r b] rest IH]; intros acc Hnd; cbn [fold_left].
  - split; [exact Hnd|]. intros x. split; [auto|intros [H|(r & b & [] & _)]; exact H].
  - cbn [snd]. pose proof (collect_good b acc Hnd) as G1. pose proof (IH _ (good_nodup _ _ _ G1)) as G2.
    eapply good_ext; [|exact (good_trans _ _ _ _ _ G1 G2)]. intros x. split.
    + intros [H|(r' & b' & Hin & H)]; [exists r, b; split; [left; reflexivity|exact H]|exists r', b'; split; [right; exact Hin|exact H]].
    + intros (r' & b' & [Heq|Hin] & H); [inversion Heq; subst; left; exact H|right; eauto].
Qed.

Theorem missing_exact d root t :
  In t (missing d root) <-> registered d t = false /\ (Refers root t \/ exists r b, In (r, b) d /\ Refers b t).
Proof.
  unfold missing. rewrite filter_In, negb_true_iff.
  destruct (fold_collect_good d (used root) (proj1 (used_exact root))) as [_ H]. rewrite (H t), (proj2 (used_exact root) t). tauto.
Qed.

(* reachability from the root through registered types *)
Inductive Reach (d : rdefs) (root : rnode) : tname -> Prop :=
| R_root t : Refers root t -> Reach d root t
| R_step r b t : Reach d root r -> In (r, b) d -> Refers b t -> Reach d root t.

(* if: an unregistered type reachable from the root is reported *)
Theorem missing_if d root t : Reach d root t -> registered d t = false -> In t (missing d root).
Proof.
  intros Hr Hu. apply missing_exact. split; [exact Hu|]. destruct Hr as [t H|r b t _ Hin H]; [left; exact H|right; eauto].
Qed.
(* only if, in full when the registered types the root does not reach are valid (refer to registered types only) *)
Definition closed_rest (d : rdefs) (root : rnode) : Prop :=
  forall r b t, In (r, b) d -> ~ Reach d root r -> Refers b t -> registered d t = true.
Theorem missing_iff d root t : closed_rest d root ->
  (forall r, {Reach d root r} + {~ Reach d root r}) ->
  (In t (missing d root) <-> Reach d root t /\ registered d t = false).
Proof.
  intros Hc Hdec. split; [|intros [H1 H2]; apply missing_if; assumption].
  intros H. apply missing_exact in H. destruct H as [Hu [Hr|(r & b & Hin & Hr)]]; [split; [constructor; exact Hr|exact Hu]|].
  destruct (Hdec r) as [Hreach|Hn]; [split; [econstructor 2; eauto|exact Hu]|]. rewrite (Hc r b t Hin Hn Hr) in Hu. discriminate.
Qed.
(* only if, always: the reported name is unregistered and referred to by the root or by a registered type *)
Theorem missing_only_if d root t : In t (missing d root) ->
  registered d t = false /\ (Refers root t \/ exists r b, In (r, b) d /\ Refers b t).
Proof. apply missing_exact. Qed.

(* registering one more valid type that nothing refers to changes neither list *)
Lemma registered_app d x bx t : registered (d ++ [(x, bx)]) t = registered d t || N.eqb x t.
Proof.
  unfold registered. rewrite map_app. cbn [map fst]. induction (map fst d) as [|y r IH]; cbn [memn app]; [rewrite orb_false_r; reflexivity|].
  rewrite IH, orb_assoc. reflexivity.
Qed.
Theorem unused_type_inert d root x bx :
  (forall t, Refers bx t -> registered d t = true \/ t = x) ->     (* valid *)
  ~ Refers root x -> (forall r b, In (r, b) d -> ~ Refers b x) -> ~ Refers bx x ->   (* nothing refers to it *)
  used root = used root /\ forall t, In t (missing (d ++ [(x, bx)]) root) <-> In t (missing d root).
Proof.
  intros Hv Hr Hd Hx. split; [reflexivity|]. intros t. rewrite !missing_exact, registered_app, orb_false_iff, N.eqb_neq. split.
  - intros [[Hu Hne] [H|(r & b & Hin & H)]]; (split; [exact Hu|]); [left; exact H|].
    apply in_app_or in Hin. destruct Hin as [Hin|[Heq|[]]]; [right; eauto|]. inversion Heq; subst.
    destruct (Hv t H) as [Hreg| ->]; [congruence|exfalso; exact (Hx H)].
  - intros [Hu [H|(r & b & Hin & H)]].
    + split; [split; [exact Hu|intros ->; exact (Hr H)]|left; exact H].
    + split; [split; [exact Hu|intros ->; exact (Hd r b Hin H)]|right; exists r, b; split; [apply in_or_app; left; exact Hin|exact H]].
Qed.
