(* Soundness of the JSON scanner model against the RFC 8259 grammar, by residual languages:
   every reachable configuration is described by an abstract state a with a language L a of the inputs
   that may still follow; L of the initial state is JText; one step on byte b leads to a' with
   b :: L a' included in L a; accepting at end of input means [] in L a.  The same case analysis shows
   that no step can panic or fail with an internal error code. *)
From Coq Require Import List ZArith NArith Bool Lia.
From JS Require Import Base.Res Base.Lex Spec.JsonGrammar Model.JsonScan Proofs.JsonClasses.
Import ListNotations.
Local Open Scope N_scope.

Inductive frame := FArr | FObj.

Definition RestEls (r : bytes) : Prop :=
  exists w, ws w /\ (r = w \/ exists els, r = w ++ 44 :: els /\ JElements els).
Definition RestMems (r : bytes) : Prop :=
  exists w, ws w /\ (r = w \/ exists ms, r = w ++ 44 :: ms /\ JMembers ms).

Section AL.
(* al = the trailing-characters option: at top level, after the value, anything may follow *)
Variable al : bool.

(* what may follow a complete value whose enclosing containers are K (innermost first) *)
Fixpoint Tail (K : list frame) (t : bytes) : Prop :=
  match K with
  | [] => if al then True else ws t
  | FArr :: K' => exists r t', t = r ++ 93 :: t' /\ RestEls r /\ Tail K' t'
  | FObj :: K' => exists r t', t = r ++ 125 :: t' /\ RestMems r /\ Tail K' t'
  end.
Definition VT (K : list frame) (s : bytes) : Prop :=
  exists w v t, s = w ++ v ++ t /\ ws w /\ JValue v /\ Tail K t.
(* after a key: ws ":" then the member's value *)
Definition AfterKeyL (K : list frame) (s : bytes) : Prop :=
  exists w t, s = w ++ 58 :: t /\ ws w /\ VT (FObj :: K) t.
Definition KVT (K : list frame) (s : bytes) : Prop :=
  exists w k t, s = w ++ k ++ t /\ ws w /\ JString k /\ AfterKeyL K t.

(* residuals of scalar tokens *)
Inductive strsub := SIn | SEsc | SU (n : nat).     (* SU n: n hex digits still expected *)
Definition HexN (n : nat) (h : bytes) : Prop := length h = n /\ Forall (fun c => hexdigit c = true) h.
Definition StrRest (sub : strsub) (x : bytes) : Prop :=
  match sub with
  | SIn => exists body, x = body ++ [34] /\ StrBody body
  | SEsc => (exists e body, x = e :: body ++ [34] /\ simple_escape e = true /\ StrBody body)
            \/ (exists h body, x = 117 :: h ++ body ++ [34] /\ HexN 4 h /\ StrBody body)
  | SU n => exists h body, x = h ++ body ++ [34] /\ HexN n h /\ StrBody body
  end.
Inductive numsub := NNeg | NZero | NInt | NDot | NFrac | NE | NESign | NExp.
Definition NumRest (sub : numsub) (x : bytes) : Prop :=
  match sub with
  | NNeg => exists i f e, x = i ++ f ++ e /\ JInt i /\ JFrac f /\ JExp e
  | NZero => exists f e, x = f ++ e /\ JFrac f /\ JExp e
  | NInt => exists d f e, x = d ++ f ++ e /\ digits d /\ JFrac f /\ JExp e
  | NDot => exists c d e, x = c :: d ++ e /\ digit c = true /\ digits d /\ JExp e
  | NFrac => exists d e, x = d ++ e /\ digits d /\ JExp e
  | NE => exists sg c d, x = sg ++ c :: d /\ (sg = [] \/ sg = [43] \/ sg = [45]) /\ digit c = true /\ digits d
  | NESign => exists c d, x = c :: d /\ digit c = true /\ digits d
  | NExp => digits x
  end.

Inductive spos := PVal (K : list frame) | PKey (K : list frame).
Definition After (p : spos) (a : bytes) : Prop :=
  match p with PVal K => Tail K a | PKey K => AfterKeyL K a end.

Inductive astate :=
| ARoot
| AItemOrEmpty (K : list frame) | AItemBegin (K : list frame) | AAfterItem (K : list frame)
| AKeyOrEmpty (K : list frame) | AKeyBegin (K : list frame) | AAfterKey (K : list frame)
| AValueBegin (K : list frame) | AAfterValue (K : list frame)
| AEnd (K : list frame) (lit : bool)        (* JEndValue after a value in context K; lit: LiteralBegin still open *)
| AEndKey (K : list frame)                  (* JEndValue after the closing quote of a key *)
| AEndTop
| AStr (sub : strsub) (p : spos)
| ANum (sub : numsub) (K : list frame)
| AKw (rest : bytes) (K : list frame).

Definition L (a : astate) (s : bytes) : Prop :=
  match a with
  | ARoot => VT [] s
  | AItemOrEmpty K => VT (FArr :: K) s \/ exists w t, s = w ++ 93 :: t /\ ws w /\ Tail K t
  | AItemBegin K => VT (FArr :: K) s
  | AAfterItem K => Tail (FArr :: K) s
  | AKeyOrEmpty K => KVT K s \/ exists w t, s = w ++ 125 :: t /\ ws w /\ Tail K t
  | AKeyBegin K => KVT K s
  | AAfterKey K => AfterKeyL K s
  | AValueBegin K => VT (FObj :: K) s
  | AAfterValue K => Tail (FObj :: K) s
  | AEnd K _ => Tail K s
  | AEndKey K => AfterKeyL K s
  | AEndTop => Tail [] s
  | AStr sub p => exists x a, s = x ++ a /\ StrRest sub x /\ After p a
  | ANum sub K => exists x t, s = x ++ t /\ NumRest sub x /\ Tail K t
  | AKw rest K => exists t, s = rest ++ t /\ Tail K t
  end.

Ltac assoc := repeat (rewrite <- ?app_assoc; cbn [app]); reflexivity.

(* ---------- basic facts ---------- *)
Lemma ws_nil : ws []. Proof. constructor. Qed.
Lemma ws_cons c w : is_ws c = true -> ws w -> ws (c :: w). Proof. intros; constructor; assumption. Qed.
Lemma ws_app a b : ws a -> ws b -> ws (a ++ b). Proof. intros; apply Forall_app; auto. Qed.
Lemma digits_nil : digits []. Proof. constructor. Qed.
Lemma digits_cons c d : digit c = true -> digits d -> digits (c :: d). Proof. intros; constructor; assumption. Qed.
Local Hint Resolve ws_nil ws_cons ws_app digits_nil digits_cons : js.

Lemma tail_top_nil : Tail [] []. Proof. cbn. destruct al; [exact I|exact ws_nil]. Qed.

(* leading whitespace *)
Lemma resteels_ws c r : is_ws c = true -> RestEls r -> RestEls (c :: r).
Proof.
  intros Hc (w & Hw & [->|(els & -> & He)]); exists (c :: w); split; auto with js.
  right. exists els. auto.
Qed.
Lemma restmems_ws c r : is_ws c = true -> RestMems r -> RestMems (c :: r).
Proof.
  intros Hc (w & Hw & [->|(ms & -> & He)]); exists (c :: w); split; auto with js.
  right. exists ms. auto.
Qed.
Lemma tail_ws K c t : is_ws c = true -> Tail K t -> Tail K (c :: t).
Proof.
  intros Hc. destruct K as [|[|] K]; cbn [Tail].
  - intros H. destruct al; [exact I|apply ws_cons; assumption].
  - intros (r & t' & -> & Hr & Ht). exists (c :: r), t'. repeat split; auto. apply resteels_ws; assumption.
  - intros (r & t' & -> & Hr & Ht). exists (c :: r), t'. repeat split; auto. apply restmems_ws; assumption.
Qed.
Lemma vt_ws K c s : is_ws c = true -> VT K s -> VT K (c :: s).
Proof. intros Hc (w & v & t & -> & Hw & Hv & Ht). exists (c :: w), v, t. repeat split; auto with js. Qed.
Lemma afterkey_ws K c s : is_ws c = true -> AfterKeyL K s -> AfterKeyL K (c :: s).
Proof. intros Hc (w & t & -> & Hw & Ht). exists (c :: w), t. repeat split; auto with js. Qed.
Lemma kvt_ws K c s : is_ws c = true -> KVT K s -> KVT K (c :: s).
Proof. intros Hc (w & k & t & -> & Hw & Hk & Ht). exists (c :: w), k, t. repeat split; auto with js. Qed.

(* a value followed by the rest of its array / object is a non-empty element / member list *)
Lemma vt_els K s : VT (FArr :: K) s -> exists els t, s = els ++ 93 :: t /\ JElements els /\ Tail K t.
Proof.
  intros (w & v & t & -> & Hw & Hv & (r & t' & -> & (w2 & Hw2 & [->|(els & -> & He)]) & Ht)).
  - exists (w ++ v ++ w2), t'. split; [assoc|]. split; [constructor; assumption|assumption].
  - exists (w ++ v ++ w2 ++ 44 :: els), t'. split; [assoc|].
    split; [constructor; assumption|assumption].
Qed.
Lemma kvt_mems K s : KVT K s -> exists ms t, s = ms ++ 125 :: t /\ JMembers ms /\ Tail K t.
Proof.
  intros (w1 & k & a & -> & Hw1 & Hk & (w2 & vt & -> & Hw2 &
          (w3 & v & t & -> & Hw3 & Hv & (r & t' & -> & (w4 & Hw4 & [->|(ms & -> & Hm)]) & Ht)))).
  - exists (w1 ++ k ++ w2 ++ 58 :: w3 ++ v ++ w4), t'.
    split; [assoc|]. split; [constructor; assumption|assumption].
  - exists (w1 ++ k ++ w2 ++ 58 :: w3 ++ v ++ w4 ++ 44 :: ms), t'.
    split; [assoc|]. split; [constructor; assumption|assumption].
Qed.

(* ---------- closures at a value start ---------- *)
Lemma vt_value K v t : JValue v -> Tail K t -> VT K (v ++ t).
Proof. intros Hv Ht. exists [], v, t. repeat split; auto with js. Qed.

Lemma open_array K s : L (AItemOrEmpty K) s -> VT K (91 :: s).
Proof.
  intros [H|(w & t & -> & Hw & Ht)].
  - destruct (vt_els K s H) as (els & t & -> & He & Ht).
    replace (91 :: els ++ 93 :: t) with ((91 :: els ++ [93]) ++ t) by assoc.
    apply vt_value; [constructor; assumption|assumption].
  - replace (91 :: w ++ 93 :: t) with ((91 :: w ++ [93]) ++ t) by assoc.
    apply vt_value; [apply jv_empty_array; assumption|assumption].
Qed.
Lemma open_object K s : L (AKeyOrEmpty K) s -> VT K (123 :: s).
Proof.
  intros [H|(w & t & -> & Hw & Ht)].
  - destruct (kvt_mems K s H) as (ms & t & -> & Hm & Ht).
    replace (123 :: ms ++ 125 :: t) with ((123 :: ms ++ [125]) ++ t) by assoc.
    apply vt_value; [constructor; assumption|assumption].
  - replace (123 :: w ++ 125 :: t) with ((123 :: w ++ [125]) ++ t) by assoc.
    apply vt_value; [apply jv_empty_object; assumption|assumption].
Qed.
Lemma open_string K s : L (AStr SIn (PVal K)) s -> VT K (34 :: s).
Proof.
  intros (x & a & -> & (body & -> & Hb) & Ha). cbn [After] in Ha.
  replace (34 :: (body ++ [34]) ++ a) with ((34 :: body ++ [34]) ++ a) by assoc.
  apply vt_value; [apply jv_string; exists body; auto|assumption].
Qed.
Lemma open_key K s : L (AStr SIn (PKey K)) s -> KVT K (34 :: s).
Proof.
  intros (x & a & -> & (body & -> & Hb) & Ha). cbn [After] in Ha.
  exists [], (34 :: body ++ [34]), a. repeat split; auto with js. exists body; auto.
Qed.
Lemma open_kw K (c : N) rest s : JValue (c :: rest) -> L (AKw rest K) s -> VT K (c :: s).
Proof.
  intros Hv (t & -> & Ht). change (c :: rest ++ t) with ((c :: rest) ++ t). apply vt_value; assumption.
Qed.
Lemma number_value K x t m : JNumber (m ++ x) -> Tail K t -> VT K (m ++ x ++ t).
Proof. intros Hn Ht. rewrite app_assoc. apply vt_value; [apply jv_number; assumption|assumption]. Qed.

Lemma open_minus K s : L (ANum NNeg K) s -> VT K (45 :: s).
Proof.
  intros (x & t & -> & (i & f & e & -> & Hi & Hf & He) & Ht).
  apply (number_value K _ t [45]); [|assumption]. exists [45], i, f, e. auto.
Qed.
Lemma open_zero K s : L (ANum NZero K) s -> VT K (48 :: s).
Proof.
  intros (x & t & -> & (f & e & -> & Hf & He) & Ht).
  apply (number_value K _ t [48]); [|assumption]. exists [], [48], f, e. repeat split; auto. left; reflexivity.
Qed.
Lemma open_nz K c s : digit19 c = true -> L (ANum NInt K) s -> VT K (c :: s).
Proof.
  intros Hc (x & t & -> & (d & f & e & -> & Hd & Hf & He) & Ht).
  apply (number_value K _ t [c]); [|assumption]. exists [], (c :: d), f, e.
  split; [assoc|]. repeat split; auto. right. exists c, d. auto.
Qed.

(* ---------- closures inside strings ---------- *)
Lemma str_close p s : After p s -> L (AStr SIn p) (34 :: s).
Proof. intros H. exists [34], s. repeat split; auto. exists []. split; [reflexivity|constructor]. Qed.
Lemma str_char p c s : unescaped c = true -> L (AStr SIn p) s -> L (AStr SIn p) (c :: s).
Proof.
  intros Hc (x & a & -> & (body & -> & Hb) & Ha). exists (c :: body ++ [34]), a. repeat split; auto.
  exists (c :: body). split; [reflexivity|constructor; assumption].
Qed.
Lemma str_backslash p s : L (AStr SEsc p) s -> L (AStr SIn p) (92 :: s).
Proof.
  intros (x & a & -> & [(e & body & -> & He & Hb)|(h & body & -> & (Hl & Hh) & Hb)] & Ha).
  - exists (92 :: e :: body ++ [34]), a. repeat split; auto. exists (92 :: e :: body). split; [reflexivity|constructor; assumption].
  - destruct h as [|h1 [|h2 [|h3 [|h4 [|]]]]]; try discriminate.
    inversion Hh as [|? ? H1 Hh1]; subst. inversion Hh1 as [|? ? H2 Hh2]; subst.
    inversion Hh2 as [|? ? H3 Hh3]; subst. inversion Hh3 as [|? ? H4 _]; subst.
    exists (92 :: 117 :: h1 :: h2 :: h3 :: h4 :: body ++ [34]), a. split; [assoc|]. split; [|assumption].
    exists (92 :: 117 :: h1 :: h2 :: h3 :: h4 :: body). split; [reflexivity|constructor; assumption].
Qed.
Lemma str_escape p e s : simple_escape e = true -> L (AStr SIn p) s -> L (AStr SEsc p) (e :: s).
Proof.
  intros He (x & a & -> & (body & -> & Hb) & Ha). exists (e :: body ++ [34]), a. repeat split; auto.
  left. exists e, body. auto.
Qed.
Lemma str_u p s : L (AStr (SU 4) p) s -> L (AStr SEsc p) (117 :: s).
Proof.
  intros (x & a & -> & (h & body & -> & Hh & Hb) & Ha). exists (117 :: h ++ body ++ [34]), a. repeat split; auto.
  right. exists h, body. auto.
Qed.
Lemma str_hex p n c s : hexdigit c = true -> L (AStr (SU n) p) s -> L (AStr (SU (S n)) p) (c :: s).
Proof.
  intros Hc (x & a & -> & (h & body & -> & (Hl & Hh) & Hb) & Ha). exists (c :: h ++ body ++ [34]), a. repeat split; auto.
  exists (c :: h), body. repeat split; auto. cbn. rewrite Hl. reflexivity.
Qed.
Lemma str_hex_last p c s : hexdigit c = true -> L (AStr SIn p) s -> L (AStr (SU 1) p) (c :: s).
Proof.
  intros Hc (x & a & -> & (body & -> & Hb) & Ha). exists (c :: body ++ [34]), a. repeat split; auto.
  exists [c], body. repeat split; auto.
Qed.

(* ---------- closures inside numbers ---------- *)
Lemma jfrac_nil : JFrac []. Proof. left; reflexivity. Qed.
Lemma jexp_nil : JExp []. Proof. left; reflexivity. Qed.
Local Hint Resolve jfrac_nil jexp_nil : js.

Lemma num_neg_zero K s : L (ANum NZero K) s -> L (ANum NNeg K) (48 :: s).
Proof.
  intros (x & t & -> & (f & e & -> & Hf & He) & Ht). exists (48 :: f ++ e), t. repeat split; auto.
  exists [48], f, e. repeat split; auto. left; reflexivity.
Qed.
Lemma num_neg_nz K c s : digit19 c = true -> L (ANum NInt K) s -> L (ANum NNeg K) (c :: s).
Proof.
  intros Hc (x & t & -> & (d & f & e & -> & Hd & Hf & He) & Ht). exists (c :: d ++ f ++ e), t. repeat split; auto.
  exists (c :: d), f, e. repeat split; auto. right. exists c, d. auto.
Qed.
Lemma num_int_digit K c s : digit c = true -> L (ANum NInt K) s -> L (ANum NInt K) (c :: s).
Proof.
  intros Hc (x & t & -> & (d & f & e & -> & Hd & Hf & He) & Ht). exists (c :: d ++ f ++ e), t. repeat split; auto.
  exists (c :: d), f, e. repeat split; auto with js.
Qed.
Lemma num_dot_from_int K s : L (ANum NDot K) s -> L (ANum NInt K) (46 :: s).
Proof.
  intros (x & t & -> & (c & d & e & -> & Hc & Hd & He) & Ht). exists (46 :: c :: d ++ e), t. repeat split; auto.
  exists [], (46 :: c :: d), e. repeat split; auto with js. right. exists c, d. auto.
Qed.
Lemma num_dot_from_zero K s : L (ANum NDot K) s -> L (ANum NZero K) (46 :: s).
Proof.
  intros (x & t & -> & (c & d & e & -> & Hc & Hd & He) & Ht). exists (46 :: c :: d ++ e), t. repeat split; auto.
  exists (46 :: c :: d), e. repeat split; auto. right. exists c, d. auto.
Qed.
Lemma jexp_from_e c x : is_e c = true -> NumRest NE x -> JExp (c :: x).
Proof. intros Hc (sg & c1 & d & -> & Hsg & Hc1 & Hd). right. exists c, sg, c1, d. auto. Qed.
Lemma num_e_from_int K c s : is_e c = true -> L (ANum NE K) s -> L (ANum NInt K) (c :: s).
Proof.
  intros Hc (x & t & -> & Hx & Ht). exists (c :: x), t. repeat split; auto.
  exists [], [], (c :: x). repeat split; auto with js. apply jexp_from_e; assumption.
Qed.
Lemma num_e_from_zero K c s : is_e c = true -> L (ANum NE K) s -> L (ANum NZero K) (c :: s).
Proof.
  intros Hc (x & t & -> & Hx & Ht). exists (c :: x), t. repeat split; auto.
  exists [], (c :: x). repeat split; auto with js. apply jexp_from_e; assumption.
Qed.
Lemma num_e_from_frac K c s : is_e c = true -> L (ANum NE K) s -> L (ANum NFrac K) (c :: s).
Proof.
  intros Hc (x & t & -> & Hx & Ht). exists (c :: x), t. repeat split; auto.
  exists [], (c :: x). repeat split; auto with js. apply jexp_from_e; assumption.
Qed.
Lemma num_dot_digit K c s : digit c = true -> L (ANum NFrac K) s -> L (ANum NDot K) (c :: s).
Proof.
  intros Hc (x & t & -> & (d & e & -> & Hd & He) & Ht). exists (c :: d ++ e), t. repeat split; auto.
  exists c, d, e. auto.
Qed.
Lemma num_frac_digit K c s : digit c = true -> L (ANum NFrac K) s -> L (ANum NFrac K) (c :: s).
Proof.
  intros Hc (x & t & -> & (d & e & -> & Hd & He) & Ht). exists (c :: d ++ e), t. repeat split; auto.
  exists (c :: d), e. auto with js.
Qed.
Lemma num_e_sign K c s : (c = 43 \/ c = 45) -> L (ANum NESign K) s -> L (ANum NE K) (c :: s).
Proof.
  intros Hc (x & t & -> & (c1 & d & -> & Hc1 & Hd) & Ht). exists (c :: c1 :: d), t. repeat split; auto.
  exists [c], c1, d. repeat split; auto. destruct Hc as [->| ->]; auto.
Qed.
Lemma num_e_digit K c s : digit c = true -> L (ANum NExp K) s -> L (ANum NE K) (c :: s).
Proof.
  intros Hc (x & t & -> & Hd & Ht). exists (c :: x), t. repeat split; auto. exists [], c, x. auto.
Qed.
Lemma num_esign_digit K c s : digit c = true -> L (ANum NExp K) s -> L (ANum NESign K) (c :: s).
Proof.
  intros Hc (x & t & -> & Hd & Ht). exists (c :: x), t. repeat split; auto. exists c, x. auto.
Qed.
Lemma num_exp_digit K c s : digit c = true -> L (ANum NExp K) s -> L (ANum NExp K) (c :: s).
Proof.
  intros Hc (x & t & -> & Hd & Ht). exists (c :: x), t. repeat split; auto. cbn [NumRest]. auto with js.
Qed.
(* a complete number may be followed directly by the tail *)
Definition num_complete (sub : numsub) : bool :=
  match sub with NZero | NInt | NFrac | NExp => true | _ => false end.
Lemma num_done K sub s : num_complete sub = true -> Tail K s -> L (ANum sub K) s.
Proof.
  intros Hc Ht. exists [], s. repeat split; auto. destruct sub; try discriminate; cbn [NumRest].
  - exists [], []. auto with js.
  - exists [], [], []. auto with js.
  - exists [], []. auto with js.
  - constructor.
Qed.

(* ---------- closures inside keywords ---------- *)
Lemma kw_letter K c rest s : L (AKw rest K) s -> L (AKw (c :: rest) K) (c :: s).
Proof. intros (t & -> & Ht). exists t. auto. Qed.
Lemma kw_last K c s : Tail K s -> L (AKw [c] K) (c :: s).
Proof. intros Ht. exists s. auto. Qed.

(* ---------- closures after a value ---------- *)
Lemma after_item_comma K s : VT (FArr :: K) s -> Tail (FArr :: K) (44 :: s).
Proof.
  intros H. destruct (vt_els K s H) as (els & t & -> & He & Ht). exists (44 :: els), t. repeat split; auto.
  exists []. split; [constructor|]. right. exists els. auto.
Qed.
Lemma after_item_close K s : Tail K s -> Tail (FArr :: K) (93 :: s).
Proof. intros H. exists [], s. repeat split; auto. exists []. split; [constructor|left; reflexivity]. Qed.
Lemma after_value_comma K s : KVT K s -> Tail (FObj :: K) (44 :: s).
Proof.
  intros H. destruct (kvt_mems K s H) as (ms & t & -> & Hm & Ht). exists (44 :: ms), t. repeat split; auto.
  exists []. split; [constructor|]. right. exists ms. auto.
Qed.
Lemma after_value_close K s : Tail K s -> Tail (FObj :: K) (125 :: s).
Proof. intros H. exists [], s. repeat split; auto. exists []. split; [constructor|left; reflexivity]. Qed.
Lemma after_key_colon K s : VT (FObj :: K) s -> AfterKeyL K (58 :: s).
Proof. intros H. exists [], s. repeat split; auto with js. Qed.
Lemma empty_array_close K s : Tail K s -> L (AItemOrEmpty K) (93 :: s).
Proof. intros H. right. exists [], s. repeat split; auto with js. Qed.
Lemma empty_object_close K s : Tail K s -> L (AKeyOrEmpty K) (125 :: s).
Proof. intros H. right. exists [], s. repeat split; auto with js. Qed.
Lemma item_or_empty_ws K c s : is_ws c = true -> L (AItemOrEmpty K) s -> L (AItemOrEmpty K) (c :: s).
Proof.
  intros Hc [H|(w & t & -> & Hw & Ht)]; [left; apply vt_ws; assumption|].
  right. exists (c :: w), t. repeat split; auto with js.
Qed.
Lemma key_or_empty_ws K c s : is_ws c = true -> L (AKeyOrEmpty K) s -> L (AKeyOrEmpty K) (c :: s).
Proof.
  intros Hc [H|(w & t & -> & Hw & Ht)]; [left; apply kvt_ws; assumption|].
  right. exists (c :: w), t. repeat split; auto with js.
Qed.

(* ---------- abstraction of configurations ---------- *)
Local Open Scope Z_scope.
Inductive shape : list frame -> list (lext * Z) -> Prop :=
| sh_nil : shape [] []
| sh_arr K st b1 b2 : shape K st -> shape (FArr :: K) ((ArrayItemBegin, b1) :: (ArrayBegin, b2) :: st)
| sh_obj K st b1 b2 : shape K st -> shape (FObj :: K) ((ObjectValueBegin, b1) :: (ObjectBegin, b2) :: st).

Definition str_step (sub : strsub) : option jstep :=
  match sub with
  | SIn => Some JInString | SEsc => Some JEsc
  | SU 4 => Some JEscU | SU 3 => Some JEscU1 | SU 2 => Some JEscU12 | SU 1 => Some JEscU123
  | SU _ => None
  end.
Definition str_ret (sub : strsub) : list jstep := match sub with SU _ => [JInString] | _ => [] end.
Definition num_step (sub : numsub) : jstep :=
  match sub with
  | NNeg => JNeg | NZero => J0 | NInt => J1 | NDot => JDot | NFrac => JDot0 | NE => JE | NESign => JESign | NExp => JE0
  end.
Definition num_unf (sub : numsub) : bool := negb (num_complete sub).
Definition kw_rest (s : jstep) : option bytes :=
  match s with
  | JT => Some [114; 117; 101] | JTr => Some [117; 101] | JTru => Some [101]
  | JF => Some [97; 108; 115; 101] | JFa => Some [108; 115; 101] | JFal => Some [115; 101] | JFals => Some [101]
  | JN => Some [117; 108; 108] | JNu => Some [108; 108] | JNul => Some [108]
  | _ => None
  end%N.
Definition pos_stack (p : spos) (st : list (lext * Z)) (b b2 : Z) : list (lext * Z) :=
  match p with
  | PVal _ => (LiteralBegin, b) :: st
  | PKey _ => (ObjectKeyBegin, b) :: (ObjectBegin, b2) :: st
  end.
Definition pos_ctx (p : spos) : list frame := match p with PVal K => K | PKey K => K end.
Definition pos_unf (p : spos) : bool := match p with PVal _ => true | PKey _ => false end.

Inductive abs : astate -> jcfg -> Prop :=
| abs_root i : abs ARoot (mk_jcfg JRoot [] [] i false al)
| abs_item_or_empty K st b i : shape K st -> abs (AItemOrEmpty K) (mk_jcfg JItemOrEmpty [] ((ArrayBegin, b) :: st) i false al)
| abs_item_begin K st b i : shape K st -> abs (AItemBegin K) (mk_jcfg JItemBegin [] ((ArrayBegin, b) :: st) i false al)
| abs_after_item K st b i : shape K st -> abs (AAfterItem K) (mk_jcfg JAfterItem [] ((ArrayBegin, b) :: st) i false al)
| abs_key_or_empty K st b i : shape K st -> abs (AKeyOrEmpty K) (mk_jcfg JKeyOrEmpty [] ((ObjectBegin, b) :: st) i false al)
| abs_key_begin K st b i : shape K st -> abs (AKeyBegin K) (mk_jcfg JKeyBegin [] ((ObjectBegin, b) :: st) i false al)
| abs_after_key K st b i : shape K st -> abs (AAfterKey K) (mk_jcfg JAfterKey [] ((ObjectBegin, b) :: st) i false al)
| abs_value_begin K st b i : shape K st -> abs (AValueBegin K) (mk_jcfg JValueBegin [] ((ObjectBegin, b) :: st) i false al)
| abs_after_value K st b i : shape K st -> abs (AAfterValue K) (mk_jcfg JAfterValue [] ((ObjectBegin, b) :: st) i false al)
| abs_end_lit K st b i : shape K st -> abs (AEnd K true) (mk_jcfg JEndValue [] ((LiteralBegin, b) :: st) i false al)
| abs_end_nolit K st i : shape K st -> abs (AEnd K false) (mk_jcfg JEndValue [] st i false al)
| abs_end_key K st b b2 i : shape K st ->
    abs (AEndKey K) (mk_jcfg JEndValue [] ((ObjectKeyBegin, b) :: (ObjectBegin, b2) :: st) i false al)
| abs_end_top i : abs AEndTop (mk_jcfg JEndTop [] [] i false al)
| abs_str sub p st b b2 i stp : shape (pos_ctx p) st -> str_step sub = Some stp ->
    abs (AStr sub p) (mk_jcfg stp (str_ret sub) (pos_stack p st b b2) i (pos_unf p) al)
| abs_num sub K st b i : shape K st ->
    abs (ANum sub K) (mk_jcfg (num_step sub) [] ((LiteralBegin, b) :: st) i (num_unf sub) al)
| abs_kw stp rest K st b i : shape K st -> kw_rest stp = Some rest ->
    abs (AKw rest K) (mk_jcfg stp [] ((LiteralBegin, b) :: st) i true al).

(* the value context a value-start state offers, and the stack below the value *)
Lemma vt_root s : VT [] s -> L ARoot s. Proof. auto. Qed.
Lemma vt_item_or_empty K s : VT (FArr :: K) s -> L (AItemOrEmpty K) s. Proof. left; assumption. Qed.

End AL.

(* byte class facts in the context *)
Ltac facts b Hb E :=
  pose proof (f_ws b Hb) as Fws; pose proof (f_digit b Hb) as Fdigit; pose proof (f_digit19 b Hb) as Fd19;
  pose proof (f_hex b Hb) as Fhex; pose proof (f_e b Hb) as Fe; pose proof (f_esc b Hb) as Fesc;
  pose proof (f_unesc b Hb) as Funesc;
  rewrite E in Fws, Fdigit, Fd19, Fhex, Fe, Fesc, Funesc;
  cbn in Fws, Fdigit, Fd19, Fhex, Fe, Fesc, Funesc;
  try (let x := fresh "x" in
       assert (x : exists y, kbyte (jcls_of b) = Some y) by (rewrite E; eexists; reflexivity);
       destruct x as [y x]; pose proof (f_byte b Hb y x) as Fb; rewrite E in x; cbn in x; inversion x; subst y; clear x).

(* ---------- one step ---------- *)
Definition has_end_top (lx : list lexeme) : bool := existsb (fun x => lext_eqb (fst (fst x)) EndTop) lx.
Definition step_ok (al : bool) (a : astate) (c : jcfg) (b : N) : Prop :=
  match jfeed c b with
  | Ok (c', lx) =>
    if has_end_top lx then forall rest, L al a (b :: rest)           (* only with the trailing option *)
    else exists a', abs al a' c' /\ (forall s', L al a' s' -> L al a (b :: s')) /\ (a' = ARoot -> a = ARoot /\ lx = [])
  | Err e => e = 301%N
  | Panic _ => False
  end.

Global Hint Constructors shape : js.
Global Hint Resolve ws_nil ws_cons ws_app digits_nil digits_cons jfrac_nil jexp_nil : js.
Lemma abs_str_val al sub K st b i stp : shape K st -> str_step sub = Some stp ->
  abs al (AStr sub (PVal K)) (mk_jcfg stp (str_ret sub) ((LiteralBegin, b) :: st) i true al).
Proof. intros H1 H2. exact (abs_str al sub (PVal K) st b 0 i stp H1 H2). Qed.
Lemma abs_str_key al sub K st b b2 i stp : shape K st -> str_step sub = Some stp ->
  abs al (AStr sub (PKey K)) (mk_jcfg stp (str_ret sub) ((ObjectKeyBegin, b) :: (ObjectBegin, b2) :: st) i false al).
Proof. intros H1 H2. exact (abs_str al sub (PKey K) st b b2 i stp H1 H2). Qed.
Ltac absok := first [ solve [apply abs_str_val; eauto with js] | solve [apply abs_str_key; eauto with js]
                    | solve [econstructor; eauto with js] ].
Ltac fin a' tac :=
  exists a'; split; [absok | split; [let s' := fresh "s'" in let Hs := fresh "Hs" in intros s' Hs; tac Hs
                                    | let X := fresh in intros X; try discriminate X; auto]].
Ltac byt := match goal with Fb : _ = ?b |- _ => is_var b; subst b end.

(* closures shared by every state in which a value may start; lift turns VT Kv into the state's language *)
Ltac vstart Kv self lift wslemma :=
  lazymatch goal with
  | E : jcls_of _ = KBlank |- _ => fin self ltac:(fun H => apply wslemma; [assumption|exact H])
  | E : jcls_of _ = KWs |- _ => fin self ltac:(fun H => apply wslemma; [assumption|exact H])
  | E : jcls_of _ = KLBrace |- _ => byt; fin (AKeyOrEmpty Kv) ltac:(fun H => lift; apply open_object; exact H)
  | E : jcls_of _ = KLBrack |- _ => byt; fin (AItemOrEmpty Kv) ltac:(fun H => lift; apply open_array; exact H)
  | E : jcls_of _ = KQuote |- _ => byt; fin (AStr SIn (PVal Kv)) ltac:(fun H => lift; apply open_string; exact H)
  | E : jcls_of _ = KMinus |- _ => byt; fin (ANum NNeg Kv) ltac:(fun H => lift; apply open_minus; exact H)
  | E : jcls_of _ = KZero |- _ => byt; fin (ANum NZero Kv) ltac:(fun H => lift; apply open_zero; exact H)
  | E : jcls_of _ = KNz |- _ => fin (ANum NInt Kv) ltac:(fun H => lift; apply open_nz; [assumption|exact H])
  | E : jcls_of _ = Kt |- _ => byt; fin (AKw [114; 117; 101]%N Kv) ltac:(fun H => lift; apply (open_kw _ Kv 116%N _ _ jv_true H))
  | E : jcls_of _ = Kf |- _ => byt; fin (AKw [97; 108; 115; 101]%N Kv) ltac:(fun H => lift; apply (open_kw _ Kv 102%N _ _ jv_false H))
  | E : jcls_of _ = Kn |- _ => byt; fin (AKw [117; 108; 108]%N Kv) ltac:(fun H => lift; apply (open_kw _ Kv 110%N _ _ jv_null H))
  end.

(* what happens on the byte after a complete value in context K (stateEndValue and the After* states);
   wrap turns "Tail K" into the language of the current state *)
Ltac after_value_tac K' wrap :=
  lazymatch goal with
  | E : jcls_of _ = KBlank |- _ => fin (AAfterValue K') ltac:(fun H => wrap; apply (tail_ws _ (FObj :: K')); [assumption|exact H])
  | E : jcls_of _ = KWs |- _ => fin (AAfterValue K') ltac:(fun H => wrap; apply (tail_ws _ (FObj :: K')); [assumption|exact H])
  | E : jcls_of _ = KComma |- _ => byt; fin (AKeyBegin K') ltac:(fun H => wrap; apply after_value_comma; exact H)
  | E : jcls_of _ = KRBrace |- _ => byt; fin (AEnd K' false) ltac:(fun H => wrap; apply after_value_close; exact H)
  end.
Ltac after_item_tac K' wrap :=
  lazymatch goal with
  | E : jcls_of _ = KBlank |- _ => fin (AAfterItem K') ltac:(fun H => wrap; apply (tail_ws _ (FArr :: K')); [assumption|exact H])
  | E : jcls_of _ = KWs |- _ => fin (AAfterItem K') ltac:(fun H => wrap; apply (tail_ws _ (FArr :: K')); [assumption|exact H])
  | E : jcls_of _ = KComma |- _ => byt; fin (AItemBegin K') ltac:(fun H => wrap; apply after_item_comma; exact H)
  | E : jcls_of _ = KRBrack |- _ => byt; fin (AEnd K' false) ltac:(fun H => wrap; apply after_item_close; exact H)
  end.
Ltac end_top_tac wrap :=
  lazymatch goal with
  | E : jcls_of _ = KBlank |- _ => fin AEndTop ltac:(fun H => wrap; apply (tail_ws _ []); [assumption|exact H])
  | E : jcls_of _ = KWs |- _ => fin AEndTop ltac:(fun H => wrap; apply (tail_ws _ []); [assumption|exact H])
  | _ => let rest := fresh in intros rest; wrap; exact I
  end.

Ltac start b Hb :=
  unfold step_ok, jfeed, has_end_top; cbn [jstp jret jstack jindex junf jallow];
  destruct (jcls_of b) eqn:E; cbn -[L Tail]; try reflexivity; facts b Hb E.
Ltac dal := match goal with al : bool |- _ => destruct al end.

Lemma step_root al b i : byte b -> step_ok al ARoot (mk_jcfg JRoot [] [] i false al) b.
Proof.
  intros Hb. start b Hb; vstart (@nil frame) ARoot idtac (vt_ws al []).
Qed.

Lemma step_item_or_empty al K st b0 b i : byte b -> shape K st ->
  step_ok al (AItemOrEmpty K) (mk_jcfg JItemOrEmpty [] ((ArrayBegin, b0) :: st) i false al) b.
Proof.
  intros Hb Hs. start b Hb;
  first [ vstart (FArr :: K) (AItemOrEmpty K) ltac:(left) (item_or_empty_ws al K)
        | byt; fin (AEnd K false) ltac:(fun H => apply empty_array_close; exact H) ].
Qed.
Lemma step_item_begin al K st b0 b i : byte b -> shape K st ->
  step_ok al (AItemBegin K) (mk_jcfg JItemBegin [] ((ArrayBegin, b0) :: st) i false al) b.
Proof. intros Hb Hs. start b Hb; vstart (FArr :: K) (AItemBegin K) idtac (vt_ws al (FArr :: K)). Qed.
Lemma step_value_begin al K st b0 b i : byte b -> shape K st ->
  step_ok al (AValueBegin K) (mk_jcfg JValueBegin [] ((ObjectBegin, b0) :: st) i false al) b.
Proof. intros Hb Hs. start b Hb; vstart (FObj :: K) (AValueBegin K) idtac (vt_ws al (FObj :: K)). Qed.
Lemma step_after_item al K st b0 b i : byte b -> shape K st ->
  step_ok al (AAfterItem K) (mk_jcfg JAfterItem [] ((ArrayBegin, b0) :: st) i false al) b.
Proof. intros Hb Hs. start b Hb; after_item_tac K idtac. Qed.
Lemma step_after_value al K st b0 b i : byte b -> shape K st ->
  step_ok al (AAfterValue K) (mk_jcfg JAfterValue [] ((ObjectBegin, b0) :: st) i false al) b.
Proof. intros Hb Hs. start b Hb; after_value_tac K idtac. Qed.
Lemma step_key_or_empty al K st b0 b i : byte b -> shape K st ->
  step_ok al (AKeyOrEmpty K) (mk_jcfg JKeyOrEmpty [] ((ObjectBegin, b0) :: st) i false al) b.
Proof.
  intros Hb Hs. start b Hb;
  lazymatch goal with
  | E : jcls_of _ = KBlank |- _ => fin (AKeyOrEmpty K) ltac:(fun H => apply key_or_empty_ws; [assumption|exact H])
  | E : jcls_of _ = KWs |- _ => fin (AKeyOrEmpty K) ltac:(fun H => apply key_or_empty_ws; [assumption|exact H])
  | E : jcls_of _ = KRBrace |- _ => byt; fin (AEnd K false) ltac:(fun H => apply empty_object_close; exact H)
  | E : jcls_of _ = KQuote |- _ => byt; fin (AStr SIn (PKey K)) ltac:(fun H => left; apply open_key; exact H)
  end.
Qed.
Lemma step_key_begin al K st b0 b i : byte b -> shape K st ->
  step_ok al (AKeyBegin K) (mk_jcfg JKeyBegin [] ((ObjectBegin, b0) :: st) i false al) b.
Proof.
  intros Hb Hs. start b Hb;
  lazymatch goal with
  | E : jcls_of _ = KBlank |- _ => fin (AKeyBegin K) ltac:(fun H => apply kvt_ws; [assumption|exact H])
  | E : jcls_of _ = KWs |- _ => fin (AKeyBegin K) ltac:(fun H => apply kvt_ws; [assumption|exact H])
  | E : jcls_of _ = KQuote |- _ => byt; fin (AStr SIn (PKey K)) ltac:(fun H => apply open_key; exact H)
  end.
Qed.
Ltac after_key_tac K :=
  lazymatch goal with
  | E : jcls_of _ = KBlank |- _ => fin (AAfterKey K) ltac:(fun H => apply afterkey_ws; [assumption|exact H])
  | E : jcls_of _ = KWs |- _ => fin (AAfterKey K) ltac:(fun H => apply afterkey_ws; [assumption|exact H])
  | E : jcls_of _ = KColon |- _ => byt; fin (AValueBegin K) ltac:(fun H => apply after_key_colon; exact H)
  end.
Lemma step_after_key al K st b0 b i : byte b -> shape K st ->
  step_ok al (AAfterKey K) (mk_jcfg JAfterKey [] ((ObjectBegin, b0) :: st) i false al) b.
Proof. intros Hb Hs. start b Hb; after_key_tac K. Qed.
Lemma step_end_key al K st b0 b2 b i : byte b -> shape K st ->
  step_ok al (AEndKey K) (mk_jcfg JEndValue [] ((ObjectKeyBegin, b0) :: (ObjectBegin, b2) :: st) i false al) b.
Proof. intros Hb Hs. start b Hb; after_key_tac K. Qed.
Lemma step_end_top al b i : byte b -> step_ok al AEndTop (mk_jcfg JEndTop [] [] i false al) b.
Proof. intros Hb. destruct al; start b Hb; end_top_tac idtac. Qed.
Lemma step_end_lit al K st b0 b i : byte b -> shape K st ->
  step_ok al (AEnd K true) (mk_jcfg JEndValue [] ((LiteralBegin, b0) :: st) i false al) b.
Proof.
  intros Hb Hs. destruct Hs as [|K st b1 b2 Hs|K st b1 b2 Hs];
  [destruct al; start b Hb; end_top_tac idtac | start b Hb; after_item_tac K idtac | start b Hb; after_value_tac K idtac].
Qed.
Lemma step_end_nolit al K st b i : byte b -> shape K st ->
  step_ok al (AEnd K false) (mk_jcfg JEndValue [] st i false al) b.
Proof.
  intros Hb Hs. destruct Hs as [|K st b1 b2 Hs|K st b1 b2 Hs];
  [destruct al; start b Hb; end_top_tac idtac | start b Hb; after_item_tac K idtac | start b Hb; after_value_tac K idtac].
Qed.

(* strings *)
Ltac str_in_tac p closeto :=
  lazymatch goal with
  | E : jcls_of _ = KQuote |- _ => byt; fin closeto ltac:(fun H => apply str_close; exact H)
  | E : jcls_of _ = KBackslash |- _ => byt; fin (AStr SEsc p) ltac:(fun H => apply str_backslash; exact H)
  | _ => fin (AStr SIn p) ltac:(fun H => apply str_char; [assumption|exact H])
  end.
Ltac str_esc_tac p :=
  lazymatch goal with
  | E : jcls_of _ = Ku |- _ => byt; fin (AStr (SU 4) p) ltac:(fun H => apply str_u; exact H)
  | _ => fin (AStr SIn p) ltac:(fun H => apply str_escape; [assumption|exact H])
  end.
Lemma step_str al sub p st b0 b2 b i stp : byte b -> shape (pos_ctx p) st -> str_step sub = Some stp ->
  step_ok al (AStr sub p) (mk_jcfg stp (str_ret sub) (pos_stack p st b0 b2) i (pos_unf p) al) b.
Proof.
  intros Hb Hs Hstp.
  destruct sub as [| |[|[|[|[|[|n]]]]]]; cbn in Hstp; try discriminate Hstp; inversion Hstp; subst stp; clear Hstp;
  destruct p as [K|K]; cbn [pos_ctx pos_stack pos_unf str_ret] in *; start b Hb.
  all: try (str_in_tac (PVal K) (AEnd K true)).
  all: try (str_in_tac (PKey K) (AEndKey K)).
  all: try (str_esc_tac (PVal K)).
  all: try (str_esc_tac (PKey K)).
  all: try (fin (AStr SIn (PVal K)) ltac:(fun H => apply str_hex_last; [assumption|exact H])).
  all: try (fin (AStr SIn (PKey K)) ltac:(fun H => apply str_hex_last; [assumption|exact H])).
  all: try (fin (AStr (SU 1) (PVal K)) ltac:(fun H => apply str_hex; [assumption|exact H])).
  all: try (fin (AStr (SU 1) (PKey K)) ltac:(fun H => apply str_hex; [assumption|exact H])).
  all: try (fin (AStr (SU 2) (PVal K)) ltac:(fun H => apply str_hex; [assumption|exact H])).
  all: try (fin (AStr (SU 2) (PKey K)) ltac:(fun H => apply str_hex; [assumption|exact H])).
  all: try (fin (AStr (SU 3) (PVal K)) ltac:(fun H => apply str_hex; [assumption|exact H])).
  all: try (fin (AStr (SU 3) (PKey K)) ltac:(fun H => apply str_hex; [assumption|exact H])).
Qed.

(* numbers *)
Ltac num_tac K :=
  lazymatch goal with
  | |- context [L _ (ANum NNeg _) _] =>
    lazymatch goal with
    | E : jcls_of _ = KZero |- _ => byt; fin (ANum NZero K) ltac:(fun H => apply num_neg_zero; exact H)
    | E : jcls_of _ = KNz |- _ => fin (ANum NInt K) ltac:(fun H => apply num_neg_nz; [assumption|exact H])
    end
  | |- context [L _ (ANum NZero _) _] =>
    lazymatch goal with
    | E : jcls_of _ = KDot |- _ => byt; fin (ANum NDot K) ltac:(fun H => apply num_dot_from_zero; exact H)
    | E : jcls_of _ = Ke |- _ => fin (ANum NE K) ltac:(fun H => apply num_e_from_zero; [assumption|exact H])
    | E : jcls_of _ = KE |- _ => fin (ANum NE K) ltac:(fun H => apply num_e_from_zero; [assumption|exact H])
    end
  | |- context [L _ (ANum NInt _) _] =>
    lazymatch goal with
    | E : jcls_of _ = KDot |- _ => byt; fin (ANum NDot K) ltac:(fun H => apply num_dot_from_int; exact H)
    | E : jcls_of _ = Ke |- _ => fin (ANum NE K) ltac:(fun H => apply num_e_from_int; [assumption|exact H])
    | E : jcls_of _ = KE |- _ => fin (ANum NE K) ltac:(fun H => apply num_e_from_int; [assumption|exact H])
    | E : jcls_of _ = KZero |- _ => fin (ANum NInt K) ltac:(fun H => apply num_int_digit; [assumption|exact H])
    | E : jcls_of _ = KNz |- _ => fin (ANum NInt K) ltac:(fun H => apply num_int_digit; [assumption|exact H])
    end
  | |- context [L _ (ANum NDot _) _] => fin (ANum NFrac K) ltac:(fun H => apply num_dot_digit; [assumption|exact H])
  | |- context [L _ (ANum NFrac _) _] =>
    lazymatch goal with
    | E : jcls_of _ = Ke |- _ => fin (ANum NE K) ltac:(fun H => apply num_e_from_frac; [assumption|exact H])
    | E : jcls_of _ = KE |- _ => fin (ANum NE K) ltac:(fun H => apply num_e_from_frac; [assumption|exact H])
    | E : jcls_of _ = KZero |- _ => fin (ANum NFrac K) ltac:(fun H => apply num_frac_digit; [assumption|exact H])
    | E : jcls_of _ = KNz |- _ => fin (ANum NFrac K) ltac:(fun H => apply num_frac_digit; [assumption|exact H])
    end
  | |- context [L _ (ANum NE _) _] =>
    lazymatch goal with
    | E : jcls_of _ = KPlus |- _ => byt; fin (ANum NESign K) ltac:(fun H => apply num_e_sign; [left; reflexivity|exact H])
    | E : jcls_of _ = KMinus |- _ => byt; fin (ANum NESign K) ltac:(fun H => apply num_e_sign; [right; reflexivity|exact H])
    | _ => fin (ANum NExp K) ltac:(fun H => apply num_e_digit; [assumption|exact H])
    end
  | |- context [L _ (ANum NESign _) _] => fin (ANum NExp K) ltac:(fun H => apply num_esign_digit; [assumption|exact H])
  | |- context [L _ (ANum NExp _) _] => fin (ANum NExp K) ltac:(fun H => apply num_exp_digit; [assumption|exact H])
  end.

Lemma step_num al sub K st b0 b i : byte b -> shape K st ->
  step_ok al (ANum sub K) (mk_jcfg (num_step sub) [] ((LiteralBegin, b0) :: st) i (num_unf sub) al) b.
Proof.
  intros Hb Hs.
  destruct Hs as [|K st b1 b2 Hs|K st b1 b2 Hs]; [destruct al| |]; destruct sub; cbn [num_step num_unf num_complete negb]; start b Hb.
  all: first
    [ num_tac (@nil frame) | num_tac (FArr :: K) | num_tac (FObj :: K)
    | end_top_tac ltac:(apply num_done; [reflexivity|])
    | after_item_tac K ltac:(apply num_done; [reflexivity|])
    | after_value_tac K ltac:(apply num_done; [reflexivity|]) ].
Qed.

(* keywords *)
Lemma step_kw al stp rest K st b0 b i : byte b -> shape K st -> kw_rest stp = Some rest ->
  step_ok al (AKw rest K) (mk_jcfg stp [] ((LiteralBegin, b0) :: st) i true al) b.
Proof.
  intros Hb Hs Hk. destruct stp; cbn in Hk; try discriminate Hk; inversion Hk; subst rest; clear Hk; start b Hb; byt.
  all: first
    [ fin (AEnd K true) ltac:(fun H => apply kw_last; exact H)
    | fin (AKw [117; 101]%N K) ltac:(fun H => apply kw_letter; exact H)
    | fin (AKw [101]%N K) ltac:(fun H => apply kw_letter; exact H)
    | fin (AKw [108; 115; 101]%N K) ltac:(fun H => apply kw_letter; exact H)
    | fin (AKw [115; 101]%N K) ltac:(fun H => apply kw_letter; exact H)
    | fin (AKw [108; 108]%N K) ltac:(fun H => apply kw_letter; exact H)
    | fin (AKw [108]%N K) ltac:(fun H => apply kw_letter; exact H) ].
Qed.

(* every abstractly described configuration makes a sound step on every byte *)
Theorem step_sound al a c b : byte b -> abs al a c -> step_ok al a c b.
Proof.
  intros Hb Ha. destruct Ha.
  - apply step_root; assumption.
  - apply step_item_or_empty; assumption.
  - apply step_item_begin; assumption.
  - apply step_after_item; assumption.
  - apply step_key_or_empty; assumption.
  - apply step_key_begin; assumption.
  - apply step_after_key; assumption.
  - apply step_value_begin; assumption.
  - apply step_after_value; assumption.
  - apply step_end_lit; assumption.
  - apply step_end_nolit; assumption.
  - apply step_end_key; assumption.
  - apply step_end_top; assumption.
  - apply step_str; assumption.
  - apply step_num; assumption.
  - apply step_kw; assumption.
Qed.
