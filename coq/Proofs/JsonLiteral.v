(* C12, "literal and key lexemes cover exactly the literal's bytes": in the lexeme stream of an accepted document
   every LiteralEnd lexeme spans a JSON scalar (string, number, true/false/null) and every ObjectKeyEnd lexeme spans a
   JSON string - the span is the scalar, no byte more and no byte less.
   Two halves, joined over the run:
     (i)  along the abstract automaton `next` the bytes consumed since a literal began are a prefix of a scalar whose
          remainder is the residual language of the state (PreA);
     (ii) in the scanner model the begin recorded on the stack is the index of the literal's first byte and a closing
          lexeme is emitted with end = the index of the last byte consumed before the terminating one (step_marks). *)
From Coq Require Import List ZArith NArith Bool Lia.
From JS Require Import Base.Res Base.Lex Spec.JsonGrammar Model.JsonScan Proofs.JsonClasses Proofs.JsonSound Proofs.JsonMain
  Proofs.JsonComplete Proofs.JsonLen Proofs.JsonStream.
Import ListNotations.
Local Open Scope N_scope.

Definition JKeyword (v : bytes) : Prop := v = [116; 114; 117; 101] \/ v = [102; 97; 108; 115; 101] \/ v = [110; 117; 108; 108].
Definition JScalar (v : bytes) : Prop := JKeyword v \/ JNumber v \/ JString v.
Lemma scalar_value v : JScalar v -> JValue v.
Proof. intros [[->|[->| ->]]|[H|H]]; try constructor; assumption. Qed.

(* ---------- residuals of the scalar tokens alone ---------- *)
Lemma sr_close : StrRest SIn [34].
Proof. exists []. split; [reflexivity|constructor]. Qed.
Lemma sr_char c y : unescaped c = true -> StrRest SIn y -> StrRest SIn (c :: y).
Proof. intros Hc (body & -> & Hb). exists (c :: body). split; [reflexivity|constructor; assumption]. Qed.
Lemma sr_backslash y : StrRest SEsc y -> StrRest SIn (92 :: y).
Proof.
  intros [(e & body & -> & He & Hb)|(h & body & -> & (Hl & Hh) & Hb)].
  - exists (92 :: e :: body). split; [reflexivity|constructor; assumption].
  - destruct h as [|h1 [|h2 [|h3 [|h4 [|]]]]]; try discriminate.
    inversion Hh as [|? ? H1 Hh1]; subst. inversion Hh1 as [|? ? H2 Hh2]; subst.
    inversion Hh2 as [|? ? H3 Hh3]; subst. inversion Hh3 as [|? ? H4 _]; subst.
    exists (92 :: 117 :: h1 :: h2 :: h3 :: h4 :: body). split; [reflexivity|constructor; assumption].
Qed.
Lemma sr_escape e y : simple_escape e = true -> StrRest SIn y -> StrRest SEsc (e :: y).
Proof. intros He (body & -> & Hb). left. exists e, body. auto. Qed.
Lemma sr_u y : StrRest (SU 4) y -> StrRest SEsc (117 :: y).
Proof. intros (h & body & -> & Hh & Hb). right. exists h, body. auto. Qed.
Lemma sr_hex n c y : hexdigit c = true -> StrRest (SU n) y -> StrRest (SU (S n)) (c :: y).
Proof.
  intros Hc (h & body & -> & (Hl & Hh) & Hb). exists (c :: h), body. repeat split; auto. cbn. rewrite Hl. reflexivity.
Qed.
Lemma sr_hex_last c y : hexdigit c = true -> StrRest SIn y -> StrRest (SU 1) (c :: y).
Proof. intros Hc (body & -> & Hb). exists [c], body. repeat split; auto. Qed.

Lemma nr_neg_zero y : NumRest NZero y -> NumRest NNeg (48 :: y).
Proof. intros (f & e & -> & Hf & He). exists [48], f, e. repeat split; auto. left; reflexivity. Qed.
Lemma nr_neg_nz c y : digit19 c = true -> NumRest NInt y -> NumRest NNeg (c :: y).
Proof. intros Hc (d & f & e & -> & Hd & Hf & He). exists (c :: d), f, e. repeat split; auto. right. exists c, d. auto. Qed.
Lemma nr_int_digit c y : digit c = true -> NumRest NInt y -> NumRest NInt (c :: y).
Proof. intros Hc (d & f & e & -> & Hd & Hf & He). exists (c :: d), f, e. repeat split; auto with js. Qed.
Lemma nr_dot_from_int y : NumRest NDot y -> NumRest NInt (46 :: y).
Proof.
  intros (c & d & e & -> & Hc & Hd & He). exists [], (46 :: c :: d), e. repeat split; auto with js. right. exists c, d. auto.
Qed.
Lemma nr_dot_from_zero y : NumRest NDot y -> NumRest NZero (46 :: y).
Proof. intros (c & d & e & -> & Hc & Hd & He). exists (46 :: c :: d), e. repeat split; auto. right. exists c, d. auto. Qed.
Lemma nr_e_from_int c y : is_e c = true -> NumRest NE y -> NumRest NInt (c :: y).
Proof. intros Hc Hx. exists [], [], (c :: y). repeat split; auto with js. apply jexp_from_e; assumption. Qed.
Lemma nr_e_from_zero c y : is_e c = true -> NumRest NE y -> NumRest NZero (c :: y).
Proof. intros Hc Hx. exists [], (c :: y). repeat split; auto with js. apply jexp_from_e; assumption. Qed.
Lemma nr_e_from_frac c y : is_e c = true -> NumRest NE y -> NumRest NFrac (c :: y).
Proof. intros Hc Hx. exists [], (c :: y). repeat split; auto with js. apply jexp_from_e; assumption. Qed.
Lemma nr_dot_digit c y : digit c = true -> NumRest NFrac y -> NumRest NDot (c :: y).
Proof. intros Hc (d & e & -> & Hd & He). exists c, d, e. auto. Qed.
Lemma nr_frac_digit c y : digit c = true -> NumRest NFrac y -> NumRest NFrac (c :: y).
Proof. intros Hc (d & e & -> & Hd & He). exists (c :: d), e. auto with js. Qed.
Lemma nr_e_sign c y : (c = 43 \/ c = 45) -> NumRest NESign y -> NumRest NE (c :: y).
Proof. intros Hc (c1 & d & -> & Hc1 & Hd). exists [c], c1, d. repeat split; auto. destruct Hc as [->| ->]; auto. Qed.
Lemma nr_e_digit c y : digit c = true -> NumRest NExp y -> NumRest NE (c :: y).
Proof. intros Hc Hd. exists [], c, y. auto. Qed.
Lemma nr_esign_digit c y : digit c = true -> NumRest NExp y -> NumRest NESign (c :: y).
Proof. intros Hc Hd. exists c, y. auto. Qed.
Lemma nr_exp_digit c y : digit c = true -> NumRest NExp y -> NumRest NExp (c :: y).
Proof. intros Hc Hd. cbn [NumRest] in *. auto with js. Qed.
Lemma nr_done sub : num_complete sub = true -> NumRest sub [].
Proof.
  destruct sub; try discriminate; intros _; cbn [NumRest].
  - exists [], []. auto with js.
  - exists [], [], []. auto with js.
  - exists [], []. auto with js.
  - constructor.
Qed.

(* what the bytes consumed since the literal began (g) are, given the state *)
Definition PreA (a : astate) (g : bytes) : Prop :=
  match a with
  | AStr sub _ => forall y, StrRest sub y -> JString (g ++ y)
  | ANum sub _ => forall y, NumRest sub y -> JNumber (g ++ y)
  | AKw rest _ => JKeyword (g ++ rest)
  | AEnd _ true => JScalar g
  | AEndKey _ => JString g
  | _ => True
  end.
(* a scalar is open: its begin is on top of the stack *)
Definition lit_open (a : astate) : bool :=
  match a with AStr _ _ | ANum _ _ | AKw _ _ | AEnd _ true | AEndKey _ => true | _ => false end.
(* the scalar a closing lexeme emitted in state a spans *)
Definition closes (a : astate) (g : bytes) : Prop :=
  match a with
  | AEnd _ true => JScalar g
  | ANum sub _ => num_complete sub = true -> JScalar g
  | AEndKey _ => JString g
  | _ => True
  end.
Lemma pre_closes a g : PreA a g -> closes a g.
Proof.
  destruct a as [| | | | | | | | |K lit| | |sub p|sub K|rest K]; cbn [PreA closes]; auto.
  intros H Hc. right; left. rewrite <- (app_nil_r g). apply H. apply nr_done; exact Hc.
Qed.

Lemma jnumber_start m y : (m = [] \/ m = [45]) -> NumRest NNeg y -> JNumber (m ++ y).
Proof. intros Hm (i & f & e & -> & Hi & Hf & He). exists m, i, f, e. auto. Qed.

Ltac pre_str lem :=
  let y := fresh "y" in let Hy := fresh "Hy" in
  intros y Hy; rewrite <- app_assoc; cbn [app];
  match goal with H : forall y, StrRest _ y -> JString (_ ++ y) |- _ => apply H end; lem; auto.
Ltac pre_num lem :=
  let y := fresh "y" in let Hy := fresh "Hy" in
  intros y Hy; rewrite <- app_assoc; cbn [app];
  match goal with H : forall y, NumRest _ y -> JNumber (_ ++ y) |- _ => apply H end; lem; auto.

(* (i) one abstract step *)
Lemma pre_step a b a' g : byte b -> next a (jcls_of b) = Some a' -> PreA a g ->
  PreA a' (if lit_open a then g ++ [b] else [b]).
Proof.
  intros Hb Hn Hp.
  assert (Hstart : forall Kv self, vstart Kv self (jcls_of b) = Some a' -> a' = self \/ lit_open a' = false \/ PreA a' [b]).
  { intros Kv self Hv. destruct (jcls_of b) eqn:E; cbn [vstart] in Hv; inversion Hv; subst; auto; right; right; facts b Hb E; cbn [PreA].
    - byt. intros y (body & -> & Hbody). exists body. auto.
    - byt. intros y Hy. apply (jnumber_start [45] y); auto.
    - byt. intros y (f & e & -> & Hf & He). exists [], [48], f, e. repeat split; auto. left; reflexivity.
    - intros y (d & f & e & -> & Hd & Hf & He). exists [], (b :: d), f, e. repeat split; auto. right. exists b, d. auto.
    - byt. left. reflexivity.
    - byt. right; left. reflexivity.
    - byt. right; right. reflexivity. }
  assert (Hafter : forall K, after K (jcls_of b) = Some a' -> lit_open a' = false).
  { intros K Ha. destruct K as [|[|] K]; cbn [after] in Ha; destruct (jcls_of b); cbn in Ha; inversion Ha; reflexivity. }
  assert (Hnl : forall x, lit_open a' = false -> PreA a' x).
  { intros x H. destruct a' as [| | | | | | | | |K lit| | |sub p|sub K|rest K]; cbn in H; try discriminate; cbn [PreA]; auto. destruct lit; [discriminate|exact I]. }
  assert (Hself : forall Kv, lit_open a = false -> vstart Kv a (jcls_of b) = Some a' -> PreA a' [b]).
  { intros Kv Hl Hv. destruct (Hstart Kv a Hv) as [->|[H|H]]; auto. }
  destruct a as [|K|K|K|K|K|K|K|K|K lit|K| |sub p|sub K|rest K]; cbn [next lit_open] in *.
  - apply (Hself []); auto.
  - destruct (jcls_of b) eqn:E; try (apply (Hself (FArr :: K)); [reflexivity|exact Hn]). inversion Hn; exact I.
  - apply (Hself (FArr :: K)); auto.
  - apply Hnl. eapply Hafter; exact Hn.
  - destruct (jcls_of b) eqn:E; inversion Hn; subst; try exact I. facts b Hb E. byt. cbn [PreA]. intros y (body & -> & Hbody). exists body. auto.
  - destruct (jcls_of b) eqn:E; inversion Hn; subst; try exact I. facts b Hb E. byt. cbn [PreA]. intros y (body & -> & Hbody). exists body. auto.
  - unfold after_key_next in Hn. destruct (jcls_of b); inversion Hn; exact I.
  - apply (Hself (FObj :: K)); auto.
  - apply Hnl. eapply Hafter; exact Hn.
  - destruct lit; apply Hnl; eapply Hafter; exact Hn.
  - unfold after_key_next in Hn. destruct (jcls_of b); inversion Hn; exact I.
  - apply Hnl. eapply (Hafter []); exact Hn.
  - (* strings *)
    cbn [PreA] in Hp.
    destruct sub as [| |n]; [| |destruct n as [|[|[|[|[|n]]]]]]; cbn [str_next] in Hn;
      destruct (jcls_of b) eqn:E; cbn in Hn; inversion Hn; subst; facts b Hb E; cbn [PreA];
      try (destruct p; cbn [PreA]);
      try solve [ pre_str ltac:(apply sr_char) | pre_str ltac:(apply sr_backslash) | pre_str ltac:(apply sr_escape)
                | pre_str ltac:(apply sr_hex) | pre_str ltac:(apply sr_hex_last)
                | byt; pre_str ltac:(apply sr_u) | byt; pre_str ltac:(apply sr_backslash) | byt; pre_str ltac:(apply sr_escape) ];
      try solve [ byt; right; right; apply Hp; apply sr_close | byt; apply Hp; apply sr_close ].
  - (* numbers *)
    cbn [PreA] in Hp.
    destruct sub; cbn [num_next] in Hn; destruct (jcls_of b) eqn:E; cbn in Hn;
      try (apply Hnl; eapply Hafter; exact Hn); inversion Hn; subst; facts b Hb E; cbn [PreA];
      try solve [ byt; pre_num ltac:(apply nr_neg_zero) | pre_num ltac:(apply nr_neg_nz) | pre_num ltac:(apply nr_int_digit)
                | byt; pre_num ltac:(apply nr_dot_from_int) | byt; pre_num ltac:(apply nr_dot_from_zero)
                | pre_num ltac:(apply nr_e_from_int) | pre_num ltac:(apply nr_e_from_zero) | pre_num ltac:(apply nr_e_from_frac)
                | pre_num ltac:(apply nr_dot_digit) | pre_num ltac:(apply nr_frac_digit)
                | byt; pre_num ltac:(apply nr_e_sign) | pre_num ltac:(apply nr_e_digit) | pre_num ltac:(apply nr_esign_digit)
                | pre_num ltac:(apply nr_exp_digit) ].
  - (* keywords *)
    cbn [PreA] in Hp. unfold kw_next in Hn. destruct rest as [|x r]; [discriminate|].
    destruct (kbyte (jcls_of b)) as [y|] eqn:E; [|discriminate]. destruct (y =? x) eqn:Ex; [|discriminate].
    apply N.eqb_eq in Ex. subst y. apply (f_byte b Hb) in E. subst x.
    destruct r as [|x2 r]; inversion Hn; subst; cbn [PreA].
    + left. exact Hp.
    + rewrite <- app_assoc. exact Hp.
Qed.
