(* C12, "literal and key lexemes cover exactly the literal's bytes": in the lexeme stream of an accepted document
   every LiteralEnd lexeme spans a JSON scalar (string, number, true/false/null) and every ObjectKeyEnd lexeme spans a
   JSON string - the span is the scalar, no byte more and no byte less.
   Two halves, joined over the run:
     (i)  along the abstract automaton `next` the bytes consumed since a literal began are a prefix of a scalar whose
          remainder is the residual language of the state (PreA);
     (ii) in the scanner model the begin recorded on the stack is the index of the literal's first byte and a closing
          lexeme is emitted with end = the index of the last byte consumed before the terminating one (step_marks). *)
From Coq Require Import List ZArith NArith Bool Lia.
From JS Require Import Base.Res Base.Lex Spec.JsonGrammar Model.JsonScan Proofs.JsonClasses Proofs.JsonSound Proofs.JsonMain
  Proofs.JsonComplete Proofs.JsonLen Proofs.JsonStream.
Import ListNotations.
Local Open Scope N_scope.

Definition JKeyword (v : bytes) : Prop := v = [116; 114; 117; 101] \/ v = [102; 97; 108; 115; 101] \/ v = [110; 117; 108; 108].
Definition JScalar (v : bytes) : Prop := JKeyword v \/ JNumber v \/ JString v.
Lemma scalar_value v : JScalar v -> JValue v.
Proof. intros [[->|[->| ->]]|[H|H]]; try constructor; assumption. Qed.

(* ---------- residuals of the scalar tokens alone ---------- *)
Lemma sr_close : StrRest SIn [34].
Proof. exists []. split; [reflexivity|constructor]. Qed.
Lemma sr_char c y : unescaped c = true -> StrRest SIn y -> StrRest SIn (c :: y).
Proof. intros Hc (body & -> & Hb). exists (c :: body). split; [reflexivity|constructor; assumption]. Qed.
Lemma sr_backslash y : StrRest SEsc y -> StrRest SIn (92 :: y).
Proof.
  intros [(e & body & -> & He & Hb)|(h & body & -> & (Hl & Hh) & Hb)].
  - exists (92 :: e :: body). split; [reflexivity|constructor; assumption].
  - destruct h as [|h1 [|h2 [|h3 [|h4 [|]]]]]; try discriminate.
    inversion Hh as [|? ? H1 Hh1]; subst. inversion Hh1 as [|? ? H2 Hh2]; subst.
    inversion Hh2 as [|? ? H3 Hh3]; subst. inversion Hh3 as [|? ? H4 _]; subst.
    exists (92 :: 117 :: h1 :: h2 :: h3 :: h4 :: body). split; [reflexivity|constructor; assumption].
Qed.
Lemma sr_escape e y : simple_escape e = true -> StrRest SIn y -> StrRest SEsc (e :: y).
Proof. intros He (body & -> & Hb). left. exists e, body. auto. Qed.
Lemma sr_u y : StrRest (SU 4) y -> StrRest SEsc (117 :: y).
Proof. intros (h & body & -> & Hh & Hb). right. exists h, body. auto. Qed.
Lemma sr_hex n c y : hexdigit c = true -> StrRest (SU n) y -> StrRest (SU (S n)) (c :: y).
Proof.
  intros Hc (h & body & -> & (Hl & Hh) & Hb). exists (c :: h), body. repeat split; auto. cbn. rewrite Hl. reflexivity.
Qed.
Lemma sr_hex_last c y : hexdigit c = true -> StrRest SIn y -> StrRest (SU 1) (c :: y).
Proof. intros Hc (body & -> & Hb). exists [c], body. repeat split; auto. Qed.

Lemma nr_neg_zero y : NumRest NZero y -> NumRest NNeg (48 :: y).
Proof. intros (f & e & -> & Hf & He). exists [48], f, e. repeat split; auto. left; reflexivity. Qed.
Lemma nr_neg_nz c y : digit19 c = true -> NumRest NInt y -> NumRest NNeg (c :: y).
Proof. intros Hc (d & f & e & -> & Hd & Hf & He). exists (c :: d), f, e. repeat split; auto. right. exists c, d. auto. Qed.
Lemma nr_int_digit c y : digit c = true -> NumRest NInt y -> NumRest NInt (c :: y).
Proof. intros Hc (d & f & e & -> & Hd & Hf & He). exists (c :: d), f, e. repeat split; auto with js. Qed.
Lemma nr_dot_from_int y : NumRest NDot y -> NumRest NInt (46 :: y).
Proof.
  intros (c & d & e & -> & Hc & Hd & He). exists [], (46 :: c :: d), e. repeat split; auto with js. right. exists c, d. auto.
Qed.
Lemma nr_dot_from_zero y : NumRest NDot y -> NumRest NZero (46 :: y).
Proof. intros (c & d & e & -> & Hc & Hd & He). exists (46 :: c :: d), e. repeat split; auto. right. exists c, d. auto. Qed.
Lemma nr_e_from_int c y : is_e c = true -> NumRest NE y -> NumRest NInt (c :: y).
Proof. intros Hc Hx. exists [], [], (c :: y). repeat split; auto with js. apply jexp_from_e; assumption. Qed.
Lemma nr_e_from_zero c y : is_e c = true -> NumRest NE y -> NumRest NZero (c :: y).
Proof. intros Hc Hx. exists [], (c :: y). repeat split; auto with js. apply jexp_from_e; assumption. Qed.
Lemma nr_e_from_frac c y : is_e c = true -> NumRest NE y -> NumRest NFrac (c :: y).
Proof. intros Hc Hx. exists [], (c :: y). repeat split; auto with js. apply jexp_from_e; assumption. Qed.
Lemma nr_dot_digit c y : digit c = true -> NumRest NFrac y -> NumRest NDot (c :: y).
Proof. intros Hc (d & e & -> & Hd & He). exists c, d, e. auto. Qed.
Lemma nr_frac_digit c y : digit c = true -> NumRest NFrac y -> NumRest NFrac (c :: y).
Proof. intros Hc (d & e & -> & Hd & He). exists (c :: d), e. auto with js. Qed.
Lemma nr_e_sign c y : (c = 43 \/ c = 45) -> NumRest NESign y -> NumRest NE (c :: y).
Proof. intros Hc (c1 & d & -> & Hc1 & Hd). exists [c], c1, d. repeat split; auto. destruct Hc as [->| ->]; auto. Qed.
Lemma nr_e_digit c y : digit c = true -> NumRest NExp y -> NumRest NE (c :: y).
Proof. intros Hc Hd. exists [], c, y. auto. Qed.
Lemma nr_esign_digit c y : digit c = true -> NumRest NExp y -> NumRest NESign (c :: y).
Proof. intros Hc Hd. exists c, y. auto. Qed.
Lemma nr_exp_digit c y : digit c = true -> NumRest NExp y -> NumRest NExp (c :: y).
Proof. intros Hc Hd. cbn [NumRest] in *. auto with js. Qed.
Lemma nr_done sub : num_complete sub = true -> NumRest sub [].
Proof.
  destruct sub; try discriminate; intros _; cbn [NumRest].
  - exists [], []. auto with js.
  - exists [], [], []. auto with js.
  - exists [], []. auto with js.
  - constructor.
Qed.

(* what the bytes consumed since the literal began (g) are, given the state *)
Definition PreA (a : astate) (g : bytes) : Prop :=
  match a with
  | AStr sub _ => forall y, StrRest sub y -> JString (g ++ y)
  | ANum sub _ => forall y, NumRest sub y -> JNumber (g ++ y)
  | AKw rest _ => JKeyword (g ++ rest)
  | AEnd _ true => JScalar g
  | AEndKey _ => JString g
  | _ => True
  end.
(* a scalar is open: its begin is on top of the stack *)
Definition lit_open (a : astate) : bool :=
  match a with AStr _ _ | ANum _ _ | AKw _ _ | AEnd _ true | AEndKey _ => true | _ => false end.
(* the scalar a closing lexeme emitted in state a spans *)
Definition closes (a : astate) (g : bytes) : Prop :=
  match a with
  | AEnd _ true => JScalar g
  | ANum sub _ => num_complete sub = true -> JScalar g
  | AEndKey _ => JString g
  | _ => True
  end.
Lemma pre_closes a g : PreA a g -> closes a g.
Proof.
  destruct a as [| | | | | | | | |K lit| | |sub p|sub K|rest K]; cbn [PreA closes]; auto.
  intros H Hc. right; left. rewrite <- (app_nil_r g). apply H. apply nr_done; exact Hc.
Qed.

Lemma jnumber_start m y : (m = [] \/ m = [45]) -> NumRest NNeg y -> JNumber (m ++ y).
Proof. intros Hm (i & f & e & -> & Hi & Hf & He). exists m, i, f, e. auto. Qed.

Ltac pre_str lem :=
  let y := fresh "y" in let Hy := fresh "Hy" in
  intros y Hy; rewrite <- app_assoc; cbn [app];
  match goal with H : forall y, StrRest _ y -> JString (_ ++ y) |- _ => apply H end; lem; auto.
Ltac pre_num lem :=
  let y := fresh "y" in let Hy := fresh "Hy" in
  intros y Hy; rewrite <- app_assoc; cbn [app];
  match goal with H : forall y, NumRest _ y -> JNumber (_ ++ y) |- _ => apply H end; lem; auto.

(* (i) one abstract step *)
Lemma pre_step a b a' g : byte b -> next a (jcls_of b) = Some a' -> PreA a g ->
  PreA a' (if lit_open a then g ++ [b] else [b]).
Proof.
  intros Hb Hn Hp.
  assert (Hstart : forall Kv self, vstart Kv self (jcls_of b) = Some a' -> a' = self \/ lit_open a' = false \/ PreA a' [b]).
  { intros Kv self Hv. destruct (jcls_of b) eqn:E; cbn [vstart] in Hv; inversion Hv; subst; auto; right; right; facts b Hb E; cbn [PreA].
    - byt. intros y (body & -> & Hbody). exists body. auto.
    - byt. intros y Hy. apply (jnumber_start [45] y); auto.
    - byt. intros y (f & e & -> & Hf & He). exists [], [48], f, e. repeat split; auto. left; reflexivity.
    - intros y (d & f & e & -> & Hd & Hf & He). exists [], (b :: d), f, e. repeat split; auto. right. exists b, d. auto.
    - byt. left. reflexivity.
    - byt. right; left. reflexivity.
    - byt. right; right. reflexivity. }
  assert (Hafter : forall K, after K (jcls_of b) = Some a' -> lit_open a' = false).
  { intros K Ha. destruct K as [|[|] K]; cbn [after] in Ha; destruct (jcls_of b); cbn in Ha; inversion Ha; reflexivity. }
  assert (Hnl : forall x, lit_open a' = false -> PreA a' x).
  { intros x H. destruct a' as [| | | | | | | | |K lit| | |sub p|sub K|rest K]; cbn in H; try discriminate; cbn [PreA]; auto. destruct lit; [discriminate|exact I]. }
  assert (Hself : forall Kv, lit_open a = false -> vstart Kv a (jcls_of b) = Some a' -> PreA a' [b]).
  { intros Kv Hl Hv. destruct (Hstart Kv a Hv) as [->|[H|H]]; auto. }
  destruct a as [|K|K|K|K|K|K|K|K|K lit|K| |sub p|sub K|rest K]; cbn [next lit_open] in *.
  - apply (Hself []); auto.
  - destruct (jcls_of b) eqn:E; try (apply (Hself (FArr :: K)); [reflexivity|exact Hn]). inversion Hn; exact I.
  - apply (Hself (FArr :: K)); auto.
  - apply Hnl. eapply Hafter; exact Hn.
  - destruct (jcls_of b) eqn:E; inversion Hn; subst; try exact I. facts b Hb E. byt. cbn [PreA]. intros y (body & -> & Hbody). exists body. auto.
  - destruct (jcls_of b) eqn:E; inversion Hn; subst; try exact I. facts b Hb E. byt. cbn [PreA]. intros y (body & -> & Hbody). exists body. auto.
  - unfold after_key_next in Hn. destruct (jcls_of b); inversion Hn; exact I.
  - apply (Hself (FObj :: K)); auto.
  - apply Hnl. eapply Hafter; exact Hn.
  - destruct lit; apply Hnl; eapply Hafter; exact Hn.
  - unfold after_key_next in Hn. destruct (jcls_of b); inversion Hn; exact I.
  - apply Hnl. eapply (Hafter []); exact Hn.
  - (* strings *)
    cbn [PreA] in Hp.
    destruct sub as [| |n]; [| |destruct n as [|[|[|[|[|n]]]]]]; cbn [str_next] in Hn;
      destruct (jcls_of b) eqn:E; cbn in Hn; inversion Hn; subst; facts b Hb E; cbn [PreA];
      try (destruct p; cbn [PreA]);
      try solve [ pre_str ltac:(apply sr_char) | pre_str ltac:(apply sr_backslash) | pre_str ltac:(apply sr_escape)
                | pre_str ltac:(apply sr_hex) | pre_str ltac:(apply sr_hex_last)
                | byt; pre_str ltac:(apply sr_u) | byt; pre_str ltac:(apply sr_backslash) | byt; pre_str ltac:(apply sr_escape) ];
      try solve [ byt; right; right; apply Hp; apply sr_close | byt; apply Hp; apply sr_close ].
  - (* numbers *)
    cbn [PreA] in Hp.
    destruct sub; cbn [num_next] in Hn; destruct (jcls_of b) eqn:E; cbn in Hn;
      try (apply Hnl; eapply Hafter; exact Hn); inversion Hn; subst; facts b Hb E; cbn [PreA];
      try solve [ byt; pre_num ltac:(apply nr_neg_zero) | pre_num ltac:(apply nr_neg_nz) | pre_num ltac:(apply nr_int_digit)
                | byt; pre_num ltac:(apply nr_dot_from_int) | byt; pre_num ltac:(apply nr_dot_from_zero)
                | pre_num ltac:(apply nr_e_from_int) | pre_num ltac:(apply nr_e_from_zero) | pre_num ltac:(apply nr_e_from_frac)
                | pre_num ltac:(apply nr_dot_digit) | pre_num ltac:(apply nr_frac_digit)
                | byt; pre_num ltac:(apply nr_e_sign) | pre_num ltac:(apply nr_e_digit) | pre_num ltac:(apply nr_esign_digit)
                | pre_num ltac:(apply nr_exp_digit) ].
  - (* keywords *)
    cbn [PreA] in Hp. unfold kw_next in Hn. destruct rest as [|x r]; [discriminate|].
    destruct (kbyte (jcls_of b)) as [y|] eqn:E; [|discriminate]. destruct (y =? x) eqn:Ex; [|discriminate].
    apply N.eqb_eq in Ex. subst y. apply (f_byte b Hb) in E. subst x.
    destruct r as [|x2 r]; inversion Hn; subst; cbn [PreA].
    + left. exact Hp.
    + rewrite <- app_assoc. exact Hp.
Qed.

(* ---------- (ii) where the scanner model puts the begin and the end of a scalar ---------- *)
Local Open Scope Z_scope.
Definition topb (c : jcfg) : Z := match jstack c with (_, b0) :: _ => b0 | [] => -1 end.
Definition is_close (t : lext) : bool := match t with LiteralEnd | ObjectKeyEnd => true | _ => false end.
Definition mark_ok (a : astate) (c : jcfg) (x : lexeme) : Prop :=
  is_close (ltype x) = true -> lit_open a = true /\ snd (fst x) = topb c /\ snd x = jindex c - 1 /\
                               (ltype x = ObjectKeyEnd -> exists K, a = AEndKey K) /\
                               (ltype x = LiteralEnd -> (exists K, a = AEnd K true) \/ exists sub K, a = ANum sub K /\ num_complete sub = true).

Ltac marks_fin :=
  eexists; eexists; split; [reflexivity|]; split;
  [ unfold topb; cbn; intros; try discriminate; try reflexivity; try lia
  | repeat (apply Forall_cons;
            [ unfold mark_ok, topb, ltype; cbn; intros; try discriminate; repeat split; try reflexivity; try lia;
              try (intros; discriminate); eauto
            |]); apply Forall_nil ].

Lemma step_marks al a c b a' : abs al a c -> next a (jcls_of b) = Some a' ->
  exists c' lx, jfeed c b = Ok (c', lx) /\
                (lit_open a' = true -> topb c' = if lit_open a then topb c else jindex c) /\
                Forall (mark_ok a c) lx.
Proof.
  intros Ha Hn. unfold jfeed.
  destruct Ha as [i|K st b0 i Hs|K st b0 i Hs|K st b0 i Hs|K st b0 i Hs|K st b0 i Hs|K st b0 i Hs|K st b0 i Hs|K st b0 i Hs
                  |K st b0 i Hs|K st i Hs|K st b0 b2 i Hs|i|sub p st b0 b2 i stp Hs Hstp|sub K st b0 i Hs|stp rest K st b0 i Hs Hkw];
    cbn [jstp jret jstack jindex junf jallow].
  - cbn [next] in Hn. destruct (jcls_of b); cbn in Hn; inversion Hn; subst; cbn; marks_fin.
  - cbn [next] in Hn. destruct (jcls_of b); cbn in Hn; inversion Hn; subst; cbn; marks_fin.
  - cbn [next] in Hn. destruct (jcls_of b); cbn in Hn; inversion Hn; subst; cbn; marks_fin.
  - cbn [next after] in Hn. destruct (jcls_of b); cbn in Hn; inversion Hn; subst; cbn; marks_fin.
  - cbn [next] in Hn. destruct (jcls_of b); cbn in Hn; inversion Hn; subst; cbn; marks_fin.
  - cbn [next] in Hn. destruct (jcls_of b); cbn in Hn; inversion Hn; subst; cbn; marks_fin.
  - cbn [next after_key_next] in Hn. destruct (jcls_of b); cbn in Hn; inversion Hn; subst; cbn; marks_fin.
  - cbn [next] in Hn. destruct (jcls_of b); cbn in Hn; inversion Hn; subst; cbn; marks_fin.
  - cbn [next after] in Hn. destruct (jcls_of b); cbn in Hn; inversion Hn; subst; cbn; marks_fin.
  - cbn [next] in Hn. destruct Hs; cbn [after] in Hn; destruct (jcls_of b); cbn in Hn; inversion Hn; subst; cbn; marks_fin.
  - cbn [next] in Hn. destruct Hs; cbn [after] in Hn; destruct (jcls_of b); cbn in Hn; inversion Hn; subst; cbn; marks_fin.
  - cbn [next after_key_next] in Hn. destruct (jcls_of b); cbn in Hn; inversion Hn; subst; cbn; marks_fin.
  - cbn [next after] in Hn. destruct (jcls_of b); cbn in Hn; inversion Hn; subst; cbn; marks_fin.
  - cbn [next] in Hn.
    destruct sub as [| |n]; [| |destruct n as [|[|[|[|[|n]]]]]]; cbn in Hstp; inversion Hstp; subst stp;
      destruct p as [K|K]; cbn [pos_ctx pos_stack pos_unf str_ret] in *;
      destruct (jcls_of b); cbn in Hn; inversion Hn; subst; cbn; marks_fin.
  - cbn [next] in Hn.
    destruct sub; cbn [num_next] in Hn; destruct Hs; cbn [after] in Hn; destruct (jcls_of b); cbn in Hn; inversion Hn; subst; cbn; marks_fin.
  - cbn [next] in Hn.
    destruct stp; cbn in Hkw; inversion Hkw; subst rest; destruct (jcls_of b); cbn in Hn; inversion Hn; subst; cbn; marks_fin.
Qed.

(* ---------- the two halves joined over the run ---------- *)
Definition slice (s : bytes) (b e1 : Z) : bytes := firstn (Z.to_nat (e1 - b)) (skipn (Z.to_nat b) s).
Lemma slice_mid (p0 g r : bytes) : slice (p0 ++ g ++ r) (Z.of_nat (length p0)) (Z.of_nat (length p0) + Z.of_nat (length g)) = g.
Proof.
  unfold slice. rewrite Nat2Z.id. replace (Z.of_nat (length p0) + Z.of_nat (length g) - Z.of_nat (length p0)) with (Z.of_nat (length g)) by lia.
  rewrite Nat2Z.id. rewrite skipn_app, skipn_all, Nat.sub_diag. cbn [skipn app].
  rewrite firstn_app, firstn_all, Nat.sub_diag. cbn [firstn]. apply app_nil_r.
Qed.

(* what a closing lexeme must span, read off the whole text *)
Definition lex_lit (s : bytes) (x : lexeme) : Prop :=
  match ltype x with
  | LiteralEnd => JScalar (slice s (snd (fst x)) (snd x + 1))
  | ObjectKeyEnd => JString (slice s (snd (fst x)) (snd x + 1))
  | _ => True
  end.

(* pre: the bytes consumed so far; when a scalar is open, its bytes g are the end of pre and its begin is on the stack *)
Definition ginv (a : astate) (c : jcfg) (pre : bytes) : Prop :=
  jindex c = Z.of_nat (length pre) /\
  (lit_open a = true -> exists p0 g, pre = p0 ++ g /\ topb c = Z.of_nat (length p0) /\ PreA a g).

Lemma closing_span a c pre rest x : ginv a c pre -> mark_ok a c x -> lex_lit (pre ++ rest) x.
Proof.
  intros [Hi Hg] Hm. unfold lex_lit. unfold mark_ok in Hm.
  destruct (ltype x) eqn:Et; try exact I.
  - destruct (Hm eq_refl) as (Ho & Hb & He & _ & Hl). destruct (Hg Ho) as (p0 & g & -> & Htop & Hp).
    rewrite Hb, He, Htop, Hi. rewrite app_length, Nat2Z.inj_add.
    replace (Z.of_nat (length p0) + Z.of_nat (length g) - 1 + 1) with (Z.of_nat (length p0) + Z.of_nat (length g)) by lia.
    rewrite <- app_assoc, slice_mid.
    destruct (Hl eq_refl) as [(K & ->)|(sub & K & -> & Hc)]; cbn [PreA] in Hp; [exact Hp|].
    right; left. rewrite <- (app_nil_r g). apply Hp. apply nr_done; exact Hc.
  - destruct (Hm eq_refl) as (Ho & Hb & He & Hk & _). destruct (Hg Ho) as (p0 & g & -> & Htop & Hp).
    rewrite Hb, He, Htop, Hi. rewrite app_length, Nat2Z.inj_add.
    replace (Z.of_nat (length p0) + Z.of_nat (length g) - 1 + 1) with (Z.of_nat (length p0) + Z.of_nat (length g)) by lia.
    rewrite <- app_assoc, slice_mid.
    destruct (Hk eq_refl) as (K & ->). exact Hp.
Qed.

Lemma pre_closed a g : lit_open a = false -> PreA a g.
Proof.
  destruct a as [| | | | | | | | |K lit| | |sub p|sub K|rest K]; cbn; intros H; try discriminate; auto.
  destruct lit; [discriminate|exact I].
Qed.

Lemma step_ginv al a c b a' c' lx pre : abs al a c -> next a (jcls_of b) = Some a' -> byte b -> jfeed c b = Ok (c', lx) ->
  ginv a c pre -> ginv a' c' (pre ++ [b]) /\ forall rest, Forall (lex_lit (pre ++ rest)) lx.
Proof.
  intros Ha Hn Hb Hf Hg.
  destruct (step_marks al a c b a' Ha Hn) as (c1 & lx1 & Hf1 & Htop & Hm). rewrite Hf in Hf1. inversion Hf1; subst c1 lx1. clear Hf1.
  split.
  - destruct Hg as [Hi Hg]. split.
    + rewrite (feed_index _ _ _ _ Hf), Hi, app_length, Nat2Z.inj_add. reflexivity.
    + intros Ho'. specialize (Htop Ho'). destruct (lit_open a) eqn:Ho.
      * destruct (Hg eq_refl) as (p0 & g & -> & Ht & Hp). exists p0, (g ++ [b]). split; [rewrite app_assoc; reflexivity|].
        split; [rewrite Htop; exact Ht|]. pose proof (pre_step a b a' g Hb Hn Hp) as H. rewrite Ho in H. exact H.
      * exists pre, [b]. split; [reflexivity|]. split; [rewrite Htop; exact Hi|].
        pose proof (pre_step a b a' [] Hb Hn (pre_closed a [] Ho)) as H. rewrite Ho in H. exact H.
  - intros rest. eapply Forall_impl; [|exact Hm]. intros x Hx. eapply closing_span; eassumption.
Qed.

Lemma run_lit al : forall s a c a' pre, all_bytes s -> abs al a c -> ginv a c pre -> nexts a s = Some a' ->
  exists c' lx, abs al a' c' /\ ginv a' c' (pre ++ s) /\ (forall r acc, jrun c (s ++ r) acc = jrun c' r (acc ++ lx)) /\
                forall r, Forall (lex_lit (pre ++ s ++ r)) lx.
Proof.
  induction s as [|b s IH]; intros a c a' pre Hb Ha Hg Hn.
  - cbn [nexts] in Hn. inversion Hn; subst a'. exists c, []. split; [exact Ha|]. split; [rewrite app_nil_r; exact Hg|]. split; [|intros; constructor].
    intros r acc. rewrite app_nil_r. reflexivity.
  - ab. cbn [nexts] in Hn. destruct (next a (jcls_of b)) as [a1|] eqn:E; [|discriminate].
    destruct (sim_step al a c b a1 Ha E) as (c1 & lx1 & Hf & Het & Ha1 & _).
    destruct (step_ginv al a c b a1 c1 lx1 pre Ha E ltac:(assumption) Hf Hg) as [Hg1 Hl1].
    destruct (IH a1 c1 a' (pre ++ [b]) ltac:(assumption) Ha1 Hg1 Hn) as (c' & lx & Ha' & Hg' & Hrun & Hl).
    exists c', (lx1 ++ lx). split; [exact Ha'|]. split; [rewrite <- app_assoc in Hg'; exact Hg'|]. split.
    + intros r acc. cbn [app jrun]. rewrite Hf. fold (has_end_top lx1). rewrite Het. rewrite Hrun, app_assoc. reflexivity.
    + intros r. apply Forall_app. split; [apply Hl1|]. specialize (Hl r). rewrite <- app_assoc in Hl. exact Hl.
Qed.

(* end of input right after the value: the scalar still open is closed with the same begin and end = the last byte *)
Lemma eof_after_value_top al a c acc : abs al a c -> Done a [] ->
  (a = AEnd [] false /\ jrun c [] acc = (Ok acc, jindex c)) \/
  (jrun c [] acc = (Ok (acc ++ [(LiteralEnd, topb c, jindex c - 1)]), jindex c) /\
   ((exists K, a = AEnd K true) \/ exists sub K, a = ANum sub K /\ num_complete sub = true)).
Proof.
  intros Ha Hd. inversion Hd as [K lit|sub K Hc]; subst; inversion Ha; subst;
    repeat match goal with H : shape [] _ |- _ => apply shape_nil_inv in H; subst end.
  - right. split; [|left; eexists; reflexivity]. unfold topb. cbn. replace (i + 1 - 1) with i by lia. reflexivity.
  - left. split; [reflexivity|]. cbn. rewrite app_nil_r. reflexivity.
  - right. split; [|right; eexists; eexists; split; [reflexivity|exact Hc]].
    unfold topb. cbn [jrun jstack jindex junf]. unfold num_unf. rewrite Hc. cbn. reflexivity.
Qed.

(* C12: in the stream of an accepted document every literal lexeme spans exactly a JSON scalar and every key lexeme
   exactly a JSON string *)
Theorem accepted_literals s i : all_bytes s -> jcheck false s = (Ok tt, i) ->
  exists ls j, jlexemes false s = (Ok ls, j) /\ Forall (lex_lit s) ls.
Proof.
  intros Hb Hc. destruct (check_sound s i Hb Hc) as (w1 & v & w2 & -> & H1 & Hv & H2).
  assert (Hb' := Hb). apply all_bytes_app in Hb'. destruct Hb' as [Hbw Hb']. apply all_bytes_app in Hb'. destruct Hb' as [Hbv Hbw2].
  destruct grammar_run as (GV & _ & _).
  pose proof (vs_ws ARoot [] w1 vs_root Hbw H1) as S1.
  destruct (value_then_ws ARoot [] v w2 (GV v Hv) Hbv Hbw2 H2 vs_root) as (a2 & S2 & D2).
  assert (S : nexts ARoot (w1 ++ v ++ w2) = Some a2) by (rewrite (nexts_app _ _ _ _ S1); exact S2).
  assert (Hg0 : ginv ARoot (jcfg0 false) []) by (split; [reflexivity|cbn; discriminate]).
  destruct (run_lit false _ ARoot (jcfg0 false) a2 [] Hb (abs_root false 0) Hg0 S) as (c' & lx & Ha' & Hg' & Hrun & Hl).
  cbn [app] in Hg', Hl. specialize (Hl []). rewrite app_nil_r in Hl.
  unfold jlexemes. specialize (Hrun [] []). rewrite app_nil_r in Hrun. rewrite Hrun. cbn [app].
  destruct D2 as [D|D].
  - destruct (eof_after_value_top false a2 c' lx Ha' D) as [[_ Hr]|[Hr Hshape]]; rewrite Hr; eexists; eexists; (split; [reflexivity|]); [exact Hl|].
    apply Forall_app. split; [exact Hl|]. constructor; [|constructor].
    rewrite <- (app_nil_r (w1 ++ v ++ w2)). apply (closing_span a2 c'); [exact Hg'|].
    unfold mark_ok, ltype. cbn [fst snd]. intros _. split.
    { destruct Hshape as [(K & ->)|(sub & K & -> & _)]; reflexivity. }
    split; [reflexivity|]. split; [reflexivity|]. split; [intros X; discriminate X|]. intros _. exact Hshape.
  - subst a2. rewrite (eof_top false c' lx Ha'). eexists; eexists; split; [reflexivity|exact Hl].
Qed.

(* not vacuous: the stream of {"k": [-1.5e3, "a\n", null]} *)
Example literal_spans_example :
  let s := [123; 34; 107; 34; 58; 32; 91; 45; 49; 46; 53; 101; 51; 44; 32; 34; 97; 92; 110; 34; 44; 32; 110; 117; 108; 108; 93; 125]%N in
  map (fun x : lexeme => (snd (fst x), snd x)) (filter (fun x => is_close (ltype x)) (match fst (jlexemes false s) with Ok ls => ls | _ => [] end))
  = [(1, 3); (7, 12); (15, 19); (22, 25)].
Proof. vm_compute. reflexivity. Qed.
