(* Arithmetic of digit strings (most significant first). *)
From Coq Require Import List ZArith NArith Bool Lia.
From JS Require Import Spec.Decimal.
Import ListNotations.
Local Open Scope Z_scope.

Definition all_digits (l : bytes) : Prop := Forall (fun c => is_digit c = true) l.

Lemma is_digit_dig c : is_digit c = true -> 0 <= dig c <= 9.
Proof.
  unfold is_digit, dig. rewrite andb_true_iff, !N.leb_le. lia.
Qed.
Lemma dig_zero c : is_digit c = true -> (dig c = 0 <-> c = 48%N).
Proof. unfold is_digit, dig. rewrite andb_true_iff, !N.leb_le. lia. Qed.

Lemma val_acc_app acc a b : val_acc acc (a ++ b) = val_acc (val_acc acc a) b.
Proof. revert acc. induction a as [|c a IH]; intros acc; cbn; [reflexivity|apply IH]. Qed.
Lemma val_acc_lin acc l : val_acc acc l = acc * 10 ^ len l + val l.
Proof.
  unfold val, len. revert acc. induction l as [|c l IH]; intros acc.
  - cbn. lia.
  - cbn [val_acc length]. rewrite IH, (IH (0 * 10 + dig c)). rewrite Nat2Z.inj_succ, Z.pow_succ_r by lia. lia.
Qed.
Lemma val_cons c l : val (c :: l) = dig c * 10 ^ len l + val l.
Proof. unfold val at 1. cbn [val_acc]. rewrite val_acc_lin. lia. Qed.
Lemma val_app a b : val (a ++ b) = val a * 10 ^ len b + val b.
Proof. unfold val at 1. rewrite val_acc_app, val_acc_lin. reflexivity. Qed.
Lemma val_nil : val [] = 0.
Proof. reflexivity. Qed.
Lemma len_app a b : len (a ++ b) = len a + len b.
Proof. unfold len. rewrite app_length. lia. Qed.
Lemma len_cons c l : len (c :: l) = 1 + len l.
Proof. unfold len. cbn [length]. lia. Qed.
Lemma len_nonneg l : 0 <= len l.
Proof. unfold len. lia. Qed.

Lemma val_bound l : all_digits l -> 0 <= val l < 10 ^ len l.
Proof.
  induction 1 as [|c l Hc Hl IH].
  - cbn. lia.
  - rewrite val_cons, len_cons. apply is_digit_dig in Hc.
    pose proof (len_nonneg l). rewrite Z.pow_add_r, Z.pow_1_r by lia. nia.
Qed.

Lemma val_zeros n : val (repeat 48%N n) = 0.
Proof. induction n as [|n IH]; [reflexivity|]. cbn [repeat]. rewrite val_cons, IH. reflexivity. Qed.
Lemma all_digits_zeros n : all_digits (repeat 48%N n).
Proof. induction n; cbn; constructor; auto. Qed.
Lemma all_digits_app a b : all_digits (a ++ b) <-> all_digits a /\ all_digits b.
Proof. apply Forall_app. Qed.

(* a digit string without leading zero of length n>0 is at least 10^(n-1) *)
Lemma val_lower c l : all_digits (c :: l) -> c <> 48%N -> 10 ^ len l <= val (c :: l).
Proof.
  intros H Hc. inversion H as [|? ? Hd Hl]; subst. rewrite val_cons.
  pose proof (val_bound l Hl). pose proof (is_digit_dig c Hd) as Hb.
  assert (dig c <> 0) by (rewrite dig_zero; assumption).
  pose proof (len_nonneg l). assert (0 < 10 ^ len l) by (apply Z.pow_pos_nonneg; lia). nia.
Qed.

(* scaled value at width L: val x * 10^(L - |x|) *)
Definition sv (L : Z) (x : bytes) : Z := val x * 10 ^ (L - len x).
Lemma sv_nil L : sv L [] = 0.
Proof. reflexivity. Qed.
Lemma sv_cons L c x : len x < L -> sv L (c :: x) = dig c * 10 ^ (L - 1) + sv (L - 1) x.
Proof.
  intros H. unfold sv. rewrite val_cons, len_cons. pose proof (len_nonneg x).
  replace (L - (1 + len x)) with (L - 1 - len x) by lia.
  rewrite Z.mul_add_distr_r, <- Z.mul_assoc, <- Z.pow_add_r by lia.
  replace (len x + (L - 1 - len x)) with (L - 1) by lia. reflexivity.
Qed.
Lemma sv_bound L x : all_digits x -> len x <= L -> 0 <= sv L x < 10 ^ L.
Proof.
  intros Hx HL. unfold sv. pose proof (val_bound x Hx). pose proof (len_nonneg x).
  replace (10 ^ L) with (10 ^ len x * 10 ^ (L - len x)) by (rewrite <- Z.pow_add_r by lia; f_equal; lia).
  assert (0 < 10 ^ (L - len x)) by (apply Z.pow_pos_nonneg; lia). nia.
Qed.
