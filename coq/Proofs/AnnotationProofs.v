(* The inside of an annotation (Model/SchemaText.v: prval / parse_ann): every way of WRITING a rule object - bare or
   quoted rule names, scalars, @names, lists, rule-sets, any blanks between the tokens - is read back as that rule
   object; and every way of writing an inline annotation (rule object, optional "- note", optional "# comment") is
   read back as that annotation.  This replaces the premise `parse_ann text = Some a` of the layout theorems by a
   declarative description of the texts. *)
From Coq Require Import List NArith Bool Lia.
From JS Require Import Base.Res Spec.JsonGrammar Model.EnumParse Model.SchemaText
  Proofs.EnumProofs Proofs.JsonValueProofs Proofs.SchemaTextProofs.
Import ListNotations.
Local Open Scope N_scope.

Ltac dhead c := destruct c as [|?p]; [try reflexivity|]; repeat (match goal with p : positive |- _ => destruct p as [p|p|] end; try reflexivity).

(* ---------- the functions with their matches on byte constants written as tests ---------- *)
Definition bare_key (s0 : bytes) : option (bytes * bytes) :=
  let (nm, r1) := take_while name_byte s0 in match nm with [] => None | _ => Some (nm, r1) end.
Definition key_of_text (s0 : bytes) : option (bytes * bytes) :=
  match s0 with
  | c :: r => if c =? 34 then match str_body r [34] with Some (k, r1) => Some (removelast (tl k), r1) | None => None end
              else bare_key s0
  | [] => bare_key []
  end.

Lemma prval_eq f s : prval (S f) s =
  match trim_left s with
  | c :: r =>
    if c =? 91 then match trim_left r with c' :: r' => if c' =? 93 then Some (RList [], r') else pritems f r [] | [] => pritems f r [] end
    else if c =? 123 then match trim_left r with c' :: r' => if c' =? 125 then Some (RObj [], r') else prmembers f r [] | [] => prmembers f r [] end
    else if c =? 64 then let (nm, r') := take_while name_byte r in Some (RScal (64 :: nm), r')
    else match scalar (c :: r) with Some (lit, rest) => Some (RScal lit, rest) | None => None end
  | [] => match scalar [] with Some (lit, rest) => Some (RScal lit, rest) | None => None end
  end.
Proof.
  cbn [prval]. destruct (trim_left s) as [|c r]; [reflexivity|]. dhead c.
  - destruct (trim_left r) as [|c' r']; [reflexivity|]. dhead c'.
  - destruct (trim_left r) as [|c' r']; [reflexivity|]. dhead c'.
Qed.
Lemma pritems_eq f s acc : pritems (S f) s acc =
  match prval f s with
  | Some (v, r) =>
    match trim_left r with
    | c :: r' => if c =? 44 then pritems f r' (v :: acc) else if c =? 93 then Some (RList (rev (v :: acc)), r') else None
    | [] => None
    end
  | None => None
  end.
Proof.
  cbn [pritems]. destruct (prval f s) as [[v r]|]; [|reflexivity]. destruct (trim_left r) as [|c r']; [reflexivity|]. dhead c.
Qed.
Lemma prmembers_eq f s acc : prmembers (S f) s acc =
  match key_of_text (trim_left s) with
  | Some (k, r1) =>
    match trim_left r1 with
    | c1 :: r2 =>
      if c1 =? 58 then
        match prval f r2 with
        | Some (v, r3) =>
          match trim_left r3 with
          | c3 :: r4 => if c3 =? 44 then prmembers f r4 ((k, v) :: acc)
                        else if c3 =? 125 then Some (RObj (rev ((k, v) :: acc)), r4) else None
          | [] => None
          end
        | None => None
        end
      else None
    | [] => None
    end
  | None => None
  end.
Proof.
  cbn [prmembers].
  assert (Hk : match trim_left s with
               | 34 :: r => match str_body r [34] with Some (k, r1) => Some (removelast (tl k), r1) | None => None end
               | _ => let (nm, r1) := take_while name_byte (trim_left s) in match nm with [] => None | _ :: _ => Some (nm, r1) end
               end = key_of_text (trim_left s)).
  { unfold key_of_text, bare_key. destruct (trim_left s) as [|c r]; [reflexivity|]. dhead c. }
  rewrite Hk. destruct (key_of_text (trim_left s)) as [[k r1]|]; [|reflexivity].
  destruct (trim_left r1) as [|c1 r2]; [reflexivity|]. dhead c1.
  destruct (prval f r2) as [[v r3]|]; [|reflexivity]. destruct (trim_left r3) as [|c3 r4]; [reflexivity|]. dhead c3.
Qed.

(* ---------- how a rule object may be written ---------- *)
(* the name of a rule: bare (letters, digits, - _) or a JSON string; its value is the text between the quotes *)
Inductive KeyText : bytes -> bytes -> Prop :=
| KT_bare k : k <> [] -> name_bytes k -> KeyText k k
| KT_quoted k : StrBody k -> KeyText k (34 :: k ++ [34]).

Inductive RV : rval -> bytes -> Prop :=
| RV_scal l : EnumScalar l -> RV (RScal l) l
| RV_name nm : name_bytes nm -> RV (RScal (64 :: nm)) (64 :: nm)
| RV_list0 w : ws w -> RV (RList []) (91 :: w ++ [93])
| RV_list items body : RVI items body -> RV (RList items) (91 :: body ++ [93])
| RV_obj0 w : ws w -> RV (RObj []) (123 :: w ++ [125])
| RV_obj ms body : RVM ms body -> RV (RObj ms) (123 :: body ++ [125])
with RVI : list rval -> bytes -> Prop :=
| RVI_one v w1 s w2 : ws w1 -> RV v s -> ws w2 -> RVI [v] (w1 ++ s ++ w2)
| RVI_more v w1 s w2 rest body : ws w1 -> RV v s -> ws w2 -> RVI rest body -> RVI (v :: rest) (w1 ++ s ++ w2 ++ 44 :: body)
with RVM : list (bytes * rval) -> bytes -> Prop :=
| RVM_one k kt v w1 w2 w3 s w4 : ws w1 -> KeyText k kt -> ws w2 -> ws w3 -> RV v s -> ws w4 ->
    RVM [(k, v)] (w1 ++ kt ++ w2 ++ 58 :: w3 ++ s ++ w4)
| RVM_more k kt v w1 w2 w3 s w4 rest body : ws w1 -> KeyText k kt -> ws w2 -> ws w3 -> RV v s -> ws w4 -> RVM rest body ->
    RVM ((k, v) :: rest) (w1 ++ kt ++ w2 ++ 58 :: w3 ++ s ++ w4 ++ 44 :: body).
Scheme RV_m := Induction for RV Sort Prop
  with RVI_m := Induction for RVI Sort Prop
  with RVM_m := Induction for RVM Sort Prop.
Combined Scheme rv_mutind from RV_m, RVI_m, RVM_m.

(* what may follow a value inside a rule object: blanks, then a comma or a closing bracket *)
Definition vterm (r : bytes) : Prop := exists w c r', r = w ++ c :: r' /\ ws w /\ (c = 44 \/ c = 93 \/ c = 125).
Lemma vterm_stop r : vterm r -> stop r.
Proof. intros (w & c & r' & -> & Hw & Hc). apply stop_ws; assumption. Qed.
Lemma ws_not_name c : is_ws c = true -> name_byte c = false.
Proof. intros H. apply is_ws_cases in H. destruct H as [-> |[-> |[-> | ->]]]; reflexivity. Qed.
Lemma vterm_name_stop r : vterm r -> name_stop r.
Proof.
  intros (w & c & r' & -> & Hw & Hc). destruct Hw as [|x w Hx _]; cbn [app name_stop].
  - destruct Hc as [-> |[-> | ->]]; reflexivity.
  - apply ws_not_name. exact Hx.
Qed.
Lemma vterm_intro w c r : ws w -> (c = 44 \/ c = 93 \/ c = 125) -> vterm (w ++ c :: r).
Proof. intros Hw Hc. exists w, c, r. auto. Qed.

Lemma trim_left_id c s : is_blank c = false -> trim_left (c :: s) = c :: s.
Proof. intros H. cbn [trim_left]. rewrite H. reflexivity. Qed.
Lemma take_while_stop nm r : name_bytes nm -> name_stop r -> take_while name_byte (nm ++ r) = (nm, r).
Proof.
  intros Hn Hr. destruct r as [|c r]; [rewrite app_nil_r; apply take_while_all; exact Hn|]. apply take_while_app; [exact Hn|exact Hr].
Qed.

Lemma rv_nonempty v s : RV v s -> (1 <= length s)%nat.
Proof. intros H. destruct H as [l Hl| | | | |]; [destruct (scalar_head l Hl) as (c & l' & -> & _)|..]; cbn [length]; lia. Qed.
(* the first byte of a value, of a key *)
Lemma rv_head v s : RV v s -> exists c t, s = c :: t /\ is_blank c = false /\ c <> 93 /\ c <> 125 /\ c <> 44 /\ c <> 58.
Proof.
  intros H. destruct H as [l Hl|nm _|w _|items body _|w _|ms body _].
  - destruct (scalar_head l Hl) as (c & l' & -> & Hc & _ & _ & H93 & H125). exists c, l'. repeat split; auto.
    + intros ->. destruct Hl as [(b & E & _)|[(m & i & f & E & Hm & Hi & _)|[E|[E|E]]]]; try discriminate.
      destruct Hm as [-> | ->]; [|discriminate]. destruct Hi as [->|(c & d & -> & Hc' & _)]; [discriminate|].
      cbn [app] in E. inversion E; subst. discriminate.
    + intros ->. destruct Hl as [(b & E & _)|[(m & i & f & E & Hm & Hi & _)|[E|[E|E]]]]; try discriminate.
      destruct Hm as [-> | ->]; [|discriminate]. destruct Hi as [->|(c & d & -> & Hc' & _)]; [discriminate|].
      cbn [app] in E. inversion E; subst. discriminate.
  - exists 64, nm. repeat split; discriminate.
  - eexists; eexists; split; [reflexivity|]; repeat split; discriminate.
  - eexists; eexists; split; [reflexivity|]; repeat split; discriminate.
  - eexists; eexists; split; [reflexivity|]; repeat split; discriminate.
  - eexists; eexists; split; [reflexivity|]; repeat split; discriminate.
Qed.
Lemma name_byte_facts c : name_byte c = true -> is_blank c = false /\ c <> 34 /\ c <> 125 /\ c <> 58.
Proof.
  intros H. unfold name_byte, digit in H.
  repeat split; try (intros ->; discriminate).
  destruct (is_blank c) eqn:E; [|reflexivity]. apply is_ws_cases in E. destruct E as [-> |[-> |[-> | ->]]]; discriminate.
Qed.
Lemma key_head k kt : KeyText k kt -> exists c t, kt = c :: t /\ is_blank c = false /\ c <> 125.
Proof.
  intros [k0 Hne Hn|k0 _].
  - destruct k0 as [|c t]; [congruence|]. inversion Hn as [|? ? Hc _]; subst. destruct (name_byte_facts c Hc) as (H1 & _ & H3 & _). eauto.
  - eexists; eexists; split; [reflexivity|]; split; [reflexivity|discriminate].
Qed.
Lemma key_trim k kt x : KeyText k kt -> trim_left (kt ++ x) = kt ++ x.
Proof. intros Hk. destruct (key_head k kt Hk) as (c & t & -> & Hc & _). cbn [app]. apply trim_left_id. exact Hc. Qed.
(* reading a key back; what follows it is blanks and the colon *)
Lemma key_read k kt w r : KeyText k kt -> ws w -> key_of_text (kt ++ w ++ 58 :: r) = Some (k, w ++ 58 :: r).
Proof.
  intros [k0 Hne Hn|k0 Hb] Hw.
  - unfold key_of_text. destruct k0 as [|c t] eqn:Ek; [congruence|]. cbn [app]. inversion Hn as [|? ? Hc Ht]; subst.
    destruct (name_byte_facts c Hc) as (_ & H34 & _). apply N.eqb_neq in H34. rewrite H34.
    unfold bare_key. change (c :: t ++ w ++ 58 :: r) with ((c :: t) ++ w ++ 58 :: r).
    rewrite (take_while_stop (c :: t) (w ++ 58 :: r) Hn); [reflexivity|].
    destruct Hw as [|x w' Hx _]; cbn [app name_stop]; [reflexivity|apply ws_not_name; exact Hx].
  - unfold key_of_text. cbn [app]. rewrite N.eqb_refl. rewrite <- app_assoc. cbn [app].
    rewrite (str_body_complete k0 Hb [34]). cbn [rev app tl]. rewrite removelast_last. reflexivity.
Qed.

Ltac norm_len H := rewrite ?app_length in H; cbn [length] in H; rewrite ?app_length in H; cbn [length] in H; rewrite ?app_length in H; cbn [length] in H.
Ltac assoc := repeat (rewrite <- ?app_assoc; cbn [app]).

(* ---------- every writing of a rule value is read back ---------- *)
Theorem prval_complete :
  (forall v s, RV v s -> forall r f, vterm r \/ (exists ms, v = RObj ms) -> (2 * length s <= f)%nat -> prval f (s ++ r) = Some (v, r)) /\
  (forall items s, RVI items s -> forall r f acc, (2 * length s + 1 <= f)%nat ->
     pritems f (s ++ 93 :: r) acc = Some (RList (rev acc ++ items), r)) /\
  (forall ms s, RVM ms s -> forall r f acc, (2 * length s + 1 <= f)%nat ->
     prmembers f (s ++ 125 :: r) acc = Some (RObj (rev acc ++ ms), r)).
Proof.
  apply rv_mutind.
  - (* scalar *)
    intros l Hl r f [Hr|(ms & X)] Hf; [|discriminate]. destruct (scalar_head l Hl) as (c & l' & E & Hw & H91 & H123 & _ & _).
    destruct f as [|f]; [subst l; cbn in Hf; lia|]. rewrite prval_eq. rewrite E. cbn [app]. rewrite (trim_left_id c _ Hw).
    apply N.eqb_neq in H91, H123. rewrite H91, H123.
    assert (H64 : c <> 64). { intros ->. subst l. destruct Hl as [(b & X & _)|[(m & i & fr & X & Hm & Hi & _)|[X|[X|X]]]]; try discriminate.
      destruct Hm as [-> | ->]; [|discriminate]. destruct Hi as [->|(c & d & -> & Hc' & _)]; [discriminate|]. cbn [app] in X. inversion X; subst. discriminate. }
    apply N.eqb_neq in H64. rewrite H64. change (c :: l' ++ r) with ((c :: l') ++ r). rewrite <- E.
    rewrite (scalar_rescan l Hl r (vterm_stop r Hr)). reflexivity.
  - (* @name *)
    intros nm Hn r f [Hr|(ms & X)] Hf; [|discriminate]. destruct f as [|f]; [cbn in Hf; lia|]. rewrite prval_eq. cbn [app].
    rewrite (trim_left_id 64) by reflexivity. cbn [N.eqb Pos.eqb]. rewrite (take_while_stop nm r Hn (vterm_name_stop r Hr)). reflexivity.
  - (* empty list *)
    intros w Hw r f _ Hf. destruct f as [|f]; [cbn in Hf; lia|]. rewrite prval_eq. cbn [app]. rewrite (trim_left_id 91) by reflexivity.
    cbn [N.eqb Pos.eqb]. rewrite <- app_assoc. rewrite (trim_left_ws w _ Hw). cbn [app]. rewrite (trim_left_id 93) by reflexivity. reflexivity.
  - (* list *)
    intros items body Hb IH r f _ Hf. destruct f as [|f]; [cbn in Hf; lia|]. rewrite prval_eq. cbn [app]. rewrite (trim_left_id 91) by reflexivity.
    cbn [N.eqb Pos.eqb]. rewrite <- app_assoc. cbn [app].
    specialize (IH r f [] ltac:(cbn [length] in Hf; rewrite app_length in Hf; cbn [length] in Hf; lia)). cbn [rev app] in IH.
    assert (Hne : exists c t, trim_left (body ++ 93 :: r) = c :: t /\ c <> 93).
    { destruct Hb as [v w1 s w2 Hw1 Hv Hw2|v w1 s w2 rest body' Hw1 Hv Hw2 Hrest]; rewrite <- !app_assoc; rewrite (trim_left_ws w1 _ Hw1);
        destruct (rv_head v s Hv) as (c & t & -> & Hc & H93 & _); cbn [app]; rewrite (trim_left_id c _ Hc); eauto. }
    destruct Hne as (c & t & -> & Hc). apply N.eqb_neq in Hc. rewrite Hc. exact IH.
  - (* empty rule-set *)
    intros w Hw r f _ Hf. destruct f as [|f]; [cbn in Hf; lia|]. rewrite prval_eq. cbn [app]. rewrite (trim_left_id 123) by reflexivity.
    cbn [N.eqb Pos.eqb]. rewrite <- app_assoc. rewrite (trim_left_ws w _ Hw). cbn [app]. rewrite (trim_left_id 125) by reflexivity. reflexivity.
  - (* rule-set *)
    intros ms body Hb IH r f _ Hf. destruct f as [|f]; [cbn in Hf; lia|]. rewrite prval_eq. cbn [app]. rewrite (trim_left_id 123) by reflexivity.
    cbn [N.eqb Pos.eqb]. rewrite <- app_assoc. cbn [app].
    specialize (IH r f [] ltac:(cbn [length] in Hf; rewrite app_length in Hf; cbn [length] in Hf; lia)). cbn [rev app] in IH.
    assert (Hne : exists c t, trim_left (body ++ 125 :: r) = c :: t /\ c <> 125).
    { destruct Hb as [k kt v w1 w2 w3 s w4 Hw1 Hk|k kt v w1 w2 w3 s w4 rest body' Hw1 Hk]; rewrite <- !app_assoc; rewrite (trim_left_ws w1 _ Hw1);
        destruct (key_head k kt Hk) as (c & t & -> & Hc & H125); cbn [app]; rewrite (trim_left_id c _ Hc); eauto. }
    destruct Hne as (c & t & -> & Hc). apply N.eqb_neq in Hc. rewrite Hc. exact IH.
  - (* one item *)
    intros v w1 s w2 Hw1 Hv IHv Hw2 r f acc Hf. destruct f as [|f]; [lia|]. rewrite pritems_eq. norm_len Hf. assoc.
    assert (Hpv : prval f (w1 ++ s ++ w2 ++ 93 :: r) = Some (v, w2 ++ 93 :: r)).
    { pose proof (rv_nonempty _ _ Hv) as Hne. destruct f as [|f]; [lia|].
      specialize (IHv (w2 ++ 93 :: r) (S f) (or_introl (vterm_intro w2 93 r Hw2 ltac:(auto))) ltac:(lia)).
      rewrite prval_eq in IHv |- *. rewrite (trim_left_ws w1 _ Hw1). exact IHv. }
    rewrite Hpv. rewrite (trim_left_ws w2 _ Hw2), (trim_left_id 93) by reflexivity. cbn [N.eqb Pos.eqb rev]. rewrite <- ?app_assoc. reflexivity.
  - (* more items *)
    intros v w1 s w2 rest body Hw1 Hv IHv Hw2 Hrest IHr r f acc Hf. destruct f as [|f]; [lia|]. rewrite pritems_eq. norm_len Hf. assoc.
    assert (Hpv : prval f (w1 ++ s ++ w2 ++ 44 :: body ++ 93 :: r) = Some (v, w2 ++ 44 :: body ++ 93 :: r)).
    { pose proof (rv_nonempty _ _ Hv) as Hne. destruct f as [|f]; [lia|].
      specialize (IHv (w2 ++ 44 :: body ++ 93 :: r) (S f) (or_introl (vterm_intro w2 44 _ Hw2 ltac:(auto))) ltac:(lia)).
      rewrite prval_eq in IHv |- *. rewrite (trim_left_ws w1 _ Hw1). exact IHv. }
    rewrite Hpv. rewrite (trim_left_ws w2 _ Hw2), (trim_left_id 44) by reflexivity. cbn [N.eqb Pos.eqb].
    rewrite (IHr r f (v :: acc) ltac:(lia)). cbn [rev]. rewrite <- ?app_assoc. reflexivity.
  - (* one member *)
    intros k kt v w1 w2 w3 s w4 Hw1 Hk Hw2 Hw3 Hv IHv Hw4 r f acc Hf. destruct f as [|f]; [lia|]. rewrite prmembers_eq. norm_len Hf. assoc.
    rewrite (trim_left_ws w1 _ Hw1). rewrite (key_trim k kt _ Hk). rewrite (key_read k kt w2 _ Hk Hw2).
    rewrite (trim_left_ws w2 _ Hw2), (trim_left_id 58) by reflexivity. cbn [N.eqb Pos.eqb].
    assert (Hpv : prval f (w3 ++ s ++ w4 ++ 125 :: r) = Some (v, w4 ++ 125 :: r)).
    { pose proof (rv_nonempty _ _ Hv) as Hne. destruct f as [|f]; [lia|].
      specialize (IHv (w4 ++ 125 :: r) (S f) (or_introl (vterm_intro w4 125 r Hw4 ltac:(auto))) ltac:(lia)).
      rewrite prval_eq in IHv |- *. rewrite (trim_left_ws w3 _ Hw3). exact IHv. }
    rewrite Hpv. rewrite (trim_left_ws w4 _ Hw4), (trim_left_id 125) by reflexivity. cbn [N.eqb Pos.eqb rev]. rewrite <- ?app_assoc. reflexivity.
  - (* more members *)
    intros k kt v w1 w2 w3 s w4 rest body Hw1 Hk Hw2 Hw3 Hv IHv Hw4 Hrest IHr r f acc Hf. destruct f as [|f]; [lia|]. rewrite prmembers_eq. norm_len Hf. assoc.
    rewrite (trim_left_ws w1 _ Hw1). rewrite (key_trim k kt _ Hk). rewrite (key_read k kt w2 _ Hk Hw2).
    rewrite (trim_left_ws w2 _ Hw2), (trim_left_id 58) by reflexivity. cbn [N.eqb Pos.eqb].
    assert (Hpv : prval f (w3 ++ s ++ w4 ++ 44 :: body ++ 125 :: r) = Some (v, w4 ++ 44 :: body ++ 125 :: r)).
    { pose proof (rv_nonempty _ _ Hv) as Hne. destruct f as [|f]; [lia|].
      specialize (IHv (w4 ++ 44 :: body ++ 125 :: r) (S f) (or_introl (vterm_intro w4 44 _ Hw4 ltac:(auto))) ltac:(lia)).
      rewrite prval_eq in IHv |- *. rewrite (trim_left_ws w3 _ Hw3). exact IHv. }
    rewrite Hpv. rewrite (trim_left_ws w4 _ Hw4), (trim_left_id 44) by reflexivity. cbn [N.eqb Pos.eqb].
    rewrite (IHr r f ((k, v) :: acc) ltac:(lia)). cbn [rev]. rewrite <- ?app_assoc. reflexivity.
Qed.

(* ---------- whole annotations ---------- *)
Lemma prval_skip f w x : ws w -> prval (S f) (w ++ x) = prval (S f) x.
Proof. intros Hw. rewrite !prval_eq. rewrite (trim_left_ws w x Hw). reflexivity. Qed.

Lemma robj_head ms obj : RV (RObj ms) obj -> exists t, obj = 123 :: t.
Proof. intros H. inversion H; subst; eexists; reflexivity. Qed.

(* the rule object at the start of a text is read whatever follows it *)
Lemma prval_object ms obj w0 rest f : RV (RObj ms) obj -> ws w0 -> (2 * length obj <= f)%nat ->
  prval (S f) (w0 ++ obj ++ rest) = Some (RObj ms, rest).
Proof.
  intros Ho Hw Hf. rewrite (prval_skip f w0 _ Hw).
  exact (proj1 prval_complete (RObj ms) obj Ho rest (S f) (or_intror (ex_intro _ ms eq_refl)) ltac:(lia)).
Qed.

Lemma cut_hash_app x y : Forall (fun c => c <> 35) x -> cut_hash (x ++ 35 :: y) = x.
Proof. induction 1 as [|c x Hc _ IH]; cbn [app cut_hash]; [reflexivity|]. apply N.eqb_neq in Hc. rewrite Hc, IH. reflexivity. Qed.
Lemma ws_no_hash w : ws w -> Forall (fun c => c <> 35) w.
Proof. induction 1 as [|c w Hc _ IH]; constructor; [|exact IH]. intros ->. discriminate. Qed.

(* what may follow the visible part of an inline annotation: nothing, or a user comment *)
Definition comment_tail (t : bytes) : Prop := t = [] \/ exists c, t = 35 :: c.
Lemma cut_hash_tail x t : Forall (fun c => c <> 35) x -> comment_tail t -> cut_hash (x ++ t) = x.
Proof. intros Hx [-> |(c & ->)]; [rewrite app_nil_r; apply cut_hash_none; exact Hx|apply cut_hash_app; exact Hx]. Qed.

(* inline annotation with a rule object, with or without a note, with or without a user comment after it *)
Theorem ann_rules_complete ms obj w0 w1 tail : RV (RObj ms) obj -> ws w0 -> ws w1 -> comment_tail tail ->
  parse_ann (w0 ++ obj ++ w1 ++ tail) = Some (mk_ann ms []).
Proof.
  intros Ho H0 H1 Ht. destruct (robj_head ms obj Ho) as (t & E). unfold parse_ann.
  rewrite (trim_left_ws w0 _ H0). rewrite E at 1. cbn [app]. rewrite (trim_left_id 123) by reflexivity.
  rewrite (prval_object ms obj w0 (w1 ++ tail) _ Ho H0); [|rewrite !app_length; lia].
  rewrite (cut_hash_tail w1 tail (ws_no_hash w1 H1) Ht).
  assert (Hw : trim_left w1 = []) by (rewrite <- (app_nil_r w1); rewrite (trim_left_ws w1 [] H1); reflexivity). rewrite Hw. reflexivity.
Qed.
Theorem ann_rules_note_complete ms obj w0 w1 note tail : RV (RObj ms) obj -> ws w0 -> ws w1 ->
  Forall (fun c => c <> 35) note -> comment_tail tail ->
  parse_ann (w0 ++ obj ++ w1 ++ 45 :: note ++ tail) = Some (mk_ann ms (trim note)).
Proof.
  intros Ho H0 H1 Hn Ht. destruct (robj_head ms obj Ho) as (t & E). unfold parse_ann.
  rewrite (trim_left_ws w0 _ H0). rewrite E at 1. cbn [app]. rewrite (trim_left_id 123) by reflexivity.
  rewrite (prval_object ms obj w0 (w1 ++ 45 :: note ++ tail) _ Ho H0); [|rewrite !app_length; lia].
  change (w1 ++ 45 :: note ++ tail) with (w1 ++ (45 :: note) ++ tail). rewrite app_assoc.
  rewrite (cut_hash_tail (w1 ++ 45 :: note) tail); [|apply Forall_app; split; [apply ws_no_hash; exact H1|constructor; [discriminate|exact Hn]]|exact Ht].
  rewrite (trim_left_ws w1 _ H1). rewrite (trim_left_id 45) by reflexivity. reflexivity.
Qed.

(* block annotation with a rule object: the text between the object and the closing mark holds no closing mark *)
Theorem block_rules_complete ms obj w0 mid after : RV (RObj ms) obj -> ws w0 ->
  (forall u v, mid <> u ++ 42 :: 47 :: v) -> (forall u, mid <> u ++ [42]) ->
  block_ann (w0 ++ obj ++ mid ++ 42 :: 47 :: after) =
  match trim_left mid with
  | [] => Some (mk_ann ms [], after)
  | 45 :: note => Some (mk_ann ms (trim note), after)
  | _ => None
  end.
Proof.
  intros Ho H0 Hno Hedge. destruct (robj_head ms obj Ho) as (t & E). unfold block_ann.
  rewrite (trim_left_ws w0 _ H0). rewrite E at 1. cbn [app]. rewrite (trim_left_id 123) by reflexivity.
  rewrite (prval_object ms obj w0 (mid ++ 42 :: 47 :: after) _ Ho H0); [|rewrite !app_length; lia].
  rewrite (take_until2_app 42 47 mid after Hno (or_introl Hedge)). reflexivity.
Qed.

(* ---------- as layouts of the token sequence (SLay) ---------- *)
Lemma slay_block_rules ms obj w0 mid r t : RV (RObj ms) obj -> ws w0 ->
  (forall u v, mid <> u ++ 42 :: 47 :: v) -> (forall u, mid <> u ++ [42]) -> trim_left mid = [] -> SLay r t ->
  SLay (47 :: 42 :: w0 ++ obj ++ mid ++ 42 :: 47 :: r) (KAnn (mk_ann ms []) :: t).
Proof.
  intros Ho H0 Hno Hedge Hm Hr. apply (sl_block _ _ r); [|rewrite !app_length; cbn [length]; lia|exact Hr].
  rewrite (block_rules_complete ms obj w0 mid r Ho H0 Hno Hedge), Hm. reflexivity.
Qed.
Lemma slay_block_rules_note ms obj w0 mid note r t : RV (RObj ms) obj -> ws w0 ->
  (forall u v, mid <> u ++ 42 :: 47 :: v) -> (forall u, mid <> u ++ [42]) -> trim_left mid = 45 :: note -> SLay r t ->
  SLay (47 :: 42 :: w0 ++ obj ++ mid ++ 42 :: 47 :: r) (KAnn (mk_ann ms (trim note)) :: t).
Proof.
  intros Ho H0 Hno Hedge Hm Hr. apply (sl_block _ _ r); [|rewrite !app_length; cbn [length]; lia|exact Hr].
  rewrite (block_rules_complete ms obj w0 mid r Ho H0 Hno Hedge), Hm. reflexivity.
Qed.
Lemma slay_line_rules ms obj w0 w1 tail r t : RV (RObj ms) obj -> ws w0 -> ws w1 -> comment_tail tail ->
  no_nl_b (w0 ++ obj ++ w1 ++ tail) -> line_end r -> SLay r t ->
  SLay (47 :: 47 :: (w0 ++ obj ++ w1 ++ tail) ++ r) (KAnn (mk_ann ms []) :: t).
Proof. intros Ho H0 H1 Ht Hnl Hr Hs. apply sl_ann_line; auto. apply ann_rules_complete; assumption. Qed.
Lemma slay_line_rules_note ms obj w0 w1 note tail r t : RV (RObj ms) obj -> ws w0 -> ws w1 ->
  Forall (fun c => c <> 35) note -> comment_tail tail ->
  no_nl_b (w0 ++ obj ++ w1 ++ 45 :: note ++ tail) -> line_end r -> SLay r t ->
  SLay (47 :: 47 :: (w0 ++ obj ++ w1 ++ 45 :: note ++ tail) ++ r) (KAnn (mk_ann ms (trim note)) :: t).
Proof. intros Ho H0 H1 Hn Ht Hnl Hr Hs. apply sl_ann_line; auto. apply ann_rules_note_complete; assumption. Qed.

Lemma ws_no_close w : ws w -> (forall u v, w <> u ++ 42 :: 47 :: v) /\ (forall u, w <> u ++ [42]).
Proof.
  intros Hw. split.
  - intros u v E. subst w. apply Forall_app in Hw. destruct Hw as [_ Hw]. inversion Hw as [|? ? Hc _]. discriminate.
  - intros u E. subst w. apply Forall_app in Hw. destruct Hw as [_ Hw]. inversion Hw as [|? ? Hc _]. discriminate.
Qed.
Theorem rules_line_or_block ms obj w0 w1 r1 r2 t : RV (RObj ms) obj -> ws w0 -> ws w1 ->
  no_nl_b (w0 ++ obj ++ w1 ++ []) -> line_end r1 -> SLay r1 t -> SLay r2 t ->
  exists s1 s2, SLay s1 (KAnn (mk_ann ms []) :: t) /\ SLay s2 (KAnn (mk_ann ms []) :: t) /\
                s1 = 47 :: 47 :: (w0 ++ obj ++ w1 ++ []) ++ r1 /\ s2 = 47 :: 42 :: w0 ++ obj ++ w1 ++ 42 :: 47 :: r2.
Proof.
  intros Ho H0 H1 Hnl Hr1 Hs1 Hs2. eexists; eexists. split; [|split; [|split; reflexivity]].
  - apply (slay_line_rules ms obj w0 w1 [] r1 t Ho H0 H1 (or_introl eq_refl) Hnl Hr1 Hs1).
  - destruct (ws_no_close w1 H1) as [Hno Hedge].
    assert (Hm : trim_left w1 = []) by (rewrite <- (app_nil_r w1); rewrite (trim_left_ws w1 [] H1); reflexivity).
    exact (slay_block_rules ms obj w0 w1 r2 t Ho H0 Hno Hedge Hm Hs2).
Qed.
