(* C08 for scalar nodes in full: every value the checker accepts for a literal node - type, bounds, lengths, precision,
   enum, const, nullable - is valid against the Schema Object the converter emits for it. *)
From Coq Require Import List ZArith NArith Bool Lia.
From JS Require Import Base.Res Spec.Decimal Model.AllOf Model.Number Model.EnumParse Model.RuleSem Model.OasSem Model.OasLeaf
  Proofs.DigitArith Proofs.NumberCmp Proofs.NumberNorm Proofs.NumberScan Proofs.NumberMain Proofs.RuleProofs Proofs.OasProofs.
Import ListNotations.
Local Open Scope Z_scope.

Lemma first_minlen_in rules n : first_minlen rules = Some n -> In (RMinLength n) rules.
Proof. induction rules as [|r rs IH]; [discriminate|]. cbn [first_minlen]. destruct r; try (intros H; right; exact (IH H)). intros H; inversion H; subst. left; reflexivity. Qed.
Lemma first_maxlen_in rules n : first_maxlen rules = Some n -> In (RMaxLength n) rules.
Proof. induction rules as [|r rs IH]; [discriminate|]. cbn [first_maxlen]. destruct r; try (intros H; right; exact (IH H)). intros H; inversion H; subst. left; reflexivity. Qed.
Lemma first_prec_in rules p : first_prec rules = Some p -> In (RPrecision p) rules.
Proof. induction rules as [|r rs IH]; [discriminate|]. cbn [first_prec]. destruct r; try (intros H; right; exact (IH H)). intros H; inversion H; subst. left; reflexivity. Qed.
Lemma first_enum_in rules items : first_enum rules = Some items -> In (REnum items) rules.
Proof. induction rules as [|r rs IH]; [discriminate|]. cbn [first_enum]. destruct r; try (intros H; right; exact (IH H)). intros H; inversion H; subst. left; reflexivity. Qed.
Lemma has_const_in rules : has_const rules = true -> In RConst rules.
Proof. unfold has_const. rewrite existsb_exists. intros (r & Hr & H). destruct r; try discriminate. exact Hr. Qed.
Lemma int64_opt_some n z : int64_opt n = Some z -> n = Some z.
Proof. unfold int64_opt. destruct n as [y|]; [|discriminate]. destruct (y <=? 2 ^ 63 - 1); [auto|discriminate]. Qed.
Lemma multiple_opt_some n z : multiple_opt n = Some z -> n = Some z.
Proof. unfold multiple_opt. destruct n as [y|]; [|discriminate]. destruct (y <=? 308); [auto|discriminate]. Qed.

Lemma list_eqb_eq a : forall b, list_eqb a b = true -> a = b.
Proof.
  induction a as [|x a IH]; intros [|y b] H; cbn [list_eqb] in H; try discriminate; [reflexivity|].
  apply andb_true_iff in H. destruct H as [H1 H2]. apply N.eqb_eq in H1. subst y. f_equal. exact (IH b H2).
Qed.
Ltac dpos p n := match n with O => idtac | S ?m => destruct p as [p|p|]; [dpos p m|dpos p m|idtac] end.
(* a literal is a string exactly when it starts with the quotation mark *)
Lemma lit_kind_head c r : (c = 34%N /\ lit_kind (c :: r) = KStr) \/ (c <> 34%N /\ lit_kind (c :: r) <> KStr /\ key_of (c :: r) = (false, c :: r)).
Proof.
  unfold lit_kind, key_of. destruct c as [|p]; [right; split; [discriminate|split; [destruct (has_dot _); discriminate|reflexivity]]|].
  dpos p 7%nat;
    first [ left; split; reflexivity
          | right; split; [discriminate|split; [try discriminate; destruct (has_dot _); discriminate|reflexivity]] ].
Qed.
Lemma lit_kind_str v : lit_kind v = KStr <-> exists r, v = 34%N :: r.
Proof.
  split.
  - destruct v as [|c r]; [cbn; discriminate|]. intros H. destruct (lit_kind_head c r) as [[-> _]|[_ [X _]]]; [eexists; reflexivity|contradiction].
  - intros (r & ->). reflexivity.
Qed.
Lemma key_of_nonstr v : lit_kind v <> KStr -> key_of v = (false, v).
Proof. destruct v as [|c r]; [reflexivity|]. intros H. destruct (lit_kind_head c r) as [[_ X]|[_ [_ X]]]; [contradiction|exact X]. Qed.
Lemma key_of_str v : lit_kind v = KStr -> fst (key_of v) = true.
Proof. intros H. apply lit_kind_str in H. destruct H as (r & ->). reflexivity. Qed.

(* what the checker calls equal is equal as a JSON value *)
Lemma key_eqb_jeq v i : key_eqb (key_of v) (key_of i) = true -> jeq v i.
Proof.
  unfold key_eqb. intros H. apply andb_true_iff in H. destruct H as [H1 H2]. apply list_eqb_eq in H2. apply eqb_prop in H1.
  assert (Hs : lit_kind v = KStr <-> lit_kind i = KStr).
  { split; intros K.
    - destruct (lit_kind i) eqn:Ki; try reflexivity; exfalso; rewrite (key_of_str v K) in H1; rewrite (key_of_nonstr i) in H1 by congruence; discriminate.
    - destruct (lit_kind v) eqn:Kv; try reflexivity; exfalso; rewrite (key_of_str i K) in H1; rewrite (key_of_nonstr v) in H1 by congruence; discriminate. }
  unfold jeq. destruct (lit_kind v) eqn:Kv.
  3: { rewrite (proj1 Hs eq_refl). exact H2. }
  all: assert (Ni : lit_kind i <> KStr) by (intros K; apply Hs in K; discriminate).
  all: rewrite (key_of_nonstr v) in H2 by congruence; rewrite (key_of_nonstr i Ni) in H2; cbn [snd] in H2; subst i; rewrite Kv; try apply deq_refl; reflexivity.
Qed.

Lemma deq_sym a b : deq a b -> deq b a.
Proof. unfold deq. intros H. rewrite (dcmp_antisym a b), H. reflexivity. Qed.

(* at most p significant fraction digits: the value is an integer number of 10^-p *)
Lemma precision_multiple v nv p : exp_small v -> nscan v = Ok nv -> frac_len nv <= p -> exists z : Z, deq (value_of v) (z, - p).
Proof.
  intros Hs Sv Hp. destruct (scan_value v nv Hs Sv) as [Hn Hd]. unfold frac_len in Hp.
  exists (fst (denote nv) * 10 ^ (p - nexp nv)). apply (deq_trans _ (denote nv)); [apply deq_sym; exact Hd|].
  unfold deq, dcmp, denote. cbn [fst snd]. destruct Hn as (_ & Hr & _).
  rewrite Z.min_r by lia. replace (- p - - p) with 0 by lia. replace (- nexp nv - - p) with (p - nexp nv) by lia.
  rewrite Z.pow_0_r, Z.mul_1_r. apply Z.compare_refl.
Qed.

Section Leaf.
  Variable ex : bytes.
  Variable k : jkind.
  Variable rules : list rule.
  Variable v : bytes.
  Hypothesis Hsmall : exp_small v.
  Hypothesis Hbounds : bounds_readable rules.
  Hypothesis Hnull_lit : lit_kind v = KNull -> v = w_null_lit.
  Hypothesis Hex_null_lit : lit_kind ex = KNull -> ex = w_null_lit.
  (* the schema was accepted: the example satisfies the rules written next to it *)
  Hypothesis Hex : validate (Leaf k rules) (Some ex) ex = true.
  (* the value is one the rules accept *)
  Hypothesis Hv : validate (Leaf k rules) (Some ex) v = true.

  Let nullable := existsb is_nullable rules.

  Lemma beq_null_eq x : beq_bytes x w_null_lit = true -> x = w_null_lit.
  Proof. apply list_eqb_eq. Qed.
  Lemma beq_null_neq x : beq_bytes x w_null_lit = false -> x <> w_null_lit.
  Proof. intros H E. subst x. discriminate. Qed.

  (* either v is the null admitted by nullable, or it passes the type test and every rule *)
  Lemma v_cases : (nullable = true /\ v = w_null_lit) \/
                  ((existsb is_enum rules = true \/ lit_kind v = k) /\ forall r, In r rules -> validate_rule v (Some ex) r = true).
  Proof.
    pose proof Hv as H. cbn [validate] in H. fold nullable in H.
    destruct (beq_bytes v w_null_lit) eqn:Bn.
    - destruct nullable eqn:En; [left; split; [reflexivity|apply beq_null_eq; exact Bn]|]. right.
      cbn [andb orb] in H. rewrite ?andb_false_r, ?orb_false_r in H. apply andb_true_iff in H. destruct H as [H1 H2].
      split.
      + apply orb_true_iff in H1. destruct H1 as [H1|H1]; [left; exact H1|right]. destruct (lit_kind v), k; cbn in H1; congruence.
      + rewrite forallb_forall in H2. exact H2.
    - right. apply (validate_conj k rules (Some ex) v Bn). exact Hv.
  Qed.

  Lemma enum_ok : (forall r, In r rules -> validate_rule v (Some ex) r = true) ->
    (existsb is_enum rules = true \/ lit_kind v = k) -> jx_enum_ok (enum_of k rules ex) v.
  Proof.
    intros Hall Hk. unfold enum_of. destruct (has_const rules) eqn:Hc.
    - cbn [jx_enum_ok]. exists ex. split; [left; reflexivity|]. apply key_eqb_jeq. exact (Hall RConst (has_const_in rules Hc)).
    - destruct (first_enum rules) as [[|i r]|] eqn:He.
      + (* an empty list: nothing is emitted for it; the null type still lists null *)
        pose proof (Hall _ (first_enum_in _ _ He)) as X. cbn in X. discriminate.
      + cbn [jx_enum_ok]. pose proof (Hall _ (first_enum_in _ _ He)) as X. apply enum_exact in X. destruct X as (j & Hj & Hkj).
        exists j. split; [exact Hj|apply key_eqb_jeq; exact Hkj].
      + destruct k eqn:Ek; try exact I. cbn [jx_enum_ok]. exists w_null_lit. split; [left; reflexivity|].
        destruct Hk as [Hen|Hkv].
        * exfalso. clear -Hen He. induction rules as [|r rs IH]; [discriminate|]. cbn [existsb first_enum] in *. destruct r; cbn in Hen; try (apply IH; assumption). discriminate.
        * rewrite (Hnull_lit Hkv). unfold jeq. reflexivity.
  Qed.

  Section Conjuncts.
    Hypothesis Hall : forall r, In r rules -> validate_rule v (Some ex) r = true.
    Hypothesis Hk : existsb is_enum rules = true \/ lit_kind v = k.

    Lemma min_ok : js_min_ok (first_min rules) v.
    Proof.
      destruct (first_min rules) as [[b e]|] eqn:Em; [|exact I]. cbn [js_min_ok]. intros _.
      pose proof (first_min_in _ _ _ Em) as Hin. pose proof (Hall _ Hin) as Hr.
      destruct (Hbounds b e (or_introl Hin)) as (Hsb & nb & Sb).
      assert (Sv : exists nv, nscan v = Ok nv) by (cbn [validate_rule] in Hr; destruct (nscan v) as [nv| |]; [eauto|discriminate|discriminate]).
      destruct Sv as [nv Sv]. destruct e.
      - apply (min_exclusive_exact v b nv nb Hsmall Hsb Sv Sb (Some ex)). exact Hr.
      - apply (min_exact v b nv nb Hsmall Hsb Sv Sb (Some ex)). exact Hr.
    Qed.
    Lemma max_ok : js_max_ok (first_max rules) v.
    Proof.
      destruct (first_max rules) as [[b e]|] eqn:Em; [|exact I]. cbn [js_max_ok]. intros _.
      pose proof (first_max_in _ _ _ Em) as Hin. pose proof (Hall _ Hin) as Hr.
      destruct (Hbounds b e (or_intror Hin)) as (Hsb & nb & Sb).
      assert (Sv : exists nv, nscan v = Ok nv) by (cbn [validate_rule] in Hr; destruct (nscan v) as [nv| |]; [eauto|discriminate|discriminate]).
      destruct Sv as [nv Sv]. destruct e.
      - apply (max_exclusive_exact v b nv nb Hsmall Hsb Sv Sb (Some ex)). exact Hr.
      - apply (max_exact v b nv nb Hsmall Hsb Sv Sb (Some ex)). exact Hr.
    Qed.
    Lemma len_ok : jx_len_ok (int64_opt (first_minlen rules)) (int64_opt (first_maxlen rules)) v.
    Proof.
      intros Ks. split; intros n Hn; apply int64_opt_some in Hn.
      - pose proof (Hall _ (first_minlen_in _ _ Hn)) as X. apply (length_exact v (Some ex) n Ks) in X. exact X.
      - pose proof (Hall _ (first_maxlen_in _ _ Hn)) as X. apply (length_exact v (Some ex) n Ks) in X. exact X.
    Qed.
    Lemma mult_ok : jx_multiple_ok (multiple_opt (first_prec rules)) v.
    Proof.
      destruct (multiple_opt (first_prec rules)) as [p|] eqn:Ep; [|exact I]. cbn [jx_multiple_ok]. intros _.
      apply multiple_opt_some in Ep. pose proof (Hall _ (first_prec_in _ _ Ep)) as X. cbn [validate_rule] in X.
      destruct (nscan v) as [nv| |] eqn:Sv; try discriminate. apply Z.leb_le in X. exact (precision_multiple v nv p Hsmall Sv X).
    Qed.
    Lemma type_ok : lit_kind ex <> KNull -> js_type_ok (type_of k rules ex) v = true.
    Proof.
      intros Kex.
      assert (Bn : beq_bytes ex w_null_lit = false) by (destruct (beq_bytes ex w_null_lit) eqn:B; [apply beq_null_eq in B; rewrite B in Kex; exfalso; apply Kex; reflexivity|reflexivity]).
      pose proof Hex as Hexk. apply (validate_conj k rules (Some ex) ex Bn) in Hexk. destruct Hexk as [Hexk _].
      unfold type_of. destruct (existsb is_enum rules) eqn:En; [reflexivity|].
      destruct Hk as [Hk'|Hk']; [congruence|]. destruct Hexk as [Hexk|Hexk]; [congruence|].
      unfold js_type_ok, is_number_lit. rewrite Hk'. rewrite Hexk. destruct k; reflexivity.
    Qed.
  End Conjuncts.

  Theorem oasx_sound : jx_valid (to_oasx ex (Leaf k rules)) v.
  Proof.
    destruct v_cases as [[Hn Hvn]|[Hk Hall]].
    - left. split; [|exact Hvn]. unfold to_oasx. fold nullable. destruct (lit_kind ex); exact Hn.
    - right. unfold to_oasx. fold nullable.
      destruct (lit_kind ex) eqn:Kex; cbn [x_type x_min x_max x_minlen x_maxlen x_multiple x_enum].
      5: { (* the example is null: only enum and nullable are emitted *)
           repeat split; try exact I; try (intros; discriminate). exact (enum_ok Hall Hk). }
      all: (split; [apply (type_ok Hk); rewrite Kex; discriminate|]; split; [exact (min_ok Hall)|]; split; [exact (max_ok Hall)|];
            split; [exact (len_ok Hall)|]; split; [exact (mult_ok Hall)|exact (enum_ok Hall Hk)]).
  Qed.
End Leaf.

(* ---- an alternative of an `or` rule: the type keyword follows the alternative's own type, `const` lists the example
   of the node that carries the rule (cex) ---- *)
Section Alt.
  Variable cex : bytes.
  Variable k : jkind.
  Variable rules : list rule.
  Variable v : bytes.
  Hypothesis Hsmall : exp_small v.
  Hypothesis Hbounds : bounds_readable rules.
  Hypothesis Hnull_lit : lit_kind v = KNull -> v = w_null_lit.
  Hypothesis Hv : validate (Leaf k rules) (Some cex) v = true.
  (* the loader admits an enum rule only in an alternative of type "enum" (error 1111 otherwise) *)
  Hypothesis Hnull_enum : k = KNull -> existsb is_enum rules = false.

  Lemma alt_cases : (existsb is_nullable rules = true /\ v = w_null_lit) \/
                    ((existsb is_enum rules = true \/ lit_kind v = k) /\ forall r, In r rules -> validate_rule v (Some cex) r = true).
  Proof.
    pose proof Hv as H. cbn [validate] in H.
    destruct (beq_bytes v w_null_lit) eqn:Bn.
    - destruct (existsb is_nullable rules) eqn:En; [left; split; [reflexivity|apply list_eqb_eq; exact Bn]|]. right.
      cbn [andb orb] in H. rewrite ?andb_false_r, ?orb_false_r in H. apply andb_true_iff in H. destruct H as [H1 H2].
      split.
      + apply orb_true_iff in H1. destruct H1 as [H1|H1]; [left; exact H1|right]. destruct (lit_kind v), k; cbn in H1; congruence.
      + rewrite forallb_forall in H2. exact H2.
    - right. apply (validate_conj k rules (Some cex) v Bn). exact Hv.
  Qed.

  Theorem oasx_alt_sound : jx_valid (to_oasx_alt cex (Leaf k rules)) v.
  Proof.
    destruct alt_cases as [[Hn Hvn]|[Hk Hall]].
    - left. split; [|exact Hvn]. unfold to_oasx_alt. destruct k; exact Hn.
    - right. unfold to_oasx_alt.
      assert (Henum : jx_enum_ok (if has_const rules then Some [cex] else match first_enum rules with Some (i :: r) => Some (i :: r) | _ => None end) v).
      { destruct (has_const rules) eqn:Hc.
        - cbn [jx_enum_ok]. exists cex. split; [left; reflexivity|]. apply key_eqb_jeq. exact (Hall RConst (has_const_in rules Hc)).
        - destruct (first_enum rules) as [[|i r]|] eqn:He; try exact I.
          cbn [jx_enum_ok]. pose proof (Hall _ (first_enum_in _ _ He)) as X. apply enum_exact in X. destruct X as (j & Hj & Hkj).
          exists j. split; [exact Hj|apply key_eqb_jeq; exact Hkj]. }
      assert (Htype : k <> KNull -> js_type_ok (alt_type k rules) v = true).
      { intros _. unfold alt_type. destruct (existsb is_enum rules) eqn:En; [reflexivity|].
        destruct Hk as [Hk'|Hk']; [congruence|]. unfold js_type_ok, is_number_lit. rewrite Hk'. destruct k; reflexivity. }
      destruct k eqn:Ek; cbn [x_type x_min x_max x_minlen x_maxlen x_multiple x_enum].
      5: { (* the null type: a Null node with enum [null] *)
           repeat split; try exact I; try (intros; discriminate).
           cbn [jx_enum_ok]. exists w_null_lit. split; [left; reflexivity|].
           destruct Hk as [Hen'|Hkv].
           - rewrite (Hnull_enum eq_refl) in Hen'. discriminate.
           - rewrite (Hnull_lit Hkv). unfold jeq. reflexivity. }
      all: (split; [apply Htype; discriminate|]; split; [exact (min_ok cex rules v Hsmall Hbounds Hall)|]; split; [exact (max_ok cex rules v Hsmall Hbounds Hall)|];
            split; [exact (len_ok cex rules v Hall)|]; split; [exact (mult_ok cex rules v Hsmall Hall)|exact Henum]).
  Qed.
End Alt.
