(* Example() of a plain JSON schema, parsed again, is the same tree up to the spelling of the keys, and the keys
   denote the same strings. *)
From Coq Require Import List NArith ZArith Bool Arith Lia.
From JS Require Import Base.Res Spec.JsonGrammar Model.EnumParse Model.JsonValue Proofs.EnumProofs Proofs.JsonValueProofs Proofs.EscapeProofs.
Import ListNotations.
Local Open Scope N_scope.

(* ---- the encoder writes JSON string bodies ---- *)
Lemma strbody_app a b : StrBody a -> StrBody b -> StrBody (a ++ b).
Proof.
  induction 1 as [|c r Hc _ IH|e r He _ IH|h1 h2 h3 h4 r H1 H2 H3 H4 _ IH]; intros Hb; cbn [app];
    [exact Hb|apply sb_char; auto|apply sb_esc; auto|apply sb_u; auto].
Qed.
Lemma hexdig_hex n : n < 16 -> hexdigit (hexdig n) = true.
Proof.
  intros H. unfold hexdig, hexdigit, digit. destruct (n <? 10) eqn:E.
  - assert (A : (48 <=? 48 + n) && (48 + n <=? 57) = true) by lia. rewrite A. reflexivity.
  - assert (A : (97 <=? 87 + n) && (87 + n <=? 102) = true) by lia. rewrite A. rewrite orb_true_r. reflexivity.
Qed.
Lemma u_escape_strbody c : c < 65536 -> StrBody (u_escape c).
Proof.
  intros H. unfold u_escape. apply sb_u; try apply hexdig_hex; try constructor.
  - apply N.div_lt_upper_bound; lia.
  - apply N.mod_lt; lia.
  - apply N.mod_lt; lia.
  - apply N.mod_lt; lia.
Qed.
Lemma unescaped_hi b : 128 <= b -> unescaped b = true.
Proof. intros H. unfold unescaped. assert (A : (32 <=? b) = true) by lia. assert (B : (b =? 34) = false) by lia. assert (C : (b =? 92) = false) by lia. rewrite A, B, C. reflexivity. Qed.
Lemma escape_strbody c : StrBody (go_escape_cp c).
Proof.
  unfold go_escape_cp.
  destruct (c =? 34) eqn:E34; [apply (sb_esc 34); [reflexivity|constructor]|].
  destruct (c =? 92) eqn:E92; [apply (sb_esc 92); [reflexivity|constructor]|].
  destruct (c =? 8); [apply (sb_esc 98); [reflexivity|constructor]|].
  destruct (c =? 12); [apply (sb_esc 102); [reflexivity|constructor]|].
  destruct (c =? 10); [apply (sb_esc 110); [reflexivity|constructor]|].
  destruct (c =? 13); [apply (sb_esc 114); [reflexivity|constructor]|].
  destruct (c =? 9); [apply (sb_esc 116); [reflexivity|constructor]|].
  destruct (c <? 32) eqn:E32; [apply u_escape_strbody; lia|].
  destruct ((c =? 60) || (c =? 62) || (c =? 38)) eqn:Eh; [apply u_escape_strbody; lia|].
  destruct ((c =? 8232) || (c =? 8233)) eqn:El; [apply u_escape_strbody; lia|].
  unfold utf8_enc. destruct (c <? 128) eqn:E128.
  - apply sb_char; [|constructor]. unfold unescaped. assert (A : (32 <=? c) = true) by lia.
    rewrite A, E34, E92. reflexivity.
  - destruct (c <? 2048); [|destruct (c <? 65536)]; repeat (apply sb_char; [apply unescaped_hi; lia|]); constructor.
Qed.
Lemma escapes_strbody cps : StrBody (flat_map go_escape_cp cps).
Proof. induction cps as [|c r IH]; cbn [flat_map]; [constructor|]. apply strbody_app; [apply escape_strbody|exact IH]. Qed.
Lemma escape_nonempty c : (1 <= length (go_escape_cp c))%nat.
Proof.
  unfold go_escape_cp, u_escape, utf8_enc.
  repeat match goal with |- context [if ?b then _ else _] => destruct b end; cbn [length]; lia.
Qed.
Lemma escapes_length cps : (length cps <= length (flat_map go_escape_cp cps))%nat.
Proof. induction cps as [|c r IH]; cbn [flat_map length]; [lia|]. rewrite app_length. pose proof (escape_nonempty c). lia. Qed.

Lemma removelast_snoc {A} (l : list A) x : removelast (l ++ [x]) = l.
Proof. apply removelast_last. Qed.

(* a key written again by Example() is a JSON string that denotes the same string *)
Theorem enc_key_ok k : JString k -> Forall is_byte k -> JString (enc_key k) /\ key_of (enc_key k) = key_of k.
Proof.
  intros (body & -> & Hb) Hbytes. unfold enc_key. rewrite removelast_snoc.
  set (cps := decode (S (length (body ++ [34]))) body).
  split; [exists (flat_map go_escape_cp cps); split; [reflexivity|apply escapes_strbody]|].
  unfold key_of. rewrite !removelast_snoc. fold cps. f_equal.
  apply decode_escape.
  - apply decode_valid. inversion Hbytes as [|? ? _ Hrest]; subst. apply Forall_app in Hrest. exact (proj1 Hrest).
  - rewrite app_length. cbn [length]. pose proof (escapes_length cps). lia.
Qed.

(* ---- the tree Example() denotes ---- *)
Fixpoint norm (v : jv) : jv :=
  match v with
  | JLit l => JLit l
  | JArr items => JArr (map norm items)
  | JObj ms => JObj (map (fun m => (enc_key (fst m), norm (snd m))) ms)
  end.
(* same shape, same literals, keys that denote the same strings *)
Inductive veq : jv -> jv -> Prop :=
| VE_lit l : veq (JLit l) (JLit l)
| VE_arr a b : Forall2 veq a b -> veq (JArr a) (JArr b)
| VE_obj a b : Forall2 (fun x y => key_of (fst x) = key_of (fst y) /\ veq (snd x) (snd y)) a b -> veq (JObj a) (JObj b).

Lemma bytes_app3 (a b c : bytes) : Forall is_byte (a ++ b ++ c) -> Forall is_byte b.
Proof. intros H. apply Forall_app in H. destruct H as [_ H]. apply Forall_app in H. exact (proj1 H). Qed.

Theorem example_renders :
  (forall v s, Renders v s -> Forall is_byte s -> Renders (norm v) (example v) /\ veq (norm v) v) /\
  (forall items body, RItems items body -> Forall is_byte body ->
     RItems (map norm items) (join_with [44] (map example items)) /\ Forall2 veq (map norm items) items) /\
  (forall ms body, RMembers ms body -> Forall is_byte body ->
     RMembers (map (fun m => (enc_key (fst m), norm (snd m))) ms) (join_with [44] (map (fun m => enc_key (fst m) ++ 58 :: example (snd m)) ms)) /\
     Forall2 (fun x y => key_of (fst x) = key_of (fst y) /\ veq (snd x) (snd y)) (map (fun m => (enc_key (fst m), norm (snd m))) ms) ms).
Proof.
  apply renders_mutind.
  - intros l Hl _. cbn [norm example]. split; constructor. exact Hl.
  - intros w Hw _. cbn [norm example map join_with app]. split; [apply (R_arr0 []); constructor|constructor; constructor].
  - intros items body Hb IH Hbytes. cbn [norm example].
    assert (Hbb : Forall is_byte body). { inversion Hbytes as [|? ? _ H]; subst. apply Forall_app in H. exact (proj1 H). }
    destruct (IH Hbb) as [H1 H2]. split; [apply R_arr; exact H1|constructor; exact H2].
  - intros w Hw _. cbn [norm example map join_with app]. split; [apply (R_obj0 []); constructor|constructor; constructor].
  - intros ms body Hb IH Hbytes. cbn [norm example].
    assert (Hbb : Forall is_byte body). { inversion Hbytes as [|? ? _ H]; subst. apply Forall_app in H. exact (proj1 H). }
    destruct (IH Hbb) as [H1 H2]. split; [apply R_obj; exact H1|constructor; exact H2].
  - intros v w1 s w2 Hw1 Hv IHv Hw2 Hbytes. destruct (IHv (bytes_app3 _ _ _ Hbytes)) as [H1 H2]. cbn [map join_with]. split.
    + pose proof (RI_one (norm v) [] (example v) [] ltac:(constructor) H1 ltac:(constructor)) as H. cbn [app] in H. rewrite app_nil_r in H. exact H.
    + constructor; [exact H2|constructor].
  - intros v w1 s w2 rest body Hw1 Hv IHv Hw2 Hrest IHr Hbytes.
    destruct (IHv (bytes_app3 _ _ _ Hbytes)) as [H1 H2].
    assert (Hbr : Forall is_byte body).
    { apply Forall_app in Hbytes. destruct Hbytes as [_ H]. apply Forall_app in H. destruct H as [_ H]. apply Forall_app in H. destruct H as [_ H]. inversion H; assumption. }
    destruct (IHr Hbr) as [H3 H4]. split; [|constructor; assumption].
    destruct rest as [|v2 rest']; [inversion Hrest|].
    change (map norm (v :: v2 :: rest')) with (norm v :: map norm (v2 :: rest')).
    change (join_with [44] (map example (v :: v2 :: rest'))) with (example v ++ [44] ++ join_with [44] (map example (v2 :: rest'))).
    pose proof (RI_more (norm v) [] (example v) [] _ _ ltac:(constructor) H1 ltac:(constructor) H3) as H. cbn [app] in H. exact H.
  - intros k v w1 w2 w3 s w4 Hw1 Hk Hw2 Hw3 Hv IHv Hw4 Hbytes.
    assert (Hkb : Forall is_byte k) by (apply Forall_app in Hbytes; destruct Hbytes as [_ H]; apply Forall_app in H; exact (proj1 H)).
    assert (Hsb : Forall is_byte s).
    { apply Forall_app in Hbytes. destruct Hbytes as [_ H]. apply Forall_app in H. destruct H as [_ H]. apply Forall_app in H. destruct H as [_ H].
      inversion H as [|? ? _ H']; subst. exact (bytes_app3 _ _ _ H'). }
    destruct (IHv Hsb) as [H1 H2]. destruct (enc_key_ok k Hk Hkb) as [Hjs Hko]. cbn [map join_with fst snd]. split.
    + pose proof (RM_one (enc_key k) (norm v) [] [] [] (example v) [] ltac:(constructor) Hjs ltac:(constructor) ltac:(constructor) H1 ltac:(constructor)) as H.
      cbn [app] in H. rewrite app_nil_r in H. exact H.
    + constructor; [split; [exact Hko|exact H2]|constructor].
  - intros k v w1 w2 w3 s w4 rest body Hw1 Hk Hw2 Hw3 Hv IHv Hw4 Hrest IHr Hbytes.
    assert (Hkb : Forall is_byte k) by (apply Forall_app in Hbytes; destruct Hbytes as [_ H]; apply Forall_app in H; exact (proj1 H)).
    assert (Htail : Forall is_byte (w3 ++ s ++ w4 ++ 44 :: body)).
    { apply Forall_app in Hbytes. destruct Hbytes as [_ H]. apply Forall_app in H. destruct H as [_ H]. apply Forall_app in H. destruct H as [_ H]. inversion H; assumption. }
    assert (Hsb : Forall is_byte s) by exact (bytes_app3 _ _ _ Htail).
    assert (Hbr : Forall is_byte body).
    { apply Forall_app in Htail. destruct Htail as [_ H]. apply Forall_app in H. destruct H as [_ H]. apply Forall_app in H. destruct H as [_ H]. inversion H; assumption. }
    destruct (IHv Hsb) as [H1 H2]. destruct (IHr Hbr) as [H3 H4]. destruct (enc_key_ok k Hk Hkb) as [Hjs Hko].
    split; [|constructor; [split; [exact Hko|exact H2]|exact H4]].
    destruct rest as [|m2 rest']; [inversion Hrest|].
    set (fm := fun m : bytes * jv => (enc_key (fst m), norm (snd m))). set (fe := fun m : bytes * jv => enc_key (fst m) ++ 58 :: example (snd m)).
    change (map fm ((k, v) :: m2 :: rest')) with ((enc_key k, norm v) :: map fm (m2 :: rest')).
    change (join_with [44] (map fe ((k, v) :: m2 :: rest'))) with ((enc_key k ++ 58 :: example v) ++ [44] ++ join_with [44] (map fe (m2 :: rest'))).
    pose proof (RM_more (enc_key k) (norm v) [] [] [] (example v) [] _ _ ltac:(constructor) Hjs ltac:(constructor) ltac:(constructor) H1 ltac:(constructor) H3) as H.
    cbn [app] in H. rewrite <- app_assoc. cbn [app]. exact H.
Qed.

(* induction over trees (nested lists) *)
Section JvInd.
  Variable P : jv -> Prop.
  Hypothesis HL : forall l, P (JLit l).
  Hypothesis HA : forall items, Forall P items -> P (JArr items).
  Hypothesis HO : forall ms, Forall (fun m => P (snd m)) ms -> P (JObj ms).
  Fixpoint jv_ind' (v : jv) : P v :=
    match v with
    | JLit l => HL l
    | JArr items => HA items ((fix go (l : list jv) : Forall P l := match l with [] => Forall_nil _ | c :: r => Forall_cons _ (jv_ind' c) (go r) end) items)
    | JObj ms => HO ms ((fix go (l : list (bytes * jv)) : Forall (fun m => P (snd m)) l :=
                           match l with [] => Forall_nil _ | m :: r => Forall_cons _ (jv_ind' (snd m)) (go r) end) ms)
    end.
End JvInd.

Lemma depth_norm : forall v, depth (norm v) = depth v.
Proof.
  induction v as [l|items IH|ms IH] using jv_ind'; cbn [norm depth]; [reflexivity| |]; f_equal.
  - induction IH as [|x r Hx _ IHr]; cbn [map fold_right]; [reflexivity|]. rewrite Hx, IHr. reflexivity.
  - induction IH as [|m r Hm _ IHr]; cbn [map fold_right snd]; [reflexivity|]. rewrite Hm, IHr. reflexivity.
Qed.

Lemma keys_ok_veq : forall f a b, veq a b -> keys_ok f a = keys_ok f b.
Proof.
  induction f as [|f IH]; intros a b H; [reflexivity|]. inversion H as [l|x y Hxy|x y Hxy]; subst; cbn [keys_ok]; [reflexivity| |].
  - clear H. induction Hxy as [|p q x' y' Hpq _ IHl]; cbn [forallb]; [reflexivity|]. rewrite (IH p q Hpq), IHl. reflexivity.
  - assert (Hk : map (fun m : bytes * jv => key_of (fst m)) x = map (fun m : bytes * jv => key_of (fst m)) y).
    { clear H. induction Hxy as [|p q x' y' [Hpq _] _ IHl]; cbn [map]; [reflexivity|]. rewrite Hpq, IHl. reflexivity. }
    rewrite Hk. f_equal. clear Hk H. induction Hxy as [|p q x' y' [_ Hpq] _ IHl]; cbn [forallb]; [reflexivity|]. rewrite (IH _ _ Hpq), IHl. reflexivity.
Qed.

(* Example() of an accepted JSON text is accepted again, and the tree it gives has the same shape, the same literals
   in the same order, and keys that denote the same strings *)
Theorem example_roundtrip v s : Renders v s -> Forall is_byte s -> keys_ok (S (depth v)) v = true ->
  jparse (example v) = Some (norm v) /\ veq (norm v) v.
Proof.
  intros Hr Hb Hk. destruct (proj1 example_renders v s Hr Hb) as [Hren Hveq]. split; [|exact Hveq].
  pose proof (jparse_complete (norm v) (example v) [] [] Hren ltac:(constructor) ltac:(constructor)) as H.
  cbn [app] in H. rewrite app_nil_r in H. apply H. rewrite depth_norm, (keys_ok_veq _ _ _ Hveq). exact Hk.
Qed.
