(* Soundness of the plain-JSON parser model (Model/JsonValue.v): what it accepts is a rendering of the tree it returns
   (the converse of parse_complete).  With jparse_complete this makes "accepted" and "is a JSON text without exponent
   numbers and duplicate keys" the same thing for the model. *)
From Coq Require Import List NArith Bool Lia.
From JS Require Import Base.Res Spec.JsonGrammar Model.EnumParse Model.JsonValue Proofs.EnumProofs Proofs.JsonValueProofs.
Import ListNotations.
Local Open Scope N_scope.

Ltac dhead c := destruct c as [|?p]; [try reflexivity|]; repeat (match goal with p : positive |- _ => destruct p as [p|p|] end; try reflexivity).

(* the three functions with their pattern matches on byte constants written as tests *)
Lemma pvalue_eq f s : pvalue (S f) s =
  match skipws s with
  | c :: r =>
    if c =? 91 then match skipws r with c' :: r' => if c' =? 93 then Some (JArr [], r') else pitems f r [] | [] => pitems f r [] end
    else if c =? 123 then match skipws r with c' :: r' => if c' =? 125 then Some (JObj [], r') else pmembers f r [] | [] => pmembers f r [] end
    else match scalar (c :: r) with Some (lit, rest) => Some (JLit lit, rest) | None => None end
  | [] => match scalar [] with Some (lit, rest) => Some (JLit lit, rest) | None => None end
  end.
Proof.
  cbn [pvalue]. destruct (skipws s) as [|c r]; [reflexivity|]. dhead c.
  - destruct (skipws r) as [|c' r']; [reflexivity|]. dhead c'.
  - destruct (skipws r) as [|c' r']; [reflexivity|]. dhead c'.
Qed.
Lemma pitems_eq f s acc : pitems (S f) s acc =
  match pvalue f s with
  | Some (v, r) =>
    match skipws r with
    | c :: r' => if c =? 44 then pitems f r' (v :: acc) else if c =? 93 then Some (JArr (rev (v :: acc)), r') else None
    | [] => None
    end
  | None => None
  end.
Proof.
  cbn [pitems]. destruct (pvalue f s) as [[v r]|]; [|reflexivity]. destruct (skipws r) as [|c r']; [reflexivity|]. dhead c.
Qed.
Lemma pmembers_eq f s acc : pmembers (S f) s acc =
  match skipws s with
  | c :: r =>
    if c =? 34 then
      match str_body r [34] with
      | Some (k, r1) =>
        match skipws r1 with
        | c1 :: r2 =>
          if c1 =? 58 then
            match pvalue f r2 with
            | Some (v, r3) =>
              match skipws r3 with
              | c3 :: r4 => if c3 =? 44 then pmembers f r4 ((k, v) :: acc)
                            else if c3 =? 125 then Some (JObj (rev ((k, v) :: acc)), r4) else None
              | [] => None
              end
            | None => None
            end
          else None
        | [] => None
        end
      | None => None
      end
    else None
  | [] => None
  end.
Proof.
  cbn [pmembers]. destruct (skipws s) as [|c r]; [reflexivity|]. dhead c.
  destruct (str_body r [34]) as [[k r1]|]; [|reflexivity]. destruct (skipws r1) as [|c1 r2]; [reflexivity|]. dhead c1.
  destruct (pvalue f r2) as [[v r3]|]; [|reflexivity]. destruct (skipws r3) as [|c3 r4]; [reflexivity|]. dhead c3.
Qed.

Lemma skipws_split s : exists w, s = w ++ skipws s /\ ws w.
Proof. exact (skip_ws_spec s). Qed.

Definition PV (f : nat) : Prop := forall s v r, pvalue f s = Some (v, r) -> exists w s', s = w ++ s' ++ r /\ ws w /\ Renders v s'.
Definition PI (f : nat) : Prop := forall s acc v r, pitems f s acc = Some (v, r) ->
  exists items body, v = JArr (rev acc ++ items) /\ s = body ++ 93 :: r /\ RItems items body.
Definition PM (f : nat) : Prop := forall s acc v r, pmembers f s acc = Some (v, r) ->
  exists ms body, v = JObj (rev acc ++ ms) /\ s = body ++ 125 :: r /\ RMembers ms body.

Lemma app_assoc3 {A} (a b c : list A) : (a ++ b) ++ c = a ++ b ++ c.
Proof. symmetry. apply app_assoc. Qed.
Ltac assoc := repeat (rewrite <- ?app_assoc; cbn [app]); reflexivity.

Lemma ws_nil : ws []. Proof. constructor. Qed.

Theorem parse_sound_all : forall f, PV f /\ PI f /\ PM f.
Proof.
  induction f as [|f (IHV & IHI & IHM)]; [repeat split; intros ? ? ?; intros; discriminate|].
  assert (HV : PV (S f)).
  { intros s v r H. rewrite pvalue_eq in H. destruct (skipws_split s) as (w & Hs & Hw).
    destruct (skipws s) as [|c t] eqn:Es.
    - destruct (scalar []) as [[lit rest]|] eqn:Sc; [|discriminate]. inversion H; subst v r.
      apply scalar_spec in Sc. destruct Sc as [E Hl]. exists w, lit. split; [rewrite Hs, E; reflexivity|]. split; [exact Hw|constructor; exact Hl].
    - destruct (N.eqb_spec c 91) as [->|N91].
      + (* array *)
        destruct (skipws_split t) as (w2 & Ht & Hw2).
        assert (Hitems : pitems f t [] = Some (v, r) -> exists w0 s', s = w0 ++ s' ++ r /\ ws w0 /\ Renders v s').
        { intros Hp. destruct (IHI t [] v r Hp) as (items & body & -> & Hb & HR). exists w, (91 :: body ++ [93]).
          split; [rewrite Hs, Hb; assoc|]. split; [exact Hw|]. cbn [rev app]. apply R_arr. exact HR. }
        destruct (skipws t) as [|c' r'] eqn:Et; [exact (Hitems H)|].
        destruct (N.eqb_spec c' 93) as [->|N93]; [|exact (Hitems H)].
        inversion H; subst v r. exists w, (91 :: w2 ++ [93]). split; [rewrite Hs, Ht; assoc|]. split; [exact Hw|apply R_arr0; exact Hw2].
      + destruct (N.eqb_spec c 123) as [->|N123].
        * (* object *)
          destruct (skipws_split t) as (w2 & Ht & Hw2).
          assert (Hmems : pmembers f t [] = Some (v, r) -> exists w0 s', s = w0 ++ s' ++ r /\ ws w0 /\ Renders v s').
          { intros Hp. destruct (IHM t [] v r Hp) as (ms & body & -> & Hb & HR). exists w, (123 :: body ++ [125]).
            split; [rewrite Hs, Hb; assoc|]. split; [exact Hw|]. cbn [rev app]. apply R_obj. exact HR. }
          destruct (skipws t) as [|c' r'] eqn:Et; [exact (Hmems H)|].
          destruct (N.eqb_spec c' 125) as [->|N125]; [|exact (Hmems H)].
          inversion H; subst v r. exists w, (123 :: w2 ++ [125]). split; [rewrite Hs, Ht; assoc|]. split; [exact Hw|apply R_obj0; exact Hw2].
        * destruct (scalar (c :: t)) as [[lit rest]|] eqn:Sc; [|discriminate]. inversion H; subst v r.
          apply scalar_spec in Sc. destruct Sc as [E Hl]. exists w, lit. split; [rewrite Hs, E; reflexivity|]. split; [exact Hw|constructor; exact Hl]. }
  assert (HI : PI (S f)).
  { intros s acc v r H. rewrite pitems_eq in H. destruct (pvalue f s) as [[v1 r1]|] eqn:Ep; [|discriminate].
    destruct (IHV s v1 r1 Ep) as (w1 & s1 & Hs & Hw1 & HR1).
    destruct (skipws_split r1) as (w2 & Hr1 & Hw2). destruct (skipws r1) as [|c r'] eqn:Er; [discriminate|].
    destruct (N.eqb_spec c 44) as [->|N44].
    - destruct (IHI r' (v1 :: acc) v r H) as (items & body & -> & Hb & HRi).
      exists (v1 :: items), (w1 ++ s1 ++ w2 ++ 44 :: body). split; [cbn [rev]; rewrite <- app_assoc; reflexivity|].
      split; [rewrite Hs, Hr1, Hb; assoc|]. apply RI_more; assumption.
    - destruct (N.eqb_spec c 93) as [->|N93]; [|discriminate]. inversion H; subst v r.
      exists [v1], (w1 ++ s1 ++ w2). split; [reflexivity|]. split; [rewrite Hs, Hr1; assoc|]. apply RI_one; assumption. }
  assert (HM : PM (S f)).
  { intros s acc v r H. rewrite pmembers_eq in H. destruct (skipws_split s) as (w1 & Hs & Hw1).
    destruct (skipws s) as [|c t] eqn:Es; [discriminate|]. destruct (N.eqb_spec c 34) as [->|N34]; [|discriminate].
    destruct (str_body t [34]) as [[k r1]|] eqn:Ek; [|discriminate].
    destruct (str_body_spec t [34] k r1 Ek) as (body & Ht & Hbody & Hk). cbn [rev app] in Hk.
    assert (Hjs : JString k) by (exists body; split; [exact Hk|exact Hbody]).
    destruct (skipws_split r1) as (w2 & Hr1 & Hw2). destruct (skipws r1) as [|c1 r2] eqn:Er1; [discriminate|].
    destruct (N.eqb_spec c1 58) as [->|N58]; [|discriminate].
    destruct (pvalue f r2) as [[v1 r3]|] eqn:Ep; [|discriminate].
    destruct (IHV r2 v1 r3 Ep) as (w3 & s1 & Hr2 & Hw3 & HR1).
    destruct (skipws_split r3) as (w4 & Hr3 & Hw4). destruct (skipws r3) as [|c3 r4] eqn:Er3; [discriminate|].
    assert (Hpre : s = w1 ++ k ++ w2 ++ 58 :: w3 ++ s1 ++ w4 ++ c3 :: r4).
    { rewrite Hs, Hk. cbn [app]. rewrite Ht, Hr1, Hr2, Hr3. assoc. }
    destruct (N.eqb_spec c3 44) as [->|N44].
    - destruct (IHM r4 ((k, v1) :: acc) v r H) as (ms & mbody & -> & Hb & HRm).
      exists ((k, v1) :: ms), (w1 ++ k ++ w2 ++ 58 :: w3 ++ s1 ++ w4 ++ 44 :: mbody). split; [cbn [rev]; rewrite <- app_assoc; reflexivity|].
      split; [rewrite Hpre, Hb; assoc|]. apply RM_more; assumption.
    - destruct (N.eqb_spec c3 125) as [->|N125]; [|discriminate]. inversion H; subst v r.
      exists [(k, v1)], (w1 ++ k ++ w2 ++ 58 :: w3 ++ s1 ++ w4). split; [reflexivity|]. split; [rewrite Hpre; assoc|]. apply RM_one; assumption. }
  auto.
Qed.

(* C03, sound direction: what the parser model accepts is a rendering of the tree it returns, surrounded by blanks,
   and the tree has no duplicate keys *)
Theorem jparse_sound s v : jparse s = Some v ->
  exists w1 s' w2, s = w1 ++ s' ++ w2 /\ ws w1 /\ ws w2 /\ Renders v s' /\ keys_ok (S (depth v)) v = true.
Proof.
  unfold jparse. intros H. destruct (pvalue (S (2 * length s)) s) as [[v0 r]|] eqn:Ep; [|discriminate].
  destruct (skipws_split r) as (w2 & Hr & Hw2). destruct (skipws r) as [|c t]; [|discriminate].
  destruct (keys_ok (S (depth v0)) v0) eqn:Ek; [|discriminate]. inversion H; subst v0.
  destruct (proj1 (parse_sound_all _) s v r Ep) as (w1 & s' & Hs & Hw1 & HR).
  exists w1, s', w2. rewrite app_nil_r in Hr. subst r. auto.
Qed.

(* both directions: the texts the model accepts are exactly the renderings of trees without duplicate keys *)
Theorem jparse_iff s v : jparse s = Some v <->
  exists w1 s' w2, s = w1 ++ s' ++ w2 /\ ws w1 /\ ws w2 /\ Renders v s' /\ keys_ok (S (depth v)) v = true.
Proof.
  split; [apply jparse_sound|]. intros (w1 & s' & w2 & -> & H1 & H2 & HR & Hk). exact (jparse_complete v s' w1 w2 HR H1 H2 Hk).
Qed.
