(* The ownership invariant of the concurrent pool model (Model/Conc.v), for every schedule:
   a buffer is held by at most one goroutine and is not in the pool while it is held; what a goroutine has written
   to its buffer is still there when it evaluates its result; hence a function that returns a COPY returns exactly
   its own output, whatever the other goroutines do and whichever buffers Get hands out. *)
From Coq Require Import List NArith Bool Arith Lia.
From JS Require Import Model.Pools Model.Conc.
Import ListNotations.

Lemma nth_upd ts f : forall t t', nth_error (upd_thread ts t f) t' =
  if Nat.eqb t' t then option_map f (nth_error ts t') else nth_error ts t'.
Proof.
  induction ts as [|x r IH]; intros t t'.
  - cbn [upd_thread]. destruct t; destruct t'; cbn; try reflexivity; destruct (Nat.eqb t' t); reflexivity.
  - destruct t as [|t]; destruct t' as [|t']; cbn [upd_thread nth_error Nat.eqb option_map]; try reflexivity. apply IH.
Qed.
Lemma hget_hset_same h i b : hget (hset h i b) i = b.
Proof. unfold hset. cbn [hget]. rewrite Nat.eqb_refl. reflexivity. Qed.
Lemma hget_hset_other h i j b : i <> j -> hget (hset h j b) i = hget h i.
Proof. intros H. unfold hset. cbn [hget]. destruct (Nat.eqb_spec i j); [contradiction|reflexivity]. Qed.

Definition pc_ok (g : gstate) (th : thread) : Prop :=
  match pc th with
  | 0 => held th = None
  | 1 | 2 | 3 => exists i, held th = Some i /\ i < gnext g /\ ~ In i (gpool g)
  | _ => held th = None
  end.

Record Inv (calls : list (bytes * kind)) (g : gstate) : Prop := {
  i_static : forall t th, nth_error (threads g) t = Some th -> nth_error calls t = Some (out th, knd th);
  i_pc : forall t th, nth_error (threads g) t = Some th -> pc_ok g th;
  i_excl : forall t1 t2 th1 th2 i, t1 <> t2 -> nth_error (threads g) t1 = Some th1 -> nth_error (threads g) t2 = Some th2 ->
           held th1 = Some i -> held th2 = Some i -> False;
  i_pool : forall i, In i (gpool g) -> i < gnext g;
  i_heap : forall t th i, nth_error (threads g) t = Some th -> (pc th = 2 \/ pc th = 3) -> held th = Some i ->
           hget (gheap g) i = out th;
  i_ret : forall t th, nth_error (threads g) t = Some th -> 3 <= pc th -> knd th = Copy -> ret th = Some (RCopy (out th)) }.

Lemma inv_init calls : Inv calls (ginit calls).
Proof.
  assert (Hn : forall t th, nth_error (threads (ginit calls)) t = Some th ->
               exists c, nth_error calls t = Some c /\ th = {| pc := 0; held := None; out := fst c; knd := snd c; ret := None |}).
  { intros t th. cbn [ginit threads]. rewrite nth_error_map. destruct (nth_error calls t) as [c|]; cbn [option_map]; [|discriminate].
    intros H; inversion H; subst. exists c. auto. }
  constructor.
  - intros t th H. destruct (Hn t th H) as (c & Hc & ->). cbn [out knd]. rewrite Hc. destruct c; reflexivity.
  - intros t th H. destruct (Hn t th H) as (c & Hc & ->). reflexivity.
  - intros t1 t2 th1 th2 i _ H1 _ Hh _. destruct (Hn t1 th1 H1) as (c & _ & ->). discriminate.
  - intros i [].
  - intros t th i H Hp. destruct (Hn t th H) as (c & _ & ->). cbn [pc] in Hp. destruct Hp; discriminate.
  - intros t th H Hp. destruct (Hn t th H) as (c & _ & ->). cbn [pc] in Hp. lia.
Qed.

(* the other threads are untouched by a step of thread t *)
Ltac other_thread H t' t :=
  rewrite nth_upd in H; destruct (Nat.eqb_spec t' t) as [?E|?E]; [subst t'|].

Lemma pc_ok_mono g g' th : pc_ok g th -> gnext g <= gnext g' -> (forall i, held th = Some i -> ~ In i (gpool g) -> ~ In i (gpool g')) -> pc_ok g' th.
Proof.
  unfold pc_ok. intros H Hn Hp. destruct (pc th) as [|[|[|[|n]]]]; auto;
    destruct H as (i & Hh & Hlt & Hnp); exists i; (split; [exact Hh|split; [lia|apply (Hp i Hh Hnp)]]).
Qed.

Lemma inv_step calls g t choice : Inv calls g -> Inv calls (cstep g t choice).
Proof.
  intros I. unfold cstep. destruct (nth_error (threads g) t) as [th|] eqn:Et; [|exact I].
  pose proof (i_pc _ _ I t th Et) as Hpc. unfold pc_ok in Hpc.
  destruct (pc th) as [|[|[|[|n]]]] eqn:Epc; [| | | |exact I].
  - (* Get *)
    set (pooled := match choice with Some i => existsb (Nat.eqb i) (gpool g) | None => false end).
    set (i := match choice with Some i => if pooled then i else gnext g | None => gnext g end).
    assert (Hi : (pooled = true /\ In i (gpool g)) \/ (pooled = false /\ i = gnext g)).
    { unfold i, pooled. destruct choice as [c|]; [|right; auto]. destruct (existsb (Nat.eqb c) (gpool g)) eqn:Ex; [|right; auto].
      left. split; [reflexivity|]. apply existsb_exists in Ex. destruct Ex as (x & Hx & He). apply Nat.eqb_eq in He. subst x. exact Hx. }
    assert (Hilt : pooled = true -> i < gnext g) by (intros Hp; destruct Hi as [[_ Hin]|[Hf _]]; [apply (i_pool _ _ I); exact Hin|congruence]).
    constructor; cbn [threads gheap gpool gnext].
    + intros t' th' H. other_thread H t' t.
      * rewrite Et in H. cbn [option_map] in H. inversion H; subst th'. cbn [out knd]. exact (i_static _ _ I t th Et).
      * exact (i_static _ _ I t' th' H).
    + intros t' th' H. other_thread H t' t.
      * rewrite Et in H. cbn [option_map] in H. inversion H; subst th'. unfold pc_ok. cbn [pc held gnext gpool].
        exists i. split; [reflexivity|]. destruct Hi as [[Hp Hin]|[Hp ->]]; rewrite Hp.
        -- split; [apply (i_pool _ _ I); exact Hin|]. intros X. apply filter_In in X. destruct X as [_ X]. rewrite Nat.eqb_refl in X. discriminate.
        -- split; [lia|]. intros X. apply (i_pool _ _ I) in X. lia.
      * pose proof (i_pc _ _ I t' th' H) as Hp'. apply (pc_ok_mono g); [exact Hp'|cbn [gnext]; destruct pooled; lia|].
        cbn [gpool]. intros j _ Hnj. destruct pooled; [|exact Hnj]. intros X. apply filter_In in X. destruct X as [X _]. contradiction.
    + intros t1 t2 th1 th2 j Hne H1 H2 Hh1 Hh2.
      (* the new holder of i against the others: i was in the pool (so nobody held it) or is fresh *)
      assert (Hfree : forall t' th', t' <> t -> nth_error (threads g) t' = Some th' -> held th' = Some i -> False).
      { intros t' th' _ H' Hh'. pose proof (i_pc _ _ I t' th' H') as Hp'. unfold pc_ok in Hp'.
        destruct (pc th') as [|[|[|[|m]]]]; try congruence;
          destruct Hp' as (k & Hk & Hlt & Hnp); rewrite Hh' in Hk; inversion Hk; subst k;
          (destruct Hi as [[_ Hin]|[_ Heq]]; [contradiction|lia]). }
      other_thread H1 t1 t; other_thread H2 t2 t; try contradiction.
      * rewrite Et in H1. cbn [option_map] in H1. inversion H1; subst th1. cbn [held] in Hh1. inversion Hh1; subst j.
        exact (Hfree t2 th2 ltac:(auto) H2 Hh2).
      * rewrite Et in H2. cbn [option_map] in H2. inversion H2; subst th2. cbn [held] in Hh2. inversion Hh2; subst j.
        exact (Hfree t1 th1 ltac:(auto) H1 Hh1).
      * exact (i_excl _ _ I t1 t2 th1 th2 j Hne H1 H2 Hh1 Hh2).
    + intros j Hj. destruct pooled.
      * apply filter_In in Hj. destruct Hj as [Hj _]. apply (i_pool _ _ I); exact Hj.
      * pose proof (i_pool _ _ I j Hj). lia.
    + intros t' th' j H Hp Hh. other_thread H t' t.
      * rewrite Et in H. cbn [option_map] in H. inversion H; subst th'. cbn [pc] in Hp. destruct Hp; discriminate.
      * exact (i_heap _ _ I t' th' j H Hp Hh).
    + intros t' th' H Hp Hk. other_thread H t' t.
      * rewrite Et in H. cbn [option_map] in H. inversion H; subst th'. cbn [pc] in Hp. lia.
      * exact (i_ret _ _ I t' th' H Hp Hk).
  - (* Write *)
    destruct Hpc as (i & Hh & Hlt & Hnp). rewrite Hh.
    constructor; cbn [threads gheap gpool gnext].
    + intros t' th' H. other_thread H t' t.
      * rewrite Et in H. cbn [option_map] in H. inversion H; subst th'. cbn [out knd]. exact (i_static _ _ I t th Et).
      * exact (i_static _ _ I t' th' H).
    + intros t' th' H. other_thread H t' t.
      * rewrite Et in H. cbn [option_map] in H. inversion H; subst th'. unfold pc_ok. cbn [pc held]. exists i. auto.
      * exact (i_pc _ _ I t' th' H).
    + intros t1 t2 th1 th2 j Hne H1 H2 Hh1 Hh2.
      other_thread H1 t1 t; other_thread H2 t2 t; try contradiction.
      * rewrite Et in H1. cbn [option_map] in H1. inversion H1; subst th1. cbn [held] in Hh1.
        exact (i_excl _ _ I t t2 th th2 j Hne Et H2 Hh1 Hh2).
      * rewrite Et in H2. cbn [option_map] in H2. inversion H2; subst th2. cbn [held] in Hh2.
        exact (i_excl _ _ I t1 t th1 th j Hne H1 Et Hh1 Hh2).
      * exact (i_excl _ _ I t1 t2 th1 th2 j Hne H1 H2 Hh1 Hh2).
    + exact (i_pool _ _ I).
    + intros t' th' j H Hp Hhj. other_thread H t' t.
      * rewrite Et in H. cbn [option_map] in H. inversion H; subst th'. cbn [held out] in *. rewrite Hh in Hhj. inversion Hhj; subst j.
        apply hget_hset_same.
      * assert (j <> i) by (intros ->; exact (i_excl _ _ I t' t th' th i ltac:(auto) H Et Hhj Hh)).
        rewrite hget_hset_other by assumption. exact (i_heap _ _ I t' th' j H Hp Hhj).
    + intros t' th' H Hp Hk. other_thread H t' t.
      * rewrite Et in H. cbn [option_map] in H. inversion H; subst th'. cbn [pc] in Hp. lia.
      * exact (i_ret _ _ I t' th' H Hp Hk).
  - (* evaluate the result *)
    destruct Hpc as (i & Hh & Hlt & Hnp). rewrite Hh.
    pose proof (i_heap _ _ I t th i Et (or_introl Epc) Hh) as Hheap.
    constructor; cbn [threads gheap gpool gnext].
    + intros t' th' H. other_thread H t' t.
      * rewrite Et in H. cbn [option_map] in H. inversion H; subst th'. cbn [out knd]. exact (i_static _ _ I t th Et).
      * exact (i_static _ _ I t' th' H).
    + intros t' th' H. other_thread H t' t.
      * rewrite Et in H. cbn [option_map] in H. inversion H; subst th'. unfold pc_ok. cbn [pc held]. exists i. auto.
      * exact (i_pc _ _ I t' th' H).
    + intros t1 t2 th1 th2 j Hne H1 H2 Hh1 Hh2.
      other_thread H1 t1 t; other_thread H2 t2 t; try contradiction.
      * rewrite Et in H1. cbn [option_map] in H1. inversion H1; subst th1. cbn [held] in Hh1.
        exact (i_excl _ _ I t t2 th th2 j Hne Et H2 Hh1 Hh2).
      * rewrite Et in H2. cbn [option_map] in H2. inversion H2; subst th2. cbn [held] in Hh2.
        exact (i_excl _ _ I t1 t th1 th j Hne H1 Et Hh1 Hh2).
      * exact (i_excl _ _ I t1 t2 th1 th2 j Hne H1 H2 Hh1 Hh2).
    + exact (i_pool _ _ I).
    + intros t' th' j H Hp Hhj. other_thread H t' t.
      * rewrite Et in H. cbn [option_map] in H. inversion H; subst th'. cbn [held out] in *. rewrite Hh in Hhj. inversion Hhj; subst j. exact Hheap.
      * exact (i_heap _ _ I t' th' j H Hp Hhj).
    + intros t' th' H Hp Hk. other_thread H t' t.
      * rewrite Et in H. cbn [option_map] in H. inversion H; subst th'. cbn [knd ret out] in *. rewrite Hk, Hheap. reflexivity.
      * exact (i_ret _ _ I t' th' H Hp Hk).
  - (* Put *)
    destruct Hpc as (i & Hh & Hlt & Hnp). rewrite Hh.
    constructor; cbn [threads gheap gpool gnext].
    + intros t' th' H. other_thread H t' t.
      * rewrite Et in H. cbn [option_map] in H. inversion H; subst th'. cbn [out knd]. exact (i_static _ _ I t th Et).
      * exact (i_static _ _ I t' th' H).
    + intros t' th' H. other_thread H t' t.
      * rewrite Et in H. cbn [option_map] in H. inversion H; subst th'. reflexivity.
      * pose proof (i_pc _ _ I t' th' H) as Hp'. apply (pc_ok_mono g); [exact Hp'|cbn [gnext]; lia|].
        cbn [gpool]. intros j Hj Hnj [X|X]; [|contradiction]. subst j.
        exact (i_excl _ _ I t' t th' th i ltac:(auto) H Et Hj Hh).
    + intros t1 t2 th1 th2 j Hne H1 H2 Hh1 Hh2.
      other_thread H1 t1 t; other_thread H2 t2 t; try contradiction.
      * rewrite Et in H1. cbn [option_map] in H1. inversion H1; subst th1. discriminate.
      * rewrite Et in H2. cbn [option_map] in H2. inversion H2; subst th2. discriminate.
      * exact (i_excl _ _ I t1 t2 th1 th2 j Hne H1 H2 Hh1 Hh2).
    + intros j [<-|Hj]; [exact Hlt|apply (i_pool _ _ I); exact Hj].
    + intros t' th' j H Hp Hhj. other_thread H t' t.
      * rewrite Et in H. cbn [option_map] in H. inversion H; subst th'. discriminate.
      * exact (i_heap _ _ I t' th' j H Hp Hhj).
    + intros t' th' H Hp Hk. other_thread H t' t.
      * rewrite Et in H. cbn [option_map] in H. inversion H; subst th'. cbn [knd ret out pc] in *.
        exact (i_ret _ _ I t th Et ltac:(lia) Hk).
      * exact (i_ret _ _ I t' th' H Hp Hk).
Qed.

Theorem inv_run calls sched : Inv calls (crun (ginit calls) sched).
Proof.
  unfold crun. generalize (inv_init calls). generalize (ginit calls).
  induction sched as [|s r IH]; intros g I; cbn [fold_left]; [exact I|]. apply IH. apply inv_step. exact I.
Qed.

(* C11 for the pools: under EVERY schedule and EVERY choice of buffers by Get, a call that returns a copy and has
   evaluated its result holds exactly its own output - the sequential result *)
Theorem copy_calls_sequential calls sched t th c :
  nth_error (threads (crun (ginit calls) sched)) t = Some th -> nth_error calls t = Some c -> snd c = Copy -> 3 <= pc th ->
  final_value (crun (ginit calls) sched) t = Some (fst c).
Proof.
  intros Ht Hc Hk Hp. pose proof (inv_run calls sched) as I.
  pose proof (i_static _ _ I t th Ht) as Hs. rewrite Hc in Hs. inversion Hs; subst c. cbn [fst snd] in *.
  unfold final_value. rewrite Ht. rewrite (i_ret _ _ I t th Ht Hp Hk). reflexivity.
Qed.
(* no buffer is ever held by two goroutines, nor held and pooled at once *)
Theorem exclusive_ownership calls sched t1 t2 th1 th2 i : t1 <> t2 ->
  nth_error (threads (crun (ginit calls) sched)) t1 = Some th1 -> nth_error (threads (crun (ginit calls) sched)) t2 = Some th2 ->
  held th1 = Some i -> held th2 <> Some i /\ ~ In i (gpool (crun (ginit calls) sched)).
Proof.
  intros Hne H1 H2 Hh. pose proof (inv_run calls sched) as I. split.
  - intros Hh2. exact (i_excl _ _ I t1 t2 th1 th2 i Hne H1 H2 Hh Hh2).
  - pose proof (i_pc _ _ I t1 th1 H1) as Hp. unfold pc_ok in Hp.
    destruct (pc th1) as [|[|[|[|n]]]]; try congruence; destruct Hp as (k & Hk & _ & Hnp); rewrite Hh in Hk; inversion Hk; subst k; exact Hnp.
Qed.
