(* Concurrent use of the pools: every thread performs one call
     0: Get   1: Write out   2: evaluate the return value (copy or view)   3: Put   4: done
   and a schedule is any interleaving of these atomic steps.  Get hands out ANY buffer currently in the pool or a
   fresh one (the contract of sync.Pool).  ErrOnce.Do is modelled as one atomic step (the contract of sync.Once).
   No proofs. *)
From Coq Require Import List NArith Bool Arith.
From JS Require Import Model.Pools.
Import ListNotations.

Record thread := { pc : nat; held : option bufid; out : bytes; knd : kind; ret : option result }.
Record gstate := { gheap : list (bufid * bytes); gpool : list bufid; gnext : bufid; threads : list thread }.

Fixpoint upd_thread (ts : list thread) (t : nat) (f : thread -> thread) : list thread :=
  match ts, t with
  | x :: r, O => f x :: r
  | x :: r, S t' => x :: upd_thread r t' f
  | [], _ => []
  end.

(* one atomic step of thread t; choice only matters for Get *)
Definition cstep (g : gstate) (t : nat) (choice : option bufid) : gstate :=
  match nth_error (threads g) t with
  | None => g
  | Some th =>
    match pc th with
    | 0 =>
      let pooled := match choice with Some i => existsb (Nat.eqb i) (gpool g) | None => false end in
      let i := match choice with Some i => if pooled then i else gnext g | None => gnext g end in
      {| gheap := gheap g;
         gpool := if pooled then filter (fun j => negb (Nat.eqb i j)) (gpool g) else gpool g;
         gnext := if pooled then gnext g else S (gnext g);
         threads := upd_thread (threads g) t (fun x => {| pc := 1; held := Some i; out := out x; knd := knd x; ret := ret x |}) |}
    | 1 =>
      match held th with
      | Some i => {| gheap := hset (gheap g) i (out th); gpool := gpool g; gnext := gnext g;
                     threads := upd_thread (threads g) t (fun x => {| pc := 2; held := held x; out := out x; knd := knd x; ret := ret x |}) |}
      | None => g
      end
    | 2 =>
      match held th with
      | Some i =>
        let r := match knd th with
                 | Copy => RCopy (hget (gheap g) i)            (* append([]byte(nil), b.Bytes()...) reads the buffer now *)
                 | View => RView i (length (hget (gheap g) i))
                 end in
        {| gheap := gheap g; gpool := gpool g; gnext := gnext g;
           threads := upd_thread (threads g) t (fun x => {| pc := 3; held := held x; out := out x; knd := knd x; ret := Some r |}) |}
      | None => g
      end
    | 3 =>
      match held th with
      | Some i => {| gheap := gheap g; gpool := i :: gpool g; gnext := gnext g;
                     threads := upd_thread (threads g) t (fun x => {| pc := 4; held := None; out := out x; knd := knd x; ret := ret x |}) |}
      | None => g
      end
    | _ => g
    end
  end.
Definition crun (g : gstate) (sched : list (nat * option bufid)) : gstate :=
  fold_left (fun g s => cstep g (fst s) (snd s)) sched g.
Definition ginit (calls : list (bytes * kind)) : gstate :=
  {| gheap := []; gpool := []; gnext := 0;
     threads := map (fun c => {| pc := 0; held := None; out := fst c; knd := snd c; ret := None |}) calls |}.
(* what the caller of thread t reads from its result in the final state *)
Definition final_value (g : gstate) (t : nat) : option bytes :=
  match nth_error (threads g) t with
  | Some th => match ret th with
               | Some (RCopy b) => Some b
               | Some (RView i n) => Some (firstn n (hget (gheap g) i))
               | None => None
               end
  | None => None
  end.

(* sync.Once / ErrOnce: callers arrive in any order; Do is atomic *)
Record once (V : Type) := { odone : bool; oval : option V; oruns : nat }.
Arguments odone {V}. Arguments oval {V}. Arguments oruns {V}.
Definition once0 {V} : once V := {| odone := false; oval := None; oruns := 0 |}.
Definition once_do {V} (o : once V) (fn : unit -> V) : once V * option V :=
  if odone o then (o, oval o)
  else let v := fn tt in ({| odone := true; oval := Some v; oruns := S (oruns o) |}, Some v).
Fixpoint once_all {V} (o : once V) (callers : list (unit -> V)) : once V * list (option V) :=
  match callers with
  | [] => (o, [])
  | f :: r => let (o1, v) := once_do o f in let (o2, vs) := once_all o1 r in (o2, v :: vs)
  end.
