(* Model of process-wide buffer pools (internal/sync.BufferPool, sync.Pool) and of what a call hands out.
   heap : buffer id -> bytes;  pool : ids currently in the pool.  A call takes a buffer (any pooled one, or a
   fresh one - sync.Pool promises nothing else), writes its output into it, returns either a Copy of the
   bytes or a View (the buffer's own storage, what b.Bytes() is), and puts the buffer back (reset to empty).
   No proofs. *)
From Coq Require Import List NArith Bool.
Import ListNotations.

Definition bytes := list N.
Definition bufid := nat.
Record pstate := { heap : list (bufid * bytes); pool : list bufid; next : bufid }.
Definition p0 : pstate := {| heap := []; pool := []; next := 0 |}.

Fixpoint hget (h : list (bufid * bytes)) (i : bufid) : bytes :=
  match h with [] => [] | (j, b) :: r => if Nat.eqb i j then b else hget r i end.
Definition hset (h : list (bufid * bytes)) (i : bufid) (b : bytes) := (i, b) :: h.

Inductive kind := Copy | View.
Inductive result := RCopy (b : bytes) | RView (i : bufid) (n : nat).

(* what the caller reads through a result at a later time *)
Definition observe (s : pstate) (r : result) : bytes :=
  match r with RCopy b => b | RView i n => firstn n (hget (heap s) i) end.

(* one call of a pool-using function: choice = which pooled buffer Get hands out (None or an id not in the
   pool = a fresh buffer), out = the bytes the function produces, k = how the site returns them *)
Definition call (s : pstate) (choice : option bufid) (out : bytes) (k : kind) : pstate * result :=
  let '(i, s1) :=
    match choice with
    | Some i => if existsb (Nat.eqb i) (pool s)
                then (i, {| heap := heap s; pool := filter (fun j => negb (Nat.eqb i j)) (pool s); next := next s |})
                else (next s, {| heap := heap s; pool := pool s; next := S (next s) |})
    | None => (next s, {| heap := heap s; pool := pool s; next := S (next s) |})
    end in
  (* Put: Reset() truncates the buffer - the storage stays and is overwritten by the next user;
     modelled by leaving the bytes in place until the next write *)
  let s2 := {| heap := hset (heap s1) i out; pool := i :: pool s1; next := next s1 |} in
  (s2, match k with Copy => RCopy out | View => RView i (length out) end).

(* a history of calls; each keeps its result *)
Fixpoint run (s : pstate) (h : list (option bufid * bytes * kind)) : pstate * list result :=
  match h with
  | [] => (s, [])
  | (c, o, k) :: r => let (s1, x) := call s c o k in let (s2, xs) := run s1 r in (s2, x :: xs)
  end.

(* --- ownership: nested users of one pool (Example() builds nested objects/arrays, each level holding a buffer) ---
   sync.Pool keeps whatever is Put, duplicates included; Get removes one occurrence. *)
Inductive ev := EGet (choice : option bufid) | EPut (i : bufid).
Record ostate := { opool : list bufid; oheld : list bufid; onext : bufid }.
Definition o0 : ostate := {| opool := []; oheld := []; onext := 0 |}.
Fixpoint remove1 (i : bufid) (l : list bufid) : list bufid :=
  match l with [] => [] | j :: r => if Nat.eqb i j then r else j :: remove1 i r end.
Definition ostep (s : ostate) (e : ev) : ostate * option bufid :=
  match e with
  | EGet c =>
      match (match c with Some i => if existsb (Nat.eqb i) (opool s) then Some i else None | None => None end) with
      | Some i => ({| opool := remove1 i (opool s); oheld := i :: oheld s; onext := onext s |}, Some i)
      | None => ({| opool := opool s; oheld := onext s :: oheld s; onext := S (onext s) |}, Some (onext s))
      end
  | EPut i => ({| opool := i :: opool s; oheld := remove1 i (oheld s); onext := onext s |}, None)
  end.
(* a trace keeps the discipline when every Put gives back a buffer that is held at that moment (one Put per Get) *)
Fixpoint disciplined (s : ostate) (t : list ev) : bool :=
  match t with
  | [] => true
  | e :: r => (match e with EPut i => existsb (Nat.eqb i) (oheld s) | EGet _ => true end) && disciplined (fst (ostep s e)) r
  end.
Fixpoint orun (s : ostate) (t : list ev) : ostate := match t with [] => s | e :: r => orun (fst (ostep s e)) r end.
