(* Model of formats/json/scanner.go and formats/json/json.go (after the fix: commit for number tails).
   One "feed" = one iteration of the loop in Next() for one byte: the state function runs (seeing the
   stack as it is BEFORE its own events are applied), then the queued events are applied to the stack
   one by one and become lexemes.  No proofs here. *)
From Coq Require Import List ZArith NArith Bool.
From JS Require Import Base.Res Base.Lex.
Import ListNotations.
Local Open Scope Z_scope.

Definition bytes := list N.

Inductive jcls :=
| KBlank | KWs | KLBrace | KRBrace | KLBrack | KRBrack | KComma | KColon | KQuote | KBackslash
| KMinus | KPlus | KDot | KZero | KNz | Ke | KE | Kt | Kr | Ku | Kf | Ka | Kl | Ks | Kn | Kb
| KSlash | KHex | KCtl | KOther.
Definition jcls_of (c : N) : jcls :=
  match c with
  | 32 => KBlank
  | 9 | 10 | 13 => KWs          (* blank, and a control character inside strings *)
  | 123 => KLBrace | 125 => KRBrace | 91 => KLBrack | 93 => KRBrack | 44 => KComma | 58 => KColon
  | 34 => KQuote | 92 => KBackslash | 45 => KMinus | 43 => KPlus | 46 => KDot | 48 => KZero
  | 101 => Ke | 69 => KE | 116 => Kt | 114 => Kr | 117 => Ku | 102 => Kf | 97 => Ka | 108 => Kl
  | 115 => Ks | 110 => Kn | 98 => Kb | 47 => KSlash
  | _ => if (N.leb 49 c && N.leb c 57)%bool then KNz
         else if (N.eqb c 99 || N.eqb c 100 || (N.leb 65 c && N.leb c 70))%bool then KHex
         else if N.ltb c 32 then KCtl else KOther
  end%N.
Definition k_digit (k : jcls) : bool := match k with KZero | KNz => true | _ => false end.
Definition k_hex (k : jcls) : bool :=
  match k with KZero | KNz | Ka | Kb | Ke | KE | Kf | KHex => true | _ => false end.

Inductive jstep :=
| JRoot | JKeyOrEmpty | JKeyBegin | JValueBegin | JItemOrEmpty | JItemBegin
| JEndValue | JAfterKey | JAfterValue | JAfterItem | JEndTop
| JInString | JEsc | JEscU | JEscU1 | JEscU12 | JEscU123
| JNeg | J1 | J0 | JDot | JDot0 | JE | JESign | JE0
| JT | JTr | JTru | JF | JFa | JFal | JFals | JN | JNu | JNul.

Record jcfg := mk_jcfg {
  jstp : jstep; jret : list jstep; jstack : list (lext * Z);
  jindex : Z;            (* s.index: bytes consumed so far *)
  junf : bool; jallow : bool }.
Definition jcfg0 (allow : bool) := mk_jcfg JRoot [] [] 0 false allow.

(* what a state function decides: next step, unfinishedLiteral, returnToStep, queued events *)
Record sdec := mk_sdec { d_step : jstep; d_unf : bool; d_ret : list jstep; d_finds : list lext }.
Definition E_INVALID : N := 301.

Inductive bkind := BContinue | BObject | BArray | BLiteral.

Section Step.
  Variable c : jcfg.
  Variable k : jcls.
  Let keep (finds : list lext) := Ok (mk_sdec (jstp c) (junf c) (jret c) finds).
  Let go (s : jstep) (finds : list lext) := Ok (mk_sdec s (junf c) (jret c) finds).
  Let gou (s : jstep) (u : bool) (finds : list lext) := Ok (mk_sdec s u (jret c) finds).
  Let bad : res sdec := Err E_INVALID.

  (* stateBeginValue: kind, next step, unfinished flag *)
  Definition begin_value : res (bkind * jstep * bool) :=
    match k with
    | KBlank | KWs => Ok (BContinue, jstp c, junf c)
    | KLBrace => Ok (BObject, JKeyOrEmpty, junf c)
    | KLBrack => Ok (BArray, JItemOrEmpty, junf c)
    | KQuote => Ok (BLiteral, JInString, true)
    | KMinus => Ok (BLiteral, JNeg, true)
    | KZero => Ok (BLiteral, J0, junf c)
    | Kt => Ok (BLiteral, JT, true)
    | Kf => Ok (BLiteral, JF, true)
    | Kn => Ok (BLiteral, JN, true)
    | KNz => Ok (BLiteral, J1, junf c)
    | _ => Err E_INVALID
    end.
  Definition begun (prefix : list lext) : res sdec :=
    match begin_value with
    | Ok (BContinue, s, u) => gou s u []
    | Ok (BObject, s, u) => gou s u (prefix ++ [ObjectBegin])
    | Ok (BArray, s, u) => gou s u (prefix ++ [ArrayBegin])
    | Ok (BLiteral, s, u) => gou s u (prefix ++ [LiteralBegin])
    | Err e => Err e
    | Panic p => Panic p
    end.

  Definition end_top (finds : list lext) : res sdec :=
    match k with
    | KBlank | KWs => go JEndTop finds
    | _ => if jallow c then go JEndTop (finds ++ [EndTop]) else bad
    end.
  Definition found_object_end (finds : list lext) : res sdec := go JEndValue (finds ++ [ObjectEnd]).
  Definition found_array_end (finds : list lext) : res sdec :=
    match jstack c with
    | [] => go JEndTop (finds ++ [ArrayEnd])
    | _ => go JEndValue (finds ++ [ArrayEnd])
    end.
  Definition after_key (finds : list lext) : res sdec :=
    match k with
    | KBlank | KWs => go JAfterKey finds
    | KColon => go JValueBegin finds
    | _ => bad
    end.
  Definition after_value (finds : list lext) : res sdec :=
    match k with
    | KBlank | KWs => go JAfterValue finds
    | KComma => go JKeyBegin finds
    | KRBrace => found_object_end finds
    | _ => bad
    end.
  Definition after_item (finds : list lext) : res sdec :=
    match k with
    | KBlank | KWs => go JAfterItem finds
    | KComma => go JItemBegin finds
    | KRBrack => found_array_end finds
    | _ => bad
    end.
  (* stateEndValue *)
  Definition dispatch_end (t : lext) (finds : list lext) : res sdec :=
    match t with
    | ObjectKeyBegin => after_key (finds ++ [ObjectKeyEnd])
    | ObjectValueBegin => after_value (finds ++ [ObjectValueEnd])
    | ArrayItemBegin => after_item (finds ++ [ArrayItemEnd])
    | _ => bad
    end.
  Definition end_value : res sdec :=
    match jstack c with
    | [] => end_top []
    | (LiteralBegin, _) :: rest =>
      match rest with
      | [] => end_top [LiteralEnd]
      | (t2, _) :: _ => dispatch_end t2 [LiteralEnd]
      end
    | (t, _) :: _ => dispatch_end t []
    end.
  Definition begin_string (finds : list lext) : res sdec :=
    match k with KQuote => go JInString finds | _ => bad end.
  Definition state0 : res sdec :=
    match k with
    | KDot => gou JDot true []
    | Ke | KE => gou JE true []
    | _ => end_value
    end.
  Definition e_sign : res sdec := if k_digit k then gou JE0 false [] else bad.
  Definition expect (want : jcls -> bool) (s : jstep) : res sdec := if want k then go s [] else bad.
  Definition expect_done (want : jcls -> bool) : res sdec := if want k then gou JEndValue false [] else bad.

  Definition jstep_fn : res sdec :=
    match jstp c with
    | JRoot => begun []
    | JKeyOrEmpty =>
      match k with
      | KBlank | KWs => keep []
      | KRBrace => found_object_end []
      | _ => begin_string [ObjectKeyBegin]      (* found(ObjectKeyBegin) happens before the test *)
      end
    | JKeyBegin => match k with KBlank | KWs => keep [] | _ => begin_string [ObjectKeyBegin] end
    | JValueBegin => begun [ObjectValueBegin]
    | JItemOrEmpty => match k with KRBrack => found_array_end [] | _ => begun [ArrayItemBegin] end
    | JItemBegin => begun [ArrayItemBegin]
    | JEndValue => end_value
    | JAfterKey => after_key []
    | JAfterValue => after_value []
    | JAfterItem => after_item []
    | JEndTop => end_top []
    | JInString =>
      match k with
      | KQuote => gou JEndValue false []
      | KBackslash => go JEsc []
      | KCtl | KWs => bad
      | _ => keep []
      end
    | JEsc =>
      match k with
      | Kb | Kf | Kn | Kr | Kt | KBackslash | KSlash | KQuote => go JInString []
      | Ku => Ok (mk_sdec JEscU (junf c) (JInString :: jret c) [])
      | _ => bad
      end
    | JEscU => expect k_hex JEscU1
    | JEscU1 => expect k_hex JEscU12
    | JEscU12 => expect k_hex JEscU123
    | JEscU123 =>
      if k_hex k then
        match jret c with
        | s :: r => Ok (mk_sdec s (junf c) r [])
        | [] => Err 1                            (* Stack.Peek on an empty stack: ErrRuntimeFailure *)
        end
      else bad
    | JNeg =>
      match k with KZero => gou J0 false [] | KNz => gou J1 false [] | _ => bad end
    | J1 => if k_digit k then go J1 [] else state0
    | J0 => state0
    | JDot => if k_digit k then gou JDot0 false [] else bad
    | JDot0 => if k_digit k then keep [] else match k with Ke | KE => gou JE true [] | _ => end_value end
    | JE => match k with KPlus | KMinus => go JESign [] | _ => e_sign end
    | JESign => e_sign
    | JE0 => if k_digit k then keep [] else end_value
    | JT => expect (fun x => match x with Kr => true | _ => false end) JTr
    | JTr => expect (fun x => match x with Ku => true | _ => false end) JTru
    | JTru => expect_done (fun x => match x with Ke => true | _ => false end)
    | JF => expect (fun x => match x with Ka => true | _ => false end) JFa
    | JFa => expect (fun x => match x with Kl => true | _ => false end) JFal
    | JFal => expect (fun x => match x with Ks => true | _ => false end) JFals
    | JFals => expect_done (fun x => match x with Ke => true | _ => false end)
    | JN => expect (fun x => match x with Ku => true | _ => false end) JNu
    | JNu => expect (fun x => match x with Kl => true | _ => false end) JNul
    | JNul => expect_done (fun x => match x with Kl => true | _ => false end)
    end.
End Step.

(* processingFoundLexeme: i = index - 1 *)
Definition lexeme := (lext * Z * Z)%type.
Definition is_nonscalar_pair (p t : lext) : bool :=
  match p, t with ObjectBegin, ObjectEnd | ArrayBegin, ArrayEnd => true | _, _ => false end.
Definition is_scalar_pair (p t : lext) : bool :=
  match p, t with
  | LiteralBegin, LiteralEnd | ArrayItemBegin, ArrayItemEnd | ObjectKeyBegin, ObjectKeyEnd
  | ObjectValueBegin, ObjectValueEnd => true
  | _, _ => false
  end.
Definition apply_lex (stack : list (lext * Z)) (i : Z) (t : lext) : res (list (lext * Z) * lexeme) :=
  match t with
  | NewLine | EndTop => Ok (stack, (t, i, i))
  | _ =>
    if is_opening t then
      match t with
      | InlineAnnotationBegin | MultiLineAnnotationBegin => Ok ((t, i - 1) :: stack, (t, i - 1, i))
      | _ => Ok ((t, i) :: stack, (t, i, i))
      end
    else
      match stack with
      | [] => Err 1                               (* Pop on an empty stack *)
      | (p, b) :: rest =>
        if is_nonscalar_pair p t then Ok (rest, (t, b, i))
        else if is_scalar_pair p t then Ok (rest, (t, b, i - 1))
        else Err 306
      end
  end.
Fixpoint drain (stack : list (lext * Z)) (i : Z) (finds : list lext) : res (list (lext * Z) * list lexeme) :=
  match finds with
  | [] => Ok (stack, [])
  | t :: r =>
    do sl <- apply_lex stack i t;
    let '(st, lx) := sl in
    do rest <- drain st i r;
    let '(st', lxs) := rest in Ok (st', lx :: lxs)
  end.

(* one byte *)
Definition jfeed (c : jcfg) (b : N) : res (jcfg * list lexeme) :=
  let c1 := mk_jcfg (jstp c) (jret c) (jstack c) (jindex c + 1) (junf c) (jallow c) in
  do d <- jstep_fn c1 (jcls_of b);
  do sl <- drain (jstack c1) (jindex c1 - 1) (d_finds d);
  let '(st, lxs) := sl in
  Ok (mk_jcfg (d_step d) (d_ret d) st (jindex c1) (d_unf d) (jallow c), lxs).

(* the tail of Next() once the data is exhausted *)
Definition E_EOF : N := 303.
Fixpoint jeof (fuel : nat) (stack : list (lext * Z)) (index : Z) (unf : bool) : res (list lexeme) :=
  match fuel with
  | O => Panic OutOfFuel
  | S f =>
    match stack with
    | [] => Ok []
    | (LiteralBegin, _) :: _ =>
      if unf then Err E_EOF
      else do sl <- apply_lex stack index LiteralEnd;     (* index was incremented: i = index *)
           let '(st, lx) := sl in
           do r <- jeof f st (index + 1) unf; Ok (lx :: r)
    | (InlineAnnotationBegin, _) :: _ =>
      do sl <- apply_lex stack index InlineAnnotationEnd;
      let '(st, lx) := sl in do r <- jeof f st (index + 1) unf; Ok (lx :: r)
    | (InlineAnnotationTextBegin, _) :: _ =>
      do sl <- apply_lex stack index InlineAnnotationTextEnd;
      let '(st, lx) := sl in do r <- jeof f st (index + 1) unf; Ok (lx :: r)
    | _ => Err E_EOF
    end
  end.

(* the lexeme stream delivered through NextLexeme until io.EOF (EndTop stops it), or the error *)
Fixpoint jrun (c : jcfg) (l : bytes) (acc : list lexeme) : res (list lexeme) * Z :=
  match l with
  | [] =>
    match jeof (S (S (length (jstack c)))) (jstack c) (jindex c) (junf c) with
    | Ok ls => (Ok (acc ++ ls), jindex c)
    | Err e => (Err e, jindex c - 1)                       (* SetIndex(dataSize - 1) *)
    | Panic p => (Panic p, jindex c)
    end
  | b :: r =>
    match jfeed c b with
    | Ok (c', lxs) =>
      if existsb (fun x => lext_eqb (fst (fst x)) EndTop) lxs
      then (Ok (acc ++ lxs), jindex c')                     (* nextLexeme returns io.EOF with EndTop *)
      else jrun c' r (acc ++ lxs)
    | Err e => (Err e, jindex c)                            (* SetIndex(index - 1) after index++ *)
    | Panic p => (Panic p, jindex c)
    end
  end.
Definition jlexemes (allow : bool) (s : bytes) : res (list lexeme) * Z := jrun (jcfg0 allow) s [].

Definition not_end_top (x : lexeme) : bool := negb (lext_eqb (fst (fst x)) EndTop).
(* Document.Check: error 203 when no lexeme at all was produced *)
Definition jcheck (allow : bool) (s : bytes) : res unit * Z :=
  match jlexemes allow s with
  | (Ok ls, i) =>
    match filter not_end_top ls with
    | [] => (Err 203, -1)
    | _ => (Ok tt, i)
    end
  | (Err e, i) => (Err e, i)
  | (Panic p, i) => (Panic p, i)
  end.

(* scanner.Length *)
Definition is_blank (c : N) : bool := match c with 32 | 9 | 10 | 13 => true | _ => false end%N.
Fixpoint rtrim_len (rev_prefix : bytes) (n : Z) : Z :=
  match rev_prefix with
  | c :: r => if is_blank c then rtrim_len r (n - 1) else n
  | [] => n
  end.
Definition jlength (allow : bool) (s : bytes) : res Z :=
  match jlexemes allow s with
  | (Ok ls, _) =>
    let raw := match rev ls with
               | [] => 0
               | (t, _, e) :: _ => if lext_eqb t EndTop then e else e + 1
               end in
    Ok (rtrim_len (rev (firstn (Z.to_nat raw) s)) raw)
  | (Err e, _) => Err e
  | (Panic p, _) => Panic p
  end.
