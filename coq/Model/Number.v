(* Model of json/scanner.go + json/number.go + bytes.ParseUint/ParseInt (after the fix: commits).
   Bytes are N, Go ints are Z (with the int64 wrap written out where sums can overflow). No proofs. *)
From Coq Require Import List ZArith NArith Bool.
From JS Require Import Base.Res Spec.Decimal.
Import ListNotations.
Local Open Scope Z_scope.


Inductive ncls := CMinus | CPlus | CZero | CNz | CDot | CE | COther.
Definition ncls_of (c : N) : ncls :=
  if N.eqb c 45 then CMinus else if N.eqb c 43 then CPlus else if N.eqb c 48 then CZero
  else if (N.leb 49 c && N.leb c 57)%bool then CNz else if N.eqb c 46 then CDot
  else if (N.eqb c 101 || N.eqb c 69)%bool then CE else COther.

Inductive nstate := NStart | NMinus | NZero | NInt | NPoint | NFrac | NExp | NExpSign | NExpNum.
Record nsc := mk_nsc { nst : nstate; intLen : Z; fraLen : Z; expBegin : Z; finished : bool; negative : bool }.
Definition nsc0 := mk_nsc NStart 0 0 0 false false.

(* one iteration of the loop in Scan: s.index = i; s.finished = true; s.stateFn(c) *)
Definition set_eb (eb i : Z) : Z := if eb =? 0 then i else eb.
Definition nstep (s : nsc) (i : Z) (c : N) : option nsc :=
  let '(mk_nsc st il fl eb _ ng) := s in
  match st, ncls_of c with
  | NStart, CMinus => Some (mk_nsc NMinus il fl eb false true)
  | NStart, CZero => Some (mk_nsc NZero (il + 1) fl eb true ng)
  | NStart, CNz => Some (mk_nsc NInt (il + 1) fl eb true ng)
  | NMinus, CZero => Some (mk_nsc NZero (il + 1) fl eb true ng)
  | NMinus, CNz => Some (mk_nsc NInt (il + 1) fl eb true ng)
  | NZero, CDot => Some (mk_nsc NPoint il fl eb false ng)
  | NInt, (CZero | CNz) => Some (mk_nsc NInt (il + 1) fl eb true ng)
  | NInt, CDot => Some (mk_nsc NPoint il fl eb false ng)
  | NInt, CE => Some (mk_nsc NExp il fl eb false ng)
  | NPoint, (CZero | CNz) => Some (mk_nsc NFrac il (fl + 1) eb true ng)
  | NFrac, (CZero | CNz) => Some (mk_nsc NFrac il (fl + 1) eb true ng)
  | NFrac, CE => Some (mk_nsc NExp il fl eb false ng)
  | NExp, CPlus => Some (mk_nsc NExpSign il fl eb false ng)
  | NExp, CMinus => Some (mk_nsc NExpSign il fl (set_eb eb i) false ng)
  | NExp, (CZero | CNz) => Some (mk_nsc NExp il fl (set_eb eb i) true ng)
  | NExpSign, (CZero | CNz) => Some (mk_nsc NExpNum il fl (set_eb eb i) true ng)
  | NExpNum, (CZero | CNz) => Some (mk_nsc NExpNum il fl eb true ng)
  | _, _ => None
  end.

Fixpoint nrun (s : nsc) (i : Z) (l : bytes) : option nsc :=
  match l with
  | [] => Some s
  | c :: r => match nstep s i c with Some s' => nrun s' (i + 1) r | None => None end
  end.

(* bytes.ParseUint / ParseInt *)
Definition max_uint : Z := 2 ^ 64 - 1.
Definition max_int : Z := 2 ^ 63 - 1.
Fixpoint parse_uint_go (u : Z) (l : bytes) : res Z :=
  match l with
  | [] => Ok u
  | c :: r =>
    if is_digit c then
      let d := Z.of_N c - 48 in
      if u >? (max_uint - d) / 10 then Err 1704 else parse_uint_go (u * 10 + d) r
    else Err 1703
  end.
Definition parse_uint (l : bytes) : res Z :=
  match l with [] => Err 1702 | _ => parse_uint_go 0 l end.
Definition parse_int (l : bytes) : res Z :=
  match l with
  | [] => Panic IndexOutOfRange
  | c :: r =>
    let neg := N.eqb c 45 in
    do u <- (if neg then parse_uint r else parse_uint l);
    if u >? max_int then Err 1704 else Ok (if neg then - u else u)
  end.

(* Go int arithmetic: 64-bit two's complement *)
Definition wrap (z : Z) : Z := (z + 2 ^ 63) mod 2 ^ 64 - 2 ^ 63.

(* make([]byte, 0, n) *)
(* getNatural refuses to write more than max_cap digits (fix: commit for huge exponents) *)
Definition max_cap : Z := 2 ^ 24.
Definition make_bytes (n : Z) : res unit :=
  if (n <? 0) || (n >? max_cap) then Err 1711 else Ok tt.

Definition zeros (n : Z) : bytes := repeat 48%N (Z.to_nat n).
Fixpoint append_digits (from : bytes) : bytes :=
  match from with
  | [] => []
  | c :: r =>
    if (N.eqb c 45 || N.eqb c 46)%bool then append_digits r
    else if is_digit c then c :: append_digits r
    else []
  end.

Record number := mk_num { nneg : bool; nnat : bytes; nexp : Z }.

Fixpoint trim_lead (k : nat) (l : bytes) : bytes :=
  match k with
  | O => l
  | S k' => match l with
            | c :: r => if N.eqb c 48 then trim_lead k' r else l
            | [] => l
            end
  end.
(* on the reversed digit list *)
Fixpoint trim_trail_rev (e : nat) (l : bytes) : nat * bytes :=
  match e with
  | O => (O, l)
  | S e' => match l with
            | c :: r => if N.eqb c 48 then trim_trail_rev e' r else (e, l)
            | [] => (e, l)
            end
  end.

(* list reversal in linear time (List.rev is quadratic; numbers may have 2^24 digits) *)
Definition frev (l : bytes) : bytes := rev_append l [].

Definition normalise (neg : bool) (nat : bytes) (exp : Z) : res number :=
  (* trimLeadingZerosInTheIntegerPart *)
  if (exp <? 0) || (exp >? len nat) then Err 1711 else
  let nat1 := trim_lead (Z.to_nat (len nat - exp)) nat in
  (* trimTrailingZerosInTheFractionalPart *)
  if (exp <? 0) || (exp >? len nat1) then Err 1711 else
  let '(e2, r) := trim_trail_rev (Z.to_nat exp) (frev nat1) in
  let nat2 := frev r in
  Ok (mk_num (match nat2 with [] => false | _ => neg end) nat2 (Z.of_nat e2)).

Definition nscan (value : bytes) : res number :=
  match nrun nsc0 0 value with
  | None => Err 1705
  | Some s =>
    if negb (finished s) then Err 1705 else
    (* setExp *)
    do ie <- (if expBegin s =? 0 then Ok (intLen s, fraLen s)
              else do e <- parse_int (skipn (Z.to_nat (expBegin s)) value);
                   Ok (wrap (intLen s + e), wrap (fraLen s - e)));
    let '(il, fl) := ie in
    (* getNatural *)
    do natexp <-
      (if il <? 0 then
         do _ <- make_bytes fl; Ok (zeros (- il) ++ append_digits value, fl)
       else if fl <? 0 then
         do _ <- make_bytes il; Ok (append_digits value ++ zeros (- fl), 0)
       else
         do _ <- make_bytes (wrap (il + fl)); Ok (append_digits value, fl));
    let '(nat, exp) := natexp in
    normalise (negative s) nat exp
  end.

(* Number methods *)
Definition int_part (n : number) : bytes := firstn (Z.to_nat (len (nnat n) - nexp n)) (nnat n).
Definition fra_part (n : number) : bytes := skipn (Z.to_nat (len (nnat n) - nexp n)) (nnat n).
Definition frac_len (n : number) : Z := nexp n.

Fixpoint cmp_lex (x y : bytes) : Z :=
  match x, y with
  | a :: x', b :: y' => if N.ltb a b then -1 else if N.ltb b a then 1 else cmp_lex x' y'
  | _, _ => 0
  end.
Definition cmp_int (x y : bytes) : Z :=
  let xl := len x in let yl := len y in
  if negb (xl =? yl) || (xl =? 0) then (if xl <? yl then -1 else if xl >? yl then 1 else 0)
  else cmp_lex x y.
Fixpoint fra_vs_zero (x : bytes) : Z :=
  match x with
  | [] => 0
  | a :: x' => if dig a <? 0 then -1 else if dig a >? 0 then 1 else fra_vs_zero x'
  end.
Fixpoint zero_vs_fra (y : bytes) : Z :=
  match y with
  | [] => 0
  | b :: y' => if 0 <? dig b then -1 else if 0 >? dig b then 1 else zero_vs_fra y'
  end.
(* the loop runs to the longer length; the shorter side reads as digit 0 *)
Fixpoint cmp_fra (x y : bytes) : Z :=
  match x, y with
  | [], _ => zero_vs_fra y
  | _ :: _, [] => fra_vs_zero x
  | a :: x', b :: y' => if dig a <? dig b then -1 else if dig a >? dig b then 1 else cmp_fra x' y'
  end.
Definition cmp_abs (a b : number) : Z :=
  let c := cmp_int (int_part a) (int_part b) in
  if c =? 0 then cmp_fra (fra_part a) (fra_part b) else c.
Definition ncmp (a b : number) : Z :=
  if Bool.eqb (nneg a) (nneg b) then
    (if nneg a then - cmp_abs a b else cmp_abs a b)
  else if nneg a then -1 else 1.
Definition n_equal a b := ncmp a b =? 0.
Definition n_gt a b := ncmp a b =? 1.
Definition n_gte a b := (ncmp a b =? 1) || (ncmp a b =? 0).
Definition n_lt a b := ncmp a b =? -1.
Definition n_lte a b := (ncmp a b =? -1) || (ncmp a b =? 0).

Definition to_string (n : number) : bytes :=
  (if nneg n then [45%N] else []) ++
  (match int_part n with [] => [48%N] | i => i end) ++
  (match fra_part n with [] => [] | f => 46%N :: f end).
