(* Model for C08, scalar nodes in full: what the OpenAPI converter (openapi/internal/jsoac: primitive.go, null.go and the
   keyword constructors) emits for a literal node with its rules, and the meaning OpenAPI 3.0 / JSON Schema gives to
   those keywords on the VALUES the texts denote.  Formats and patterns are emitted too but carry no obligation here
   (formats are annotations; regular expressions are not modelled).  No proofs. *)
From Coq Require Import List ZArith NArith Bool.
From JS Require Import Base.Res Spec.Decimal Model.Number Model.EnumParse Model.RuleSem Model.OasSem.
Import ListNotations.
Local Open Scope Z_scope.

Record oasx := mk_oasx {
  x_type : option otype;
  x_min : option (bytes * bool); x_max : option (bytes * bool);
  x_minlen : option Z; x_maxlen : option Z;
  x_multiple : option Z;                 (* Some p: "multipleOf": 10^-p *)
  x_enum : option (list bytes);          (* the literals listed *)
  x_nullable : bool }.

Fixpoint first_minlen (rules : list rule) : option Z :=
  match rules with RMinLength n :: _ => Some n | _ :: r => first_minlen r | [] => None end.
Fixpoint first_maxlen (rules : list rule) : option Z :=
  match rules with RMaxLength n :: _ => Some n | _ :: r => first_maxlen r | [] => None end.
Fixpoint first_prec (rules : list rule) : option Z :=
  match rules with RPrecision p :: _ => Some p | _ :: r => first_prec r | [] => None end.
Fixpoint first_enum (rules : list rule) : option (list bytes) :=
  match rules with REnum items :: _ => Some items | _ :: r => first_enum r | [] => None end.
Definition has_const (rules : list rule) : bool := existsb (fun r => match r with RConst => true | _ => false end) rules.

(* internal.Int64RefByString: a length that does not fit an int64 is left out *)
Definition int64_opt (n : option Z) : option Z :=
  match n with Some z => if z <=? 2 ^ 63 - 1 then Some z else None | None => None end.
(* newMultipleOf: 10^-p as long as a float64 tells it from zero (p <= 308: math.Pow(10, p) is finite), written as the exact decimal 1e-p *)
Definition multiple_opt (p : option Z) : option Z :=
  match p with Some z => if z <=? 308 then Some z else None | None => None end.
(* newEnum: const wins (the node's own example), then a non-empty enum list, then [null] for the null type *)
Definition enum_of (k : jkind) (rules : list rule) (ex : bytes) : option (list bytes) :=
  if has_const rules then Some [ex]
  else match first_enum rules with
       | Some (i :: r) => Some (i :: r)
       | _ => match k with KNull => Some [w_null_lit] | _ => None end
       end.
(* oadTypeFromASTNode: "integer" from the schema type, otherwise from the token of the example; none for enum nodes *)
Definition type_of (k : jkind) (rules : list rule) (ex : bytes) : option otype :=
  if existsb is_enum rules then None
  else match k with
       | KInt => Some OInteger
       | _ => match lit_kind ex with
              | KInt | KFloat => Some ONumber | KStr => Some OString | KBool => Some OBoolean | KNull => None
              end
       end.

(* ex: the example written in the schema (astNode.Value) *)
Definition to_oasx (ex : bytes) (l : leaf) : oasx :=
  match l with
  | LAny => mk_oasx None None None None None None None false
  | Leaf k rules =>
    let nullable := existsb is_nullable rules in
    match lit_kind ex with
    | KNull =>        (* newNull: example, enum, nullable *)
      mk_oasx None None None None None None (enum_of k rules ex) nullable
    | _ =>
      mk_oasx (type_of k rules ex) (first_min rules) (first_max rules)
              (int64_opt (first_minlen rules)) (int64_opt (first_maxlen rules))
              (multiple_opt (first_prec rules)) (enum_of k rules ex) nullable
    end
  end.

(* ---- meaning of the keywords ---- *)
(* equality of JSON scalars: strings by their characters, numbers by their value, true/false/null as such *)
Definition jeq (a b : bytes) : Prop :=
  match lit_kind a, lit_kind b with
  | KStr, KStr => snd (key_of a) = snd (key_of b)
  | (KInt | KFloat), (KInt | KFloat) => deq (value_of a) (value_of b)
  | KBool, KBool | KNull, KNull => a = b
  | _, _ => False
  end.
Definition jx_len_ok (mn mx : option Z) (v : bytes) : Prop :=
  lit_kind v = KStr ->          (* the keywords apply to strings only *)
  (forall n, mn = Some n -> n <= str_chars v) /\ (forall n, mx = Some n -> str_chars v <= n).
Definition jx_multiple_ok (p : option Z) (v : bytes) : Prop :=
  match p with
  | None => True
  | Some p => is_number_lit v = true -> exists z : Z, deq (value_of v) (z, - p)      (* v = z * 10^-p *)
  end.
Definition jx_enum_ok (e : option (list bytes)) (v : bytes) : Prop :=
  match e with None => True | Some items => exists i, In i items /\ jeq v i end.
(* OpenAPI 3.0: nullable admits null next to whatever the other keywords say *)
Definition jx_valid (o : oasx) (v : bytes) : Prop :=
  (x_nullable o = true /\ v = w_null_lit) \/
  (js_type_ok (x_type o) v = true /\ js_min_ok (x_min o) v /\ js_max_ok (x_max o) v /\
   jx_len_ok (x_minlen o) (x_maxlen o) v /\ jx_multiple_ok (x_multiple o) v /\ jx_enum_ok (x_enum o) v).

(* newAnyOf: the alternative becomes a mock node whose token is that of the type NAME (so the type keyword follows the
   alternative, not the example); `const` lists the example of the node that carries the rule; the null type is a
   Null node (enum [null]); "object" and "array" are the empty closed object and the empty closed array *)
Definition alt_type (k : jkind) (rules : list rule) : option otype :=
  if existsb is_enum rules then None
  else match k with KInt => Some OInteger | KFloat => Some ONumber | KStr => Some OString | KBool => Some OBoolean | KNull => None end.
Definition to_oasx_alt (cex : bytes) (l : leaf) : oasx :=
  match l with
  | LAny => mk_oasx None None None None None None None false
  | Leaf KNull rules => mk_oasx None None None None None None (Some [w_null_lit]) (existsb is_nullable rules)
  | Leaf k rules =>
    mk_oasx (alt_type k rules) (first_min rules) (first_max rules)
            (int64_opt (first_minlen rules)) (int64_opt (first_maxlen rules))
            (multiple_opt (first_prec rules))
            (if has_const rules then Some [cex] else match first_enum rules with Some (i :: r) => Some (i :: r) | _ => None end)
            (existsb is_nullable rules)
  end.

