(* Model of notations/jschema/loader/compiler_all_of.go (after the fix: commit for additionalProperties).
   The Go code compiles every type once, in place; compilation is a function of the original definitions, so the
   model recomputes the compiled form of a type wherever it is used (same traversal order, same first error).
   No proofs. *)
From Coq Require Import List NArith Bool.
From JS Require Import Base.Res.
Import ListNotations.

Definition tname := N.
Definition key := N.
(* a property: key, optional flag, the type it was inherited from (0 = own), its value *)
Inductive tnode :=
| TLeaf                                            (* any non-object value *)
| TObj (props : list (key * bool * tname * tnode)) (allof : list tname) (ap : N).   (* ap: 0 = no additionalProperties rule *)
Definition tdefs := list (tname * tnode).

Fixpoint tlookup (t : tname) (d : tdefs) : option tnode :=
  match d with [] => None | (n, x) :: r => if N.eqb n t then Some x else tlookup t r end.
Fixpoint memn (t : N) (l : list N) : bool := match l with [] => false | x :: r => N.eqb x t || memn t r end.
Definition pkeys (ps : list (key * bool * tname * tnode)) : list key := map (fun p => fst (fst (fst p))) ps.

(* AddChild for every child of the inherited object: duplicate key -> 402 *)
Fixpoint add_children (from : tname) (cs : list (key * bool * tname * tnode)) (acc : list (key * bool * tname * tnode))
  : res (list (key * bool * tname * tnode)) :=
  match cs with
  | [] => Ok acc
  | (k, o, _, v) :: r => if memn k (pkeys acc) then Err 402 else add_children from r (acc ++ [(k, o, from, v)])
  end.

Definition prop := (key * bool * tname * tnode)%type.
(* additionalProperties of the heir (ap) and of the ancestor (cap): the ancestor's rule is adopted when the heir has
   none; two rules must be the same *)
Definition ap_join (ap cap : N) : res N :=
  if N.eqb cap 0 then Ok ap else if N.eqb ap 0 then Ok cap else if N.eqb ap cap then Ok ap else Err 705.

Section Compile.
  Variable defs : tdefs.
  (* extend(node, names): in the order of the rule; rec = "compile this type" (processType) *)
  Fixpoint each (rec : list tname -> tnode -> res tnode) (processing : list tname) (names : list tname)
                (acc : list prop) (ap : N) : res (list prop * N) :=
    match names with
    | [] => Ok (acc, ap)
    | name :: r =>
      if memn name processing then Err 703
      else match tlookup name defs with
           | None => Err 1302
           | Some t =>
             do ct <- rec (name :: processing) t;
             match ct with
             | TLeaf => Err 704
             | TObj cprops _ cap =>
               do ap' <- ap_join ap cap;
               do acc' <- add_children name cprops acc;
               each rec processing r acc' ap'
             end
           end
    end.
  (* then the children, inherited copies included *)
  Fixpoint kids (rec : tnode -> res tnode) (ps : list prop) : res (list prop) :=
    match ps with
    | [] => Ok []
    | (k, o, fr, v) :: r => do v' <- rec v; do r' <- kids rec r; Ok ((k, o, fr, v') :: r')
    end.
  Fixpoint cnode (fuel : nat) (processing : list tname) (n : tnode) : res tnode :=
    match fuel with
    | O => Panic OutOfFuel
    | S f =>
      match n with
      | TLeaf => Ok TLeaf
      | TObj props allof ap =>
        do ext <- each (cnode f) processing allof props ap;
        do props' <- kids (cnode f processing) (fst ext);
        Ok (TObj props' [] (snd ext))
      end
    end.

  (* CompileAllOf: the root, then every type in name order (first error wins) *)
  Fixpoint each_type (fuel : nat) (names : list tname) : res unit :=
    match names with
    | [] => Ok tt
    | t :: r => match tlookup t defs with
                | None => Err 1302
                | Some n => do _ <- cnode fuel [t] n; each_type fuel r
                end
    end.
  Definition compile_allof (fuel : nat) (root : tnode) (sorted_names : list tname) : res tnode :=
    do r <- cnode fuel [] root; do _ <- each_type fuel sorted_names; Ok r.
End Compile.
