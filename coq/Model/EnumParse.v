(* Model of rules/enum (scanner.go + enum.go, after the fix: commits for unclosed block comments, empty "//"
   annotations, empty text and a dangling "/"): which texts are accepted as an enum rule and which scalars
   Values() lists.  The code is a byte-by-byte state machine; the model is a lexer and a parser for the same
   language (tied to the code by correspondence on every text over a token alphabet up to a length bound and on
   random texts - verdict, values, kinds).  No proofs. *)
From Coq Require Import List NArith Bool.
From JS Require Import Base.Res Spec.JsonGrammar.
Import ListNotations.
Local Open Scope N_scope.

Inductive tok := TLB | TRB | TComma | TScalar (lit : bytes).

(* ---- scalars: string | number without exponent | true | false | null; returns (literal, rest) ---- *)
Fixpoint str_body (s : bytes) (acc : bytes) : option (bytes * bytes) :=    (* after the opening quote; acc reversed *)
  match s with
  | [] => None
  | c :: r =>
    if c =? 34 then Some (rev (34 :: acc), r)
    else if c =? 92 then
      match r with
      | e :: r1 =>
        if simple_escape e then str_body r1 (e :: 92 :: acc)
        else if e =? 117 then
          match r1 with
          | h1 :: h2 :: h3 :: h4 :: r2 =>
            if hexdigit h1 && hexdigit h2 && hexdigit h3 && hexdigit h4
            then str_body r2 (h4 :: h3 :: h2 :: h1 :: 117 :: 92 :: acc) else None
          | _ => None
          end
        else None
      | [] => None
      end
    else if 32 <=? c then str_body r (c :: acc) else None
  end.
Fixpoint take_digits (s : bytes) : bytes * bytes :=
  match s with
  | c :: r => if digit c then let (d, r') := take_digits r in (c :: d, r') else ([], s)
  | [] => ([], [])
  end.
Definition num_body (s : bytes) : option (bytes * bytes) :=    (* int [frac] *)
  match s with
  | c :: r =>
    let ir := if c =? 48 then Some ([48], r)
              else if digit19 c then let (d, r') := take_digits r in Some (c :: d, r') else None in
    match ir with
    | Some (i, r1) =>
      match r1 with
      | 46 :: r2 => let (d, r3) := take_digits r2 in
                    match d with [] => Some (i, r1) | _ => Some (i ++ 46 :: d, r3) end
      | _ => Some (i, r1)
      end
    | None => None
    end
  | [] => None
  end.
Fixpoint strip_prefix (p s : bytes) : option bytes :=
  match p, s with
  | [], _ => Some s
  | a :: p', b :: s' => if a =? b then strip_prefix p' s' else None
  | _, [] => None
  end.
Definition w_true := [116; 114; 117; 101].
Definition w_false := [102; 97; 108; 115; 101].
Definition w_null := [110; 117; 108; 108].
Definition scalar (s : bytes) : option (bytes * bytes) :=
  match s with
  | 34 :: r => str_body r [34]
  | 45 :: r => match num_body r with Some (n, r') => Some (45 :: n, r') | None => None end
  | c :: _ =>
    if digit c then num_body s
    else match strip_prefix w_true s with Some r => Some (w_true, r) | None =>
         match strip_prefix w_false s with Some r => Some (w_false, r) | None =>
         match strip_prefix w_null s with Some r => Some (w_null, r) | None => None end end end
  | [] => None
  end.

(* ---- annotations ---- *)
Definition is_nl (c : N) : bool := (c =? 10) || (c =? 13).
Fixpoint drop_line (s : bytes) : bytes :=           (* to just after the first newline *)
  match s with [] => [] | c :: r => if is_nl c then r else drop_line r end.
Fixpoint close_block (s : bytes) : option bytes :=  (* to just after the first "*/" *)
  match s with
  | 42 :: ((47 :: r) as _) => Some r
  | _ :: r => close_block r
  | [] => None
  end.

(* ---- lexer (after the opening bracket): blanks, newlines and annotations separate the tokens ---- *)
Fixpoint lex (fuel : nat) (s : bytes) : res (list tok) :=
  match fuel with
  | O => Panic OutOfFuel
  | S f =>
    match s with
    | [] => Ok []
    | c :: r =>
      if is_ws c then lex f r
      else if c =? 91 then Err 301       (* the scanner has no nested arrays: "[" is not a scalar *)
      else if c =? 93 then do t <- lex f r; Ok (TRB :: t)
      else if c =? 44 then do t <- lex f r; Ok (TComma :: t)
      else if c =? 47 then
        match r with
        | 47 :: r' => lex f (drop_line r')
        | 42 :: r' => match close_block r' with Some r'' => lex f r'' | None => Err 303 end
        | [] => Err 303
        | _ => Err 301
        end
      else match scalar s with
           | Some (lit, rest) => do t <- lex f rest; Ok (TScalar lit :: t)
           | None => Err 301
           end
    end
  end.

(* ---- parser: scalar (, scalar)* ] or ] ---- *)
Fixpoint items (ts : list tok) : res (list bytes) :=
  match ts with
  | TScalar l :: TRB :: [] => Ok [l]
  | TScalar l :: TComma :: r => do x <- items r; Ok (l :: x)
  | _ => Err 301
  end.
Definition body (ts : list tok) : res (list bytes) :=
  match ts with TRB :: [] => Ok [] | _ => items ts end.

(* ---- duplicates: strings by what they denote, other scalars by their text ---- *)
Definition hexval (c : N) : N := if digit c then c - 48 else if 97 <=? c then c - 87 else c - 55.
Definition is_cont (c : N) : bool := (128 <=? c) && (c <=? 191).
(* one UTF-8 sequence at the head of s -> (code point, rest); malformed -> U+FFFD, one byte consumed *)
Definition utf8_head (c : N) (r : bytes) : N * bytes :=
  let bad := (65533, r) in
  if c <? 128 then (c, r)
  else if (194 <=? c) && (c <=? 223) then
    match r with c1 :: r1 => if is_cont c1 then ((c - 192) * 64 + (c1 - 128), r1) else bad | _ => bad end
  else if (224 <=? c) && (c <=? 239) then
    match r with
    | c1 :: c2 :: r2 =>
      let lo := if c =? 224 then 160 else 128 in
      let hi := if c =? 237 then 159 else 191 in
      if (lo <=? c1) && (c1 <=? hi) && is_cont c2 then ((c - 224) * 4096 + (c1 - 128) * 64 + (c2 - 128), r2) else bad
    | _ => bad end
  else if (240 <=? c) && (c <=? 244) then
    match r with
    | c1 :: c2 :: c3 :: r3 =>
      let lo := if c =? 240 then 144 else 128 in
      let hi := if c =? 244 then 143 else 191 in
      if (lo <=? c1) && (c1 <=? hi) && is_cont c2 && is_cont c3
      then ((c - 240) * 262144 + (c1 - 128) * 4096 + (c2 - 128) * 64 + (c3 - 128), r3) else bad
    | _ => bad end
  else bad.
Definition u4 (h1 h2 h3 h4 : N) : N := ((hexval h1 * 16 + hexval h2) * 16 + hexval h3) * 16 + hexval h4.
(* the code points a string body denotes (encoding/json's unquote: surrogate pairs combined, lone ones -> U+FFFD) *)
Fixpoint decode (fuel : nat) (s : bytes) : list N :=
  match fuel with
  | O => []
  | S f =>
    match s with
    | [] => []
    | 92 :: 117 :: h1 :: h2 :: h3 :: h4 :: r =>
      let u := u4 h1 h2 h3 h4 in
      if (55296 <=? u) && (u <=? 56319) then
        match r with
        | 92 :: 117 :: g1 :: g2 :: g3 :: g4 :: r' =>
          let v := u4 g1 g2 g3 g4 in
          if (56320 <=? v) && (v <=? 57343) then (65536 + (u - 55296) * 1024 + (v - 56320)) :: decode f r'
          else 65533 :: decode f r
        | _ => 65533 :: decode f r
        end
      else if (56320 <=? u) && (u <=? 57343) then 65533 :: decode f r
      else u :: decode f r
    | 92 :: e :: r =>
      (match e with 98 => 8 | 102 => 12 | 110 => 10 | 114 => 13 | 116 => 9 | _ => e end) :: decode f r
    | c :: r => let (cp, r') := utf8_head c r in cp :: decode f r'
    end
  end.
Definition key := (bool * list N)%type.
Definition key_of (lit : bytes) : key :=
  match lit with
  | 34 :: r => (true, decode (S (length r)) (removelast r))
  | _ => (false, lit)
  end.
Fixpoint list_eqb (a b : list N) : bool :=
  match a, b with [], [] => true | x :: a', y :: b' => (x =? y) && list_eqb a' b' | _, _ => false end.
Definition key_eqb (a b : key) : bool := Bool.eqb (fst a) (fst b) && list_eqb (snd a) (snd b).
Fixpoint distinct (ks : list key) : bool :=
  match ks with [] => true | k :: r => negb (existsb (key_eqb k) r) && distinct r end.

Definition skip_ws := fix go (s : bytes) : bytes := match s with c :: r => if is_ws c then go r else s | [] => [] end.
(* Check()/Values(): the literals, in order *)
Definition eparse (s : bytes) : res (list bytes) :=
  match skip_ws s with
  | 91 :: r =>
    do ts <- lex (S (length r)) r;
    do lits <- body ts;
    if distinct (map key_of lits) then Ok lits else Err 810
  | _ => Err 1600
  end.
