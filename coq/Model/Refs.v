(* Model of notations/jschema/user_types_collector.go (after the fix: commit for rule-sets) and of where the
   compiler and the checker resolve type names.  A node keeps only what refers to types.  No proofs. *)
From Coq Require Import List NArith Bool.
From JS Require Import Base.Res Model.AllOf.
Import ListNotations.

(* an alternative of an `or` rule: "@t" or {type: "@t"} alone | a rule-set with other rules (its type may be a user type) *)
Inductive alt := AName (t : tname) | ASet (t : option tname).
Inductive rnode :=
| RLit (ty : option tname) (ors : list alt)                 (* a literal with `type: "@t"` and/or `or: [...]` *)
| RMix (names : list tname)                                 (* value `@a` or `@a | @b` *)
| RArr (items : list rnode)
| RObj (allof : list tname) (ap : option tname) (props : list (option tname * rnode)).   (* Some k = key shortcut @k *)

Definition add (acc : list tname) (t : tname) : list tname := if memn t acc then acc else acc ++ [t].
Definition add_opt (acc : list tname) (t : option tname) : list tname := match t with Some x => add acc x | None => acc end.
Definition alt_name (a : alt) : option tname := match a with AName t => Some t | ASet t => t end.

(* userTypesCollector.collect: types list (or), type, allOf; then additionalProperties, keys and children *)
Fixpoint collect (n : rnode) (acc : list tname) : list tname :=
  match n with
  | RLit ty ors => add_opt (fold_left (fun a x => add_opt a (alt_name x)) ors acc) ty
  | RMix names => fold_left add names acc
  | RArr items => (fix go (l : list rnode) (a : list tname) : list tname :=
                     match l with [] => a | c :: r => go r (collect c a) end) items acc
  | RObj allof ap props =>
      let a1 := add_opt (fold_left add allof acc) ap in
      (fix go (l : list (option tname * rnode)) (a : list tname) : list tname :=
         match l with [] => a | (k, c) :: r => go r (collect c (add_opt a k)) end) props a1
  end.
Definition used (root : rnode) : list tname := collect root [].

(* Check(): every name the root or a registered type refers to is resolved somewhere (compiler: allOf; checker: links,
   key shortcuts, additionalProperties, or alternatives); the first one that is not registered is reported (1302).
   The model keeps the set: the names that would be reported. *)
Definition rdefs := list (tname * rnode).
Definition registered (d : rdefs) (t : tname) : bool := memn t (map fst d).
Definition missing (d : rdefs) (root : rnode) : list tname :=
  filter (fun t => negb (registered d t)) (fold_left (fun a b => collect (snd b) a) d (used root)).
