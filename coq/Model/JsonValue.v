(* Model for C03: a plain JSON text as a JSight schema - the tree the loader builds, what Example() prints and what
   GetAST() reports.  Parser for RFC 8259 texts without exponent numbers (scalars as in Model/EnumParse.v), duplicate
   keys refused (by what the keys denote), Example() = compact text with the scalar literals verbatim and the keys
   encoded again from what they denote (encoding/json.Marshal of the decoded key).  No proofs. *)
From Coq Require Import List NArith Bool.
From JS Require Import Base.Res Spec.JsonGrammar Model.EnumParse.
Import ListNotations.
Local Open Scope N_scope.

Inductive jv :=
| JLit (lit : bytes)                        (* the literal's text *)
| JArr (items : list jv)
| JObj (members : list (bytes * jv)).       (* key: the key's text, quotes included *)

Definition skipws := skip_ws.
Fixpoint pvalue (fuel : nat) (s : bytes) : option (jv * bytes) :=
  match fuel with
  | O => None
  | S f =>
    match skipws s with
    | 91 :: r => match skipws r with
                 | 93 :: r' => Some (JArr [], r')
                 | _ => pitems f r []
                 end
    | 123 :: r => match skipws r with
                  | 125 :: r' => Some (JObj [], r')
                  | _ => pmembers f r []
                  end
    | s' => match scalar s' with Some (lit, rest) => Some (JLit lit, rest) | None => None end
    end
  end
with pitems (fuel : nat) (s : bytes) (acc : list jv) : option (jv * bytes) :=
  match fuel with
  | O => None
  | S f =>
    match pvalue f s with
    | Some (v, r) =>
      match skipws r with
      | 44 :: r' => pitems f r' (v :: acc)
      | 93 :: r' => Some (JArr (rev (v :: acc)), r')
      | _ => None
      end
    | None => None
    end
  end
with pmembers (fuel : nat) (s : bytes) (acc : list (bytes * jv)) : option (jv * bytes) :=
  match fuel with
  | O => None
  | S f =>
    match skipws s with
    | 34 :: r =>
      match str_body r [34] with
      | Some (k, r1) =>
        match skipws r1 with
        | 58 :: r2 =>
          match pvalue f r2 with
          | Some (v, r3) =>
            match skipws r3 with
            | 44 :: r4 => pmembers f r4 ((k, v) :: acc)
            | 125 :: r4 => Some (JObj (rev ((k, v) :: acc)), r4)
            | _ => None
            end
          | None => None
          end
        | _ => None
        end
      | None => None
      end
    | _ => None
    end
  end.

(* duplicate keys (by what they denote) anywhere in the tree *)
Fixpoint keys_ok (fuel : nat) (v : jv) : bool :=
  match fuel with
  | O => false
  | S f =>
    match v with
    | JLit _ => true
    | JArr items => forallb (keys_ok f) items
    | JObj ms => distinct (map (fun m => key_of (fst m)) ms) && forallb (fun m => keys_ok f (snd m)) ms
    end
  end.
Fixpoint depth (v : jv) : nat :=
  match v with
  | JLit _ => 1
  | JArr items => S (fold_right (fun x a => Nat.max (depth x) a) 0%nat items)
  | JObj ms => S (fold_right (fun m a => Nat.max (depth (snd m)) a) 0%nat ms)
  end.
Definition jparse (s : bytes) : option jv :=
  match pvalue (S (2 * length s)) s with
  | Some (v, r) => match skipws r with [] => if keys_ok (S (depth v)) v then Some v else None | _ => None end
  | None => None
  end.

(* ---- Example() ---- *)
Definition hexdig (n : N) : N := if n <? 10 then 48 + n else 87 + n.
Definition u_escape (c : N) : bytes := [92; 117; hexdig (c / 4096); hexdig ((c / 256) mod 16); hexdig ((c / 16) mod 16); hexdig (c mod 16)].
Definition utf8_enc (c : N) : bytes :=
  if c <? 128 then [c]
  else if c <? 2048 then [192 + c / 64; 128 + c mod 64]
  else if c <? 65536 then [224 + c / 4096; 128 + (c / 64) mod 64; 128 + c mod 64]
  else [240 + c / 262144; 128 + (c / 4096) mod 64; 128 + (c / 64) mod 64; 128 + c mod 64].
(* encoding/json's string encoder (HTML-safe mode, go 1.22+: \b and \f have short forms) *)
Definition go_escape_cp (c : N) : bytes :=
  if c =? 34 then [92; 34] else if c =? 92 then [92; 92]
  else if c =? 8 then [92; 98] else if c =? 12 then [92; 102]
  else if c =? 10 then [92; 110] else if c =? 13 then [92; 114] else if c =? 9 then [92; 116]
  else if c <? 32 then u_escape c
  else if (c =? 60) || (c =? 62) || (c =? 38) then u_escape c
  else if (c =? 8232) || (c =? 8233) then u_escape c
  else utf8_enc c.
Definition enc_key (k : bytes) : bytes :=       (* k: key text with quotes *)
  match k with
  | 34 :: r => 34 :: flat_map go_escape_cp (decode (S (length r)) (removelast r)) ++ [34]
  | _ => k
  end.
Fixpoint join_with (sep : bytes) (l : list bytes) : bytes :=
  match l with [] => [] | [x] => x | x :: r => x ++ sep ++ join_with sep r end.
Fixpoint example (v : jv) : bytes :=
  match v with
  | JLit l => l
  | JArr items => 91 :: join_with [44] (map example items) ++ [93]
  | JObj ms => 123 :: join_with [44] (map (fun m => enc_key (fst m) ++ 58 :: example (snd m)) ms) ++ [125]
  end.

(* ---- Len(): where the root value ends (plain JSON; whatever follows it is not looked at) ---- *)
Definition jlen (s : bytes) : option nat :=
  match pvalue (S (2 * length s)) s with
  | Some (_, r) => Some (length s - length r)%nat
  | None => None
  end.
