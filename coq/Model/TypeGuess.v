(* Model of type.go typeGuesser (after the fix: ordered predicates) and of json/guess.go. No proofs. *)
From Coq Require Import String List ZArith NArith Bool.
From JS Require Import Base.Wire Base.Res Spec.Decimal Model.Number.
Import ListNotations.

Fixpoint has_byte (p : N -> bool) (l : bytes) : bool :=
  match l with [] => false | c :: r => p c || has_byte p r end.
Definition dot_no_exp (b : bytes) : bool :=
  has_byte (N.eqb 46) b && negb (has_byte (fun c => N.eqb c 101 || N.eqb c 69) b).

Definition last_byte (b : bytes) : option N := match rev b with c :: _ => Some c | [] => None end.
Definition g_is_string (b : bytes) : bool :=
  match b with
  | c :: _ :: _ => N.eqb c 34 && match last_byte b with Some d => N.eqb d 34 | None => false end
  | _ => false
  end.
Definition g_is_boolean (b : bytes) : bool :=
  Wire.beqb b [116;114;117;101]%N || Wire.beqb b [102;97;108;115;101]%N.
Definition g_is_null (b : bytes) : bool := Wire.beqb b [110;117;108;108]%N.
Definition g_is_object (b : bytes) : bool := Wire.beqb b [123]%N.
Definition g_is_array (b : bytes) : bool := Wire.beqb b [91]%N.

(* isInteger / isFloat: NewNumber may panic on absurd exponents, and that panic is not recovered *)
Definition g_is_integer (b : bytes) : res bool :=
  if dot_no_exp b then Ok false
  else match nscan b with
       | Ok n => Ok (Z.eqb (frac_len n) 0)
       | Err _ => Ok false
       | Panic k => Panic k
       end.
Definition g_is_float (b : bytes) : res bool :=
  if dot_no_exp b then Ok true
  else match nscan b with
       | Ok n => Ok (negb (Z.eqb (frac_len n) 0))
       | Err _ => Ok false
       | Panic k => Panic k
       end.

Definition valid_name_byte (c : N) : bool :=
  N.eqb c 45 || N.eqb c 95 || (N.leb 97 c && N.leb c 122) || (N.leb 65 c && N.leb c 90) || is_digit c.
Definition g_is_shortcut (b : bytes) : bool :=
  match b with
  | c :: (_ :: _) as r => N.eqb c 64 && forallb valid_name_byte (tl b)
  | _ => false
  end.

(* schema.GuessSchemaType: the name of the schema type, or error 106 *)
Definition guess_schema (b : bytes) : res string :=
  if g_is_object b then Ok "object"%string
  else if g_is_array b then Ok "array"%string
  else if g_is_string b then Ok "string"%string
  else if g_is_boolean b then Ok "boolean"%string
  else if g_is_null b then Ok "null"%string
  else do i <- g_is_integer b;
       if i then Ok "integer"%string
       else do f <- g_is_float b;
            if f then Ok "float"%string else Err 106.

(* json.Guess(b).JsonType(): the String() of the json.Type, or the designed panic 105 *)
Definition guess_json (b : bytes) : res string :=
  if g_is_object b then Ok "object"%string
  else if g_is_array b then Ok "array"%string
  else if g_is_string b then Ok "string"%string
  else if g_is_boolean b then Ok "boolean"%string
  else if g_is_null b then Ok "null"%string
  else do i <- g_is_integer b;
       if i then Ok "integer"%string
       else do f <- g_is_float b;
            if f then Ok "float"%string
            else if g_is_shortcut b then Ok "mixed"%string else Err 105.
