(* Model for C08, whole schemas without references: the Schema Object the converter builds for a tree of literal, array
   and object nodes (openapi/internal/jsoac: node.go, primitive.go, array.go, array_items.go, object.go,
   object_properties.go, additional_properties.go), and the meaning of its keywords on JSON values.
   Outside the model: `or`, type references, key shortcuts, allOf, additionalProperties naming a user type.  No proofs. *)
From Coq Require Import List ZArith NArith Bool.
From JS Require Import Base.Res Spec.Decimal Model.Number Model.EnumParse Model.RuleSem Model.OasSem Model.OasLeaf.
Import ListNotations.
Local Open Scope Z_scope.

(* additionalProperties as written on an object (absent = false) *)
Inductive apmode := APFalse | APAny | APType (t : otype).

(* a schema: the example tree with the rules of every node; keys are the decoded key texts *)
Inductive snode :=
| SLeaf (ex : bytes) (l : leaf)
| SArr (items : list snode) (mn mx : option Z) (nullable : bool)
| SObj (members : list (bytes * (bool * snode))) (ap : apmode) (nullable : bool).     (* key, optional, value *)

Inductive otree :=
| OLeaf (o : oasx)
| OArr (items : list otree) (mn mx : option Z) (nullable : bool)      (* items: {} / the schema / anyOf of the schemas *)
| OObj (props : list (bytes * otree)) (required : list bytes) (ap : apmode) (nullable : bool).

Fixpoint to_otree (n : snode) : otree :=
  match n with
  | SLeaf ex l => OLeaf (to_oasx ex l)
  | SArr items mn mx nu =>
    OArr (map to_otree items) (int64_opt mn) (match items with [] => Some 0 | _ => int64_opt mx end) nu
  | SObj ms ap nu =>
    OObj (map (fun m => (fst m, to_otree (snd (snd m)))) ms)
         (map fst (filter (fun m => negb (fst (snd m))) ms)) ap nu
  end.

(* JSON values: scalars as their literal text *)
Inductive jval := JLit (lit : bytes) | JArr (items : list jval) | JObj (members : list (bytes * jval)).

Fixpoint example (n : snode) : jval :=
  match n with
  | SLeaf ex _ => JLit ex
  | SArr items _ _ _ => JArr (map example items)
  | SObj ms _ _ => JObj (map (fun m => (fst m, example (snd (snd m)))) ms)
  end.

Fixpoint plookup {A} (k : bytes) (l : list (bytes * A)) : option A :=
  match l with [] => None | (k', x) :: r => if list_eqb k' k then Some x else plookup k r end.

(* additionalProperties: false forbids, any admits everything, a type name asks for a value of that type *)
Definition ap_ok (ap : apmode) (v : jval) : Prop :=
  match ap with
  | APFalse => False
  | APAny => True
  | APType t => match v with JLit lit => js_type_ok (Some t) lit = true | _ => False end
  end.

(* validity of a JSON value against the Schema Object (OpenAPI 3.0: nullable admits null next to the rest) *)
Inductive tvalid : otree -> jval -> Prop :=
| tv_leaf o v : jx_valid o v -> tvalid (OLeaf o) (JLit v)
| tv_arr_null items mn mx : tvalid (OArr items mn mx true) (JLit w_null_lit)
| tv_obj_null props req ap : tvalid (OObj props req ap true) (JLit w_null_lit)
| tv_arr items mn mx nu vs :
    (forall m, mn = Some m -> m <= Z.of_nat (length vs)) -> (forall m, mx = Some m -> Z.of_nat (length vs) <= m) ->
    (forall v, In v vs -> items = [] \/ exists it, In it items /\ tvalid it v) ->
    tvalid (OArr items mn mx nu) (JArr vs)
| tv_obj props req ap nu ms :
    (forall k, In k req -> exists v, In (k, v) ms) ->
    (forall k v, In (k, v) ms -> (exists p, plookup k props = Some p /\ tvalid p v) \/ (plookup k props = None /\ ap_ok ap v)) ->
    tvalid (OObj props req ap nu) (JObj ms).

