(* Model for C08, whole schemas without references: the Schema Object the converter builds for a tree of literal, array
   and object nodes (openapi/internal/jsoac: node.go, primitive.go, array.go, array_items.go, object.go,
   object_properties.go, additional_properties.go), and the meaning of its keywords on JSON values.
   `or` over built-in types and rule-sets is modelled on scalar examples (or.go, ast_node.go).
   A value written as a type name (`@t`, possibly nullable) and additionalProperties naming a user type are references
   (ref.go): the converter emits {"$ref": ...}; what the reference means is given by the environment of registered
   types in Model/OasRef.v.  Outside the model: key shortcuts, allOf, `or` over type names.  No proofs. *)
From Coq Require Import List ZArith NArith Bool.
From JS Require Import Base.Res Spec.Decimal Model.Number Model.EnumParse Model.RuleSem Model.OasSem Model.OasLeaf.
Import ListNotations.
Local Open Scope Z_scope.

(* additionalProperties as written on an object (absent = false) *)
Inductive apmode := APFalse | APAny | APType (t : otype) | APNull | APArray | APObject | APFormat (f : bytes) | APRef (name : bytes).
(* the rule value written as a type name: any, enum and mixed relate to every type and leave the additional properties
   unconstrained; the string formats keep their name (datetime is spelled date-time) *)
Definition ap_of_name (n : bytes) : option apmode :=
  if beq_bytes n [97;110;121]%N || beq_bytes n [101;110;117;109]%N || beq_bytes n [109;105;120;101;100]%N then Some APAny
  else if beq_bytes n [115;116;114;105;110;103]%N then Some (APType OString)
  else if beq_bytes n [105;110;116;101;103;101;114]%N then Some (APType OInteger)
  else if beq_bytes n [102;108;111;97;116]%N || beq_bytes n [100;101;99;105;109;97;108]%N then Some (APType ONumber)
  else if beq_bytes n [98;111;111;108;101;97;110]%N then Some (APType OBoolean)
  else if beq_bytes n [110;117;108;108]%N then Some APNull
  else if beq_bytes n [97;114;114;97;121]%N then Some APArray
  else if beq_bytes n [111;98;106;101;99;116]%N then Some APObject
  else if beq_bytes n [101;109;97;105;108]%N || beq_bytes n [117;114;105]%N || beq_bytes n [117;117;105;100]%N || beq_bytes n [100;97;116;101]%N then Some (APFormat n)
  else if beq_bytes n [100;97;116;101;116;105;109;101]%N then Some (APFormat [100;97;116;101;45;116;105;109;101]%N)
  else match n with 64%N :: name => Some (APRef name) | _ => None end.            (* "@name" *)

(* an alternative of an `or` rule: a built-in scalar type with its rules (a bare name has none; `any`), or the names
   "object" / "array" *)
Inductive oralt := OALeaf (l : leaf) | OAObject | OAArray
| OARef (name : bytes) (nullable : bool).        (* a type name, bare or as {type: "@name", nullable: ..} *)

(* a schema: the example tree with the rules of every node; keys are the decoded key texts *)
Inductive snode :=
| SLeaf (ex : bytes) (l : leaf)
| SOr (ex : bytes) (alts : list oralt) (nullable : bool)              (* a scalar example with an `or` rule *)
| SArr (items : list snode) (mn mx : option Z) (nullable : bool)
| SObj (members : list (bytes * (bool * snode))) (ap : apmode) (nullable : bool)      (* key, optional, value *)
| SObjK (members : list (bytes * (bool * snode))) (shortcuts : list (bytes * (bool * snode))) (ap : apmode) (nullable : bool)
      (* an object with key shortcuts `@name: value` next to its ordinary members: type name of the key, optional, value *)
| SRef (name : bytes) (nullable : bool)                                (* the value is written as a type name: @name *)
| SChoice (names : list bytes) (nullable : bool)                       (* a type choice: @a | @b *)
| SRefLit (ex : bytes) (name : bytes) (nullable : bool).               (* a scalar example with the rule type: "@name" *)

Inductive otree :=
| OLeaf (o : oasx)
| OAnyOf (alts : list otree) (nullable : bool)
| OArr (items : list otree) (mn mx : option Z) (nullable : bool)      (* items: {} / the schema / anyOf of the schemas *)
| OObj (props : list (bytes * otree)) (required : list bytes) (ap : apmode) (nullable : bool)
| OObjK (props : list (bytes * otree)) (required : list bytes) (extra : list otree) (nullable : bool)
      (* additionalProperties: {"anyOf": extra} - what the rule names (if anything) and the values of the key shortcuts *)
| OAp (ap : apmode)                                      (* the schema additionalProperties carries for a type name, as an anyOf item *)
| ORef (name : bytes) (nullable : bool)                  (* {"$ref": "#/components/schemas/name"}, in allOf when nullable *)
| OChoice (names : list bytes) (nullable : bool).        (* {"anyOf": [{"$ref": ..}, ..]} of a type choice (no example) *)

Fixpoint to_otree (n : snode) : otree :=
  match n with
  | SLeaf ex l => OLeaf (to_oasx ex l)
  | SOr ex alts nu =>
    match lit_kind ex with
    | KNull => OLeaf (mk_oasx None None None None None None None nu)      (* a null example is a Null node: the `or` rule is not converted *)
    | _ =>
    OAnyOf (map (fun a => match a with
                          | OALeaf l => OLeaf (to_oasx_alt ex l)
                          | OAObject => OObj [] [] APFalse false
                          | OAArray => OArr [] None (Some 0) false
                          | OARef r rn => ORef r rn
                          end) alts) nu
    end
  | SArr items mn mx nu =>
    OArr (map to_otree items) (int64_opt mn) (match items with [] => Some 0 | _ => int64_opt mx end) nu
  | SObj ms ap nu =>
    OObj (map (fun m => (fst m, to_otree (snd (snd m)))) ms)
         (map fst (filter (fun m => negb (fst (snd m))) ms)) ap nu
  | SObjK ms ks ap nu =>
    let props := map (fun m => (fst m, to_otree (snd (snd m)))) ms in
    let req := map fst (filter (fun m => negb (fst (snd m))) ms) in
    match ap with
    | APAny => OObj props req APAny nu                    (* true / any / enum / mixed: nothing is said about the others *)
    | _ => OObjK props req ((match ap with APFalse => [] | _ => [OAp ap] end) ++
                            (* every child whose key text begins with @: the shortcuts, and ordinary members with such a quoted
                               key as well (additional_properties.go anyOfJSON tests the first byte of the key) *)
                            flat_map (fun m => match fst m with 64%N :: _ => [to_otree (snd (snd m))] | _ => [] end) ms ++
                            map (fun k => to_otree (snd (snd k))) ks) nu
    end
  | SRef name nu => ORef name nu
  | SChoice names nu => OChoice names nu
  | SRefLit _ name nu => ORef name nu          (* {"allOf": [{"$ref": ..}], "example": .., "nullable": ..} *)
  end.

(* JSON values: scalars as their literal text *)
Inductive jval := JLit (lit : bytes) | JArr (items : list jval) | JObj (members : list (bytes * jval)).

Fixpoint example (n : snode) : jval :=
  match n with
  | SLeaf ex _ => JLit ex
  | SOr ex _ _ => JLit ex
  | SArr items _ _ _ => JArr (map example items)
  | SObj ms _ _ => JObj (map (fun m => (fst m, example (snd (snd m)))) ms)
  | SObjK ms _ _ _ => JObj (map (fun m => (fst m, example (snd (snd m)))) ms)      (* the keys of the shortcuts need the registered types *)
  | SRef _ _ | SChoice _ _ => JLit w_null_lit         (* without the registered types a reference has no example: Model/OasRef.v example_e *)
  | SRefLit ex _ _ => JLit ex
  end.

Fixpoint plookup {A} (k : bytes) (l : list (bytes * A)) : option A :=
  match l with [] => None | (k', x) :: r => if list_eqb k' k then Some x else plookup k r end.

(* additionalProperties: false forbids, any admits everything, a type name asks for a value of that type *)
Definition ap_ok (ap : apmode) (v : jval) : Prop :=
  match ap with
  | APFalse => False
  | APAny => True
  | APType t => match v with JLit lit => js_type_ok (Some t) lit = true | _ => False end
  | APNull => v = JLit w_null_lit                                            (* {"enum": [null]} *)
  | APArray => match v with JArr _ => True | _ => False end                  (* {"type": "array", "items": {}} *)
  | APObject => v = JObj []                                                  (* an object without properties, none admitted *)
  | APFormat _ => match v with JLit lit => js_type_ok (Some OString) lit = true | _ => False end   (* format is an annotation *)
  | APRef _ => False                                                          (* no registered types here: Model/OasRef.v *)
  end.

(* validity of a JSON value against the Schema Object (OpenAPI 3.0: nullable admits null next to the rest) *)
Inductive tvalid : otree -> jval -> Prop :=
| tv_leaf o v : jx_valid o v -> tvalid (OLeaf o) (JLit v)
| tv_any_null alts : tvalid (OAnyOf alts true) (JLit w_null_lit)
| tv_any alts nu a v : In a alts -> tvalid a v -> tvalid (OAnyOf alts nu) v
| tv_arr_null items mn mx : tvalid (OArr items mn mx true) (JLit w_null_lit)
| tv_obj_null props req ap : tvalid (OObj props req ap true) (JLit w_null_lit)
| tv_arr items mn mx nu vs :
    (forall m, mn = Some m -> m <= Z.of_nat (length vs)) -> (forall m, mx = Some m -> Z.of_nat (length vs) <= m) ->
    (forall v, In v vs -> items = [] \/ exists it, In it items /\ tvalid it v) ->
    tvalid (OArr items mn mx nu) (JArr vs)
| tv_obj props req ap nu ms :
    (forall k, In k req -> exists v, In (k, v) ms) ->
    (forall k v, In (k, v) ms -> (exists p, plookup k props = Some p /\ tvalid p v) \/ (plookup k props = None /\ ap_ok ap v)) ->
    tvalid (OObj props req ap nu) (JObj ms).

