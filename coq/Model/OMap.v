(* Model of the generated ordered maps (rule_ast_nodes_gen.go, ast_nodes_gen.go,
   ischema/constraints_gen.go) and of the generated string set (string_set_gen.go).
   data : the Go map (association list, at most one entry per key, order irrelevant);
   order : the order slice.  No proofs here. *)
From Coq Require Import List NArith Bool.
From JS Require Import Spec.Dict.
Import ListNotations.
Local Open Scope N_scope.

Record omap := { data : list (K * V); order : list K }.
Definition empty : omap := {| data := []; order := [] |}.

(* Go map primitives *)
Fixpoint mget (k : K) (d : list (K * V)) : option V :=
  match d with
  | [] => None
  | (k', v) :: r => if k' =? k then Some v else mget k r
  end.
Definition mhas (k : K) d : bool := match mget k d with Some _ => true | None => false end.
Definition getd (k : K) d : V := match mget k d with Some v => v | None => 0 end. (* zero value *)
Fixpoint mput (k : K) (v : V) (d : list (K * V)) : list (K * V) :=
  match d with
  | [] => [(k, v)]
  | (k', v') :: r => if k' =? k then (k', v) :: r else (k', v') :: mput k v r
  end.
Definition mdel (k : K) (d : list (K * V)) := filter (fun kv => negb (fst kv =? k)) d.

(* delete(): "if !m.has(k) return; delete(m.data,k); for i,kk := range order { if kk==k { cut i; break } }" *)
Fixpoint cut_first (k : K) (l : list K) : list K :=
  match l with
  | [] => []
  | x :: r => if x =? k then r else x :: cut_first k r
  end.

Definition set_m (k : K) (v : V) (m : omap) : omap :=
  {| data := mput k v (data m);
     order := if mhas k (data m) then order m else order m ++ [k] |}.
Definition update_m (k : K) (f : V -> V) (m : omap) : omap :=
  if mhas k (data m) then {| data := mput k (f (getd k (data m))) (data m); order := order m |} else m.
Definition delete_m (k : K) (m : omap) : omap :=
  if mhas k (data m) then {| data := mdel k (data m); order := cut_first k (order m) |} else m.
(* Filter ranges over a copy of the order slice *)
Definition filter_m (f : K -> V -> bool) (m : omap) : omap :=
  fold_left (fun m k => if f k (getd k (data m)) then m else delete_m k m) (order m) m.
Fixpoint find_go (f : K -> V -> bool) (d : list (K * V)) (ks : list K) : option (K * V) :=
  match ks with
  | [] => None
  | k :: r => if f k (getd k d) then Some (k, getd k d) else find_go f d r
  end.
Definition find_m f (m : omap) := find_go f (data m) (order m).
Fixpoint each_go (f : K -> V -> option E) (d : list (K * V)) (ks : list K) : option E :=
  match ks with
  | [] => None
  | k :: r => match f k (getd k d) with Some e => Some e | None => each_go f d r end
  end.
Definition each_m f (m : omap) := each_go f (data m) (order m).
Fixpoint map_go (f : K -> V -> V + E) (d : list (K * V)) (ks : list K) : list (K * V) * option E :=
  match ks with
  | [] => (d, None)
  | k :: r => match f k (getd k d) with
              | inr e => (d, Some e)
              | inl v => map_go f (mput k v d) r
              end
  end.
Definition map_m f (m : omap) : omap * option E :=
  let (d, e) := map_go f (data m) (order m) in ({| data := d; order := order m |}, e).
Definition get_m k (m : omap) := mget k (data m).
Definition has_m k (m : omap) := mhas k (data m).
Definition len_m (m : omap) : nat := length (data m).
(* what Each/MarshalJSON walk over *)
Definition items_m (m : omap) : list (K * V) := map (fun k => (k, getd k (data m))) (order m).

(* MarshalJSON: '{' then for i,k: (',' if i != 0) key ':' value, then '}' ; the encoders are
   encoding/json's (parameters). *)
Section Marshal.
  Variable enc_key : K -> list N.
  Variable enc_val : V -> list N.
  Fixpoint marshal_go (first : bool) (its : list (K * V)) : list N :=
    match its with
    | [] => []
    | (k, v) :: r => (if first then [] else [44]) ++ enc_key k ++ [58] ++ enc_val v ++ marshal_go false r
    end.
  Definition marshal_m (m : omap) : list N := [123] ++ marshal_go true (items_m m) ++ [125].
  Definition marshal_d (d : dict) : list N := [123] ++ marshal_go true d ++ [125].
End Marshal.

(* histories *)
Inductive op :=
| OSet (k : K) (v : V) | OUpdate (k : K) (f : V -> V) | ODelete (k : K)
| OFilter (f : K -> V -> bool) | OMap (f : K -> V -> V + E)
| OFind (f : K -> V -> bool) | OEach (f : K -> V -> option E)
| OGet (k : K) | OHas (k : K) | OLen | OItems.
Inductive out :=
| RUnit | RVal (v : option V) | RBool (b : bool) | RNat (n : nat)
| RItem (i : option (K * V)) | RErr (e : option E) | RItems (l : list (K * V)).

Definition step_m (m : omap) (o : op) : omap * out :=
  match o with
  | OSet k v => (set_m k v m, RUnit)
  | OUpdate k f => (update_m k f m, RUnit)
  | ODelete k => (delete_m k m, RUnit)
  | OFilter f => (filter_m f m, RUnit)
  | OMap f => let (m', e) := map_m f m in (m', RErr e)
  | OFind f => (m, RItem (find_m f m))
  | OEach f => (m, RErr (each_m f m))
  | OGet k => (m, RVal (get_m k m))
  | OHas k => (m, RBool (has_m k m))
  | OLen => (m, RNat (len_m m))
  | OItems => (m, RItems (items_m m))
  end.
Definition step_d (d : dict) (o : op) : dict * out :=
  match o with
  | OSet k v => (dset k v d, RUnit)
  | OUpdate k f => (dupdate k f d, RUnit)
  | ODelete k => (ddelete k d, RUnit)
  | OFilter f => (dfilter f d, RUnit)
  | OMap f => let (d', e) := dmap f d in (d', RErr e)
  | OFind f => (d, RItem (dfind f d))
  | OEach f => (d, RErr (deach f d))
  | OGet k => (d, RVal (dget k d))
  | OHas k => (d, RBool (dhas k d))
  | OLen => (d, RNat (length d))
  | OItems => (d, RItems d)
  end.
Fixpoint run {S} (step : S -> op -> S * out) (s : S) (ops : list op) : list out :=
  match ops with
  | [] => []
  | o :: r => let (s', x) := step s o in x :: run step s' r
  end.
Definition run_m := run step_m empty.
Definition run_d := run step_d ([] : dict).

(* string set: NewStringSet(vv...), Add, Has, Len, Data *)
Record sset := { sdata : list K; sorder : list K }.
Definition shas_m k (s : sset) := memN k (sdata s).
Definition sadd_m k (s : sset) : sset :=
  {| sdata := if memN k (sdata s) then sdata s else k :: sdata s;
     sorder := if memN k (sdata s) then sorder s else sorder s ++ [k] |}.
Definition snew_m (l : list K) : sset := fold_left (fun s k => sadd_m k s) l {| sdata := []; sorder := [] |}.
Definition slen_m (s : sset) := length (sdata s).
