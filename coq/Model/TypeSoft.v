(* Soft equality, IsValidType and the token of a schema type, read off the tables regenerated from type.go
   (Gen/TypeTables.v).  Executable definitions only - the theorems about them are in Proofs/TypeProofs.v. *)
From Coq Require Import String List NArith ZArith Bool.
From JS Require Import Base.Res Spec.TypeVocab Model.TypeGuess Gen.TypeTables.
Import ListNotations.
Local Open Scope string_scope.

Fixpoint assoc {A} (k : string) (l : list (string * A)) : option A :=
  match l with [] => None | (x, v) :: r => if String.eqb x k then Some v else assoc k r end.

Definition soft (a b : string) : bool :=
  match assoc a soft_rows with Some row => smem b row | None => false end.
Definition is_valid_type (s : string) : bool := smem s valid_keys.
Definition token_of_stype (t : string) : string := match assoc t stype_token with Some x => x | None => "?" end.

