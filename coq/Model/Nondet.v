(* The shapes of the loops that range over a Go map (any iteration order), as functions of the visiting order. *)
From Coq Require Import List NArith Bool Permutation.
Import ListNotations.

Section Loops.
  Variables K R : Type.
  (* "return the first key whose test succeeds" (checkJsonType, baseNode.SchemaType, allowedConstraintCheck) *)
  Fixpoint first_match (f : K -> option R) (order : list K) : option R :=
    match order with [] => None | k :: r => match f k with Some x => Some x | None => first_match f r end end.
End Loops.
Arguments first_match {K R} f order.

(* a Go map as a lookup function; "for k := range m { target[k] = v }", "delete(m, k)", AddType(k, v) *)
Definition store := N -> option N.
Definition sset (s : store) (k v : N) : store := fun x => if N.eqb x k then Some v else s x.
Definition sdel (s : store) (k : N) : store := fun x => if N.eqb x k then None else s x.
Definition copy_all (src : list (N * N)) (order : list (N * N)) (dst : store) : store :=
  fold_left (fun d kv => sset d (fst kv) (snd kv)) order dst.
Definition delete_all (order : list N) (m : store) : store := fold_left sdel order m.
(* `if _, ok := g[key]; !ok { dst[key] = value }` for every entry, where the looked-up map g is dst itself
   (guard_is_dst) or another map that the loop does not write *)
Definition copy_missing_step (guard_is_dst : bool) (g : store) (d : store) (kv : N * N) : store :=
  match (if guard_is_dst then d else g) (fst kv) with None => sset d (fst kv) (snd kv) | Some _ => d end.
Definition copy_missing (guard_is_dst : bool) (g : store) (order : list (N * N)) (dst : store) : store :=
  fold_left (copy_missing_step guard_is_dst g) order dst.

(* "collect the keys, sort them, then walk the sorted slice" *)
Fixpoint insert (x : N) (l : list N) : list N :=
  match l with [] => [x] | y :: r => if N.leb x y then x :: l else y :: insert x r end.
Fixpoint isort (l : list N) : list N := match l with [] => [] | x :: r => insert x (isort r) end.
