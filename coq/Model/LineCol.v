(* Model of bytes.NewLineSymbol / LineAndColumn and of kit.JSchemaError's lineBeginning, lineEnd,
   SourceSubString, pointerToTheErrorCharacter.  No proofs. *)
From Coq Require Import List ZArith NArith Bool.
From JS Require Import Base.Res.
Import ListNotations.
Local Open Scope Z_scope.

Definition bytes := list N.
Definition is_nl (c : N) : bool := (N.eqb c 10 || N.eqb c 13)%bool.
Definition is_blank (c : N) : bool := (N.eqb c 32 || N.eqb c 9 || is_nl c)%bool.

(* NewLineSymbol: '\n' by default; otherwise the last byte of the first run of newline bytes *)
Fixpoint nl_scan (found : bool) (nl : N) (l : bytes) : N :=
  match l with
  | [] => nl
  | c :: r => if is_nl c then nl_scan true c r else if found then nl else nl_scan false nl r
  end.
Definition nl_symbol (s : bytes) : N := nl_scan false 10%N s.

(* LineAndColumn: (0,0) when the index is not inside the text *)
Fixpoint lc_scan (nl : N) (l : bytes) (line col : Z) : Z * Z :=
  match l with
  | [] => (line, col)
  | c :: r => if N.eqb c nl then lc_scan nl r (line + 1) 0 else lc_scan nl r line (col + 1)
  end.
Definition line_col (s : bytes) (i : Z) : Z * Z :=
  if (Z.of_nat (length s) =? 0) || (Z.of_nat (length s) <=? i) || (i <? 0) then (0, 0)
  else let (l, c) := lc_scan (nl_symbol s) (firstn (Z.to_nat i) s) 0 0 in (l + 1, c + 1).

Definition byte_at (s : bytes) (i : Z) : option N := if i <? 0 then None else nth_error s (Z.to_nat i).

(* lineBeginning: walk back from index; a newline at the index itself does not stop the walk *)
Fixpoint lb_walk (fuel : nat) (s : bytes) (nl : N) (index i : Z) : res Z :=
  match fuel with
  | O => Panic OutOfFuel
  | S f =>
    match byte_at s i with
    | None => Panic IndexOutOfRange
    | Some c =>
      if N.eqb c nl && negb (i =? index) then Ok (i + 1)
      else if i =? 0 then Ok 0 else lb_walk f s nl index (i - 1)
    end
  end.
Definition line_begin (s : bytes) (index : Z) : res Z :=
  if Z.of_nat (length s) <=? index then Ok 0 else lb_walk (S (Z.to_nat index)) s (nl_symbol s) index index.

Fixpoint le_walk (fuel : nat) (s : bytes) (nl : N) (i : Z) : res Z :=
  match fuel with
  | O => Panic OutOfFuel
  | S f =>
    if i <? Z.of_nat (length s) then
      match byte_at s i with
      | None => Panic IndexOutOfRange
      | Some c => if N.eqb c nl then Ok i else le_walk f s nl (i + 1)
      end
    else Ok i
  end.
Definition line_end (s : bytes) (index : Z) : res Z :=
  if Z.of_nat (length s) <=? index then Ok 0 else
  do i <- le_walk (S (length s)) s (nl_symbol s) index;
  if 0 <? i then
    match byte_at s (i - 1) with
    | None => Panic IndexOutOfRange
    | Some c =>
      let nl := nl_symbol s in
      if (N.eqb nl 10 && N.eqb c 13) || (N.eqb nl 13 && N.eqb c 10) then Ok (i - 1) else Ok i
    end
  else Ok i.

Fixpoint trim_left (l : bytes) : bytes :=
  match l with c :: r => if is_blank c then trim_left r else l | [] => [] end.
(* TrimSpacesFromLeft returns the receiver unchanged when every byte is blank *)
Definition trim_spaces_from_left (l : bytes) : bytes := match trim_left l with [] => l | t => t end.
Fixpoint count_left (l : bytes) (n : Z) : option Z :=
  match l with c :: r => if is_blank c then count_left r (n + 1) else Some n | [] => None end.
Definition count_spaces_from_left (l : bytes) : Z := match count_left l 0 with Some n => n | None => 0 end.

Definition sub (s : bytes) (b e : Z) : res bytes :=
  if (b <? 0) || (e <? b) || (Z.of_nat (length s) <? e) then Panic IndexOutOfRange
  else Ok (firstn (Z.to_nat (e - b)) (skipn (Z.to_nat b) s)).

(* SourceSubString (the 200-byte cut included) *)
Definition source_sub (s : bytes) (index : Z) : res bytes :=
  match s with
  | [] => Ok []
  | _ =>
    do b <- line_begin s index;
    do e <- line_end s index;
    if e - b >? 200 then
      do t <- sub s b (b + 200 - 3); Ok (trim_spaces_from_left t ++ [46; 46; 46]%N)
    else do t <- sub s b e; Ok (trim_spaces_from_left t)
  end.

(* pointerToTheErrorCharacter (after the fix: commit, a negative count is clamped to 0) *)
Definition pointer (s : bytes) (index : Z) : res bytes :=
  do b <- line_begin s index;
  do t <- (if (b <? 0) || (Z.of_nat (length s) <? b) then Panic IndexOutOfRange else Ok (skipn (Z.to_nat b) s));
  let n := index - b - count_spaces_from_left t in
  Ok (repeat 45%N (Z.to_nat (if n <? 0 then 0 else n)) ++ [94%N]).
