(* Model of notations/jschema/checker/check_recusrion.go (after the fix: commit) and of the example builder's
   recursion handling (notations/jschema/example.go, exampleBuilder).  A project is a root node plus type tables;
   every registered type has its own table (what was registered on that type's schema object).  No proofs. *)
From Coq Require Import List NArith Bool.
From JS Require Import Base.Res.
Import ListNotations.

Definition tname := N.
Inductive node :=
| NLit (opt nul : bool)                              (* literal / mixed node: never followed *)
| NArr (opt nul : bool) (items : list node)
| NObj (opt nul : bool) (props : list node)
| NRef (opt nul : bool) (names : list tname).        (* value `@a` or `@a | @b` *)
Inductive entry := Entry (root : node) (own : list (tname * entry)).
Definition table := list (tname * entry).

Fixpoint lookup (t : tname) (tb : table) : option entry :=
  match tb with [] => None | (n, e) :: r => if N.eqb n t then Some e else lookup t r end.
Definition skippable (n : node) : bool :=
  match n with NLit o u | NArr o u _ | NObj o u _ | NRef o u _ => o || u end.
Fixpoint memt (t : tname) (l : list tname) : bool := match l with [] => false | x :: r => N.eqb x t || memt t r end.

(* check: Ok true = ErrInfiniteRecursionDetected (code 104) *)
Section Check.
  Variable rootname : tname.
  Variable roott : table.
  Fixpoint chk (fuel : nat) (visited : list tname) (n : node) (cur : table) : res bool :=
    match fuel with
    | O => Panic OutOfFuel
    | S f =>
      if skippable n then Ok false else
      match n with
      | NLit _ _ | NArr _ _ _ => Ok false
      | NObj _ _ props =>
        (fix each (ps : list node) : res bool :=
           match ps with
           | [] => Ok false
           | p :: r => do e <- chk f visited p cur; if e then Ok true else each r
           end) props
      | NRef _ _ names =>
        (* an error only if there is at least one alternative and every alternative fails *)
        do errs <- (fix alts (ts : list tname) : res nat :=
                      match ts with
                      | [] => Ok 0
                      | t :: r =>
                        do e <- (if N.eqb t rootname then Ok true
                                 else if memt t visited then Ok false
                                 else match (match lookup t cur with Some x => Some x | None => lookup t roott end) with
                                      | None => Ok false
                                      | Some (Entry r own) => chk f (t :: visited) r own
                                      end);
                        do k <- alts r; Ok (if e then S k else k)
                      end) names;
        Ok (negb (Nat.eqb (length names) 0) && Nat.eqb errs (length names))
      end
    end.
End Check.
Definition rec_check (fuel : nat) (rootname : tname) (rootnode : node) (roott : table) : res bool :=
  chk rootname roott fuel [] rootnode roott.

(* exampleBuilder: the shape of the example (which members are written), Error for a missing type.
   processed: how many times each type is being expanded on the current path. *)
Inductive ex := XLit | XNull | XArr (items : list ex) | XObj (members : list ex).
Fixpoint count (t : tname) (l : list tname) : nat := match l with [] => 0 | x :: r => (if N.eqb x t then 1 else 0) + count t r end.
Section Example.
  Variable roott : table.
  Fixpoint build (fuel : nat) (processing : list tname) (n : node) : res (option ex) :=
    match fuel with
    | O => Panic OutOfFuel
    | S f =>
      match n with
      | NLit _ _ => Ok (Some XLit)
      | NArr _ _ items =>
        do xs <- (fix each (l : list node) : res (list ex) :=
                    match l with
                    | [] => Ok []
                    | p :: r => do x <- build f processing p; do xs <- each r;
                                Ok (match x with Some v => v :: xs | None => xs end)
                    end) items;
        Ok (Some (XArr xs))
      | NObj _ _ props =>
        do xs <- (fix each (l : list node) : res (list ex) :=
                    match l with
                    | [] => Ok []
                    | p :: r => do x <- build f processing p; do xs <- each r;
                                Ok (match x with Some v => v :: xs | None => xs end)
                    end) props;
        Ok (Some (XObj xs))
      | NRef _ nul names =>
        match names with
        | [] => Err 1302
        | _ =>
          (* the first alternative that is not being expanded twice already (after the fix: commit for recursive choices);
             a nullable reference that has to be left out to end the recursion is written as null *)
          do x <- (fix pick (ns : list tname) : res (option ex) :=
             match ns with
             | [] => Ok None
             | t :: r =>
               if Nat.ltb 1 (count t processing) then pick r
               else match lookup t roott with
                    | None => Err 1302
                    | Some (Entry rt _) => build f (t :: processing) rt
                    end
             end) names;
          Ok (match x with None => if nul then Some XNull else None | Some v => Some v end)
        end
      end
    end.
End Example.

(* the bytes the builder writes: '{' then for every written member (',' unless it is the first) key ':' value, '}' *)
Definition key_text : list N := [34; 107; 34]%N.      (* "k": the key's own text is C03's subject *)
Fixpoint render (x : ex) : list N :=
  match x with
  | XLit => [49%N]
  | XNull => [110; 117; 108; 108]%N
  | XArr l => [91%N] ++ (fix go (first : bool) (l : list ex) : list N :=
                           match l with
                           | [] => []
                           | m :: r => (if first then [] else [44%N]) ++ render m ++ go false r
                           end) true l ++ [93%N]
  | XObj l => [123%N] ++ (fix go (first : bool) (l : list ex) : list N :=
                            match l with
                            | [] => []
                            | m :: r => (if first then [] else [44%N]) ++ key_text ++ [58%N] ++ render m ++ go false r
                            end) true l ++ [125%N]
  end.
Fixpoint sz (n : node) : nat :=
  match n with
  | NLit _ _ | NRef _ _ _ => 1
  | NArr _ _ l | NObj _ _ l => S (fold_right (fun c a => sz c + a) 0 l)
  end.

(* the universe of type names and the largest root over the nested tables, and the fuel that is enough for the
   checker (Proofs/RecursionTermination.v: check_terminates) *)
Fixpoint e_names (e : entry) : list tname :=
  match e with
  | Entry _ own => (fix go (l : table) : list tname :=
                      match l with [] => [] | (n, e') :: r => n :: e_names e' ++ go r end) own
  end.
Fixpoint e_max (e : entry) : nat :=
  match e with
  | Entry r own => Nat.max (sz r) ((fix go (l : table) : nat :=
                                      match l with [] => 0 | (_, e') :: rest => Nat.max (e_max e') (go rest) end) own)
  end.
Fixpoint t_names (tb : table) : list tname := match tb with [] => [] | (n, e) :: r => n :: e_names e ++ t_names r end.
Fixpoint t_max (tb : table) : nat := match tb with [] => 0 | (_, e) :: r => Nat.max (e_max e) (t_max r) end.
Definition check_fuel (rootnode : node) (roott : table) : nat :=
  sz rootnode + length (nodup N.eq_dec (t_names roott)) * S (t_max roott).

