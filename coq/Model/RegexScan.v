(* Model of notations/regex/regex.go doCompile (after the fix: commit), Len, GetAST value and the OpenAPI
   pattern of openapi/internal/rsoac.  regexp.Compile is a parameter (re_ok).  No proofs. *)
From Coq Require Import List ZArith NArith Bool.
From JS Require Import Base.Res.
Import ListNotations.

Definition bytes := list N.

(* the loop over content[1:]: index of the closing '/' *)
Fixpoint find_close (escaped : bool) (l : bytes) (i : nat) : option nat :=
  match l with
  | [] => None
  | c :: r =>
    if N.eqb c 92 then find_close (negb escaped) r (S i)
    else if N.eqb c 47 then (if escaped then find_close false r (S i) else Some i)
    else find_close false r (S i)
  end.

Section Regex.
  Variable re_ok : bytes -> bool.          (* regexp.Compile(pattern) succeeds *)

  (* result: the pattern, or (code, index); index -1 = no position *)
  Definition rcompile (s : bytes) : res bytes * Z :=
    match s with
    | [] => (Err 202, (-1)%Z)
    | c :: r =>
      if negb (N.eqb c 47) then (Err 1500, 0%Z)
      else match find_close false r 0 with
           | None => (Err 1501, (Z.of_nat (length s) - 1)%Z)
           | Some i => let p := firstn i r in if re_ok p then (Ok p, 0%Z) else (Err 1502, 0%Z)
           end
    end.
End Regex.

(* candidate pattern before regexp.Compile is consulted *)
Definition rcandidate (s : bytes) : res bytes * Z := rcompile (fun _ => true) s.
Definition rlen (p : bytes) : Z := (Z.of_nat (length p) + 2)%Z.
Definition r_ast_value (p : bytes) : bytes := 47%N :: p ++ [47%N].
(* strings.TrimSuffix(v, "/") then strings.TrimPrefix(v, "/") *)
Definition trim_suffix_slash (v : bytes) : bytes :=
  match rev v with c :: r => if N.eqb c 47 then rev r else v | [] => v end.
Definition trim_prefix_slash (v : bytes) : bytes :=
  match v with c :: r => if N.eqb c 47 then r else v | [] => v end.
Definition r_openapi_pattern (v : bytes) : bytes := trim_prefix_slash (trim_suffix_slash v).
