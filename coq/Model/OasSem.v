(* Model for C08: what the OpenAPI converter emits for a scalar node with bound rules (openapi/internal/jsoac), and the
   meaning JSON Schema (draft-04 / OpenAPI 3.0) gives to those keywords.  No proofs. *)
From Coq Require Import List ZArith NArith Bool.
From JS Require Import Base.Res Spec.Decimal Model.Number Model.EnumParse Model.RuleSem.
Import ListNotations.

Inductive otype := OInteger | ONumber | OString | OBoolean.
Record oas := mk_oas { o_type : option otype; o_min : option (bytes * bool); o_max : option (bytes * bool) }.

Definition otype_of (k : jkind) : option otype :=
  match k with KInt => Some OInteger | KFloat => Some ONumber | KStr => Some OString | KBool => Some OBoolean | KNull => None end.
Fixpoint first_min (rules : list rule) : option (bytes * bool) :=
  match rules with RMin b e :: _ => Some (b, e) | _ :: r => first_min r | [] => None end.
Fixpoint first_max (rules : list rule) : option (bytes * bool) :=
  match rules with RMax b e :: _ => Some (b, e) | _ :: r => first_max r | [] => None end.
(* the conversion: type from the node's type, minimum / maximum with the exclusive flags, the bound's text verbatim *)
Definition to_oas (l : leaf) : oas :=
  match l with
  | Leaf k rules => mk_oas (otype_of k) (first_min rules) (first_max rules)
  | LAny => mk_oas None None None
  end.

(* JSON Schema: `type`, `minimum`/`exclusiveMinimum`, `maximum`/`exclusiveMaximum` on the VALUES the texts denote *)
Definition is_number_lit (v : bytes) : bool := match lit_kind v with KInt | KFloat => true | _ => false end.
Definition js_type_ok (t : option otype) (v : bytes) : bool :=
  match t with
  | None => true
  | Some OInteger => match lit_kind v with KInt => true | _ => false end
  | Some ONumber => is_number_lit v
  | Some OString => match lit_kind v with KStr => true | _ => false end
  | Some OBoolean => match lit_kind v with KBool => true | _ => false end
  end.
Definition js_min_ok (m : option (bytes * bool)) (v : bytes) : Prop :=
  match m with
  | None => True
  | Some (b, excl) => is_number_lit v = true ->          (* the keyword applies to numbers only *)
                      if excl then dcmp (value_of v) (value_of b) = Gt else dcmp (value_of v) (value_of b) <> Lt
  end.
Definition js_max_ok (m : option (bytes * bool)) (v : bytes) : Prop :=
  match m with
  | None => True
  | Some (b, excl) => is_number_lit v = true ->
                      if excl then dcmp (value_of v) (value_of b) = Lt else dcmp (value_of v) (value_of b) <> Gt
  end.
Definition js_valid (o : oas) (v : bytes) : Prop :=
  js_type_ok (o_type o) v = true /\ js_min_ok (o_min o) v /\ js_max_ok (o_max o) v.
