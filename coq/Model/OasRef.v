(* Model for C08, schemas with references: what a reference means given the registered types.
   types: the registered user types (name without @, the tree of the type's schema).  The converter turns every type
   into a component of the same name (its own conversion), a reference into {"$ref": "#/components/schemas/name"}.
   - tvalid_e: validity of a JSON value against a Schema Object whose $ref are resolved in the components;
   - example_e: Example() for schemas whose references are not recursive (the cut-off the builder applies to recursive
     types is modelled in Model/Recursion.v and is C06's subject; here running out of fuel gives None).
   No proofs. *)
From Coq Require Import List ZArith NArith Bool.
From JS Require Import Base.Res Spec.Decimal Model.Number Model.EnumParse Model.RuleSem Model.OasSem Model.OasLeaf Model.OasTree.
Import ListNotations.
Local Open Scope Z_scope.

Section Env.
Variable types : list (bytes * snode).
Definition comps : list (bytes * otree) := map (fun m => (fst m, to_otree (snd m))) types.

(* additionalProperties that do not name a type *)
Definition ap_plain (ap : apmode) : bool := match ap with APRef _ => false | _ => true end.

Inductive tvalid_e : otree -> jval -> Prop :=
| te_leaf o v : jx_valid o v -> tvalid_e (OLeaf o) (JLit v)
| te_empty nu v : tvalid_e (OLeaf (mk_oasx None None None None None None None nu)) v     (* a schema without keywords admits every value *)
| te_any_null alts : tvalid_e (OAnyOf alts true) (JLit w_null_lit)
| te_any alts nu a v : In a alts -> tvalid_e a v -> tvalid_e (OAnyOf alts nu) v
| te_arr_null items mn mx : tvalid_e (OArr items mn mx true) (JLit w_null_lit)
| te_obj_null props req ap : tvalid_e (OObj props req ap true) (JLit w_null_lit)
| te_ref_null n : tvalid_e (ORef n true) (JLit w_null_lit)
| te_ref n nu t v : plookup n comps = Some t -> tvalid_e t v -> tvalid_e (ORef n nu) v
| te_ap ap v : ap_ok ap v -> tvalid_e (OAp ap) v
| te_ap_ref n t v : plookup n comps = Some t -> tvalid_e t v -> tvalid_e (OAp (APRef n)) v
| te_objk_null props req extra : tvalid_e (OObjK props req extra true) (JLit w_null_lit)
| te_objk props req extra nu ms :
    (forall k, In k req -> exists v, In (k, v) ms) ->
    (forall k v, In (k, v) ms ->
       (exists p, plookup k props = Some p /\ tvalid_e p v) \/
       (plookup k props = None /\ exists it, In it extra /\ tvalid_e it v)) ->
    tvalid_e (OObjK props req extra nu) (JObj ms)
| te_choice_null names : tvalid_e (OChoice names true) (JLit w_null_lit)
| te_choice names nu n t v : In n names -> plookup n comps = Some t -> tvalid_e t v -> tvalid_e (OChoice names nu) v
| te_arr items mn mx nu vs :
    (forall m, mn = Some m -> m <= Z.of_nat (length vs)) -> (forall m, mx = Some m -> Z.of_nat (length vs) <= m) ->
    (forall v, In v vs -> items = [] \/ exists it, In it items /\ tvalid_e it v) ->
    tvalid_e (OArr items mn mx nu) (JArr vs)
| te_obj props req ap nu ms :
    (forall k, In k req -> exists v, In (k, v) ms) ->
    (forall k v, In (k, v) ms ->
       (exists p, plookup k props = Some p /\ tvalid_e p v) \/
       (plookup k props = None /\ ap_ok ap v) \/
       (plookup k props = None /\ exists n t, ap = APRef n /\ plookup n comps = Some t /\ tvalid_e t v)) ->
    tvalid_e (OObj props req ap nu) (JObj ms).

Fixpoint all_some {A} (l : list (option A)) : option (list A) :=
  match l with
  | [] => Some []
  | Some x :: r => match all_some r with Some xs => Some (x :: xs) | None => None end
  | None :: _ => None
  end.

Fixpoint example_e (fuel : nat) (n : snode) : option jval :=
  match fuel with
  | O => None
  | S f =>
    match n with
    | SLeaf ex _ => Some (JLit ex)
    | SOr ex _ _ => Some (JLit ex)
    | SArr items _ _ _ => option_map JArr (all_some (map (example_e f) items))
    | SObj ms _ _ => option_map JObj (all_some (map (fun m => option_map (fun v => (fst m, v)) (example_e f (snd (snd m)))) ms))
    | SObjK _ _ _ _ => None            (* the example needs the key of each shortcut: the example of a string type; judged by the validator *)
    | SRef r _ => match plookup r types with Some t => example_e f t | None => None end
    | SChoice names _ => match names with
                         | r :: _ => match plookup r types with Some t => example_e f t | None => None end      (* the first alternative *)
                         | [] => None
                         end
    | SRefLit ex _ _ => Some (JLit ex)
    end
  end.
End Env.
