(* Model of what Check() decides about example values (checker/check_schema.go checkLiteralNode + checkLinksOfNode,
   checker/list.go, checker/validate_literal_value.go, the Validate methods of the constraints), after the fix: commits
   of this area.  Texts in, verdict out: numbers are compared as the code compares them (Model/Number.v: nscan, ncmp on
   digit strings), strings are decoded as the code decodes them (Model/EnumParse.v: decode).  No proofs. *)
From Coq Require Import List ZArith NArith Bool.
From JS Require Import Base.Res Spec.JsonGrammar Model.AllOf Model.Number Model.EnumParse.
Import ListNotations.

Inductive jkind := KInt | KFloat | KStr | KBool | KNull.
Definition jkind_eqb (a b : jkind) : bool :=
  match a, b with KInt, KInt | KFloat, KFloat | KStr, KStr | KBool, KBool | KNull, KNull => true | _, _ => false end.
Definition has_dot (l : bytes) : bool := existsb (N.eqb 46) l.
(* json.Guess(value).LiteralJsonType() of a scalar literal *)
Definition lit_kind (lit : bytes) : jkind :=
  match lit with
  | 34%N :: _ => KStr
  | 116%N :: _ | 102%N :: _ => KBool
  | 110%N :: _ => KNull
  | _ => if has_dot lit then KFloat else KInt
  end.

Inductive rule :=
| RMin (b : bytes) (excl : bool) | RMax (b : bytes) (excl : bool)
| RPrecision (p : Z) | RMinLength (n : Z) | RMaxLength (n : Z)
| REnum (items : list bytes) | RNullable | RConst.
(* the rules of one literal node: its schema type (its own example's kind or the `type` rule) and rules; `any` *)
Inductive leaf := Leaf (k : jkind) (rules : list rule) | LAny.
Definition is_enum (r : rule) : bool := match r with REnum _ => true | _ => false end.
Definition is_nullable (r : rule) : bool := match r with RNullable => true | _ => false end.
Definition w_null_lit : bytes := [110; 117; 108; 108]%N.
Definition str_chars (lit : bytes) : Z :=      (* utf8.RuneCount of the unquoted string *)
  match lit with 34%N :: r => Z.of_nat (length (decode (S (length r)) (removelast r))) | _ => Z.of_nat (length lit) end.
Definition is_num_kind (k : jkind) : bool := match k with KInt | KFloat => true | _ => false end.

Definition is_kind_str (v : bytes) : bool := match lit_kind v with KStr => true | _ => false end.
(* one validator; own = the example of the type the rule belongs to (const) *)
Definition validate_rule (v : bytes) (own : option bytes) (r : rule) : bool :=
  match r with
  | RMin b excl =>
      match nscan v, nscan b with
      | Ok nv, Ok nb => if excl then negb (n_gte nb nv) else negb (n_gt nb nv)
      | _, _ => false end
  | RMax b excl =>
      match nscan v, nscan b with
      | Ok nv, Ok nb => if excl then negb (n_lte nb nv) else negb (n_lt nb nv)
      | _, _ => false end
  | RPrecision p => match nscan v with Ok nv => Z.leb (frac_len nv) p | _ => false end
  | RMinLength n => is_kind_str v && Z.leb n (str_chars v)
  | RMaxLength n => is_kind_str v && Z.leb (str_chars v) n
  | REnum items => existsb (key_eqb (key_of v)) (map key_of items)
  | RNullable => true
  | RConst => match own with Some o => key_eqb (key_of v) (key_of o) | None => true end
  end.
Definition beq_bytes (a b : bytes) : bool := list_eqb a b.
(* ValidateLiteralValue(node, value): json type, the nullable short cut, every validator *)
Definition validate (l : leaf) (own : option bytes) (v : bytes) : bool :=
  match l with
  | LAny => true
  | Leaf k rules =>
    let nullable := existsb is_nullable rules in
    let isnull := beq_bytes v w_null_lit in
    (existsb is_enum rules || (isnull && nullable) || jkind_eqb (lit_kind v) k)
    && ((nullable && isnull) || forallb (validate_rule v own) rules)
  end.

(* nodes: a literal with its own rules, or one that refers to types / rule-sets (type: "@t", or: [...]) *)
Inductive valt := VName (t : tname) | VSet (l : leaf).
Inductive vnode := VLeaf (l : leaf) | VRefs (alts : list valt)
| VArr (count : Z) (mn mx : option Z).          (* an array of `count` items with minItems / maxItems *)
Definition vtypes := list (tname * (bytes * vnode)).       (* name -> (the type's own example, its node) *)
Fixpoint vlookup (t : tname) (d : vtypes) : option (bytes * vnode) :=
  match d with [] => None | (n, x) :: r => if N.eqb n t then Some x else vlookup t r end.

(* checkerList: the rule-sets and the (transitively) named types that carry rules themselves; every name once *)
Fixpoint leaves (fuel : nat) (d : vtypes) (alts : list valt) (own : option bytes) (seen : list tname)
  : list (leaf * option bytes) * list tname :=       (* own: the example of the node that carries these alternatives *)
  match fuel with
  | O => ([], seen)
  | S f =>
    match alts with
    | [] => ([], seen)
    | VSet l :: r => let (ls, s') := leaves f d r own seen in ((l, own) :: ls, s')
    | VName t :: r =>
      if memn t seen then leaves f d r own seen
      else match vlookup t d with
           | None => leaves f d r own (t :: seen)
           | Some (ex, VLeaf l) => let (ls, s') := leaves f d r own (t :: seen) in ((l, Some ex) :: ls, s')
           | Some (ex, VRefs inner) =>
             let (l1, s1) := leaves f d inner (Some ex) (t :: seen) in
             let (l2, s2) := leaves f d r own s1 in (l1 ++ l2, s2)
           | Some (ex, VArr _ _ _) => leaves f d r own (t :: seen)
           end
    end
  end.
(* fuel for `leaves`: one unit per alternative looked at; every type is expanded once (Proofs/LeavesComplete.v) *)
Definition node_size (n : vnode) : nat := match n with VRefs inner => length inner | _ => 0 end.
Fixpoint weight (dd : vtypes) (seen : list tname) : nat :=
  match dd with
  | [] => 0
  | (t, (_, n)) :: r => (if memn t seen then 0 else S (node_size n)) + weight r seen
  end.
Definition proj_fuel (d : vtypes) (root : bytes * vnode) : nat := S (node_size (snd root) + 2 * weight d []).

(* checkLinksOfNode: the example's json type must be among the types of the alternatives (null for a nullable one) *)
Definition kind_allowed (v : bytes) (lo : leaf * option bytes) : bool :=
  match fst lo with
  | LAny => true
  | Leaf k rules => existsb is_enum rules || jkind_eqb (lit_kind v) k || (existsb is_nullable rules && jkind_eqb (lit_kind v) KNull)
  end.
Definition check_value (fuel : nat) (d : vtypes) (n : vnode) (v : bytes) : bool :=
  match n with
  | VLeaf l => validate l None v
  | VRefs alts =>
    let ls := fst (leaves fuel d alts (Some v) []) in
    existsb (kind_allowed v) ls && existsb (fun lo => validate (fst lo) (snd lo) v) ls
  | VArr count mn mx =>
    match mn with Some m => Z.leb m count | None => true end && match mx with Some m => Z.leb count m | None => true end
  end.
(* Check(): the root's example against the root's rules, and the example of every registered type against its own *)
Definition check_project (fuel : nat) (d : vtypes) (root : bytes * vnode) : bool :=
  check_value fuel d (snd root) (fst root) && forallb (fun tx => check_value fuel d (snd (snd tx)) (fst (snd tx))) d.
