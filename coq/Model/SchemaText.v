(* Model for C04 / C14: the JSight schema text as a token stream and the tree GetAST() reports.
   Lexer: blanks and newlines separate tokens; `# ...` to the end of the line and `### ... ###` are user comments;
   `// ...` to the end of the line and `/* ... */` are annotations: an optional rule object `{name: value, ...}` (names
   bare or quoted, values scalars, lists or objects), then an optional note after `-` (without rules the whole text is
   the note).  Parser: JSON structure with `@name` / `@a | @b` values and `@name` keys; an annotation belongs to the
   node whose token it follows (the value before it - also across the comma -, or the bracket that opens a container).
   Placements outside that (after a closing bracket, before the first value, on a line of its own) are not modelled:
   the parser refuses them.  Tied to the code by correspondence on the AST dump.  No proofs. *)
From Coq Require Import List NArith Bool.
From JS Require Import Base.Res Spec.JsonGrammar Model.EnumParse.
Import ListNotations.
Local Open Scope N_scope.

Inductive rval := RScal (lit : bytes) | RList (items : list rval) | RObj (members : list (bytes * rval)).
Record ann := mk_ann { a_rules : list (bytes * rval); a_note : bytes }.
Inductive stok :=
| KLB | KRB | KLS | KRS | KComma | KColon          (* { } [ ] , : *)
| KScal (lit : bytes)
| KRef (names : list bytes)                        (* @a  /  @a | @b  : the names with their @ *)
| KAnn (a : ann).

(* ---- helpers on bytes ---- *)
Definition is_blank (c : N) : bool := is_ws c.
Definition name_byte (c : N) : bool :=
  (c =? 45) || (c =? 95) || ((97 <=? c) && (c <=? 122)) || ((65 <=? c) && (c <=? 90)) || digit c.
Fixpoint take_while (p : N -> bool) (s : bytes) : bytes * bytes :=
  match s with c :: r => if p c then let (a, b) := take_while p r in (c :: a, b) else ([], s) | [] => ([], []) end.
Fixpoint trim_left (s : bytes) : bytes := match s with c :: r => if is_blank c then trim_left r else s | [] => [] end.
Definition trim (s : bytes) : bytes := rev (trim_left (rev (trim_left s))).
(* up to the end of the line (the newline stays in the rest) *)
Fixpoint take_line (s : bytes) : bytes * bytes :=
  match s with c :: r => if is_nl c then ([], s) else let (a, b) := take_line r in (c :: a, b) | [] => ([], []) end.
(* up to the first occurrence of a two-byte marker x y; None when there is none *)
Fixpoint take_until2 (x y : N) (s : bytes) : option (bytes * bytes) :=
  match s with
  | a :: ((b :: r) as t) => if (a =? x) && (b =? y) then Some ([], r)
                            else match take_until2 x y t with Some (u, v) => Some (a :: u, v) | None => None end
  | _ => None
  end.
Fixpoint take_until3 (x : N) (s : bytes) : option (bytes * bytes) :=      (* up to "xxx" *)
  match s with
  | a :: ((b :: c :: r) as t) => if (a =? x) && (b =? x) && (c =? x) then Some ([], r)
                                 else match take_until3 x t with Some (u, v) => Some (a :: u, v) | None => None end
  | _ => None
  end.

(* ---- the rule object of an annotation ---- *)
Fixpoint prval (fuel : nat) (s : bytes) : option (rval * bytes) :=
  match fuel with
  | O => None
  | S f =>
    match trim_left s with
    | 91 :: r => match trim_left r with
                 | 93 :: r' => Some (RList [], r')
                 | _ => pritems f r []
                 end
    | 123 :: r => match trim_left r with
                  | 125 :: r' => Some (RObj [], r')
                  | _ => prmembers f r []
                  end
    | 64 :: r => let (nm, r') := take_while name_byte r in Some (RScal (64 :: nm), r')      (* enum: @name *)
    | s' => match scalar s' with Some (lit, rest) => Some (RScal lit, rest) | None => None end
    end
  end
with pritems (fuel : nat) (s : bytes) (acc : list rval) : option (rval * bytes) :=
  match fuel with
  | O => None
  | S f =>
    match prval f s with
    | Some (v, r) =>
      match trim_left r with
      | 44 :: r' => pritems f r' (v :: acc)
      | 93 :: r' => Some (RList (rev (v :: acc)), r')
      | _ => None
      end
    | None => None
    end
  end
with prmembers (fuel : nat) (s : bytes) (acc : list (bytes * rval)) : option (rval * bytes) :=
  match fuel with
  | O => None
  | S f =>
    let s0 := trim_left s in
    let key := match s0 with
               | 34 :: r => match str_body r [34] with
                            | Some (k, r1) => Some (removelast (tl k), r1)       (* quoted name: without the quotes *)
                            | None => None end
               | _ => let (nm, r1) := take_while name_byte s0 in match nm with [] => None | _ => Some (nm, r1) end
               end in
    match key with
    | Some (k, r1) =>
      match trim_left r1 with
      | 58 :: r2 =>
        match prval f r2 with
        | Some (v, r3) =>
          match trim_left r3 with
          | 44 :: r4 => prmembers f r4 ((k, v) :: acc)
          | 125 :: r4 => Some (RObj (rev ((k, v) :: acc)), r4)
          | _ => None
          end
        | None => None
        end
      | _ => None
      end
    | None => None
    end
  end.

(* the text of an annotation -> rules and note *)
(* a `#` in the note part starts a user comment (the rule object is read first: a `#` inside one of its strings stays) *)
Fixpoint cut_hash (s : bytes) : bytes := match s with c :: r => if c =? 35 then [] else c :: cut_hash r | [] => [] end.
Definition parse_ann (text : bytes) : option ann :=
  match trim_left text with
  | 123 :: _ =>
    match prval (S (2 * length text)) text with
    | Some (RObj ms, rest) =>
      match trim_left (cut_hash rest) with
      | [] => Some (mk_ann ms [])
      | 45 :: note => Some (mk_ann ms (trim note))
      | _ => None
      end
    | _ => None
    end
  | t => Some (mk_ann [] (trim (cut_hash t)))
  end.

(* a block annotation: the rule object is read first (a closing mark inside one of its strings does not close it) *)
Definition block_ann (s : bytes) : option (ann * bytes) :=
  match trim_left s with
  | 123 :: _ =>
    match prval (S (2 * length s)) s with
    | Some (RObj ms, rest) =>
      match take_until2 42 47 rest with
      | Some (tail, after) =>
        match trim_left tail with
        | [] => Some (mk_ann ms [], after)
        | 45 :: note => Some (mk_ann ms (trim note), after)
        | _ => None
        end
      | None => None
      end
    | _ => None
    end
  | _ => match take_until2 42 47 s with
         | Some (text, after) => Some (mk_ann [] (trim text), after)
         | None => None
         end
  end.

(* ---- lexer ---- *)
Fixpoint ref_names (fuel : nat) (s : bytes) (acc : list bytes) : list bytes * bytes :=   (* after a complete @name *)
  match fuel with
  | O => (rev acc, s)
  | S f =>
    match trim_left s with
    | 124 :: r => match trim_left r with
                  | 64 :: r' => let (nm, r'') := take_while name_byte r' in ref_names f r'' ((64 :: nm) :: acc)
                  | _ => (rev acc, s)
                  end
    | _ => (rev acc, s)
    end
  end.
Fixpoint slex (fuel : nat) (s : bytes) : res (list stok) :=
  match fuel with
  | O => Panic OutOfFuel
  | S f =>
    match s with
    | [] => Ok []
    | c :: r =>
      if is_blank c then slex f r
      else if c =? 123 then do t <- slex f r; Ok (KLB :: t)
      else if c =? 125 then do t <- slex f r; Ok (KRB :: t)
      else if c =? 91 then do t <- slex f r; Ok (KLS :: t)
      else if c =? 93 then do t <- slex f r; Ok (KRS :: t)
      else if c =? 44 then do t <- slex f r; Ok (KComma :: t)
      else if c =? 58 then do t <- slex f r; Ok (KColon :: t)
      else if c =? 35 then                                   (* # comment, ### block ### *)
        match r with
        | 35 :: 35 :: r' => match take_until3 35 r' with Some (_, r'') => slex f r'' | None => Err 303 end
        | _ => slex f (snd (take_line r))
        end
      else if c =? 47 then                                   (* annotation *)
        match r with
        | 47 :: r' => let (text, rest) := take_line r' in
                      match parse_ann text with Some a => do t <- slex f rest; Ok (KAnn a :: t) | None => Err 301 end
        | 42 :: r' => match block_ann r' with
                      | Some (a, rest) => do t <- slex f rest; Ok (KAnn a :: t)
                      | None => Err 301
                      end
        | _ => Err 301
        end
      else if c =? 64 then
        let (nm, r') := take_while name_byte r in
        let (names, rest) := ref_names (length r') r' [64 :: nm] in
        do t <- slex f rest; Ok (KRef names :: t)
      else match scalar s with
           | Some (lit, rest) => do t <- slex f rest; Ok (KScal lit :: t)
           | None => Err 301
           end
    end
  end.

(* ---- tree ---- *)
Inductive skey := SKStr (text : bytes) | SKRef (name : bytes).       (* "key" (text with quotes) / @name *)
Inductive snode :=
| SLit (lit : bytes) (anns : list ann)
| SRef (names : list bytes) (anns : list ann)
| SArr (anns : list ann) (items : list snode)
| SObj (anns : list ann) (members : list (skey * snode)).

Fixpoint take_anns (ts : list stok) : list ann * list stok :=
  match ts with KAnn a :: r => let (l, r') := take_anns r in (a :: l, r') | _ => ([], ts) end.
Definition add_anns (n : snode) (more : list ann) : option snode :=       (* annotations after the comma: leaves only *)
  match more with
  | [] => Some n
  | _ => match n with
         | SLit l a => Some (SLit l (a ++ more))
         | SRef ns a => Some (SRef ns (a ++ more))
         | SArr [] [] => Some (SArr more [])           (* an empty container written on one line is annotated like a leaf *)
         | SObj [] [] => Some (SObj more [])
         | _ => None
         end
  end.

Fixpoint spvalue (fuel : nat) (ts : list stok) : option (snode * list stok) :=
  match fuel with
  | O => None
  | S f =>
    match ts with
    | KScal l :: r => let (a, r') := take_anns r in Some (SLit l a, r')
    | KRef ns :: r => let (a, r') := take_anns r in Some (SRef ns a, r')
    | KLS :: r => let (a, r') := take_anns r in
                  match r' with
                  | KRS :: r'' => match a with
                                  | [] => let (a2, r3) := take_anns r'' in Some (SArr a2 [], r3)       (* [] // annotation *)
                                  | _ => Some (SArr a [], r'')
                                  end
                  | _ => spitems f r' a []
                  end
    | KLB :: r => let (a, r') := take_anns r in
                  match r' with
                  | KRB :: r'' => match a with
                                  | [] => let (a2, r3) := take_anns r'' in Some (SObj a2 [], r3)       (* {} // annotation *)
                                  | _ => Some (SObj a [], r'')
                                  end
                  | _ => spmembers f r' a []
                  end
    | _ => None
    end
  end
with spitems (fuel : nat) (ts : list stok) (a : list ann) (acc : list snode) : option (snode * list stok) :=
  match fuel with
  | O => None
  | S f =>
    match spvalue f ts with
    | Some (v, r) =>
      match r with
      | KComma :: r1 => let (more, r2) := take_anns r1 in
                        match add_anns v more with Some v' => spitems f r2 a (v' :: acc) | None => None end
      | KRS :: r1 => Some (SArr a (rev (v :: acc)), r1)
      | _ => None
      end
    | None => None
    end
  end
with spmembers (fuel : nat) (ts : list stok) (a : list ann) (acc : list (skey * snode)) : option (snode * list stok) :=
  match fuel with
  | O => None
  | S f =>
    let key := match ts with
               | KScal (34 :: k) :: KColon :: r => Some (SKStr (34 :: k), r)
               | KRef [nm] :: KColon :: r => Some (SKRef nm, r)
               | _ => None
               end in
    match key with
    | Some (k, r) =>
      match spvalue f r with
      | Some (v, r1) =>
        match r1 with
        | KComma :: r2 => let (more, r3) := take_anns r2 in
                          match add_anns v more with Some v' => spmembers f r3 a ((k, v') :: acc) | None => None end
        | KRB :: r2 => Some (SObj a (rev ((k, v) :: acc)), r2)
        | _ => None
        end
      | None => None
      end
    | None => None
    end
  end.

Definition sparse_toks (ts : list stok) : option snode :=
  match spvalue (S (length ts)) ts with
  | Some (v, []) => Some v
  | _ => None
  end.
Definition sparse (s : bytes) : option snode :=
  match slex (S (length s)) s with Ok ts => sparse_toks ts | _ => None end.
