(* Outcomes of modelled Go code: a value, a returned/designed error (numeric code), or a Go runtime panic. *)
From Coq Require Import NArith.
Inductive pkind := IndexOutOfRange | MakesliceRange | NegativeRepeat | NilDeref | OutOfFuel | OtherPanic.
Inductive res (A : Type) :=
| Ok (a : A)
| Err (code : N)
| Panic (k : pkind).
Arguments Ok {A} a.
Arguments Err {A} code.
Arguments Panic {A} k.
Definition bind {A B} (r : res A) (f : A -> res B) : res B :=
  match r with Ok a => f a | Err c => Err c | Panic k => Panic k end.
Notation "'do' x <- r ; k" := (bind r (fun x => k)) (at level 200, x name, r at level 100, k at level 200).
Definition is_ok {A} (r : res A) : bool := match r with Ok _ => true | _ => false end.
