(* Lexeme event types (lexeme/lex_event_type.go), shared by the three scanner models. *)
From Coq Require Import NArith Bool.
Inductive lext :=
| LiteralBegin | LiteralEnd | ObjectBegin | ObjectEnd | ObjectKeyBegin | ObjectKeyEnd
| ObjectValueBegin | ObjectValueEnd | ArrayBegin | ArrayEnd | ArrayItemBegin | ArrayItemEnd
| InlineAnnotationBegin | InlineAnnotationEnd | InlineAnnotationTextBegin | InlineAnnotationTextEnd
| MultiLineAnnotationBegin | MultiLineAnnotationEnd | MultiLineAnnotationTextBegin | MultiLineAnnotationTextEnd
| NewLine | TypesShortcutBegin | TypesShortcutEnd | KeyShortcutBegin | KeyShortcutEnd
| MixedValueBegin | MixedValueEnd | EndTop.

Definition lext_code (t : lext) : N :=
  match t with
  | LiteralBegin => 0 | LiteralEnd => 1 | ObjectBegin => 2 | ObjectEnd => 3 | ObjectKeyBegin => 4
  | ObjectKeyEnd => 5 | ObjectValueBegin => 6 | ObjectValueEnd => 7 | ArrayBegin => 8 | ArrayEnd => 9
  | ArrayItemBegin => 10 | ArrayItemEnd => 11 | InlineAnnotationBegin => 12 | InlineAnnotationEnd => 13
  | InlineAnnotationTextBegin => 14 | InlineAnnotationTextEnd => 15 | MultiLineAnnotationBegin => 16
  | MultiLineAnnotationEnd => 17 | MultiLineAnnotationTextBegin => 18 | MultiLineAnnotationTextEnd => 19
  | NewLine => 20 | TypesShortcutBegin => 21 | TypesShortcutEnd => 22 | KeyShortcutBegin => 23
  | KeyShortcutEnd => 24 | MixedValueBegin => 25 | MixedValueEnd => 26 | EndTop => 27
  end.
Definition lext_eqb (a b : lext) : bool := N.eqb (lext_code a) (lext_code b).

Definition is_opening (t : lext) : bool :=
  match t with
  | LiteralBegin | ObjectBegin | ObjectKeyBegin | ObjectValueBegin | ArrayBegin | ArrayItemBegin
  | MultiLineAnnotationBegin | InlineAnnotationBegin | InlineAnnotationTextBegin | MultiLineAnnotationTextBegin
  | TypesShortcutBegin | KeyShortcutBegin | MixedValueBegin => true
  | _ => false
  end.
