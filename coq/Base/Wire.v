(* Wire format shared by the extracted driver and the in-Coq evaluation:
   a case is one line of bytes, tokens separated by single spaces; a result is one line. *)
From Coq Require Import List NArith Ascii String Bool.
Import ListNotations.
Local Open Scope N_scope.

Definition bytes := list N.

Definition b_of_string (s : string) : bytes :=
  map N_of_ascii (list_ascii_of_string s).
Definition string_of_b (b : bytes) : string :=
  string_of_list_ascii (map ascii_of_N b).

Notation "'B' s" := (b_of_string s%string) (at level 0, s at level 0, only parsing).

Fixpoint beqb (a b : bytes) : bool :=
  match a, b with
  | [], [] => true
  | x :: a', y :: b' => N.eqb x y && beqb a' b'
  | _, _ => false
  end.

(* split on a separator byte *)
Fixpoint split_on (sep : N) (l : bytes) : list bytes :=
  match l with
  | [] => [[]]
  | x :: r =>
    let rest := split_on sep r in
    if N.eqb x sep then [] :: rest
    else match rest with
         | [] => [[x]]
         | t :: ts => (x :: t) :: ts
         end
  end.
Definition words (l : bytes) : list bytes := split_on 32 l.

Fixpoint join (sep : bytes) (ls : list bytes) : bytes :=
  match ls with
  | [] => []
  | [x] => x
  | x :: r => x ++ sep ++ join sep r
  end.
Definition unwords := join [32].

(* decimal *)
Definition is_digit (c : N) : bool := (48 <=? c) && (c <=? 57).
Fixpoint dec_acc (acc : N) (l : bytes) : option N :=
  match l with
  | [] => Some acc
  | c :: r => if is_digit c then dec_acc (acc * 10 + (c - 48)) r else None
  end.
Definition dec (l : bytes) : option N :=
  match l with [] => None | _ => dec_acc 0 l end.

Fixpoint show_pos_fuel (fuel : nat) (n : N) (acc : bytes) : bytes :=
  match fuel with
  | O => acc
  | S f => let acc' := (48 + n mod 10) :: acc in
           if n / 10 =? 0 then acc' else show_pos_fuel f (n / 10) acc'
  end.
Definition show_N (n : N) : bytes := show_pos_fuel (S (N.to_nat (N.log2 n))) n [].
Definition show_nat (n : nat) : bytes := show_N (N.of_nat n).
Definition show_Z (z : Z) : bytes :=
  match z with
  | Z0 => [48]
  | Zpos p => show_N (Npos p)
  | Zneg p => 45 :: show_N (Npos p)
  end.
Definition show_bool (b : bool) : bytes := if b then [49] else [48].

(* hex; "-" denotes the empty string *)
Definition hexval (c : N) : option N :=
  if (48 <=? c) && (c <=? 57) then Some (c - 48)
  else if (97 <=? c) && (c <=? 102) then Some (c - 87)
  else None.
Fixpoint unhex_go (l : bytes) : option bytes :=
  match l with
  | [] => Some []
  | a :: b :: r =>
    match hexval a, hexval b, unhex_go r with
    | Some x, Some y, Some t => Some ((x * 16 + y) :: t)
    | _, _, _ => None
    end
  | _ => None
  end.
Definition unhex (l : bytes) : option bytes :=
  match l with
  | [45] => Some []
  | _ => unhex_go l
  end.
Definition hexdig (n : N) : N := if n <? 10 then 48 + n else 87 + n.
Definition hex (l : bytes) : bytes :=
  match l with
  | [] => [45]
  | _ => flat_map (fun c => [hexdig (c / 16); hexdig (c mod 16)]) l
  end.

Definition bad_case : bytes := B"badcase".
