(* Spec for decimal numbers: the JSON number grammar as a decomposition of the text, the value a
   text denotes, and exact comparison of decimal values - all in Z (m * 10^k), no floats. *)
From Coq Require Import List ZArith NArith Bool.
Import ListNotations.
Local Open Scope Z_scope.

Definition bytes := list N.
Definition is_digit (c : N) : bool := (N.leb 48 c && N.leb c 57)%bool.
Definition is_e (c : N) : bool := (N.eqb c 101 || N.eqb c 69)%bool.

Definition len (l : bytes) : Z := Z.of_nat (length l).

(* value of a digit string, most significant first *)
Definition dig (c : N) : Z := Z.of_N c - 48.
Fixpoint val_acc (acc : Z) (l : bytes) : Z :=
  match l with [] => acc | c :: r => val_acc (acc * 10 + dig c) r end.
Definition val (l : bytes) : Z := val_acc 0 l.

(* a decimal value m * 10^k *)
Definition dval := (Z * Z)%type.
Definition dcmp (a b : dval) : comparison :=
  let k := Z.min (snd a) (snd b) in
  Z.compare (fst a * 10 ^ (snd a - k)) (fst b * 10 ^ (snd b - k)).
Definition deq (a b : dval) : Prop := dcmp a b = Eq.
Definition cmp_to_Z (c : comparison) : Z := match c with Lt => -1 | Eq => 0 | Gt => 1 end.

(* longest prefix of digits *)
Fixpoint span_digits (l : bytes) : bytes * bytes :=
  match l with
  | c :: r => if is_digit c then let (d, r') := span_digits r in (c :: d, r') else ([], l)
  | [] => ([], [])
  end.

(* decomposition of a text: [-] digits [. digits] [e digits [sign digits]] rest
   (the exponent is read as "digits, then optionally a sign and digits" so that the well-formedness
   condition below can say: either digits without sign, or a sign followed by digits) *)
Record parts := mk_parts {
  p_neg : bool; p_int : bytes; p_frac : option bytes;
  p_exp : option (bytes * option (bool * bytes)); p_rest : bytes }.

Definition split_exp (l : bytes) : option (bytes * option (bool * bytes)) * bytes :=
  match l with
  | c :: r =>
    if is_e c then
      let (d1, r1) := span_digits r in
      match r1 with
      | s :: r2 =>
        if (N.eqb s 43 || N.eqb s 45)%bool then
          let (d2, r3) := span_digits r2 in (Some (d1, Some (N.eqb s 45, d2)), r3)
        else (Some (d1, None), r1)
      | [] => (Some (d1, None), [])
      end
    else (None, l)
  | [] => (None, [])
  end.

Definition decompose (s : bytes) : parts :=
  let (neg, s1) := match s with c :: r => if N.eqb c 45 then (true, r) else (false, s) | [] => (false, []) end in
  let (ip, s2) := span_digits s1 in
  let (fp, s3) := match s2 with
                  | c :: r => if N.eqb c 46 then let (d, r') := span_digits r in (Some d, r') else (None, s2)
                  | [] => (None, [])
                  end in
  let (ep, s4) := split_exp s3 in
  mk_parts neg ip fp ep s4.

Definition nonempty (l : bytes) : bool := match l with [] => false | _ => true end.
Definition int_ok (ip : bytes) : bool :=
  match ip with
  | [] => false
  | c :: r => negb (N.eqb c 48) || negb (nonempty r)     (* "0" or no leading zero *)
  end.
Definition frac_ok (fp : option bytes) : bool := match fp with Some d => nonempty d | None => true end.
Definition exp_ok (ep : option (bytes * option (bool * bytes))) : bool :=
  match ep with
  | None => true
  | Some (d1, None) => nonempty d1
  | Some (d1, Some (_, d2)) => negb (nonempty d1) && nonempty d2
  end.

(* RFC 8259 section 6: number = [ minus ] int [ frac ] [ exp ] *)
Definition json_number (s : bytes) : bool :=
  let p := decompose s in
  int_ok (p_int p) && frac_ok (p_frac p) && exp_ok (p_exp p) && negb (nonempty (p_rest p)).

Definition exp_value (ep : option (bytes * option (bool * bytes))) : Z :=
  match ep with
  | None => 0
  | Some (d1, None) => val d1
  | Some (_, Some (minus, d2)) => if minus then - val d2 else val d2
  end.
Definition frac_digits (fp : option bytes) : bytes := match fp with Some d => d | None => [] end.

(* the value a grammatical text denotes *)
Definition value_of (s : bytes) : dval :=
  let p := decompose s in
  let m := val (p_int p ++ frac_digits (p_frac p)) in
  ((if p_neg p then - m else m), exp_value (p_exp p) - Z.of_nat (length (frac_digits (p_frac p)))).

(* the recorded, unrepaired deviation F13b: zero integer part directly followed by an exponent *)
Definition known_F13b (s : bytes) : bool :=
  let p := decompose s in
  match p_int p, p_frac p, p_exp p with
  | [c], None, Some _ => N.eqb c 48
  | _, _, _ => false
  end.
