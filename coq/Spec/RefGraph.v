(* Spec for C06: which root schemas have a finite instance, and when a root requires itself. *)
From Coq Require Import List NArith Bool.
From JS Require Import Base.Res Model.Recursion.
Import ListNotations.

Section Graph.
  Variable rootname : tname.
  Variable rootnode : node.
  Variable roott : table.

  (* how a name is resolved where it is used: the table of the enclosing type, then the root's *)
  Definition resolve (cur : table) (t : tname) : option entry :=
    match lookup t cur with Some x => Some x | None => lookup t roott end.

  (* InstN h cur n: the node has a finite instance, with a derivation of height h.
     Only mandatory, non-nullable, non-array links count; a choice is satisfiable if some alternative is;
     an unknown type counts as instantiable (the checker does not judge it). *)
  Inductive InstN : nat -> table -> node -> Prop :=
  | I_skip h cur n : skippable n = true -> InstN h cur n
  | I_lit h cur o u : InstN h cur (NLit o u)
  | I_arr h cur o u items : InstN h cur (NArr o u items)
  | I_obj h cur o u props : Forall (InstN h cur) props -> InstN (S h) cur (NObj o u props)
  | I_ref_empty h cur o u : InstN h cur (NRef o u [])
  | I_ref h cur o u names t : In t names -> InstTN h cur t -> InstN (S h) cur (NRef o u names)
  with InstTN : nat -> table -> tname -> Prop :=
  | IT_root h cur : InstN h roott rootnode -> InstTN (S h) cur rootname
  | IT_unknown h cur t : t <> rootname -> resolve cur t = None -> InstTN h cur t
  | IT_known h cur t r own : t <> rootname -> resolve cur t = Some (Entry r own) -> InstN h own r -> InstTN (S h) cur t.
  Definition Inst : Prop := exists h, InstN h roott rootnode.

  (* Req visited cur n: the node leads back to the root through mandatory single-name links, not through
     arrays, never entering a type twice *)
  Inductive Req : list tname -> table -> node -> Prop :=
  | RQ_obj vis cur props p : In p props -> Req vis cur p -> Req vis cur (NObj false false props)
  | RQ_root vis cur : Req vis cur (NRef false false [rootname])
  | RQ_step vis cur t r own : t <> rootname -> memt t vis = false -> resolve cur t = Some (Entry r own) ->
      Req (t :: vis) own r -> Req vis cur (NRef false false [t]).
End Graph.
