(* Spec: a plain insertion-ordered dictionary (duplicate-free association list, oldest first). *)
From Coq Require Import List NArith Bool.
Import ListNotations.
Local Open Scope N_scope.

Definition K := N.
Definition V := N.
Definition E := N.
Definition dict := list (K * V).

Definition dkeys (d : dict) : list K := map fst d.
Fixpoint dget (k : K) (d : dict) : option V :=
  match d with
  | [] => None
  | (k', v) :: r => if k' =? k then Some v else dget k r
  end.
Definition dhas (k : K) (d : dict) : bool := match dget k d with Some _ => true | None => false end.
Definition drepl (k : K) (f : V -> V) (d : dict) : dict :=
  map (fun kv => if fst kv =? k then (fst kv, f (snd kv)) else kv) d.
Definition dset (k : K) (v : V) (d : dict) : dict :=
  if dhas k d then drepl k (fun _ => v) d else d ++ [(k, v)].
Definition dupdate (k : K) (f : V -> V) (d : dict) : dict := drepl k f d.
Definition ddelete (k : K) (d : dict) : dict := filter (fun kv => negb (fst kv =? k)) d.
Definition dfilter (f : K -> V -> bool) (d : dict) : dict := filter (fun kv => f (fst kv) (snd kv)) d.
Definition dfind (f : K -> V -> bool) (d : dict) : option (K * V) := find (fun kv => f (fst kv) (snd kv)) d.
Fixpoint deach (f : K -> V -> option E) (d : dict) : option E :=
  match d with
  | [] => None
  | (k, v) :: r => match f k v with Some e => Some e | None => deach f r end
  end.
(* Map: values are replaced in order; the first error stops the walk, earlier replacements stay *)
Fixpoint dmap (f : K -> V -> V + E) (d : dict) : dict * option E :=
  match d with
  | [] => ([], None)
  | (k, v) :: r =>
    match f k v with
    | inr e => (d, Some e)
    | inl v' => let (r', e) := dmap f r in ((k, v') :: r', e)
    end
  end.

(* string set spec: the distinct arguments in order of first occurrence *)
Fixpoint memN (k : K) (l : list K) : bool :=
  match l with [] => false | x :: r => (x =? k) || memN k r end.
Definition sadd (k : K) (s : list K) : list K := if memN k s then s else s ++ [k].
Definition snew (l : list K) : list K := fold_left (fun s k => sadd k s) l [].
