(* RFC 8259 as an inductive grammar over byte strings.
     JSON-text = ws value ws
     value = false / null / true / object / array / number / string
     object = "{" ws [ member *( "," member ) ] "}"       member = ws string ws ":" ws value ws
     array  = "[" ws [ value ws *( "," ws value ws ) ] "]"
     number = [ minus ] int [ frac ] [ exp ]              (as in Spec/Decimal.v, digit by digit here)
     string = quotation-mark *char quotation-mark *)
From Coq Require Import List NArith Bool.
Import ListNotations.
Local Open Scope N_scope.

Definition bytes := list N.
Definition is_ws (c : N) : bool := match c with 32 | 9 | 10 | 13 => true | _ => false end.
Definition ws (w : bytes) : Prop := Forall (fun c => is_ws c = true) w.
Definition digit (c : N) : bool := (48 <=? c) && (c <=? 57).
Definition digit19 (c : N) : bool := (49 <=? c) && (c <=? 57).
Definition digits (d : bytes) : Prop := Forall (fun c => digit c = true) d.
Definition hexdigit (c : N) : bool :=
  digit c || ((97 <=? c) && (c <=? 102)) || ((65 <=? c) && (c <=? 70)).
Definition simple_escape (c : N) : bool :=
  match c with 34 | 92 | 47 | 98 | 102 | 110 | 114 | 116 => true | _ => false end.
(* unescaped = %x20-21 / %x23-5B / %x5D-10FFFF ; bytes >= 0x80 are UTF-8 continuation/lead bytes *)
Definition unescaped (c : N) : bool := (32 <=? c) && negb (c =? 34) && negb (c =? 92).

Inductive StrBody : bytes -> Prop :=
| sb_nil : StrBody []
| sb_char c r : unescaped c = true -> StrBody r -> StrBody (c :: r)
| sb_esc e r : simple_escape e = true -> StrBody r -> StrBody (92 :: e :: r)
| sb_u h1 h2 h3 h4 r : hexdigit h1 = true -> hexdigit h2 = true -> hexdigit h3 = true -> hexdigit h4 = true ->
    StrBody r -> StrBody (92 :: 117 :: h1 :: h2 :: h3 :: h4 :: r).
Definition JString (s : bytes) : Prop := exists body, s = 34 :: body ++ [34] /\ StrBody body.

(* number = [minus] int [frac] [exp] *)
Definition JInt (i : bytes) : Prop := i = [48] \/ exists c d, i = c :: d /\ digit19 c = true /\ digits d.
Definition JFrac (f : bytes) : Prop := f = [] \/ exists c d, f = 46 :: c :: d /\ digit c = true /\ digits d.
Definition is_e (c : N) : bool := (c =? 101) || (c =? 69).
Definition JExp (x : bytes) : Prop :=
  x = [] \/ exists e sg c d, x = e :: sg ++ c :: d /\ is_e e = true /\ (sg = [] \/ sg = [43] \/ sg = [45]) /\
                             digit c = true /\ digits d.
Definition JNumber (n : bytes) : Prop :=
  exists m i f x, n = m ++ i ++ f ++ x /\ (m = [] \/ m = [45]) /\ JInt i /\ JFrac f /\ JExp x.

Inductive JValue : bytes -> Prop :=
| jv_true : JValue [116; 114; 117; 101]
| jv_false : JValue [102; 97; 108; 115; 101]
| jv_null : JValue [110; 117; 108; 108]
| jv_number n : JNumber n -> JValue n
| jv_string s : JString s -> JValue s
| jv_empty_array w : ws w -> JValue (91 :: w ++ [93])
| jv_array els : JElements els -> JValue (91 :: els ++ [93])
| jv_empty_object w : ws w -> JValue (123 :: w ++ [125])
| jv_object ms : JMembers ms -> JValue (123 :: ms ++ [125])
with JElements : bytes -> Prop :=
| je_one w1 v w2 : ws w1 -> JValue v -> ws w2 -> JElements (w1 ++ v ++ w2)
| je_more w1 v w2 r : ws w1 -> JValue v -> ws w2 -> JElements r -> JElements (w1 ++ v ++ w2 ++ 44 :: r)
with JMembers : bytes -> Prop :=
| jm_one w1 k w2 w3 v w4 : ws w1 -> JString k -> ws w2 -> ws w3 -> JValue v -> ws w4 ->
    JMembers (w1 ++ k ++ w2 ++ 58 :: w3 ++ v ++ w4)
| jm_more w1 k w2 w3 v w4 r : ws w1 -> JString k -> ws w2 -> ws w3 -> JValue v -> ws w4 -> JMembers r ->
    JMembers (w1 ++ k ++ w2 ++ 58 :: w3 ++ v ++ w4 ++ 44 :: r).

Definition JText (s : bytes) : Prop := exists w1 v w2, s = w1 ++ v ++ w2 /\ ws w1 /\ JValue v /\ ws w2.

Scheme JValue_ind3 := Induction for JValue Sort Prop
  with JElements_ind3 := Induction for JElements Sort Prop
  with JMembers_ind3 := Induction for JMembers Sort Prop.
Combined Scheme JValue_mutind from JValue_ind3, JElements_ind3, JMembers_ind3.
