(* What allOf inheritance means, stated declaratively (no traversal order, no fuel, no first-error rule).
   Merged st n r : object n (own properties, allOf list, additionalProperties) denotes r once every named type has
   been merged in, transitively; st = the types being expanded around n (a type may not inherit from itself, directly,
   through other types, or through an object nested inside an ancestor - the structure would be infinite). *)
From Coq Require Import List NArith Bool.
From JS Require Import Base.Res Model.AllOf.
Import ListNotations.

Definition relabel (from : tname) (p : prop) : prop := let '(k, o, _, v) := p in (k, o, from, v).
(* the ancestor's additionalProperties rule (cap) is adopted when the heir has none (ap = 0); two rules must agree *)
Definition ap_compat (ap cap r : N) : Prop :=
  (cap = 0%N /\ r = ap) \/ (cap <> 0%N /\ ap = 0%N /\ r = cap) \/ (cap <> 0%N /\ ap = cap /\ r = ap).
Definition disjoint (a b : list key) : Prop := forall k, In k a -> ~ In k b.

Section Spec.
  Variable defs : tdefs.
  Inductive Merged : list tname -> tnode -> tnode -> Prop :=
  | MLeaf st : Merged st TLeaf TLeaf
  | MObj st props allof ap all ap' props' :
      Ext st allof props ap all ap' -> Kids st all props' ->
      Merged st (TObj props allof ap) (TObj props' [] ap')
  (* Ext st names acc ap all ap' : merging the types `names`, in this order, into the properties acc *)
  with Ext : list tname -> list tname -> list prop -> N -> list prop -> N -> Prop :=
  | ENil st acc ap : Ext st [] acc ap acc ap
  | ECons st name r acc ap t cprops cal cap ap1 all ap' :
      ~ In name st ->                                   (* not cyclic *)
      tlookup name defs = Some t ->                     (* the type exists *)
      Merged (name :: st) t (TObj cprops cal cap) ->    (* and is an object (itself merged, transitively) *)
      ap_compat ap cap ap1 ->                           (* additionalProperties do not conflict *)
      NoDup (pkeys cprops) -> disjoint (pkeys cprops) (pkeys acc) ->   (* no duplicated property name *)
      Ext st r (acc ++ map (relabel name) cprops) ap1 all ap' ->
      Ext st (name :: r) acc ap all ap'
  (* the values of the properties (inherited ones included) are merged in the same way *)
  with Kids : list tname -> list prop -> list prop -> Prop :=
  | KNil st : Kids st [] []
  | KCons st k o fr v v' r r' : Merged st v v' -> Kids st r r' -> Kids st ((k, o, fr, v) :: r) ((k, o, fr, v') :: r').

  Scheme Merged_mind := Induction for Merged Sort Prop
  with Ext_mind := Induction for Ext Sort Prop
  with Kids_mind := Induction for Kids Sort Prop.
  Combined Scheme merged_mutind from Merged_mind, Ext_mind, Kids_mind.
End Spec.
