(* Spec: the documented vocabulary of schema types and the documented soft-equality families. *)
From Coq Require Import String List Bool.
Import ListNotations.
Local Open Scope string_scope.

Definition documented_names : list string :=
  ["string"; "integer"; "float"; "decimal"; "boolean"; "object"; "array"; "null"; "email"; "uri";
   "uuid"; "date"; "datetime"; "enum"; "mixed"; "any"; "comment"].

Fixpoint smem (s : string) (l : list string) : bool :=
  match l with [] => false | x :: r => String.eqb x s || smem s r end.

Definition wildcard (t : string) : bool := smem t ["enum"; "mixed"; "any"].
(* decimal ~ float; email/uri/uuid/date/datetime ~ string *)
Definition family (t : string) : string :=
  if smem t ["decimal"; "float"] then "float"
  else if smem t ["string"; "email"; "uri"; "uuid"; "date"; "datetime"] then "string"
  else t.
Definition defined (t : string) : bool := negb (String.eqb t "").
Definition family_rel (a b : string) : bool :=
  defined a && defined b && (wildcard a || wildcard b || String.eqb (family a) (family b)).
(* pairs the statement constrains: the pseudo-type "comment" only against itself *)
Definition constrained (a b : string) : bool :=
  (negb (String.eqb a "comment") && negb (String.eqb b "comment")) || (String.eqb a "comment" && String.eqb b "comment").

(* recorded, unrepaired finding F20a: null is softly equal to array, but not conversely *)
Definition known_F20a (a b : string) : bool :=
  (String.eqb a "null" && String.eqb b "array") || (String.eqb a "array" && String.eqb b "null").
