(* Spec: line and column of a byte under the text's own newline convention.
   line = 1 + number of complete line terminators before the byte;
   column = 1 + number of bytes between the end of the last such terminator (or the start) and the byte. *)
From Coq Require Import List ZArith NArith Bool.
Import ListNotations.

Definition bytes := list N.
Inductive conv := LF | CR | CRLF.

(* single-byte terminators *)
Fixpoint count (t : N) (l : bytes) : Z :=
  match l with [] => 0 | c :: r => ((if N.eqb c t then 1 else 0) + count t r)%Z end.
Fixpoint has (t : N) (l : bytes) : bool :=
  match l with [] => false | c :: r => N.eqb c t || has t r end.
Fixpoint after_last (t : N) (l : bytes) : bytes :=
  match l with
  | [] => []
  | c :: r => if has t r then after_last t r else if N.eqb c t then r else c :: r
  end.
(* the two-byte terminator CR LF: prev tells whether the previous byte was a CR *)
Fixpoint count_pairs (prev : bool) (l : bytes) : Z :=
  match l with [] => 0 | c :: r => ((if prev && N.eqb c 10 then 1 else 0) + count_pairs (N.eqb c 13) r)%Z end.
Fixpoint has_pair (prev : bool) (l : bytes) : bool :=
  match l with [] => false | c :: r => (prev && N.eqb c 10) || has_pair (N.eqb c 13) r end.
Fixpoint after_last_pair (prev : bool) (l : bytes) : bytes :=
  match l with
  | [] => []
  | c :: r => if has_pair (N.eqb c 13) r then after_last_pair (N.eqb c 13) r
              else if prev && N.eqb c 10 then r else c :: r
  end.

Definition spec_line_col (k : conv) (s : bytes) (i : nat) : Z * Z :=
  let p := firstn i s in
  match k with
  | LF => (1 + count 10 p, 1 + Z.of_nat (length (after_last 10 p)))%Z
  | CR => (1 + count 13 p, 1 + Z.of_nat (length (after_last 13 p)))%Z
  | CRLF => (1 + count_pairs false p, 1 + Z.of_nat (length (after_last_pair false p)))%Z
  end.

(* the text uses exactly one convention *)
Fixpoint cr_before_lf (prev : bool) (l : bytes) : bool :=
  match l with [] => true | c :: r => (if N.eqb c 10 then prev else true) && cr_before_lf (N.eqb c 13) r end.
Fixpoint lf_after_cr (l : bytes) : bool :=
  match l with
  | [] => true
  | c :: r => (if N.eqb c 13 then match r with d :: _ => N.eqb d 10 | [] => false end else true) && lf_after_cr r
  end.
Definition uniform (k : conv) (s : bytes) : bool :=
  match k with
  | LF => negb (has 13 s)
  | CR => negb (has 10 s)
  | CRLF => cr_before_lf false s && lf_after_cr s
  end.
