#!/bin/bash
# usage: lib/seedconfirm.sh Cxx   - copy the agent's files from /tmp/seed_Cxx/seeddemo to seeded/Cxx-N, confirm the demo
# (fails with the change, passes without), print both exit codes
set -u
id=$1; n=${2:-1}
export GOFLAGS=-mod=mod GOPROXY=off GOSUMDB=off GOTOOLCHAIN=local
d=/verif/seeded/$id-$n
mkdir -p $d && cp /tmp/seed_$id/seeddemo/* $d/
cd /tmp/seed_$id || exit 2
if ls seeddemo/*_test.go >/dev/null 2>&1; then cmd="go test -vet=off -count=1 ./seeddemo/"; else cmd="go run ./seeddemo"; fi
git status --porcelain | tr '\n' ' '; echo
timeout 600 $cmd >/tmp/seed_$id.with.txt 2>&1; w=$?
git apply -R seeddemo/patch.diff || echo REVERT-FAILED
timeout 600 $cmd >/tmp/seed_$id.without.txt 2>&1; wo=$?
git apply seeddemo/patch.diff
echo "$id with=$w without=$wo"
