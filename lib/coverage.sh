#!/bin/bash
# Coverage survey: runs the quick tier of the named checks (default: all) with an instrumented harness and prints, per
# source file of the library, the statements no input of any check reached.  A tool for finding gaps of the generators;
# not part of any registered command.  Usage: lib/coverage.sh [Cxx ...]   (writes /tmp/verif_cov*)
set -u
export GOFLAGS=-mod=mod GOPROXY=off GOSUMDB=off GOTOOLCHAIN=local
cd "$(dirname "$0")/.."
rm -rf /tmp/verif_cov && mkdir -p /tmp/verif_cov
props=${@:-C01 C02 C03 C04 C05 C06 C07 C08 C09 C10 C12 C13 C14 C15 C16 C17 C18 C19 C20}
for p in $props; do GOCOVERDIR=/tmp/verif_cov ./check $p 2>&1 | grep -v "^KNOWN" | tail -1; done
go tool covdata textfmt -i=/tmp/verif_cov -o /tmp/verif_cov.txt
python3 - <<'PY'
import re, collections
un = collections.defaultdict(list); tot = collections.Counter(); cov = collections.Counter()
for l in open('/tmp/verif_cov.txt'):
    m = re.match(r'(\S+):(\d+)\.\d+,(\d+)\.\d+ (\d+) (\d+)', l)
    if not m: continue
    f, a, b, n, c = m.group(1), int(m.group(2)), int(m.group(3)), int(m.group(4)), int(m.group(5))
    f = f.replace('github.com/jsightapi/jsight-schema-core/', '')
    tot[f] += n
    if c: cov[f] += n
    else: un[f].append((a, b))
for f in sorted(tot):
    if tot[f] and cov[f] < tot[f]:
        print('%-70s %4d/%4d  uncovered lines: %s' % (f, cov[f], tot[f], ' '.join('%d-%d' % x for x in sorted(set(un[f]))[:40])))
PY
