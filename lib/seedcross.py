#!/usr/bin/env python3
"""For each named seed: apply it to /repo, run the quick check of EVERY property, restore /repo.
Prints which checks raise an alarm; an alarm of another property's check has to be looked at by hand
(the change may break that property too, or the check may be wrong).  Never commits anything to /repo."""
import subprocess, sys, os, json, re
ROOT = os.path.dirname(os.path.dirname(os.path.abspath(__file__)))
REPO = os.environ.get('VERIF_REPO', '/repo')   # a scratch clone may stand in for /repo (with a scratch copy of /verif)
props = ['C%02d' % i for i in range(1, 21)]
out_path = os.path.join(ROOT, 'seeded', 'CROSS.md')
rows = []
for name in sys.argv[1:]:
    d = os.path.join(ROOT, 'seeded', name)
    st = subprocess.run(['git', '-C', REPO, 'status', '--porcelain'], capture_output=True, text=True).stdout.strip()
    if st:
        print('refusing: /repo has local modifications'); sys.exit(2)
    subprocess.run(['git', '-C', REPO, 'apply', os.path.join(d, 'patch.diff')], check=True)
    alarms = {}
    try:
        for p in props:
            r = subprocess.run([os.path.join(ROOT, 'check'), p], capture_output=True, text=True)
            o = r.stdout + r.stderr
            v = [l for l in o.splitlines() if l.startswith('VIOLATION')]
            if r.returncode != 0 or v:
                first = [l for l in o.splitlines() if 'failing case' in l or 'no longer checks' in l][:1]
                alarms[p] = (v[0] if v else 'rc=%d' % r.returncode, first[0][:300] if first else '')
    finally:
        subprocess.run(['git', '-C', REPO, 'checkout', '--', '.'], check=True)
    rows.append((name, alarms))
    print(name, sorted(alarms), flush=True)
    for p, (v, f) in alarms.items():
        print('   ', p, v[:120], '|', f[:260], flush=True)
