#!/usr/bin/env python3
"""Writes the prompt given to a fresh sub-agent that seeds one property-breaking change (usage: seedprompt.py ROUND Cxx ...).
The agent gets the property text, the earlier seeds' places (to choose another) and a scratch worktree /tmp/seed<ROUND>_Cxx
of /repo; nothing from /verif.  Prompt files go to /tmp/seed<ROUND>_prompt_Cxx.txt."""
import json, os, glob, sys
rnd, ids = sys.argv[1], sys.argv[2:]
props = {}
for l in open('/verif/properties.jsonl'):
    p = json.loads(l); props[p['id']] = p
prev = {}
for d in sorted(glob.glob('/verif/seeded/C??-?')):
    if not os.path.isdir(d): continue
    m = json.load(open(d + '/meta.json')); prev.setdefault(m['property'], []).append(m['change'])
base = '''You are working inside the git worktree %(wt)s (a checkout of the Go library github.com/jsightapi/jsight-schema-core). Do not read or touch /verif or /repo or any other directory (apart from the Go toolchain and module cache). Do not commit anything. Do NOT use `git stash`: to compare with the unchanged tree use `git diff -- . ':!seeddemo' > %(wt)s/seeddemo/patch.diff`, `git apply -R seeddemo/patch.diff` and `git apply seeddemo/patch.diff`.

Environment for every shell command: export GOFLAGS=-mod=mod GOPROXY=off GOSUMDB=off GOTOOLCHAIN=local   (there is no network).
The library's full test suite is run with:  cd %(wt)s && go test -vet=off -count=1 ./...   (about 10 s; on the unchanged tree everything passes except TestEnum_String in notations/jschema/ischema/constraint, which fails under this Go version with or without your change - ignore that one test).

The semantic property to break (JSON):
%(prop)s

Your task: make ONE small, realistic change to the library's non-test source code (the kind of slip a maintainer could make in a refactoring or an optimisation: an off-by-one, a dropped or inverted condition, a forgotten reset, a missing copy, a changed iteration order, a boundary case, a wrong table entry, two sites that each look fine alone ...) such that
 1. the library still compiles and the existing test suite still passes exactly as before (you must run it and see it), and
 2. the property above no longer holds - but only under something specific: a particular unusual input, a multi-step sequence of operations, a particular boundary value, a particular combination, etc. It must NOT be something ordinary use would expose at once, and it must not be a crash on every input.
Other people already tried the following changes for this property; yours must be in a DIFFERENT place and of a different kind than each of them:
%(prev)s
Prefer a change in the files the property is anchored in (a different file or function than the ones above). Do not add build tags, do not edit tests, do not edit go.mod.

Then write a demonstration: a small Go test file or program placed in %(wt)s/seeddemo/ (package main with go run, or a _test.go in that new directory - it may import the library's packages, including internal ones since it lives inside the module) that FAILS (non-zero exit) with your change and PASSES (exit 0) on the unchanged tree. Verify both.

Finally write these files:
 %(wt)s/seeddemo/patch.diff   - output of `git diff` for the library change only (not the demo)
 %(wt)s/seeddemo/README.txt   - 5-10 lines: what the change is, what exactly is needed for the violation to manifest, how to run the demonstration (exact command), and the outputs you observed with and without the change.
Leave the worktree with the change applied and the demo in place. In your final answer, summarise the change, the trigger and the commands you ran with their results.
Separately: if, while exploring, you notice that the UNCHANGED tree already violates the property for some input or some way of using the API (object reuse, unusual registration, repeated calls ...), say so at the end of your answer under the heading "Side observations", each with a minimal reproduction you actually ran. Do not build your seeded change on such an observation.
'''
for i in ids:
    wt = '/tmp/seed%s_%s' % (rnd, i)
    open('/tmp/seed%s_prompt_%s.txt' % (rnd, i), 'w').write(base % dict(wt=wt, prop=json.dumps(props[i], indent=1), prev='\n'.join(' - ' + c for c in prev.get(i, ['(none)']))))
print('ok', {i: len(prev.get(i, [])) for i in ids})
