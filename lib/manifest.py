#!/usr/bin/env python3
"""Regenerates MANIFEST.json from the table below (kept in one place so it always validates)."""
import json, os, subprocess
ROOT = os.path.dirname(os.path.dirname(os.path.abspath(__file__)))
ids = [json.loads(l)['id'] for l in open(os.path.join(ROOT, 'properties.jsonl'))]

CLAIMS = {
 'C19': dict(
   category='proof',
   text='Coq theorems (C19_refines, C19_marshal, C19_marshal_wf, C19_one_entry_per_key, C19_stringset): the model of the '
        'generated containers returns, for EVERY operation history and EVERY callback, exactly what an insertion-ordered '
        'dictionary returns. The model is hand-written and tied to the code on every run by running the extracted model and '
        'the three real maps + the string set on all histories up to a length bound plus random long ones.',
   note='Trusted: Coq kernel; extraction (ExtrOcamlBasic) + OCaml driver; harness adapters; model is of the repaired code '
        '(fix: commits 07f1327, c55e17f). Callbacks assumed pure. No axioms (Closed under the global context).',
   technique='Coq refinement proof (invariant by induction over histories) + extracted-model/implementation correspondence',
   ref='section 9, C19'),
 'C13': dict(
   category='proof',
   text='Coq theorems over the model of json/scanner.go + json/number.go + bytes.ParseUint/ParseInt: whatever NewNumber accepts is a '
        'JSON number (all byte strings); every JSON number except the recorded finding F13b is accepted, normalised and denotes the '
        'value of its text (exponent and length up to 2^40); Cmp/Equal/GT/GTE/LT/LTE on normal forms equal exact comparison of m*10^k '
        'values in Z, hence two accepted texts compare like their values; String() is a JSON number of the same value; '
        'LengthOfFractionalPart() is the least k making value*10^k an integer. Model tied to the code by running the extracted model '
        'and NewNumber on all strings up to a length bound, all pairs of a small-scope pool and random long numbers.',
   note='Trusted: Coq kernel (vm_compute only in the refutation witness and the example); extraction + OCaml driver; harness; '
        'Spec/Decimal.v (decomposition grammar, values in Z). Known finding F13b (0e5 rejected; pinned by number_test.go) is excluded '
        'by the hypothesis known_F13b s = false and refuted by witness C13_grammar_full_refuted. Exponents above 2^40 are outside the '
        'theorems (finding F13e, C02). No axioms.',
   technique='Coq proofs (scanner characterised by text decomposition, digit arithmetic) + extracted-model/implementation correspondence',
   ref='section 9, C13'),
 'C20': dict(
   category='proof',
   text='Type tables (SchemaType constants, IsValidType key set and answers, IsEqualSoft on all 18x18 pairs, token-type mappings, '
        'json.Type tables, NewJsonType) are regenerated from /repo by the translator on every run and the theorems over them '
        '(exact vocabulary, reflexivity, symmetry and documented families outside finding F20a, token agreement) are re-proved by '
        'computation over the finite domain. GuessSchemaType is modelled (on top of the C13 number model) and proved to agree with '
        'json.Guess(..).JsonType() on every byte string; the model is a function, and the code is compared with it 64 times per input.',
   note='Trusted: Coq kernel incl. vm_compute; translator gotables (go/parser + evaluation); Spec/TypeVocab.v; extraction, driver, harness. '
        'Known finding F20a (null~array one-directional, pinned by a stable subtest name) excluded by known_F20a and refuted by witness. No axioms.',
   technique='Coq proof by computation over tables regenerated from source + model/implementation correspondence for the guesser',
   ref='section 9, C20'),
 'C12': dict(
   category='proof',
   text='Coq theorems over the model of formats/json/scanner.go + json.go: for EVERY byte string, what Check() accepts is an RFC 8259 '
        'JSON text (inductive grammar Spec/JsonGrammar.v), and with the trailing option a JSON value followed by anything; the scanner '
        'never panics and never fails with an internal code, every error is 301/303 at an index inside the text. Proof by residual '
        'languages: one closure lemma per abstract state and byte class, byte classes checked over all 256 bytes by computation. '
        'The converse is a theorem too (C12_complete, C12_iff: accepted exactly the RFC 8259 texts): the abstract states form a '
        'deterministic pushdown automaton that the model simulates step by step and that runs through every word of the grammar; with '
        'the trailing option every value followed by anything is accepted unless the continuation extends a number (maximal munch, '
        'corner shown by witness). Len() of a document is the length of the value without the blanks after it (C12_len, through the '
        'position of the last lexeme of the stream); its lexeme stream is properly nested and every span lies inside the text with '
        'begin <= end (C12_nested, C12_spans); every literal lexeme spans exactly a JSON scalar and every key lexeme exactly a JSON string '
        '(C12_literal_spans: the bytes consumed since the begin on the stack are a prefix of a scalar whose remainder is the residual '
        'language of the state). That the rebuilt tree equals an independent decoder\'s rests on the correspondence (model = implementation on '
        'all strings of up to 5 tokens over a 28-symbol alphabet, documents, truncations, mutations) and on the independent decoder '
        '(python json, strict) that judges validity, the tree rebuilt from the lexeme stream, span containment and Len on every case.',
   note='Trusted: Coq kernel incl. vm_compute (byte-class table); hand-written model tied by correspondence; extraction, driver, harness '
        '(hook kit.VerifHasIndex); Spec/JsonGrammar.v. Texts that are not UTF-8 are outside the statement. No axioms.',
   technique='Coq proof (residual languages against the RFC 8259 grammar, invariant over all configurations) + model/implementation '
             'correspondence + independent-decoder oracle',
   ref='section 9, C12'),
 'C18': dict(
   category='proof',
   text='Coq theorems over the model of notations/regex/regex.go: a text is accepted exactly when it is "/" p "/" rest with that '
        'slash being the first unescaped one (even run of backslashes before it; loop invariant on the escape flag) and p compiles '
        '(regexp.Compile is a parameter); otherwise a regex code 1500/1501/1502 at an index inside the text (empty text: code 202, no '
        'position); Len = |p|+2 lies inside the text and the AST value is that prefix; the OpenAPI pattern of the AST value is p. '
        'Example()/pattern agreement and the referring-schema clause depend on reggen/regexp and are judged by the oracle on every case.',
   note='Trusted: Coq kernel; model tied by correspondence (pattern, Len, AST value, OpenAPI pattern, error code and index); regexp.Compile '
        'instantiates the model parameter at run time; reggen, regexp.Match not modelled. Known finding F18d (misplaced anchors). No axioms.',
   technique='Coq proof (loop invariant, characterisation of acceptance) + model/implementation correspondence + oracle for the library-dependent clauses',
   ref='section 9, C18'),
 'C16': dict(
   category='proof',
   text='Coq theorems: bytes.LineAndColumn/NewLineSymbol give 1 + number of terminators before the byte and 1 + distance to the line '
        'start for every index of every LF, CR or CR LF text (spec in Spec/LineColSpec.v); the line start lies at or before the index '
        'and the pointer line renders for every index inside the text; over the error-format table regenerated from /repo on every '
        'run: each of the ~250 F(...) call sites passes as many arguments as its format has verbs, only %q %s %d %v are used, every '
        'code constant has a format, codes are distinct. That an entry point returns only designed errors positioned inside the text is '
        'a theorem for the JSON document scanner (C12_total), number scanner and regex schema; for the schema and enum scanners it is '
        'established on the explored inputs only (every truncation and token mutation of valid inputs under LF/CRLF/CR, all short '
        'strings), where each rejection is compared with the model (line, column, quoted line, pointer) and judged by the oracle.',
   note='Trusted: Coq kernel incl. vm_compute; translator gotables (AST of errs/code.go and of all call sites); model LineCol.v tied by '
        'correspondence; harness with hook kit.VerifHasIndex. Partial for the schema/enum entry points (scanners not yet modelled).',
   technique='Coq proofs (line/column arithmetic, rendering, regenerated format table) + correspondence + exploration of rejections per entry point',
   ref='section 9, C16'),
 'C10': dict(
   category='proof',
   text='Coq theorem over the pool model (sync.Pool may hand out any pooled buffer): if every pool site returns a copy, every value '
        'returned so far reads the same after ANY continuation of the history; the site table is regenerated from /repo on every run '
        '(AST: every function taking a buffer from a pool, each return classified as storage or copy, deferred Put; loader fields vs '
        'the fields reset() assigns) and the theorems "all sites copy" and "reset is total" are re-proved over it. Histories over 1-4 '
        'schema objects (valid, invalid, failing half-way) run on the real library with every returned value snapshotted and every '
        'result compared with a fresh-process evaluation; also histories in which several schemas are given the SAME type and rule '
        'objects (every answer must be the one the schema gives with objects of its own).',
   note='Trusted: Coq kernel incl. vm_compute; translator gotables PoolSites (syntactic alias classification); the semantics given to '
        'sync.Pool; harness. State outside pools and the loader (none known; package-level variables are C11/C09) is covered by the histories only.',
   technique='Coq proof over a pool/heap model + source-regenerated site inventory + history exploration against fresh-process results',
   ref='section 9, C10'),
 'C11': dict(
   category='other',
   text='Decided on the real code by a race-detector build of the harness: goroutines (2/4/16, GOMAXPROCS 1/2/4/16) working on their '
        'own schema/regex/enum/JSON/number objects, and the six read operations called concurrently on shared schema objects and on shared regex schema objects; every '
        'result is compared with the sequential result and every race report is a violation. Supporting Coq theorems: ErrOnce runs '
        'its function once and all callers get that result under any arrival order; a pool site that returns the buffer storage is '
        'overwritten under an interleaving (witness in the thread model); all pool sites of the current tree copy (regenerated table); '
        'and for EVERY schedule and every choice of buffers by Get the thread model keeps exclusive ownership (no buffer held twice or '
        'pooled while held), so a call that returns a copy returns its own output (C11_exclusive_ownership, C11_copy_calls_sequential).',
   note='A Gallina model cannot exhibit a data race on real memory; races are only seen under the schedules the detector happens to run. '
        'The thread model takes Get, Write, evaluating the result and Put as atomic steps and sync.Once as atomic (their contracts).',
   technique='race detector + sequential-result comparison; Coq model-level theorems as support (technique family applies only to the logic part)',
   ref='section 9, C11'),
 'C09': dict(
   category='proof',
   text='Every `range` over a map in the repository (with the syntactic class of its loop body) and every %p verb is re-derived from '
        'source with go/types on every run; the theorem C09_sites_accounted says each one is an accounted site, and each accounted '
        'loop shape is order-free by a generic Coq theorem quantified over all visiting orders (first match with mutually exclusive '
        'keys; copying entries with distinct keys - also only the missing ones -; clearing a map; collect-sort-walk). A new map range, a dropped sort or a new '
        'pointer format breaks the obligation. The premises of the generic theorems at each site are argued in DESIGN, and every '
        'input is run 8x in one process, in 3 processes (one with GOGC=1) and under permutations of AddType/AddRule in both '
        'registration styles with all public results (incl. a hash of the error message) compared byte for byte; chains of '
        'registrations, one object per type used again by every repetition, one regex schema object asked several times.',
   note='Trusted: Coq kernel incl. vm_compute; translator gotables NondetSites (go/types with the source importer); the per-site argument '
        'that the premises hold (one type rule per node; distinct copied keys); harness. Goroutine scheduling is C11.',
   technique='Coq proofs of order-freeness per loop shape + source-regenerated inventory of map ranges + repetition/permutation exploration',
   ref='section 9, C09'),
 'C06': dict(
   category='proof',
   text='Coq theorems over the model of check_recusrion.go and of the example builder: for every project, table configuration and fuel, '
        'an "infinite recursion" verdict implies the root has no finite instance (infinite descent on the height of an instantiability '
        'derivation); a root that requires itself through mandatory single-name links of any length is reported; the checker '
        'terminates within an explicit fuel bound (every followed reference adds a new name of the finite universe of the nested '
        'tables to `visited`), never fails with a code, and more fuel never changes its verdict (C06_checker_decides) - so both '
        'directions hold outright (C06_instantiable_accepted, C06_self_requiring_reported); the example builder terminates within an explicit fuel bound (each type expanded at most twice on a path) and the '
        'bytes it writes form an RFC 8259 value (Spec/JsonGrammar.v). Tie: model vs Check()/Example() on all graphs over root + 2 types '
        'with every edge kind, checked schemas and types that are bare references or choices, chains up to length 6 with one weakened link at every position, random graphs over up to 6 types, in '
        'both registration styles; an independent python oracle computes instantiability and mandatory chains.',
   note='Trusted: Coq kernel; model tied by correspondence (104 verdict, shape of the example); schema text printer and python oracle. '
        'The correspondence runs the model with check_fuel + 4000. Only value shortcuts are links. No axioms.',
   technique='Coq proofs (infinite descent, induction on derivations, fuel bound) + model/implementation correspondence + graph oracle',
   ref='section 9, C06'),
 'C07': dict(
   category='proof',
   text='Coq theorems relating the model of compiler_all_of.go to a declarative specification of inheritance (Spec/Inherit.v: own '
        'properties, then those of each named type in rule order, transitively, each marked with its origin and keeping optionality): '
        'soundness (an accepted object is the merge), completeness (every merge is accepted for all large enough fuel - no false '
        'refusal), a refusal with any code means no merge exists, uniqueness, the shape theorem (key/optional/origin list = own ++ '
        'inherited, names distinct), and one theorem per defect (cyclic chain - also through nested objects -, missing type, non-object, '
        'duplicated name, conflicting additionalProperties) showing it rules out a merge; for all definitions, stacks and fuels. Tie: '
        'model vs the compiled node tree of the real schema (key, optional, InheritedFrom), verdict code, keys of Example() and of the '
        'OpenAPI property listing, on root + 2 types exhaustively, all additionalProperties pairs, chains/cycles up to 6, diamonds and '
        'random graphs with nested objects; an independent python merge oracle.',
   note='Trusted: Coq kernel; model tied by correspondence; text printer and python oracle; harness reading ischema nodes. Termination of the compiler '
        'model is proved (C07_terminates; measure: defined names not on the stack, then node structure), so it decides inheritance '
        '(C07_decides). allOf inside arrays is not generated. No axioms.',
   technique='Coq proofs (soundness/completeness against a declarative spec, mutual induction, fuel monotonicity) + correspondence + oracle',
   ref='section 9, C07'),
 'C05': dict(
   category='proof',
   text='Coq theorems over the model of the collector and of name resolution (Model/Refs.v): UsedUserTypes() is duplicate-free and lists '
        'exactly the names in a reference position of the schema (Refers: type, or - names and rule-sets -, value shortcut and choice, key '
        'shortcut, allOf, additionalProperties; any depth), proved through the accumulator with its "already processed" set; the names '
        'Check() may report as not found are exactly the unregistered names referred to by the root or a registered type; an unregistered '
        'type reachable from the root is reported (if), and the converse holds whenever the registered types the root does not reach refer '
        'to registered types only (iff); registering one more valid unreferenced type changes neither list. Tie: model vs '
        'UsedUserTypes() (ordered) and the 1302 verdict with the named type, for every reference position x every subset of its targets '
        'registered (at the root, in a used type, in an unused type) and random valid projects x every subset of their types withheld, '
        'with and without extra unused types, in both registration styles; independent python reachability oracle.',
   note='Trusted: Coq kernel; model tied by correspondence; text printer and oracle; harness. The code checks every registered type, so a '
        'registered but unreachable type that names a withheld type also yields 1302: the iff of the statement is claimed under the '
        '"valid types" premise only (no alarm in that corner). No axioms.',
   technique='Coq proofs (accumulator invariant, nested induction over the node tree) + correspondence over registered subsets + oracle',
   ref='section 9, C05'),
 'C17': dict(
   category='proof',
   text='Coq theorems over a lexer/parser model of the enum rule language (Model/EnumParse.v): whatever Check() accepts is an enum text of '
        'the declarative grammar (blanks, "[", then RFC 8259 scalars without exponent separated by commas, "]", with blanks, newlines, '
        '"//" and "/* */" annotations between the items), Values() lists exactly its scalars in order, and no two of them denote the same '
        'string (escapes and UTF-8 decoded) or are the same literal; for all byte strings. Tie: model vs Check()/Values() - verdict, '
        'literals, kinds - on every concatenation of up to 4 (quick) / 5 (thorough) of 16 tokens, structured random lists over a pool of '
        'tricky scalars with 12 annotation layouts, all truncations of a sample and every ordered pair of the pool; an independent '
        'reference parser (regex + json.loads) as oracle; `enum: @name` against the inline list on the real loader (differential).',
   note='Trusted: Coq kernel; the model is a parser for the language, not a transcription of the state machine - the tie is the '
        'correspondence; reference parser; harness. The converse (every enum text with pairwise different scalars is accepted and listed back) is proved for the '
        'grammar with its reading conventions explicit (C17_complete). Partial: the named/inline equivalence is a differential test of the two code paths. A lone surrogate '
        'escape is read as U+FFFD (as the code does). No axioms.',
   technique='Coq soundness proof of a language model against an inductive grammar + token-exhaustive correspondence + reference-parser oracle',
   ref='section 9, C17'),
 'C01': dict(
   category='proof',
   text='Coq theorems saying what the text-level checks of the checker MEAN (Model/RuleSem.v, tied to Check() by correspondence): min/max '
        'compare the exact decimal values the example and the bound denote, for every spelling (trailing zeros, -0, 20-digit integers, long '
        'fractions), strictly when exclusive (through C13: nscan/ncmp vs value_of/dcmp); precision bounds the number of significant fraction '
        'digits; minLength/maxLength count the characters of the decoded string; enum = some entry denotes the same string or is the same '
        'literal; const = equal to the example of the type the rule belongs to; a node accepts null when nullable, otherwise requires its '
        'type (unless enum) and every rule; `or` and references accept when the example type is among the alternatives and SOME alternative '
        '(rule-sets and named types, followed transitively) accepts; arrays respect minItems/maxItems; a project is accepted exactly when the '
        'root example and the example of every registered type pass. Tie: verdict class (accepted / rejected for a value reason) on a '
        '22x22 boundary grid x min/max x exclusive, precision, strings incl. escapes/non-ASCII/astral, enum lists, every value x every '
        'type, nullable/const/any, item counts, and random projects of 0-4 user types with rules inside or, inside types and types '
        'referenced from or and other types; independent exact-rational python oracle.',
   note='Trusted: Coq kernel; model tied by correspondence on the verdict class; text printer and oracle; harness. Not modelled: regex and '
        'the built-in string formats; rule sets the compiler refuses as ill-formed are outside the statement (counted in the evidence). '
        'The flattening of alternatives is exact (C01_alternatives_exact: sound, and complete once the fuel covers the walk - the result of the '
        'depth-first walk is closed under "is an alternative of"; the model runs with proj_fuel, which does: C01_fuel_enough). No axioms.',
   technique='Coq proofs (meaning of each validator over decimal values and decoded strings, any-alternative semantics) + correspondence + oracle',
   ref='section 9, C01'),
 'C03': dict(
   category='proof',
   text='Coq theorems over the plain-JSON model (Model/JsonValue.v: the tree the loader builds, Example() as a printer, the AST shape): '
        'every rendering of a tree of RFC 8259 scalars without exponent, with any blank space between the tokens and around the text, '
        'whose objects have no two keys denoting the same string, is accepted and the tree built is exactly that tree (members in order, '
        'key texts, literals), with an explicit fuel bound; a scalar is recognised identically in every context that cannot extend it. '
        'Tie: verdict, the exact bytes of Example() and the shape of GetAST() (kinds, decoded keys and strings, literals) against the model '
        'on every scalar of a pool of 32 with 25 paddings, every key of 16 with 8 values, every ordered key pair, 4^5 whitespace layouts, '
        'random trees rendered with random whitespace, malformed texts; python json as independent oracle that Example() denotes the same '
        'value and the AST reports the document.',
   note='Trusted: Coq kernel; model tied by correspondence; python oracle; harness. The printer direction is proved as well (C03_example_roundtrip: Example() of an accepted text is accepted again with the '
        'same shape, literals and key denotations; the encoder/decoder round trip over all Unicode scalar values with UTF-8 and surrogate '
        'pairs). The parser model is sound as well (C03_accept_iff: accepted exactly the renderings of trees without duplicate keys); the AST clause is correspondence + oracle. No axioms.',
   technique='Coq completeness proof of a parser model against a rendering relation (mutual induction, explicit fuel bound) + correspondence + oracle',
   ref='section 9, C03'),
 'C15': dict(
   category='proof',
   text='Coq theorems on the plain-JSON model (jlen = where the parser stops): for every rendering of a value with any leading blank space, '
        'the length is the end of the root value whatever follows it (anything that cannot extend a number), hence two different trailers '
        'give the same length, Len <= len, the prefix up to Len is the schema (and is accepted with the same tree, C03), and Len of the '
        'prefix is Len. Tie: Len() of the implementation against jlen on random JSON documents followed by LF/CRLF and every first byte '
        'of a trailer except "/" and "#", and by foreign bytes on the same line. For schemas with annotations, notes and comments the four '
        'clauses of the statement are decided on the implementation itself (prefix verdict and AST, idempotence, 254 trailer first bytes x '
        'LF/CRLF) over the sample schemas and 25 annotated ones.',
   note='Trusted: Coq kernel; model tied by correspondence for plain JSON; for annotated schemas there is no model - the clauses are checked '
        'as relations between runs of the implementation (partial). A trailer whose first non-blank byte is "/" or "#" continues the '
        'schema and is outside the statement. No axioms.',
   technique='Coq theorems on the parser model (boundary independent of the continuation) + correspondence + metamorphic checks on the implementation',
   ref='section 9, C15'),
 'C04': dict(
   category='proof',
   text='Coq theorem over the schema-text model (Model/SchemaText.v: lexer with whole annotations as tokens - rule object with nested '
        'lists and rule-sets, note - and parser): every way of writing a tree as tokens (each annotation after the token of the node it '
        'belongs to or, for scalars and references, after the following comma) is parsed back to exactly that tree - same nodes in order, '
        'keys and key shortcuts, literals, annotations with rule names and values in source order, nothing else (mutual induction, explicit '
        'fuel bound). Tie: the dump of GetAST() (kinds, decoded keys and scalars, reference texts, manual rules in order with values incl. '
        '20-digit numbers, enum/or/allOf lists, rule-sets, notes) against the model on generated schema models printed under 4 layouts each; '
        'the expected dump computed from the generating model is the oracle.',
   note='Trusted: Coq kernel; model tied by correspondence; printer and dump in python; harness. The theorem is at the token level; the lexer and the inside of the '
        'annotations (rule objects with bare or quoted names, line and block spelling) are the C14 theorems; annotation placements other than "after the value / after the '
        'opening bracket" are not modelled; GetAST() reports allOf with one name as a single name (compared as such); generated rules are '
        'not compared. No axioms.',
   technique='Coq completeness proof of a token-level parser model (source -> tree homomorphism) + correspondence on printed models',
   ref='section 9, C04'),
 'C14': dict(
   category='proof',
   text='Coq theorems on the lexer of the schema-text model: any run of blanks (space, tab, LF, CR) before a token changes nothing; a line '
        'ends with LF or CR alike for comments and inline annotations; a `#` comment carries no token; `// note` and `/* note */` are the same '
        'annotation token; an annotation before or after the comma gives the same tree (with C04: the tree depends on the token sequence only). '
        'Tie and decision: every generated schema model is printed under 7 layouts (LF/CRLF/CR, inline/block annotations, quoted/bare rule names, '
        'comma placement, # and ### comments, padding, indentation, blank lines) and the annotated sample schemas under context-free '
        'transformations; all layouts must give the same verdict, AST dump (also equal to the model and to the generating model), example, '
        'used types and OpenAPI JSON.',
   note='Trusted: Coq kernel; model tied by correspondence; printer; harness. The composition is proved too: every layout (SLay) of a token sequence is lexed back to it, so every '
        'layout of every writing of a tree gives that tree (C14_lexer_layout, C14_layout_independent). The inside of an annotation is a theorem too: every writing '
        'of a rule object (bare or quoted rule names, scalars, @names, lists, rule-sets, blanks) is read back (C14_rule_object), and so is the annotation '
        'around it - on the line with optional note and # comment, or in a block (C14_annotation_rules, C14_annotation_rules_note, C14_block_rules, '
        'C14_rules_line_or_block). No axioms.',
   technique='Coq lexer lemmas per layout dimension + token-level parser theorem + pairwise comparison of all observables across layouts',
   ref='section 9, C14'),
 'C08': dict(
   category='proof',
   text='Decided on the implementation\'s own output by an independent JSON Schema validator (python jsonschema, draft-04 semantics with exact '
        'numbers, OpenAPI 3.0 `nullable` lowered): for generated schema models and the sample schemas, Example() and the OpenAPI conversion '
        'succeed, the output is a well-formed Schema Object (keyword and type discipline checked), and the example and - one scalar at a time - '
        'every value of a pool that the leaf\'s own rules accept (judged by the exact C01 oracle) are valid instances, with the registered '
        'types converted as components. Coq theorems over a model of the converter (Model/OasLeaf.v, Model/OasTree.v): for every scalar node, '
        'every value its rules accept - type, min/max with exclusivity, minLength/maxLength in characters, precision, enum, const, nullable, '
        'whatever the spelling - is valid against the keywords emitted for it (type, minimum.., minLength/maxLength, multipleOf = 10^-precision, '
        'enum, nullable) under their JSON Schema / OpenAPI 3.0 meaning on the denoted values (C08_leaf_sound, through C01/C13); and for every '
        'schema without references built from such nodes and from scalar nodes with an `or` rule over built-in types and rule-sets (anyOf) under arrays (items as anyOf, item counts, empty array closed) and objects '
        '(properties, required, additionalProperties false / any / a type name) every value the schema accepts, in particular its own '
        'example, is valid against the converted Schema Object (C08_tree_sound, C08_example_valid). References (a value written as a type '
        'name, a type choice, a scalar with type: "@name", type names among the alternatives of `or`, additionalProperties naming a type) are in the model too (Model/OasRef.v): given the registered types, every value a schema '
        'accepts - a reference accepts what its type accepts, by a derivation of any height, so recursive types are covered - is valid '
        'against the converted schema with $ref resolved in the components (C08_ref_sound); the example of a schema whose references are '
        'not recursive is such a value (C08_ref_example_valid). additionalProperties is modelled for every type name of the vocabulary. The '
        'whole emitted Schema Object is compared with the model on scalar nodes at the edges of every rule and on random trees with references.',
   note='Trusted: Coq kernel; the validator (jsonschema 4.26, formats not enforced, 2000-digit decimal context) and the well-formedness rules in '
        'lib/oracles/oas_validate.py; the C01 oracle for "still accepted"; harness; `inst` (the values a schema accepts) is the documented meaning '
        'of a JSight schema, not code of this library. Key shortcuts are in the converter model and in C08_ref_sound (their example, which needs the key type\'s example, is judged by the validator only). Outside the model (validator only): '
        'allOf, the cut-off of Example() on recursive types (C06 model), formats and patterns. Known finding F08b (allOf next to additionalProperties: false) is pinned by the existing tests and '
        'not repaired; F08c (multipleOf in float64) was found by this tie and repaired. No axioms.',
   technique='Coq soundness theorems of the schema->Schema Object translation (scalar nodes in full, trees with references to registered types) tied by correspondence + translation validation by an independent validator',
   ref='section 9, C08'),
 'C02': dict(
   category='other',
   text='Two parts. (1) Coq totality theorems for the models of the byte-level entry points, each tied to the code by the correspondence '
        'of its own property: the JSON document scanner (lexemes or error 301/303 inside the text, never a panic), NewNumber (a number or '
        'an error for every byte string: the exponent is never read past the end nor turned into an allocation beyond the limit), '
        'GuessSchemaType/json.Guess, the enum rule parser, the regex schema (accepted or a positioned error), the rendering of a '
        'diagnostic. (2) Supervised execution of EVERY public operation (Len, Check, Example, GetAST, UsedUserTypes, OpenAPI conversion, '
        'AddType/AddRule, enum, regex, JSON documents in both modes, NewNumber, GuessSchemaType) under a 3 GB address-space limit and a '
        'per-case timeout, with recover() around each call and bisection of a batch that does not come back, on: every prefix, every '
        'single-byte deletion and random special-byte edits of valid inputs of each kind; pathological sizes (deep nesting, 10^5 items, huge '
        'exponents); configurations of three user types over 18 bodies (self-naming choices, key shortcuts, allOf, or, additionalProperties, '
        'enum rules) in both registration styles.',
   note='A theorem cannot exhibit a stack overflow, an out-of-memory abort or a slow run: those are runtime behaviour; the totality theorems '
        'cover the logic of the modelled entry points only (the schema scanner/loader/compiler are not modelled state by state), and the rest '
        'is observed on the inputs above - hence category other. Example() and the OpenAPI conversion are quadratic in the nesting depth '
        '(20000 levels: about 12 s): bounded, recorded as an observation. No axioms.',
   technique='Coq totality proofs of the entry-point models + supervised mutation/size/configuration runs of every public operation',
   ref='section 9, C02'),
}

def main():
    hooks_commits = []
    try:
        out = subprocess.run(['git', '-C', '/repo', 'log', '--format=%H %s'], stdout=subprocess.PIPE, text=True).stdout
        hooks_commits = [l.split()[0] for l in out.splitlines() if ' verif hook' in l or l.split(' ', 1)[1].startswith('verif:')]
    except Exception:
        pass
    checks = []
    for i in ids:
        if i in CLAIMS:
            c = CLAIMS[i]
            checks.append(dict(property_id=i, quick_cmd='./check %s --tier quick' % i,
                               thorough_cmd='./check %s --tier thorough' % i,
                               evidence_file='/verif/evidence/%s.json' % i,
                               replay_cmd_template='./check %s --replay {path}' % i,
                               engine='coq-proof+correspondence',
                               level_claimed=dict(category=c['category'], text=c['text'], design_ref=c['ref']),
                               level_note=c['note'], technique=c['technique']))
    m = dict(version=1, setup_cmd='./setup.sh',
             hooks=dict(guard='verif', enable='go build -tags verif (harness module /verif/harness, replace => /repo)',
                        baseline_off_cmd='python3 /verif/lib/baseline.py /repo', source_commits=hooks_commits, add_only=True),
             engines=[dict(name='coq-proof+correspondence', path='/verif/check', serves_properties=sorted(CLAIMS),
                           kind_free_text='Coq 8.16.1 theorems over executable Gallina models; models regenerated from /repo '
                                          '(gotables) or hand-written and run against the implementation (extracted OCaml vs Go harness)')],
             checks=checks,
             notes='See DESIGN.md. ./check Cxx --tier quick|thorough [--replay F]; known findings in known_findings.json.',
             not_applicable=[dict(property_id=i, reason='check not built yet (work in progress; planned theorems in DESIGN.md section 9)')
                             for i in ids if i not in CLAIMS])
    json.dump(m, open(os.path.join(ROOT, 'MANIFEST.json'), 'w'), indent=1)

if __name__ == '__main__':
    main()
