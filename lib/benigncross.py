#!/usr/bin/env python3
"""For each named behaviour-preserving change (benign/<name>/patch.diff): apply it to /repo, run the quick check of EVERY
property, restore /repo.  Every alarm is a false alarm to look at (or shows that the change is not behaviour-preserving
after all).  Writes benign/RESULTS.md.  Never commits anything to /repo."""
import subprocess, sys, os
ROOT = os.path.dirname(os.path.dirname(os.path.abspath(__file__)))
REPO = os.environ.get('VERIF_REPO', '/repo')   # a scratch clone may stand in for /repo (with a scratch copy of /verif)
props = ['C%02d' % i for i in range(1, 21)]
rows = []
for name in sys.argv[1:]:
    d = os.path.join(ROOT, 'benign', name)
    st = subprocess.run(['git', '-C', REPO, 'status', '--porcelain'], capture_output=True, text=True).stdout.strip()
    if st:
        print('refusing: /repo has local modifications'); sys.exit(2)
    subprocess.run(['git', '-C', REPO, 'apply', os.path.join(d, 'patch.diff')], check=True)
    alarms = {}
    try:
        for p in props:
            r = subprocess.run([os.path.join(ROOT, 'check'), p], capture_output=True, text=True)
            o = r.stdout + r.stderr
            v = [l for l in o.splitlines() if l.startswith('VIOLATION')]
            if r.returncode != 0 or v:
                first = [l for l in o.splitlines() if 'failing case' in l or 'no longer checks' in l or 'BROKEN' in l][:2]
                alarms[p] = (v[0] if v else 'rc=%d' % r.returncode, ' / '.join(x[:300] for x in first))
    finally:
        subprocess.run(['git', '-C', REPO, 'checkout', '--', '.'], check=True)
        subprocess.run(['git', '-C', REPO, 'clean', '-fdq'], check=True)
    rows.append((name, alarms))
    print(name, sorted(alarms) or 'quiet', flush=True)
    for p, (v, f) in alarms.items():
        print('   ', p, v[:140], '|', f[:400], flush=True)
with open(os.path.join(ROOT, 'benign', 'RESULTS.md'), 'a') as f:
    for name, alarms in rows:
        f.write('| %s | %s |\n' % (name, ', '.join('%s (%s)' % (p, v[0].split('replay=')[-1][:80]) for p, v in sorted(alarms.items())) or 'all 20 checks quiet'))
