#!/usr/bin/env python3
"""Run every seeded change against the check of its property (and optionally others) and write seeded/RESULTS.md.
Never commits anything to /repo; each patch is applied, checked and removed again."""
import json, os, subprocess, sys, re
ROOT = os.path.dirname(os.path.dirname(os.path.abspath(__file__)))
REPO = os.environ.get('VERIF_REPO', '/repo')   # a scratch clone may stand in for /repo (with a scratch copy of /verif)
rows = []
only = set(sys.argv[1:])        # seed names: run these only, keep the other rows of RESULTS.md as they are
kept = {}
if only and os.path.exists(os.path.join(ROOT, 'seeded', 'RESULTS.md')):
    for l in open(os.path.join(ROOT, 'seeded', 'RESULTS.md')):
        c = [x.strip() for x in l.strip().strip('|').split(' | ')]
        if len(c) == 6 and re.fullmatch(r'C\d\d-\d', c[0]):
            kept[c[0]] = tuple(c)
for name in sorted(os.listdir(os.path.join(ROOT, 'seeded'))):
    d = os.path.join(ROOT, 'seeded', name)
    if not os.path.isdir(d) or not re.fullmatch(r'C\d\d-\d', name):
        continue
    if only and name not in only:
        if name in kept:
            rows.append(kept[name])
        continue
    meta = json.load(open(os.path.join(d, 'meta.json')))
    prop = meta['property']
    st = subprocess.run(['git', '-C', REPO, 'status', '--porcelain'], capture_output=True, text=True).stdout.strip()
    if st:
        print('refusing: /repo has local modifications'); sys.exit(2)
    if subprocess.run(['git', '-C', REPO, 'apply', os.path.join(d, 'patch.diff')]).returncode != 0:
        rows.append((name, prop, 'PATCH DOES NOT APPLY', '-', '', meta['change'][:110]))
        print(rows[-1][:5])
        continue
    try:
        r = subprocess.run([os.path.join(ROOT, 'check'), prop], capture_output=True, text=True)
        out = r.stdout + r.stderr
    finally:
        subprocess.run(['git', '-C', REPO, 'checkout', '--', '.'], check=True)
    viol = [l for l in out.splitlines() if l.startswith('VIOLATION')]
    summary = [l for l in out.splitlines() if re.match(r'C\d\d (quick|thorough):', l)]
    concrete = bool(viol) and 'no-failing-input-found' not in viol[0]
    rows.append((name, prop, 'caught' if (r.returncode == 1 and viol) else 'MISSED', 'concrete failing input' if concrete else ('tie/proof only' if viol else '-'),
                 summary[-1] if summary else '', meta['change'][:110]))
    print(rows[-1][:5])
with open(os.path.join(ROOT, 'seeded', 'RESULTS.md'), 'w') as f:
    f.write('# Seeded changes against the checks (lib/seedall.py)\n\n| seed | property | result | how | check summary | change |\n|---|---|---|---|---|---|\n')
    for r in rows:
        f.write('| %s | %s | %s | %s | %s | %s |\n' % r)
print('written')
