"""C03 - plain JSON is a valid schema and is preserved by Example() and the AST."""
import itertools, json, re
import vf
from vf import Case
from props.c10 import hx, spec

SCAL = ['0', '-0', '1', '-12', '3.14', '-0.50', '12345678901234567890123', '0.000', 'true', 'false', 'null', '""', '"a"', '"a b"', '"\\u0041"', '"\\n\\t"',
        '"\\\\"', '"\\""', '"\\/"', '"é"', '"\\u00e9"', '"\\ud83d\\ude00"', '"😀"', '"<&>"', '"\\u2028"', '"//"', '"/*"', '"#"', '"@t"', '"{"', '"1"', '"null"']
KEYS = ['"a"', '"b"', '"a b"', '"\\u0061b"', '""', '"\\n"', '"\\""', '"é"', '"\\u00e9x"', '"<k>"', '"\\ud83d\\ude00"', '"k1"', '"@k"', '"#"', '"//"', '"0"',
        '"\\u0001"', '"a\\u0007b"', '"\\u000b"', '"\\u001f\\u0000"', '"del\\u007f"', '"\\\\"', '"\\/\\b\\f\\r\\t"', '"\\u2028\\u2029"', '"\\u0080\\u009f"', '"\\udb40\\udc01"', '"\\ufffe\\uffff"', '"&amp;\'"',
        # keys whose own text looks like a JSON string or a type name again
        '"\\"a\\""', '"\\"\\""', '"\\"n\\u0061me\\""', '"\\"@t\\""', '"\\"a"', '"a\\""']
WS = ['', ' ', '  ', '\n', '\r\n', '\t', '\n  ', ' \n']


def dec(s):
    return re.sub('[\ud800-\udfff]', '�', json.loads(s))


def kind(l):
    if l[0] == '"':
        return 'string'
    if l in ('true', 'false'):
        return 'boolean'
    if l == 'null':
        return 'null'
    return 'float' if '.' in l else 'integer'


# value tree: ('L', text) | ('A', [tree]) | ('O', [(key text, tree)])
def render(v, rng):
    w = lambda: rng.choice(WS) if rng.random() < 0.5 else ''
    if v[0] == 'L':
        return v[1]
    if v[0] == 'A':
        return '[' + w() + ','.join(w() + render(x, rng) + w() for x in v[1]) + ']'
    return '{' + w() + ','.join(w() + k + w() + ':' + w() + render(x, rng) + w() for k, x in v[1]) + '}'


def want_shape(v):
    if v[0] == 'L':
        val = dec(v[1]).encode('utf-8') if v[1][0] == '"' else v[1].encode()
        return 'L%s:%s' % (kind(v[1]), val.hex() or '-')
    if v[0] == 'A':
        return 'A[' + ','.join(want_shape(x) for x in v[1]) + ']'
    return 'O{' + ','.join((dec(k).encode('utf-8').hex() or '-') + '=' + want_shape(x) for k, x in v[1]) + '}'


def value_of(v):
    """python value with exact literals (numbers kept as text) for comparing Example()"""
    if v[0] == 'L':
        return ('s', dec(v[1])) if v[1][0] == '"' else ('l', v[1])
    if v[0] == 'A':
        return [value_of(x) for x in v[1]]
    return [(dec(k), value_of(x)) for k, x in v[1]]


def parse_exact(text):
    """parse JSON text keeping number literals as text and member order"""
    def pairs(p):
        return [(k, x) for k, x in p]
    class Lit(str):
        pass
    out = json.loads(text, object_pairs_hook=pairs, parse_int=Lit, parse_float=Lit, parse_constant=Lit)

    def conv(x):
        if isinstance(x, Lit):
            return ('l', str(x))
        if x is True:
            return ('l', 'true')
        if x is False:
            return ('l', 'false')
        if x is None:
            return ('l', 'null')
        if isinstance(x, str):
            return ('s', re.sub('[\ud800-\udfff]', '�', x))
        if isinstance(x, list) and (not x or not (isinstance(x[0], tuple) and len(x[0]) == 2 and isinstance(x[0][0], str) and not isinstance(x[0], Lit))):
            return [conv(y) for y in x]
        return [(re.sub('[\ud800-\udfff]', '�', k), conv(y)) for k, y in x]
    return conv(out)


def dup_keys(v):
    if v[0] == 'A':
        return any(dup_keys(x) for x in v[1])
    if v[0] == 'O':
        ks = [dec(k) for k, _ in v[1]]
        return len(ks) != len(set(ks)) or any(dup_keys(x) for _, x in v[1])
    return False


def ast_shape(a):
    tt = a['TokenType']
    if tt == 'object':
        return 'O{' + ','.join((c['Key'].encode('utf-8', 'surrogatepass').hex() or '-') + '=' + ast_shape(c) for c in (a['Children'] or [])) + '}'
    if tt == 'array':
        return 'A[' + ','.join(ast_shape(c) for c in (a['Children'] or [])) + ']'
    return 'L%s:%s' % (a['SchemaType'], a['Value'].encode('utf-8', 'surrogatepass').hex() or '-')


class Prop:
    id = 'C03'
    level = 'proof'
    theorems_file = 'Properties/C03.v'
    exhaustive_note = ''

    def gen(self, rng, depth=0):
        r = rng.random()
        if depth >= 3 or r < 0.4:
            return ('L', rng.choice(SCAL))
        if r < 0.65:
            return ('A', [self.gen(rng, depth + 1) for _ in range(rng.randint(0, 3))])
        n = rng.randint(0, 3)
        keys = rng.sample(KEYS, n)
        if n >= 2 and rng.random() < 0.08:
            keys[1] = rng.choice(['"\\u0061"', '"a"']) if keys[0] in ('"a"', '"\\u0061"') else keys[0]     # a duplicate, possibly through an escape
        return ('O', [(k, self.gen(rng, depth + 1)) for k in keys])

    def cases(self, tier, rng):
        cs = []
        self.trees = {}
        def add(text, klass, tree=None):
            line = 'plain ' + hx(text)
            self.trees[line] = tree
            cs.append(Case(line, klass))
        # every scalar, every key, every whitespace at every gap of small containers
        for s in SCAL:
            for w1, w2 in itertools.product(WS[:5], repeat=2):
                add(w1 + s + w2, 'scalar', ('L', s))
        for k in KEYS:
            for s in SCAL[:8]:
                add('{%s:%s}' % (k, s), 'member', ('O', [(k, ('L', s))]))
        for a, b in itertools.product(KEYS, repeat=2):
            add('{%s:1,%s:2}' % (a, b), 'key-pair', ('O', [(a, ('L', '1')), (b, ('L', '2'))]))
        for ws in itertools.product(WS[:4], repeat=5):
            add('{%s"a"%s:%s[1%s,2]%s}' % ws, 'whitespace', ('O', [('"a"', ('A', [('L', '1'), ('L', '2')]))]))
        self.exhaustive_note = '%d scalars x 25 paddings; %d keys x 8 values; every ordered pair of keys (duplicates incl. by escape); 4^5 whitespace layouts of one document' % (len(SCAL), len(KEYS))
        n = 6000 if tier == 'quick' else 120000
        for _ in range(n):
            t = self.gen(rng)
            for _ in range(2):
                add(rng.choice(WS[:4]) + render(t, rng) + rng.choice(WS[:4]), 'random', t)
        # not JSON / outside the statement: exponents, trailing commas, garbage
        for bad in ['1e5', '[1,]', '{"a":1,}', '{"a" 1}', '[1 2]', '{', '[', '"a', '{"a":}', 'tru', '01', '1.', '-', '{"a":1}}', '[1]]', '1 2', '', ' ']:
            add(bad, 'malformed', None)
        return cs

    def run_impl(self, lines):
        out = []
        texts = [l.split(' ')[1] for l in lines]
        res = vf.run_impl(['proj all ' + t for t in texts])
        for r in res:
            m = re.match(r'check=(\S+) len=(\S+) used=(\S+) example=(\S+) ast=(\S+) openapi=', r)
            if not m:
                out.append(r)
                continue
            if m.group(1) != 'ok':
                out.append('rej ' + m.group(1).split('~')[0])
                continue
            if m.group(4).startswith('err:202'):
                out.append('rej empty-schema')      # no root value: Check() accepts the empty schema, there is nothing to preserve
                continue
            try:
                shape = ast_shape(json.loads(bytes.fromhex(m.group(5)).decode('utf-8', 'surrogatepass')))
            except Exception as e:
                shape = 'unreadable:' + m.group(5)[:40]
            out.append('ok ex=%s ast=%s' % (m.group(4), shape))
        return out

    def project(self, out):
        return 'rej' if out.startswith('rej') else out

    def nontrivial(self, c):
        return True

    def oracle(self, case, out):
        if 'panic' in out or 'TOOLCRASH' in out:
            return 'crash: ' + out[:160]
        tree = self.trees.get(case.line)
        if tree is None:
            return None
        text = bytes.fromhex(case.line.split(' ')[1]).decode('utf-8')
        if dup_keys(tree):
            return None if out.startswith('rej') else 'duplicate keys accepted'
        if not out.startswith('ok '):
            return 'a JSON text without exponents and duplicate keys is rejected: ' + out[:60]
        m = re.match(r'ok ex=(\S+) ast=(\S+)', out)
        try:
            ex = bytes.fromhex(m.group(1)).decode('utf-8')
            got = parse_exact(ex)
        except Exception as e:
            return 'Example() is not JSON: %r' % (m.group(1)[:60],)
        if got != value_of(tree):
            return 'Example() denotes another value: %r' % ex[:80]
        if m.group(2) != want_shape(tree):
            return 'GetAST() differs from the document: %s vs %s' % (m.group(2)[:80], want_shape(tree)[:80])
        return None

    def describe(self):
        return dict(
            rule='JSON documents: every scalar of a pool of 32 (escapes, non-ASCII, astral, HTML-sensitive characters, strings that look like annotations, '
                 'comments, shortcuts, long integers, -0, trailing zeros) with 25 paddings; every key of a pool of 16 with 8 values; every ordered pair of keys; '
                 '4^5 whitespace layouts of one document; random trees of depth <= 3 rendered twice with random whitespace; a list of malformed texts',
            trusted=['Coq 8.16.1 kernel', 'model coq/Model/JsonValue.v tied by correspondence on verdict, Example() bytes and the AST shape',
                     'python json module as the independent oracle for "denotes the same value"', 'extraction, driver, harness'],
            assumptions=['a lone surrogate escape is read as U+FFFD (as the code does)'],
            explanation='parser/printer model with round-trip theorems; correspondence on generated documents; independent oracle')
